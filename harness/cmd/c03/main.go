// C03 harness: restart reproduces the acknowledged state. Random histories over all data-modifying
// commands (incl. scripts, JSET/JDEL, expirations, hooks/channels), then a clean stop or kill -9 at
// a random instant under load, restart on the same directory, and comparison of the visible state.
package main

import (
	"fmt"
	"math/rand"
	"path/filepath"
	"strconv"
	"strings"
	"sync"
	"sync/atomic"
	"time"

	"verifharness/internal/hx"
	"verifharness/internal/srv"
)

func main() { hx.Main("C03", run) }

var keys = []string{"fleet", "zoo", "docs"}
var ids = []string{"a", "b", "c", "d"}
var fieldsN = []string{"speed", "props.x", "meta"}
var objs = [][]string{
	{"POINT", "33.5", "-112.1"}, {"POINT", "1", "2", "3"}, {"BOUNDS", "10", "10", "20", "20"}, {"HASH", "9tbnthxzr"},
	{"OBJECT", `{"type":"LineString","coordinates":[[0,0],[1,1]]}`}, {"OBJECT", `{"type":"Feature","geometry":{"type":"Point","coordinates":[5,6]},"properties":{"n":1}}`},
	{"STRING", "hello"}, {"STRING", `{"a":{"b":[1,2,3]},"n":5}`}, {"STRING", ""}, {"OBJECT", `{"type":"Polygon","coordinates":[[[0,0],[0,4],[4,4],[4,0],[0,0]]]}`},
}

func pick(rng *rand.Rand, l []string) string { return l[rng.Intn(len(l))] }

func luaCall(args []string) string {
	q := make([]string, len(args))
	for i, a := range args {
		q[i] = strconv.Quote(a)
	}
	return "return tile38.pcall(" + strings.Join(q, ",") + ")"
}

// one random data-modifying command
func genCmd(rng *rand.Rand, allowShortTTL bool) []string {
	k, id := pick(rng, keys), pick(rng, ids)
	switch x := rng.Intn(100); {
	case x < 30:
		a := []string{"SET", k, id}
		for i := rng.Intn(3); i > 0; i-- {
			a = append(a, "FIELD", pick(rng, fieldsN), []string{"0", "1.5", "-7", `{"j":1}`, "text", "1e3"}[rng.Intn(6)])
		}
		switch rng.Intn(6) {
		case 0:
			a = append(a, "EX", "5000")
		case 1:
			if allowShortTTL {
				a = append(a, "EX", "0.3")
			}
		}
		switch rng.Intn(8) {
		case 0:
			a = append(a, "NX")
		case 1:
			a = append(a, "XX")
		}
		return append(a, objs[rng.Intn(len(objs))]...)
	case x < 40:
		return []string{"FSET", k, id, pick(rng, fieldsN), []string{"0", "2", "-3.25", `"s"`, "abc"}[rng.Intn(5)]}
	case x < 48:
		return []string{"DEL", k, id}
	case x < 52:
		return []string{"PDEL", k, []string{"*", "a*", "[b-c]", "?"}[rng.Intn(4)]}
	case x < 55:
		return []string{"DROP", k}
	case x < 60:
		return []string{[]string{"RENAME", "RENAMENX"}[rng.Intn(2)], k, pick(rng, keys)}
	case x < 61:
		return []string{"FLUSHDB"}
	case x < 67:
		return []string{"EXPIRE", k, id, "6000"}
	case x < 71:
		return []string{"PERSIST", k, id}
	case x < 78:
		return []string{"JSET", "docs", id, []string{"a.b", "n", "arr.-1", "s"}[rng.Intn(4)], []string{"1", `"str"`, `{"z":2}`, "true"}[rng.Intn(4)]}
	case x < 82:
		return []string{"JDEL", "docs", id, []string{"a.b", "n", "arr.0", "s"}[rng.Intn(4)]}
	case x < 87:
		n := "h" + strconv.Itoa(rng.Intn(3))
		a := []string{[]string{"SETHOOK", "SETCHAN"}[rng.Intn(2)], n}
		if a[0] == "SETHOOK" {
			a = append(a, "http://127.0.0.1:1/"+n)
		}
		if rng.Intn(2) == 0 {
			a = append(a, "META", "m1", "v"+strconv.Itoa(rng.Intn(9)))
		}
		if rng.Intn(3) == 0 {
			a = append(a, "EX", "7000")
		}
		return append(a, "NEARBY", k, "FENCE", "DETECT", "enter,exit", "POINT", "33", "-112", "5000")
	case x < 90:
		return []string{[]string{"DELHOOK", "DELCHAN", "PDELHOOK", "PDELCHAN"}[rng.Intn(4)], []string{"h0", "h1", "h*"}[rng.Intn(3)]}
	default:
		inner := genCmd(rng, false)
		for inner[0] == "SETHOOK" || inner[0] == "SETCHAN" || strings.Contains(inner[0], "DEL") && strings.Contains(inner[0], "HOOK") || strings.HasSuffix(inner[0], "CHAN") || inner[0] == "EVAL" || inner[0] == "EVALNA" {
			inner = genCmd(rng, false)
		}
		return []string{[]string{"EVAL", "EVALNA"}[rng.Intn(2)], luaCall(inner), "0"}
	}
}

func run(r *hx.Result, cfg hx.Config) {
	r.Rule = "history = 40-120 random data-modifying commands (SET with FIELD/EX/NX/XX and every object kind, FSET, DEL, PDEL, DROP, RENAME(NX), FLUSHDB, EXPIRE, PERSIST, JSET, JDEL, SETHOOK/SETCHAN with META/EX, DEL/PDELHOOK/CHAN, each also through EVAL/EVALNA) with sub-second TTLs left to expire; quiescent mode: dump, clean stop or kill -9, restart, dump must be identical (has-deadline included); load mode: several connections write increasing sequence numbers, the process is killed at a random instant, after restart every key holds at least its last acknowledged number and at most its last sent one, and a further restart changes nothing. non-trivial = distinct history with at least 10 effective writes of at least 5 command kinds."
	r.Assumptions = []string{"kill -9 leaves the bytes already written to the file (page cache survives a process kill)", "srv.Dump is the visible state: KEYS, SCAN with fields, TTL class, HOOKS, CHANS"}
	rng := rand.New(rand.NewSource(cfg.Seed))
	n := 14
	if cfg.Tier == "thorough" || cfg.Search {
		n = 200
	}
	type job struct {
		i    int
		seed int64
	}
	jobs := make(chan job)
	var mu sync.Mutex
	var wg sync.WaitGroup
	worker := func() {
		defer wg.Done()
		for j := range jobs {
			func() {
				lr := rand.New(rand.NewSource(j.seed))
				dir := filepath.Join(cfg.Work, fmt.Sprintf("q%d", j.i))
				s, err := srv.Start(dir)
				if err != nil {
					panic(err)
				}
				defer func() { s.Kill() }()
				c := s.MustDial()
				kinds := map[string]bool{}
				effective := 0
				var hist []string
				ncmd := 40 + lr.Intn(80)
				for k := 0; k < ncmd; k++ {
					a := genCmd(lr, true)
					v, err := c.Do(a...)
					if err != nil {
						mu.Lock()
						r.Fail(hx.Failure{Kind: "oracle", Signature: "server-died", What: fmt.Sprintf("connection lost on %q: %v; log: %s", a, err, s.LogTail(500)), Case: hist})
						mu.Unlock()
						return
					}
					hist = append(hist, strings.Join(a, " "))
					if v.Kind != '-' && v.String() != ":0" && v.String() != "nil" {
						effective++
						kinds[a[0]] = true
					}
				}
				time.Sleep(700 * time.Millisecond) // let the 0.3 s deadlines pass and the sweeper log them
				before := srv.Dump(c)
				c.Close()
				how := "stop"
				if lr.Intn(2) == 0 {
					how = "kill"
					s.Kill()
				} else {
					s.Stop()
				}
				s2, err := srv.StartPort(dir, srv.FreePort())
				mu.Lock()
				defer mu.Unlock()
				r.Count(strings.Join(hist, ";"), effective >= 10 && len(kinds) >= 5)
				r.Dist("quiescent:" + how)
				r.TracesImpl++
				if err != nil {
					r.Fail(hx.Failure{Kind: "oracle", Signature: "restart-failed", What: "server did not restart after " + how + ": " + err.Error(), Case: hist})
					return
				}
				s = s2
				c2 := s2.MustDial()
				after := srv.Dump(c2)
				c2.Close()
				r.Sample(3, map[string]interface{}{"mode": "quiescent/" + how, "commands": len(hist), "effective": effective, "first": hist[:5], "dump_lines": strings.Count(before, "\n")})
				if after != before {
					r.Fail(hx.Failure{Kind: "oracle", Signature: "restart-state-differs", What: "the visible state after restart (" + how + ") differs from the acknowledged state before it: " + firstDiff(before, after),
						Case: map[string]interface{}{"history": hist, "before": before, "after": after}})
				}
			}()
		}
	}
	for w := 0; w < 7; w++ {
		wg.Add(1)
		go worker()
	}
	for i := 0; i < n; i++ {
		jobs <- job{i, rng.Int63()}
	}
	close(jobs)
	wg.Wait()

	// ---- kill under load ----
	loads := 3
	if cfg.Tier == "thorough" || cfg.Search {
		loads = 40
	}
	for l := 0; l < loads; l++ {
		dir := filepath.Join(cfg.Work, fmt.Sprintf("load%d", l))
		s, err := srv.Start(dir)
		if err != nil {
			panic(err)
		}
		nconn := 2 + rng.Intn(6)
		acked := make([]int64, nconn)
		sent := make([]int64, nconn)
		var wg2 sync.WaitGroup
		stop := make(chan struct{})
		for ci := 0; ci < nconn; ci++ {
			wg2.Add(1)
			go func(ci int) {
				defer wg2.Done()
				c, err := s.Dial()
				if err != nil {
					return
				}
				defer c.Close()
				for n := int64(1); ; n++ {
					select {
					case <-stop:
						return
					default:
					}
					atomic.StoreInt64(&sent[ci], n)
					var v srv.Value
					var err error
					if n%5 == 0 {
						v, err = c.Do("EVAL", luaCall([]string{"set", "load", "c" + strconv.Itoa(ci), "string", strconv.FormatInt(n, 10)}), "0")
					} else {
						v, err = c.Do("SET", "load", "c"+strconv.Itoa(ci), "STRING", strconv.FormatInt(n, 10))
					}
					if err != nil {
						return
					}
					if v.Kind != '-' {
						atomic.StoreInt64(&acked[ci], n)
					}
				}
			}(ci)
		}
		time.Sleep(time.Duration(30+rng.Intn(400)) * time.Millisecond)
		s.Kill()
		close(stop)
		wg2.Wait()
		s2, err := srv.StartPort(dir, srv.FreePort())
		r.Count(fmt.Sprintf("load %d conns %v", nconn, acked), true)
		r.Dist("load:kill")
		r.TracesImpl++
		if err != nil {
			r.Fail(hx.Failure{Kind: "oracle", Signature: "restart-failed", What: "server did not restart after kill under load: " + err.Error()})
			continue
		}
		c := s2.MustDial()
		for ci := 0; ci < nconn; ci++ {
			v := c.MustDo("GET", "load", "c"+strconv.Itoa(ci))
			got := int64(0)
			if v.Kind == '$' {
				got, _ = strconv.ParseInt(v.Str, 10, 64)
			}
			a, sN := atomic.LoadInt64(&acked[ci]), atomic.LoadInt64(&sent[ci])
			if got < a || got > sN {
				r.Fail(hx.Failure{Kind: "oracle", Signature: "acked-write-lost", What: fmt.Sprintf("connection %d: last acknowledged write %d, last sent %d, after kill -9 and restart the key holds %d", ci, a, sN, got),
					Case: map[string]interface{}{"connections": nconn}})
			}
		}
		d1 := srv.Dump(c)
		c.Close()
		s2.Stop()
		s3, err := srv.StartPort(dir, srv.FreePort())
		if err == nil {
			c3 := s3.MustDial()
			d2 := srv.Dump(c3)
			c3.Close()
			s3.Kill()
			if d1 != d2 {
				r.Fail(hx.Failure{Kind: "oracle", Signature: "second-restart-differs", What: "a second restart changed the state: " + firstDiff(d1, d2)})
			}
		}
		r.Sample(5, map[string]interface{}{"mode": "kill-under-load", "connections": nconn, "acked": acked, "sent": sent})
	}
}

func firstDiff(a, b string) string {
	la, lb := strings.Split(a, "\n"), strings.Split(b, "\n")
	for i := 0; i < len(la) || i < len(lb); i++ {
		x, y := "", ""
		if i < len(la) {
			x = la[i]
		}
		if i < len(lb) {
			y = lb[i]
		}
		if x != y {
			return fmt.Sprintf("line %d: before %q / after %q", i, x, y)
		}
	}
	return "(equal)"
}
