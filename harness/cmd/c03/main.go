// C03 harness: restart reproduces the acknowledged state. Random histories over all data-modifying
// commands (incl. scripts, JSET/JDEL, expirations, hooks/channels), then a clean stop or kill -9 at
// a random instant under load, restart on the same directory, and comparison of the visible state.
package main

import (
	"encoding/json"
	"fmt"
	"math"
	"math/rand"
	"os"
	"path/filepath"
	"sort"
	"strconv"
	"strings"
	"sync"
	"sync/atomic"
	"time"

	"verifharness/internal/hooklife"
	"verifharness/internal/hx"
	"verifharness/internal/srv"
)

func main() { hx.Main("C03", run) }

var keys = []string{"fleet", "zoo", "docs"}
var ids = []string{"a", "b", "c", "d"}
var fieldsN = []string{"speed", "props.x", "meta"}
var objs = [][]string{
	{"POINT", "33.5", "-112.1"}, {"POINT", "1", "2", "3"}, {"BOUNDS", "10", "10", "20", "20"}, {"HASH", "9tbnthxzr"},
	{"OBJECT", `{"type":"LineString","coordinates":[[0,0],[1,1]]}`}, {"OBJECT", `{"type":"Feature","geometry":{"type":"Point","coordinates":[5,6]},"properties":{"n":1}}`},
	{"STRING", "hello"}, {"STRING", `{"a":{"b":[1,2,3]},"n":5}`}, {"STRING", ""}, {"OBJECT", `{"type":"Polygon","coordinates":[[[0,0],[0,4],[4,4],[4,0],[0,0]]]}`},
}

func pick(rng *rand.Rand, l []string) string { return l[rng.Intn(len(l))] }

func luaCall(args []string) string {
	q := make([]string, len(args))
	for i, a := range args {
		q[i] = strconv.Quote(a)
	}
	return "return tile38.pcall(" + strings.Join(q, ",") + ")"
}

// one random data-modifying command, not wrapped in a script
func genPlain(rng *rand.Rand, allowShortTTL bool) []string {
	if rng.Intn(11) == 0 {
		return genRefused(rng)
	}
	k, id := pick(rng, keys), pick(rng, ids)
	switch x := rng.Intn(90); {
	case x < 30:
		a := []string{"SET", k, id}
		for i := rng.Intn(3); i > 0; i-- {
			a = append(a, "FIELD", pick(rng, fieldsN), []string{"0", "1.5", "-7", `{"j":1}`, "text", "1e3"}[rng.Intn(6)])
		}
		switch rng.Intn(6) {
		case 0:
			a = append(a, "EX", "5000")
		case 1:
			if allowShortTTL {
				a = append(a, "EX", "0.3")
			}
		}
		switch rng.Intn(8) {
		case 0:
			a = append(a, "NX")
		case 1:
			a = append(a, "XX")
		}
		return append(a, objs[rng.Intn(len(objs))]...)
	case x < 40:
		return []string{"FSET", k, id, pick(rng, fieldsN), []string{"0", "2", "-3.25", `"s"`, "abc"}[rng.Intn(5)]}
	case x < 48:
		return []string{"DEL", k, id}
	case x < 52:
		return []string{"PDEL", k, []string{"*", "a*", "[b-c]", "?"}[rng.Intn(4)]}
	case x < 55:
		return []string{"DROP", k}
	case x < 60:
		return []string{[]string{"RENAME", "RENAMENX"}[rng.Intn(2)], k, pick(rng, keys)}
	case x < 61:
		return []string{"FLUSHDB"}
	case x < 67:
		return []string{"EXPIRE", k, id, "6000"}
	case x < 71:
		return []string{"PERSIST", k, id}
	case x < 78:
		return []string{"JSET", "docs", id, []string{"a.b", "n", "arr.-1", "s"}[rng.Intn(4)], []string{"1", `"str"`, `{"z":2}`, "true"}[rng.Intn(4)]}
	case x < 82:
		return []string{"JDEL", "docs", id, []string{"a.b", "n", "arr.0", "s"}[rng.Intn(4)]}
	case x < 87:
		n := "h" + strconv.Itoa(rng.Intn(3))
		a := []string{[]string{"SETHOOK", "SETCHAN"}[rng.Intn(2)], n}
		if a[0] == "SETHOOK" {
			a = append(a, "http://127.0.0.1:1/"+n)
		}
		if rng.Intn(2) == 0 {
			a = append(a, "META", "m1", "v"+strconv.Itoa(rng.Intn(9)))
		}
		if rng.Intn(3) == 0 {
			a = append(a, "EX", "7000")
		}
		return append(a, "NEARBY", k, "FENCE", "DETECT", "enter,exit", "POINT", "33", "-112", "5000")
	default:
		return []string{[]string{"DELHOOK", "DELCHAN", "PDELHOOK", "PDELCHAN"}[rng.Intn(4)], []string{"h0", "h1", "h*"}[rng.Intn(3)]}
	}
}

// genRefused: a command the server refuses, answers with an error, or answers "nothing done",
// mostly on a key that does NOT exist (ghost0..2 are never written by anything else; RENAME can move
// them around like any other key). Such a command must leave nothing behind — neither in memory
// (a registered but empty collection shows in KEYS and is a valid RENAME source) nor in the log.
func genRefused(rng *rand.Rand) []string {
	g := "ghost" + strconv.Itoa(rng.Intn(3))
	if rng.Intn(4) == 0 {
		g = pick(rng, keys)
	}
	id := pick(rng, ids)
	switch rng.Intn(22) {
	case 0, 1, 2:
		return []string{"JSET", g, id, "", []string{"x", "5", `{"a":1}`}[rng.Intn(3)]}
	case 3:
		return []string{"JSET", g, id, "", "5", []string{"RAW", "STR"}[rng.Intn(2)]}
	case 4:
		return []string{"JSET", g, id, "a.b", "1", "BOGUS"}
	case 5:
		return []string{"JSET", g, id, "a.b"}
	case 6:
		return []string{"JSET", g, id, "type", "Bogus"} // on a geometry: the re-parse fails
	case 7:
		return []string{"SET", g, id, "XX", "POINT", "1", "1"}
	case 8:
		return []string{"SET", g, id, "XX", "EX", "5000", "STRING", "v"}
	case 9:
		return [][]string{{"SET", g, id}, {"SET", g, id, "POINT", "1"}, {"SET", g, id, "POINT", "1", "x"}, {"SET", g, id, "OBJECT", `{"type":"Poi`},
			{"SET", g, id, "FIELD", "speed"}, {"SET", g, id, "EX", "abc", "POINT", "1", "1"}, {"SET", g, id, "BOGUS", "1", "1"}, {"SET", g, id, "HASH", "!!"}}[rng.Intn(8)]
	case 10:
		return []string{"FSET", g, id, "speed", "1"}
	case 11:
		return []string{"FSET", g, id, "XX", "speed", "1"}
	case 12:
		return []string{"EXPIRE", g, id, "5000"}
	case 13:
		return []string{"PERSIST", g, id}
	case 14, 15:
		return []string{"RENAME", g, pick(rng, keys)}
	case 16:
		return []string{"RENAMENX", g, pick(rng, keys)}
	case 17:
		return []string{"RENAME", g, g}
	case 18:
		return []string{"JDEL", g, id, []string{"a", "", "a.*"}[rng.Intn(3)]}
	case 19:
		return []string{"DEL", g, id}
	case 20:
		return []string{"PDEL", g, "*"}
	default:
		return []string{"DROP", g}
	}
}

func isHookCmd(a []string) bool {
	return strings.HasSuffix(a[0], "HOOK") || strings.HasSuffix(a[0], "CHAN")
}

func hasShortTTL(a []string) bool {
	for i := 0; i+1 < len(a); i++ {
		if a[i] == "EX" && a[i+1] == "0.3" {
			return true
		}
	}
	return false
}

// wrap: one time in ten a (non-hook) command goes through EVAL / EVALNA
func wrap(rng *rand.Rand, inner []string) []string {
	if rng.Intn(10) != 0 || isHookCmd(inner) || hasShortTTL(inner) {
		return inner
	}
	return []string{[]string{"EVAL", "EVALNA"}[rng.Intn(2)], luaCall(inner), "0"}
}

var objWords = map[string]bool{"POINT": true, "BOUNDS": true, "HASH": true, "OBJECT": true, "STRING": true}

// toggle re-issues an earlier command of the history with ONE option changed: the point is that
// the second command has a small or partial effect (only the deadline, only one field, nothing at
// all) and must replay all the same. SET: EX added / removed / changed, NX or XX added or removed,
// one FIELD dropped or its value changed; SETHOOK/SETCHAN: EX added / removed / changed, META
// value changed; EXPIRE: same or other value; everything else: sent again verbatim.
func toggle(rng *rand.Rand, src []string, allowShortTTL bool) []string {
	a := append([]string{}, src...)
	exVals := []string{"5000", "7000", "9000"}
	if allowShortTTL && rng.Intn(6) == 0 {
		exVals = []string{"0.3"}
	}
	toggleEX := func(from, to int) []string { // option region a[from:to]
		for i := from; i+1 < to; i++ {
			if a[i] == "EX" {
				if rng.Intn(2) == 0 { // removed
					return append(append([]string{}, a[:i]...), a[i+2:]...)
				}
				nv := pick(rng, exVals)
				for nv == a[i+1] {
					nv = pick(rng, []string{"5000", "7000", "9000"})
				}
				a[i+1] = nv
				return a
			}
		}
		out := append([]string{}, a[:to]...)
		out = append(out, "EX", pick(rng, exVals))
		return append(out, a[to:]...)
	}
	switch a[0] {
	case "SET":
		if len(a) < 4 {
			return a
		}
		oi := len(a)
		var fieldAt []int
		flagAt := -1
		for i := 3; i < len(a); {
			switch {
			case a[i] == "FIELD" && i+2 < len(a):
				fieldAt = append(fieldAt, i)
				i += 3
			case a[i] == "EX" && i+1 < len(a):
				i += 2
			case a[i] == "NX" || a[i] == "XX":
				flagAt = i
				i++
			default:
				oi = i
				i = len(a) + 1
			}
		}
		if oi >= len(a) || !objWords[a[oi]] {
			return a
		}
		switch m := rng.Intn(10); {
		case m < 5:
			return toggleEX(3, oi)
		case m < 7:
			if flagAt >= 0 {
				if rng.Intn(2) == 0 {
					return append(append([]string{}, a[:flagAt]...), a[flagAt+1:]...)
				}
				a[flagAt] = map[string]string{"NX": "XX", "XX": "NX"}[a[flagAt]]
				return a
			}
			out := append([]string{}, a[:oi]...)
			out = append(out, []string{"NX", "XX"}[rng.Intn(2)])
			return append(out, a[oi:]...)
		default:
			if len(fieldAt) == 0 {
				out := append([]string{}, a[:3]...)
				out = append(out, "FIELD", pick(rng, fieldsN), "4")
				return append(out, a[3:]...)
			}
			f := fieldAt[rng.Intn(len(fieldAt))]
			if rng.Intn(2) == 0 {
				return append(append([]string{}, a[:f]...), a[f+3:]...)
			}
			a[f+2] = pick(rng, []string{"0", "11", "-7", "other"})
			return a
		}
	case "SETHOOK", "SETCHAN":
		ni := -1
		for i, x := range a {
			if x == "NEARBY" {
				ni = i
				break
			}
		}
		if ni < 0 {
			return a
		}
		if rng.Intn(3) == 0 {
			for i := 2; i+2 < ni; i++ {
				if a[i] == "META" {
					a[i+2] = "w" + strconv.Itoa(rng.Intn(9))
					return a
				}
			}
		}
		return toggleEX(2, ni)
	case "EXPIRE":
		if rng.Intn(2) == 0 && len(a) == 4 {
			a[3] = pick(rng, []string{"6000", "8000"})
		}
		return a
	case "FSET":
		if rng.Intn(2) == 0 && len(a) == 5 {
			a[4] = pick(rng, []string{"0", "2", "abc"})
		}
		return a
	}
	return a
}

func run(r *hx.Result, cfg hx.Config) {
	r.Rule = "first two directed histories of 123 commands with small / partial / empty effects, incl. 38 refused / erroring / nothing-done commands on missing and existing keys (JSET with the empty path, a bad flag, too few arguments; SET XX, malformed SET, FSET, EXPIRE, PERSIST, JDEL, DEL, PDEL, DROP, RENAME(NX) of a missing key, through EVAL too) with the extra oracle that a command answered with an error leaves the dump unchanged; two timed histories (80 ids: SET EX 0.02, 25-75 ms later SET NX / XX / PERSIST / EXPIRE / FSET / JSET / DEL on the same id, i.e. between deadline and collection; dump once nothing is pending, restart, dump); the random generator issues refused commands on never-written keys ghost0..2 one step in eleven; (identical SET with EX added, changed, dropped; one FIELD changed; NX/XX; unchanged FSET; EXPIRE to the same value; PERSIST twice; repeated JSET/JDEL; RENAME onto itself; identical SETCHAN/SETHOOK with another EX; through EVAL and TIMEOUT), state incl. TTLs rounded to 100 s taken after every command: restart (kill / stop) reproduces it, and every command that changed it has its record in appendonly.aof; then history = 40-120 random data-modifying commands (SET with FIELD/EX/NX/XX and every object kind, FSET, DEL, PDEL, DROP, RENAME(NX), FLUSHDB, EXPIRE, PERSIST, JSET, JDEL, SETHOOK/SETCHAN with META/EX, DEL/PDELHOOK/CHAN, each also through EVAL/EVALNA) where 22% of the steps re-send an earlier command of the history with one option toggled (EX added/removed/changed, NX/XX, one FIELD dropped or changed, META changed), with sub-second TTLs left to expire; quiescent mode: dump, clean stop or kill -9, restart, dump must be identical (has-deadline included); load mode: several connections write increasing sequence numbers, the process is killed at a random instant, after restart every key holds at least its last acknowledged number and at most its last sent one, and a further restart changes nothing. non-trivial = distinct history with at least 10 effective writes of at least 5 command kinds."
	r.Assumptions = []string{"kill -9 leaves the bytes already written to the file (page cache survives a process kill)", "srv.Dump is the visible state: KEYS, SCAN with fields, TTL class, HOOKS, CHANS"}
	rng := rand.New(rand.NewSource(cfg.Seed))
	// directed regression histories first: commands whose effect is small or partial
	for _, how := range []string{"kill", "stop"} {
		runDirected(r, cfg, how)
	}
	// timed directed history: writes that arrive between an object's deadline and its collection
	for _, how := range []string{"kill", "stop"} {
		runTimed(r, cfg, how, rng.Int63())
	}
	// writes acknowledged while an AOFSHRINK is in progress, then restart on the rewritten log
	// (shrinktail.go; own random stream so that the histories below keep their seeds)
	runShrinkTail(r, cfg, rand.New(rand.NewSource(cfg.Seed^0x5ca1ab1e)))
	// a kill in the middle of a log write: recovery of a torn tail, short writes, second restart
	// (torntail.go; the tie of c03_crash_prefix)
	runTornTail(r, cfg, rand.New(rand.NewSource(cfg.Seed^0x7011ed)))
	// reads of the log by a running server (AOFMD5, AOF, SERVER, AOFSHRINK) between acknowledged
	// writes: the file stays the concatenation of the records (logpos.go; Props/C03pos.v)
	runLogPos(r, cfg, rand.New(rand.NewSource(cfg.Seed^0x10c905)))
	n := 14
	if cfg.Tier == "thorough" || cfg.Search {
		n = 200
	}
	type job struct {
		i    int
		seed int64
	}
	jobs := make(chan job)
	var mu sync.Mutex
	var wg sync.WaitGroup
	worker := func() {
		defer wg.Done()
		for j := range jobs {
			func() {
				lr := rand.New(rand.NewSource(j.seed))
				dir := filepath.Join(cfg.Work, fmt.Sprintf("q%d", j.i))
				s, err := srv.Start(dir)
				if err != nil {
					panic(err)
				}
				defer func() { s.Kill() }()
				c := s.MustDial()
				kinds := map[string]bool{}
				effective := 0
				var hist []string
				var plain [][]string // the history without script wrapping, for re-sends
				resends := 0
				ncmd := 40 + lr.Intn(80)
				for k := 0; k < ncmd; k++ {
					var inner []string
					if len(plain) > 0 && lr.Intn(100) < 22 {
						// re-send a (mostly recent) earlier command with one option toggled
						back := 1 + lr.Intn(8)
						if lr.Intn(4) == 0 || back > len(plain) {
							back = 1 + lr.Intn(len(plain))
						}
						inner = toggle(lr, plain[len(plain)-back], true)
						resends++
					} else {
						inner = genPlain(lr, true)
					}
					plain = append(plain, inner)
					a := wrap(lr, inner)
					v, err := c.Do(a...)
					if err != nil {
						mu.Lock()
						r.Fail(hx.Failure{Kind: "oracle", Signature: "server-died", What: fmt.Sprintf("connection lost on %q: %v; log: %s", a, err, s.LogTail(500)), Case: hist})
						mu.Unlock()
						return
					}
					hist = append(hist, strings.Join(a, " "))
					if v.Kind != '-' && v.String() != ":0" && v.String() != "nil" {
						effective++
						kinds[a[0]] = true
					}
				}
				time.Sleep(700 * time.Millisecond) // let the 0.3 s deadlines pass and the sweeper log them
				before := srv.Dump(c)
				c.Close()
				how := "stop"
				if lr.Intn(2) == 0 {
					how = "kill"
					s.Kill()
				} else {
					s.Stop()
				}
				s2, err := srv.StartPort(dir, srv.FreePort())
				mu.Lock()
				defer mu.Unlock()
				r.Count(strings.Join(hist, ";"), effective >= 10 && len(kinds) >= 5)
				r.Dist("quiescent:" + how)
				for i := 0; i < resends; i++ {
					r.Dist("resend-toggled")
				}
				r.TracesImpl++
				if err != nil {
					r.Fail(hx.Failure{Kind: "oracle", Signature: "restart-failed", What: "server did not restart after " + how + ": " + err.Error(), Case: hist})
					return
				}
				s = s2
				c2 := s2.MustDial()
				after := srv.Dump(c2)
				c2.Close()
				r.Sample(3, map[string]interface{}{"mode": "quiescent/" + how, "commands": len(hist), "effective": effective, "first": hist[:5], "dump_lines": strings.Count(before, "\n")})
				if after != before {
					r.Fail(hx.Failure{Kind: "oracle", Signature: "restart-state-differs", What: "the visible state after restart (" + how + ") differs from the acknowledged state before it: " + firstDiff(before, after),
						Case: map[string]interface{}{"history": hist, "before": before, "after": after}})
				}
			}()
		}
	}
	for w := 0; w < 7; w++ {
		wg.Add(1)
		go worker()
	}
	for i := 0; i < n; i++ {
		jobs <- job{i, rng.Int63()}
	}
	close(jobs)
	wg.Wait()

	// ---- kill under load ----
	loads := 3
	if cfg.Tier == "thorough" || cfg.Search {
		loads = 40
	}
	for l := 0; l < loads; l++ {
		dir := filepath.Join(cfg.Work, fmt.Sprintf("load%d", l))
		s, err := srv.Start(dir)
		if err != nil {
			panic(err)
		}
		nconn := 2 + rng.Intn(6)
		acked := make([]int64, nconn)
		sent := make([]int64, nconn)
		var wg2 sync.WaitGroup
		stop := make(chan struct{})
		for ci := 0; ci < nconn; ci++ {
			wg2.Add(1)
			go func(ci int) {
				defer wg2.Done()
				c, err := s.Dial()
				if err != nil {
					return
				}
				defer c.Close()
				for n := int64(1); ; n++ {
					select {
					case <-stop:
						return
					default:
					}
					atomic.StoreInt64(&sent[ci], n)
					var v srv.Value
					var err error
					if n%5 == 0 {
						v, err = c.Do("EVAL", luaCall([]string{"set", "load", "c" + strconv.Itoa(ci), "string", strconv.FormatInt(n, 10)}), "0")
					} else {
						v, err = c.Do("SET", "load", "c"+strconv.Itoa(ci), "STRING", strconv.FormatInt(n, 10))
					}
					if err != nil {
						return
					}
					if v.Kind != '-' {
						atomic.StoreInt64(&acked[ci], n)
					}
				}
			}(ci)
		}
		time.Sleep(time.Duration(30+rng.Intn(400)) * time.Millisecond)
		s.Kill()
		close(stop)
		wg2.Wait()
		s2, err := srv.StartPort(dir, srv.FreePort())
		r.Count(fmt.Sprintf("load %d conns %v", nconn, acked), true)
		r.Dist("load:kill")
		r.TracesImpl++
		if err != nil {
			r.Fail(hx.Failure{Kind: "oracle", Signature: "restart-failed", What: "server did not restart after kill under load: " + err.Error()})
			continue
		}
		c := s2.MustDial()
		for ci := 0; ci < nconn; ci++ {
			v := c.MustDo("GET", "load", "c"+strconv.Itoa(ci))
			got := int64(0)
			if v.Kind == '$' {
				got, _ = strconv.ParseInt(v.Str, 10, 64)
			}
			a, sN := atomic.LoadInt64(&acked[ci]), atomic.LoadInt64(&sent[ci])
			if got < a || got > sN {
				r.Fail(hx.Failure{Kind: "oracle", Signature: "acked-write-lost", What: fmt.Sprintf("connection %d: last acknowledged write %d, last sent %d, after kill -9 and restart the key holds %d", ci, a, sN, got),
					Case: map[string]interface{}{"connections": nconn}})
			}
		}
		d1 := srv.Dump(c)
		c.Close()
		s2.Stop()
		s3, err := srv.StartPort(dir, srv.FreePort())
		if err == nil {
			c3 := s3.MustDial()
			d2 := srv.Dump(c3)
			c3.Close()
			s3.Kill()
			if d1 != d2 {
				r.Fail(hx.Failure{Kind: "oracle", Signature: "second-restart-differs", What: "a second restart changed the state: " + firstDiff(d1, d2)})
			}
		}
		r.Sample(5, map[string]interface{}{"mode": "kill-under-load", "connections": nconn, "acked": acked, "sent": sent})
	}

	// ---- hooks and channels against the life-cycle model (coq/Model/HookLife.v, Props/C03hk.v) ----
	hooklife.RunC03(r, cfg)
}

func firstDiff(a, b string) string {
	la, lb := strings.Split(a, "\n"), strings.Split(b, "\n")
	for i := 0; i < len(la) || i < len(lb); i++ {
		x, y := "", ""
		if i < len(la) {
			x = la[i]
		}
		if i < len(lb) {
			y = lb[i]
		}
		if x != y {
			return fmt.Sprintf("line %d: before %q / after %q", i, x, y)
		}
	}
	return "(equal)"
}

// ---------- directed regression histories + AOF-level oracle ----------

// fineDump = srv.Dump plus what srv.Dump abstracts away but a restart must still reproduce: the
// remaining time of every object deadline and every hook/channel deadline, rounded to 100 s (the
// directed histories only use deadlines of thousands of seconds that are 1000 s apart, so the
// rounding hides the seconds that pass and nothing else).
func fineDump(c *srv.Conn) string {
	var sb strings.Builder
	sb.WriteString(srv.Dump(c))
	round := func(t float64) string { return strconv.Itoa(int(math.Round(t/100)) * 100) }
	kv := c.MustDo("KEYS", "*")
	var ks []string
	for _, k := range kv.Array {
		ks = append(ks, k.Str)
	}
	sort.Strings(ks)
	for _, k := range ks {
		v := c.MustDo("SCAN", k, "LIMIT", "100000000", "IDS")
		if len(v.Array) != 2 {
			continue
		}
		for _, id := range v.Array[1].Array {
			t := c.MustDo("TTL", k, id.Str)
			if t.Kind == ':' && t.Int >= 0 {
				sb.WriteString("TTL " + k + " " + id.Str + " ~" + round(float64(t.Int)) + "\n")
			}
		}
	}
	c.MustDo("OUTPUT", "json")
	for _, what := range []string{"HOOKS", "CHANS"} {
		v := c.MustDo(what, "*")
		var reply map[string]json.RawMessage
		var items []struct {
			Name string  `json:"name"`
			TTL  float64 `json:"ttl"`
		}
		if json.Unmarshal([]byte(v.Str), &reply) == nil {
			json.Unmarshal(reply[strings.ToLower(what)], &items)
		}
		sort.Slice(items, func(i, j int) bool { return items[i].Name < items[j].Name })
		for _, it := range items {
			if it.TTL >= 0 {
				sb.WriteString(what + "-TTL " + it.Name + " ~" + round(it.TTL) + "\n")
			}
		}
	}
	c.MustDo("OUTPUT", "resp")
	return sb.String()
}

// parseAOF reads a log of RESP arrays of bulk strings; ok=false when the file does not parse to its end
func parseAOF(path string) (recs [][]string, ok bool) {
	b, err := os.ReadFile(path)
	if err != nil {
		return nil, false
	}
	i := 0
	line := func() (string, bool) {
		j := i
		for j+1 < len(b) && !(b[j] == '\r' && b[j+1] == '\n') {
			j++
		}
		if j+1 >= len(b) {
			return "", false
		}
		l := string(b[i:j])
		i = j + 2
		return l, true
	}
	for i < len(b) {
		l, good := line()
		if !good || len(l) < 2 || l[0] != '*' {
			return recs, false
		}
		n, err := strconv.Atoi(l[1:])
		if err != nil || n < 0 {
			return recs, false
		}
		rec := make([]string, 0, n)
		for k := 0; k < n; k++ {
			l, good := line()
			if !good || len(l) < 2 || l[0] != '$' {
				return recs, false
			}
			m, err := strconv.Atoi(l[1:])
			if err != nil || m < 0 || i+m+2 > len(b) {
				return recs, false
			}
			rec = append(rec, string(b[i:i+m]))
			i += m + 2
		}
		recs = append(recs, rec)
	}
	return recs, true
}

func sameRecord(rec, args []string) bool {
	if len(rec) != len(args) || len(rec) == 0 || !strings.EqualFold(rec[0], args[0]) {
		return false
	}
	for i := 1; i < len(rec); i++ {
		if rec[i] != args[i] {
			return false
		}
	}
	return true
}

type dcmd struct {
	wire []string // what is sent
	log  []string // the record the log must hold if the command changes anything (= wire unless wrapped)
}

func plainCmd(a ...string) dcmd { return dcmd{a, a} }
func evalCmd(a ...string) dcmd  { return dcmd{[]string{"EVAL", luaCall(a), "0"}, a} }
func timeoutCmd(a ...string) dcmd {
	return dcmd{append([]string{"TIMEOUT", "5"}, a...), a}
}

// with(a, "EX", "5000") inserts options right after the id / name of a SET / SETHOOK / SETCHAN
func with(base []string, at int, opts ...string) []string {
	out := append([]string{}, base[:at]...)
	out = append(out, opts...)
	return append(out, base[at:]...)
}

// directedHistory: every command here either repeats an earlier one with a single option changed, or
// has a partial / empty effect. All deadlines are thousands of seconds: nothing expires meanwhile, so
// the state only changes through the commands.
func directedHistory() []dcmd {
	A := []string{"SET", "fleet", "a", "FIELD", "speed", "5", "FIELD", "meta", `{"j":1}`, "POINT", "33.5", "-112.1"}
	B := []string{"SET", "fleet", "b", "FIELD", "speed", "1", "POINT", "1", "2"}
	S := []string{"SET", "fleet", "s", "STRING", "hello"}
	G := []string{"SET", "docs", "g", "OBJECT", `{"type":"Feature","geometry":{"type":"Point","coordinates":[5,6]},"properties":{"n":1}}`}
	fence := []string{"NEARBY", "fleet", "FENCE", "DETECT", "enter,exit", "POINT", "33", "-112", "5000"}
	CH := append([]string{"SETCHAN", "ch1"}, fence...)
	CP := append([]string{"SETCHAN", "ch2"}, fence...)
	HK := append([]string{"SETHOOK", "hk1", "http://127.0.0.1:1/hk1"}, fence...)
	h := []dcmd{
		// object + fields, then the same SET with EX added, changed, through a script, dropped
		plainCmd(A...),
		plainCmd(with(A, 3, "EX", "5000")...),
		plainCmd(with(A, 3, "EX", "7000")...),
		evalCmd(with(A, 3, "EX", "3000")...),
		plainCmd(A...),
		timeoutCmd(with(A, 3, "EX", "9000")...),
		// object with EX, then the same SET without it, then identical again
		plainCmd(with(B, 3, "EX", "5000")...),
		plainCmd(B...),
		plainCmd(B...),
		plainCmd(with(B, 3, "EX", "5000")...),
		evalCmd(B...),
		// one field changed / dropped / added, nothing else
		plainCmd("SET", "fleet", "b", "FIELD", "speed", "2", "POINT", "1", "2"),
		plainCmd("SET", "fleet", "b", "POINT", "1", "2"),
		plainCmd("SET", "fleet", "b", "FIELD", "speed", "2", "FIELD", "extra", "3", "POINT", "1", "2"),
		plainCmd("SET", "fleet", "b", "FIELD", "speed", "0", "FIELD", "extra", "3", "POINT", "1", "2"),
		// NX / XX that do nothing, then that do something small
		plainCmd("SET", "fleet", "b", "NX", "POINT", "9", "9"),
		plainCmd("SET", "fleet", "c", "XX", "POINT", "1", "1"),
		plainCmd("SET", "fleet", "c", "NX", "POINT", "1", "1"),
		plainCmd("SET", "fleet", "c", "XX", "EX", "5000", "POINT", "1", "1"),
		plainCmd("SET", "fleet", "c", "XX", "POINT", "1", "1"),
		plainCmd("SET", "fleet", "c", "EX", "7000", "XX", "POINT", "1", "1"),
		// strings and a feature: only the deadline differs
		plainCmd(S...),
		plainCmd(with(S, 3, "EX", "5000")...),
		plainCmd(with(S, 3, "EX", "8000")...),
		plainCmd(S...),
		plainCmd(with(G, 3, "EX", "5000")...),
		plainCmd("JSET", "docs", "g", "properties.n", "1"),
		plainCmd("JSET", "docs", "g", "properties.n", "2"),
		plainCmd(G...),
		plainCmd(with(G, 3, "EX", "5000")...),
		// FSET: unchanged value, changed value, several fields of which one changes, XX on a missing id
		plainCmd("FSET", "fleet", "a", "speed", "5"),
		plainCmd("FSET", "fleet", "a", "speed", "6"),
		plainCmd("FSET", "fleet", "a", "speed", "6", "meta", `{"j":1}`, "newf", "3"),
		plainCmd("FSET", "fleet", "a", "speed", "6", "newf", "3"),
		plainCmd("FSET", "fleet", "a", "newf", "0"),
		plainCmd("FSET", "fleet", "nosuch", "XX", "speed", "1"),
		evalCmd("FSET", "fleet", "a", "speed", "6"),
		evalCmd("FSET", "fleet", "a", "speed", "7"),
		// EXPIRE to the same value, to another, on an object without deadline; PERSIST twice
		plainCmd("EXPIRE", "fleet", "a", "9000"),
		plainCmd("EXPIRE", "fleet", "a", "9000"),
		plainCmd("EXPIRE", "fleet", "a", "4000"),
		plainCmd("EXPIRE", "fleet", "b", "5000"),
		plainCmd("PERSIST", "fleet", "b"),
		plainCmd("PERSIST", "fleet", "b"),
		plainCmd("EXPIRE", "fleet", "nosuch", "5000"),
		plainCmd("PERSIST", "fleet", "nosuch"),
		evalCmd("EXPIRE", "fleet", "b", "6000"),
		evalCmd("PERSIST", "fleet", "a"),
		plainCmd("EXPIRE", "fleet", "a", "6000"),
		// JSET / JDEL with the same value / a missing path
		plainCmd("JSET", "docs", "d1", "a.b", "1"),
		plainCmd("JSET", "docs", "d1", "a.b", "1"),
		plainCmd("JSET", "docs", "d1", "n", "5"),
		plainCmd("JDEL", "docs", "d1", "a.b"),
		plainCmd("JDEL", "docs", "d1", "a.b"),
		plainCmd("EXPIRE", "docs", "d1", "5000"),
		plainCmd("JSET", "docs", "d1", "n", "5"),
		plainCmd("JSET", "docs", "d1", "n", "6"),
		// deletions that hit nothing
		plainCmd("DEL", "fleet", "nosuch"),
		plainCmd("PDEL", "fleet", "zz*"),
		plainCmd("DROP", "nokey"),
		plainCmd("DELCHAN", "nochan"),
		plainCmd("PDELHOOK", "none*"),
		// RENAME onto itself, RENAMENX onto an existing key, a real rename and back
		plainCmd("RENAME", "fleet", "fleet"),
		plainCmd("RENAMENX", "fleet", "docs"),
		plainCmd("RENAMENX", "fleet", "fleet"),
		plainCmd("RENAMENX", "fleet", "zoo"),
		plainCmd("RENAME", "zoo", "fleet"),
		// channels and hooks: identical definition with EX added / changed / removed, META changed
		plainCmd(CH...),
		plainCmd(CH...),
		plainCmd(with(CH, 2, "EX", "5000")...),
		plainCmd(with(CH, 2, "EX", "8000")...),
		plainCmd(with(CH, 2, "EX", "8000")...),
		plainCmd(CH...),
		plainCmd(with(CH, 2, "META", "m1", "v1")...),
		plainCmd(with(CH, 2, "META", "m1", "v2")...),
		plainCmd(with(CP, 2, "EX", "5000")...),
		plainCmd(CP...),
		plainCmd(with(CP, 2, "EX", "5000")...),
		plainCmd(HK...),
		plainCmd(with(HK, 3, "EX", "5000")...),
		plainCmd(with(HK, 3, "EX", "9000")...),
		plainCmd(HK...),
		plainCmd(with(HK, 3, "EX", "5000")...),
	}
	// refused / erroring / "nothing done" commands, first on keys that do not exist: nothing may be
	// left behind (a collection registered before the refusal shows in KEYS and is a RENAME source)
	h = append(h,
		plainCmd("JSET", "drafts", "n1", "", "x"),
		plainCmd("JSET", "drafts", "n1", "", "5", "RAW"),
		plainCmd("JSET", "drafts", "n1", "", "x", "STR"),
		plainCmd("JSET", "drafts", "n1", "a.b", "x", "BOGUS"),
		plainCmd("JSET", "drafts", "n1", "a.b"),
		evalCmd("JSET", "drafts2", "n1", "", "x"),
		plainCmd("SET", "ghost", "g1", "XX", "POINT", "1", "1"),
		plainCmd("SET", "ghost", "g1", "XX", "EX", "5000", "STRING", "v"),
		plainCmd("SET", "ghost", "g1", "POINT", "1"),
		plainCmd("SET", "ghost", "g1", "POINT", "1", "x"),
		plainCmd("SET", "ghost", "g1", "OBJECT", `{"type":"Poi`),
		plainCmd("SET", "ghost", "g1", "FIELD", "speed"),
		plainCmd("SET", "ghost", "g1", "EX", "abc", "POINT", "1", "1"),
		evalCmd("SET", "ghost", "g1", "XX", "POINT", "1", "1"),
		plainCmd("FSET", "ghost", "g1", "speed", "1"),
		plainCmd("FSET", "ghost", "g1", "XX", "speed", "1"),
		evalCmd("FSET", "ghost", "g1", "speed", "1"),
		plainCmd("EXPIRE", "ghost", "g1", "5000"),
		plainCmd("PERSIST", "ghost", "g1"),
		plainCmd("JDEL", "ghost", "g1", "a"),
		plainCmd("JDEL", "ghost", "g1", ""),
		plainCmd("DEL", "ghost", "g1"),
		plainCmd("PDEL", "ghost", "*"),
		plainCmd("DROP", "ghost"),
		plainCmd("RENAME", "ghost", "fleet"),
		plainCmd("RENAMENX", "ghost", "fleet"),
		plainCmd("RENAME", "ghost", "ghost"),
		// the keys of the refused JSETs as RENAME sources: must still be "key not found"
		plainCmd("RENAMENX", "drafts2", "zoo"),
		plainCmd("RENAME", "drafts", "fleet"),
		// the same refusals on existing keys / ids
		plainCmd("JSET", "fleet", "a", "", "x"),
		plainCmd("JSET", "fleet", "s", "", "x"),
		plainCmd("JSET", "fleet", "newid", "", "x"),
		plainCmd("JSET", "fleet", "a", "type", "Bogus"),
		plainCmd("JDEL", "fleet", "a", ""),
		plainCmd("SET", "fleet", "a", "XX", "POINT", "1", "x"),
		plainCmd("SET", "fleet", "newid", "XX", "POINT", "1", "1"),
		plainCmd("FSET", "fleet", "newid", "speed", "1"),
		plainCmd("EXPIRE", "fleet", "newid", "5000"),
		// objects that end with / without deadline after several flips
		plainCmd(with(A, 3, "EX", "5000")...),
		plainCmd(B...),
	)
	return h
}

func runDirected(r *hx.Result, cfg hx.Config, how string) {
	dir := filepath.Join(cfg.Work, "directed-"+how)
	s, err := srv.Start(dir)
	if err != nil {
		panic(err)
	}
	defer func() { s.Kill() }()
	c := s.MustDial()
	hist := directedHistory()
	var sent []string
	var mustLog []dcmd
	changed := 0
	kinds := map[string]bool{}
	prev := fineDump(c)
	for _, d := range hist {
		v, err := c.Do(d.wire...)
		if err != nil {
			r.Fail(hx.Failure{Kind: "oracle", Signature: "server-died", What: fmt.Sprintf("connection lost on %q: %v; log: %s", d.wire, err, s.LogTail(500)), Case: sent})
			return
		}
		sent = append(sent, strings.Join(d.wire, " ")+"  -> "+v.String())
		cur := fineDump(c)
		if cur != prev && v.Kind == '-' {
			// oracle: a command answered with an error (also an error caught by pcall and handed
			// back as the script's reply) is not acknowledged, is not logged, and so must leave the
			// visible state exactly as it was
			r.Fail(hx.Failure{Kind: "oracle", Signature: "refused-command-changed-state", What: fmt.Sprintf("%q was answered with the error %q but the visible state differs before and after it: %s", strings.Join(d.wire, " "), v.Str, firstDiff(prev, cur)),
				Case: map[string]interface{}{"history": sent, "command": d.wire, "before": prev, "after": cur}})
		} else if cur != prev {
			changed++
			kinds[d.log[0]] = true
			// a handler error inside pcall comes back as a value, an error reply is still an
			// acknowledgement of "nothing happened": either way a changed state must be in the log
			mustLog = append(mustLog, d)
		}
		prev = cur
	}
	before := prev
	c.Close()
	if how == "kill" {
		s.Kill()
	} else {
		s.Stop()
	}
	r.Count("directed/"+how, changed >= 10 && len(kinds) >= 5)
	r.Dist("directed:" + how)
	r.TracesImpl++
	// AOF-level oracle: every acknowledged command that changed the visible state has its record,
	// in order
	recs, ok := parseAOF(filepath.Join(dir, "appendonly.aof"))
	if !ok {
		r.Fail(hx.Failure{Kind: "oracle", Signature: "aof-unparsable", What: fmt.Sprintf("appendonly.aof of the directed history does not parse as RESP arrays to its end (%d records read)", len(recs)), Case: sent})
	} else {
		at := 0
		for _, d := range mustLog {
			found := -1
			for j := at; j < len(recs); j++ {
				if sameRecord(recs[j], d.log) {
					found = j
					break
				}
			}
			if found < 0 {
				r.Fail(hx.Failure{Kind: "oracle", Signature: "acked-change-not-logged", What: fmt.Sprintf("%q was acknowledged and changed the visible state (dump before and after it differ) but the log has no record of it after the records of the earlier commands", strings.Join(d.wire, " ")),
					Case: map[string]interface{}{"history": sent, "command": d.wire, "expected_record": d.log, "log_records": len(recs)}})
				continue
			}
			at = found + 1
		}
	}
	s2, err := srv.StartPort(dir, srv.FreePort())
	if err != nil {
		r.Fail(hx.Failure{Kind: "oracle", Signature: "restart-failed", What: "server did not restart after " + how + " (directed history): " + err.Error(), Case: sent})
		return
	}
	s = s2
	c2 := s2.MustDial()
	after := fineDump(c2)
	c2.Close()
	r.Sample(4, map[string]interface{}{"mode": "directed/" + how, "commands": len(hist), "changed_state": changed, "log_records": len(recs), "first": sent[:4], "dump_lines": strings.Count(before, "\n")})
	if after != before {
		r.Fail(hx.Failure{Kind: "oracle", Signature: "restart-state-differs", What: "directed history: the visible state after restart (" + how + ") differs from the acknowledged state before it: " + firstDiff(before, after),
			Case: map[string]interface{}{"history": sent, "before": before, "after": after}})
	}
}

// ---------- timed directed history: writes in the window "deadline passed, not yet swept" ----------

// waitNoPending polls until no object carries a deadline any more (every short deadline has been
// collected and its DEL logged) and returns the dump taken then.
func waitNoPending(c *srv.Conn, max time.Duration) (string, bool) {
	end := time.Now().Add(max)
	for {
		d := srv.Dump(c)
		if !strings.Contains(d, "+deadline") {
			return d, true
		}
		if time.Now().After(end) {
			return d, false
		}
		time.Sleep(40 * time.Millisecond)
	}
}

// runTimed: batches of ids get `SET k id EX 0.02 …`; 25-75 ms later (the sweeper passes every 100 ms,
// so roughly half of the batches are past their deadline and not yet collected) each id receives one
// conditional or partial write: SET NX, SET XX, PERSIST, EXPIRE, FSET, JSET, DEL. Whatever the server
// decides in that window it decides looking at the clock, and replay re-arms every deadline relative
// to the time of the replay: if the decision (applied or refused) is not a function of the logged
// prefix alone, the restart disagrees. Nothing is asserted about the replies. The state is compared
// once no deadline is pending, before the stop/kill and after the restart.
func runTimed(r *hx.Result, cfg hx.Config, how string, seed int64) {
	rng := rand.New(rand.NewSource(seed))
	dir := filepath.Join(cfg.Work, "timed-"+how)
	s, err := srv.Start(dir)
	if err != nil {
		panic(err)
	}
	defer func() { s.Kill() }()
	c := s.MustDial()
	var sent []string
	do := func(a ...string) bool {
		v, err := c.Do(a...)
		if err != nil {
			r.Fail(hx.Failure{Kind: "oracle", Signature: "server-died", What: fmt.Sprintf("connection lost on %q: %v; log: %s", a, err, s.LogTail(500)), Case: sent})
			return false
		}
		sent = append(sent, strings.Join(a, " ")+"  -> "+v.String())
		return true
	}
	second := func(k, id string, m int) []string {
		switch m {
		case 0, 1, 2:
			return []string{"SET", k, id, "NX", "POINT", "2", "2"}
		case 3:
			return []string{"SET", k, id, "NX", "EX", "5000", "STRING", "second"}
		case 4:
			return []string{"SET", k, id, "XX", "POINT", "3", "3"}
		case 5:
			return []string{"PERSIST", k, id}
		case 6:
			return []string{"EXPIRE", k, id, "5000"}
		case 7:
			return []string{"FSET", k, id, "speed", "9"}
		case 8:
			return []string{"FSET", k, id, "XX", "speed", "9"}
		case 9:
			return []string{"JSET", k, id, "properties.n", "7"}
		case 10:
			return []string{"EVAL", luaCall([]string{"SET", k, id, "NX", "POINT", "4", "4"}), "0"}
		default:
			return []string{"DEL", k, id}
		}
	}
	batches, per := 10, 8
	kinds := map[string]bool{}
	for b := 0; b < batches; b++ {
		k := []string{"fleet", "zoo"}[b%2]
		for i := 0; i < per; i++ {
			id := fmt.Sprintf("t%d_%d", b, i)
			if !do("SET", k, id, "EX", "0.02", "FIELD", "speed", "1", "POINT", "1", "1") {
				return
			}
		}
		time.Sleep(time.Duration(25+rng.Intn(50)) * time.Millisecond)
		for i := 0; i < per; i++ {
			a := second(k, fmt.Sprintf("t%d_%d", b, i), rng.Intn(13))
			kinds[a[0]+" "+a[3%len(a)]] = true
			if !do(a...) {
				return
			}
		}
	}
	// the 5000 s deadlines set above are permanent for the purpose of this history: make them so,
	// then wait until no short deadline is pending
	for b := 0; b < batches; b++ {
		for i := 0; i < per; i++ {
			c.Do("PERSIST", []string{"fleet", "zoo"}[b%2], fmt.Sprintf("t%d_%d", b, i))
		}
	}
	before, quiet := waitNoPending(c, 4*time.Second)
	c.Close()
	if how == "kill" {
		s.Kill()
	} else {
		s.Stop()
	}
	r.Count("timed/"+how+"/"+strconv.FormatInt(seed, 10), len(kinds) >= 5)
	r.Dist("timed:" + how)
	r.TracesImpl++
	if !quiet {
		r.Fail(hx.Failure{Kind: "oracle", Signature: "deadline-never-collected", What: "timed history: 4 s after the last command an object with a 0.02 s deadline is still there: " + before, Case: sent})
		return
	}
	s2, err := srv.StartPort(dir, srv.FreePort())
	if err != nil {
		r.Fail(hx.Failure{Kind: "oracle", Signature: "restart-failed", What: "server did not restart after " + how + " (timed history): " + err.Error(), Case: sent})
		return
	}
	s = s2
	c2 := s2.MustDial()
	after, _ := waitNoPending(c2, 4*time.Second)
	c2.Close()
	r.Sample(6, map[string]interface{}{"mode": "timed/" + how, "commands": len(sent), "second_write_kinds": len(kinds), "dump_lines": strings.Count(before, "\n"), "first": sent[:3]})
	if after != before {
		r.Fail(hx.Failure{Kind: "oracle", Signature: "restart-state-differs", What: "timed history (SET EX 0.02, 25-75 ms later a conditional write on the same id, then quiescence): the visible state after restart (" + how + ") differs from the acknowledged state before it: " + firstDiff(before, after),
			Case: map[string]interface{}{"history": sent, "before": before, "after": after}})
	}
}
