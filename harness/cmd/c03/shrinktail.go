// C03, restart on a REWRITTEN log (coq/Model/ReplayTol.v, Props/C03tol.v).
//
// After an AOFSHRINK the file is "snapshot ++ the commands accepted while the snapshot was taken".
// Those commands were accepted against the state before the snapshot and are replayed on top of a
// snapshot that may already contain later effects: the object they touched is gone, its collection
// was dropped or renamed. Their replay returns "id not found" / "key not found", which start-up must
// survive (commandErrIsFatal). The histories below put acknowledged writes of exactly these kinds in
// the window between "rewrite started" and "rewrite has copied that collection", using the rewrite
// gate of internal/server/verif_shrink_on.go (VERIF_SHRINK_SOCK; the rewrite is parked outside the
// server lock, clients are served normally), then stop or kill the server and restart it:
//
//	oracle restart-failed-after-shrink       the server does not come up on the log it wrote itself
//	oracle restart-state-differs-after-shrink the state after the restart is not the acknowledged one
//
// JSET / JDEL in the window: as sent they would fail on replay with sjson / re-parse errors that are
// not tolerated (c03tol_ks_jset_as_sent_refuted); writeAOF therefore puts a SET of the resulting
// document into the shrink log (c03tol_json_records_rewritten). Three directed windows check it.
// RENAME / RENAMENX that move data while the rewrite is between its batches are the open findings
// C09-rename-lost / C09-rename-stale of property C09; here a RENAME only appears before the rewrite
// has listed the keys (directed windows), where its replay just misses the key.
package main

import (
	"bufio"
	"fmt"
	"math/rand"
	"net"
	"os"
	"path/filepath"
	"strings"
	"time"

	"verifharness/internal/hx"
	"verifharness/internal/srv"
)

type shrinkGate struct {
	c net.Conn
	r *bufio.Reader
}

func (g *shrinkGate) ask(line string) string {
	g.c.SetDeadline(time.Now().Add(30 * time.Second))
	if _, err := g.c.Write([]byte(line + "\n")); err != nil {
		return "err transport " + err.Error()
	}
	s, err := g.r.ReadString('\n')
	if err != nil {
		return "err transport " + err.Error()
	}
	return strings.TrimRight(s, "\n")
}

var shrinkInst int

// startGated starts a server on dir with the rewrite gate listening on a socket under work.
func startGated(work, dir string) (*srv.Server, *shrinkGate, string, error) {
	shrinkInst++
	sock := filepath.Join(work, fmt.Sprintf("st%d.sock", shrinkInst))
	os.Setenv("VERIF_SHRINK_SOCK", sock)
	s, err := srv.Start(dir)
	os.Unsetenv("VERIF_SHRINK_SOCK")
	if err != nil {
		if s != nil {
			s.Kill()
		}
		return nil, nil, sock, err
	}
	for i := 0; i < 300; i++ {
		c, err := net.Dial("unix", sock)
		if err == nil {
			return s, &shrinkGate{c: c, r: bufio.NewReader(c)}, sock, nil
		}
		time.Sleep(10 * time.Millisecond)
	}
	s.Kill()
	return nil, nil, sock, fmt.Errorf("rewrite gate socket did not come up (server not built with -tags verif?)")
}

type shrinkCase struct {
	name   string
	init   [][]string
	parkAt int        // the rewrite is parked at its parkAt-th schedule point (0 = "start": nothing copied yet)
	during [][]string // sent, and acknowledged, while the rewrite is parked
	how    string     // kill | stop
	sig    string     // signature prefix of a failure ("" = the property's own)
}

// runShrinkCase: returns false when the scenario could not be set up (nothing is asserted then).
func runShrinkCase(r *hx.Result, cfg hx.Config, sc shrinkCase) bool {
	dir := filepath.Join(cfg.Work, "shrinktail-"+sc.name)
	os.RemoveAll(dir)
	s, g, sock, err := startGated(cfg.Work, dir)
	if err != nil {
		panic("shrinktail: " + err.Error())
	}
	defer func() {
		if g != nil {
			g.ask("disarm")
			g.c.Close()
		}
		s.Kill()
		os.Remove(sock)
	}()
	c := s.MustDial()
	var hist []string
	do := func(a []string) srv.Value {
		v, err := c.Do(a...)
		if err != nil {
			hist = append(hist, strings.Join(a, " ")+"  -> connection lost: "+err.Error())
			return srv.Value{Kind: '-', Str: "connection lost"}
		}
		hist = append(hist, strings.Join(a, " ")+"  -> "+v.String())
		return v
	}
	for _, a := range sc.init {
		do(a)
	}
	if r := g.ask("arm start,keys,ids"); r != "ok" {
		panic("shrinktail: arm: " + r)
	}
	if v := do([]string{"AOFSHRINK"}); v.Kind == '-' {
		panic("shrinktail: AOFSHRINK: " + v.String())
	}
	ev := g.ask("wait 20000")
	for i := 0; i < sc.parkAt && !strings.HasPrefix(ev, "done") && ev != "timeout" && !strings.HasPrefix(ev, "err"); i++ {
		ev = g.ask("step 20000")
	}
	parked := !strings.HasPrefix(ev, "done") && ev != "timeout" && !strings.HasPrefix(ev, "err")
	hist = append(hist, "   [rewrite parked at: "+ev+"]")
	acked := 0
	if parked {
		for _, a := range sc.during {
			if v := do(a); v.Kind != '-' && v.String() != ":0" {
				acked++
			}
		}
	}
	hist = append(hist, "   [rewrite released]")
	// park nowhere any more, release, and wait for the end of the rewrite (the -shrink file has been
	// renamed over the log)
	ended := false
	if parked {
		g.ask("arm none")
		g.ask("go")
		for {
			ev = g.ask("wait 20000")
			if ev == "timeout" || strings.HasPrefix(ev, "err") {
				break
			}
			if strings.HasPrefix(ev, "done") {
				ended = true
				break
			}
		}
		for i := 0; ended && i < 500; i++ {
			if _, e := os.Stat(filepath.Join(dir, "appendonly.aof-shrink")); os.IsNotExist(e) {
				break
			}
			time.Sleep(10 * time.Millisecond)
		}
	}
	if !ended || !parked {
		r.Dist("shrink-window:not-reached")
		return false
	}
	before := fineDump(c)
	c.Close()
	g.c.Close()
	g = nil
	if sc.how == "kill" {
		s.Kill()
	} else {
		s.Stop()
	}
	recs, _ := parseAOF(filepath.Join(dir, "appendonly.aof"))
	r.Count("shrinktail/"+sc.name+"/"+strings.Join(hist, ";"), acked >= 3)
	r.Dist("shrink-window:" + sc.how)
	r.TracesImpl++
	cs := map[string]interface{}{"scenario": sc.name, "history": hist, "ended_by": sc.how, "log_records_after_rewrite": len(recs)}
	sigFail, sigDiff := "restart-failed-after-shrink", "restart-state-differs-after-shrink"
	if sc.sig != "" {
		sigFail, sigDiff = sc.sig, sc.sig+"-state-differs"
	}
	s2, err := srv.StartPort(dir, srv.FreePort())
	if err != nil {
		if s2 != nil {
			s2.Kill()
		}
		r.Fail(hx.Failure{Kind: "oracle", Signature: sigFail,
			What: fmt.Sprintf("writes acknowledged while an AOFSHRINK was in progress (%s), rewrite finished, server ended by %s: the server does not start on its own log: %s",
				strings.Join(quoteCmds(sc.during), "; "), sc.how, lastLine(err.Error())),
			Case: cs})
		return true
	}
	c2 := s2.MustDial()
	after := fineDump(c2)
	c2.Close()
	s2.Kill()
	r.Sample(3, map[string]interface{}{"mode": "shrink-window/" + sc.how, "scenario": sc.name, "acknowledged_in_window": acked, "log_records_after_rewrite": len(recs)})
	if after != before {
		cs["before"], cs["after"] = before, after
		r.Fail(hx.Failure{Kind: "oracle", Signature: sigDiff,
			What: fmt.Sprintf("writes acknowledged while an AOFSHRINK was in progress (%s): the state after the restart (%s) differs from the acknowledged one: %s",
				strings.Join(quoteCmds(sc.during), "; "), sc.how, firstDiff(before, after)),
			Case: cs})
	}
	return true
}

func quoteCmds(l [][]string) []string {
	out := make([]string, len(l))
	for i, a := range l {
		out[i] = strings.Join(a, " ")
	}
	return out
}

func lastLine(s string) string {
	s = strings.TrimSpace(s)
	s = strings.TrimSuffix(s, ")")
	lines := strings.Split(s, "\n")
	out := strings.TrimSpace(lines[len(lines)-1])
	for i := len(lines) - 1; i >= 0; i-- {
		if strings.Contains(lines[i], "[FATA]") {
			out = strings.TrimSpace(lines[i])
			break
		}
	}
	if len(out) > 300 {
		out = out[len(out)-300:]
	}
	return out
}

func sc(a ...string) []string { return a }

// the directed windows: every kind of logged command whose replay can miss its object or collection
func shrinkDirected() []shrinkCase {
	init := [][]string{
		sc("SET", "fleet", "a", "FIELD", "speed", "5", "POINT", "33.5", "-112.1"),
		sc("SET", "fleet", "b", "FIELD", "speed", "7", "POINT", "33.6", "-112.2"),
		sc("SET", "fleet", "c", "EX", "5000", "POINT", "33.7", "-112.3"),
		sc("SET", "fleet", "d", "STRING", `{"n":1}`),
		sc("SET", "fleet", "keep", "FIELD", "speed", "1", "POINT", "1", "2"),
		sc("SET", "zoo", "x", "POINT", "1", "1"),
		sc("SET", "zoo", "y", "POINT", "2", "2"),
		sc("SET", "docs", "d1", "STRING", "hello"),
		sc("SET", "yard", "p1", "POINT", "3", "3"),
		sc("SET", "yard", "p2", "POINT", "4", "4"),
		sc("SETCHAN", "watch", "NEARBY", "fleet", "FENCE", "POINT", "33.5", "-112.1", "1000"),
	}
	during := [][]string{
		// the id is gone when its collection is copied
		sc("DEL", "fleet", "a", "ERRON404"),
		sc("FSET", "fleet", "b", "speed", "10"),
		sc("DEL", "fleet", "b"),
		sc("PERSIST", "fleet", "c"),
		sc("EXPIRE", "fleet", "c", "7000"),
		sc("FSET", "fleet", "c", "XX", "speed", "3"),
		sc("DEL", "fleet", "c", "ERRON404"),
		sc("SET", "fleet", "e", "POINT", "5", "5"),
		sc("FSET", "fleet", "e", "speed", "2", "load", "9"),
		sc("PDEL", "fleet", "e*"),
		// the collection is gone when the keys are listed
		sc("FSET", "zoo", "x", "speed", "4"),
		sc("DEL", "zoo", "x", "ERRON404"),
		sc("DEL", "zoo", "y", "ERRON404"),
		sc("FSET", "docs", "d1", "n", "1"),
		sc("RENAME", "docs", "papers"),
		sc("FSET", "yard", "p1", "speed", "1"),
		sc("DEL", "yard", "p2", "ERRON404"),
		sc("DROP", "yard"),
		// and something that stays
		sc("FSET", "fleet", "keep", "speed", "2"),
		sc("SET", "fleet", "new", "POINT", "6", "6"),
	}
	return []shrinkCase{
		{name: "directed-kill", init: init, during: during, how: "kill"},
		{name: "directed-stop", init: init, parkAt: 1, during: during, how: "stop"},
	}
}

// JSET / JDEL in the window: the later state of the object would make sjson or the re-parse of the
// geometry fail if the record were replayed as sent (c03tol_ks_jset_as_sent_refuted)
func shrinkJSONCases() []shrinkCase {
	return []shrinkCase{
		{name: "jset-array", how: "kill",
			init:   [][]string{sc("SET", "docs", "other", "STRING", "x")},
			during: [][]string{sc("JSET", "docs", "j", "speed", "1"), sc("SET", "docs", "j", "STRING", "[1,2]"), sc("SET", "docs", "k", "STRING", "y")}},
		{name: "jset-geometry", how: "stop",
			init:   [][]string{sc("SET", "fleet", "g", "STRING", `{"x":1}`)},
			during: [][]string{sc("JSET", "fleet", "g", "type", "Bogus"), sc("SET", "fleet", "g", "POINT", "1", "1"), sc("SET", "fleet", "h", "POINT", "2", "2")}},
		{name: "jdel-geometry", how: "kill",
			init:   [][]string{sc("SET", "fleet", "g", "STRING", `{"coordinates":[1],"x":1}`)},
			during: [][]string{sc("JDEL", "fleet", "g", "coordinates"), sc("SET", "fleet", "g", "POINT", "1", "1"), sc("SET", "fleet", "h", "POINT", "2", "2")}},
	}
}

// a random window: random initial objects, the rewrite parked at a random schedule point (before,
// between or after the collections are copied), then writes that first use and then remove objects
// and collections
func shrinkRandom(rng *rand.Rand, i int) shrinkCase {
	ks := []string{"alpha", "fleet", "zoo", "zz"}
	is := []string{"a", "b", "c"}
	c := shrinkCase{name: fmt.Sprintf("random%d", i), how: []string{"kill", "stop"}[rng.Intn(2)]}
	for _, k := range ks {
		for _, id := range is {
			if rng.Intn(4) > 0 {
				a := []string{"SET", k, id}
				if rng.Intn(3) == 0 {
					a = append(a, "FIELD", "speed", fmt.Sprint(1+rng.Intn(9)))
				}
				if rng.Intn(4) == 0 {
					a = append(a, "EX", "5000")
				}
				c.init = append(c.init, append(a, objs[rng.Intn(len(objs))]...))
			}
		}
	}
	c.parkAt = rng.Intn(2 + len(ks))
	for n := 6 + rng.Intn(14); n > 0; n-- {
		k, id := pick(rng, ks), pick(rng, is)
		switch x := rng.Intn(100); {
		case x < 18:
			c.during = append(c.during, sc("FSET", k, id, pick(rng, fieldsN), fmt.Sprint(rng.Intn(5))))
		case x < 26:
			c.during = append(c.during, sc("FSET", k, id, "XX", "speed", fmt.Sprint(rng.Intn(5))))
		case x < 44:
			c.during = append(c.during, sc("DEL", k, id, "ERRON404"))
		case x < 54:
			c.during = append(c.during, sc("DEL", k, id))
		case x < 60:
			c.during = append(c.during, sc("PERSIST", k, id))
		case x < 66:
			c.during = append(c.during, sc("EXPIRE", k, id, "7000"))
		case x < 72:
			c.during = append(c.during, sc("PDEL", k, pick(rng, []string{"*", "a*", "[bc]"})))
		case x < 78:
			c.during = append(c.during, sc("DROP", k))
		case x < 82:
			c.during = append(c.during, sc("JSET", k, id, pick(rng, []string{"a.b", "n", "list.-1", "type"}), pick(rng, []string{"1", "text", "Bogus"})))
		case x < 86:
			c.during = append(c.during, sc("JDEL", k, id, pick(rng, []string{"a", "n", "list.0", "coordinates"})))
		default:
			a := []string{"SET", k, id}
			if rng.Intn(3) == 0 {
				a = append(a, []string{"NX", "XX"}[rng.Intn(2)])
			}
			c.during = append(c.during, append(a, objs[rng.Intn(len(objs))]...))
		}
	}
	return c
}

func runShrinkTail(r *hx.Result, cfg hx.Config, rng *rand.Rand) {
	for _, c := range shrinkDirected() {
		runShrinkCase(r, cfg, c)
	}
	for _, c := range shrinkJSONCases() {
		runShrinkCase(r, cfg, c)
	}
	n := 3
	if cfg.Tier == "thorough" || cfg.Search {
		n = 60
	}
	for i := 0; i < n; i++ {
		runShrinkCase(r, cfg, shrinkRandom(rng, i))
	}
}
