// C03, the tie of c03_crash_prefix (coq/Props/C03.v) with the running server: a kill in the middle
// of a log write leaves a byte prefix q of the file. The theorem says start-up (Replay.recover =
// Aof.load_whole + replay) yields the state after the commands wholly inside q AND cuts the file to
// the end of the last whole record. Both are compared here, and the second is followed up: after the
// recovery the server accepts writes that are SHORTER than the torn tail was, is stopped or killed and
// restarted — whatever the first recovery left behind its write position is now behind the newest
// acknowledged record, and the next start reads it.
//
//	correspondence crash-prefix-truncation   file size after start-up on q  !=  sz of the model's load_whole q
//	correspondence crash-prefix-state        state after start-up on q      !=  state after the commands inside q
//	oracle restart-failed-after-torn-tail    recovery, short acknowledged writes, stop/kill: no restart
//	oracle restart-state-differs-after-torn-tail   ... or a restart to another state
package main

import (
	"fmt"
	"math/rand"
	"os"
	"path/filepath"
	"strconv"
	"strings"

	"verifharness/internal/hx"
	"verifharness/internal/model"
	"verifharness/internal/srv"
)

// values whose text, torn anywhere, leaves lines that read as inline ("telnet") commands
var tornTexts = []string{
	"line one\r\nline two\r\nline three\r\nx\r\ny\r\nz\r\nthe end of the note\r\n",
	"a\nb\nc\nd\ne\nf\ng\nh\ni\nj\nk\nl\nm\nn\no\np\n",
	"FLUSHDB\r\nDROP fleet\r\nFLUSHDB\r\nDROP fleet\r\nFLUSHDB\r\n",
	"{\"note\":\"first\",\n \"lines\":[\n  \"one\",\n  \"two\",\n  \"three\"\n ]\n}\n",
}

// a base history of plain writes, each of which changes the state (so record i = command i); the
// last command carries a long multi-line value
func tornHistory(rng *rand.Rand, directed bool) [][]string {
	h := [][]string{
		sc("SET", "fleet", "truck1", "FIELD", "speed", "55", "POINT", "33.5", "-112.1"),
		sc("SET", "fleet", "truck2", "POINT", "33.6", "-112.2"),
		sc("SET", "notes", "n1", "STRING", "short"),
		sc("SETCHAN", "watch", "NEARBY", "fleet", "FENCE", "POINT", "33.5", "-112.1", "1000"),
	}
	if !directed {
		for i := rng.Intn(5); i > 0; i-- {
			switch rng.Intn(4) {
			case 0:
				h = append(h, sc("SET", "fleet", fmt.Sprintf("t%d", i), "POINT", strconv.Itoa(i), "5"))
			case 1:
				h = append(h, sc("SET", "notes", fmt.Sprintf("m%d", i), "STRING", tornTexts[rng.Intn(len(tornTexts))]))
			case 2:
				h = append(h, sc("FSET", "fleet", "truck1", "load", strconv.Itoa(i+1)))
			default:
				h = append(h, sc("JSET", "notes", fmt.Sprintf("j%d", i), "a.b", "text\nmore\n"))
			}
		}
	}
	txt := tornTexts[0] + tornTexts[1]
	if !directed {
		txt = ""
		for i := 2 + rng.Intn(3); i > 0; i-- {
			txt += tornTexts[rng.Intn(len(tornTexts))]
		}
	}
	return append(h, sc("SET", "notes", "n2", "STRING", txt))
}

func runTornTail(r *hx.Result, cfg hx.Config, rng *rand.Rand) {
	drv, err := model.Start("resp")
	if err != nil {
		panic("torntail: model driver resp: " + err.Error())
	}
	defer drv.Close()
	bases := 1
	cuts := 3
	if cfg.Tier == "thorough" || cfg.Search {
		bases, cuts = 8, 8
	}
	for b := 0; b <= bases; b++ {
		directed := b == 0
		hist := tornHistory(rng, directed)
		dir := filepath.Join(cfg.Work, fmt.Sprintf("torn-base%d", b))
		os.RemoveAll(dir)
		s, err := srv.Start(dir)
		if err != nil {
			panic(err)
		}
		c := s.MustDial()
		dumps := []string{srv.Dump(c)} // dumps[i] = state after the first i commands
		okHist := true
		for _, a := range hist {
			if v, err := c.Do(a...); err != nil || v.Kind == '-' {
				okHist = false
			}
			dumps = append(dumps, srv.Dump(c))
		}
		c.Close()
		s.Stop()
		file, err := os.ReadFile(filepath.Join(dir, "appendonly.aof"))
		recs, parsed := parseAOF(filepath.Join(dir, "appendonly.aof"))
		if err != nil || !okHist || !parsed || len(recs) != len(hist) {
			r.Dist("torn-tail:base-unusable")
			continue
		}
		// record boundaries
		var ends []int
		off := 0
		for _, rec := range recs {
			off += len(srv.Encode(rec...))
			ends = append(ends, off)
		}
		if off != len(file) {
			r.Dist("torn-tail:base-unusable")
			continue
		}
		n := cuts
		if directed {
			n = 2
		}
		for k := 0; k < n; k++ {
			// the cut: inside the last record (the directed cases: 60 % and 25 % of it), or inside a random record
			ri := len(recs) - 1
			if !directed && rng.Intn(3) == 0 {
				ri = rng.Intn(len(recs))
			}
			start := 0
			if ri > 0 {
				start = ends[ri-1]
			}
			cut := start + 1 + rng.Intn(ends[ri]-start-1)
			if directed {
				cut = start + (ends[ri]-start)*[]int{60, 25}[k]/100
			}
			tornCase(r, cfg, drv, rng, fmt.Sprintf("b%dk%d", b, k), hist, file, ends, dumps, cut, directed)
		}
	}
}

func tornCase(r *hx.Result, cfg hx.Config, drv *model.Driver, rng *rand.Rand, name string, hist [][]string, file []byte, ends []int, dumps []string, cut int, directed bool) {
	q := file[:cut]
	// the model: Replay.recover = load_whole + replay
	m := strings.Fields(drv.Ask("loadw", model.H(string(q))))
	if len(m) < 3 || m[0] != "L" {
		r.Dist("torn-tail:model-refuses")
		return
	}
	msz, _ := strconv.Atoi(m[1])
	mcount, _ := strconv.Atoi(m[2])
	inside := 0
	for _, e := range ends {
		if e <= cut {
			inside++
		}
	}
	dir := filepath.Join(cfg.Work, "torn-"+name)
	os.RemoveAll(dir)
	os.MkdirAll(dir, 0o755)
	aof := filepath.Join(dir, "appendonly.aof")
	if err := os.WriteFile(aof, q, 0o644); err != nil {
		panic(err)
	}
	cs := map[string]interface{}{"history": quoteCmds(hist), "log_bytes": len(file), "cut_at_byte": cut, "whole_records_inside_the_cut": inside,
		"torn_tail_bytes": cut - msz, "torn_tail": clipStr(string(q[msz:]), 160)}
	r.Count(fmt.Sprintf("torn/%s/%d/%s", name, cut, strings.Join(quoteCmds(hist), ";")), cut-msz > 0 && inside >= 3)
	r.Dist("torn-tail:cut-inside-record")
	r.TracesImpl++
	s, err := srv.Start(dir)
	if err != nil {
		if s != nil {
			s.Kill()
		}
		r.Fail(hx.Failure{Kind: "correspondence", Signature: "crash-prefix-state", What: "the server does not start on a byte prefix of its own log (cut inside a record): " + lastLine(err.Error()),
			Case: cs, Model: fmt.Sprintf("recover: %d commands, file cut to %d bytes", mcount, msz)})
		return
	}
	defer func() { s.Kill() }()
	c := s.MustDial()
	// (1) the file is cut to the end of the last whole record
	if fi, err := os.Stat(aof); err == nil && int(fi.Size()) != msz {
		r.Fail(hx.Failure{Kind: "correspondence", Signature: "crash-prefix-truncation",
			What:  fmt.Sprintf("start-up on the first %d bytes of the log (cut inside record %d): the model's recover cuts the file to %d bytes (end of the last whole record), the server left %d bytes", cut, inside+1, msz, fi.Size()),
			Case:  cs, Impl: fi.Size(), Model: msz})
	}
	// (2) the state is the state after the commands wholly inside the cut
	got := srv.Dump(c)
	if mcount != inside || got != dumps[inside] {
		r.Fail(hx.Failure{Kind: "correspondence", Signature: "crash-prefix-state",
			What:  fmt.Sprintf("start-up on the first %d bytes of the log: the state is not the one after the %d commands wholly inside the cut (model: %d commands): %s", cut, inside, mcount, firstDiff(dumps[inside], got)),
			Case:  cs, Impl: got, Model: dumps[inside]})
	}
	// (3) acknowledged writes shorter than the torn tail, then stop / kill and restart
	budget := cut - msz
	var wrote []string
	for i := 0; i < 4; i++ {
		a := sc("SET", "fleet", fmt.Sprintf("r%d", i), "POINT", strconv.Itoa(1+rng.Intn(8)), strconv.Itoa(1+rng.Intn(8)))
		if !directed && rng.Intn(3) == 0 {
			a = sc("FSET", "fleet", "truck1", "f", strconv.Itoa(i+1))
		}
		if i > 0 && len(srv.Encode(a...)) > budget-8 {
			break
		}
		budget -= len(srv.Encode(a...))
		if v, err := c.Do(a...); err != nil || v.Kind == '-' {
			break
		}
		wrote = append(wrote, strings.Join(a, " "))
	}
	before := srv.Dump(c)
	c.Close()
	how := "stop"
	if rng.Intn(2) == 0 {
		how = "kill"
		s.Kill()
	} else {
		s.Stop()
	}
	cs["acknowledged_after_the_recovery"] = wrote
	cs["ended_by"] = how
	s2, err := srv.StartPort(dir, srv.FreePort())
	if err != nil {
		if s2 != nil {
			s2.Kill()
		}
		r.Fail(hx.Failure{Kind: "oracle", Signature: "restart-failed-after-torn-tail",
			What: fmt.Sprintf("log cut at byte %d (inside a record, %d torn bytes), restart #1 recovers; %d acknowledged writes (%s); %s; restart #2: the server does not start: %s",
				cut, cut-msz, len(wrote), strings.Join(wrote, "; "), how, lastLine(err.Error())),
			Case: cs})
		return
	}
	s = s2
	c2 := s2.MustDial()
	after := srv.Dump(c2)
	c2.Close()
	r.Sample(3, map[string]interface{}{"mode": "torn-tail/" + how, "cut_at_byte": cut, "torn_bytes": cut - msz, "records_inside": inside, "writes_after_recovery": len(wrote)})
	if after != before {
		cs["before"], cs["after"] = before, after
		r.Fail(hx.Failure{Kind: "oracle", Signature: "restart-state-differs-after-torn-tail",
			What: fmt.Sprintf("log cut at byte %d (inside a record, %d torn bytes), restart #1 recovers; %d acknowledged writes (%s); %s; restart #2 yields another state: %s",
				cut, cut-msz, len(wrote), strings.Join(wrote, "; "), how, firstDiff(before, after)),
			Case: cs})
	}
}

func clipStr(s string, n int) string {
	if len(s) > n {
		return strconv.Quote(s[:n]) + "..."
	}
	return strconv.Quote(s)
}
