// C03, the append discipline (coq/Model/AofPos.v, Props/C03pos.v): the file is the concatenation of
// the acknowledged records only while nothing but the audited code moves the position of the server's
// log descriptor. Histories that interleave acknowledged writes with everything that READS the log
// while the server runs:
//
//	AOFMD5 pos size   blocks at random places inside the log, ending at / before / beyond its end, size 0
//	AOF pos           a fake follower connection that takes a piece of the stream and hangs up
//	SERVER / INFO     (aof_size)
//	AOFSHRINK         with writes and AOFMD5 while the rewrite is parked at its start gate
//
// then stop or kill, and:
//
//	oracle log-is-not-the-acknowledged-records   appendonly.aof  !=  (file after the last rewrite) ++ the
//	                                             records of the writes acknowledged since, byte for byte
//	oracle restart-failed-after-log-read         the server does not start on that log
//	oracle restart-state-differs-after-log-read  ... or starts in another state
//
// Every write of a history changes the state (fresh ids, changing values), so each is logged as sent.
package main

import (
	"bytes"
	"fmt"
	"math/rand"
	"net"
	"os"
	"path/filepath"
	"strconv"
	"strings"
	"time"

	"verifharness/internal/hx"
	"verifharness/internal/srv"
)

type lpStep struct {
	kind string   // write | md5 | aof | server | shrink
	args []string // write: the command
	// md5: block = frac of the current log (per mille) for pos and end; beyond = past the end
	posPM, endPM int
	beyond       bool
	inShrink     []lpStep // shrink: steps run while the rewrite is parked
}

// the seeder-independent directed history: equal-length records, a check sum over the first two of
// five, two more writes (the next flush lands on record 3), and the same with a block in the middle
func lpDirected() []lpStep {
	var h []lpStep
	w := func(i int) lpStep {
		return lpStep{kind: "write", args: sc("SET", "fleet", fmt.Sprintf("truck%d", i), "POINT", strconv.Itoa(i), strconv.Itoa(i))}
	}
	for i := 1; i <= 5; i++ {
		h = append(h, w(i))
	}
	h = append(h, lpStep{kind: "md5", posPM: 0, endPM: 400}, w(6), w(7),
		lpStep{kind: "server"}, lpStep{kind: "md5", posPM: 300, endPM: 650}, w(8),
		lpStep{kind: "md5", posPM: 0, endPM: 1000}, w(9), lpStep{kind: "md5", posPM: 500, endPM: 500}, lpStep{kind: "md5", beyond: true},
		lpStep{kind: "aof", posPM: 0}, w(10), lpStep{kind: "write", args: sc("FSET", "fleet", "truck1", "speed", "7")},
		lpStep{kind: "write", args: sc("DEL", "fleet", "truck2")})
	return h
}

func lpRandom(rng *rand.Rand) []lpStep {
	var h []lpStep
	n := 0
	for i := 3 + rng.Intn(4); i > 0; i-- {
		h = append(h, lpWrite(rng, &n))
	}
	reader := func() lpStep {
		switch x := rng.Intn(100); {
		case x < 60:
			a, b := rng.Intn(1001), rng.Intn(1001)
			if a > b {
				a, b = b, a
			}
			return lpStep{kind: "md5", posPM: a, endPM: b}
		case x < 68:
			return lpStep{kind: "md5", beyond: true}
		case x < 85:
			return lpStep{kind: "aof", posPM: rng.Intn(1001)}
		default:
			return lpStep{kind: "server"}
		}
	}
	for i := 12 + rng.Intn(20); i > 0; i-- {
		switch x := rng.Intn(100); {
		case x < 50:
			h = append(h, lpWrite(rng, &n))
		case x < 94:
			h = append(h, reader())
		default:
			st := lpStep{kind: "shrink"}
			for j := 1 + rng.Intn(4); j > 0; j-- {
				if rng.Intn(2) == 0 {
					st.inShrink = append(st.inShrink, lpWrite(rng, &n))
				} else {
					st.inShrink = append(st.inShrink, reader())
				}
			}
			h = append(h, st, reader(), lpWrite(rng, &n))
		}
	}
	return append(h, reader(), lpWrite(rng, &n), lpWrite(rng, &n))
}

// a write that always changes the state: a fresh id, or the shared id with a new value
func lpWrite(rng *rand.Rand, n *int) lpStep {
	*n++
	switch x := rng.Intn(10); {
	case x < 3:
		return lpStep{kind: "write", args: sc("SET", "notes", fmt.Sprintf("o%d", *n), "STRING", strings.Repeat("x", 1+rng.Intn(300))+strconv.Itoa(*n))}
	case x < 8:
		return lpStep{kind: "write", args: sc("SET", "fleet", fmt.Sprintf("o%d", *n), "FIELD", "n", strconv.Itoa(*n), "POINT", strconv.Itoa(rng.Intn(80)), strconv.Itoa(rng.Intn(170)))}
	default:
		return lpStep{kind: "write", args: sc("SET", "fleet", "same", "POINT", strconv.Itoa(*n%80), "1")}
	}
}

func runLogPos(r *hx.Result, cfg hx.Config, rng *rand.Rand) {
	lpCase(r, cfg, "directed-kill", lpDirected(), "kill")
	lpCase(r, cfg, "directed-stop", lpDirected(), "stop")
	n := 3
	if cfg.Tier == "thorough" || cfg.Search {
		n = 40
	}
	for i := 0; i < n; i++ {
		lpCase(r, cfg, fmt.Sprintf("random%d", i), lpRandom(rng), []string{"kill", "stop"}[rng.Intn(2)])
	}
}

func lpCase(r *hx.Result, cfg hx.Config, name string, steps []lpStep, how string) {
	dir := filepath.Join(cfg.Work, "logpos-"+name)
	os.RemoveAll(dir)
	s, g, sock, err := startGated(cfg.Work, dir)
	if err != nil {
		panic("logpos: " + err.Error())
	}
	defer func() {
		if g != nil {
			g.ask("disarm")
			g.c.Close()
		}
		s.Kill()
		os.Remove(sock)
	}()
	aof := filepath.Join(dir, "appendonly.aof")
	c := s.MustDial()
	var hist []string
	var expect []byte // what the file must be: the file after the last rewrite ++ the acknowledged records since
	writes, reads := 0, 0
	ok := true
	var do func(st lpStep)
	do = func(st lpStep) {
		if !ok {
			return
		}
		switch st.kind {
		case "write":
			v, err := c.Do(st.args...)
			if err != nil || v.Kind == '-' {
				hist = append(hist, strings.Join(st.args, " ")+"  -> refused / lost")
				ok = false
				return
			}
			hist = append(hist, clipStr(strings.Join(st.args, " "), 90)+"  -> "+v.String())
			expect = append(expect, srv.Encode(st.args...)...)
			writes++
		case "md5":
			pos, size := len(expect)*st.posPM/1000, len(expect)*(st.endPM-st.posPM)/1000
			if st.beyond {
				pos, size = len(expect)/2, len(expect)
			}
			v, err := c.Do("AOFMD5", strconv.Itoa(pos), strconv.Itoa(size))
			if err != nil {
				ok = false
				return
			}
			hist = append(hist, fmt.Sprintf("AOFMD5 %d %d  (log %d bytes)  -> %s", pos, size, len(expect), v.String()))
			reads++
		case "server":
			c.Do("SERVER")
			c.Do("INFO")
			hist = append(hist, "SERVER; INFO")
		case "aof":
			pos := len(expect) * st.posPM / 1000
			if fc, err := net.DialTimeout("tcp", fmt.Sprintf("127.0.0.1:%d", s.Port), 2*time.Second); err == nil {
				fc.Write(srv.Encode("AOF", strconv.Itoa(pos)))
				fc.SetReadDeadline(time.Now().Add(60 * time.Millisecond))
				buf := make([]byte, 4096)
				got := 0
				for {
					k, err := fc.Read(buf)
					got += k
					if err != nil || got > 16384 {
						break
					}
				}
				fc.Close()
				hist = append(hist, fmt.Sprintf("AOF %d on a second connection, %d bytes taken, hung up", pos, got))
				reads++
			}
		case "shrink":
			if g.ask("arm start") != "ok" {
				ok = false
				return
			}
			if v, err := c.Do("AOFSHRINK"); err != nil || v.Kind == '-' {
				ok = false
				return
			}
			ev := g.ask("wait 20000")
			hist = append(hist, "AOFSHRINK  [rewrite parked at: "+ev+"]")
			if !strings.HasPrefix(ev, "start") {
				ok = false
				return
			}
			for _, in := range st.inShrink {
				do(in)
			}
			g.ask("arm none")
			g.ask("go")
			for {
				ev = g.ask("wait 20000")
				if ev == "timeout" || strings.HasPrefix(ev, "err") {
					ok = false
					return
				}
				if strings.HasPrefix(ev, "done") {
					break
				}
			}
			for i := 0; i < 500; i++ {
				if _, e := os.Stat(aof + "-shrink"); os.IsNotExist(e) {
					break
				}
				time.Sleep(10 * time.Millisecond)
			}
			// a round trip: whatever was acknowledged so far has been flushed into the new file
			c.Do("PING")
			b, err := os.ReadFile(aof)
			if err != nil {
				ok = false
				return
			}
			expect = append([]byte(nil), b...)
			hist = append(hist, fmt.Sprintf("   [rewrite ended, log %d bytes]", len(expect)))
		}
	}
	for _, st := range steps {
		do(st)
	}
	if !ok {
		r.Dist("log-read:set-up-failed")
		return
	}
	before := srv.Dump(c)
	c.Close()
	g.ask("disarm")
	g.c.Close()
	g = nil
	if how == "kill" {
		s.Kill()
	} else {
		s.Stop()
	}
	r.Count("logpos/"+name+"/"+strings.Join(hist, ";"), writes >= 5 && reads >= 3)
	r.Dist("log-read:" + how)
	r.TracesImpl++
	cs := map[string]interface{}{"scenario": name, "history": hist, "ended_by": how}
	// byte-level oracle: the file is the concatenation of the acknowledged records
	file, _ := os.ReadFile(aof)
	if !bytes.Equal(file, expect) {
		at := 0
		for at < len(file) && at < len(expect) && file[at] == expect[at] {
			at++
		}
		hi := func(b []byte) string {
			e := at + 60
			if e > len(b) {
				e = len(b)
			}
			if at > len(b) {
				return ""
			}
			return strconv.Quote(string(b[at:e]))
		}
		r.Fail(hx.Failure{Kind: "oracle", Signature: "log-is-not-the-acknowledged-records",
			What: fmt.Sprintf("after %d acknowledged writes interleaved with %d reads of the log (AOFMD5 / AOF), appendonly.aof (%d bytes) is not the concatenation of the acknowledged records (%d bytes): first difference at byte %d: file %s, records %s",
				writes, reads, len(file), len(expect), at, hi(file), hi(expect)),
			Case: cs})
	}
	s2, err := srv.StartPort(dir, srv.FreePort())
	if err != nil {
		if s2 != nil {
			s2.Kill()
		}
		r.Fail(hx.Failure{Kind: "oracle", Signature: "restart-failed-after-log-read",
			What: fmt.Sprintf("%d acknowledged writes interleaved with %d reads of the log (AOFMD5 / AOF); %s; the server does not start: %s", writes, reads, how, lastLine(err.Error())),
			Case: cs})
		return
	}
	c2 := s2.MustDial()
	after := srv.Dump(c2)
	c2.Close()
	s2.Kill()
	r.Sample(3, map[string]interface{}{"mode": "log-read/" + how, "scenario": name, "writes": writes, "log_reads": reads, "log_bytes": len(expect)})
	if after != before {
		cs["before"], cs["after"] = before, after
		r.Fail(hx.Failure{Kind: "oracle", Signature: "restart-state-differs-after-log-read",
			What: fmt.Sprintf("%d acknowledged writes interleaved with %d reads of the log (AOFMD5 / AOF); %s; the state after the restart differs from the acknowledged one: %s", writes, reads, how, firstDiff(before, after)),
			Case: cs})
	}
}
