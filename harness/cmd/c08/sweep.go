// C08, part 4 — every data-modifying command and variant is handed to the log at all.
//
// The schedule replay of main.go is about the ORDER append / flush / reply for commands that reach
// writeAOF's append.  This file decides the premise for every command: histories of commands are run
// on the plain server (no schedule points); around every single command
//
//	dump before, size of appendonly.aof, command, reply, appendonly.aof, dump after
//
// are taken and
//
//   - oracle `acked-change-not-in-aof`: the reply is not an error and the dump differs => the bytes
//     appended to appendonly.aof up to the moment the reply was read contain the command (for a script:
//     the commands it issued through tile38.call);
//   - oracle `acked-write-lost-after-kill9`: the same history is run again on a fresh server, which is
//     killed with SIGKILL as soon as the reply of command j has been read; after the restart the dump
//     must equal the dump observed after command j in the first run;
//   - correspondence `logged-flag-model` / `logged-bytes-model` (keyspace histories): the extracted
//     Model/Keyspace.exec (theorems c08_changed_logged, c03ks_noupd) is run on the same history; its
//     log component ([] or [args]) must be what the file grew by.
//
// Histories: a fixed list of directed cases (each data-modifying command with its variants, directly
// and through EVAL / EVALNA / EVALSHA, hooks and channels), each in its own key namespace, and random
// histories over a small keyspace so that overwrites, no-ops and renames onto existing keys occur.
package main

import (
	"bytes"
	"fmt"
	"math/rand"
	"os"
	"path/filepath"
	"strconv"
	"strings"
	"time"

	"verifharness/internal/hx"
	"verifharness/internal/ksx"
	"verifharness/internal/model"
	"verifharness/internal/srv"
)

type swStep struct {
	Args    []string   // the command as sent
	Needles [][]string // what must be in the file if the dataset changed (nil: Args itself)
	Case    string     // directed case the step belongs to ("" in random histories)
	Probe   bool       // directed: a command under test (not set-up)
}

type swProg struct {
	Name  string
	Steps []swStep
	Model bool // pure keyspace history: Model/Keyspace.exec runs alongside
}

// what a failure reports: enough to reproduce it with a RESP client on an empty server
type swCase struct {
	Program string     `json:"history_kind"`
	Case    string     `json:"case,omitempty"`
	History [][]string `json:"commands_before"`
	Command []string   `json:"command"`
	Reply   string     `json:"reply,omitempty"`
	Seed    int64      `json:"seed"`
}

type swStats struct {
	steps, changed, logged, modelSteps, modelStopped, kills, servers int
}

func canonReply(v srv.Value) string {
	switch v.Kind {
	case '+':
		return "s" + model.H(v.Str)
	case '-':
		return "e" + model.H(v.Str)
	case ':':
		return "i" + strconv.FormatInt(v.Int, 10)
	case '$':
		return "b" + model.H(v.Str)
	case 'n':
		return "n"
	case '*':
		parts := make([]string, len(v.Array))
		for i, e := range v.Array {
			parts[i] = canonReply(e)
		}
		return "a(" + strings.Join(parts, ",") + ")"
	}
	return "?"
}

func hexArgs(a []string) []string {
	out := make([]string, len(a))
	for i, s := range a {
		out[i] = model.H(s)
	}
	return out
}

// history reported for step j: for a directed case the steps of that case (its namespace is its own),
// otherwise everything before
func (p swProg) historyOf(j int) [][]string {
	var h [][]string
	for i := 0; i < j; i++ {
		if p.Steps[j].Case == "" || p.Steps[i].Case == p.Steps[j].Case {
			h = append(h, p.Steps[i].Args)
		}
	}
	return h
}

type sweeper struct {
	e   *env
	rng *rand.Rand
	mdl *ksx.Mdl
	st  swStats
}

func (w *sweeper) fail(kind, sig, what string, c swCase, impl, mod interface{}) {
	w.e.nfail++
	w.e.r.Fail(hx.Failure{Kind: kind, Signature: sig, What: what, Case: c, Impl: impl, Model: mod})
}

func showHistory(h [][]string) string {
	if len(h) == 0 {
		return "(none)"
	}
	parts := make([]string, len(h))
	for i, c := range h {
		parts[i] = strings.Join(c, " ")
	}
	return strings.Join(parts, " ; ")
}

func dumpDiff(a, b string) string {
	la, lb := strings.Split(a, "\n"), strings.Split(b, "\n")
	in := func(l []string, x string) bool {
		for _, y := range l {
			if y == x {
				return true
			}
		}
		return false
	}
	var out []string
	for _, x := range la {
		if x != "" && !in(lb, x) {
			out = append(out, "- "+strings.TrimSpace(x))
		}
	}
	for _, x := range lb {
		if x != "" && !in(la, x) {
			out = append(out, "+ "+strings.TrimSpace(x))
		}
	}
	if len(out) > 12 {
		out = append(out[:12], "...")
	}
	return strings.Join(out, " | ")
}

// run executes one history: observed run, then kill -9 runs at nKill of its acknowledgements.
func (w *sweeper) run(p swProg, nKill int) {
	e := w.e
	defer func() {
		if x := recover(); x != nil {
			w.fail("correspondence", "sweep-harness", fmt.Sprintf("history %q: %v", p.Name, x), swCase{Program: p.Name, Seed: e.cfg.Seed}, nil, nil)
		}
	}()
	e.nsrv++
	w.st.servers++
	dir := filepath.Join(e.cfg.Work, fmt.Sprintf("sweep%d", e.nsrv))
	s, err := srv.Start(dir)
	if err != nil {
		w.fail("correspondence", "server-start", err.Error(), swCase{Program: p.Name, Seed: e.cfg.Seed}, nil, nil)
		return
	}
	defer s.Kill()
	c := s.MustDial()
	defer c.Close()
	c.Timeout = 10 * time.Second
	aofPath := filepath.Join(dir, "appendonly.aof")
	useModel := p.Model && w.mdl != nil
	if useModel {
		w.mdl.Ask("reset")
	}
	dumps := make([]string, len(p.Steps))
	replies := make([]string, len(p.Steps))
	changedAt := []int{}
	firstBad := -1
	dump := srv.Dump(c)
	for j, st := range p.Steps {
		before, _ := os.ReadFile(aofPath)
		now := time.Now().UnixNano()
		v, err := c.Do(st.Args...)
		after, _ := os.ReadFile(aofPath)
		cs := swCase{Program: p.Name, Case: st.Case, History: p.historyOf(j), Command: st.Args, Seed: e.cfg.Seed}
		if err != nil {
			w.fail("oracle", "server-died", fmt.Sprintf("no reply to %v: %v; log: %s", st.Args, err, s.LogTail(300)), cs, nil, nil)
			return
		}
		cs.Reply = v.String()
		e.acks++
		w.st.steps++
		var appended []byte
		if len(after) >= len(before) {
			appended = after[len(before):]
		}
		d2 := srv.Dump(c)
		changed := d2 != dump
		needles := st.Needles
		if needles == nil {
			needles = [][]string{st.Args}
		}
		if changed {
			w.st.changed++
			changedAt = append(changedAt, j)
		}
		if len(appended) > 0 {
			w.st.logged++
		}
		if changed && !v.IsErr() {
			for _, n := range needles {
				if !bytes.Contains(appended, srv.Encode(n...)) {
					if firstBad < 0 {
						firstBad = j
					}
					w.fail("oracle", "acked-change-not-in-aof",
						fmt.Sprintf("%v was acknowledged (%s) and changed the dataset, but when the reply arrived appendonly.aof had grown by %d bytes which do not contain the command %v; commands before, on an empty server: %s; change of the dump: %s",
							st.Args, v.String(), len(appended), n, showHistory(cs.History), dumpDiff(dump, d2)), cs, string(appended), nil)
					break
				}
			}
		}
		if useModel {
			toks := append([]string{"exec", "1", strconv.FormatInt(now, 10), "010"}, hexArgs(st.Args)...)
			f := strings.Fields(w.mdl.Ask(toks...))
			switch {
			case len(f) != 8 || f[1] == "u" || f[1] != canonReply(v):
				// outside the modelled fragment, or a reply difference (C01's subject): the two states may
				// differ from here on, the rest of this history is checked by the oracles only
				useModel = false
				w.st.modelStopped++
				e.r.Dist("sweep:model-left-at:" + strings.ToLower(st.Args[0]))
			default:
				w.st.modelSteps++
				mlog := f[5] != "0"
				if mlog != (len(appended) > 0) {
					w.fail("correspondence", "logged-flag-model",
						fmt.Sprintf("%v (reply %s): Model/Keyspace.exec — the handler model the theorems c08_changed_logged / c03ks_noupd are about — says writeAOF appends %s, the server's appendonly.aof grew by %d bytes; dataset changed: %v",
							st.Args, v.String(), map[bool]string{true: "the command", false: "nothing"}[mlog], len(appended), changed), cs, string(appended), strings.Join(f, " "))
				} else if mlog && !bytes.Equal(appended, srv.Encode(st.Args...)) {
					w.fail("correspondence", "logged-bytes-model",
						fmt.Sprintf("%v: the model logs exactly the argument list, the server appended %q", st.Args, string(appended)), cs, string(appended), nil)
				}
			}
		}
		key := "sweep|" + strings.ToLower(st.Args[0])
		for _, a := range st.Args[1:] {
			key += " " + a
		}
		e.r.Count(key+fmt.Sprintf("|%v", changed), changed)
		kind := strings.ToLower(st.Args[0])
		if strings.HasPrefix(kind, "eval") && len(needles) > 0 && len(needles[0]) > 0 {
			kind += ">" + strings.ToLower(needles[0][0])
		}
		e.r.Dist(fmt.Sprintf("sweep:%s:changed=%v", kind, changed))
		if os.Getenv("C08_SWEEP_TRACE") != "" {
			fmt.Fprintf(os.Stderr, "sweep %q: %q -> %s changed=%v appended=%d\n", p.Name, st.Args, v.String(), changed, len(appended))
		}
		dump, dumps[j], replies[j] = d2, d2, v.String()
	}
	c.Close()
	s.Kill()
	e.r.Sample(12, map[string]interface{}{"sweep_history": p.Name, "commands": len(p.Steps), "changed_dataset": len(changedAt)})
	// kill -9 at the acknowledgement of: the first command the oracle complained about, the last
	// command, and random commands that changed the dataset
	cut := map[int]bool{}
	if firstBad >= 0 {
		cut[firstBad] = true
	}
	if nKill > 0 && len(p.Steps) > 0 {
		cut[len(p.Steps)-1] = true
	}
	for k := 0; k < 20 && len(cut) < nKill && len(changedAt) > 0; k++ {
		cut[changedAt[w.rng.Intn(len(changedAt))]] = true
	}
	for j := 0; j < len(p.Steps); j++ {
		if cut[j] {
			// the namespaces of directed cases are disjoint: the case's own commands reproduce it, unless
			// an earlier command of the history was already found missing from the file
			w.kill(p, j, dumps[j], replies, firstBad >= 0 && j > firstBad)
		}
	}
}

// kill replays steps 0..j on a fresh server, kills it as soon as the reply of step j has been read,
// restarts it on the same directory and compares the dump with the one observed after step j.
func (w *sweeper) kill(p swProg, j int, want string, replies []string, fullHistory bool) {
	e := w.e
	e.nsrv++
	w.st.servers += 2
	dir := filepath.Join(e.cfg.Work, fmt.Sprintf("sweep%d", e.nsrv))
	cs := swCase{Program: p.Name + " + kill -9 at the last reply", Case: p.Steps[j].Case, History: p.historyOf(j), Command: p.Steps[j].Args, Reply: replies[j], Seed: e.cfg.Seed}
	if fullHistory {
		cs.History = nil
		for i := 0; i < j; i++ {
			cs.History = append(cs.History, p.Steps[i].Args)
		}
	}
	s, err := srv.Start(dir)
	if err != nil {
		w.fail("correspondence", "server-start", err.Error(), cs, nil, nil)
		return
	}
	c := s.MustDial()
	c.Timeout = 10 * time.Second
	same := true
	for i := 0; i <= j; i++ {
		v, err := c.Do(p.Steps[i].Args...)
		if err != nil {
			s.Kill()
			c.Close()
			w.fail("oracle", "server-died", fmt.Sprintf("no reply to %v: %v", p.Steps[i].Args, err), cs, nil, nil)
			return
		}
		if v.String() != replies[i] {
			same = false
		}
	}
	s.Kill()
	c.Close()
	e.kills++
	w.st.kills++
	if !same {
		// the second run answered differently (time-dependent reply): nothing to compare against
		e.r.Dist("sweep:kill-run-not-comparable")
		return
	}
	ps, err := srv.Start(dir)
	if err != nil {
		w.fail("oracle", "restart-failed", "server does not restart after kill -9: "+err.Error(), cs, nil, nil)
		return
	}
	defer ps.Kill()
	pc := ps.MustDial()
	defer pc.Close()
	got := srv.Dump(pc)
	if got != want {
		w.fail("oracle", "acked-write-lost-after-kill9",
			fmt.Sprintf("%v was acknowledged (%s), the server was killed with SIGKILL when the reply had been read, and after the restart the dataset is not the acknowledged one: %s (- acknowledged state, + state after restart); commands before, on an empty server: %s",
				p.Steps[j].Args, replies[j], dumpDiff(want, got), showHistory(cs.History)), cs, got, nil)
	}
	e.r.Dist("sweep:kill9-restart-compared")
}

// ---------------------------------------------------------------------------------------------
// directed cases

type dcase struct {
	name   string
	setup  [][]string
	probes [][]string
}

func cmd(a ...string) []string { return a }

// the command issued from a script: EVAL / EVALNA "return tile38.call(ARGV[1], .., ARGV[n])" 0 <command>
// (the sandbox has no unpack)
func viaScript(eval string, c []string) swStep {
	refs := make([]string, len(c))
	for i := range c {
		refs[i] = fmt.Sprintf("ARGV[%d]", i+1)
	}
	return swStep{Args: append([]string{eval, "return tile38.call(" + strings.Join(refs, ", ") + ")", "0"}, c...), Needles: [][]string{c}}
}

const feature = `{"type":"Feature","geometry":{"type":"Point","coordinates":[1,2]},"properties":{"n":1,"t":"x"}}`

func keyspaceCases() []dcase {
	set1 := cmd("SET", "@a", "o1", "POINT", "1", "2")
	set2 := cmd("SET", "@a", "o2", "POINT", "3", "4")
	setb := cmd("SET", "@b", "o9", "POINT", "9", "9")
	return []dcase{
		{"SET new / other value / same value", nil, [][]string{set1, cmd("SET", "@a", "o1", "POINT", "5", "6"), cmd("SET", "@a", "o1", "POINT", "5", "6")}},
		{"SET NX on an existing id, on a new id", [][]string{set1}, [][]string{cmd("SET", "@a", "o1", "NX", "POINT", "5", "6"), cmd("SET", "@a", "o3", "NX", "POINT", "5", "6")}},
		{"SET XX without the collection, on a missing id, on an existing id", nil, [][]string{cmd("SET", "@a", "o1", "XX", "POINT", "5", "6"), set2, cmd("SET", "@a", "o1", "XX", "POINT", "5", "6"), cmd("SET", "@a", "o2", "XX", "POINT", "7", "8")}},
		{"SET with FIELD and EX, STRING, OBJECT, BOUNDS, HASH", nil, [][]string{
			cmd("SET", "@a", "o1", "FIELD", "speed", "7", "EX", "5000", "POINT", "1", "2"),
			cmd("SET", "@a", "o2", "STRING", "hello"),
			cmd("SET", "@a", "o3", "OBJECT", `{"type":"Point","coordinates":[1,2]}`),
			cmd("SET", "@a", "o4", "BOUNDS", "1", "2", "3", "4"),
			cmd("SET", "@a", "o5", "HASH", "9q5ctr186n"),
			cmd("set", "@a", "o6", "point", "1", "2", "3")}},
		{"FSET new value / same value / XX / XX on a missing id / several fields", [][]string{cmd("SET", "@a", "o1", "FIELD", "speed", "1", "POINT", "1", "2")}, [][]string{
			cmd("FSET", "@a", "o1", "speed", "2"), cmd("FSET", "@a", "o1", "speed", "2"), cmd("FSET", "@a", "o1", "XX", "speed", "3"),
			cmd("FSET", "@a", "nope", "XX", "speed", "3"), cmd("FSET", "@a", "nope", "speed", "3"), cmd("FSET", "@a", "o1", "alt", "4", "heading", "5"), cmd("FSET", "@a", "o1", "alt", "0")}},
		{"DEL existing / missing / last object of the collection", [][]string{set1, set2}, [][]string{
			cmd("DEL", "@a", "o1"), cmd("DEL", "@a", "o1"), cmd("DEL", "@a", "o2"), cmd("DEL", "@a", "o2"), cmd("DEL", "@a", "o2", "ERRON404")}},
		{"PDEL some / none / all", [][]string{cmd("SET", "@a", "t1", "POINT", "1", "1"), cmd("SET", "@a", "t2", "POINT", "1", "1"), cmd("SET", "@a", "u1", "POINT", "1", "1")}, [][]string{
			cmd("PDEL", "@a", "t*"), cmd("PDEL", "@a", "t*"), cmd("PDEL", "@a", "*"), cmd("PDEL", "@a", "*")}},
		{"DROP existing / missing", [][]string{set1, set2}, [][]string{cmd("DROP", "@a"), cmd("DROP", "@a")}},
		{"RENAME to a free name", [][]string{set1}, [][]string{cmd("RENAME", "@a", "@b")}},
		{"RENAME onto an existing key", [][]string{set1, set2, setb}, [][]string{cmd("RENAME", "@a", "@b")}},
		{"RENAME to a free name, then onto an existing key", [][]string{set1, set2, setb}, [][]string{cmd("RENAME", "@a", "@c"), cmd("RENAME", "@c", "@b"), cmd("RENAME", "@c", "@b")}},
		{"rename (lower case) onto an existing key", [][]string{set1, setb}, [][]string{cmd("rename", "@a", "@b")}},
		{"RENAMENX to a free name", [][]string{set1}, [][]string{cmd("RENAMENX", "@a", "@b")}},
		{"RENAMENX onto an existing key", [][]string{set1, setb}, [][]string{cmd("RENAMENX", "@a", "@b"), cmd("RENAMENX", "@b", "@a")}},
		{"RENAME / RENAMENX of a missing key", nil, [][]string{cmd("RENAME", "@a", "@b"), cmd("RENAMENX", "@a", "@b")}},
		{"EXPIRE without / with a deadline / missing id, PERSIST with / without a deadline", [][]string{set1}, [][]string{
			cmd("EXPIRE", "@a", "o1", "5000"), cmd("EXPIRE", "@a", "o1", "1000"), cmd("EXPIRE", "@a", "nope", "1000"),
			cmd("PERSIST", "@a", "o1"), cmd("PERSIST", "@a", "o1"), cmd("PERSIST", "@a", "nope")}},
		{"JSET / JDEL on a string object", nil, [][]string{
			cmd("JSET", "@a", "j1", "name", "tom"), cmd("JSET", "@a", "j1", "age", "37"), cmd("JSET", "@a", "j1", "age", "37"),
			cmd("JSET", "@a", "j1", "info", `{"a":1}`, "RAW"), cmd("JSET", "@a", "j1", "zip", "0123", "STR"), cmd("JSET", "@a", "j1", "tags.-1", "x"),
			cmd("JDEL", "@a", "j1", "age"), cmd("JDEL", "@a", "j1", "age"), cmd("JDEL", "@a", "j1", "info.a"), cmd("jdel", "@a", "j1", "name"),
			cmd("JDEL", "@a", "nope", "name"), cmd("JDEL", "@zz", "j1", "name")}},
		{"JSET / JDEL on a GeoJSON object", [][]string{cmd("SET", "@a", "g1", "OBJECT", feature)}, [][]string{
			cmd("JSET", "@a", "g1", "properties.m", "5"), cmd("JDEL", "@a", "g1", "properties.n"), cmd("JDEL", "@a", "g1", "properties.zz"),
			cmd("JSET", "@a", "g1", "properties.t", "y"), cmd("JDEL", "@a", "g1", "properties.t")}},
		{"JSET / JDEL on an object with fields and a deadline", [][]string{cmd("SET", "@a", "j2", "FIELD", "speed", "3", "EX", "5000", "STRING", `{"k":1,"l":2}`)}, [][]string{
			cmd("JSET", "@a", "j2", "m", "3"), cmd("JDEL", "@a", "j2", "k")}},
	}
}

func hookCases() []dcase {
	ep := "http://127.0.0.1:9/c08"
	near := func(name, key, radius string) []string {
		return cmd("SETHOOK", name, ep, "NEARBY", key, "FENCE", "POINT", "10", "10", radius)
	}
	chn := func(name, key, radius string) []string {
		return cmd("SETCHAN", name, "NEARBY", key, "FENCE", "POINT", "10", "10", radius)
	}
	return []dcase{
		{"SETHOOK new / same / other fence / with META", nil, [][]string{
			near("@h", "@fz", "1000"), near("@h", "@fz", "1000"), near("@h", "@fz", "2000"),
			cmd("SETHOOK", "@h2", ep, "META", "a", "b", "WITHIN", "@fz", "FENCE", "BOUNDS", "0", "0", "1", "1")}},
		{"DELHOOK existing / missing", [][]string{near("@h", "@fz", "1000")}, [][]string{cmd("DELHOOK", "@h"), cmd("DELHOOK", "@h")}},
		{"PDELHOOK some / none", [][]string{near("@h1", "@fz", "1000"), near("@h2", "@fz", "1000")}, [][]string{cmd("PDELHOOK", "@h*"), cmd("PDELHOOK", "@h*")}},
		{"SETCHAN new / same / other fence, DELCHAN, PDELCHAN", nil, [][]string{
			chn("@c", "@fz", "1000"), chn("@c", "@fz", "1000"), chn("@c", "@fz", "3000"), chn("@c2", "@fz", "1000"),
			cmd("DELCHAN", "@c"), cmd("DELCHAN", "@c"), cmd("PDELCHAN", "@c*"), cmd("PDELCHAN", "@c*")}},
		{"a hook and a channel of the same name", [][]string{near("@n", "@fz", "1000")}, [][]string{chn("@n", "@fz", "1000"), cmd("DELCHAN", "@n"), cmd("DELHOOK", "@n")}},
		{"RENAME of / onto a key with a hook", [][]string{cmd("SET", "@a", "o1", "POINT", "50", "50"), cmd("SET", "@b", "o1", "POINT", "50", "50"), near("@h", "@a", "10")}, [][]string{
			cmd("RENAME", "@a", "@c"), cmd("RENAME", "@b", "@a"), cmd("RENAMENX", "@b", "@a"), cmd("DELHOOK", "@h"), cmd("RENAME", "@b", "@a")}},
	}
}

// script variants of the data-modifying commands (scripts refuse JDEL and the hook commands)
func scriptSteps(prefix string) []swStep {
	var out []swStep
	a, b, c2 := prefix+"a", prefix+"b", prefix+"c"
	add := func(name string, probe bool, st swStep) {
		st.Case, st.Probe = name, probe
		out = append(out, st)
	}
	for _, ev := range []string{"EVAL", "EVALNA"} {
		n := "script writes through " + ev
		add(n, true, viaScript(ev, cmd("set", a, "s1", "point", "3", "4")))
		add(n, true, viaScript(ev, cmd("set", a, "s1", "nx", "point", "3", "4")))
		add(n, true, viaScript(ev, cmd("set", a, "s2", "field", "speed", "1", "string", `{"k":1}`)))
		add(n, true, viaScript(ev, cmd("fset", a, "s2", "speed", "2")))
		add(n, true, viaScript(ev, cmd("jset", a, "s2", "l", "2")))
		add(n, true, viaScript(ev, cmd("jdel", a, "s2", "k")))
		add(n, true, viaScript(ev, cmd("expire", a, "s1", "5000")))
		add(n, true, viaScript(ev, cmd("persist", a, "s1")))
		add(n, true, viaScript(ev, cmd("set", b, "t1", "point", "1", "1")))
		add(n, true, viaScript(ev, cmd("renamenx", a, b)))
		add(n, true, viaScript(ev, cmd("rename", a, b)))
		add(n, true, viaScript(ev, cmd("rename", b, c2)))
		add(n, true, viaScript(ev, cmd("renamenx", c2, a)))
		add(n, true, viaScript(ev, cmd("set", a, "s3", "point", "1", "1")))
		add(n, true, viaScript(ev, cmd("del", a, "s1")))
		add(n, true, viaScript(ev, cmd("del", a, "s1")))
		add(n, true, viaScript(ev, cmd("pdel", a, "s*")))
		add(n, true, viaScript(ev, cmd("set", a, "s4", "point", "1", "1")))
		add(n, true, viaScript(ev, cmd("drop", a)))
		add(n, true, viaScript(ev, cmd("sethook", prefix+"h", "http://127.0.0.1:9/x", "nearby", prefix+"fz", "fence", "point", "1", "1", "10")))
		// two writes in one script; a read-only script
		add(n, true, swStep{Args: cmd(ev, "tile38.call('set', KEYS[1], 'm1', 'point', '1', '1') return tile38.call('set', KEYS[1], 'm2', 'point', '2', '2')", "1", a),
			Needles: [][]string{cmd("set", a, "m1", "point", "1", "1"), cmd("set", a, "m2", "point", "2", "2")}})
		add(n, true, swStep{Args: cmd("EVALRO", "return tile38.call('get', KEYS[1], 'm1')", "1", a), Needles: [][]string{}})
		add(n, true, viaScript(ev, cmd("drop", a)))
	}
	return out
}

func expand(prefix string, c []string) []string {
	out := make([]string, len(c))
	for i, x := range c {
		if strings.HasPrefix(x, "@") {
			out[i] = prefix + x[1:]
		} else {
			out[i] = x
		}
	}
	return out
}

func directedProg(name string, cases []dcase, nonce string, modelOn bool, tail []swStep) swProg {
	p := swProg{Name: name, Model: modelOn}
	for i, dc := range cases {
		prefix := fmt.Sprintf("%s%02d", nonce, i)
		for _, c := range dc.setup {
			p.Steps = append(p.Steps, swStep{Args: expand(prefix, c), Case: dc.name})
		}
		for _, c := range dc.probes {
			p.Steps = append(p.Steps, swStep{Args: expand(prefix, c), Case: dc.name, Probe: true})
		}
	}
	p.Steps = append(p.Steps, tail...)
	return p
}

// ---------------------------------------------------------------------------------------------
// random histories over a small keyspace

func pick(rng *rand.Rand, l ...string) string { return l[rng.Intn(len(l))] }

func randomKeyspaceCmd(rng *rand.Rand) []string {
	key := func() string { return pick(rng, "k0", "k1", "k2") }
	id := func() string { return pick(rng, "a", "b", "c") }
	switch n := rng.Intn(100); {
	case n < 24:
		c := cmd("SET", key(), id())
		if rng.Intn(3) == 0 {
			c = append(c, "FIELD", pick(rng, "speed", "alt"), pick(rng, "0", "1", "2"))
		}
		if rng.Intn(6) == 0 {
			c = append(c, "EX", pick(rng, "5000", "9000"))
		}
		switch rng.Intn(5) {
		case 0:
			c = append(c, "NX")
		case 1:
			c = append(c, "XX")
		}
		switch rng.Intn(4) {
		case 0:
			return append(c, "STRING", pick(rng, `{"n":1,"t":"x"}`, `{"n":2}`, "plain"))
		case 1:
			return append(c, "OBJECT", pick(rng, feature, `{"type":"Point","coordinates":[3,4]}`))
		}
		return append(c, "POINT", pick(rng, "1", "2"), pick(rng, "1", "2"))
	case n < 32:
		c := cmd("FSET", key(), id())
		if rng.Intn(3) == 0 {
			c = append(c, "XX")
		}
		return append(c, pick(rng, "speed", "alt"), pick(rng, "0", "1", "2"))
	case n < 40:
		return cmd("DEL", key(), id())
	case n < 45:
		return cmd("PDEL", key(), pick(rng, "*", "a*", "[ab]", "c"))
	case n < 49:
		return cmd("DROP", key())
	case n < 61:
		return cmd("RENAME", key(), key())
	case n < 69:
		return cmd("RENAMENX", key(), key())
	case n < 75:
		return cmd("EXPIRE", key(), id(), pick(rng, "5000", "9000"))
	case n < 80:
		return cmd("PERSIST", key(), id())
	case n < 88:
		c := cmd("JSET", key(), id(), pick(rng, "n", "t", "properties.n", "m"), pick(rng, "1", "2", "x"))
		if rng.Intn(4) == 0 {
			c = append(c, pick(rng, "RAW", "STR"))
		}
		return c
	case n < 95:
		return cmd("JDEL", key(), id(), pick(rng, "n", "t", "properties.n", "m"))
	case n < 97:
		return cmd("FLUSHDB")
	case n < 99:
		return cmd("GET", key(), id())
	}
	return cmd("SCAN", key())
}

var scriptable = map[string]bool{"set": true, "fset": true, "del": true, "pdel": true, "drop": true, "rename": true,
	"renamenx": true, "expire": true, "persist": true, "jset": true}

func randomProg(rng *rand.Rand, i int, mixed bool) swProg {
	p := swProg{Name: fmt.Sprintf("random keyspace history #%d", i), Model: !mixed}
	if mixed {
		p.Name = fmt.Sprintf("random history with scripts, hooks and channels #%d", i)
	}
	n := 18 + rng.Intn(14)
	for k := 0; k < n; k++ {
		if mixed && rng.Intn(6) == 0 {
			name := pick(rng, "h0", "h1")
			fz := pick(rng, "fz0", "fz1")
			switch rng.Intn(6) {
			case 0, 1:
				p.Steps = append(p.Steps, swStep{Args: cmd("SETHOOK", name, "http://127.0.0.1:9/r", "NEARBY", fz, "FENCE", "POINT", "10", "10", pick(rng, "100", "200"))})
			case 2:
				p.Steps = append(p.Steps, swStep{Args: cmd("SETCHAN", name, "WITHIN", fz, "FENCE", "BOUNDS", "0", "0", pick(rng, "1", "2"), "1")})
			case 3:
				p.Steps = append(p.Steps, swStep{Args: cmd("DELHOOK", name)})
			case 4:
				p.Steps = append(p.Steps, swStep{Args: cmd("DELCHAN", name)})
			default:
				p.Steps = append(p.Steps, swStep{Args: cmd(pick(rng, "PDELHOOK", "PDELCHAN"), pick(rng, "*", "h0*"))})
			}
			continue
		}
		c := randomKeyspaceCmd(rng)
		if mixed && scriptable[strings.ToLower(c[0])] && rng.Intn(5) < 2 {
			p.Steps = append(p.Steps, viaScript(pick(rng, "EVAL", "EVALNA"), c))
			continue
		}
		p.Steps = append(p.Steps, swStep{Args: c})
	}
	return p
}

// ---------------------------------------------------------------------------------------------

func (e *env) sweepAll(rng *rand.Rand, nRandom, nKill int, within func() bool) {
	w := &sweeper{e: e, rng: rng}
	if m, err := ksx.Start("ks"); err == nil {
		w.mdl = m
		defer m.Close()
	} else {
		w.fail("correspondence", "model-driver", "ocaml/ks driver: "+err.Error(), swCase{Seed: e.cfg.Seed}, nil, nil)
	}
	nonce := e.nonce
	flush := []swStep{
		{Args: cmd("FLUSHDB"), Case: "FLUSHDB on a non-empty / empty database", Probe: true},
		{Args: cmd("FLUSHDB"), Case: "FLUSHDB on a non-empty / empty database", Probe: true},
		{Args: cmd("SET", nonce+"z", "o1", "POINT", "1", "2"), Case: "FLUSHDB on a non-empty / empty database"},
		{Args: cmd("flushdb"), Case: "FLUSHDB on a non-empty / empty database", Probe: true},
	}
	w.run(directedProg("every keyspace command and variant", keyspaceCases(), nonce+"k", true, flush), nKill)
	tail := scriptSteps(nonce + "s")
	tail = append(tail,
		swStep{Args: cmd("SETHOOK", nonce+"hf", "http://127.0.0.1:9/x", "NEARBY", nonce+"fz", "FENCE", "POINT", "1", "1", "10"), Case: "FLUSHDB from a script drops hooks as well"},
		swStep{Args: cmd("SET", nonce+"y", "o1", "POINT", "1", "2"), Case: "FLUSHDB from a script drops hooks as well"})
	fl := viaScript("EVAL", cmd("flushdb"))
	fl.Case, fl.Probe = "FLUSHDB from a script drops hooks as well", true
	tail = append(tail, fl)
	w.run(directedProg("hooks, channels and script writes", hookCases(), nonce+"h", false, tail), nKill)
	for i := 0; i < nRandom && within(); i++ {
		w.run(randomProg(rng, i, i%3 == 2), nKill)
	}
	e.r.Extra["sweep_commands_run"] = w.st.steps
	e.r.Extra["sweep_commands_that_changed_the_dataset"] = w.st.changed
	e.r.Extra["sweep_commands_that_grew_the_aof"] = w.st.logged
	e.r.Extra["sweep_commands_compared_with_keyspace_model"] = w.st.modelSteps
	e.r.Extra["sweep_histories_leaving_the_modelled_fragment"] = w.st.modelStopped
	e.r.Extra["sweep_kill9_restarts"] = w.st.kills
	if w.mdl != nil {
		e.r.Extra["sweep_model_oracle_values"] = w.mdl.NOrc
	}
}
