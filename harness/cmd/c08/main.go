// C08 — a write is handed to the log file before its acknowledgement is sent.
//
// Three parts:
//  1. source order: netServe / writeAOF / flushAOF / backgroundSyncAOF are parsed (go/ast) and the
//     relative order of aofdirty.Load, the locked flushAOF, aofdirty.Store(false), the unlock and the
//     socket write is compared with the order the theorem c08_acked_flushed is about (v_fixed);
//  2. schedule replay: the server (built -tags verif, VERIF_SCHED_SOCK set) parks connection
//     goroutines at the named points; the harness releases them in the order of a model schedule
//     and compares point / loggedSeq / flushedSeq / dirty flag with the extracted model after
//     every released step (correspondence);
//  3. direct oracle (no model): at every acknowledgement the command must already be counted
//     as flushed and its bytes must be in appendonly.aof; for selected schedules the server is
//     killed with SIGKILL at that moment, restarted, and the acknowledged objects must exist.
package main

import (
	"bufio"
	"bytes"
	"fmt"
	"go/ast"
	"go/parser"
	"go/token"
	"go/types"
	"math/rand"
	"net"
	"os"
	"path/filepath"
	"sort"
	"strconv"
	"strings"
	"time"

	"verifharness/internal/hx"
	"verifharness/internal/model"
	"verifharness/internal/srv"
)

func main() { hx.Main("C08", runC08) }

// ---------------------------------------------------------------------------------------------
// 1. source order

type srcOrder struct {
	StoreLocked       bool     `json:"store_locked"`
	DetachPrewrite    bool     `json:"detach_prewrite"`
	FlusherSwap       bool     `json:"flusher_swap"`
	FlagInWriteAOF    bool     `json:"flag_in_writeaof"`
	DetachStoreLocked bool     `json:"golive_store_locked"`
	FlusherStore      bool     `json:"flusher_store"`
	Callers           []string `json:"writeaof_callers"`
	Problems          []string `json:"problems"`
	Main              string   `json:"main_block_order"`
	Detach            string   `json:"golive_block_order"`
}

type ev struct {
	kind string
	pos  token.Pos
}

func callee(c *ast.CallExpr) string { return types.ExprString(c.Fun) }

func isClientOutLenCond(e ast.Expr) bool {
	return types.ExprString(e) == "len(client.out) > 0"
}

// events of the pre-write sequence inside a block, in source order. The position of a deferred
// unlock is the end of the function literal that contains the defer.
func prewriteEvents(body *ast.BlockStmt) []ev {
	var out []ev
	var lits []*ast.FuncLit
	var walk func(n ast.Node)
	walk = func(n ast.Node) {
		ast.Inspect(n, func(x ast.Node) bool {
			switch v := x.(type) {
			case *ast.FuncLit:
				if v != n {
					lits = append(lits, v)
					walk(v.Body)
					lits = lits[:len(lits)-1]
					return false
				}
			case *ast.DeferStmt:
				if callee(v.Call) == "s.mu.Unlock" {
					end := body.End()
					if len(lits) > 0 {
						end = lits[len(lits)-1].End()
					}
					out = append(out, ev{"unlock", end})
					return false
				}
			case *ast.CallExpr:
				switch callee(v) {
				case "s.aofdirty.Load":
					out = append(out, ev{"load", v.Pos()})
				case "s.mu.Lock":
					out = append(out, ev{"lock", v.Pos()})
				case "s.mu.Unlock":
					out = append(out, ev{"unlock", v.Pos()})
				case "s.flushAOF":
					out = append(out, ev{"flush", v.Pos()})
				case "s.aofdirty.Store":
					k := "store?"
					if len(v.Args) == 1 {
						k = "store(" + types.ExprString(v.Args[0]) + ")"
					}
					out = append(out, ev{k, v.Pos()})
				case "conn.Write", "client.conn.Write":
					if len(v.Args) == 1 && types.ExprString(v.Args[0]) == "client.out" {
						out = append(out, ev{"write", v.Pos()})
					}
				}
			}
			return true
		})
	}
	walk(body)
	sort.SliceStable(out, func(i, j int) bool { return out[i].pos < out[j].pos })
	return out
}

func evString(es []ev) string {
	var s []string
	for _, e := range es {
		s = append(s, e.kind)
	}
	return strings.Join(s, " ")
}

func readSourceOrder(repo string) srcOrder {
	so := srcOrder{}
	bad := func(f string, a ...interface{}) { so.Problems = append(so.Problems, fmt.Sprintf(f, a...)) }
	fset := token.NewFileSet()
	dir := filepath.Join(repo, "internal", "server")
	parse := func(name string) *ast.File {
		f, err := parser.ParseFile(fset, filepath.Join(dir, name), nil, 0)
		if err != nil {
			bad("cannot parse %s: %v", name, err)
			return nil
		}
		return f
	}
	fn := func(f *ast.File, name string) *ast.FuncDecl {
		if f == nil {
			return nil
		}
		for _, d := range f.Decls {
			if fd, ok := d.(*ast.FuncDecl); ok && fd.Name.Name == name && fd.Body != nil {
				return fd
			}
		}
		bad("function %s not found", name)
		return nil
	}
	serverGo, aofGo := parse("server.go"), parse("aof.go")

	// netServe: the two `if len(client.out) > 0` blocks
	if ns := fn(serverGo, "netServe"); ns != nil {
		var mainBlk, detBlk *ast.IfStmt
		ast.Inspect(ns.Body, func(x ast.Node) bool {
			if is, ok := x.(*ast.IfStmt); ok && isClientOutLenCond(is.Cond) {
				es := prewriteEvents(is.Body)
				direct := false
				ast.Inspect(is.Body, func(y ast.Node) bool {
					if c, ok := y.(*ast.CallExpr); ok && callee(c) == "conn.Write" {
						direct = true
					}
					return true
				})
				_ = es
				if direct {
					if mainBlk != nil {
						bad("netServe: more than one block writes client.out with conn.Write")
					}
					mainBlk = is
				} else {
					if detBlk != nil {
						bad("netServe: more than one goingLive block writes client.out")
					}
					detBlk = is
				}
			}
			return true
		})
		classify := func(blk *ast.IfStmt, what string, mustPrewrite bool) (prewrite, storeLocked bool, desc string) {
			es := prewriteEvents(blk.Body)
			desc = evString(es)
			idx := map[string][]token.Pos{}
			for _, e := range es {
				idx[e.kind] = append(idx[e.kind], e.pos)
			}
			if len(idx["write"]) != 1 {
				bad("%s: expected exactly one socket write of client.out, found %d (%s)", what, len(idx["write"]), desc)
				return
			}
			n := len(idx["load"]) + len(idx["lock"]) + len(idx["flush"]) + len(idx["store(false)"]) + len(idx["unlock"])
			if n == 0 && !mustPrewrite {
				return false, false, desc
			}
			for _, k := range []string{"load", "lock", "flush", "store(false)", "unlock"} {
				if len(idx[k]) != 1 {
					bad("%s: expected exactly one %s, found %d (%s)", what, k, len(idx[k]), desc)
					return
				}
			}
			for k := range idx {
				if strings.HasPrefix(k, "store") && k != "store(false)" {
					bad("%s: unexpected %s", what, k)
					return
				}
			}
			ld, lk, fl, st, ul, wr := idx["load"][0], idx["lock"][0], idx["flush"][0], idx["store(false)"][0], idx["unlock"][0], idx["write"][0]
			if !(ld < lk && lk < fl && fl < ul && ul <= wr && fl < st && st < wr) {
				bad("%s: order is not load < lock < flush < {store(false), unlock} < write (%s)", what, desc)
				return
			}
			// the load must be the condition of an if statement that contains lock/flush/store and not the write
			okCond := false
			ast.Inspect(blk.Body, func(y ast.Node) bool {
				if is, ok := y.(*ast.IfStmt); ok && types.ExprString(is.Cond) == "s.aofdirty.Load()" {
					if is.Body.Pos() < lk && st < is.Body.End() && ul <= is.Body.End() && is.Body.End() <= wr && is.Else == nil {
						okCond = true
					}
				}
				return true
			})
			if !okCond {
				bad("%s: the locked flush and the flag clear are not guarded by `if s.aofdirty.Load()` with the write after it (%s)", what, desc)
				return
			}
			return true, st < ul, desc
		}
		if mainBlk == nil {
			bad("netServe: block `if len(client.out) > 0 { … conn.Write(client.out) }` not found")
		} else {
			_, so.StoreLocked, so.Main = classify(mainBlk, "netServe reply block", true)
		}
		if detBlk == nil {
			bad("netServe: goingLive block writing client.out not found")
		} else {
			so.DetachPrewrite, so.DetachStoreLocked, so.Detach = classify(detBlk, "netServe goingLive block", false)
			if !so.DetachPrewrite {
				so.DetachStoreLocked = true // no pre-write there at all: the other variant field says so
			}
		}
	}
	// writeAOF: flag set before the append; flushAOF: file write before the buffer reset
	firstAssign := func(fd *ast.FuncDecl, lhs string) token.Pos {
		var p token.Pos
		ast.Inspect(fd.Body, func(x ast.Node) bool {
			if a, ok := x.(*ast.AssignStmt); ok && p == 0 && len(a.Lhs) == 1 && types.ExprString(a.Lhs[0]) == lhs {
				p = a.Pos()
			}
			return true
		})
		return p
	}
	firstCall := func(fd *ast.FuncDecl, name string) token.Pos {
		var p token.Pos
		ast.Inspect(fd.Body, func(x ast.Node) bool {
			if c, ok := x.(*ast.CallExpr); ok && p == 0 && callee(c) == name {
				p = c.Pos()
			}
			return true
		})
		return p
	}
	if w := fn(aofGo, "writeAOF"); w != nil {
		// the block `if s.aof != nil { flag; append }` must be a top-level statement of writeAOF, reached by every
		// updating command whatever else is going on (AOFSHRINK's shrinklog, hooks, live fences), and the only
		// return before it is the `!d.updated` one
		top := false
		apPos := firstAssign(w, "s.aofbuf")
		for _, stmt := range w.Body.List {
			if apPos != 0 && stmt.Pos() > apPos {
				break
			}
			is, ok := stmt.(*ast.IfStmt)
			if ok && types.ExprString(is.Cond) == "s.aof != nil" && is.Init == nil {
				has := false
				ast.Inspect(is.Body, func(x ast.Node) bool {
					if a, ok := x.(*ast.AssignStmt); ok && len(a.Lhs) == 1 && types.ExprString(a.Lhs[0]) == "s.aofbuf" {
						has = true
					}
					return true
				})
				if has {
					top = true
				}
				break
			}
			nret := 0
			ast.Inspect(stmt, func(x ast.Node) bool {
				if _, ok := x.(*ast.ReturnStmt); ok {
					nret++
				}
				return true
			})
			if is, ok := stmt.(*ast.IfStmt); ok && types.ExprString(is.Cond) == "d != nil && !d.updated" {
				nret = 0
			}
			if nret > 0 {
				bad("writeAOF can return before the append to s.aofbuf (statement at line %d)", fset.Position(stmt.Pos()).Line)
			}
		}
		if !top {
			bad("writeAOF: the append to s.aofbuf is not an unconditional `if s.aof != nil { ... }` statement of the function body (the model appends every updating command, also while an AOFSHRINK is running)")
		}
		st, ap := firstCall(w, "s.aofdirty.Store"), firstAssign(w, "s.aofbuf")
		switch {
		case ap == 0:
			bad("writeAOF: no append to s.aofbuf")
		case st != 0 && st < ap:
			so.FlagInWriteAOF = true
		case st != 0:
			bad("writeAOF: s.aofdirty.Store(true) does not precede the append to s.aofbuf")
		default:
			// the flag is not raised by writeAOF: recognised only as "handleInputCommand raises it right
			// after its own writeAOF call, under the lock" (then script writes never raise it)
			ok := false
			if h := fn(serverGo, "handleInputCommand"); h != nil {
				ast.Inspect(h.Body, func(x ast.Node) bool {
					is, isIf := x.(*ast.IfStmt)
					if !isIf || types.ExprString(is.Cond) != "write" {
						return true
					}
					var wpos, spos token.Pos
					ast.Inspect(is.Body, func(y ast.Node) bool {
						if c, isCall := y.(*ast.CallExpr); isCall {
							if callee(c) == "s.writeAOF" && wpos == 0 {
								wpos = c.Pos()
							}
							if callee(c) == "s.aofdirty.Store" && len(c.Args) == 1 && types.ExprString(c.Args[0]) == "true" {
								spos = c.Pos()
							}
						}
						return true
					})
					if wpos != 0 && spos != 0 && wpos < spos {
						ok = true
					}
					return true
				})
			}
			if !ok {
				bad("the dirty flag is raised neither in writeAOF before the append nor in handleInputCommand after writeAOF")
			}
		}
	}
	// who calls writeAOF: the model knows the dispatcher, the two script paths (they reply to a client)
	// and the silent writers (expirer, follower, dev massinsert)
	knownCallers := map[string]bool{"handleInputCommand": true, "luaTile38AtomicRW": true, "luaTile38NonAtomic": true,
		"backgroundExpireObjects": true, "backgroundExpireHooks": true, "followHandleCommand": true, "cmdMassInsert": true}
	if f := fn(aofGo, "flushAOF"); f != nil {
		wr, rs := firstCall(f, "s.aof.Write"), firstAssign(f, "s.aofbuf")
		if wr == 0 || rs == 0 || !(wr < rs) {
			bad("flushAOF: s.aof.Write(s.aofbuf) does not precede the reset of s.aofbuf")
		}
	}
	if b := fn(serverGo, "backgroundSyncAOF"); b != nil {
		lk, fl := firstCall(b, "s.mu.LockLowPriority"), firstCall(b, "s.flushAOF")
		// an access to the flag by the flusher: recognised as `if !s.aofdirty.Swap(false) { return }` before the
		// lock, or as a statement `s.aofdirty.Store(false)` at the start of the round (before the lock and
		// before the flusher's first schedule point)
		nflag, nswap, nstore := 0, 0, 0
		var f1 token.Pos
		ast.Inspect(b.Body, func(x ast.Node) bool {
			if c, ok := x.(*ast.CallExpr); ok && callee(c) == "s.verifSchedBG" && len(c.Args) == 1 && types.ExprString(c.Args[0]) == `"F1"` && f1 == 0 {
				f1 = c.Pos()
			}
			return true
		})
		ast.Inspect(b.Body, func(x ast.Node) bool {
			if c, ok := x.(*ast.CallExpr); ok && strings.HasPrefix(callee(c), "s.aofdirty.") {
				nflag++
			}
			if is, ok := x.(*ast.IfStmt); ok && types.ExprString(is.Cond) == "!s.aofdirty.Swap(false)" && is.Else == nil &&
				len(is.Body.List) == 1 && lk != 0 && is.End() < lk {
				if _, isRet := is.Body.List[0].(*ast.ReturnStmt); isRet {
					nswap++
				}
			}
			if fl, ok := x.(*ast.FuncLit); ok {
				for _, stm := range fl.Body.List {
					if es, ok := stm.(*ast.ExprStmt); ok && types.ExprString(es.X) == "s.aofdirty.Store(false)" &&
						lk != 0 && es.End() < lk && (f1 == 0 || es.End() < f1) {
						nstore++
					}
				}
			}
			return true
		})
		if nflag == 1 && nswap == 1 {
			so.FlusherSwap = true
		} else if nflag == 1 && nstore == 1 {
			so.FlusherStore = true
		} else if nflag != 0 {
			bad("backgroundSyncAOF touches the dirty flag in a way the model does not know")
		}
		hasDefer := false
		ast.Inspect(b.Body, func(x ast.Node) bool {
			if d, ok := x.(*ast.DeferStmt); ok && callee(d.Call) == "s.mu.Unlock" {
				hasDefer = true
			}
			return true
		})
		if lk == 0 || fl == 0 || !(lk < fl) || !hasDefer {
			bad("backgroundSyncAOF is not lock; defer unlock; flushAOF")
		}
	}
	// every use of the flag in the package
	files, _ := filepath.Glob(filepath.Join(dir, "*.go"))
	uses := map[string]int{}
	callers := map[string]bool{}
	for _, p := range files {
		base := filepath.Base(p)
		if strings.HasSuffix(base, "_test.go") || strings.HasPrefix(base, "verif_") {
			continue
		}
		f, err := parser.ParseFile(fset, p, nil, 0)
		if err != nil {
			continue
		}
		ast.Inspect(f, func(x ast.Node) bool {
			if c, ok := x.(*ast.CallExpr); ok && strings.HasPrefix(callee(c), "s.aofdirty.") {
				k := callee(c)
				if len(c.Args) == 1 {
					k += "(" + types.ExprString(c.Args[0]) + ")"
				}
				uses[base+":"+k]++
			}
			return true
		})
		for _, d := range f.Decls {
			if fd, ok := d.(*ast.FuncDecl); ok && fd.Body != nil {
				ast.Inspect(fd.Body, func(x ast.Node) bool {
					if c, ok := x.(*ast.CallExpr); ok && callee(c) == "s.writeAOF" {
						callers[fd.Name.Name] = true
					}
					return true
				})
			}
		}
	}
	for c := range callers {
		so.Callers = append(so.Callers, c)
		if !knownCallers[c] {
			bad("writeAOF has a caller the model does not know: %s", c)
		}
	}
	sort.Strings(so.Callers)
	for _, c := range []string{"handleInputCommand", "luaTile38AtomicRW", "luaTile38NonAtomic"} {
		if !callers[c] {
			bad("%s no longer calls writeAOF", c)
		}
	}
	want := map[string]int{"server.go:s.aofdirty.Load": 1, "server.go:s.aofdirty.Store(false)": 1}
	if so.FlagInWriteAOF {
		want["aof.go:s.aofdirty.Store(true)"] = 1
	} else {
		want["server.go:s.aofdirty.Store(true)"] = 1
	}
	if so.FlusherSwap {
		want["server.go:s.aofdirty.Swap(false)"] = 1
	}
	if so.DetachPrewrite {
		want["server.go:s.aofdirty.Load"], want["server.go:s.aofdirty.Store(false)"] = 2, 2
	}
	if so.FlusherStore {
		want["server.go:s.aofdirty.Store(false)"]++
	}
	for k, n := range uses {
		if want[k] != n {
			bad("unexpected use of the dirty flag: %s ×%d (model knows %d)", k, n, want[k])
		}
	}
	for k, n := range want {
		if uses[k] != n {
			bad("expected use of the dirty flag missing: %s ×%d (found %d)", k, n, uses[k])
		}
	}
	return so
}

// ---------------------------------------------------------------------------------------------
// 2. scenarios and the model

type batch struct {
	Cmds   []int  `json:"cmds"`
	Detach bool   `json:"golive,omitempty"`
	Via    string `json:"via,omitempty"` // "" = plain commands; "eval" / "evalna" = each command is tile38.call(...) inside a script
	Del    bool   `json:"del,omitempty"` // the commands are DELs of objects created (and flushed) before the schedule starts
}

type prog struct {
	Flusher bool    `json:"flusher,omitempty"`
	Batches []batch `json:"batches,omitempty"`
}

type scenario struct {
	Name      string `json:"name"`
	Progs     []prog `json:"progs"`
	Sched     []int  `json:"sched"`
	KillAtAck int    `json:"kill9_at_ack,omitempty"` // n-th acknowledgement (1-based) after which the server is killed
}

func (p prog) token() string {
	if p.Flusher {
		return "F"
	}
	var bs []string
	for _, b := range p.Batches {
		s := "_"
		if len(b.Cmds) > 0 {
			var cs []string
			for _, c := range b.Cmds {
				cs = append(cs, strconv.Itoa(c))
			}
			s = strings.Join(cs, ",")
		}
		if b.Via != "" && len(b.Cmds) > 0 {
			s += "~"
		}
		if b.Detach {
			s += "!"
		}
		bs = append(bs, s)
	}
	return "C" + strings.Join(bs, "/")
}

func (sc scenario) key() string {
	var ps []string
	for _, p := range sc.Progs {
		ps = append(ps, p.token())
	}
	return strings.Join(ps, " ") + " | " + schedString(sc.Sched) + " | k" + strconv.Itoa(sc.KillAtAck)
}

func schedString(s []int) string {
	if len(s) == 0 {
		return "-"
	}
	var b strings.Builder
	for i, t := range s {
		if i > 0 {
			b.WriteByte(',')
		}
		b.WriteString(strconv.Itoa(t))
	}
	return b.String()
}

type mstate struct {
	Raw   string
	PCs   []string
	Lock  string
	Dirty bool
	Buf   []int
	File  []int
	Acked []int
	OK    bool
}

func parseInts(s string) []int {
	if s == "-" || s == "" {
		return nil
	}
	var out []int
	for _, x := range strings.Split(s, ",") {
		n, _ := strconv.Atoi(x)
		out = append(out, n)
	}
	return out
}

func parseMState(w string) mstate {
	f := strings.Split(w, ":")
	if len(f) != 7 {
		panic("bad model state " + w)
	}
	return mstate{Raw: w, PCs: strings.Split(f[0], "."), Lock: f[1], Dirty: f[2] == "1", Buf: parseInts(f[3]),
		File: parseInts(f[4]), Acked: parseInts(f[5]), OK: f[6] == "1"}
}

type variant struct{ storeLocked, detachPrewrite, flusherSwap, flagInWriteAOF, detachStoreLocked, flusherStore bool }

func modelTrace(drv *model.Driver, v variant, progs []prog, sched []int) []mstate {
	toks := []string{"trace", model.B(v.storeLocked), model.B(v.detachPrewrite), model.B(v.flusherSwap), model.B(v.flagInWriteAOF), model.B(v.detachStoreLocked), model.B(v.flusherStore), strconv.Itoa(len(progs))}
	for _, p := range progs {
		toks = append(toks, p.token())
	}
	toks = append(toks, schedString(sched))
	rep := drv.Ask(toks...)
	if strings.HasPrefix(rep, "?") || strings.HasPrefix(rep, "!") {
		panic("model driver: " + rep)
	}
	var out []mstate
	for _, w := range strings.Fields(rep) {
		out = append(out, parseMState(w))
	}
	if len(out) != len(sched)+1 {
		panic(fmt.Sprintf("model trace length %d for schedule of %d", len(out), len(sched)))
	}
	return out
}

// ---------------------------------------------------------------------------------------------
// control socket of the verif build

type ctl struct {
	c net.Conn
	r *bufio.Reader
}

func (c *ctl) ask(f string, a ...interface{}) string {
	c.c.SetDeadline(time.Now().Add(15 * time.Second))
	if _, err := fmt.Fprintf(c.c, f+"\n", a...); err != nil {
		return "err io " + err.Error()
	}
	line, err := c.r.ReadString('\n')
	if err != nil {
		return "err io " + err.Error()
	}
	return strings.TrimSpace(line)
}

type status struct {
	Raw     string
	Name    string
	Point   string
	Park    bool
	Logged  int64
	Flushed int64
	MySeq   int64
	Dirty   bool
	OK      bool
}

func parseStatus(s string) status {
	st := status{Raw: s}
	f := strings.Fields(s)
	if len(f) != 7 {
		return st
	}
	st.Name, st.Point = f[0], f[1]
	get := func(kv, k string) int64 {
		if !strings.HasPrefix(kv, k+"=") {
			return -1
		}
		n, err := strconv.ParseInt(kv[len(k)+1:], 10, 64)
		if err != nil {
			return -1
		}
		return n
	}
	p, d := get(f[2], "park"), get(f[6], "dirty")
	st.Logged, st.Flushed, st.MySeq = get(f[3], "logged"), get(f[4], "flushed"), get(f[5], "myseq")
	if p < 0 || d < 0 || st.Logged < 0 || st.Flushed < 0 || st.MySeq < 0 {
		return st
	}
	st.Park, st.Dirty, st.OK = p == 1, d == 1, true
	return st
}

// ---------------------------------------------------------------------------------------------
// replay environment

type env struct {
	r        *hx.Result
	cfg      hx.Config
	drv      *model.Driver
	v        variant
	srv      *srv.Server
	ctl      *ctl
	dir      string
	nsrv     int
	nscen    int
	base     int64 // loggedSeq at the start of the current scenario
	bgFlying bool  // the flusher was released from F3 and has not been seen at F1 again
	nonce    string
	steps    int
	acks     int
	kills    int
	nfail    int
}

func (e *env) startServer() error {
	e.stopServer()
	e.nsrv++
	e.dir = filepath.Join(e.cfg.Work, fmt.Sprintf("s%d", e.nsrv))
	os.MkdirAll(e.dir, 0o755)
	sock := filepath.Join(e.dir, "sched.sock")
	os.Setenv("VERIF_SCHED_SOCK", sock)
	s, err := srv.Start(e.dir)
	os.Unsetenv("VERIF_SCHED_SOCK")
	if err != nil {
		return err
	}
	e.srv = s
	c, err := net.Dial("unix", sock)
	if err != nil {
		return fmt.Errorf("control socket: %v (is the server built with -tags verif?)", err)
	}
	e.ctl = &ctl{c: c, r: bufio.NewReader(c)}
	st := parseStatus(e.ctl.ask("wait bg 5000"))
	if !st.OK || st.Point != "F1" {
		return fmt.Errorf("background flusher did not park at F1: %q", st.Raw)
	}
	e.bgFlying = false
	e.base = st.Logged
	return nil
}

func (e *env) stopServer() {
	if e.ctl != nil {
		e.ctl.c.Close()
		e.ctl = nil
	}
	if e.srv != nil {
		e.srv.Kill()
		e.srv = nil
	}
}

func (e *env) objID(scen, c int) string { return fmt.Sprintf("%sx%dc%d", e.nonce, scen, c) }

type rthread struct {
	idx      int
	name     string
	conn     *srv.Conn
	prog     prog
	nextB    int    // next batch to send
	cur      status // where it is parked
	expect   int    // replies not yet read for batches already sent
	curCmds  []int
	curPlain bool
	dels     map[int]bool
	attached bool
}

func (e *env) fail(kind, sig, what string, sc scenario, impl, mod interface{}) {
	e.nfail++
	e.r.Fail(hx.Failure{Kind: kind, Signature: sig, What: what, Case: sc, Impl: impl, Model: mod})
}

func pointMatches(point, pc string) bool {
	return point == pc || (point == "D6" && pc == "P6")
}

// sendBatch writes the next batch of the thread as one packet.
func (e *env) sendBatch(t *rthread, scen int) {
	b := t.prog.Batches[t.nextB]
	t.nextB++
	var pkt []byte
	for _, c := range b.Cmds {
		id := e.objID(scen, c)
		switch {
		case b.Via == "" && !b.Del:
			pkt = append(pkt, srv.Encode("SET", "c08", id, "POINT", "1", strconv.Itoa(c))...)
		case b.Via == "" && b.Del:
			pkt = append(pkt, srv.Encode("DEL", "c08", id)...)
		case !b.Del:
			pkt = append(pkt, srv.Encode(strings.ToUpper(b.Via), "return tile38.call('set', KEYS[1], ARGV[1], 'point', 1, ARGV[2])", "1", "c08", id, strconv.Itoa(c))...)
		default:
			pkt = append(pkt, srv.Encode(strings.ToUpper(b.Via), "return tile38.call('del', KEYS[1], ARGV[1])", "1", "c08", id)...)
		}
		if b.Del {
			t.dels[c] = true
		}
	}
	t.curCmds = b.Cmds
	t.curPlain = b.Via == "" && !b.Del
	t.expect = len(b.Cmds)
	if b.Detach {
		pkt = append(pkt, srv.Encode("SUBSCRIBE", "c08chan"+t.name)...)
		t.expect++
	} else if len(b.Cmds) == 0 {
		pkt = append(pkt, srv.Encode("PING")...)
		t.expect++
	}
	t.conn.WriteRaw(pkt)
}

// arrive waits for the thread to park after a packet was sent; parks at CMD that belong to a
// message which is not a write command of the model (PING, SUBSCRIBE) are passed through.
func (e *env) settle(t *rthread, st status, wantPC string) status {
	for i := 0; i < 3 && st.OK && st.Point == "CMD" && wantPC != "CMD"; i++ {
		st = parseStatus(e.ctl.ask("step %s 3000", t.name))
	}
	return st
}

func (e *env) compare(sc scenario, k int, t *rthread, st status, ms mstate, pc string) bool {
	if !st.OK {
		e.fail("correspondence", "sched-replay-blocked", fmt.Sprintf("step %d: thread %d did not reach a schedule point (%q); the model expects it at %s", k, t.idx, st.Raw, pc), sc, st.Raw, ms.Raw)
		return false
	}
	okPoint := pointMatches(st.Point, pc) || (st.Point == "IDLE" && (pc == "DONE" || pc == "CMD" || pc == "P1" || pc == "P6"))
	ml, mf := int64(len(ms.File)+len(ms.Buf)), int64(len(ms.File))
	if !okPoint || st.Logged-e.base != ml || st.Flushed-e.base != mf || st.Dirty != ms.Dirty {
		e.fail("correspondence", "sched-replay-state",
			fmt.Sprintf("step %d (thread %d): server at %s logged=%d flushed=%d dirty=%v, model at %s logged=%d flushed=%d dirty=%v",
				k, t.idx, st.Point, st.Logged-e.base, st.Flushed-e.base, st.Dirty, pc, ml, mf, ms.Dirty), sc, st.Raw, ms.Raw)
		return false
	}
	return true
}

func contains(l []int, x int) bool {
	for _, y := range l {
		if x == y {
			return true
		}
	}
	return false
}

// replay runs one scenario; it returns false when the server has to be replaced.
func (e *env) replay(sc scenario) (reusable bool) {
	e.nscen++
	scen := e.nscen
	states := modelTrace(e.drv, e.v, sc.Progs, sc.Sched)
	if e.srv == nil || !e.srv.Alive() {
		if err := e.startServer(); err != nil {
			e.fail("correspondence", "server-start", err.Error(), sc, nil, nil)
			return false
		}
	}
	if e.v.flusherStore && e.bgFlying {
		// this order clears the flag when a round of the flusher begins, in front of its first schedule
		// point: let the round that is under way begin before the scenario does (the model starts the
		// flusher after that store, at its lock)
		if w := parseStatus(e.ctl.ask("wait bg 4000")); w.OK && w.Point == "F1" {
			e.bgFlying = false
		}
	}
	var pre []int
	for _, p := range sc.Progs {
		for _, b := range p.Batches {
			if b.Del {
				pre = append(pre, b.Cmds...)
			}
		}
	}
	if len(pre) > 0 {
		c, err := e.srv.Dial()
		if err != nil {
			e.fail("correspondence", "server-dial", err.Error(), sc, nil, nil)
			return false
		}
		for _, id := range pre {
			c.Do("SET", "c08", e.objID(scen, id), "POINT", "2", "2")
		}
		c.Close()
		if !e.normalise(sc) {
			return false
		}
	}
	ths := make([]*rthread, len(sc.Progs))
	defer func() {
		for _, t := range ths {
			if t != nil && t.conn != nil {
				t.conn.Close()
			}
		}
	}()
	for i, p := range sc.Progs {
		if p.Flusher {
			continue
		}
		c, err := e.srv.Dial()
		if err != nil {
			e.fail("correspondence", "server-dial", err.Error(), sc, nil, nil)
			return false
		}
		c.Timeout = 5 * time.Second
		t := &rthread{idx: i, name: fmt.Sprintf("x%dt%d", scen, i), conn: c, prog: p, dels: map[int]bool{}}
		ths[i] = t
		if rep := e.ctl.ask("attach %s %s", c.C.LocalAddr().String(), t.name); rep != "ok" {
			e.fail("correspondence", "control-socket", "attach: "+rep, sc, nil, nil)
			return false
		}
		t.attached = true
	}
	for i, t := range ths {
		if t == nil || len(t.prog.Batches) == 0 {
			continue
		}
		e.sendBatch(t, scen)
		st := e.settle(t, parseStatus(e.ctl.ask("wait %s 5000", t.name)), states[0].PCs[i])
		t.cur = st
		if !e.compare(sc, -1, t, st, states[0], states[0].PCs[i]) {
			return false
		}
	}
	ackEvents := 0
	var ackedAll []int
	interleaved := false
	lastT := -1
	writesAcked := 0
	for k, ti := range sc.Sched {
		before, after := states[k], states[k+1]
		if before.Raw == after.Raw {
			e.r.Dist("step:stutter")
			continue
		}
		if lastT >= 0 && lastT != ti {
			interleaved = true
		}
		lastT = ti
		e.steps++
		pcB, pcA := before.PCs[ti], after.PCs[ti]
		e.r.Dist("step:" + pcB)
		if sc.Progs[ti].Flusher {
			var st status
			switch pcB {
			case "F1":
				if e.bgFlying {
					w := parseStatus(e.ctl.ask("wait bg 4000"))
					if !w.OK || w.Point != "F1" {
						e.fail("correspondence", "sched-replay-blocked", "flusher did not come back to F1: "+w.Raw, sc, w.Raw, before.Raw)
						return false
					}
					e.bgFlying = false
				}
				if e.v.flusherStore {
					// the model's step is the store at the start of the next round: it has happened when the
					// flusher arrives at its first schedule point (waited for above, or now)
					if pcB == "F1" && !e.bgFlying {
						st = parseStatus(e.ctl.ask("stat"))
					} else {
						st = parseStatus(e.ctl.ask("wait bg 4000"))
						e.bgFlying = false
					}
					st.OK = true
					st.Point = pcA
				} else if e.v.flusherSwap {
					// the flag swap happens before the lock and there is no schedule point between them:
					// release the flusher and look at the flag; it parks at F2 when the model takes the lock (FL)
					if rep := e.ctl.ask("go bg"); rep != "ok" {
						e.fail("correspondence", "control-socket", "go bg: "+rep, sc, nil, nil)
						return false
					}
					time.Sleep(300 * time.Microsecond)
					st = parseStatus(e.ctl.ask("stat"))
					st.Point = pcA
					if pcA == "F1" {
						e.bgFlying = true
					}
				} else {
					st = parseStatus(e.ctl.ask("step bg 3000"))
				}
			case "FL":
				if e.v.flusherStore {
					// parked at the schedule point between the store and the lock
					if e.bgFlying {
						e.ctl.ask("wait bg 4000")
						e.bgFlying = false
					}
					st = parseStatus(e.ctl.ask("step bg 3000"))
				} else {
					st = parseStatus(e.ctl.ask("wait bg 3000"))
				}
			case "F2":
				st = parseStatus(e.ctl.ask("step bg 3000"))
			case "F3":
				if rep := e.ctl.ask("go bg"); rep != "ok" {
					e.fail("correspondence", "control-socket", "go bg: "+rep, sc, nil, nil)
					return false
				}
				e.bgFlying = true
				time.Sleep(300 * time.Microsecond)
				st = parseStatus(e.ctl.ask("stat"))
				st.Point = "F1"
			}
			if !e.compare(sc, k, &rthread{idx: ti}, st, after, pcA) {
				return false
			}
			continue
		}
		t := ths[ti]
		if !pointMatches(t.cur.Point, pcB) {
			e.fail("correspondence", "sched-replay-state", fmt.Sprintf("step %d: thread %d is parked at %s, model at %s", k, ti, t.cur.Point, pcB), sc, t.cur.Raw, before.Raw)
			return false
		}
		if pcB != "P6" {
			st := e.settle(t, parseStatus(e.ctl.ask("step %s 3000", t.name)), pcA)
			t.cur = st
			if !e.compare(sc, k, t, st, after, pcA) {
				return false
			}
			continue
		}
		// ---- the acknowledgement ----
		newAcked := after.Acked[len(before.Acked):]
		ackEvents++
		e.acks++
		if len(newAcked) > 0 {
			writesAcked += len(newAcked)
			// direct oracle (a): counters at the park just before the socket write
			if t.cur.MySeq > t.cur.Flushed {
				e.fail("oracle", "ack-before-flush",
					fmt.Sprintf("connection %d is about to send the reply of its write #%d while flushedSeq=%d (loggedSeq=%d): the acknowledged command is only in the buffer",
						ti, t.cur.MySeq-e.base, t.cur.Flushed-e.base, t.cur.Logged-e.base), sc, t.cur.Raw, before.Raw)
			}
		}
		implEarly := len(newAcked) > 0 && t.cur.MySeq > t.cur.Flushed
		modelEarly := false
		for _, c := range newAcked {
			if !contains(after.File, c) {
				modelEarly = true
			}
		}
		if implEarly != modelEarly {
			e.fail("correspondence", "sched-replay-ack", fmt.Sprintf("step %d: acknowledgement of thread %d: server says flushed-before-ack=%v, model says %v", k, ti, !implEarly, !modelEarly), sc, t.cur.Raw, after.Raw)
		}
		st := parseStatus(e.ctl.ask("step %s 3000", t.name))
		// read the replies of the batch
		nrep := t.expect
		t.expect = 0
		for j := 0; j < nrep; j++ {
			v, err := t.conn.Read()
			if err != nil {
				e.fail("correspondence", "sched-replay-blocked", fmt.Sprintf("step %d: reply %d/%d of thread %d did not arrive: %v", k, j+1, nrep, ti, err), sc, st.Raw, after.Raw)
				return false
			}
			if j < len(t.curCmds) && (v.IsErr() || (t.curPlain && v.String() != "+OK")) {
				e.fail("correspondence", "sched-replay-state", fmt.Sprintf("step %d: write command %d of the batch answered %s", k, j+1, v.String()), sc, v.String(), "+OK")
				return false
			}
		}
		ackedAll = append(ackedAll, newAcked...)
		// direct oracle (b): the bytes are in the file at the moment the reply has been received
		if len(newAcked) > 0 {
			aof, _ := os.ReadFile(filepath.Join(e.dir, "appendonly.aof"))
			for _, c := range newAcked {
				present := bytes.Contains(aof, []byte(e.objID(scen, c)))
				if t.dels[c] {
					present = bytes.Contains(bytes.ToLower(aof), bytes.ToLower(srv.Encode("del", "c08", e.objID(scen, c))))
				}
				if !present {
					e.fail("oracle", "ack-before-flush",
						fmt.Sprintf("the success reply of the write on c08 %s (connection %d) has been received but appendonly.aof (%d bytes) does not contain the command", e.objID(scen, c), ti, len(aof)), sc, st.Raw, after.Raw)
				}
			}
		}
		if sc.KillAtAck == ackEvents {
			// direct oracle (c): SIGKILL now, restart, every acknowledged object must be there
			e.kills++
			e.stopServer()
			ps, err := srv.Start(e.dir)
			if err != nil {
				e.fail("oracle", "restart-failed", "server does not restart after kill -9: "+err.Error(), sc, nil, nil)
				return false
			}
			pc := ps.MustDial()
			for _, c := range ackedAll {
				v, err := pc.Do("GET", "c08", e.objID(scen, c), "POINT")
				for w := 0; w < 2000 && err == nil && v.IsErr() && strings.HasPrefix(v.Str, "LOADING"); w++ {
					time.Sleep(5 * time.Millisecond) // PING is answered before the log has been replayed
					v, err = pc.Do("GET", "c08", e.objID(scen, c), "POINT")
				}
				isDel := false
				for _, u := range ths {
					if u != nil && u.dels[c] {
						isDel = true
					}
				}
				if !isDel && (err != nil || v.Kind != '*') {
					e.fail("oracle", "acked-write-lost-after-kill9",
						fmt.Sprintf("the write of c08 %s was acknowledged (success reply received), the server was killed with SIGKILL right after, and after the restart GET answers %s", e.objID(scen, c), v.String()), sc, v.String(), after.Raw)
				}
				if isDel && (err != nil || v.Kind != 'n') {
					e.fail("oracle", "acked-write-lost-after-kill9",
						fmt.Sprintf("DEL c08 %s was acknowledged, the server was killed with SIGKILL right after, and after the restart the object is back: GET answers %s", e.objID(scen, c), v.String()), sc, v.String(), after.Raw)
				}
			}
			pc.Close()
			ps.Kill()
			e.r.Dist("scenario:kill9")
			e.count(sc, writesAcked, interleaved)
			return false
		}
		if !e.compare(sc, k, t, st, after, pcA) {
			return false
		}
		t.cur = st
		if pcA != "DONE" {
			if t.nextB >= len(t.prog.Batches) {
				e.fail("correspondence", "sched-replay-state", fmt.Sprintf("step %d: model continues thread %d at %s but its program is finished", k, ti, pcA), sc, nil, after.Raw)
				return false
			}
			e.sendBatch(t, scen)
			st := e.settle(t, parseStatus(e.ctl.ask("wait %s 5000", t.name)), pcA)
			t.cur = st
			if !e.compare(sc, k, t, st, after, pcA) {
				return false
			}
		}
	}
	final := states[len(states)-1]
	if !final.OK {
		e.r.Dist("model:acked-not-in-file")
	}
	e.count(sc, writesAcked, interleaved)
	// ---- clean up: let everything run to completion, then bring the server to (buf=[], dirty=false) ----
	for _, t := range ths {
		if t == nil {
			continue
		}
		e.ctl.ask("detach %s", t.name)
	}
	for i, p := range sc.Progs {
		if !p.Flusher {
			continue
		}
		switch final.PCs[i] {
		case "FL":
			if e.v.flusherStore {
				e.ctl.ask("step bg 3000")
			} else {
				e.ctl.ask("wait bg 3000")
			}
			fallthrough
		case "F2":
			e.ctl.ask("step bg 3000")
			fallthrough
		case "F3":
			e.ctl.ask("go bg")
			e.bgFlying = true
		}
	}
	for _, t := range ths {
		if t == nil {
			continue
		}
		t.conn.Timeout = 3 * time.Second
		for j := 0; j < t.expect; j++ {
			if _, err := t.conn.Read(); err != nil {
				e.fail("correspondence", "sched-replay-blocked", fmt.Sprintf("clean-up: thread %d did not finish its batch after being released: %v", t.idx, err), sc, nil, final.Raw)
				return false
			}
		}
		t.conn.Close()
		t.conn = nil
	}
	return e.normalise(sc)
}

func (e *env) count(sc scenario, writesAcked int, interleaved bool) {
	e.r.Count(sc.key(), writesAcked > 0 && interleaved)
	e.r.Sample(6, sc)
	e.r.Dist(fmt.Sprintf("scenario:threads=%d", len(sc.Progs)))
}

func (e *env) normalise(sc scenario) bool {
	c, err := e.srv.Dial()
	if err != nil {
		return false
	}
	defer c.Close()
	c.Timeout = 5 * time.Second
	for i := 0; i < 4; i++ {
		if _, err := c.Do("SET", "c08norm", "n", "POINT", "0", "0"); err != nil {
			e.fail("correspondence", "sched-replay-blocked", "normalising write got no reply: "+err.Error(), sc, nil, nil)
			return false
		}
		st := parseStatus(e.ctl.ask("stat"))
		if st.OK && !st.Dirty && st.Logged == st.Flushed {
			e.base = st.Logged
			return true
		}
	}
	return false
}

// ---------------------------------------------------------------------------------------------
// scenario generators

func conn(bs ...batch) prog { return prog{Batches: bs} }
func wr(c ...int) batch     { return batch{Cmds: c} }
func live(c ...int) batch   { return batch{Cmds: c, Detach: true} }
func rd() batch             { return batch{} }
func via(v string, del bool, c ...int) batch {
	return batch{Cmds: c, Via: v, Del: del}
}

func rep(t, n int) []int {
	out := make([]int, n)
	for i := range out {
		out[i] = t
	}
	return out
}

func cat(xs ...[]int) []int {
	var out []int
	for _, x := range xs {
		out = append(out, x...)
	}
	return out
}

// steps a connection program needs at most
func maxSteps(p prog) int {
	n := 0
	for _, b := range p.Batches {
		n += 4*len(b.Cmds) + 7
	}
	return n
}

func completion(progs []prog) []int {
	var out []int
	for i, p := range progs {
		if !p.Flusher {
			out = append(out, rep(i, maxSteps(p))...)
		}
	}
	return out
}

func corpus() []scenario {
	two := []prog{conn(wr(1)), conn(wr(2))}
	f13 := []int{0, 0, 0, 0, 0, 0, 0, 0, 0, 1, 1, 1, 1, 0, 1, 1}
	return []scenario{
		{Name: "F13 refutation schedule: A logs+flushes, C logs, A clears the flag, C tests it and replies", Progs: two, Sched: cat(f13, completion(two))},
		{Name: "F13 refutation schedule, kill -9 at C's acknowledgement", Progs: two, Sched: cat(f13, rep(1, 5)), KillAtAck: 1},
		{Name: "F13b: SET and SUBSCRIBE in one packet", Progs: []prog{conn(live(1))}, Sched: rep(0, 12)},
		{Name: "F13b: SET and SUBSCRIBE in one packet, kill -9 at the acknowledgement", Progs: []prog{conn(live(1))}, Sched: rep(0, 12), KillAtAck: 1},
		{Name: "a reader clears the flag while a writer is between flag-set and append", Progs: []prog{conn(wr(1)), conn(rd()), conn(wr(2))},
			Sched: cat(rep(0, 4), []int{2, 2}, rep(1, 2), rep(0, 1), rep(1, 1), rep(2, 2), rep(1, 5), completion([]prog{conn(wr(1)), conn(rd()), conn(wr(2))}))},
		{Name: "sequential: one connection, two batches, pipelined writes", Progs: []prog{conn(wr(1, 2), rd(), wr(3))}, Sched: rep(0, 40)},
		{Name: "flusher empties the buffer between a connection's flag test and its lock", Progs: []prog{conn(wr(1)), {Flusher: true}, conn(wr(2))},
			Sched: cat(rep(0, 5), rep(1, 3), rep(2, 4), rep(0, 6), rep(2, 8))},
		{Name: "C reads the flag before A's flush, A clears after C's append", Progs: two,
			Sched: cat(rep(0, 7), rep(1, 1), rep(0, 2), rep(1, 4), rep(0, 2), rep(1, 8))},
		{Name: "the flusher starts its round between a connection's append and its flag test", Progs: []prog{conn(wr(1)), {Flusher: true}},
			Sched: cat(rep(0, 4), rep(1, 1), rep(0, 2), rep(1, 2), rep(0, 6))},
		{Name: "the flusher starts its round between a connection's append and its flag test, kill -9 at the acknowledgement", Progs: []prog{conn(wr(1)), {Flusher: true}},
			Sched: cat(rep(0, 4), rep(1, 1), rep(0, 2), rep(1, 2), rep(0, 6)), KillAtAck: 1},
		{Name: "a whole (empty) round of the flusher, then its next round begins between a connection's append and its flag test", Progs: []prog{conn(wr(1)), {Flusher: true}},
			Sched: cat(rep(1, 3), rep(0, 4), rep(1, 1), rep(0, 2), rep(1, 3), rep(0, 6))},
		{Name: "a whole (empty) round of the flusher, then its next round begins between a connection's append and its flag test, kill -9 at the acknowledgement", Progs: []prog{conn(wr(1)), {Flusher: true}},
			Sched: cat(rep(1, 3), rep(0, 4), rep(1, 1), rep(0, 2), rep(1, 3), rep(0, 6)), KillAtAck: 1},
		{Name: "writes made by scripts: EVAL set, EVALNA set, EVAL del, EVALNA del, plain DEL", Progs: []prog{conn(via("eval", false, 1), via("evalna", false, 2), via("eval", true, 3), via("evalna", true, 4), via("", true, 5))}, Sched: rep(0, 60)},
		{Name: "EVAL ... tile38.call('set') then kill -9 at its acknowledgement", Progs: []prog{conn(via("eval", false, 1))}, Sched: rep(0, 12), KillAtAck: 1},
		{Name: "EVALNA ... tile38.call('set') then kill -9 at its acknowledgement", Progs: []prog{conn(via("evalna", false, 1))}, Sched: rep(0, 12), KillAtAck: 1},
		{Name: "EVAL ... tile38.call('del') then kill -9 at its acknowledgement", Progs: []prog{conn(via("eval", true, 1))}, Sched: rep(0, 12), KillAtAck: 1},
		{Name: "[SET][SUBSCRIBE] in one packet on A; C writes between A's flush and A's flag clear", Progs: []prog{conn(live(1)), conn(wr(2))},
			Sched: cat(rep(0, 7), rep(1, 4), rep(0, 1), rep(1, 2), completion([]prog{conn(live(1)), conn(wr(2))}))},
		{Name: "[SET][SUBSCRIBE] in one packet on A; C writes between A's flush and A's flag clear; kill -9 at C's acknowledgement", Progs: []prog{conn(live(1)), conn(wr(2))},
			Sched: cat(rep(0, 7), rep(1, 4), rep(0, 1), rep(1, 9)), KillAtAck: 1},
		{Name: "a script write and a plain write on two connections", Progs: []prog{conn(via("eval", false, 1)), conn(wr(2))},
			Sched: cat(rep(0, 5), rep(1, 4), rep(0, 6), rep(1, 8))},
	}
}

func randomScenario(rng *rand.Rand, allowFlusher bool, round int) scenario {
	n := 2 + rng.Intn(2)
	var progs []prog
	id := 0
	for i := 0; i < n; i++ {
		nb := 1 + rng.Intn(2)
		var bs []batch
		for j := 0; j < nb; j++ {
			var b batch
			switch k := rng.Intn(10); {
			case k < 1:
			case k < 8:
				id++
				b.Cmds = []int{id}
			default:
				id += 2
				b.Cmds = []int{id - 1, id}
			}
			if len(b.Cmds) > 0 {
				switch k := rng.Intn(20); {
				case k < 5:
					b.Via = "eval"
				case k < 8:
					b.Via = "evalna"
				}
				b.Del = rng.Intn(6) == 0
			}
			if j == nb-1 && len(b.Cmds) > 0 && rng.Intn(7) == 0 {
				b.Detach = true // (a batch that goes live with an empty client.out writes nothing: no acknowledgement)
			}
			bs = append(bs, b)
		}
		progs = append(progs, conn(bs...))
	}
	fl := -1
	if allowFlusher {
		fl = len(progs)
		progs = append(progs, prog{Flusher: true})
	}
	total := 0
	for _, p := range progs {
		total += maxSteps(p)
	}
	var sched []int
	flLeft := round // one round of the flusher (F1 [FL] F2 F3)
	for len(sched) < total {
		t := rng.Intn(len(progs))
		burst := 1 + rng.Intn(4)
		if rng.Intn(3) == 0 {
			burst = 1
		}
		if t == fl {
			if flLeft == 0 {
				continue
			}
			if burst > flLeft {
				burst = flLeft
			}
			flLeft -= burst
		}
		sched = append(sched, rep(t, burst)...)
	}
	if fl >= 0 {
		// if the flusher was stopped inside its critical section the connections need it to finish
		sched = append(sched, rep(fl, flLeft)...)
	}
	sched = append(sched, completion(progs)...)
	return scenario{Name: "random", Progs: progs, Sched: sched}
}

// variations around the window of F13: A runs up to some point of its pre-write, C runs its
// write and some of its pre-write, A continues, C finishes.
func windowScenario(rng *rand.Rand) scenario {
	progs := []prog{conn(wr(1)), conn(wr(2))}
	a1 := 5 + rng.Intn(6)
	c1 := 3 + rng.Intn(4)
	a2 := 1 + rng.Intn(3)
	c2 := 1 + rng.Intn(3)
	sched := cat(rep(0, a1), rep(1, c1), rep(0, a2), rep(1, c2), completion(progs))
	return scenario{Name: "window", Progs: progs, Sched: sched}
}

// variations around the goingLive copy of the pre-write: A = [writes][SUBSCRIBE] in one packet, a second
// writer C runs somewhere inside A's pre-write
func liveWindowScenario(rng *rand.Rand) scenario {
	progs := []prog{conn(live(1)), conn(wr(2))}
	if rng.Intn(3) == 0 {
		progs[1] = conn(wr(2), wr(3))
	}
	a1 := 5 + rng.Intn(5)
	c1 := 3 + rng.Intn(3)
	a2 := 1 + rng.Intn(3)
	c2 := 1 + rng.Intn(3)
	sched := cat(rep(0, a1), rep(1, c1), rep(0, a2), rep(1, c2), completion(progs))
	return scenario{Name: "golive-window", Progs: progs, Sched: sched}
}

// the flusher's round starts while a connection is somewhere between its write and its reply
func flusherWindowScenario(rng *rand.Rand, round int) scenario {
	progs := []prog{conn(wr(1)), {Flusher: true}, conn(wr(2))}
	if rng.Intn(3) == 0 {
		progs[0] = conn(via("eval", false, 1))
	}
	a1 := 3 + rng.Intn(5)
	f1 := 1 + rng.Intn(2)
	a2 := 1 + rng.Intn(3)
	c1 := rng.Intn(6)
	sched := cat(rep(0, a1), rep(1, f1), rep(2, c1), rep(0, a2), rep(1, round-f1), completion(progs))
	if rng.Intn(3) == 0 {
		// the flusher has been through a round already: its next one begins inside the connection's window
		a0 := rng.Intn(3)
		sched = cat(rep(0, a0), rep(1, 3), rep(0, a1-a0), rep(1, f1), rep(2, c1), rep(0, a2), rep(1, 4), completion(progs))
		return scenario{Name: "flusher-window after a round", Progs: progs, Sched: sched}
	}
	return scenario{Name: "flusher-window", Progs: progs, Sched: sched}
}

// every maximal execution (sequence of enabled steps) of the given programs, enumerated in the model
func enumerate(drv *model.Driver, v variant, progs []prog, visit func(sched []int, final mstate) bool) int {
	n := 0
	var dfs func(prefix []int) bool
	dfs = func(prefix []int) bool {
		cur := modelTrace(drv, v, progs, prefix)
		last := cur[len(cur)-1]
		ext := false
		for t := range progs {
			if progs[t].Flusher {
				continue
			}
			nxt := append(append([]int{}, prefix...), t)
			tr := modelTrace(drv, v, progs, nxt)
			if tr[len(tr)-1].Raw != last.Raw {
				ext = true
				if !dfs(nxt) {
					return false
				}
			}
		}
		if !ext {
			n++
			return visit(prefix, last)
		}
		return true
	}
	dfs(nil)
	return n
}

// ---------------------------------------------------------------------------------------------
// writes acknowledged while an AOFSHRINK is in progress (parked at one of its gates): same ack-time oracle.
// No schedule points of the connections are used here: it is the plain server with VERIF_SHRINK_SOCK.

type shrinkCase struct {
	Name string `json:"name"`
	Gate string `json:"rewrite_parked_at"`
	Kill bool   `json:"kill9_after_the_writes"`
	Seed int64  `json:"seed"`
	// administrative requests sent between the acknowledged writes while the rewrite is parked: a
	// second AOFSHRINK (refused: a rewrite is running; still answers +OK), AOFSHRINK twice, GC, ...
	Admin  int      `json:"admin_requests_between_the_writes"`
	Arrive int      `json:"gate_arrival,omitempty"` // park at this arrival (0 = random) of an ids / keys gate
	Sent   []string `json:"commands_sent_while_parked,omitempty"`
}

func (e *env) shrinkWindow(sc shrinkCase) {
	e.stopServer()
	e.nsrv++
	r := e.r
	fail := func(kind, sig, what string, impl, mod interface{}) {
		e.nfail++
		r.Fail(hx.Failure{Kind: kind, Signature: sig, What: what, Case: sc, Impl: impl, Model: mod})
	}
	dir := filepath.Join(e.cfg.Work, fmt.Sprintf("shrink%d", e.nsrv))
	os.MkdirAll(dir, 0o755)
	sock := filepath.Join(dir, "shrink.sock")
	os.Setenv("VERIF_SHRINK_SOCK", sock)
	s, err := srv.Start(dir)
	os.Unsetenv("VERIF_SHRINK_SOCK")
	if err != nil {
		fail("correspondence", "server-start", err.Error(), nil, nil)
		return
	}
	defer func() {
		if s != nil {
			s.Kill()
		}
	}()
	cc, err := net.Dial("unix", sock)
	if err != nil {
		fail("correspondence", "control-socket", "shrink control socket: "+err.Error(), nil, nil)
		return
	}
	defer cc.Close()
	ctl := &ctl{c: cc, r: bufio.NewReader(cc)}
	rng := rand.New(rand.NewSource(sc.Seed))
	w := s.MustDial()
	defer w.Close()
	w.Timeout = 10 * time.Second
	// a data set of two collections, more than one batch of ids each
	for i := 0; i < 40; i++ {
		w.Do("SET", "ca", fmt.Sprintf("o%02d", i), "POINT", "1", strconv.Itoa(i))
		w.Do("SET", "cb", fmt.Sprintf("o%02d", i), "POINT", "2", strconv.Itoa(i))
	}
	// nine more (small) collections: 11 > maxkeys, so the rewrite loads its key list in two batches
	for i := 0; i < 9; i++ {
		w.Do("SET", fmt.Sprintf("k%02d", i), "o", "POINT", "7", strconv.Itoa(i))
	}
	if rep := ctl.ask("arm %s", sc.Gate); rep != "ok" {
		fail("correspondence", "control-socket", "arm: "+rep, nil, nil)
		return
	}
	a := s.MustDial()
	defer a.Close()
	if v, err := a.Do("AOFSHRINK"); err != nil || v.IsErr() {
		fail("correspondence", "setup", fmt.Sprintf("AOFSHRINK: %v %v", v.String(), err), nil, nil)
		return
	}
	// let it run to the n-th arrival at the gate
	skip := 0
	switch sc.Gate {
	case "ids": // two batches per large collection
		skip = rng.Intn(3)
	case "keys": // two batches of collection names
		skip = rng.Intn(2)
	}
	if sc.Arrive > 0 {
		skip = sc.Arrive - 1
	}
	ev := ctl.ask("wait 8000")
	for i := 0; i < skip && strings.HasPrefix(ev, sc.Gate); i++ {
		ev = ctl.ask("step 8000")
	}
	if !strings.HasPrefix(ev, sc.Gate) {
		fail("correspondence", "control-socket", fmt.Sprintf("the rewrite did not park at gate %s: %q", sc.Gate, ev), ev, nil)
		return
	}
	// writes while the rewrite is parked (s.shrinking = true): each acknowledged command must be in the live file
	type wr struct {
		args   []string
		id     string
		gone   bool // the object must not exist afterwards
		needle []byte
		fresh  []byte // SET of a new id: the id must also be in the file the rewrite leaves
		lat    string // SET over an existing object: its new latitude
		admin  bool   // not a write: an administrative request
	}
	var ws []wr
	for i := 0; i < 6; i++ {
		id := fmt.Sprintf("%sw%d", e.nonce, e.nsrv*100+i)
		switch rng.Intn(5) {
		case 0:
			ex := fmt.Sprintf("o%02d", rng.Intn(40))
			already := false
			for _, q := range ws {
				if q.id == "ca/"+ex {
					already = true
				}
			}
			if already {
				continue
			}
			ws = append(ws, wr{args: []string{"DEL", "ca", ex}, id: "ca/" + ex, gone: true, needle: srv.Encode("DEL", "ca", ex)})
		case 1:
			ws = append(ws, wr{args: []string{"EVAL", "return tile38.call('set', KEYS[1], ARGV[1], 'point', 3, 3)", "1", "cb", id}, id: "cb/" + id, needle: []byte(id)})
		case 2:
			ex := fmt.Sprintf("o%02d", rng.Intn(40))
			lat := strconv.Itoa(60 + i)
			ws = append(ws, wr{args: []string{"SET", "cb", ex, "POINT", lat, strconv.Itoa(100 + i)}, id: "cb/" + ex, lat: lat, needle: srv.Encode("SET", "cb", ex, "POINT", lat, strconv.Itoa(100+i))})
		default:
			ws = append(ws, wr{args: []string{"SET", "ca", id, "POINT", "4", "4"}, id: "ca/" + id, needle: []byte(id), fresh: []byte(id)})
		}
	}
	// administrative requests at random positions after the first write (and one after the last)
	for k := 0; k < sc.Admin && len(ws) > 0; k++ {
		var a []string
		switch rng.Intn(10) {
		case 0:
			a = []string{"GC"}
		case 1:
			a = []string{"AOFMD5", "0", "0"}
		case 2:
			a = []string{"SERVER"}
		default:
			a = []string{"AOFSHRINK"}
		}
		pos := 1 + rng.Intn(len(ws))
		if k == 0 {
			a, pos = []string{"AOFSHRINK"}, len(ws)-rng.Intn(2)
		}
		ws = append(ws[:pos], append([]wr{{args: a, admin: true}}, ws[pos:]...)...)
		if rng.Intn(4) == 0 { // the same request twice in a row
			ws = append(ws[:pos], append([]wr{{args: a, admin: true}}, ws[pos:]...)...)
		}
	}
	aofPath := filepath.Join(dir, "appendonly.aof")
	for _, q := range ws {
		sc.Sent = append(sc.Sent, strings.Join(q.args[:min(len(q.args), 3)], " "))
	}
	for _, q := range ws {
		if q.admin {
			// sent on the administrative connection; AOFSHRINK answers +OK and runs `go s.aofshrink()`:
			// give that goroutine the time to reach (and be refused by) the entry check
			if v, err := a.Do(q.args...); err != nil {
				fail("correspondence", "setup", fmt.Sprintf("%v during the rewrite: %v %v", q.args, v.String(), err), nil, nil)
				return
			}
			time.Sleep(3 * time.Millisecond)
			continue
		}
		v, err := w.Do(q.args...)
		if err != nil || v.IsErr() {
			fail("correspondence", "setup", fmt.Sprintf("%v during the rewrite: %v %v", q.args, v.String(), err), nil, nil)
			return
		}
		e.acks++
		aof, _ := os.ReadFile(aofPath)
		if !bytes.Contains(aof, q.needle) {
			fail("oracle", "ack-before-flush", fmt.Sprintf("%v was acknowledged (%s) while an AOFSHRINK is parked at its %q gate, but appendonly.aof (%d bytes) does not contain the command", q.args[:3], v.String(), sc.Gate, len(aof)), v.String(), nil)
		}
	}
	final := map[string]bool{}  // id -> must exist
	lats := map[string]string{} // id -> latitude of the last acknowledged SET over an existing object
	for _, q := range ws {
		if q.admin {
			continue
		}
		final[q.id] = !q.gone
		if q.lat != "" {
			lats[q.id] = q.lat
		}
	}
	if sc.Kill {
		e.kills++
		s.Kill()
	} else {
		// park nowhere any more but keep the `done` event (it is only reported while armed)
		ctl.ask("arm none")
		ctl.ask("go")
		done := false
		for i := 0; i < 400 && !done; i++ {
			ev := ctl.ask("wait 100")
			done = strings.HasPrefix(ev, "done")
		}
		if !done {
			fail("correspondence", "control-socket", "the rewrite did not finish after the gates were disarmed", nil, nil)
			return
		}
		// the file the rewrite left is the live file now: the writes acknowledged while it ran must be in it
		if aof, err := os.ReadFile(aofPath); err == nil {
			for _, q := range ws {
				if q.fresh != nil && !bytes.Contains(aof, q.fresh) {
					fail("oracle", "acked-write-not-in-aof-after-shrink", fmt.Sprintf("%v was acknowledged while an AOFSHRINK was parked at its %q gate (commands sent while it was parked: %s); the rewrite has finished and appendonly.aof (%d bytes) does not contain the object: the acknowledged write exists in memory only",
						q.args[:3], sc.Gate, strings.Join(sc.Sent, " ; "), len(aof)), nil, nil)
					break
				}
			}
		}
		// one more acknowledged write after the swap, then kill
		id := fmt.Sprintf("%sz%d", e.nonce, e.nsrv)
		if v, err := w.Do("SET", "ca", id, "POINT", "5", "5"); err == nil && !v.IsErr() {
			final["ca/"+id] = true
			aof, _ := os.ReadFile(aofPath)
			if !bytes.Contains(aof, []byte(id)) {
				fail("oracle", "ack-before-flush", fmt.Sprintf("SET ca %s was acknowledged right after the rewrite finished, but appendonly.aof does not contain it", id), nil, nil)
			}
		}
		e.kills++
		s.Kill()
	}
	s = nil
	ps, err := srv.Start(dir)
	if err != nil {
		fail("oracle", "restart-failed", "server does not restart after kill -9: "+err.Error(), nil, nil)
		return
	}
	defer ps.Kill()
	pc := ps.MustDial()
	defer pc.Close()
	for id, must := range final {
		kv := strings.SplitN(id, "/", 2)
		v, err := pc.Do("GET", kv[0], kv[1], "POINT")
		for k := 0; k < 2000 && err == nil && v.IsErr() && strings.HasPrefix(v.Str, "LOADING"); k++ {
			time.Sleep(5 * time.Millisecond)
			v, err = pc.Do("GET", kv[0], kv[1], "POINT")
		}
		if must && (err != nil || v.Kind != '*') {
			fail("oracle", "acked-write-lost-after-kill9", fmt.Sprintf("a write of %s %s was acknowledged while an AOFSHRINK was in progress (gate %q, rewrite %s; commands sent while it was parked: %s), the server was killed with SIGKILL, and after the restart GET answers %s", kv[0], kv[1], sc.Gate, map[bool]string{true: "not finished", false: "finished"}[sc.Kill], strings.Join(sc.Sent, " ; "), v.String()), v.String(), nil)
		} else if must && lats[id] != "" && (len(v.Array) < 1 || v.Array[0].Str != lats[id]) {
			fail("oracle", "acked-write-lost-after-kill9", fmt.Sprintf("SET %s %s POINT %s .. (over an existing object) was acknowledged while an AOFSHRINK was in progress (gate %q, rewrite %s; commands sent while it was parked: %s), the server was killed with SIGKILL, and after the restart the object is %s", kv[0], kv[1], lats[id], sc.Gate, map[bool]string{true: "not finished", false: "finished"}[sc.Kill], strings.Join(sc.Sent, " ; "), v.String()), v.String(), nil)
		}
		if !must && (err != nil || v.Kind != 'n') {
			fail("oracle", "acked-write-lost-after-kill9", fmt.Sprintf("DEL %s %s was acknowledged while an AOFSHRINK was in progress (gate %q; commands sent while it was parked: %s), the server was killed with SIGKILL, and after the restart the object is back: %s", kv[0], kv[1], sc.Gate, strings.Join(sc.Sent, " ; "), v.String()), v.String(), nil)
		}
	}
	r.Count(fmt.Sprintf("shrink|%s|%v|%d|%d", sc.Gate, sc.Kill, sc.Admin, sc.Seed), true)
	if sc.Admin > 0 {
		r.Dist("scenario:shrink-window+second-request")
	}
	r.Dist("scenario:shrink-window")
	r.Sample(8, sc)
}

// ---------------------------------------------------------------------------------------------

func runC08(r *hx.Result, cfg hx.Config) {
	r.Rule = "one case = one schedule (programs of 1-3 connections [+ the background flusher], a list of thread ids) replayed step by step on the verif-tagged server and on the extracted model; non-trivial = distinct schedule in which steps of different threads alternate and at least one write command is acknowledged; sweep (sweep.go): one case = one command of a history run on the plain server with a dump and the append-only file read before and after it, non-trivial = distinct command whose acknowledgement came with a changed dataset"
	r.Assumptions = []string{
		"sync.RWMutex / atomic.Bool behave as a mutual-exclusion lock / a sequentially consistent flag (Go memory model)",
		"a successful write(2) on the append-only file is visible to later reads of the file and survives SIGKILL of the process (kernel page cache); power loss / fsync are outside C08",
		"the schedule points of internal/server/verif_sched_on.go do not change the order of the statements between them",
	}
	repo := os.Getenv("VERIF_REPO")
	if repo == "" {
		repo = "/repo"
	}
	so := readSourceOrder(repo)
	r.Extra["source_order"] = so
	if len(so.Problems) > 0 {
		r.Fail(hx.Failure{Kind: "correspondence", Signature: "source-order-shape", What: "netServe/writeAOF/flushAOF no longer have the statement shape the model Model/Prewrite.v transcribes: " + strings.Join(so.Problems, "; "), Case: so})
	}
	if !so.StoreLocked || !so.DetachPrewrite || so.FlusherSwap || !so.FlagInWriteAOF || !so.DetachStoreLocked || so.FlusherStore {
		r.Fail(hx.Failure{Kind: "correspondence", Signature: "source-order-variant",
			What: fmt.Sprintf("the source has statement order store_locked=%v detach_prewrite=%v flusher_swap=%v flag_in_writeaof=%v golive_store_locked=%v flusher_store=%v (reply block: %s; goingLive block: %s); theorem c08_acked_flushed is about store_locked=true detach_prewrite=true flusher_swap=false flag_in_writeaof=true golive_store_locked=true flusher_store=false, and the c08_*_refuted theorems give violating schedules for the other orders",
				so.StoreLocked, so.DetachPrewrite, so.FlusherSwap, so.FlagInWriteAOF, so.DetachStoreLocked, so.FlusherStore, so.Main, so.Detach), Case: so})
	}
	rng := rand.New(rand.NewSource(cfg.Seed))
	drv, err := model.Start("prewrite")
	if err != nil {
		panic(err)
	}
	defer drv.Close()
	e := &env{r: r, cfg: cfg, drv: drv, v: variant{so.StoreLocked, so.DetachPrewrite, so.FlusherSwap, so.FlagInWriteAOF, so.DetachStoreLocked, so.FlusherStore}, nonce: fmt.Sprintf("s%d", cfg.Seed%100000)}
	defer e.stopServer()

	run := func(sc scenario) {
		if !e.replay(sc) {
			e.stopServer()
		}
	}
	t0 := time.Now()
	for _, sc := range corpus() {
		run(sc)
	}
	nRandom, nWindow, nFlusher, nKill := 200, 60, 12, 8
	nSweep, nSweepKill := 6, 3
	budget := 50 * time.Second
	if cfg.Tier == "thorough" {
		nRandom, nWindow, nFlusher, nKill = 6000, 1500, 120, 150
		nSweep, nSweepKill = 150, 4
		budget = 14 * time.Minute
	}
	if cfg.Search {
		nRandom, nWindow, nFlusher, nKill = 3000, 1000, 20, 60
		nSweep, nSweepKill = 60, 4
		budget = 5 * time.Minute
	}
	within := func() bool { return time.Since(t0) < budget && e.nfail < 12 }
	// every data-modifying command and variant is handed to the log at all (sweep.go); own random
	// stream, so the schedules below are the same as without it
	e.stopServer()
	e.sweepAll(rand.New(rand.NewSource(cfg.Seed^0x5eed08)), nSweep, nSweepKill, within)
	// a pipelined packet [write, reads with huge replies] of which only the first reply is read (bigreply.go)
	for _, bc := range bigCases(cfg.Tier, cfg.Search) {
		if within() {
			e.bigReply(bc)
		}
	}
	for i := 0; i < nWindow && within(); i++ {
		if i%3 == 2 {
			run(liveWindowScenario(rng))
		} else {
			run(windowScenario(rng))
		}
	}
	for i := 0; i < nRandom && within(); i++ {
		run(randomScenario(rng, false, 3))
	}
	// schedules cut at a random acknowledgement by SIGKILL + restart
	for i := 0; i < nKill && within(); i++ {
		var sc scenario
		if i%4 == 2 {
			sc = liveWindowScenario(rng)
		} else if i%2 == 0 {
			sc = windowScenario(rng)
		} else {
			sc = randomScenario(rng, false, 3)
		}
		sc.Name += "+kill9"
		sc.KillAtAck = 1 + rng.Intn(2)
		run(sc)
	}
	// writes acknowledged during an AOFSHRINK
	gates := []string{"final", "start", "ids", "keys", "hooknames"}
	nShrink := 6
	if cfg.Tier == "thorough" || cfg.Search {
		nShrink = 60
	}
	// first: a second AOFSHRINK (and other administrative requests) between the acknowledged writes, with the
	// rewrite parked after it has copied the collections written to; then the same at every gate
	for _, sc := range []shrinkCase{
		{Gate: "final", Admin: 1}, {Gate: "ids", Arrive: 3, Admin: 2}, {Gate: "final", Kill: true, Admin: 2}, {Gate: "hooknames", Admin: 3},
	} {
		if within() {
			sc.Name, sc.Seed = "writes and a second AOFSHRINK during AOFSHRINK", rng.Int63()
			e.shrinkWindow(sc)
		}
	}
	for i := 0; i < nShrink && within(); i++ {
		sc := shrinkCase{Name: "writes during AOFSHRINK", Gate: gates[i%len(gates)], Kill: i%2 == 0, Seed: rng.Int63()}
		if i%3 != 0 {
			sc.Name, sc.Admin = "writes and administrative requests during AOFSHRINK", 1+rng.Intn(3)
		}
		e.shrinkWindow(sc)
	}
	e.stopServer()
	for i := 0; i < nFlusher && within(); i++ {
		round := 3
		if e.v.flusherSwap || e.v.flusherStore {
			round = 4
		}
		if i%2 == 0 {
			run(flusherWindowScenario(rng, round))
		} else {
			run(randomScenario(rng, true, round))
		}
	}
	if cfg.Tier == "thorough" || cfg.Search {
		// all executions of 2 connections × 1 command, enumerated in the model, each replayed
		progs := []prog{conn(wr(1)), conn(wr(2))}
		var all [][]int
		bad := 0
		total := enumerate(drv, e.v, progs, func(s []int, final mstate) bool {
			all = append(all, append([]int{}, s...))
			if !final.OK {
				bad++
			}
			return true
		})
		r.Extra["enumerated_2x1_executions"] = total
		r.Extra["enumerated_2x1_model_violations"] = bad
		done := 0
		for i, s := range all {
			if !(time.Since(t0) < budget+10*time.Minute && e.nfail < 12) {
				break
			}
			sc := scenario{Name: fmt.Sprintf("enumerated 2x1 #%d", i), Progs: progs, Sched: s}
			if i%40 == 0 {
				sc.KillAtAck = 1 + (i/40)%2
			}
			run(sc)
			done++
		}
		r.Extra["enumerated_2x1_replayed"] = done
		r.Exhaustive = done == total
	}
	r.TracesImpl = r.Evaluations
	r.Extra["released_steps"] = e.steps
	r.Extra["acknowledgements_observed"] = e.acks
	r.Extra["kill9_restarts"] = e.kills
	r.Extra["servers_started"] = e.nsrv
	r.Extra["model_variant"] = fmt.Sprintf("store_locked=%v detach_prewrite=%v flusher_swap=%v flag_in_writeaof=%v golive_store_locked=%v flusher_store=%v", e.v.storeLocked, e.v.detachPrewrite, e.v.flusherSwap, e.v.flagInWriteAOF, e.v.detachStoreLocked, e.v.flusherStore)
}
