// C08, part 5 — one pipelined packet [write, reads with huge replies], of which the client reads only
// the first reply.
//
// Model/Prewrite.v lets the replies of a packet leave at one step (P6), after the pre-write flush.  A
// server that sends replies earlier — e.g. from inside a handler when the reply buffer grows large —
// sends the +OK of the write at the head of the packet while the command is only in s.aofbuf, and
// then blocks in its socket write because the client does not read on: the acknowledged command
// stays out of the file for as long as the client likes.  Direct oracle, no model: the first reply
// has been read => the command's bytes are in appendonly.aof; kill -9 now, restart, the write is
// there.  (Tie of the model's premise to the source: Props/C08reply.v over Gen/SocketWrites.v.)
package main

import (
	"bytes"
	"fmt"
	"os"
	"path/filepath"
	"strings"
	"time"

	"verifharness/internal/hx"
	"verifharness/internal/srv"
)

type bigCase struct {
	Name    string `json:"name"`
	Write   string `json:"write"` // set | del | eval-set | evalna-set | jset
	ObjKB   int    `json:"size_of_the_object_read_back_kb"`
	Reads   int    `json:"reads_of_it_after_the_write_in_the_same_packet"`
	Packet  string `json:"packet"`
	ReplyMB int    `json:"total_size_of_the_replies_mb"`
}

func (e *env) bigReply(bc bigCase) {
	r := e.r
	e.nsrv++
	bc.ReplyMB = bc.ObjKB * bc.Reads / 1024
	fail := func(kind, sig, what string, impl interface{}) {
		e.nfail++
		r.Fail(hx.Failure{Kind: kind, Signature: sig, What: what, Case: bc, Impl: impl})
	}
	defer func() {
		if x := recover(); x != nil {
			fail("correspondence", "sweep-harness", fmt.Sprintf("big-reply case: %v", x), nil)
		}
	}()
	dir := filepath.Join(e.cfg.Work, fmt.Sprintf("big%d", e.nsrv))
	s, err := srv.Start(dir)
	if err != nil {
		fail("correspondence", "server-start", err.Error(), nil)
		return
	}
	defer func() { s.Kill() }()
	c := s.MustDial()
	defer c.Close()
	c.Timeout = 20 * time.Second
	id := fmt.Sprintf("%sb%d", e.nonce, e.nsrv)
	if v := c.MustDo("SET", "big", "obj", "STRING", strings.Repeat("x", bc.ObjKB*1024)); v.IsErr() {
		fail("correspondence", "setup", "SET of the big object: "+v.String(), nil)
		return
	}
	var w []string
	var needle []byte
	gone := false
	switch bc.Write {
	case "del":
		c.MustDo("SET", "fleet", id, "POINT", "33", "-115")
		w, gone = []string{"DEL", "fleet", id}, true
		needle = srv.Encode(w...)
	case "eval-set", "evalna-set":
		ev := map[string]string{"eval-set": "EVAL", "evalna-set": "EVALNA"}[bc.Write]
		w = []string{ev, "return tile38.call('set', KEYS[1], ARGV[1], 'point', '33', '-115')", "1", "fleet", id}
		needle = srv.Encode("set", "fleet", id, "point", "33", "-115")
	case "jset":
		w = []string{"JSET", "fleet", id, "driver", "tom"}
		needle = srv.Encode(w...)
	default:
		w = []string{"SET", "fleet", id, "POINT", "33", "-115"}
		needle = srv.Encode(w...)
	}
	packet := srv.Encode(w...)
	for i := 0; i < bc.Reads; i++ {
		packet = append(packet, srv.Encode("GET", "big", "obj")...)
	}
	bc.Packet = fmt.Sprintf("%s ; %d x GET big obj", strings.Join(w, " "), bc.Reads)
	if err := c.WriteRaw(packet); err != nil {
		fail("correspondence", "setup", "sending the packet: "+err.Error(), nil)
		return
	}
	// the first reply only; the rest stays unread (the server may block in its socket write)
	v, err := c.Read()
	if err != nil || v.IsErr() {
		fail("oracle", "server-died", fmt.Sprintf("no success reply to %v at the head of the packet: %v %v; log: %s", w[:3], v.String(), err, s.LogTail(300)), nil)
		return
	}
	e.acks++
	aof, _ := os.ReadFile(filepath.Join(dir, "appendonly.aof"))
	if !bytes.Contains(aof, needle) {
		fail("oracle", "ack-before-flush",
			fmt.Sprintf("one packet [%s]: the success reply (%s) of the write at its head has been received — the client has read nothing else — but appendonly.aof (%d bytes) does not contain the command: a reply left the server before the pre-write flush",
				bc.Packet, v.String(), len(aof)), v.String())
	}
	// kill -9 with the rest of the replies unread, restart, look for the write
	e.kills++
	s.Kill()
	c.Close()
	ps, err := srv.Start(dir)
	if err != nil {
		fail("oracle", "restart-failed", "server does not restart after kill -9: "+err.Error(), nil)
		return
	}
	defer ps.Kill()
	pc := ps.MustDial()
	defer pc.Close()
	g := pc.MustDo("GET", "fleet", id)
	if gone && g.Kind != 'n' {
		fail("oracle", "acked-write-lost-after-kill9", fmt.Sprintf("one packet [%s]: DEL was acknowledged (only that reply was read), the server was killed with SIGKILL, and after the restart the object is back: %s", bc.Packet, g.String()), g.String())
	}
	if !gone && (g.Kind == 'n' || g.IsErr()) {
		fail("oracle", "acked-write-lost-after-kill9", fmt.Sprintf("one packet [%s]: the write was acknowledged (only that reply was read), the server was killed with SIGKILL, and after the restart GET fleet %s answers %s", bc.Packet, id, g.String()), g.String())
	}
	r.Count(fmt.Sprintf("bigreply|%s|%d|%d", bc.Write, bc.ObjKB, bc.Reads), true)
	r.Dist("scenario:big-reply-pipeline")
	r.Sample(10, bc)
}

func bigCases(tier string, search bool) []bigCase {
	cs := []bigCase{
		{Name: "SET then GET of a 24 MB string in one packet", Write: "set", ObjKB: 24 * 1024, Reads: 1},
		{Name: "script write then 29 reads of a 1 MB string in one packet", Write: "eval-set", ObjKB: 1024, Reads: 29},
		{Name: "DEL then 120 reads of a 256 KB string in one packet", Write: "del", ObjKB: 256, Reads: 120},
	}
	if tier == "thorough" || search {
		// replies summing to 24 MB more than the thresholds 1 / 4 / 16 MB, in pieces of several sizes
		for _, th := range []int{1, 4, 16} {
			for i, kb := range []int{64, 512, 1024, 4096} {
				cs = append(cs, bigCase{Name: fmt.Sprintf("write then reads summing over %d MB + 24 MB", th),
					Write: []string{"set", "del", "evalna-set", "jset"}[i], ObjKB: kb, Reads: (th + 24) * 1024 / kb})
			}
		}
	}
	return cs
}
