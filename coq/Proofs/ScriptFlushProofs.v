(* Model/ScriptFlush.v: when a reply goes out, every record of every request it acknowledges is in the
   file - for plain write commands and for requests that log from inside a script alike, for every
   interleaving of the micro-steps of all connections, reply writes and background flushes. The one fact
   needed about the source - the condition in front of the pre-reply flush is the server-wide flag that
   writeAOF raises - is computed from Gen/ReplyFlush.v. *)
From Coq Require Import String List Bool Arith Lia.
From T38 Require Import Base.Bytes Model.Resp Model.Aof Proofs.AofProofs.
From T38 Require Import Model.Tables Gen.ReplyFlush Model.Gate Model.Replay Model.Script Model.ScriptFlush Proofs.ScriptProofs.
Import ListNotations.
Local Open Scope list_scope.
Local Open Scope nat_scope.

(* the source: both reply blocks of netServe flush on `s.aofdirty.Load()` alone, under the lock, and
   writeAOF raises that flag whenever it appends *)
Lemma source_reply_flush : reply_flush_on_global_flag = true /\ flag_raised_in_writeaof = true.
Proof. vm_compute. split; reflexivity. Qed.

Section FlushProofs.
Variables S val herr : Type.
Variable cname : cmd -> string.
Variable handler : string -> S -> cmd -> S * (val + herr) * bool.
Variable e : env.
Variable s0 : S.
Hypothesis h_noupd : noupd_ok handler.
Hypothesis h_pure : pure_ok handler.

Notation gstate := (gstate S val herr).
Notation fstate := (fstate S val herr).
Notation sstep := (sstep cname handler e).
Notation fstep := (fstep cname handler e).
Notation frun := (frun cname handler e).
Notation AllInv := (AllInv S val herr cname handler s0).

(* a micro-step appends at most one record, tagged with the stepping connection's current request; no
   request number ever decreases *)
Lemma sstep_log_rid (g : gstate) u : AllInv g ->
  (log (sstep g u) = log g \/ exists c, log (sstep g u) = log g ++ [mkRec u (t_rid (th g u)) c]) /\
  (forall t, t_rid (th g t) <= t_rid (th (sstep g u) t)).
Proof.
  intros AI. destruct (sstep_cases S val herr cname handler e g u) as [->|[f [Hp ->]]].
  - split; [left; reflexivity | intros t; lia].
  - pose proof (plan_class S val herr cname handler e h_noupd h_pure g u f
                  (li_pc _ _ _ _ _ (ai_lock _ _ _ _ _ _ _ AI) u) Hp) as Hc.
    split.
    + rewrite log_commit. destruct (f_rec f) as [c|]; [right; exists c; reflexivity | left; apply app_nil_r].
    + intros t. destruct (Nat.eq_dec t u) as [->|Hne].
      * rewrite th_commit_same.
        destruct Hc as [q rest ? ? ? Hts | prot c k tb a ? ? ? Hts | l p ? Hts | ? Hts | ? ? Hr];
          try (rewrite Hts; cbn; lia). rewrite Hr. lia.
      * rewrite th_commit_other by exact Hne. lia.
Qed.

Record FInv (f : fstate) : Prop := mkFI {
  fi_all : AllInv (f_g f);
  fi_le : f_file f <= length (log (f_g f));
  fi_clean : f_dirty f = false -> f_file f = length (log (f_g f));
  fi_sends : forall u n fl, In (u, (n, fl)) (f_sends f) ->
      n <= t_rid (th (f_g f) u) /\ fl <= f_file f /\
      forall i x, nth_error (log (f_g f)) i = Some x -> r_tid x = u -> r_rid x < n -> i < fl }.

Lemma finv_init progs : FInv (finit s0 progs).
Proof.
  constructor; cbn.
  - apply (inv_init S val herr cname handler s0 h_noupd h_pure).
  - lia.
  - reflexivity.
  - intros u n fl [].
Qed.

Lemma finv_step f o : FInv f -> FInv (fstep f o).
Proof.
  destruct source_reply_flush as [Hguard Hflag].
  intros HF. pose proof HF as [AI Hle Hclean Hs]. destruct o as [u|u|]; cbn [ScriptFlush.fstep].
  - (* a micro-step *)
    destruct (sstep_log_rid (f_g f) u AI) as [Hlog Hrid].
    constructor; cbn [f_g f_file f_dirty f_acked f_sends].
    + apply (inv_step S val herr cname handler e s0 h_noupd h_pure). exact AI.
    + destruct Hlog as [->|[c ->]]; [exact Hle | rewrite app_length; lia].
    + rewrite Hflag, andb_true_r. intros Hd. apply orb_false_iff in Hd as [Hd Hg].
      apply Nat.ltb_ge in Hg. destruct Hlog as [->|[c Hl]]; [exact (Hclean Hd)|].
      rewrite Hl, app_length in Hg. cbn in Hg. lia.
    + intros v n fl Hin. destruct (Hs v n fl Hin) as [Hn [Hfl Hrec]].
      split; [specialize (Hrid v); lia|]. split; [exact Hfl|].
      intros i x Hnth Ht Hr. destruct Hlog as [Hl|[c Hl]]; rewrite Hl in Hnth; [exact (Hrec i x Hnth Ht Hr)|].
      destruct (lt_dec i (length (log (f_g f)))) as [Hi|Hi].
      * rewrite nth_error_app1 in Hnth by exact Hi. exact (Hrec i x Hnth Ht Hr).
      * rewrite nth_error_app2 in Hnth by lia.
        destruct (i - length (log (f_g f))) as [|k]; cbn in Hnth; [|destruct k; discriminate].
        inversion Hnth; subst x. cbn in Ht, Hr. subst v. lia.
  - (* a reply *)
    destruct (t_pc (th (f_g f) u)) eqn:Epc; try exact HF.
    destruct (Nat.ltb (f_acked f u) (t_rid (th (f_g f) u))); [|exact HF].
    rewrite Hguard. cbn [andb].
    assert (Hsend : forall file dirty, file = length (log (f_g f)) -> (dirty = false \/ dirty = f_dirty f) ->
      FInv (mkF (f_g f) file dirty (fun t => if Nat.eqb t u then t_rid (th (f_g f) u) else f_acked f t)
                (f_sends f ++ [(u, (t_rid (th (f_g f) u), file))]))).
    { intros file dirty Hf Hd. constructor; cbn [f_g f_file f_dirty f_acked f_sends].
      - exact AI.
      - lia.
      - intros _. exact Hf.
      - intros v n fl Hin. apply in_app_or in Hin as [Hin|[Hin|[]]].
        + destruct (Hs v n fl Hin) as [Hn [Hfl Hrec]]. split; [exact Hn|]. split; [lia | exact Hrec].
        + inversion Hin; subst v n fl. split; [lia|]. split; [lia|].
          intros i x Hnth _ _. rewrite Hf. apply nth_error_Some. rewrite Hnth. discriminate. }
    destruct (f_dirty f) eqn:Ed.
    + destruct (lock_free (f_g f)); [|exact HF].
      apply Hsend; [reflexivity | left; reflexivity].
    + apply Hsend; [exact (Hclean eq_refl) | right; reflexivity].
  - (* the background flush *)
    destruct (lock_free (f_g f)); [|exact HF].
    constructor; cbn [f_g f_file f_dirty f_acked f_sends].
    + exact AI.
    + lia.
    + intros _. reflexivity.
    + intros v n fl Hin. destruct (Hs v n fl Hin) as [Hn [Hfl Hrec]]. split; [exact Hn|]. split; [lia | exact Hrec].
Qed.

Theorem finv_run progs ops : FInv (frun (finit s0 progs) ops).
Proof.
  unfold ScriptFlush.frun. generalize (finv_init progs). generalize (finit s0 progs).
  induction ops as [|o ops IH]; intros f Hf; cbn [fold_left]; [exact Hf|].
  apply IH. apply finv_step. exact Hf.
Qed.

(* a reply that went out acknowledges n requests of connection u; the file held fl records then. Every
   record any of those requests ever puts in the log - also the records a script logged call by call -
   is among those fl, and they stay in the file *)
Theorem reply_sent_implies_records_in_file progs ops u n fl :
  let f := frun (finit s0 progs) ops in
  In (u, (n, fl)) (f_sends f) ->
  fl <= f_file f <= length (log (f_g f)) /\
  forall i x, nth_error (log (f_g f)) i = Some x -> r_tid x = u -> r_rid x < n -> i < fl.
Proof.
  cbn zeta. intros Hin. destruct (finv_run progs ops) as [_ Hle _ Hs].
  destruct (Hs u n fl Hin) as [_ [Hfl Hrec]]. split; [lia | exact Hrec].
Qed.

(* ... so a kill at any later instant keeps them: start-up on any byte prefix of the log that contains the
   file as it was at the reply recovers a dataset that contains those records' effects. (The file is a
   byte prefix of the encoded log; this is the record-level statement.) *)
Theorem file_is_a_log_prefix progs ops :
  let f := frun (finit s0 progs) ops in f_file f <= length (log (f_g f)).
Proof. cbn zeta. exact (fi_le _ (finv_run progs ops)). Qed.

End FlushProofs.
