(* Lemmas about Model/RoleState.v over the regenerated tables of Gen/RoleGates.v. *)
From Coq Require Import String Ascii List Bool ZArith Lia.
From T38 Require Import Model.Tables Model.RoleTypes Gen.LockTable Gen.Dispatch Gen.ScriptTables Gen.Mutators
  Gen.RoleGates Model.Gate Model.RoleState Proofs.GateProofs.
Import ListNotations.
Open Scope string_scope.

(* ---------- 1. arms under concurrent role changes ---------- *)

Definition facts_hold (k : facts) (r : role) : Prop :=
  (k_leader k = true -> r_follower r = false) /\
  (k_writable k = true -> r_readonly r = false) /\
  (k_servable k = true -> negb (r_follower r) || r_caughtup r = true).

Lemma facts_hold_nofacts r : facts_hold nofacts r.
Proof. repeat split; cbn; discriminate. Qed.

Lemma env_apply_keeps held m k r :
  facts_hold k r -> facts_hold (forget held k) (env_apply held m r).
Proof.
  intros [Hl [Hw Hs]]. destruct held; cbn [forget env_apply].
  - repeat split; cbn; intros H.
    + exact (Hl H).
    + exact (Hw H).
    + specialize (Hs H). destruct (r_follower r), (r_caughtup r), (mv_caughtup m); cbn in *; congruence.
  - repeat split; cbn; discriminate.
Qed.

Lemma run_arm_eq steps held sched r :
  run_arm steps held sched r =
  let r1 := env_apply held (hd nomove sched) r in
  let sched1 := tl sched in
  match steps with
  | [] => AHandler r1
  | ASLock :: rest | ASRLock :: rest => run_arm rest true sched1 r1
  | ASWrite :: rest => run_arm rest held sched1 r1
  | ASChkFollower :: rest => if r_follower r1 then ARefused else run_arm rest held sched1 r1
  | ASChkReadonly :: rest => if r_readonly r1 then ARefused else run_arm rest held sched1 r1
  | ASChkCaughtup :: rest => if r_follower r1 && negb (r_caughtup r1) then ARefused else run_arm rest held sched1 r1
  | ASReject :: _ => ARefused
  end.
Proof. destruct steps as [|[] ?]; reflexivity. Qed.

Lemma abs_arm_eq steps held k :
  abs_arm steps held k =
  let k1 := forget held k in
  match steps with
  | [] => k1
  | ASLock :: rest | ASRLock :: rest => abs_arm rest true k1
  | ASWrite :: rest => abs_arm rest held k1
  | ASChkFollower :: rest => abs_arm rest held (mkFacts true (k_writable k1) true)
  | ASChkReadonly :: rest => abs_arm rest held (mkFacts (k_leader k1) true (k_servable k1))
  | ASChkCaughtup :: rest => abs_arm rest held (mkFacts (k_leader k1) (k_writable k1) true)
  | ASReject :: _ => mkFacts true true true
  end.
Proof. destruct steps as [|[] ?]; reflexivity. Qed.

(* the abstract execution is sound for every schedule of the environment *)
Lemma abs_arm_sound steps : forall held k sched r r',
  facts_hold k r -> run_arm steps held sched r = AHandler r' -> facts_hold (abs_arm steps held k) r'.
Proof.
  induction steps as [|st rest IH]; intros held k sched r r' Hk Hrun;
    rewrite run_arm_eq in Hrun; rewrite abs_arm_eq; cbv zeta in *;
    pose proof (env_apply_keeps held (hd nomove sched) k r Hk) as Hk1;
    remember (env_apply held (hd nomove sched) r) as r1 eqn:Er1;
    remember (forget held k) as k1 eqn:Ek1; clear Er1 Ek1.
  - inversion Hrun; subst. exact Hk1.
  - destruct Hk1 as [Hl [Hw Hs]].
    destruct st.
    + eapply IH; [|exact Hrun]. repeat split; assumption.
    + eapply IH; [|exact Hrun]. repeat split; assumption.
    + eapply IH; [|exact Hrun]. repeat split; assumption.
    + destruct (r_follower r1) eqn:Ef; [discriminate|].
      eapply IH; [|exact Hrun]. repeat split; cbn; intros; try assumption; try (apply Hw; assumption).
      rewrite Ef. reflexivity.
    + destruct (r_readonly r1) eqn:Er; [discriminate|].
      eapply IH; [|exact Hrun]. repeat split; cbn; intros; try assumption; try (apply Hl; assumption); try (apply Hs; assumption).
    + destruct (r_follower r1 && negb (r_caughtup r1)) eqn:Ec; [discriminate|].
      eapply IH; [|exact Hrun]. repeat split; cbn; intros; try (apply Hl; assumption); try (apply Hw; assumption).
      destruct (r_follower r1), (r_caughtup r1); cbn in *; congruence.
    + discriminate.
Qed.

(* -- the regenerated step tables say the same as the regenerated arm records -- *)
Lemma step_tables_agree :
  steps_agree lock_table lock_table_steps lock_table_default_steps = true /\
  steps_agree script_rw script_rw_steps script_rw_default_steps = true /\
  steps_agree script_ro script_ro_steps script_ro_default_steps = true /\
  steps_agree script_na script_na_steps script_na_default_steps = true.
Proof. vm_compute. repeat split. Qed.

(* -- writes -- *)
Definition write_under_lock_direct (c : string) : bool :=
  implb (changes c && negb (in_strs c dev_only))
        (let k := abs_arm (direct_steps c) false nofacts in k_leader k && k_writable k).

Lemma write_under_lock_direct_all : forall c, write_under_lock_direct c = true.
Proof.
  apply (lift_dispatch dispatch).
  - vm_compute. reflexivity.
  - intros c He _. unfold write_under_lock_direct, changes. rewrite He. reflexivity.
Qed.

Lemma direct_write_role c sched r r' :
  changes c = true -> in_strs c dev_only = false ->
  run_arm (direct_steps c) false sched r = AHandler r' ->
  r_follower r' = false /\ r_readonly r' = false.
Proof.
  intros Hc Hd Hrun. pose proof (write_under_lock_direct_all c) as H.
  unfold write_under_lock_direct in H. rewrite Hc, Hd in H. cbn [andb negb implb] in H.
  apply andb_true_iff in H as [Hl Hw].
  destruct (abs_arm_sound _ _ _ _ _ _ (facts_hold_nofacts r) Hrun) as [Gl [Gw _]].
  split; [apply Gl; exact Hl | apply Gw; exact Hw].
Qed.

Definition script_outers : list string := map fst script_tables.

Definition write_under_lock_script (outer c : string) : bool :=
  implb (changes_script c)
        (let k := abs_arm (script_steps outer c) false nofacts in k_leader k && k_writable k).

Lemma write_under_lock_script_all :
  forall outer, In outer script_outers -> forall c, write_under_lock_script outer c = true.
Proof.
  intros outer Ho. apply (lift_dispatch dispatch_script).
  - cbn in Ho. destruct Ho as [<-|[<-|[<-|[<-|[<-|[<-|[]]]]]]]; vm_compute; reflexivity.
  - intros c He _. unfold write_under_lock_script, changes_script. rewrite He. reflexivity.
Qed.

Lemma script_write_role outer c sched r r' :
  In outer script_outers -> changes_script c = true ->
  run_arm (script_steps outer c) false sched r = AHandler r' ->
  r_follower r' = false /\ r_readonly r' = false.
Proof.
  intros Ho Hc Hrun. pose proof (write_under_lock_script_all outer Ho c) as H.
  unfold write_under_lock_script in H. rewrite Hc in H. cbn [implb] in H.
  apply andb_true_iff in H as [Hl Hw].
  destruct (abs_arm_sound _ _ _ _ _ _ (facts_hold_nofacts r) Hrun) as [Gl [Gw _]].
  split; [apply Gl; exact Hl | apply Gw; exact Hw].
Qed.

(* -- object reads -- *)
Definition read_under_lock_direct (c : string) : bool :=
  implb (reads_objects c && negb (in_strs c dev_only))
        (k_servable (abs_arm (direct_steps c) false nofacts)).

Lemma read_under_lock_direct_all : forall c, read_under_lock_direct c = true.
Proof.
  apply (lift_dispatch dispatch).
  - vm_compute. reflexivity.
  - intros c He _. unfold read_under_lock_direct, reads_objects. rewrite He. reflexivity.
Qed.

Lemma direct_read_role c sched r r' :
  reads_objects c = true -> in_strs c dev_only = false ->
  run_arm (direct_steps c) false sched r = AHandler r' ->
  r_follower r' = false \/ r_caughtup r' = true.
Proof.
  intros Hc Hd Hrun. pose proof (read_under_lock_direct_all c) as H.
  unfold read_under_lock_direct in H. rewrite Hc, Hd in H. cbn [andb negb implb] in H.
  destruct (abs_arm_sound _ _ _ _ _ _ (facts_hold_nofacts r) Hrun) as [_ [_ Gs]].
  specialize (Gs H). destruct (r_follower r'); [right|left; reflexivity]. exact Gs.
Qed.

Definition read_under_lock_script (outer c : string) : bool :=
  implb (reads_objects_script c) (k_servable (abs_arm (script_steps outer c) false nofacts)).

Lemma read_under_lock_script_all :
  forall outer, In outer script_outers -> forall c, read_under_lock_script outer c = true.
Proof.
  intros outer Ho. apply (lift_dispatch dispatch_script).
  - cbn in Ho. destruct Ho as [<-|[<-|[<-|[<-|[<-|[<-|[]]]]]]]; vm_compute; reflexivity.
  - intros c He _. unfold read_under_lock_script, reads_objects_script. rewrite He. reflexivity.
Qed.

Lemma script_read_role outer c sched r r' :
  In outer script_outers -> reads_objects_script c = true ->
  run_arm (script_steps outer c) false sched r = AHandler r' ->
  r_follower r' = false \/ r_caughtup r' = true.
Proof.
  intros Ho Hc Hrun. pose proof (read_under_lock_script_all outer Ho c) as H.
  unfold read_under_lock_script in H. rewrite Hc in H. cbn [implb] in H.
  destruct (abs_arm_sound _ _ _ _ _ _ (facts_hold_nofacts r) Hrun) as [_ [_ Gs]].
  specialize (Gs H). destruct (r_follower r'); [right|left; reflexivity]. exact Gs.
Qed.

(* ---------- 2. READONLY ---------- *)

Lemma readonly_cmd_spec a ro :
  readonly_set_sites = ["Server.cmdREADONLY"] /\
  (snd (readonly_cmd a ro) = false -> ro = false \/ lower a = "no").
Proof.
  split; [vm_compute; reflexivity|].
  unfold readonly_cmd.
  cbv [readonly_validate_folds_case readonly_branch_folds_case readonly_valid_args readonly_on_arg
       fold_case in_strs existsb].
  destruct (String.eqb_spec a "yes") as [E1|E1]; cbn [orb snd].
  - discriminate.
  - destruct (String.eqb_spec a "no") as [E2|E2]; cbn [orb snd].
    + intros _. right. subst a. reflexivity.
    + intros H. left. exact H.
Qed.

Lemma readonly_sticky args :
  Forall (fun a => lower a <> "no") args -> readonly_after args true = true.
Proof.
  unfold readonly_after. induction args as [|a rest IH]; intros Hall; [reflexivity|].
  inversion Hall as [|? ? Ha Hrest]; subst. cbn [fold_left].
  destruct (snd (readonly_cmd a true)) eqn:E; [exact (IH Hrest)|].
  destruct (proj2 (readonly_cmd_spec a true) E) as [H|H]; [discriminate | contradiction].
Qed.

Lemma readonly_cmd_canonical ro :
  readonly_cmd "yes" ro = (RoOK, true) /\ readonly_cmd "no" ro = (RoOK, false).
Proof. split; vm_compute; reflexivity. Qed.

(* ---------- 3. protected mode ---------- *)

Definition pinv (s : pstate) : Prop := p_mode s = "yes" /\ p_saved s = "".

Lemma set_protected_spec v fl m :
  set_protected v fl = Some m -> lower v <> "no" -> m = "yes".
Proof.
  unfold set_protected.
  cbv [protected_validate_folds_case protected_store_folds_case protected_valid_args protected_default
       fold_case in_strs existsb].
  destruct (String.eqb_spec (lower v) "") as [E0|E0].
  - destruct fl; [|discriminate]. intros H _. inversion H. reflexivity.
  - destruct (String.eqb_spec (lower v) "yes") as [E1|E1]; cbn [orb].
    + intros H _. inversion H. exact E1.
    + destruct (String.eqb_spec (lower v) "no") as [E2|E2]; cbn [orb]; [|discriminate].
      intros _ Hn. contradiction.
Qed.

Lemma pstep_inv s e :
  pinv s -> match e with PSet v => lower v <> "no" | _ => True end -> pinv (pstep s e).
Proof.
  intros [Hm Hs] He. destruct e as [v| |]; cbn [pstep].
  - destruct (set_protected v false) as [m|] eqn:E; [|split; assumption].
    split; [exact (set_protected_spec v false m E He) | exact Hs].
  - split; [exact Hm|]. cbn [p_mode]. rewrite Hm. vm_compute. reflexivity.
  - rewrite Hs. vm_compute. split; reflexivity.
Qed.

Lemma protected_kept es :
  Forall (fun e => match e with PSet v => lower v <> "no" | _ => True end) es ->
  protected_mode_writes = 2 /\
  mode_test protected_test (p_mode (prun es pstate0)) = true.
Proof.
  intros Hall. split; [vm_compute; reflexivity|].
  assert (G : forall s, pinv s -> pinv (prun es s)).
  { unfold prun. induction es as [|e rest IH]; intros s Hs; [exact Hs|].
    inversion Hall as [|? ? He Hrest]; subst. cbn [fold_left]. apply (IH Hrest). apply pstep_inv; assumption. }
  destruct (G pstate0) as [Hm _]; [split; vm_compute; reflexivity|].
  rewrite Hm. vm_compute. reflexivity.
Qed.

Lemma protected_canonical :
  set_protected "no" false = Some "no" /\ mode_test protected_test "no" = false /\
  set_protected "yes" false = Some "yes" /\ set_protected "maybe" false = None.
Proof. vm_compute. repeat split. Qed.

(* ---------- 4. followStep: caught up means the log was consumed ---------- *)

Open Scope Z_scope.

Definition stream_wf (ms : list fmsg) : Prop :=
  Forall (fun m => 0 <= fm_len m /\ (fm_logged m = false -> lower (fm_cmd m) = "publish"%string)) ms.

Lemma counts_not_publish cmd : lpos_counts cmd = true -> lower cmd <> "publish"%string.
Proof.
  unfold lpos_counts.
  cbv [follow_lpos_skip_folds_case follow_lpos_skips fold_case in_strs existsb].
  destruct (String.eqb_spec (lower cmd) "publish") as [E|E]; cbn [orb negb]; [discriminate|].
  intros _. exact E.
Qed.

Lemma follow_loop_inv ms : forall lpos aofsize cu base,
  stream_wf ms -> lpos <= base -> (cu = true -> aofsize <= base) ->
  fst (follow_loop ms lpos aofsize cu) = true -> aofsize <= base + logged_bytes ms.
Proof.
  induction ms as [|m rest IH]; intros lpos aofsize cu base Hwf Hle Hcu Hres.
  - cbn in *. specialize (Hcu Hres). lia.
  - inversion Hwf as [|? ? [Hlen Hpub] Hrest]; subst.
    cbn [follow_loop logged_bytes] in *.
    set (lpos' := if lpos_counts (fm_cmd m) then lpos + fm_len m else lpos) in *.
    set (add := if fm_logged m then fm_len m else 0).
    assert (Hle' : lpos' <= base + add).
    { unfold lpos', add. destruct (lpos_counts (fm_cmd m)) eqn:Ec.
      - destruct (fm_logged m) eqn:El; [lia|].
        exfalso. exact (counts_not_publish _ Ec (Hpub eq_refl)).
      - destruct (fm_logged m); lia. }
    assert (G := IH lpos' aofsize (cu || (aofsize <=? lpos')) (base + add) Hrest Hle').
    assert (Hadd : 0 <= add) by (unfold add; destruct (fm_logged m); lia).
    enough (aofsize <= base + add + logged_bytes rest) by (unfold add in *; lia).
    apply G; [|exact Hres].
    intros Hc. apply orb_true_iff in Hc as [Hc|Hc]; [specialize (Hcu Hc); lia|].
    apply Z.leb_le in Hc. lia.
Qed.

Lemma caught_up_means_log_consumed pos aofsize ms :
  stream_wf ms -> follow_session pos aofsize ms = true ->
  caughtup_true_calls = 2%nat /\ caughtup_flag_writers = ["Server.setCaughtUp"%string] /\
  aofsize <= pos + logged_bytes ms.
Proof.
  intros Hwf H. split; [vm_compute; reflexivity|]. split; [vm_compute; reflexivity|].
  unfold follow_session in H.
  apply (follow_loop_inv ms pos aofsize (aofsize <=? pos) pos Hwf); [lia| |exact H].
  intros Hc. apply Z.leb_le in Hc. exact Hc.
Qed.
