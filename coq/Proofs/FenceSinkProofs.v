(* Proofs/FenceSinkProofs.v — the three delivery paths hand the same message list to a webhook, a
   channel and a live connection with the same fence definition (C05). *)
From Coq Require Import List Bool Arith Lia Sorting.Sorted.
From Coq Require Import ZifyBool.
From T38 Require Import Base.Bytes Model.Fence Model.HookReg Proofs.FenceProofs Proofs.FenceRegProofs.
Import ListNotations.
Local Open Scope nat_scope.

(* ---------- sortMsgs ---------- *)

(* a may stand before b *)
Definition tle (a b : tagged) : Prop := tless b a = false.

Lemma bytes_ltb_false_leb a b : bytes_ltb b a = false -> bytes_leb a b = true.
Proof.
  unfold bytes_ltb, bytes_leb. rewrite (bytes_cmp_antisym a b).
  destruct (bytes_cmp a b); cbn; congruence.
Qed.

Lemma bytes_leb_ltb_false a b : bytes_leb a b = true -> bytes_ltb b a = false.
Proof.
  unfold bytes_ltb, bytes_leb. rewrite (bytes_cmp_antisym a b).
  destruct (bytes_cmp a b); cbn; congruence.
Qed.

Lemma tle_spec a b :
  tle a b <-> weight (snd a) < weight (snd b) \/
              (weight (snd a) = weight (snd b) /\ bytes_leb (fst a) (fst b) = true).
Proof.
  unfold tle, tless. split.
  - intro H. apply orb_false_iff in H. destruct H as [H1 H2].
    apply Nat.ltb_ge in H1. apply andb_false_iff in H2. destruct H2 as [H2|H2].
    + apply Nat.eqb_neq in H2. left. lia.
    + destruct (Nat.eq_dec (weight (snd a)) (weight (snd b))) as [E|E]; [|left; lia].
      right. split; [assumption|]. now apply bytes_ltb_false_leb.
  - intros [H|[H1 H2]]; apply orb_false_iff; split.
    + apply Nat.ltb_ge. lia.
    + apply andb_false_iff. left. apply Nat.eqb_neq. lia.
    + apply Nat.ltb_ge. lia.
    + apply andb_false_iff. right. now apply bytes_leb_ltb_false.
Qed.

Lemma tle_trans a b c : tle a b -> tle b c -> tle a c.
Proof.
  rewrite !tle_spec. intros [H1|[H1 L1]] [H2|[H2 L2]]; try (left; lia).
  right. split; [lia|]. eapply bytes_leb_trans; eauto.
Qed.

Lemma tless_true_tle a b : tless a b = true -> tle a b.
Proof.
  unfold tless. intro H. apply tle_spec. apply orb_true_iff in H. destruct H as [H|H].
  - apply Nat.ltb_lt in H. left. assumption.
  - apply andb_true_iff in H. destruct H as [H1 H2]. apply Nat.eqb_eq in H1.
    right. split; [assumption|]. now apply bytes_ltb_leb.
Qed.

Definition tsorted (l : list tagged) : Prop := StronglySorted tle l.

Lemma tinsert_In x l y : In y (tinsert x l) <-> y = x \/ In y l.
Proof.
  induction l as [|z t IH]; cbn [tinsert].
  - cbn. intuition.
  - destruct (tless z x); cbn [In]; [rewrite IH|]; intuition.
Qed.

Lemma tinsert_sorted x l : tsorted l -> tsorted (tinsert x l).
Proof.
  unfold tsorted. induction l as [|y t IH]; intro Hs; cbn [tinsert].
  - repeat constructor.
  - inversion Hs as [|? ? Hst Hall]; subst.
    destruct (tless y x) eqn:E.
    + constructor; [auto|]. apply Forall_forall. intros z Hz. apply tinsert_In in Hz.
      destruct Hz as [->|Hz]; [now apply tless_true_tle|]. rewrite Forall_forall in Hall. auto.
    + constructor; [assumption|]. constructor; [exact E|].
      apply Forall_forall. intros z Hz. rewrite Forall_forall in Hall.
      apply (tle_trans x y z); [exact E|auto].
Qed.

Lemma sort_msgs_sorted l : tsorted (sort_msgs l).
Proof.
  induction l as [|x l IH]; cbn; [constructor|].
  change (tsorted (tinsert x (sort_msgs l))). now apply tinsert_sorted.
Qed.

(* filtering commutes with the stable sort *)
Lemma filter_tinsert p x l :
  tsorted l ->
  filter p (tinsert x l) = if p x then tinsert x (filter p l) else filter p l.
Proof.
  unfold tsorted. induction l as [|y t IH]; intro Hs; cbn [tinsert].
  - cbn. destruct (p x); reflexivity.
  - inversion Hs as [|? ? Hst Hall]; subst.
    destruct (tless y x) eqn:E.
    + cbn [filter]. rewrite (IH Hst). destruct (p y) eqn:Py, (p x) eqn:Px; cbn [tinsert]; rewrite ?E; reflexivity.
    + change (filter p (x :: y :: t)) with (if p x then x :: filter p (y :: t) else filter p (y :: t)).
      destruct (p x) eqn:Px; [|reflexivity].
      (* the first retained element of y :: t, if any, is not before x *)
      assert (Hall' : forall z, In z (filter p (y :: t)) -> tless z x = false).
      { intros z Hz. apply filter_In in Hz. destruct Hz as [[<-|Hz] _]; [exact E|].
        rewrite Forall_forall in Hall. apply (tle_trans x y z); [exact E|auto]. }
      remember (filter p (y :: t)) as fl eqn:Ef. destruct fl as [|z r]; [reflexivity|].
      cbn [tinsert]. rewrite (Hall' z (or_introl eq_refl)). reflexivity.
Qed.

Lemma filter_sort_msgs p l : filter p (sort_msgs l) = sort_msgs (filter p l).
Proof.
  induction l as [|x l IH]; [reflexivity|].
  cbn [sort_msgs fold_right filter].
  change (filter p (tinsert x (sort_msgs l)) = sort_msgs (if p x then x :: filter p l else filter p l)).
  rewrite (filter_tinsert p x _ (sort_msgs_sorted l)), IH.
  destruct (p x); reflexivity.
Qed.

(* a list that is already in order is left alone *)
Lemma sort_msgs_id l : Sorted tle l -> sort_msgs l = l.
Proof.
  induction l as [|x l IH]; intro Hs; [reflexivity|].
  inversion Hs as [|? ? Hst Hhd]; subst. cbn [sort_msgs fold_right].
  change (tinsert x (sort_msgs l) = x :: l). rewrite (IH Hst).
  destruct l as [|y t]; [reflexivity|]. cbn [tinsert].
  inversion Hhd as [|? ? Hxy]; subst. unfold tle in Hxy. rewrite Hxy. reflexivity.
Qed.

(* ---------- one hook's messages ---------- *)

Lemma increasing_sorted n l :
  increasing (map weight l) = true -> Sorted tle (map (fun m => (n, m)) l).
Proof.
  induction l as [|a l IH]; intro H; [constructor|].
  destruct l as [|b t].
  - repeat constructor.
  - cbn [map increasing] in H. apply andb_true_iff in H. destruct H as [Hab Hrest].
    constructor; [apply IH; exact Hrest|].
    constructor. apply tle_spec. cbn [snd fst]. left. now apply Nat.ltb_lt.
Qed.

Lemma hook_msgs_sorted cf af h : Sorted tle (hook_msgs cf af h).
Proof.
  unfold hook_msgs. destruct (fence_match (af h) (h_detect h) (cf h)) as [l|] eqn:E; [|constructor].
  apply increasing_sorted. exact (fence_weights_increasing _ _ _ _ E).
Qed.

Lemma hook_msgs_tags cf af h t : In t (hook_msgs cf af h) -> fst t = h_name h.
Proof.
  unfold hook_msgs. destruct (fence_match (af h) (h_detect h) (cf h)); [|intros []].
  intro H. apply in_map_iff in H. destruct H as (m & <- & _). reflexivity.
Qed.

Lemma filter_all {A} (p : A -> bool) l : (forall x, In x l -> p x = true) -> filter p l = l.
Proof.
  induction l as [|x l IH]; intro H; [reflexivity|]. cbn. rewrite (H x (or_introl eq_refl)).
  f_equal. apply IH. intros y Hy. apply H. now right.
Qed.

Lemma filter_none {A} (p : A -> bool) l : (forall x, In x l -> p x = false) -> filter p l = [].
Proof.
  induction l as [|x l IH]; intro H; [reflexivity|]. cbn. rewrite (H x (or_introl eq_refl)).
  apply IH. intros y Hy. apply H. now right.
Qed.

(* the messages tagged n among those of a duplicate-free list of hooks with distinct names *)
Lemma filter_tag_flat_map cf af n cl :
  NoDup (map h_name cl) ->
  filter (fun t => bytes_eqb (fst t) n) (flat_map (hook_msgs cf af) cl) =
  match find (named n) cl with Some h => hook_msgs cf af h | None => [] end.
Proof.
  unfold tagged. induction cl as [|h cl IH]; intro Hnd; [reflexivity|].
  cbn [flat_map find]. cbn [map] in Hnd. inversion Hnd as [|? ? Hnot Hnd']; subst.
  rewrite filter_app, (IH Hnd').
  destruct (named n h) eqn:E.
  - apply named_true in E.
    rewrite filter_all.
    2:{ intros t Ht. rewrite (hook_msgs_tags _ _ _ _ Ht). apply bytes_eqb_eq. exact E. }
    destruct (find (named n) cl) as [h'|] eqn:Ef; [|apply app_nil_r].
    exfalso. apply find_some in Ef. destruct Ef as [Hin Hn]. apply named_true in Hn.
    apply Hnot. rewrite E, <- Hn. now apply in_map.
  - rewrite filter_none; [reflexivity|].
    intros t Ht. rewrite (hook_msgs_tags _ _ _ _ Ht). exact E.
Qed.

Lemma find_named_unique n cl h :
  NoDup (map h_name cl) -> In h cl -> h_name h = n -> find (named n) cl = Some h.
Proof.
  induction cl as [|x cl IH]; intros Hnd Hin Hn; [destruct Hin|].
  cbn [find]. inversion Hnd as [|? ? Hnot Hnd']; subst.
  destruct Hin as [->|Hin].
  - rewrite (proj2 (named_true (h_name h) h) eq_refl). reflexivity.
  - destruct (named (h_name h) x) eqn:E; [|auto].
    apply named_true in E. exfalso. apply Hnot. rewrite E. now apply in_map.
Qed.

Lemma find_named_none n cl : (forall x, In x cl -> h_name x <> n) -> find (named n) cl = None.
Proof.
  induction cl as [|x cl IH]; intro H; [reflexivity|]. cbn [find].
  rewrite (proj2 (named_false n x) (H x (or_introl eq_refl))). apply IH. intros y Hy. apply H. now right.
Qed.

Lemma NoDup_names_filter (p : hook -> bool) l : NoDup (map h_name l) -> NoDup (map h_name (filter p l)).
Proof.
  induction l as [|x l IH]; cbn; intro H; [constructor|]. inversion H; subst.
  destruct (p x); cbn; auto. constructor; auto.
  intro Hin. apply in_map_iff in Hin. destruct Hin as (y & Hy & Hin). apply filter_In in Hin.
  apply H2. rewrite <- Hy. apply in_map. tauto.
Qed.

Definition msgs_of (r : fres) : list fmsg := match r with FOk l => l | FFuel => [] end.

(* what reaches the sink named n: that hook's own FenceMatch result if it is a candidate, nothing
   otherwise - whatever the other candidates produce and in whatever order the candidate map
   is iterated *)
Lemma delivery_select (sel : hook -> bool) cl cf af h :
  NoDup (map h_name cl) -> sel h = true ->
  tagged_for (h_name h) (sort_msgs (flat_map (hook_msgs cf af) (filter sel cl))) =
  if existsb (fun x => bytes_eqb (h_name x) (h_name h)) (filter sel cl)
  then match find (named (h_name h)) (filter sel cl) with
       | Some h' => msgs_of (fence_match (af h') (h_detect h') (cf h'))
       | None => []
       end
  else [].
Proof.
  intros Hnd Hsel. unfold tagged_for.
  rewrite filter_sort_msgs, (filter_tag_flat_map cf af _ _ (NoDup_names_filter sel cl Hnd)).
  destruct (find (named (h_name h)) (filter sel cl)) as [h'|] eqn:Ef.
  - assert (Hex : existsb (fun x => bytes_eqb (h_name x) (h_name h)) (filter sel cl) = true).
    { apply existsb_exists. exists h'. apply find_some in Ef. exact Ef. }
    rewrite Hex, (sort_msgs_id _ (hook_msgs_sorted cf af h')).
    unfold hook_msgs, msgs_of. destruct (fence_match (af h') (h_detect h') (cf h')); [|reflexivity].
    rewrite map_map. cbn [snd]. apply map_id.
  - cbn. destruct (existsb _ _); reflexivity.
Qed.

Theorem sink_delivery r cl cf af h :
  reg_inv r -> NoDup (map h_name cl) -> (forall x, In x cl -> In x (hooks r)) -> In h (hooks r) ->
  (if h_chan h then channel_delivery cl cf af (h_name h) else webhook_delivery cl cf af (h_name h)) =
  if existsb (fun x => bytes_eqb (h_name x) (h_name h)) cl
  then msgs_of (fence_match (af h) (h_detect h) (cf h)) else [].
Proof.
  intros Hi Hnd Hsub Hin.
  (* the only hook of that name that can be among the candidates is h itself *)
  assert (Huniq : forall x, In x cl -> h_name x = h_name h -> x = h).
  { intros x Hx Hn. apply (names_unique (hooks r)); auto. apply Hi. }
  assert (Hsel : forall sel, sel h = true ->
            tagged_for (h_name h) (sort_msgs (flat_map (hook_msgs cf af) (filter sel cl))) =
            if existsb (fun x => bytes_eqb (h_name x) (h_name h)) cl
            then msgs_of (fence_match (af h) (h_detect h) (cf h)) else []).
  { intros sel Hs. rewrite (delivery_select sel cl cf af h Hnd Hs).
    destruct (existsb (fun x => bytes_eqb (h_name x) (h_name h)) cl) eqn:Ex.
    - apply existsb_exists in Ex. destruct Ex as (x & Hx & Hn). apply bytes_eqb_eq in Hn.
      pose proof (Huniq x Hx Hn) as ->.
      assert (Hf : In h (filter sel cl)) by (apply filter_In; auto).
      assert (Hex : existsb (fun x => bytes_eqb (h_name x) (h_name h)) (filter sel cl) = true).
      { apply existsb_exists. exists h. split; [assumption|apply bytes_eqb_refl]. }
      rewrite Hex, (find_named_unique (h_name h) (filter sel cl) h (NoDup_names_filter sel cl Hnd) Hf eq_refl).
      reflexivity.
    - assert (Hex : existsb (fun x => bytes_eqb (h_name x) (h_name h)) (filter sel cl) = false).
      { apply not_true_is_false. intro Ht. apply existsb_exists in Ht. destruct Ht as (x & Hx & Hn).
        apply filter_In in Hx. assert (existsb (fun x => bytes_eqb (h_name x) (h_name h)) cl = true)
          by (apply existsb_exists; exists x; tauto). congruence. }
      rewrite Hex. reflexivity. }
  unfold channel_delivery, webhook_delivery, queue_hooks. cbn [fst snd].
  destruct (h_chan h) eqn:Ec.
  - apply (Hsel h_chan Ec).
  - apply (Hsel (fun x => negb (h_chan x))). now rewrite Ec.
Qed.

(* ---------- same for all sinks ---------- *)

(* a webhook hw, a channel hc and a live connection with the same fence definition (key k, DETECT
   D, area a), for one SET / FSET (or other object-carrying write) on that key whose abstract case
   for that definition is x with COMMANDS verdict acc: all three receive msgs_of (fence_match acc D x).
   cl is any duplicate-free enumeration of getQueueCandidates' result. *)
Theorem same_for_all_sinks r cl cf af hw hc k D a x acc old_r new_r :
  reg_inv r ->
  NoDup (map h_name cl) -> (forall h, In h cl <-> In h (candidates r k old_r new_r)) ->
  In hw (hooks r) -> In hc (hooks r) -> h_chan hw = false -> h_chan hc = true ->
  h_key hw = k -> h_key hc = k -> h_detect hw = D -> h_detect hc = D ->
  h_area hw = Some a -> h_area hc = Some a ->
  cf hw = x -> cf hc = x -> af hw = acc -> af hc = acc ->
  is_move (c_cmd x) = true ->
  (sp_of (c_obj x) = true -> exists r2, new_r = Some r2 /\ overlaps a r2 = true) ->
  (sp_of (c_old x) = true -> exists r1, old_r = Some r1 /\ overlaps a r1 = true) ->
  (c_cross x = true -> is_some (c_old x) = true -> is_some (c_obj x) = true ->
     exists r1 r2, old_r = Some r1 /\ new_r = Some r2 /\ overlaps a (hull r1 r2) = true) ->
  webhook_delivery cl cf af (h_name hw) = msgs_of (fence_match acc D x) /\
  channel_delivery cl cf af (h_name hc) = msgs_of (fence_match acc D x) /\
  live_delivery k k acc D x = msgs_of (fence_match acc D x).
Proof.
  intros Hi Hnd Hcl Hw Hc Cw Cc Kw Kc Dw Dc Aw Ac Xw Xc Fw Fc Hm Hnew Hold Hcr.
  assert (Hsub : forall h, In h cl -> In h (hooks r)).
  { intros h Hh. apply Hcl in Hh. apply (candidates_local r k old_r new_r h Hi) in Hh. tauto. }
  assert (Hone : forall h, In h (hooks r) -> h_key h = k -> h_detect h = D -> h_area h = Some a ->
            cf h = x -> af h = acc ->
            (if existsb (fun y => bytes_eqb (h_name y) (h_name h)) cl
             then msgs_of (fence_match (af h) (h_detect h) (cf h)) else []) = msgs_of (fence_match acc D x)).
  { intros h Hh Kh Dh Ah Xh Fh. rewrite Xh, Fh, Dh.
    destruct (existsb (fun y => bytes_eqb (h_name y) (h_name h)) cl) eqn:Ex; [reflexivity|].
    (* not a candidate: then fence_match yields nothing anyway *)
    destruct (fence_match acc D x) as [l|] eqn:Ef; [|reflexivity]. cbn [msgs_of].
    destruct l as [|m l]; [reflexivity|]. exfalso.
    assert (Hcand : In h (candidates r k old_r new_r)).
    { apply (candidates_complete r k h a x acc (m :: l) old_r new_r); auto; try congruence.
      all: try (rewrite Dh; exact Ef). }
    apply Hcl in Hcand.
    assert (existsb (fun y => bytes_eqb (h_name y) (h_name h)) cl = true)
      by (apply existsb_exists; exists h; split; [assumption|apply bytes_eqb_refl]).
    congruence. }
  split; [|split].
  - pose proof (sink_delivery r cl cf af hw Hi Hnd Hsub Hw) as H. rewrite Cw in H. rewrite H.
    apply Hone; auto.
  - pose proof (sink_delivery r cl cf af hc Hi Hnd Hsub Hc) as H. rewrite Cc in H. rewrite H.
    apply Hone; auto.
  - unfold live_delivery. rewrite bytes_eqb_refl. reflexivity.
Qed.

(* the documented difference: for a delete, hooks are gated by candidate selection, a live
   connection is not - a default-less fence (DETECT without "outside") whose area the deleted object
   was not in gets no del as a hook, but does as a live connection *)
Theorem del_gate_difference r cl cf af h k x robj :
  reg_inv r -> NoDup (map h_name cl) -> (forall y, In y cl <-> In y (candidates r k None (Some robj))) ->
  In h (hooks r) -> h_key h = k -> cf h = x -> af h = true ->
  c_cmd x = CDel -> guard_fails x = false ->
  cand_cond h None (Some robj) = false ->
  (if h_chan h then channel_delivery cl cf af (h_name h) else webhook_delivery cl cf af (h_name h)) = [] /\
  live_delivery k k true (h_detect h) x = [FDel].
Proof.
  intros Hi Hnd Hcl Hin Hk Hx Ha Hc Hg Hcond.
  assert (Hsub : forall y, In y cl -> In y (hooks r)).
  { intros y Hy. apply Hcl in Hy. apply (candidates_local r k None (Some robj) y Hi) in Hy. tauto. }
  split.
  - rewrite (sink_delivery r cl cf af h Hi Hnd Hsub Hin).
    destruct (existsb (fun y => bytes_eqb (h_name y) (h_name h)) cl) eqn:Ex; [|reflexivity].
    exfalso. apply existsb_exists in Ex. destruct Ex as (y & Hy & Hn). apply bytes_eqb_eq in Hn.
    assert (y = h) by (apply (names_unique (hooks r)); auto; apply Hi). subst y.
    apply Hcl in Hy. apply (candidates_local r k None (Some robj) h Hi) in Hy. destruct Hy as (_ & _ & Hy). congruence.
  - unfold live_delivery. rewrite bytes_eqb_refl.
    rewrite (proj2 (proj2 (proj2 (fence_guards (h_detect h) x true))) eq_refl Hc Hg). reflexivity.
Qed.
