(* C03, replay errors, instantiated with the keyspace model of C01 and with commandErrIsFatal as
   regenerated from the source (Gen/ReplayTol.v via Model.ReplayTol.fatal_msg).

   [ks_exec3 O e] = Proofs/KsReplay.ks_exec plus the error s.command returns: the Go error text of the
   handler (RErr before writeErr's rendering), or the rendered text when the command line is refused
   before a handler runs (gates, parse errors). Frozen environment e, as in Proofs/KsReplay.v.

   Result: a command that was logged in SOME state returns in EVERY state either no error or one of
   "key not found" / "id not found" / "key has hooks set" / "key has channels set", all of which the
   current commandErrIsFatal tolerates — EXCEPT for JSET and JDEL, whose sjson / re-parse errors
   depend on the JSON text of the object they find (refuted below: jset_as_sent_replay_error_fatal).
   That is why writeAOF does not put JSET / JDEL into the shrink log as sent but as a SET of the
   resulting document (repair 2097490 of C09); [json_records_rewritten] ties the set of rewritten
   command names (regenerated from writeAOF) to the requests excluded here. *)
From Coq Require Import String.
From Coq Require Import ZifyN ZifyNat ZifyBool Lia.
From T38 Require Import Base.Bytes Base.SMap Model.Field Model.Object Model.Glob Model.Spec Model.Keyspace
  Proofs.KsField Proofs.KsInv Proofs.KsRefine Proofs.KsProgram Proofs.KsReplay.
From T38 Require Import Gen.ReplayTol Model.ReplayTol Proofs.ReplayTolProofs.
From T38 Require Model.Replay.

(* ---------- the four tolerated texts, on the regenerated table ----------
   These are the obligations that break when commandErrIsFatal stops tolerating one of them. *)
Lemma tol_key_not_found : fatal_msg err_key_not_found = false.
Proof. vm_compute. reflexivity. Qed.
Lemma tol_id_not_found : fatal_msg err_id_not_found = false.
Proof. vm_compute. reflexivity. Qed.
Lemma tol_key_has_hooks : fatal_msg err_key_has_hooks = false.
Proof. vm_compute. reflexivity. Qed.
Lemma tol_key_has_chans : fatal_msg err_key_has_chans = false.
Proof. vm_compute. reflexivity. Qed.

(* the model's error constants are the texts of the Go sentinels of the same name, and loadAOF decides
   with commandErrIsFatal alone *)
Lemma table_tied :
  In ("errKeyNotFound", "key not found", false) replay_err_table /\ bs "key not found" = err_key_not_found /\
  In ("errIDNotFound", "id not found", false) replay_err_table /\ bs "id not found" = err_id_not_found /\
  In ("errKeyHasHooksSet", "key has hooks set", false) replay_err_table /\ bs "key has hooks set" = err_key_has_hooks /\
  In ("errKeyHasChannelsSet", "key has channels set", false) replay_err_table /\
  bs "key has channels set" = err_key_has_chans /\
  replay_err_other_fatal = true /\ load_consults_table = true.
Proof. vm_compute. intuition. Qed.

Definition err_of (r : reply) : option bytes := match r with RErr m => Some m | _ => None end.

Definition tol (o : option bytes) : Prop := match o with Some m => fatal_msg m = false | None => True end.

Definition req_json (q : req) : bool :=
  match q with QJset _ _ _ _ _ | QJdel _ _ _ => true | _ => false end.

Section KsReplayTol.
Variable O : oracle.

Lemma obj_reply_noerr o wf kind prec : err_of (obj_reply O o wf kind prec) = None.
Proof.
  unfold obj_reply, object_reply, geo_reply, bounds_reply.
  destruct wf; [reflexivity|].
  destruct (kind =? RK_POINT)%N; [reflexivity|].
  destruct (kind =? RK_BOUNDS)%N; [|destruct (kind =? RK_HASH)%N; reflexivity].
  destruct (o_bounds O (o_geo o)) as [|a [|b [|c [|d [|x l]]]]]; reflexivity.
Qed.

Lemma hook_guard_tol e key nk m : hook_guard e key nk = Some m -> fatal_msg m = false.
Proof.
  unfold hook_guard. intros H.
  destruct (existsb _ _); [inversion H; subst; apply tol_key_has_hooks|].
  destruct (existsb _ _); [inversion H; subst; apply tol_key_has_chans|discriminate].
Qed.

(* a handler of the write arm other than JSET / JDEL: whatever the state and the environment, it does
   not panic and the only errors it returns are tolerated ones *)
Lemma write_req_errors_tolerated e s q :
  req_writes q = true -> req_json q = false ->
  exists s1 r1 u1, run_req O true e s q = Some (s1, r1, u1) /\ tol (err_of r1).
Proof.
  intros Hw Hj.
  destruct q as [key id fields ex nx xx rs g|key id xx rs fields|key id erron404|key pat|key|nx key newkey| |key id ex|key id
                 |key id path val raw|key id path|key id wf kind prec|key id fname|key id|key id fname|key id|key|pat|key cursor limit globs desc out nofields|key id path raw];
    try discriminate; cbn [run_req].
  - (* SET *)
    unfold cmd_set.
    destruct (match get key s with Some c => Some (c, s) | None => if xx then None else Some ([], set key [] s) end)
      as [[c s1]|]; [|do 3 eexists; split; [reflexivity|exact I]].
    destruct ((xx || nx) && match get id c with None => xx | Some _ => nx end);
      [do 3 eexists; split; [reflexivity|exact I]|].
    do 3 eexists; split; [reflexivity|].
    destruct (rs_ret rs); [rewrite obj_reply_noerr|]; exact I.
  - (* FSET *)
    unfold cmd_fset. destruct (get key s) as [c|]; [|do 3 eexists; split; [reflexivity|apply tol_key_not_found]].
    destruct (get id c) as [o|].
    + destruct (fold_left (fset_step O) fields (o_fields o, 0%Z)) as [ofields n].
      do 3 eexists; split; [reflexivity|].
      destruct (rs_ret rs); [rewrite obj_reply_noerr|]; exact I.
    + destruct xx; cbn [negb].
      * rewrite Bool.andb_false_r. do 3 eexists; split; [reflexivity|exact I].
      * do 3 eexists; split; [reflexivity|apply tol_id_not_found].
  - (* DEL *)
    unfold cmd_del. destruct (get key s) as [c|]; [destruct (get id c)|]; try destruct erron404;
      do 3 eexists; (split; [reflexivity|]); try exact I; [apply tol_id_not_found|apply tol_key_not_found].
  - (* PDEL *)
    unfold cmd_pdel. destruct (get key s); do 3 eexists; (split; [reflexivity|exact I]).
  - (* DROP *)
    unfold cmd_drop. destruct (get key s); do 3 eexists; (split; [reflexivity|exact I]).
  - (* RENAME *)
    unfold cmd_rename. destruct (get key s) as [c|]; [|do 3 eexists; split; [reflexivity|apply tol_key_not_found]].
    destruct (hook_guard e key newkey) as [m|] eqn:Eh;
      [do 3 eexists; split; [reflexivity|exact (hook_guard_tol _ _ _ _ Eh)]|].
    destruct (match get newkey s with None => (s, true) | Some _ => if negb nx then (del newkey s, true) else (s, false) end)
      as [s1 updated].
    do 3 eexists; split; [reflexivity|]. destruct (negb nx); [exact I|]. destruct updated; exact I.
  - (* FLUSHDB *)
    do 3 eexists; split; [reflexivity|exact I].
  - (* EXPIRE *)
    unfold cmd_expire. destruct (get key s) as [c|]; [destruct (get id c)|]; do 3 eexists; (split; [reflexivity|exact I]).
  - (* PERSIST *)
    unfold cmd_persist. destruct (get key s) as [c|]; [destruct (get id c) as [o|]|]; try destruct (negb (o_ex o =? 0)%Z);
      do 3 eexists; (split; [reflexivity|exact I]).
Qed.

(* only the command names jset / jdel lead to a JSET / JDEL request *)
Ltac not_json H Hj :=
  repeat match type of H with context [match ?x with _ => _ end] => destruct x end;
  try discriminate; inversion H; subst; cbn in Hj; discriminate.

Lemma json_req_names e c args q :
  parse_cmd O e c args = PReq q -> req_json q = true -> c = c_jset \/ c = c_jdel.
Proof.
  unfold parse_cmd.
  destruct (bytes_eqb c c_set) eqn:E1; [intros H Hj; exfalso; unfold parse_set in H; not_json H Hj|].
  destruct (bytes_eqb c c_fset) eqn:E2; [intros H Hj; exfalso; unfold parse_fset in H; not_json H Hj|].
  destruct (bytes_eqb c c_del) eqn:E3; [intros H Hj; exfalso; unfold parse_del in H; not_json H Hj|].
  destruct (bytes_eqb c c_pdel) eqn:E4; [intros H Hj; exfalso; not_json H Hj|].
  destruct (bytes_eqb c c_drop) eqn:E5; [intros H Hj; exfalso; not_json H Hj|].
  destruct (bytes_eqb c c_rename) eqn:E6; [intros H Hj; exfalso; not_json H Hj|].
  destruct (bytes_eqb c c_renamenx) eqn:E7; [intros H Hj; exfalso; not_json H Hj|].
  destruct (bytes_eqb c c_flushdb) eqn:E8; [intros H Hj; exfalso; not_json H Hj|].
  destruct (bytes_eqb c c_expire) eqn:E9; [intros H Hj; exfalso; unfold parse_expire in H; not_json H Hj|].
  destruct (bytes_eqb c c_persist) eqn:E10; [intros H Hj; exfalso; not_json H Hj|].
  destruct (bytes_eqb c c_jset) eqn:E11; [apply bytes_eqb_eq in E11; intros; left; exact E11|].
  destruct (bytes_eqb c c_jdel) eqn:E12; [apply bytes_eqb_eq in E12; intros; right; exact E12|].
  destruct (bytes_eqb c c_get) eqn:E13; [intros H Hj; exfalso; unfold parse_get in H; not_json H Hj|].
  destruct (bytes_eqb c c_fget) eqn:E14; [intros H Hj; exfalso; not_json H Hj|].
  destruct (bytes_eqb c c_exists) eqn:E15; [intros H Hj; exfalso; not_json H Hj|].
  destruct (bytes_eqb c c_fexists) eqn:E16; [intros H Hj; exfalso; not_json H Hj|].
  destruct (bytes_eqb c c_ttl) eqn:E17; [intros H Hj; exfalso; not_json H Hj|].
  destruct (bytes_eqb c c_type) eqn:E18; [intros H Hj; exfalso; not_json H Hj|].
  destruct (bytes_eqb c c_keys) eqn:E19; [intros H Hj; exfalso; not_json H Hj|].
  destruct (bytes_eqb c c_scan) eqn:E20; [intros H Hj; exfalso; unfold parse_scan in H; not_json H Hj|].
  destruct (bytes_eqb c c_jget) eqn:E21; [intros H Hj; exfalso; unfold parse_jget in H; not_json H Hj|].
  discriminate.
Qed.

(* the shrink log carries a SET of the resulting document instead of the command as sent for (at
   least) every command name that leads to a JSET / JDEL request: the tail of a rewritten file holds
   no JSET / JDEL record *)
Definition rewritten_name (cn : bytes) : bool := existsb (fun n => bytes_eqb (bs n) cn) shrinklog_as_set.

Lemma json_records_rewritten e args cn w q :
  dispatch O e args = DReq cn w q -> req_json q = true -> rewritten_name cn = true.
Proof.
  unfold dispatch. destruct args as [|a0 rest]; [discriminate|].
  set (c0 := lower a0).
  destruct (match arm_of c0 with
            | ArmWrite => if e_follower e then Some msg_not_leader else if e_readonly e then Some msg_read_only else None
            | ArmRead => if e_follower e && negb (e_caughtup e) then Some msg_catching_up else None
            | ArmOther => None
            end); [discriminate|].
  destruct (parse_cmd O e c0 (a0 :: rest)) as [q0| | |] eqn:Ep; try discriminate.
  intros H Hj. inversion H; subst.
  destruct (json_req_names e c0 (a0 :: rest) q Ep Hj) as [Hn|Hn]; rewrite Hn; vm_compute; reflexivity.
Qed.

(* ---------- the instance of Model/ReplayTol.v ---------- *)

Definition ks_err (e : env) (s : state) (args : list bytes) : option bytes :=
  match dispatch O e args with
  | DOut r => err_of r
  | DReq _ _ q =>
      match run_req O true e s q with
      | Some (_, r, _) => err_of r
      | None => None
      end
  end.

Definition ks_exec3 (e : env) (s : state) (args : list bytes) : state * bool * option bytes :=
  (ks_exec O e s args, ks_err e s args).

(* the command line is not a JSET / JDEL *)
Definition plain_cmd (e : env) (args : list bytes) : Prop :=
  match dispatch O e args with DReq _ _ q => req_json q = false | DOut _ => True end.

Notation klogged e := (logged state bytes (ks_exec3 e) inv).
Notation kload e := (load state bytes (ks_exec3 e) fatal_msg).
Notation kharmless := (harmless bytes fatal_msg).

(* A command that some state logged — so it got past the gates and the parser, and its handler is a
   write handler — returns in every other state no error or a tolerated one. *)
Theorem ks_logged_errors_tolerated e c :
  klogged e c -> plain_cmd e c -> forall s', kharmless (xerr state bytes (ks_exec3 e) s' c) = true.
Proof.
  intros [s [Hi Hu]] Hp s'.
  unfold xupd, ks_exec3, ks_exec, exec in Hu. cbn [fst snd] in Hu.
  unfold xerr, ks_exec3, ks_err. cbn [snd]. unfold plain_cmd in Hp.
  destruct (dispatch O e c) as [cn w q|r0] eqn:Ed.
  - destruct (run_req O true e s q) as [[[s1 r1] u1]|] eqn:Er; [|discriminate].
    cbn [fst snd] in Hu.
    assert (Hu1 : u1 = true) by (destruct w, u1; cbn in Hu; try discriminate; reflexivity).
    subst u1. pose proof (updated_is_write O e s q s1 r1 Er) as Hw.
    destruct (write_req_errors_tolerated e s' q Hw Hp) as [s2 [r2 [u2 [E2 Ht]]]].
    rewrite E2. unfold tol in Ht. unfold harmless. destruct (err_of r2) as [m|]; [rewrite Ht|]; reflexivity.
  - cbn in Hu. discriminate.
Qed.

Lemma ks3_good_step e s c : inv s -> inv (xstate state bytes (ks_exec3 e) s c).
Proof. intros Hi. unfold xstate, ks_exec3. cbn [fst]. apply ks_inv. exact Hi. Qed.

(* start-up never stops on a list of records each of which a live server can have written (JSET /
   JDEL records excepted), in whatever order they come and from whatever state *)
Theorem ks_load_total e l :
  Forall (fun c => klogged e c /\ plain_cmd e c) l ->
  forall s0, inv s0 -> kload e l s0 = inl (apply_all state bytes (ks_exec3 e) l s0).
Proof.
  induction 1 as [|c l [Hc Hp] Hl IH]; intros s0 Hg; [reflexivity|].
  cbn [load apply_all fold_left].
  pose proof (ks_logged_errors_tolerated e c Hc Hp s0) as Hh. unfold harmless in Hh.
  destruct (xerr state bytes (ks_exec3 e) s0 c) as [x|].
  - destruct (fatal_msg x); [discriminate|]. apply IH. apply ks3_good_step; exact Hg.
  - apply IH. apply ks3_good_step; exact Hg.
Qed.

Lemma ks_exec2 e : exec2 state bytes (ks_exec3 e) = ks_exec O e.
Proof. reflexivity. Qed.

Lemma ks_logof_logged e p : forall s0, inv s0 -> Forall (klogged e) (Replay.logof state (ks_exec O e) p s0).
Proof.
  intros s0 Hi.
  exact (logof_logged state bytes (ks_exec3 e) inv (ks3_good_step e) p s0 Hi).
Qed.

(* the rewritten log: a snapshot followed by the log of the commands accepted from the state smid the
   server was in when the rewrite started — replayed from the empty database — never stops. *)
Theorem ks_load_shrunk_total e snap p smid :
  Forall (fun c => klogged e c /\ plain_cmd e c) snap -> inv smid ->
  Forall (plain_cmd e) (Replay.logof state (ks_exec O e) p smid) ->
  kload e (snap ++ Replay.logof state (ks_exec O e) p smid) [] =
  inl (Replay.replay state (ks_exec O e) (snap ++ Replay.logof state (ks_exec O e) p smid) []).
Proof.
  intros Hs Hm Hp.
  rewrite ks_load_total; [| |apply inv_nil].
  - rewrite (apply_all_replay state bytes (ks_exec3 e)). reflexivity.
  - apply Forall_app. split; [exact Hs|].
    pose proof (ks_logof_logged e p smid Hm) as Hl.
    rewrite Forall_forall in *. intros c Hc. split; [apply Hl; exact Hc | apply Hp; exact Hc].
Qed.

End KsReplayTol.

(* ---------- why "id not found" and "key not found" must be tolerated: the witnesses ----------
   Live: SET k a, SET k b; AOFSHRINK starts; `DEL k a ERRON404` (resp. `FSET k a speed 1`, `DEL k a`)
   is acknowledged before the rewrite copies collection k. The new file is the snapshot of k without a
   followed by the commands accepted meanwhile. For ANY classification that calls the text
   "id not found" fatal the load of that file stops. *)
Definition w_DEL : bytes := Eval compute in bs "DEL".
Definition w_ERRON404 : bytes := Eval compute in bs "ERRON404".
Definition w_DROP : bytes := Eval compute in bs "DROP".
Definition c_set_a : list bytes := [kw_SET; w_k; w_a; w_STRING; w_speed].
Definition c_set_b : list bytes := [kw_SET; w_k; w_b; w_STRING; w_speed].
Definition c_del404 : list bytes := [w_DEL; w_k; w_a; w_ERRON404].
Definition c_fset : list bytes := [w_FSET; w_k; w_a; w_speed; w_1].
Definition c_del : list bytes := [w_DEL; w_k; w_a].
Definition c_drop : list bytes := [w_DROP; w_k].

Definition te := toy_env 5.
Notation tload fatal := (load state bytes (ks_exec3 toy_oracle te) fatal).

(* the state when the rewrite starts *)
Definition s_before : state := Replay.run state (ks_exec toy_oracle te) [c_set_a; c_set_b] [].

Lemma id_not_found_needed (fatal : bytes -> bool) :
  fatal err_id_not_found = true ->
  (* every record of the file was accepted by the live server: the tail in program order from s_before *)
  Replay.logof state (ks_exec toy_oracle te) [c_del404] s_before = [c_del404] /\
  Replay.logof state (ks_exec toy_oracle te) [c_fset; c_del] s_before = [c_fset; c_del] /\
  (* snapshot taken after them = [SET k b]; the files  snapshot ++ tail  do not load *)
  tload fatal ([c_set_b] ++ [c_del404]) [] = inr err_id_not_found /\
  tload fatal ([c_set_b] ++ [c_fset; c_del]) [] = inr err_id_not_found.
Proof.
  intros Hf. split; [vm_compute; reflexivity|]. split; [vm_compute; reflexivity|]. split.
  - apply (load_stops state bytes (ks_exec3 toy_oracle te) fatal [c_set_b] c_del404 []
             [] (Replay.run state (ks_exec toy_oracle te) [c_set_b] []) err_id_not_found).
    + cbn [load]. replace (xerr state bytes (ks_exec3 toy_oracle te) [] c_set_b) with (@None bytes) by (vm_compute; reflexivity).
      reflexivity.
    + vm_compute. reflexivity.
    + exact Hf.
  - apply (load_stops state bytes (ks_exec3 toy_oracle te) fatal [c_set_b] c_fset [c_del]
             [] (Replay.run state (ks_exec toy_oracle te) [c_set_b] []) err_id_not_found).
    + cbn [load]. replace (xerr state bytes (ks_exec3 toy_oracle te) [] c_set_b) with (@None bytes) by (vm_compute; reflexivity).
      reflexivity.
    + vm_compute. reflexivity.
    + exact Hf.
Qed.

(* the same for "key not found": DEL k a ERRON404 then DROP k (or the last object deleted) while the
   rewrite is parked; the snapshot has no collection k *)
Lemma key_not_found_needed (fatal : bytes -> bool) :
  fatal err_key_not_found = true ->
  Replay.logof state (ks_exec toy_oracle te) [c_del404; c_drop] s_before = [c_del404; c_drop] /\
  tload fatal ([] ++ [c_del404; c_drop]) [] = inr err_key_not_found.
Proof.
  intros Hf. split; [vm_compute; reflexivity|].
  apply (load_stops state bytes (ks_exec3 toy_oracle te) fatal [] c_del404 [c_drop] [] [] err_key_not_found).
  - reflexivity.
  - vm_compute. reflexivity.
  - exact Hf.
Qed.

(* with the table of the current source both files load, and to the acknowledged state (k = {b}) *)
Lemma witnesses_load_now :
  tload fatal_msg ([c_set_b] ++ [c_del404]) [] = inl (Replay.run state (ks_exec toy_oracle te) [c_del404] s_before) /\
  tload fatal_msg ([c_set_b] ++ [c_fset; c_del]) [] = inl (Replay.run state (ks_exec toy_oracle te) [c_fset; c_del] s_before).
Proof. split; vm_compute; reflexivity. Qed.

(* ---------- JSET / JDEL records AS SENT would not do: the obligation is false for them ----------
   (This is the log the tree wrote before repair 2097490; with the rewriting of writeAOF the tail is
   [SET k a STRING {"speed":1}; SET k a STRING [1]], which loads.)
   sjson refuses a non-numeric path on a JSON array ("cannot set array element for non-numeric key").
   Live: no object k/a; AOFSHRINK starts; `JSET k a speed 1` is accepted (creates {"speed":1}); then
   `SET k a STRING [1]` is accepted; the rewrite copies k: snapshot = SET k a STRING [1]; the file is
   snapshot ++ [JSET; SET]. On replay JSET finds the array and returns sjson's error, which is none of
   the sentinels: fatal, the server does not start. *)
Definition w_JSETc : bytes := Eval compute in bs "JSET".
Definition w_arr : bytes := Eval compute in bs "[1]".
Definition err_sjson_array : bytes := Eval compute in bs "cannot set array element for non-numeric key 'speed'".
(* toy_oracle with an sjson.Set that refuses a text starting with '[' *)
Definition arr_oracle : oracle :=
  mkOracle toy_foracle (fun _ => true) (fun _ => 1000000000%Z) (fun _ => None) (fun _ => None) (fun s => s)
           (fun k args => GOk (mkGeo false (concat args))) (fun _ => []) (fun _ => []) (fun _ _ => [])
           (fun _ j _ v => match j with 91%N :: _ => OErr err_sjson_array | _ => OOk (j ++ v)%list end)
           (fun j _ => OOk j) (fun _ _ _ => None).
Definition c_jset : list bytes := [w_JSETc; w_k; w_a; w_speed; w_1].
Definition c_set_arr : list bytes := [kw_SET; w_k; w_a; w_STRING; w_arr].

Lemma jset_as_sent_replay_error_fatal :
  (* both commands are accepted by the live server, in this order, from the empty database *)
  Replay.logof state (ks_exec arr_oracle te) [c_jset; c_set_arr] [] = [c_jset; c_set_arr] /\
  (* the snapshot of the state they lead to is accepted as well *)
  Replay.logof state (ks_exec arr_oracle te) [c_set_arr] [] = [c_set_arr] /\
  (* the rewritten file does not load with the current table *)
  load state bytes (ks_exec3 arr_oracle te) fatal_msg ([c_set_arr] ++ [c_jset; c_set_arr]) [] = inr err_sjson_array.
Proof. split; [|split]; vm_compute; reflexivity. Qed.
