(* Proofs/CollectionBounds.v — what Bounds guarantees (C19), and the F12 refutation. *)
From Coq Require Import ZifyN ZifyNat ZifyBool.
From T38 Require Import Base.Bytes Model.Float32 Model.Collection Proofs.CollectionProofs.
Import ListNotations.
Local Open Scope Z_scope.
Arguments down : simpl never.
Arguments up : simpl never.
Arguments rtree_rect : simpl never.
Arguments lt32 : simpl never.

(* ------------------------------------------------------------------ *)
(* Bounds                                                               *)
Definition retr_spatial (c : coll) (o : obj) : Prop :=
  cget c (o_id o) = Some o /\ o_spatial o = true /\ o_empty o = false.

Lemma retr_spatial_entry c : Wf c -> forall o, retr_spatial c o <-> In (rtree_item o) (c_spatial c).
Proof.
  intros W o. rewrite (wf_spatial c W). cbn. unfold retr_spatial, in_spatial.
  rewrite (retrievable_iff c W). split.
  - intros (H1 & H2 & H3). rewrite H2, H3. auto.
  - intros (H1 & H2 & _). apply andb_true_iff in H2. destruct H2 as [H2 H3].
    destruct (o_empty o); try discriminate. auto.
Qed.

Lemma bounds_min_side c sel32 sel64 v : Wf c ->
  bounds_side_ok is_min32 sel32 sel64 (c_spatial c) v = true ->
  exists o, retr_spatial c o /\ f64_same (sel64 (o_rect o)) v = true /\
    forall o', retr_spatial c o' ->
      lt32 (sel32 (rtree_rect (o_rect o'))) (sel32 (rtree_rect (o_rect o))) = false.
Proof.
  intros W H. unfold bounds_side_ok in H. apply existsb_exists in H. destruct H as [e [He H]].
  apply andb_true_iff in H. destruct H as [Hmin Hsame].
  pose proof (proj1 (wf_spatial c W e) He) as (Ho & Hs & Hitem).
  exists (snd e). split; [|split; auto].
  - apply (retr_spatial_entry c W). rewrite <- Hitem. exact He.
  - intros o' Ho'. apply (retr_spatial_entry c W) in Ho'.
    unfold is_min32 in Hmin. rewrite forallb_forall in Hmin. specialize (Hmin _ Ho').
    rewrite Hitem in Hmin. cbn in Hmin. destruct (lt32 _ _); auto; discriminate.
Qed.

Lemma bounds_max_side c sel32 sel64 v : Wf c ->
  bounds_side_ok is_max32 sel32 sel64 (c_spatial c) v = true ->
  exists o, retr_spatial c o /\ f64_same (sel64 (o_rect o)) v = true /\
    forall o', retr_spatial c o' ->
      lt32 (sel32 (rtree_rect (o_rect o))) (sel32 (rtree_rect (o_rect o'))) = false.
Proof.
  intros W H. unfold bounds_side_ok in H. apply existsb_exists in H. destruct H as [e [He H]].
  apply andb_true_iff in H. destruct H as [Hmin Hsame].
  pose proof (proj1 (wf_spatial c W e) He) as (Ho & Hs & Hitem).
  exists (snd e). split; [|split; auto].
  - apply (retr_spatial_entry c W). rewrite <- Hitem. exact He.
  - intros o' Ho'. apply (retr_spatial_entry c W) in Ho'.
    unfold is_max32 in Hmin. rewrite forallb_forall in Hmin. specialize (Hmin _ Ho').
    rewrite Hitem in Hmin. cbn in Hmin. destruct (lt32 _ _); auto; discriminate.
Qed.

(* what Bounds does guarantee: every reported side is the exact coordinate of a retrievable,
   spatial, non-empty object whose float32 index key is extreme among all such objects *)
Definition bounds_spec_partial (c : coll) (b : rect64) : Prop :=
  (exists o, retr_spatial c o /\ f64_same (r64_minx (o_rect o)) (r64_minx b) = true /\
     forall o', retr_spatial c o' -> lt32 (down (r64_minx (o_rect o'))) (down (r64_minx (o_rect o))) = false) /\
  (exists o, retr_spatial c o /\ f64_same (r64_miny (o_rect o)) (r64_miny b) = true /\
     forall o', retr_spatial c o' -> lt32 (down (r64_miny (o_rect o'))) (down (r64_miny (o_rect o))) = false) /\
  (exists o, retr_spatial c o /\ f64_same (r64_maxx (o_rect o)) (r64_maxx b) = true /\
     forall o', retr_spatial c o' -> lt32 (up (r64_maxx (o_rect o))) (up (r64_maxx (o_rect o'))) = false) /\
  (exists o, retr_spatial c o /\ f64_same (r64_maxy (o_rect o)) (r64_maxy b) = true /\
     forall o', retr_spatial c o' -> lt32 (up (r64_maxy (o_rect o))) (up (r64_maxy (o_rect o'))) = false).

Lemma bounds_partial c b : Wf c -> c_spatial c <> [] -> bounds_ok c b = true -> bounds_spec_partial c b.
Proof.
  intros W Hne H. unfold bounds_ok in H.
  destruct (c_spatial c) as [|e0 sp0] eqn:E; [congruence|]. rewrite <- E in H.
  apply andb_true_iff in H. destruct H as [H H4].
  apply andb_true_iff in H. destruct H as [H H3].
  apply andb_true_iff in H. destruct H as [H1 H2].
  repeat split.
  - exact (bounds_min_side c r32_minx r64_minx _ W H1).
  - exact (bounds_min_side c r32_miny r64_miny _ W H2).
  - exact (bounds_max_side c r32_maxx r64_maxx _ W H3).
  - exact (bounds_max_side c r32_maxy r64_maxy _ W H4).
Qed.

Lemma bounds_empty c b : c_spatial c = [] -> bounds_ok c b = true ->
  f64_same (r64_minx b) zero64 = true /\ f64_same (r64_miny b) zero64 = true /\
  f64_same (r64_maxx b) zero64 = true /\ f64_same (r64_maxy b) zero64 = true.
Proof.
  intros E H. unfold bounds_ok in H. rewrite E in H.
  repeat (apply andb_true_iff in H; destruct H as [H ?]). auto.
Qed.

(* F12: points at lon 100.000002 (p1) and 100.000001 (p2), lat 1: both longitudes round up to the
   same float32, so the R-tree may return p2 as its right-most entry and BOUNDS then reports
   max lon 100.000001 < 100.000002. *)
Definition f12_p1 : obj := Obj [112; 49]%N true false 1 18 [] 0
  (rect64_of_bits 4636737291495373776 4607182418800017408 4636737291495373776 4607182418800017408).
Definition f12_p2 : obj := Obj [112; 50]%N true false 1 18 [] 0
  (rect64_of_bits 4636737291425005032 4607182418800017408 4636737291425005032 4607182418800017408).
Definition f12_coll : coll := run [OSet f12_p1; OSet f12_p2].

Lemma bounds_exact_refuted :
  exists c b, Wf c /\ bounds_ok c b = true /\ bounds_exact c b = false.
Proof.
  exists f12_coll, (o_rect f12_p2). split; [apply wf_run|]. split; vm_compute; reflexivity.
Qed.

(* non-vacuity of the hypotheses of bounds_partial on that state, with the exact answer *)
Lemma bounds_nonvacuous :
  c_spatial f12_coll <> [] /\
  bounds_ok f12_coll (rect64_of_bits 4636737291425005032 4607182418800017408 4636737291495373776 4607182418800017408) = true /\
  bounds_exact f12_coll (rect64_of_bits 4636737291425005032 4607182418800017408 4636737291495373776 4607182418800017408) = true.
Proof.
  split; [|split].
  - intro H. apply (f_equal (@length _)) in H. vm_compute in H. discriminate.
  - vm_compute. reflexivity.
  - vm_compute. reflexivity.
Qed.
