(* C17 on the keyspace model — lemmas about Model/KsReply.v:
   - an instantiation of a template by [tfill] is an instance ([inst]) of it, hence (regenerated
     templates are all accepted by the checker) one valid JSON document;
   - the document tree printed compactly is exactly that instantiation;
   - the RESP value is well-formed;
   - both replies are projected onto the same conveyed result;
   - the RESP rendering of the step's abstract result is C01's modelled reply. *)
From Coq Require Import String.
From Coq Require Import ZifyN ZifyNat ZifyBool DecimalN DecimalFacts DecimalPos.
From T38 Require Import Base.Bytes Base.Utf8 Base.SMap Model.Field Model.Object Model.Cursor Model.Spec Model.Glob Model.Keyspace.
From T38 Require Import Model.Json Model.Templates Model.KsReply.
From T38 Require Import Proofs.JsonProofs Proofs.JsonTmplProofs Proofs.JsonGenProofs Proofs.JsonRespProofs.
From T38 Require Model.RespOut.
From T38 Require Gen.Templates.
Local Open Scope N_scope.

(* ======================================================================================== *)
(* strconv.Itoa prints an integer text *)

Lemma forallb_digits u : forallb Json.is_digit (RespOut.bytes_of_uint u) = true.
Proof.
  apply forallb_forall. intros c Hc.
  pose proof (uint_digits u) as H. rewrite Forall_forall in H. specialize (H c Hc).
  unfold digit_byte in H. unfold Json.is_digit. lia.
Qed.

Lemma nzhead_nat_text d :
  Decimal.nzhead d = Decimal.Nil \/ is_nat_text (RespOut.bytes_of_uint (Decimal.nzhead d)) = true.
Proof.
  induction d; cbn [Decimal.nzhead]; auto; right; cbn [RespOut.bytes_of_uint is_nat_text];
    rewrite forallb_digits; reflexivity.
Qed.

Lemma unorm_nat_text d : is_nat_text (RespOut.bytes_of_uint (Decimal.unorm d)) = true.
Proof.
  unfold Decimal.unorm. destruct (nzhead_nat_text d) as [E|E].
  - rewrite E. reflexivity.
  - destruct (Decimal.nzhead d); try exact E. discriminate.
Qed.

Lemma print_N_nat_text n : is_nat_text (RespOut.print_N n) = true.
Proof.
  unfold RespOut.print_N.
  rewrite <- (DecimalN.Unsigned.of_to n) at 1. rewrite DecimalN.Unsigned.to_of.
  apply unorm_nat_text.
Qed.

Lemma print_int_text z : is_int_text (RespOut.print_int z) = true.
Proof.
  destruct z as [|p|p]; cbn [RespOut.print_int].
  - reflexivity.
  - pose proof (print_N_nat_text (Npos p)) as H.
    pose proof (print_N_digits (Npos p)) as Hd.
    destruct (RespOut.print_N (Npos p)) as [|c r] eqn:E; [discriminate|].
    inversion Hd as [|? ? Hc _]; subst. unfold digit_byte in Hc.
    cbn [is_int_text]. destruct (N.eqb_spec c 45); [lia | exact H].
  - cbn [is_int_text]. change (45 =? 45) with true. cbn iota. apply print_N_nat_text.
Qed.

(* ======================================================================================== *)
(* an instantiation is an instance *)

Definition fill_ok (f : fill) : Prop :=
  match f with
  | FSafe t => string_safe t = true
  | FJson t => json_value t
  | _ => True
  end.

Lemma rep_fill_inst a :
  (forall fs v r, tfill a fs = Some (v, r) -> Forall fill_ok fs -> inst a v /\ Forall fill_ok r) ->
  forall n fs v r, rep_fill (tfill a) n fs = Some (v, r) -> Forall fill_ok fs -> inst (Star a) v /\ Forall fill_ok r.
Proof.
  intros IHa. induction n as [|n IHn]; intros fs v r H Hok; cbn [rep_fill] in H.
  - inversion H; subst. split; [apply IStar0 | exact Hok].
  - destruct (tfill a fs) as [[x r1]|] eqn:E1; [|discriminate].
    destruct (rep_fill (tfill a) n r1) as [[y r2]|] eqn:E2; [|discriminate].
    inversion H; subst.
    destruct (IHa _ _ _ E1 Hok) as [Hx Hr1].
    destruct (IHn _ _ _ E2 Hr1) as [Hy Hr2].
    split; [apply IStarS; assumption | exact Hr2].
Qed.

Lemma tfill_inst t : forall fs v r,
  tfill t fs = Some (v, r) -> Forall fill_ok fs -> inst t v /\ Forall fill_ok r.
Proof.
  induction t as [s| | | | | | | |a IHa b IHb|a IHa b IHb|a IHa]; intros fs v r H Hok; cbn [tfill] in H.
  - inversion H; subst. split; [apply ILit | exact Hok].
  - destruct fs as [|[] fs']; try discriminate. inversion H; subst. inversion Hok; subst. split; [apply IStr | assumption].
  - destruct fs as [|[] fs']; try discriminate. inversion H; subst. inversion Hok; subst.
    split; [apply IInt, print_int_text | assumption].
  - discriminate.
  - destruct fs as [|[] fs']; try discriminate. inversion H; subst. inversion Hok; subst.
    split; [apply (IBool b) | assumption].
  - destruct fs as [|[] fs']; try discriminate. inversion H; subst. inversion Hok as [|? ? Hf Hr]; subst.
    split; [apply IDur; exact Hf | assumption].
  - destruct fs as [|[] fs']; try discriminate. inversion H; subst. inversion Hok as [|? ? Hf Hr]; subst.
    split; [apply IJson; exact Hf | assumption].
  - destruct fs as [|[] fs']; try discriminate. inversion H; subst. inversion Hok as [|? ? Hf Hr]; subst.
    split; [apply IRaw; exact Hf | assumption].
  - destruct (tfill a fs) as [[x r1]|] eqn:E1; [|discriminate].
    destruct (tfill b r1) as [[y r2]|] eqn:E2; [|discriminate].
    inversion H; subst.
    destruct (IHa _ _ _ E1 Hok) as [Hx Hr1]. destruct (IHb _ _ _ E2 Hr1) as [Hy Hr2].
    split; [apply ISeq; assumption | exact Hr2].
  - destruct fs as [|[] fs']; try discriminate; inversion Hok; subst.
    + destruct (IHa _ _ _ H) as [Hx Hr]; [assumption|]. split; [apply IAltL; exact Hx | exact Hr].
    + destruct (IHb _ _ _ H) as [Hx Hr]; [assumption|]. split; [apply IAltR; exact Hx | exact Hr].
  - destruct fs as [|[] fs']; try discriminate. inversion Hok; subst.
    eapply rep_fill_inst; eauto.
Qed.

Lemma tinst_inst t fs v : tinst t fs = Some v -> Forall fill_ok fs -> inst t v.
Proof.
  unfold tinst. intros H Hok. destruct (tfill t fs) as [[x [|]]|] eqn:E; try discriminate.
  inversion H; subst. exact (proj1 (tfill_inst _ _ _ _ E Hok)).
Qed.

(* ======================================================================================== *)
(* printed values are JSON values *)

Lemma lit_value_null : json_value t_null.
Proof.
  intros q q' Hq. destruct (hole_value_start _ _ Hq) as (st & Hm & ->).
  exists (MAfter, st). split; [|apply sim_refl]. destruct Hm as [ -> | -> ]; reflexivity.
Qed.

Lemma lit_value_true : json_value t_true.
Proof. exact (bool_text_value true). Qed.
Lemma lit_value_false : json_value t_false.
Proof. exact (bool_text_value false). Qed.

Lemma lit_value_zero : json_value str_0.
Proof. apply int_text_value. reflexivity. Qed.

(* the integer part of a number, ending in NZero or NInt *)
Lemma nat_text_run2 v st m :
  (m = MValue \/ m = MArrStart \/ m = MNum NMinus) -> is_nat_text v = true ->
  exists n, jrun v (m, st) = Some (MNum n, st) /\ (n = NZero \/ n = NInt).
Proof.
  intros Hm H. destruct v as [|c r]; [discriminate|].
  assert (Hfirst : (c = 48 /\ r = []) \/ (49 <= c <= 57 /\ forallb Json.is_digit r = true)).
  { cbn [is_nat_text] in H. destruct (N.eqb_spec c 48) as [->|Hn].
    - destruct r; [left; auto|discriminate].
    - right. apply andb_true_iff in H. destruct H as [Hc Hr].
      apply andb_true_iff in Hc. destruct Hc as [H1 H2].
      apply N.leb_le in H1. apply N.leb_le in H2. auto. }
  destruct Hfirst as [[-> ->]|[Hc Hr]].
  - exists NZero. split; [|auto]. destruct Hm as [ -> | [ -> | -> ] ]; reflexivity.
  - exists NInt. split; [|auto]. cbn [jrun].
    assert (Hd : Json.is_digit c = true) by (unfold Json.is_digit; apply andb_true_iff; split; apply N.leb_le; lia).
    assert (E : jstep (m, st) c = Some (MNum NInt, st)).
    { destruct Hm as [ -> | [ -> | -> ] ]; cbn [jstep step_value num_step]; unfold is_ws, step_value;
        repeat match goal with |- context [N.eqb c ?k] => destruct (N.eqb_spec c k); [lia|] end;
        cbn [orb]; rewrite Hd; reflexivity. }
    rewrite E. apply digits_run; exact Hr.
Qed.

Lemma split_dot_app u i f : split_dot u = Some (i, f) -> u = i ++ 46 :: f.
Proof.
  revert i f. induction u as [|c r IH]; intros i f H; cbn [split_dot] in H; [discriminate|].
  unfold DOT in H. destruct (N.eqb_spec c 46) as [->|Hn].
  - inversion H; subst. reflexivity.
  - destruct (split_dot r) as [[j p]|] eqn:E; [|discriminate]. inversion H; subst.
    cbn [app]. f_equal. apply IH. reflexivity.
Qed.

Lemma frac_digits_run r st :
  forallb Json.is_digit r = true -> jrun r (MNum NFrac, st) = Some (MNum NFrac, st).
Proof.
  induction r as [|c r IH]; cbn [forallb jrun]; intros H; [reflexivity|].
  apply andb_true_iff in H. destruct H as [Hc Hr].
  cbn [jstep num_step]. rewrite Hc. apply IH; exact Hr.
Qed.

(* the unsigned part of a FormatFloat text, from a state in which a number may start or continue *)
Lemma dec_body_run u st m :
  (m = MValue \/ m = MArrStart \/ m = MNum NMinus) ->
  match split_dot u with
  | None => is_nat_text u
  | Some (i, f) => is_nat_text i && nonempty f && forallb Json.is_digit f
  end = true ->
  exists n, jrun u (m, st) = Some (MNum n, st) /\ num_terminal n = true.
Proof.
  intros Hm H. destruct (split_dot u) as [[i f]|] eqn:E.
  - apply andb_true_iff in H. destruct H as [H Hf]. apply andb_true_iff in H. destruct H as [Hi Hne].
    rewrite (split_dot_app _ _ _ E).
    destruct (nat_text_run2 i st m Hm Hi) as (n & Hr & Hn).
    exists NFrac. split; [|reflexivity].
    eapply jrun_app_some; [exact Hr|].
    destruct f as [|c f']; [discriminate|]. cbn [forallb] in Hf. apply andb_true_iff in Hf. destruct Hf as [Hc Hf'].
    cbn [jrun].
    assert (E1 : jstep (MNum n, st) 46 = Some (MNum NDot, st)) by (destruct Hn as [ -> | -> ]; reflexivity).
    rewrite E1. cbn [jstep num_step]. rewrite Hc. apply frac_digits_run; exact Hf'.
  - destruct (nat_text_run2 u st m Hm H) as (n & Hr & Hn).
    exists n. split; [exact Hr|]. destruct Hn as [ -> | -> ]; reflexivity.
Qed.

Lemma dec_text_value v : is_dec_text v = true -> json_value v.
Proof.
  intros H q q' Hq. destruct (hole_value_start _ _ Hq) as (st & Hm & ->).
  assert (Hgo : exists n, jrun v q = Some (MNum n, st) /\ num_terminal n = true).
  { unfold is_dec_text in H. destruct v as [|c r].
    - cbn in H. discriminate.
    - destruct (N.eqb_spec c 45) as [->|Hn].
      + destruct (dec_body_run r st (MNum NMinus)) as (n & Hr & Hn); auto.
        exists n. split; [|exact Hn]. cbn [jrun].
        destruct Hm as [ -> | -> ]; cbn [jstep step_value is_ws N.eqb Pos.eqb orb]; exact Hr.
      + destruct Hm as [ -> | -> ]; eapply dec_body_run; eauto. }
  destruct Hgo as (n & Hr & Hn). exists (MNum n, st). split; [exact Hr|].
  right. exists st, n. auto.
Qed.

(* appendJSONFloat: null or the FormatFloat text *)
Lemma jf_value t : float_text t = true -> json_value (jf t).
Proof.
  unfold float_text, jf. destruct (is_nonfinite t); cbn [orb]; intros H.
  - apply lit_value_null.
  - apply dec_text_value; exact H.
Qed.

Lemma marshal_string_run s q k st :
  string_start q = Some (k, st) -> jrun (marshal_string s) q = Some (string_end k st).
Proof.
  intros Hq. unfold marshal_string. cbn [jrun]. rewrite (open_quote _ _ _ Hq).
  eapply jrun_app_some; [apply marshal_body_run; exact I|]. cbn [jrun]. rewrite close_quote. reflexivity.
Qed.

Lemma marshal_string_value s : json_value (marshal_string s).
Proof.
  intros q q' Hq. destruct (hole_value_start _ _ Hq) as (st & Hm & ->).
  exists (MAfter, st). split; [|apply sim_refl].
  rewrite (marshal_string_run s q false st); [reflexivity|].
  destruct Hm as [ -> | -> ]; reflexivity.
Qed.

Lemma raw_string_value s : string_safe s = true -> json_value (34 :: s ++ [34]).
Proof.
  intros Hs q q' Hq. destruct (hole_value_start _ _ Hq) as (st & Hm & ->).
  exists (MAfter, st). split; [|apply sim_refl].
  cbn [jrun]. rewrite (open_quote q false st) by (destruct Hm as [ -> | -> ]; reflexivity).
  eapply jrun_app_some; [apply safe_run, string_safe_Forall; exact Hs|]. reflexivity.
Qed.

(* ======================================================================================== *)
(* a printed document tree is a JSON value *)

Fixpoint jelems (first : bool) (l : list jv) : bytes :=
  match l with
  | [] => []
  | x :: r => (if first then [] else [44]) ++ jprint x ++ jelems false r
  end.

Fixpoint jmembers (first : bool) (m : list (bytes * jv)) : bytes :=
  match m with
  | [] => []
  | p :: r => (if first then [] else [44]) ++ json_string (fst p) ++ 58 :: jprint (snd p) ++ jmembers false r
  end.

Lemma jprint_arr l : jprint (VArr l) = 91 :: jelems true l ++ [93].
Proof. reflexivity. Qed.

Lemma jprint_obj m : jprint (VObj m) = 123 :: jmembers true m ++ [125].
Proof. reflexivity. Qed.

Section JvInd.
Variable P : jv -> Prop.
Hypothesis HStr : forall s, P (VStr s).
Hypothesis HMStr : forall s, P (VMStr s).
Hypothesis HRaw : forall s, P (VRawStr s).
Hypothesis HTok : forall t, P (VTok t).
Hypothesis HArr : forall l, Forall P l -> P (VArr l).
Hypothesis HObj : forall m, Forall (fun p => P (snd p)) m -> P (VObj m).

Fixpoint jv_ind2 (j : jv) : P j :=
  match j with
  | VStr s => HStr s
  | VMStr s => HMStr s
  | VRawStr s => HRaw s
  | VTok t => HTok t
  | VArr l =>
      HArr l ((fix go (l : list jv) : Forall P l :=
                 match l with
                 | [] => Forall_nil _
                 | x :: r => Forall_cons x (jv_ind2 x) (go r)
                 end) l)
  | VObj m =>
      HObj m ((fix go (m : list (bytes * jv)) : Forall (fun p => P (snd p)) m :=
                 match m with
                 | [] => Forall_nil _
                 | p :: r => Forall_cons p (jv_ind2 (snd p)) (go r)
                 end) m)
  end.
End JvInd.

(* what the leaves of a tree must be *)
Fixpoint jv_wf (j : jv) : Prop :=
  match j with
  | VStr _ | VMStr _ => True
  | VRawStr s => string_safe s = true
  | VTok t => json_value t
  | VArr l => (fix all (l : list jv) : Prop := match l with [] => True | x :: r => jv_wf x /\ all r end) l
  | VObj m => (fix all (m : list (bytes * jv)) : Prop := match m with [] => True | p :: r => jv_wf (snd p) /\ all r end) m
  end.

Lemma jv_wf_arr l : jv_wf (VArr l) <-> Forall jv_wf l.
Proof.
  cbn [jv_wf]. induction l as [|x r IH]; [split; auto|].
  split; [intros [Hx Hr]; constructor; [exact Hx | apply IH; exact Hr]
         | intros H; inversion H; subst; split; [assumption | apply IH; assumption]].
Qed.

Lemma jv_wf_obj m : jv_wf (VObj m) <-> Forall (fun p => jv_wf (snd p)) m.
Proof.
  cbn [jv_wf]. induction m as [|x r IH]; [split; auto|].
  split; [intros [Hx Hr]; constructor; [exact Hx | apply IH; exact Hr]
         | intros H; inversion H; subst; split; [assumption | apply IH; assumption]].
Qed.

Lemma sim_exact q qc : (forall st, q <> (MAfter, st)) -> sim q qc -> qc = q.
Proof.
  intros Hq [->|(st & n & -> & _)]; [reflexivity|]. exfalso. apply (Hq st). reflexivity.
Qed.

(* after a completed element: more elements, each led by a comma *)
Lemma jelems_more l : Forall (fun x => json_value (jprint x)) l -> forall st qc,
  sim (MAfter, FArr :: st) qc ->
  exists qc', jrun (jelems false l) qc = Some qc' /\ sim (MAfter, FArr :: st) qc'.
Proof.
  induction 1 as [|x r Hx _ IH]; intros st qc Hs; cbn [jelems].
  - exists qc. split; [reflexivity | exact Hs].
  - assert (E0 : jstep (MAfter, FArr :: st) 44 = Some (MValue, FArr :: st)) by reflexivity.
    destruct (step_sim _ _ _ _ Hs E0) as (q1 & E1 & S1).
    assert (q1 = (MValue, FArr :: st)) by (apply (sim_exact (MValue, FArr :: st)); [intros ?; discriminate | exact S1]). subst q1.
    destruct (Hx (MValue, FArr :: st) (MAfter, FArr :: st) eq_refl) as (q2 & E2 & S2).
    destruct (IH st q2 S2) as (q3 & E3 & S3).
    exists q3. split; [|exact S3].
    cbn [app jrun]. rewrite E1. eapply jrun_app_some; eauto.
Qed.

Lemma jprint_arr_value l : Forall (fun x => json_value (jprint x)) l -> json_value (jprint (VArr l)).
Proof.
  intros Hl q q' Hq. destruct (hole_value_start _ _ Hq) as (st & Hm & ->).
  rewrite jprint_arr. cbn [jrun].
  assert (E0 : jstep q 91 = Some (MArrStart, FArr :: st)) by (destruct Hm as [ -> | -> ]; reflexivity).
  rewrite E0.
  destruct l as [|x r].
  - exists (MAfter, st). split; [reflexivity | apply sim_refl].
  - inversion Hl as [|? ? Hx Hr]; subst. cbn [jelems app].
    destruct (Hx (MArrStart, FArr :: st) (MAfter, FArr :: st) eq_refl) as (q2 & E2 & S2).
    destruct (jelems_more r Hr st q2 S2) as (q3 & E3 & S3).
    assert (E4 : jstep (MAfter, FArr :: st) 93 = Some (MAfter, st)) by reflexivity.
    destruct (step_sim _ _ _ _ S3 E4) as (q4 & E5 & S4).
    exists q4. split; [|exact S4].
    rewrite <- app_assoc. eapply jrun_app_some; [exact E2|].
    eapply jrun_app_some; [exact E3|]. cbn [jrun]. rewrite E5. reflexivity.
Qed.

(* one member from a state in which a member name may start *)
Lemma jmember_run p st q :
  json_value (jprint (snd p)) -> (q = (MObjStart, FObj :: st) \/ q = (MKey, FObj :: st)) ->
  exists qc', jrun (json_string (fst p) ++ 58 :: jprint (snd p)) q = Some qc' /\ sim (MAfter, FObj :: st) qc'.
Proof.
  intros Hv Hq.
  assert (E1 : jrun (json_string (fst p)) q = Some (MColon, FObj :: st)).
  { rewrite (json_string_run (fst p) q true (FObj :: st)); [reflexivity|]. destruct Hq as [ -> | -> ]; reflexivity. }
  destruct (Hv (MValue, FObj :: st) (MAfter, FObj :: st) eq_refl) as (q2 & E2 & S2).
  exists q2. split; [|exact S2].
  eapply jrun_app_some; [exact E1|]. cbn [jrun jstep is_ws N.eqb Pos.eqb orb]. exact E2.
Qed.

Lemma jmembers_more m : Forall (fun p => json_value (jprint (snd p))) m -> forall st qc,
  sim (MAfter, FObj :: st) qc ->
  exists qc', jrun (jmembers false m) qc = Some qc' /\ sim (MAfter, FObj :: st) qc'.
Proof.
  induction 1 as [|p r Hp _ IH]; intros st qc Hs; cbn [jmembers].
  - exists qc. split; [reflexivity | exact Hs].
  - assert (E0 : jstep (MAfter, FObj :: st) 44 = Some (MKey, FObj :: st)) by reflexivity.
    destruct (step_sim _ _ _ _ Hs E0) as (q1 & E1 & S1).
    assert (q1 = (MKey, FObj :: st)) by (apply (sim_exact (MKey, FObj :: st)); [intros ?; discriminate | exact S1]). subst q1.
    destruct (jmember_run p st (MKey, FObj :: st) Hp (or_intror eq_refl)) as (q2 & E2 & S2).
    destruct (IH st q2 S2) as (q3 & E3 & S3).
    exists q3. split; [|exact S3].
    cbn [app jrun]. rewrite E1.
    change (json_string (fst p) ++ 58 :: jprint (snd p) ++ jmembers false r)
      with (json_string (fst p) ++ (58 :: jprint (snd p)) ++ jmembers false r).
    rewrite app_assoc. eapply jrun_app_some; eauto.
Qed.

Lemma jprint_obj_value m : Forall (fun p => json_value (jprint (snd p))) m -> json_value (jprint (VObj m)).
Proof.
  intros Hl q q' Hq. destruct (hole_value_start _ _ Hq) as (st & Hm & ->).
  rewrite jprint_obj. cbn [jrun].
  assert (E0 : jstep q 123 = Some (MObjStart, FObj :: st)) by (destruct Hm as [ -> | -> ]; reflexivity).
  rewrite E0.
  destruct m as [|p r].
  - exists (MAfter, st). split; [reflexivity | apply sim_refl].
  - inversion Hl as [|? ? Hp Hr]; subst. cbn [jmembers app].
    destruct (jmember_run p st (MObjStart, FObj :: st) Hp (or_introl eq_refl)) as (q2 & E2 & S2).
    destruct (jmembers_more r Hr st q2 S2) as (q3 & E3 & S3).
    assert (E4 : jstep (MAfter, FObj :: st) 125 = Some (MAfter, st)) by reflexivity.
    destruct (step_sim _ _ _ _ S3 E4) as (q4 & E5 & S4).
    exists q4. split; [|exact S4].
    change (json_string (fst p) ++ 58 :: jprint (snd p) ++ jmembers false r)
      with (json_string (fst p) ++ (58 :: jprint (snd p)) ++ jmembers false r).
    rewrite app_assoc, <- app_assoc. eapply jrun_app_some; [exact E2|].
    eapply jrun_app_some; [exact E3|]. cbn [jrun]. rewrite E5. reflexivity.
Qed.

Theorem jprint_value : forall j, jv_wf j -> json_value (jprint j).
Proof.
  induction j as [s|s|s|t|l IH|m IH] using jv_ind2; intros Hw.
  - apply json_string_value.
  - apply marshal_string_value.
  - apply raw_string_value. exact Hw.
  - exact Hw.
  - apply jprint_arr_value. apply jv_wf_arr in Hw.
    rewrite Forall_forall in *. intros x Hx. apply IH; auto.
  - apply jprint_obj_value. apply jv_wf_obj in Hw.
    rewrite Forall_forall in *. intros x Hx. apply IH; auto.
Qed.

(* a JSON value on its own is a valid document *)
Lemma json_value_valid v : json_value v -> valid_json v = true.
Proof.
  intros H. destruct (H jstart (MAfter, []) eq_refl) as (qc & R & S).
  unfold valid_json. rewrite R. eapply sim_accepting; eauto.
Qed.

(* ======================================================================================== *)
(* well-formed results: what the libraries behind the opaque texts are trusted to produce *)

(* field.Value: ValueOf / bfield only build these shapes; a Number's data passed gjson.Valid, a JSON
   value's data is pretty.Ugly of a valid document *)
Definition value_wf (v : value) : Prop :=
  if v_kind v =? KNumber then is_nonfinite (v_data v) = true \/ json_value (v_data v)
  else if v_kind v =? KString then True
  else if v_kind v =? KTrue then v_data v = t_true
  else if v_kind v =? KFalse then v_data v = t_false
  else if v_kind v =? KNull then v_data v = t_null
  else if v_kind v =? KJSON then json_value (v_data v)
  else False.

Definition geoview_wf (gv : geoview) : Prop :=
  match gv with
  | GVObject g => g_spatial g = true -> json_value (g_text g)      (* geojson AppendJSON *)
  | GVPoint cs => (length cs = 2 \/ length cs = 3)%nat /\ forallb float_text cs = true   (* strconv.FormatFloat *)
  | GVBounds cs => length cs = 4%nat /\ forallb float_text cs = true
  | GVHash h => string_safe h = true                               (* geohash base 32 *)
  end.

Definition miss_form (rf : reply) : bool :=
  match rf with
  | RNil | RInt _ => true
  | ROk s => RespOut.line_ok s
  | _ => false
  end.

Definition kres_wf (k : kres) : Prop :=
  match k with
  | KErr cmd _ => RespOut.line_ok cmd = true       (* the name of a dispatched command *)
  | KMiss rf _ => miss_form rf = true
  | KObject gv fo =>
      geoview_wf gv /\ match fo with Some fs => Forall (fun f => value_wf (snd f)) fs | None => True end
  | KValue v => value_wf v
  | KType t => RespOut.line_ok t = true
  | _ => True
  end.

(* the function whose template writes the success document *)
Definition handler_ok (h : bytes) (k : kres) : Prop :=
  match k with
  | KOk | KInt _ => is_one_of h plain_handlers = true
  | KExists _ => h = h_exists \/ h = h_fexists
  | _ => True
  end.

Lemma nonfinite_safe t : is_nonfinite t = true -> string_safe t = true.
Proof.
  unfold is_nonfinite. intros H.
  repeat (apply orb_true_iff in H; destruct H as [H|H]); apply bytes_eqb_eq in H; subst; reflexivity.
Qed.

Lemma value_jv_wf v : value_wf v -> jv_wf (value_jv v).
Proof.
  unfold value_wf, value_jv.
  destruct (v_kind v =? KNumber).
  { intros H. destruct (is_nonfinite (v_data v)) eqn:E; [apply nonfinite_safe; exact E|].
    destruct H as [H|H]; [discriminate | exact H]. }
  destruct (v_kind v =? KString); [intros _; exact I|].
  destruct (v_kind v =? KTrue); [intros _; apply lit_value_true|].
  destruct (v_kind v =? KFalse); [intros _; apply lit_value_false|].
  destruct (v_kind v =? KNull).
  { intros H. rewrite H. cbn. apply lit_value_null. }
  destruct (v_kind v =? KJSON); [intros H; exact H | intros []].
Qed.

(* RESP's Data() is what a client decodes from JSON() *)
Lemma value_jv_data v : value_wf v -> vdata (value_jv v) = Some (v_data v).
Proof.
  unfold value_wf, value_jv.
  destruct (v_kind v =? KNumber); [intros _; destruct (is_nonfinite (v_data v)); reflexivity|].
  destruct (v_kind v =? KString); [reflexivity|].
  destruct (v_kind v =? KTrue); [intros ->; reflexivity|].
  destruct (v_kind v =? KFalse); [intros ->; reflexivity|].
  destruct (v_kind v =? KNull); [intros ->; reflexivity|].
  destruct (v_kind v =? KJSON); [reflexivity | intros []].
Qed.

Lemma value_json_value v : value_wf v -> json_value (value_json v).
Proof. intros H. apply jprint_value, value_jv_wf, H. Qed.

Lemma float_text_all cs : forallb float_text cs = true -> Forall (fun t => json_value (jf t)) cs.
Proof.
  rewrite forallb_forall, Forall_forall. intros H t Ht. apply jf_value, H, Ht.
Qed.

Lemma point_jv_wf cs : (length cs = 2 \/ length cs = 3)%nat -> forallb float_text cs = true -> jv_wf (point_jv cs).
Proof.
  intros Hl Hf. apply float_text_all in Hf.
  destruct cs as [|a [|b [|c [|]]]]; cbn [length] in Hl; try lia;
    repeat match goal with H : Forall _ (_ :: _) |- _ => inversion H; clear H; subst end;
    cbn; repeat split; assumption.
Qed.

Lemma bounds_jv_wf cs : length cs = 4%nat -> forallb float_text cs = true -> jv_wf (bounds_jv cs).
Proof.
  intros Hl Hf. apply float_text_all in Hf.
  destruct cs as [|a [|b [|c [|d [|]]]]]; cbn [length] in Hl; try lia;
    repeat match goal with H : Forall _ (_ :: _) |- _ => inversion H; clear H; subst end;
    cbn; repeat split; assumption.
Qed.

Lemma geo_member_wf gv : geoview_wf gv -> jv_wf (snd (geo_member gv)).
Proof.
  destruct gv as [g|cs|cs|h]; cbn [geoview_wf geo_member snd].
  - unfold obj_jv. destruct (g_spatial g); [intros H; apply H; reflexivity | intros _; exact I].
  - intros [Hl Hf]. apply point_jv_wf; assumption.
  - intros [Hl Hf]. apply bounds_jv_wf; assumption.
  - intros H. exact H.
Qed.

Lemma fields_member_wf fo :
  match fo with Some fs => Forall (fun f => value_wf (snd f)) fs | None => True end ->
  Forall (fun p => jv_wf (snd p)) (fields_member fo).
Proof.
  destruct fo as [[|f r]|]; cbn [fields_member]; intros H; constructor; [|constructor].
  cbn [snd]. apply jv_wf_obj. rewrite Forall_forall in *. intros p Hp.
  apply in_map_iff in Hp. destruct Hp as (x & <- & Hx). cbn [snd]. apply value_jv_wf, H, Hx.
Qed.

Lemma json_tree_wf k d : kres_wf k -> string_safe d = true -> jv_wf (json_tree k d).
Proof.
  intros Hk Hd.
  assert (Ht : jv_wf (VTok t_true)) by apply lit_value_true.
  assert (Hf : jv_wf (VTok t_false)) by apply lit_value_false.
  destruct k as [c msg| |n|nx|rf m| |gv fo|v|b|n|t|l|[v|]]; cbn [json_tree jv_error];
    try (apply jv_wf_obj; repeat constructor; cbn [snd jv_ok jv_elapsed]; auto; fail).
  - (* KObject *)
    destruct Hk as [Hg Hfs]. apply jv_wf_obj. cbn [app]. constructor; [exact Ht|].
    constructor; [apply geo_member_wf; exact Hg|].
    apply Forall_app. split; [apply fields_member_wf; exact Hfs | repeat constructor; exact Hd].
  - (* KValue *)
    apply jv_wf_obj. repeat constructor; cbn [snd]; auto. apply value_jv_wf. exact Hk.
  - (* KExists *)
    apply jv_wf_obj. repeat constructor; cbn [snd]; auto. destruct b; assumption.
  - (* KTtl *)
    apply jv_wf_obj. repeat constructor; cbn [snd]; auto. apply int_text_value, print_int_text.
  - (* KKeys *)
    apply jv_wf_obj. repeat constructor; cbn [snd]; auto.
    apply jv_wf_arr. apply Forall_forall. intros x Hx. apply in_map_iff in Hx. destruct Hx as (s & <- & _). exact I.
Qed.

(* ======================================================================================== *)
(* the bytes written (template instantiation) are the printed tree *)

Ltac has_var t := match t with context [?x] => is_var x end.
Ltac closed t := tryif has_var t then fail else idtac.
Ltac norm_app := repeat (progress (cbn [app]; rewrite <- ?app_assoc; rewrite ?app_nil_r)).
(* the regenerated templates are closed terms: look them up by computation *)
Ltac eval_lookup :=
  repeat match goal with
         | |- context [err_template] =>
             let v := eval vm_compute in err_template in change err_template with v
         | |- context [doc_template ?h] =>
             closed h; let v := eval vm_compute in (doc_template h) in change (doc_template h) with v
         | |- context [value_template ?h] =>
             closed h; let v := eval vm_compute in (value_template h) in change (value_template h) with v
         end.
Ltac ground_keys :=
  repeat match goal with
         | |- context [json_string ?k] =>
             closed k; let v := eval vm_compute in (json_string k) in change (json_string k) with v
         end.
Ltac doc_eq :=
  eval_lookup;
  cbv - [json_string marshal_string RespOut.print_int app jf value_jv];
  ground_keys; norm_app; reflexivity.

Lemma error_doc_tree msg d : error_doc msg d = Some (jprint (jv_error msg d)).
Proof. unfold error_doc. doc_eq. Qed.

Lemma plain_doc_tree h d : is_one_of h plain_handlers = true ->
  (match doc_template h with Some t => tinst t [FSafe d] | None => None end) = Some (jprint (VObj [jv_ok true; jv_elapsed d])).
Proof.
  intros H. unfold is_one_of, plain_handlers in H. cbn [existsb] in H.
  repeat (apply orb_true_iff in H; destruct H as [H|H]); try discriminate;
    apply bytes_eqb_eq in H; subst h; doc_eq.
Qed.

Lemma point_doc_tree cs : (length cs = 2 \/ length cs = 3)%nat -> point_doc cs = Some (jprint (point_jv cs)).
Proof.
  intros Hl. destruct cs as [|a [|b [|c [|]]]]; cbn [length] in Hl; try lia; unfold point_doc; doc_eq.
Qed.

Lemma bounds_doc_tree cs : length cs = 4%nat -> bounds_doc cs = Some (jprint (bounds_jv cs)).
Proof.
  intros Hl. destruct cs as [|a [|b [|c [|d [|]]]]]; cbn [length] in Hl; try lia; unfold bounds_doc; doc_eq.
Qed.

(* ---------- buildObjectResponse ---------- *)

Definition lit_ok_true : bytes := Eval compute in bs "{""ok"":true"%string.
Definition field_item : tmpl := Seq (Lit [44]) (Seq (Seq HStr (Lit [58])) HJson).
Definition fields_tmpl : tmpl :=
  Alt (Alt (Seq (Lit (44 :: json_string k_fields ++ [58; 123]))
                (Alt (Lit [125]) (Seq (Seq (Seq (Seq HStr (Lit [58])) HJson) (Star field_item)) (Lit [125]))))
           (Lit []))
      (Lit []).
Definition kind_tmpl : tmpl :=
  Alt (Alt (Alt (Alt (Seq (Lit (44 :: json_string k_object ++ [58])) HJson)
                     (Seq (Lit (44 :: json_string k_point ++ [58])) HJson))
                (Seq (Lit (44 :: json_string k_hash ++ [58])) (Seq (Seq (Lit [34]) HRaw) (Lit [34]))))
           (Seq (Lit (44 :: json_string k_bounds ++ [58])) HJson))
      (Lit []).
Definition elapsed_tmpl : tmpl := Seq (Seq (Lit (44 :: json_string k_elapsed ++ [58; 34])) HDur) (Lit [34; 125]).

(* the shape of the regenerated template of buildObjectResponse (checked against coq/Gen on every build) *)
Lemma bor_shape : doc_template h_bor = Some (Seq (Seq (Seq (Lit lit_ok_true) kind_tmpl) fields_tmpl) elapsed_tmpl).
Proof. vm_compute. reflexivity. Qed.

Definition member_bytes (p : bytes * jv) : bytes := 44 :: json_string (fst p) ++ 58 :: jprint (snd p).

Lemma jmembers_false m : jmembers false m = concat (map member_bytes m).
Proof.
  induction m as [|p r IH]; [reflexivity|]. cbn [jmembers map concat]. rewrite IH.
  unfold member_bytes. norm_app. reflexivity.
Qed.

Lemma field_item_fill n v rest :
  tfill field_item (FStr n :: FJson v :: rest) = Some (44 :: json_string n ++ 58 :: v, rest).
Proof. cbn [tfill field_item]. norm_app. reflexivity. Qed.

Lemma star_fields r rest :
  rep_fill (tfill field_item) (length r) (field_fills r ++ rest) =
  Some (concat (map (fun f => member_bytes (fst f, value_jv (snd f))) r), rest).
Proof.
  induction r as [|f r IH]; [reflexivity|].
  cbn [length rep_fill field_fills flat_map app].
  change (flat_map (fun f0 : bytes * value => [FStr (fst f0); FJson (value_json (snd f0))]) r) with (field_fills r).
  rewrite field_item_fill, IH. cbn [map concat member_bytes fst snd]. unfold value_json.
  reflexivity || (norm_app; reflexivity).
Qed.

Lemma kind_fill gv rest : geoview_wf gv ->
  exists gf, geo_fills gv = Some gf /\
    tfill kind_tmpl (gf ++ rest) = Some (member_bytes (geo_member gv), rest).
Proof.
  destruct gv as [g|cs|cs|h]; cbn [geoview_wf geo_fills geo_member].
  - intros _. eexists. split; [reflexivity|]. cbv - [json_string marshal_string app jprint obj_jv]. ground_keys. norm_app. reflexivity.
  - intros [Hl _]. rewrite (point_doc_tree cs Hl). eexists. split; [reflexivity|].
    cbv - [json_string marshal_string app jprint point_jv]. ground_keys. norm_app. reflexivity.
  - intros [Hl _]. rewrite (bounds_doc_tree cs Hl). eexists. split; [reflexivity|].
    cbv - [json_string marshal_string app jprint bounds_jv]. ground_keys. norm_app. reflexivity.
  - intros _. eexists. split; [reflexivity|]. cbv - [json_string marshal_string app]. ground_keys. norm_app. reflexivity.
Qed.

Lemma fields_fill fo rest :
  tfill fields_tmpl (fields_fills fo ++ rest) = Some (concat (map member_bytes (fields_member fo)), rest).
Proof.
  destruct fo as [[|f r]|]; cbn [fields_fills fields_member app map concat].
  - reflexivity.
  - cbn [tfill fields_tmpl]. rewrite star_fields.
    unfold member_bytes at 2. cbn [fst snd]. rewrite jprint_obj. cbn [map jmembers fst snd app].
    rewrite jmembers_false. rewrite map_map. unfold value_json.
    f_equal. f_equal. ground_keys. norm_app. reflexivity.
  - reflexivity.
Qed.

Lemma elapsed_fill d : tfill elapsed_tmpl [FSafe d] = Some (member_bytes (jv_elapsed d) ++ [125], []).
Proof. cbv - [json_string app]. ground_keys. norm_app. reflexivity. Qed.

Lemma jmembers_true m : m <> [] -> 44 :: jmembers true m = jmembers false m.
Proof. destruct m as [|p r]; [congruence|]. reflexivity. Qed.

Lemma concat_members_app a b : concat (map member_bytes (a ++ b)) = concat (map member_bytes a) ++ concat (map member_bytes b).
Proof. rewrite map_app, concat_app. reflexivity. Qed.

Lemma object_doc_tree gv fo d : geoview_wf gv ->
  json_doc h_bor (KObject gv fo) d = Some (jprint (json_tree (KObject gv fo) d)).
Proof.
  intros Hg. cbn [json_doc json_tree]. rewrite bor_shape.
  destruct (kind_fill gv (fields_fills fo ++ [FSafe d]) Hg) as (gf & Egf & Ek). rewrite Egf.
  unfold tinst. cbn [tfill]. rewrite Ek, fields_fill, elapsed_fill.
  rewrite jprint_obj.
  f_equal.
  (* the printed members: ok, the object, the fields, elapsed *)
  change ([jv_ok true; geo_member gv] ++ fields_member fo ++ [jv_elapsed d])
    with (jv_ok true :: ([geo_member gv] ++ fields_member fo ++ [jv_elapsed d])).
  cbn [jmembers app]. rewrite jmembers_false.
  rewrite !concat_members_app. cbn [map concat]. rewrite app_nil_r.
  unfold lit_ok_true. cbn [jv_ok fst snd]. ground_keys.
  change (jprint (VTok t_true)) with [116; 114; 117; 101].
  unfold member_bytes at 1 3. norm_app. reflexivity.
Qed.

(* every reply document written (an instantiation of the regenerated template of its handler) is
   the compact printing of the document tree *)
Theorem json_doc_tree h k d : kres_wf k -> handler_ok h k ->
  json_doc h k d = Some (jprint (json_tree k d)).
Proof.
  intros Hk Hh.
  destruct k as [c msg| |n|nx|rf m| |gv fo|v|b|n|t|l|[v|]]; cbn [json_doc json_tree kres_wf handler_ok] in *.
  - apply error_doc_tree.
  - rewrite Hh. apply plain_doc_tree. exact Hh.
  - rewrite Hh. apply plain_doc_tree. exact Hh.
  - apply error_doc_tree.
  - apply error_doc_tree.
  - apply error_doc_tree.
  - apply (object_doc_tree gv fo d). exact (proj1 Hk).
  - unfold value_json. generalize (value_jv v). intros j.
    eval_lookup. cbv - [json_string marshal_string app jprint]. rewrite jprint_obj. cbn [jmembers fst snd app].
    ground_keys. change (jprint (VTok [116; 114; 117; 101])) with [116; 114; 117; 101].
    change (jprint (VRawStr d)) with (34 :: d ++ [34]). norm_app. reflexivity.
  - destruct Hh as [-> | ->]; destruct b; doc_eq.
  - doc_eq.
  - doc_eq.
  - generalize (VArr (map VMStr l)). intros j.
    eval_lookup. cbv - [json_string marshal_string app jprint]. rewrite jprint_obj. cbn [jmembers fst snd app].
    ground_keys. change (jprint (VTok [116; 114; 117; 101])) with [116; 114; 117; 101].
    change (jprint (VRawStr d)) with (34 :: d ++ [34]). norm_app. reflexivity.
  - doc_eq.
  - doc_eq.
Qed.

(* ======================================================================================== *)
(* every reply document is an instance of a regenerated template, hence one valid JSON document *)

Lemma lookup_named_In n names ts t : lookup_named n names ts = Some t -> In t ts.
Proof.
  revert ts. induction names as [|k names IH]; intros [|t0 ts] H; cbn [lookup_named] in H; try discriminate.
  destruct (bytes_eqb n k); [inversion H; subst; left; reflexivity | right; apply IH; exact H].
Qed.

Lemma find_err_In names ts t : find_err_template names ts = Some t -> In t ts.
Proof.
  revert ts. induction names as [|k names IH]; intros [|t0 ts] H; cbn [find_err_template] in H; try discriminate.
  match type of H with (if ?c then _ else _) = _ => destruct c end;
    [inversion H; subst; left; reflexivity | right; apply IH; exact H].
Qed.

Definition doc_instance (v : bytes) : Prop := exists t, In t Gen.Templates.templates /\ inst t v.

Lemma looked_up_instance h fs v :
  (match doc_template h with Some t => tinst t fs | None => None end) = Some v ->
  Forall fill_ok fs -> doc_instance v.
Proof.
  intros H Hok. destruct (doc_template h) as [t|] eqn:E; [|discriminate].
  exists t. split; [eapply lookup_named_In; exact E | eapply tinst_inst; eauto].
Qed.

Lemma error_doc_instance msg d v : error_doc msg d = Some v -> string_safe d = true -> doc_instance v.
Proof.
  unfold error_doc. intros H Hd. destruct err_template as [t|] eqn:E; [|discriminate].
  exists t. split; [eapply find_err_In; exact E|].
  eapply tinst_inst; [exact H|]. repeat constructor. exact Hd.
Qed.

Lemma field_fills_ok fs : Forall (fun f => value_wf (snd f)) fs -> Forall fill_ok (field_fills fs).
Proof.
  induction 1 as [|f r Hf _ IH]; cbn [field_fills flat_map app]; [constructor|].
  constructor; [exact I|]. constructor; [apply value_json_value; exact Hf | exact IH].
Qed.

Lemma fields_fills_ok fo :
  match fo with Some fs => Forall (fun f => value_wf (snd f)) fs | None => True end ->
  Forall fill_ok (fields_fills fo).
Proof.
  destruct fo as [[|f r]|]; cbn [fields_fills]; intros H.
  - repeat constructor.
  - inversion H as [|? ? Hf Hr]; subst. cbn [app].
    do 4 (constructor; [exact I|]). constructor; [apply value_json_value; exact Hf|].
    constructor; [exact I|]. apply field_fills_ok. exact Hr.
  - repeat constructor.
Qed.

Lemma geo_fills_ok gv gf : geoview_wf gv -> geo_fills gv = Some gf -> Forall fill_ok gf.
Proof.
  destruct gv as [g|cs|cs|h]; cbn [geoview_wf geo_fills].
  - intros Hg H. inversion H; subst. repeat constructor. cbn [fill_ok].
    apply jprint_value. exact (geo_member_wf (GVObject g) Hg).
  - intros [Hl Hf] H. rewrite (point_doc_tree cs Hl) in H. inversion H; subst. repeat constructor. cbn [fill_ok].
    apply jprint_value, point_jv_wf; assumption.
  - intros [Hl Hf] H. rewrite (bounds_doc_tree cs Hl) in H. inversion H; subst. repeat constructor. cbn [fill_ok].
    apply jprint_value, bounds_jv_wf; assumption.
  - intros Hh H. inversion H; subst. repeat constructor. exact Hh.
Qed.

Ltac by_lookup H :=
  match type of H with
  | context [doc_template ?h] =>
      let t := fresh "t" in let E := fresh "E" in
      destruct (doc_template h) as [t|] eqn:E; [|discriminate];
      exists t; split; [eapply lookup_named_In; exact E | eapply tinst_inst; [exact H|]]
  end.

Theorem json_doc_instance h k d v : kres_wf k -> string_safe d = true ->
  json_doc h k d = Some v -> doc_instance v.
Proof.
  intros Hk Hd H.
  destruct k as [c msg| |n|nx|rf m| |gv fo|v0|b|n|t|l|[v0|]]; cbn [json_doc kres_wf] in *;
    try (eapply error_doc_instance; eauto; fail).
  - destruct (is_one_of h plain_handlers); [|discriminate].
    by_lookup H. repeat constructor. exact Hd.
  - destruct (is_one_of h plain_handlers); [|discriminate].
    by_lookup H. repeat constructor. exact Hd.
  - destruct Hk as [Hg Hfs].
    destruct (doc_template h_bor) as [t|] eqn:E; [|discriminate].
    destruct (geo_fills gv) as [gf|] eqn:Eg; [|discriminate].
    exists t. split; [eapply lookup_named_In; exact E|].
    eapply tinst_inst; [exact H|].
    apply Forall_app. split; [eapply geo_fills_ok; eauto|].
    apply Forall_app. split; [apply fields_fills_ok; exact Hfs | repeat constructor; exact Hd].
  - by_lookup H. repeat constructor; [apply value_json_value; exact Hk | exact Hd].
  - destruct (bytes_eqb h h_exists || bytes_eqb h h_fexists); [|discriminate].
    by_lookup H. repeat constructor. exact Hd.
  - by_lookup H. repeat constructor. exact Hd.
  - by_lookup H. repeat constructor. exact Hd.
  - by_lookup H. repeat constructor; [|exact Hd]. cbn [fill_ok].
    apply jprint_value, jv_wf_arr, Forall_forall. intros x Hx.
    apply in_map_iff in Hx. destruct Hx as (s & <- & _). exact I.
  - by_lookup H. repeat constructor. exact Hd.
  - by_lookup H. repeat constructor. exact Hd.
Qed.

(* what "ok" says, read off the abstract result *)
Definition is_ok (k : kres) : bool :=
  match k with
  | KErr _ _ | KNada _ | KMiss _ _ | KNoPath => false
  | _ => true
  end.

Definition ok_prefix (b : bool) : bytes := if b then ok_true_prefix else ok_false_prefix.

(* one valid JSON document, an instance of a regenerated template, starting with {"ok":true or
   {"ok":false according to the result *)
Theorem json_reply_valid h k d : kres_wf k -> handler_ok h k -> string_safe d = true ->
  exists v, json_doc h k d = Some v /\ v = jprint (json_tree k d) /\
            doc_instance v /\ valid_json v = true /\ hasPrefix (ok_prefix (is_ok k)) v.
Proof.
  intros Hk Hh Hd. pose proof (json_doc_tree h k d Hk Hh) as E.
  exists (jprint (json_tree k d)). split; [exact E|]. split; [reflexivity|].
  pose proof (json_doc_instance h k d _ Hk Hd E) as Hi. split; [exact Hi|].
  destruct Hi as (t & Hin & Hinst).
  split; [exact (proj1 (all_replies_valid t _ Hin Hinst))|].
  apply hasPrefixb_spec.
  destruct k as [c msg| |n|nx|rf m| |gv fo|v0|b|n|t0|l|[v0|]]; reflexivity.
Qed.

(* ---------- "ok" is a boolean, "err" is there exactly when it is false ---------- *)

Theorem json_tree_ok_err k d :
  exists m, json_tree k d = VObj m /\
    vget k_ok m = Some (VTok (if is_ok k then t_true else t_false)) /\
    (if is_ok k then vget k_err m = None else exists msg, vget k_err m = Some (VStr msg)).
Proof.
  destruct k as [c msg| |n|nx|rf m| |gv fo|v0|b|n|t0|l|[v0|]]; cbn [json_tree jv_error is_ok];
    eexists; (split; [reflexivity|]); (split; [reflexivity|]); try reflexivity; try (eexists; reflexivity).
  destruct gv, fo as [[|f r]|]; reflexivity.
Qed.

(* ======================================================================================== *)
(* the RESP value is well-formed (hence, by c17_resp_valid, re-parsed exactly by a strict client) *)

Lemma single_line_is s : single_line s = RespOut.form_single_line s.
Proof. reflexivity. Qed.

Lemma line_ok_app a b : RespOut.line_ok (a ++ b) = RespOut.line_ok a && RespOut.line_ok b.
Proof. unfold RespOut.line_ok. apply forallb_app. Qed.

Lemma write_err_line cmd msg : RespOut.line_ok cmd = true -> RespOut.line_ok (write_err cmd msg) = true.
Proof.
  intros Hc. unfold write_err. destruct (bytes_eqb msg err_nargs).
  - rewrite !line_ok_app, Hc. reflexivity.
  - rewrite single_line_is. apply form_single_line_ok.
Qed.

Fixpoint rvals_of (l : list reply) : option (list RespOut.rval) :=
  match l with
  | [] => Some []
  | x :: r => match rval_of x, rvals_of r with Some v, Some vs => Some (v :: vs) | _, _ => None end
  end.

Lemma rval_of_arr l : rval_of (RArr l) = match rvals_of l with Some vs => Some (RespOut.RArr vs) | None => None end.
Proof. reflexivity. Qed.

Fixpoint wf_all (l : list RespOut.rval) : bool :=
  match l with [] => true | x :: r => RespOut.resp_wf x && wf_all r end.

Lemma resp_wf_arr l : RespOut.resp_wf (RespOut.RArr l) = wf_all l.
Proof. reflexivity. Qed.

Lemma rvals_bulks l : rvals_of (map RBulk l) = Some (map RespOut.RBulk l) /\ wf_all (map RespOut.RBulk l) = true.
Proof.
  induction l as [|b r [IH1 IH2]]; [split; reflexivity|].
  cbn [map rvals_of rval_of wf_all RespOut.resp_wf]. rewrite IH1, IH2. split; reflexivity.
Qed.

Lemma fields_reply_bulks fs : exists l, fields_reply fs = map RBulk l.
Proof.
  induction fs as [|f r [l IH]]; [exists []; reflexivity|].
  exists (fst f :: v_data (snd f) :: l). unfold fields_reply in *. cbn [flat_map app map]. rewrite IH. reflexivity.
Qed.

Lemma geoview_reply_wf gv : geoview_wf gv ->
  exists v, rval_of (geoview_reply gv) = Some v /\ RespOut.resp_wf v = true.
Proof.
  destruct gv as [g|cs|cs|h]; cbn [geoview_wf geoview_reply].
  - intros _. eexists; split; reflexivity.
  - intros _. rewrite rval_of_arr. destruct (rvals_bulks cs) as [E W]. rewrite E.
    eexists; split; [reflexivity|]. rewrite resp_wf_arr. exact W.
  - intros [Hl _]. destruct cs as [|a [|b [|c [|d [|]]]]]; cbn [length] in Hl; try lia.
    eexists; split; reflexivity.
  - intros _. eexists; split; reflexivity.
Qed.

Theorem resp_reply_wf k : kres_wf k ->
  exists v, rval_of (resp_reply k) = Some v /\ RespOut.resp_wf v = true.
Proof.
  intros Hk.
  destruct k as [c msg| |n|nx|rf m| |gv fo|v0|b|n|t0|l|[v0|]]; cbn [resp_reply kres_wf] in *;
    try (eexists; split; reflexivity).
  - eexists; split; [reflexivity|]. cbn [RespOut.resp_wf]. apply write_err_line. exact Hk.
  - destruct rf; try discriminate; eexists; split; try reflexivity. exact Hk.
  - destruct Hk as [Hg _]. destruct (geoview_reply_wf gv Hg) as (v0 & E0 & W0).
    destruct fo as [fs|]; [|exists v0; auto].
    destruct fs as [|f r].
    + rewrite rval_of_arr. cbn [rvals_of]. rewrite E0. eexists; split; [reflexivity|].
      rewrite resp_wf_arr. cbn [wf_all]. rewrite W0. reflexivity.
    + destruct (fields_reply_bulks (f :: r)) as [l El]. rewrite El.
      rewrite rval_of_arr. cbn [rvals_of]. rewrite E0, rval_of_arr.
      destruct (rvals_bulks l) as [E W]. rewrite E.
      eexists; split; [reflexivity|]. rewrite resp_wf_arr. cbn [wf_all]. rewrite W0, resp_wf_arr, W. reflexivity.
  - eexists; split; [reflexivity|]. exact Hk.
  - rewrite rval_of_arr. destruct (rvals_bulks l) as [E W]. rewrite E.
    eexists; split; [reflexivity|]. rewrite resp_wf_arr. exact W.
Qed.

(* ======================================================================================== *)
(* both modes convey the same result *)

(* buildObjectResponse's `switch kind` *)
Definition kind_matches (kind : N) (gv : geoview) : Prop :=
  match gv with
  | GVPoint _ => kind = RK_POINT
  | GVBounds _ => kind = RK_BOUNDS
  | GVHash _ => kind = RK_HASH
  | GVObject _ => kind <> RK_POINT /\ kind <> RK_BOUNDS /\ kind <> RK_HASH
  end.

Definition obj_fits (kind : N) (wf : bool) (gv : geoview) (fo : option flist) : Prop :=
  kind_matches kind gv /\ match fo with Some _ => wf = true | None => wf = false end.

(* which results a command (of lower-cased name c, asked as a) can answer with *)
Definition fits (c : bytes) (a : ask) (k : kres) : Prop :=
  match k with
  | KErr c' msg => c' = c /\ is_one_of msg (neg_errs a) = false
  | KOk => match a with AAck | ASet | AJdel => True | _ => False end
  | KInt n =>
      match a with
      | ACount | APersist => True
      | AFound | AJdel => n <> 0%Z
      | AObjFset _ _ => True          (* FSET .. XX RETURN on a missing id: :0 / {"ok":true} *)
      | _ => False
      end
  | KNada _ => match a with ASet | AObjSet _ _ => True | _ => False end
  | KMiss rf m =>
      match a with
      | AObjGet _ _ | AJget => rf = RNil
      | AFound | APersist => rf = RInt 0
      | ATtl => rf = RInt (-2)
      | AType => rf = ROk str_none /\ m = MissKey
      | AJdel => rf = RInt 0 /\ m = MissKey
      | _ => False
      end
  | KNoPath => a = AJdel
  | KObject gv fo =>
      match a with
      | AObjGet kind wf | AObjSet kind wf | AObjFset kind wf => obj_fits kind wf gv fo
      | _ => False
      end
  | KValue _ => a = AFget
  | KExists _ => a = AExists
  | KTtl n => a = ATtl /\ n <> (-2)%Z
  | KType t => a = AType /\ t <> str_none
  | KKeys _ => a = AKeys
  | KJget _ => a = AJget
  end.

Lemma map_opt_vdata_mstr l : map_opt vdata (map VMStr l) = Some l.
Proof. induction l as [|x r IH]; [reflexivity|]. cbn [map map_opt vdata]. rewrite IH. reflexivity. Qed.

Lemma bulks_map l : bulks (map RBulk l) = Some l.
Proof. induction l as [|x r IH]; [reflexivity|]. cbn [map bulks]. rewrite IH. reflexivity. Qed.

Lemma rpairs_fields fs : rpairs (fields_reply fs) = Some (map (fun f => (fst f, v_data (snd f))) fs).
Proof.
  induction fs as [|f r IH]; [reflexivity|].
  unfold fields_reply in *. cbn [flat_map app rpairs map]. rewrite IH. reflexivity.
Qed.

Lemma fields_pair_data fs : Forall (fun f => value_wf (snd f)) fs ->
  map_opt pair_data (map (fun f => (fst f, value_jv (snd f))) fs) = Some (map (fun f => (fst f, v_data (snd f))) fs).
Proof.
  induction 1 as [|f r Hf _ IH]; [reflexivity|].
  cbn [map map_opt]. unfold pair_data at 1. cbn [fst snd]. rewrite (value_jv_data _ Hf), IH. reflexivity.
Qed.

Lemma kind_object_tests kind :
  kind <> RK_POINT /\ kind <> RK_BOUNDS /\ kind <> RK_HASH ->
  (kind =? RK_POINT) = false /\ (kind =? RK_BOUNDS) = false /\ (kind =? RK_HASH) = false.
Proof. intros (H1 & H2 & H3). repeat split; apply N.eqb_neq; assumption. Qed.

Lemma jgeo_ok kind gv rest : geoview_wf gv -> kind_matches kind gv ->
  jgeo kind (jv_ok true :: geo_member gv :: rest) = Some (Some (conv_geo gv)).
Proof.
  destruct gv as [g|cs|cs|h]; cbn [geoview_wf kind_matches geo_member conv_geo].
  - intros _ Hk. destruct (kind_object_tests kind Hk) as (E1 & E2 & E3).
    unfold jgeo. rewrite E1, E2, E3. cbn. unfold obj_jv. destruct (g_spatial g); reflexivity.
  - intros [Hl _] ->. destruct cs as [|a [|b [|c [|]]]]; cbn [length] in Hl; try lia; reflexivity.
  - intros [Hl _] ->. destruct cs as [|a [|b [|c [|d [|]]]]]; cbn [length] in Hl; try lia; reflexivity.
  - intros _ ->. reflexivity.
Qed.

Lemma rgeo_ok kind gv : geoview_wf gv -> kind_matches kind gv ->
  rgeo kind (geoview_reply gv) = Some (conv_geo gv).
Proof.
  destruct gv as [g|cs|cs|h]; cbn [geoview_wf kind_matches geoview_reply conv_geo].
  - intros _ Hk. destruct (kind_object_tests kind Hk) as (E1 & E2 & E3).
    unfold rgeo. rewrite E1, E2, E3. reflexivity.
  - intros _ ->. unfold rgeo. cbn. rewrite bulks_map. reflexivity.
  - intros [Hl _] ->. destruct cs as [|a [|b [|c [|d [|]]]]]; cbn [length] in Hl; try lia; reflexivity.
  - intros _ ->. reflexivity.
Qed.

(* the fields member is found behind the object member, whatever that one is called *)
Lemma vget_fields_member gv fo d :
  vget k_fields (jv_ok true :: geo_member gv :: fields_member fo ++ [jv_elapsed d]) =
  match fields_member fo with [] => None | p :: _ => Some (snd p) end.
Proof. destruct gv, fo as [[|f r]|]; reflexivity. Qed.

Lemma jobject_ok kind wf gv fo d : geoview_wf gv ->
  match fo with Some fs => Forall (fun f => value_wf (snd f)) fs | None => True end ->
  obj_fits kind wf gv fo ->
  jobject kind wf (jv_ok true :: geo_member gv :: fields_member fo ++ [jv_elapsed d]) =
  Some (CObj (conv_geo gv) (match fo with Some fs => map (fun f => (fst f, v_data (snd f))) fs | None => [] end)).
Proof.
  intros Hg Hfs [Hk Hwf]. unfold jobject. rewrite (jgeo_ok kind gv _ Hg Hk).
  unfold jfields. rewrite vget_fields_member.
  destruct fo as [[|f r]|]; subst wf; cbn [fields_member]; try reflexivity.
  cbn [snd]. pose proof (fields_pair_data _ Hfs) as E. unfold field in *.
  match goal with |- match ?x with _ => _ end = _ => replace x with (Some (map (fun f0 : bytes * value => (fst f0, v_data (snd f0))) (f :: r))) by (symmetry; exact E) end.
  reflexivity.
Qed.

Lemma geoview_reply_shape gv : geoview_wf gv ->
  match geoview_reply gv with RNil | RInt _ | RErr _ | RUnmodelled => False | _ => True end.
Proof.
  destruct gv as [g|cs|cs|h]; cbn [geoview_wf geoview_reply]; auto.
  intros [Hl _]. destruct cs as [|a [|b [|c [|d [|]]]]]; cbn [length] in Hl; try lia. exact I.
Qed.

Lemma robject_ok kind wf gv fo : geoview_wf gv -> obj_fits kind wf gv fo ->
  let r := resp_reply (KObject gv fo) in
  match r with RNil | RInt _ | RErr _ | RUnmodelled => False | _ => True end /\
  robject kind wf r =
  Some (CObj (conv_geo gv) (match fo with Some fs => map (fun f => (fst f, v_data (snd f))) fs | None => [] end)).
Proof.
  intros Hg [Hk Hwf]. cbn [resp_reply]. pose proof (rgeo_ok kind gv Hg Hk) as Eg.
  destruct fo as [[|f r]|]; subst wf; unfold robject.
  - split; [exact I|]. rewrite Eg. reflexivity.
  - split; [exact I|]. rewrite Eg, rpairs_fields. reflexivity.
  - split; [apply geoview_reply_shape; exact Hg|]. rewrite Eg. reflexivity.
Qed.

Lemma jobject_none kind wf d : jobject kind wf [jv_ok true; jv_elapsed d] = Some CDone.
Proof.
  unfold jobject, jgeo, jfields.
  destruct (kind =? RK_POINT), (kind =? RK_BOUNDS), (kind =? RK_HASH), wf; reflexivity.
Qed.

Theorem modes_convey_same c a k d : kres_wf k -> fits c a k ->
  conveys_json c a (json_tree k d) = Some (conv_of a k) /\
  conveys_resp a (resp_reply k) = Some (conv_of a k).
Proof.
  intros Hk Hf.
  destruct k as [c' msg| |n|nx|rf m| |gv fo|v0|b|n|t0|l|[v0|]]; cbn [fits kres_wf] in *.
  - (* KErr *)
    destruct Hf as [-> Hn]. split.
    + cbn [json_tree jv_error conveys_json]. cbn. rewrite Hn. reflexivity.
    + reflexivity.
  - (* KOk *) destruct a; try contradiction; split; reflexivity.
  - (* KInt *)
    destruct a; try contradiction; split; try reflexivity;
      try (cbn [conv_of resp_reply conveys_resp]; destruct (Z.eqb_spec n 0); try contradiction; reflexivity);
      cbn [json_tree conveys_json]; change (vget k_ok [jv_ok true; jv_elapsed d]) with (Some (VTok t_true));
      cbn [bytes_eqb t_true t_false N.eqb Pos.eqb andb]; apply jobject_none.
  - (* KNada *)
    destruct a; try contradiction; split; destruct nx; reflexivity.
  - (* KMiss *)
    destruct a; try contradiction;
      repeat match goal with H : _ /\ _ |- _ => destruct H end; subst;
      split; try (destruct m; reflexivity); reflexivity.
  - (* KNoPath *) subst a. split; reflexivity.
  - (* KObject *)
    destruct Hk as [Hg Hfs].
    assert (HJ : forall kind wf, obj_fits kind wf gv fo ->
                 jobject kind wf (jv_ok true :: geo_member gv :: fields_member fo ++ [jv_elapsed d]) =
                 Some (conv_of a (KObject gv fo))) by (intros; apply jobject_ok; assumption).
    assert (HR : forall kind wf, obj_fits kind wf gv fo ->
                 match resp_reply (KObject gv fo) with RNil | RInt _ | RErr _ | RUnmodelled => False | _ => True end /\
                 robject kind wf (resp_reply (KObject gv fo)) = Some (conv_of a (KObject gv fo)))
      by (intros; apply robject_ok; assumption).
    destruct a; try contradiction;
      (split;
       [ cbn [json_tree conveys_json app]; change (vget k_ok (jv_ok true :: ?x)) with (Some (VTok t_true));
         cbn [bytes_eqb t_true t_false N.eqb Pos.eqb andb]; apply HJ; exact Hf
       | destruct (HR _ _ Hf) as [Hs Hr]; unfold conveys_resp;
         destruct (resp_reply (KObject gv fo)); try contradiction; exact Hr ]).
  - (* KValue *)
    subst a. split; [|reflexivity].
    cbn [json_tree conveys_json]. cbn. rewrite (value_jv_data _ Hk). reflexivity.
  - (* KExists *) subst a. split; destruct b; reflexivity.
  - (* KTtl *)
    destruct Hf as [-> Hn]. split.
    + cbn [json_tree conveys_json]. cbn. rewrite parse_print_int. reflexivity.
    + cbn [resp_reply conveys_resp conv_of]. destruct (Z.eqb_spec n (-2)); [contradiction | reflexivity].
  - (* KType *)
    destruct Hf as [-> Hn]. split; [reflexivity|].
    cbn [resp_reply conveys_resp conv_of].
    destruct (bytes_eqb t0 str_none) eqn:E; [apply bytes_eqb_eq in E; contradiction | reflexivity].
  - (* KKeys *)
    subst a. split.
    + cbn [json_tree conveys_json]. cbn. rewrite map_opt_vdata_mstr. reflexivity.
    + cbn [resp_reply conveys_resp conv_of]. rewrite bulks_map. reflexivity.
  - subst a. split; reflexivity.
  - subst a. split; reflexivity.
Qed.

(* ======================================================================================== *)
(* the RESP rendering of the step's abstract result is C01's modelled reply *)

Section Link.
Variable O : oracle.

Lemma res_obj_reply o wf kind prec :
  resp_reply (res_obj O o wf kind prec) = obj_reply O o wf kind prec.
Proof.
  unfold res_obj, obj_reply, object_reply, geo_reply, gv_of. cbn [resp_reply].
  destruct (kind =? RK_POINT); [destruct wf; reflexivity|].
  destruct (kind =? RK_BOUNDS); [destruct wf; reflexivity|].
  destruct (kind =? RK_HASH); destruct wf; reflexivity.
Qed.

Lemma obj_reply_render c o wf kind prec : render c (obj_reply O o wf kind prec) = obj_reply O o wf kind prec.
Proof.
  unfold obj_reply, object_reply, geo_reply.
  destruct wf; [reflexivity|].
  destruct (kind =? RK_POINT); [reflexivity|].
  destruct (kind =? RK_BOUNDS).
  - unfold bounds_reply. destruct (o_bounds O (o_geo o)) as [|a [|b [|x [|y [|]]]]]; reflexivity.
  - destruct (kind =? RK_HASH); reflexivity.
Qed.

Lemma set_kres c s key id fields ex nx xx rs g :
  render c (snd (fst (cmd_set O s key id fields ex nx xx rs g))) =
  resp_reply (snd (res_set O c s key id fields ex nx xx rs g)).
Proof.
  unfold cmd_set, res_set.
  destruct (get key s) as [cl|]; [|destruct xx; [reflexivity|]];
    (match goal with |- context [if ?b then _ else _] => destruct b end; [reflexivity|]);
    cbn [fst snd]; (destruct (rs_ret rs); [|reflexivity]);
    cbn [snd]; rewrite res_obj_reply; apply obj_reply_render.
Qed.

Lemma reenter_kres c e s key id json hk :
  res_reenter O c e s key id json = Some hk ->
  render c (snd (fst (reenter_set O e s key id json))) = resp_reply (snd hk).
Proof.
  unfold res_reenter, reenter_set.
  destruct (parse_set O e [kw_SET; key; id; kw_OBJECT; json]) as [q|msg| |]; try discriminate.
  - destruct q; try discriminate. intros H. inversion H; subst. apply set_kres.
  - intros H. inversion H; subst. reflexivity.
Qed.

Lemma run_req_kres c e s q hk s' r u :
  run_req O true e s q = Some (s', r, u) -> kres_of O c e s q = Some hk ->
  render c r = resp_reply (snd hk).
Proof.
  destruct q; cbn [run_req kres_of]; intros H1 H2.
  - (* SET *) inversion H1 as [E]; inversion H2; subst. rewrite <- (set_kres c). rewrite E. reflexivity.
  - (* FSET *)
    inversion H2; subst. clear H2. unfold cmd_fset in H1. unfold res_fset.
    destruct (get key s) as [cl|]; [|inversion H1; subst; reflexivity].
    destruct (get id cl) as [o|].
    + destruct (fold_left (fset_step O) fields (o_fields o, 0%Z)) as [ofields n].
      inversion H1; subst. destruct (rs_ret rs); [|reflexivity].
      cbn [snd]. rewrite res_obj_reply. apply obj_reply_render.
    + destruct xx; cbn [negb] in *.
      * rewrite andb_false_r in H1. inversion H1; subst. reflexivity.
      * inversion H1; subst. reflexivity.
  - (* DEL *)
    inversion H2; subst. unfold cmd_del in H1. unfold res_del.
    destruct (get key s) as [cl|]; [destruct (get id cl)|]; try destruct erron404; inversion H1; subst; reflexivity.
  - (* PDEL *)
    inversion H2; subst. unfold cmd_pdel in H1. unfold res_pdel.
    destruct (get key s); inversion H1; subst; reflexivity.
  - (* DROP *)
    inversion H2; subst. unfold cmd_drop in H1. destruct (get key s); inversion H1; subst; reflexivity.
  - (* RENAME *)
    inversion H2; subst. unfold cmd_rename in H1. unfold res_rename.
    destruct (get key s); [|inversion H1; subst; reflexivity].
    destruct (hook_guard e key newkey); [inversion H1; subst; reflexivity|].
    destruct (get newkey s); destruct nx; inversion H1; subst; reflexivity.
  - (* FLUSHDB *) inversion H1; inversion H2; subst. reflexivity.
  - (* EXPIRE *)
    inversion H2; subst. unfold cmd_expire in H1. unfold res_expire.
    destruct (get key s) as [cl|]; [destruct (get id cl)|]; inversion H1; subst; reflexivity.
  - (* PERSIST *)
    inversion H2; subst. unfold cmd_persist in H1. unfold res_persist.
    destruct (get key s) as [cl|]; [destruct (get id cl) as [o|]|]; try (inversion H1; subst; reflexivity).
    destruct (negb (o_ex o =? 0)%Z); inversion H1; subst; reflexivity.
  - (* JSET *)
    unfold cmd_jset in H1. unfold res_jset in H2.
    destruct (get key s) as [cl|].
    + destruct (o_sjson_set O raw
                  match get id cl with Some o => g_text (o_geo o) | None => [] end path val) as [json'|msg].
      * destruct (match get id cl with Some o => g_spatial (o_geo o) | None => false end).
        -- rewrite <- (reenter_kres c e s key id json' hk H2). inversion H1 as [E]. rewrite E. reflexivity.
        -- inversion H1; inversion H2; subst. reflexivity.
      * inversion H1; inversion H2; subst. reflexivity.
    + cbn [get] in *.
      destruct (o_sjson_set O raw [] path val) as [json'|msg]; inversion H1; inversion H2; subst; reflexivity.
  - (* JDEL *)
    unfold cmd_jdel in H1. unfold res_jdel in H2.
    destruct (get key s) as [cl|]; [|inversion H1; inversion H2; subst; reflexivity].
    destruct (o_sjson_del O match get id cl with Some o => g_text (o_geo o) | None => [] end path) as [njson|msg];
      [|inversion H1; inversion H2; subst; reflexivity].
    destruct (bytes_eqb njson match get id cl with Some o => g_text (o_geo o) | None => [] end);
      [inversion H1; inversion H2; subst; reflexivity|].
    destruct (match get id cl with Some o => g_spatial (o_geo o) | None => false end).
    + rewrite <- (reenter_kres c e s key id njson hk H2). inversion H1 as [E]. rewrite E. reflexivity.
    + inversion H1; inversion H2; subst. reflexivity.
  - (* GET *)
    inversion H2; subst. unfold find in H1. unfold find_miss.
    destruct (get key s) as [cl|]; [destruct (get id cl) as [o|]|]; inversion H1; subst; try reflexivity.
    cbn [snd]. rewrite res_obj_reply. apply obj_reply_render.
  - (* FGET *)
    inversion H2; subst. unfold find_miss.
    destruct (get key s) as [cl|]; [destruct (get id cl) as [o|]|]; inversion H1; subst; reflexivity.
  - (* EXISTS *)
    inversion H2; subst. destruct (get key s) as [cl|]; inversion H1; subst; try reflexivity.
    all: try (cbn [snd resp_reply]; unfold bool_reply; destruct (mem id cl); reflexivity).
  - (* FEXISTS *)
    inversion H2; subst. unfold find_miss.
    destruct (get key s) as [cl|]; [destruct (get id cl) as [o|]|]; inversion H1; subst; try reflexivity.
    all: try (cbn [snd resp_reply]; unfold bool_reply;
         destruct (negb (isempty (fst (fl_get (o_f O) (o_fields o) fname)))); reflexivity).
  - (* TTL *)
    inversion H2; subst. unfold find in H1. unfold find_miss.
    destruct (get key s) as [cl|]; [destruct (get id cl) as [o|]|]; inversion H1; subst; try reflexivity.
    all: try (cbn [snd resp_reply]; unfold ttl_reply; destruct (o_ex o =? 0)%Z; reflexivity).
  - (* TYPE *)
    inversion H2; subst. destruct (get key s); inversion H1; subst; reflexivity.
  - (* KEYS *) inversion H1; inversion H2; subst. reflexivity.
  - (* SCAN *) discriminate.
  - (* JGET *)
    inversion H2; subst. unfold find in H1. unfold find_miss.
    destruct (get key s) as [cl|]; [destruct (get id cl) as [o|]|]; try (inversion H1; subst; reflexivity).
    destruct (o_jget O (g_text (o_geo o)) path raw); inversion H1; subst; reflexivity.
Qed.

Lemma dispatch_k_dispatch e args :
  dispatch O e args =
  match dispatch_k O e args with
  | DKReq c w q => DReq c w q
  | DKOut k => DOut (resp_reply k)
  | DKUnmodelled => DOut RUnmodelled
  end.
Proof.
  unfold dispatch, dispatch_k. destruct args as [|a0 rest]; [reflexivity|].
  match goal with |- context [match ?g with Some msg => DOut _ | None => _ end] => destruct g end; [reflexivity|].
  destruct (parse_cmd O e (lower a0) (a0 :: rest)); reflexivity.
Qed.

(* one step in both views: same new state, same log record, and the RESP arm of the abstract
   result is exactly the reply of C01's handler model (so everything C01 proves about exec's
   replies and states holds for the RESP rendering, and the state effect does not depend on the
   output mode) *)
Theorem exec_k_exec e s args :
  match exec_k O e s args with
  | KDone s' c a h k log => exec O true e s args = Done s' (resp_reply k) log
  | KPanic => exec O true e s args = Panic
  | KUnmodelled => True
  end.
Proof.
  unfold exec_k, exec. rewrite dispatch_k_dispatch.
  destruct (dispatch_k O e args) as [c w q|k|]; [|reflexivity|exact I].
  destruct (run_req O true e s q) as [[[s' r] u]|] eqn:E1; [|reflexivity].
  destruct (kres_of O c e s q) as [[h k]|] eqn:E2; [|exact I].
  rewrite (run_req_kres c e s q (h, k) s' r u E1 E2). reflexivity.
Qed.

End Link.

(* ======================================================================================== *)
(* the results of a step are results its command can answer with *)

(* an error text that is literally one of JSON mode's "negative" texts would be read as a negative
   answer by a JSON client and as an error by a RESP client *)
Definition errs_distinct (a : ask) (k : kres) : Prop :=
  match k with KErr _ msg => is_one_of msg (neg_errs a) = false | _ => True end.

Section Fits.
Variable O : oracle.

Lemma gv_of_matches g kind prec : kind_matches kind (gv_of O g kind prec).
Proof.
  unfold gv_of.
  destruct (N.eqb_spec kind RK_POINT); [exact e|].
  destruct (N.eqb_spec kind RK_BOUNDS); [exact e|].
  destruct (N.eqb_spec kind RK_HASH); [exact e|].
  cbn. auto.
Qed.

Lemma res_obj_fits o wf kind prec :
  match res_obj O o wf kind prec with KObject gv fo => obj_fits kind wf gv fo | _ => False end.
Proof. unfold res_obj, obj_fits. split; [apply gv_of_matches | destruct wf; reflexivity]. Qed.

Lemma plain_set : is_one_of h_set plain_handlers = true. Proof. reflexivity. Qed.

Lemma res_set_fits c s key id fields ex nx xx rs g :
  let hk := res_set O c s key id fields ex nx xx rs g in
  fits c (if rs_ret rs then AObjSet (rs_kind rs) (rs_withfields rs) else ASet) (snd hk) /\ handler_ok (fst hk) (snd hk).
Proof.
  unfold res_set. cbn zeta.
  destruct (rs_ret rs).
  - destruct (get key s) as [cl|]; [|destruct xx; [split; exact I|]];
      (match goal with |- context [if ?b then _ else _] => destruct b end; [split; exact I|]);
      cbn [fst snd]; (split; [apply res_obj_fits | exact I]).
  - destruct (get key s) as [cl|]; [|destruct xx; [split; exact I|]];
      (match goal with |- context [if ?b then _ else _] => destruct b end; [split; exact I|]);
      cbn [fst snd]; (split; [exact I | reflexivity]).
Qed.

Lemma res_reenter_fits c e s key id json hk a :
  res_reenter O c e s key id json = Some hk -> (a = AAck \/ a = AJdel) -> errs_distinct a (snd hk) ->
  fits c a (snd hk) /\ handler_ok (fst hk) (snd hk).
Proof.
  unfold res_reenter.
  destruct (parse_set O e [kw_SET; key; id; kw_OBJECT; json]) as [q|msg| |] eqn:E; try discriminate.
  - destruct q; try discriminate. intros H Ha Hd. inversion H; subst. clear H.
    (* the re-entered SET has no NX / XX / RETURN: set_loop only sees OBJECT json *)
    assert (Hshape : nx = false /\ xx = false /\ rs_ret rs = false).
    { unfold parse_set in E. cbn [length set_loop] in E.
      change (bytes_eqb (lower kw_OBJECT) kw_field) with false in E.
      change (bytes_eqb (lower kw_OBJECT) kw_ex) with false in E.
      change (bytes_eqb (lower kw_OBJECT) kw_nx) with false in E.
      change (bytes_eqb (lower kw_OBJECT) kw_xx) with false in E.
      change (bytes_eqb (lower kw_OBJECT) kw_return) with false in E.
      change (bytes_eqb (lower kw_OBJECT) kw_string) with false in E.
      change (bytes_eqb (lower kw_OBJECT) kw_point) with false in E.
      change (bytes_eqb (lower kw_OBJECT) kw_bounds) with false in E.
      change (bytes_eqb (lower kw_OBJECT) kw_hash) with false in E.
      change (bytes_eqb (lower kw_OBJECT) kw_object) with true in E.
      cbn iota in E. unfold geo_or_err in E.
      destruct (o_mkgeo O GK_OBJECT [json]) as [g0|m0]; [|discriminate].
      cbn in E. inversion E; subst. auto. }
    destruct Hshape as (-> & -> & Hret).
    pose proof (res_set_fits c s key0 id0 fields ex false false rs g) as Hs. rewrite Hret in Hs.
    cbn zeta in Hs. destruct Hs as [Hf Hh]. split; [|exact Hh].
    unfold res_set in *. destruct (get key0 s); cbn [orb andb] in *; rewrite Hret in *; cbn [snd] in *;
      destruct Ha as [-> | ->]; exact I.
  - intros H Ha Hd. inversion H; subst. cbn [snd fst] in *. split; [split; [reflexivity | exact Hd] | exact I].
Qed.

Lemma ttl_not_m2 now ex : match ttl_reply now ex with RInt n => n <> (-2)%Z | _ => False end.
Proof. unfold ttl_reply. destruct (ex =? 0)%Z; lia. Qed.

Ltac fin := cbn [fst snd fits handler_ok errs_distinct neg_errs] in *; repeat split; auto; try reflexivity; try lia; try discriminate.

Theorem kres_of_fits c e s q hk a :
  kres_of O c e s q = Some hk -> ask_of q = Some a -> errs_distinct a (snd hk) ->
  fits c a (snd hk) /\ handler_ok (fst hk) (snd hk).
Proof.
  destruct q; cbn [kres_of ask_of]; intros H Ha Hd; inversion Ha; subst; clear Ha.
  - inversion H; subst. apply res_set_fits.
  - (* FSET *)
    inversion H; subst. clear H. unfold res_fset in *.
    destruct (get key s) as [cl|]; [destruct (get id cl) as [o|]|].
    + destruct (fold_left (fset_step O) fields (o_fields o, 0%Z)) as [ofields n].
      destruct (rs_ret rs); cbn [fst snd]; [split; [apply res_obj_fits | exact I] | fin].
    + destruct xx; cbn [negb] in *; destruct (rs_ret rs); fin.
    + destruct (rs_ret rs); fin.
  - (* DEL *)
    inversion H; subst. clear H. unfold res_del in *.
    destruct (get key s) as [cl|]; [destruct (get id cl)|]; try destruct erron404; fin.
  - inversion H; subst. unfold res_pdel. destruct (get key s); fin.
  - inversion H; subst. destruct (get key s); fin.
  - (* RENAME *)
    inversion H; subst. clear H. unfold res_rename in *.
    destruct (get key s); [destruct (hook_guard e key newkey)|]; [| destruct (get newkey s) |]; destruct nx; fin.
  - inversion H; subst. fin.
  - inversion H; subst. unfold res_expire.
    destruct (get key s) as [cl|]; [destruct (get id cl)|]; fin.
  - inversion H; subst. unfold res_persist.
    destruct (get key s) as [cl|]; [destruct (get id cl) as [o|]|]; try destruct (negb (o_ex o =? 0)%Z); fin.
  - (* JSET *)
    unfold res_jset in H.
    destruct (o_sjson_set O raw _ path val) as [json'|msg].
    + destruct (match get id _ with Some o => g_spatial (o_geo o) | None => false end).
      * eapply res_reenter_fits; eauto.
      * inversion H; subst. fin.
    + inversion H; subst. fin.
  - (* JDEL *)
    unfold res_jdel in H.
    destruct (get key s) as [cl|]; [|inversion H; subst; fin].
    destruct (o_sjson_del O _ path) as [njson|msg]; [|inversion H; subst; fin].
    destruct (bytes_eqb njson _); [inversion H; subst; fin|].
    destruct (match get id cl with Some o => g_spatial (o_geo o) | None => false end).
    + eapply res_reenter_fits; eauto.
    + inversion H; subst. fin.
  - (* GET *)
    inversion H; subst. destruct (find_miss s key id); cbn [fst snd]; [split; [apply res_obj_fits | exact I] | fin].
  - inversion H; subst. clear H. destruct (find_miss s key id); fin.
  - inversion H; subst. clear H. destruct (get key s); fin.
  - inversion H; subst. clear H. destruct (find_miss s key id); fin.
  - inversion H; subst. destruct (find_miss s key id) as [o|m]; [|fin].
    cbn [fst snd fits handler_ok]. split; [|exact I]. split; [reflexivity|].
    pose proof (ttl_not_m2 (e_now e) (o_ex o)) as Ht.
    destruct (ttl_reply (e_now e) (o_ex o)); try contradiction. exact Ht.
  - inversion H; subst. destruct (get key s); fin.
  - inversion H; subst. fin.
  - inversion H; subst. destruct (find_miss s key id); fin.
Qed.

End Fits.

(* ======================================================================================== *)
(* one step of the keyspace, everything together *)

Section StepAll.
Variable O : oracle.

Lemma exec_k_inv e s args s' c a h k log :
  exec_k O e s args = KDone s' c (Some a) h k log ->
  exists w q r u, dispatch_k O e args = DKReq c w q /\ run_req O true e s q = Some (s', r, u) /\
                  kres_of O c e s q = Some (h, k) /\ ask_of q = Some a.
Proof.
  unfold exec_k. destruct (dispatch_k O e args) as [c0 w q|k0|]; try discriminate.
  destruct (run_req O true e s q) as [[[s1 r] u]|] eqn:E1; [|discriminate].
  destruct (kres_of O c0 e s q) as [[h0 k1]|] eqn:E2; [|discriminate].
  intros H. inversion H; subst. exists w, q, r, u. auto.
Qed.

Theorem step_both_modes e s args s' c a h k log d :
  exec_k O e s args = KDone s' c (Some a) h k log ->
  kres_wf k -> errs_distinct a k -> string_safe d = true ->
  exec O true e s args = Done s' (resp_reply k) log /\
  (exists v, json_doc h k d = Some v /\ v = jprint (json_tree k d) /\ doc_instance v /\
             valid_json v = true /\ hasPrefix (ok_prefix (is_ok k)) v) /\
  (exists v, rval_of (resp_reply k) = Some v /\ RespOut.resp_wf v = true) /\
  conveys_json c a (json_tree k d) = Some (conv_of a k) /\
  conveys_resp a (resp_reply k) = Some (conv_of a k).
Proof.
  intros H Hk He Hd.
  pose proof (exec_k_exec O e s args) as Hx. rewrite H in Hx.
  destruct (exec_k_inv _ _ _ _ _ _ _ _ _ H) as (w & q & r & u & _ & _ & E2 & Ea).
  destruct (kres_of_fits O c e s q (h, k) a E2 Ea He) as [Hf Hh]. cbn [fst snd] in *.
  split; [exact Hx|]. split; [apply json_reply_valid; assumption|].
  split; [apply resp_reply_wf; exact Hk|]. apply modes_convey_same; assumption.
Qed.

(* an error raised before the handler's operation phase (gate, argument parsing) *)
Theorem step_early_error e s args s' c h k log a d :
  exec_k O e s args = KDone s' c None h k log ->
  kres_wf k -> errs_distinct a k -> string_safe d = true ->
  s' = s /\ log = [] /\ is_ok k = false /\
  exec O true e s args = Done s (resp_reply k) [] /\
  (exists v, json_doc h k d = Some v /\ v = jprint (json_tree k d) /\ doc_instance v /\ valid_json v = true) /\
  conveys_json c a (json_tree k d) = Some (conv_of a k) /\
  conveys_resp a (resp_reply k) = Some (conv_of a k).
Proof.
  intros H Hk He Hd.
  pose proof (exec_k_exec O e s args) as Hx. rewrite H in Hx.
  assert (Hshape : s' = s /\ log = [] /\ exists msg, k = KErr c msg).
  { unfold exec_k, dispatch_k in H. destruct args as [|a0 rest]; [discriminate|].
    match type of H with context [match ?g with Some msg => DKOut _ | None => _ end] => destruct g end.
    - inversion H; subst. eauto.
    - destruct (parse_cmd O e (lower a0) (a0 :: rest)) as [q|msg| |]; try discriminate.
      + destruct (run_req O true e s q) as [[[s1 r] u]|]; [|discriminate].
        destruct (kres_of O (lower a0) e s q) as [[h0 k1]|] eqn:E2; [|discriminate].
        inversion H as [[E3 E4 E5 E6 E7 E8]]. destruct q; cbn [ask_of] in E5; try discriminate E5.
        cbn [kres_of] in E2. discriminate E2.
      + inversion H; subst. eauto. }
  destruct Hshape as (-> & -> & msg & ->).
  repeat split; try exact Hx.
  all: try (apply modes_convey_same; [exact Hk | split; [reflexivity | exact He]]).
  destruct (json_reply_valid h (KErr c msg) d Hk I Hd) as (v & E & Ev & Hi & Hv & _). exists v. auto.
Qed.

End StepAll.

(* ======================================================================================== *)
(* where the two modes differ by design, and why the side conditions are needed *)

Definition c_persist_l : bytes := Eval compute in bs "persist"%string.

(* PERSIST: neither reply determines the other.  RESP :0 stands for "no such object" and for "no
   deadline to clear" (JSON: an error / ok); JSON ok stands for "cleared" and "nothing to clear"
   (RESP :1 / :0). *)
Lemma persist_incomparable d :
  (exists k1 k2, fits c_persist_l APersist k1 /\ fits c_persist_l APersist k2 /\
                 resp_reply k1 = resp_reply k2 /\ json_tree k1 d <> json_tree k2 d) /\
  (exists k1 k2, fits c_persist_l APersist k1 /\ fits c_persist_l APersist k2 /\
                 json_tree k1 d = json_tree k2 d /\ resp_reply k1 <> resp_reply k2).
Proof.
  split.
  - exists (KMiss (RInt 0) MissId), (KInt 0). repeat split; try reflexivity. discriminate.
  - exists (KInt 1), (KInt 0). repeat split; try reflexivity. discriminate.
Qed.

(* DEL / PDEL / DROP / RENAMENX / FSET: the count is carried by RESP only *)
Lemma count_only_in_resp c d :
  exists k1 k2, fits c ACount k1 /\ fits c ACount k2 /\
                json_tree k1 d = json_tree k2 d /\ resp_reply k1 <> resp_reply k2.
Proof. exists (KInt 1), (KInt 0). repeat split; try reflexivity. discriminate. Qed.

(* GET / EXPIRE / TTL / JGET: which of key and id is missing is carried by JSON only *)
Lemma missing_which_only_in_json c kind wf d :
  exists k1 k2, fits c (AObjGet kind wf) k1 /\ fits c (AObjGet kind wf) k2 /\
                resp_reply k1 = resp_reply k2 /\ json_tree k1 d <> json_tree k2 d.
Proof. exists (KMiss RNil MissKey), (KMiss RNil MissId). repeat split; try reflexivity. discriminate. Qed.

Definition c_jdel_l : bytes := Eval compute in bs "jdel"%string.

(* errs_distinct is needed: an error whose text is literally "path not found" (were sjson.Delete to
   return one) would be a negative answer to a JSON client of JDEL and an error to a RESP client *)
Lemma negative_text_error_refuted d :
  exists k, kres_wf k /\
    conveys_json c_jdel_l AJdel (json_tree k d) <> conveys_resp AJdel (resp_reply k).
Proof. exists (KErr c_jdel_l err_path_not_found). split; [reflexivity|]. vm_compute. discriminate. Qed.

(* the RESP reply, printed by resp.Value.MarshalRESP, is re-read exactly by a strict client *)
Theorem resp_reply_roundtrip k : kres_wf k ->
  exists v, rval_of (resp_reply k) = Some v /\ RespOut.resp_parse (RespOut.resp_print v) = Some (v, []).
Proof.
  intros Hk. destruct (resp_reply_wf k Hk) as (v & E & W). exists v. split; [exact E|].
  apply resp_valid_proof. exact W.
Qed.
