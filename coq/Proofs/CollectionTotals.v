(* Proofs/CollectionTotals.v — server totals (SERVER, SERVER EXT, /metrics) equal the recomputation
   from every retrievable object; hook-registry size equals what HOOKS * + CHANS * list (C19). *)
From Coq Require Import ZifyN ZifyNat ZifyBool.
From T38 Require Import Base.Bytes Model.Float32 Model.Collection Proofs.CollectionProofs.
From T38 Require Import Model.Fence Model.HookReg Proofs.FenceRegProofs.
Import ListNotations.
Local Open Scope Z_scope.

Lemma zsum_app {A} (f : A -> Z) l1 l2 : zsum f (l1 ++ l2) = zsum f l1 + zsum f l2.
Proof. unfold zsum. induction l1 as [|a l IH]; cbn; [reflexivity|]. rewrite IH. lia. Qed.

Lemma zsum_cons {A} (f : A -> Z) a l : zsum f (a :: l) = f a + zsum f l.
Proof. reflexivity. Qed.

Lemma zsum_flat {A B} (g : A -> Z) (f : B -> Z) (p : A -> list B) l :
  (forall a, In a l -> g a = zsum f (p a)) -> zsum g l = zsum f (flat_map p l).
Proof.
  induction l as [|a l IH]; intros H; [reflexivity|].
  cbn [flat_map]. rewrite zsum_cons, zsum_app, (H a (or_introl eq_refl)), IH; [reflexivity|].
  intros b Hb. apply H. right. exact Hb.
Qed.

Lemma zsum_ones {A} (l : list A) : zsum (fun _ => 1) l = Z.of_nat (length l).
Proof. induction l as [|a l IH]; [reflexivity|]. rewrite zsum_cons, IH. cbn [length]. lia. Qed.

Lemma server_totals (cs : cols) : Forall (fun kc => Wf (snd kc)) cs ->
  srv_num_objects cs = Z.of_nat (length (all_objs cs)) /\
  srv_num_strings cs = zsum (fun o => b2z (negb (o_spatial o))) (all_objs cs) /\
  srv_num_points cs = zsum o_npoints (all_objs cs) /\
  srv_in_memory_size cs = zsum o_weight (all_objs cs).
Proof.
  intros W. rewrite Forall_forall in W.
  unfold srv_num_objects, srv_num_strings, srv_num_points, srv_in_memory_size, all_objs.
  repeat split.
  - rewrite <- zsum_ones. apply zsum_flat. intros kc Hk.
    destruct (counters_agree (snd kc) (W kc Hk)) as (C1 & _). rewrite C1, zsum_ones. reflexivity.
  - apply zsum_flat. intros kc Hk. apply (counters_agree (snd kc) (W kc Hk)).
  - apply zsum_flat. intros kc Hk. apply (counters_agree (snd kc) (W kc Hk)).
  - apply zsum_flat. intros kc Hk. apply (counters_agree (snd kc) (W kc Hk)).
Qed.

(* when no registered collection is empty (what DEL/PDEL/expiry/DROP maintain and what seeded change
   C19/1 breaks), num_collections counts exactly the keys that hold a retrievable object *)
Lemma num_collections_live (cs : cols) : (forall kc, In kc cs -> scan_ids (snd kc) <> []) ->
  srv_num_collections cs = Z.of_nat (length (filter (fun kc => negb (Nat.eqb (length (scan_ids (snd kc))) 0)) cs)).
Proof.
  intros H. unfold srv_num_collections. f_equal. f_equal.
  induction cs as [|kc cs IH]; [reflexivity|]. cbn.
  destruct (scan_ids (snd kc)) eqn:E.
  - exfalso. apply (H kc); [left; reflexivity | exact E].
  - cbn. f_equal. apply IH. intros k Hk. apply H. right. exact Hk.
Qed.

(* hooks: num_hooks = s.hooks.Len(); HOOKS * lists the hooks, CHANS * the channels of the same
   registry; names are unique after any history of SETHOOK/SETCHAN/DEL*/PDEL*/FLUSHDB/expiry *)
Definition num_hooks (r : reg) : nat := length (hooks r).
Definition hooks_listing (r : reg) : list hook := filter (fun h => negb (h_chan h)) (hooks r).
Definition chans_listing (r : reg) : list hook := filter (fun h => h_chan h) (hooks r).

Lemma filter_partition_length {A} (f : A -> bool) l :
  length l = (length (filter (fun x => negb (f x)) l) + length (filter f l))%nat.
Proof. induction l as [|a l IH]; cbn; [reflexivity|]. destruct (f a); cbn; lia. Qed.

Lemma hook_totals ops :
  let r := reg_run ops in
  num_hooks r = (length (hooks_listing r) + length (chans_listing r))%nat /\
  NoDup (map h_name (hooks r)) /\
  (forall h, In h (hookExpires r) -> In h (hooks r)) /\
  (forall h, In h (hookTree r) -> In h (hooks r)) /\
  (forall h, In h (hookCross r) -> In h (hooks r)) /\
  (forall h, In h (hooksOut r) -> In h (hooks r)).
Proof.
  cbv zeta. pose proof (registry_inv ops) as I. destruct I as [I1 I2 I3 I4 I5].
  split; [apply filter_partition_length|]. split; [exact I1|].
  repeat split; intros h Hh.
  - apply I5 in Hh. tauto.
  - apply I3 in Hh. tauto.
  - apply I4 in Hh. tauto.
  - apply I2 in Hh. tauto.
Qed.
