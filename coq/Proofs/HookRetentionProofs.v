(* C10 — proofs about the retention of freshly queued webhook messages (Model/HookRetention.v). *)
From Coq Require Import String List NArith ZArith Bool Arith Lia.
From Coq Require Import ZifyN ZifyNat ZifyBool.
From T38 Require Import Model.Queues Proofs.QueuesHookProofs Gen.HookRetention Model.HookRetention.
Import ListNotations.

(* ---- with the 30 s in the shared record, queueHooks is Queues.enqueue ---- *)

Lemma enqueue_d_default : forall now msgs q, enqueue_d hook_ttl now msgs q = enqueue now msgs q.
Proof.
  intros now msgs. induction msgs as [|[h m] r IH]; intros q; [reflexivity|].
  cbn [enqueue_d enqueue]. apply IH.
Qed.

(* ---- a retry path with options of its own never touches the shared record, and the model with the
        record as state is the model of Queues.v ---- *)

Lemma rstep_own : forall d0 s ev, r_def s = d0 ->
  r_def (rstep RetryOwn d0 s ev) = d0 /\
  (d0 = hook_ttl -> r_q (rstep RetryOwn d0 s ev) = qstep (r_q s) ev).
Proof.
  intros d0 s [now msgs|h now outs|now] Hd.
  - cbn [rstep r_def r_q qstep]. split; [exact Hd|]. intros E. rewrite Hd, E. apply enqueue_d_default.
  - cbn [rstep]. destruct (q_taken (r_q s) h) as [tk|] eqn:ET; cbn [r_def r_q retry_default]; split; auto.
  - cbn [rstep r_def r_q]. split; auto.
Qed.

Lemma rrun_own : forall evs d0 s, r_def s = d0 ->
  r_def (rrun RetryOwn d0 s evs) = d0 /\
  (d0 = hook_ttl -> r_q (rrun RetryOwn d0 s evs) = qrun (r_q s) evs).
Proof.
  induction evs as [|ev r IH]; intros d0 s Hd; [split; auto|].
  cbn [rrun fold_left]. fold (rrun RetryOwn d0 (rstep RetryOwn d0 s ev) r).
  destruct (rstep_own d0 s ev Hd) as (H1 & H2).
  destruct (IH d0 _ H1) as (H3 & H4). split; [exact H3|].
  intros E. rewrite (H4 E), (H2 E). reflexivity.
Qed.

(* the shared default is 30 s at every instant of every history *)
Theorem own_default_constant : forall evs,
  r_def (rrun RetryOwn hook_ttl (rq_init hook_ttl) evs) = hook_ttl.
Proof. intros evs. apply (rrun_own evs hook_ttl (rq_init hook_ttl) eq_refl). Qed.

(* ... so Model/Queues.v (which writes `now + hook_ttl`) is this model: every C10 theorem about qrun is a
   theorem about the queue with the options record as state *)
Theorem own_refines_queues : forall evs,
  r_q (rrun RetryOwn hook_ttl (rq_init hook_ttl) evs) = qrun hq_init evs.
Proof. intros evs. apply (rrun_own evs hook_ttl (rq_init hook_ttl) eq_refl). reflexivity. Qed.

(* every message got 30 s when it was queued, whatever happened before *)
Theorem own_fresh_ttls : forall evs s, r_def s = hook_ttl ->
  Forall (fun mt => snd mt = hook_ttl) (fresh_ttls RetryOwn hook_ttl s evs).
Proof.
  induction evs as [|ev r IH]; intros s Hd; [constructor|].
  cbn [fresh_ttls]. apply Forall_app. split.
  - destruct ev; try constructor. apply Forall_forall. intros x Hx. apply in_map_iff in Hx.
    destruct Hx as (hm & <- & _). exact Hd.
  - apply IH. apply (rstep_own hook_ttl s ev Hd).
Qed.

(* ---- an entry is not lost before its expiry time ---- *)

Lemma delivered_mono : forall q ev h e, HInv q ->
  In e (q_delivered q h) -> In e (q_delivered (qstep q ev) h).
Proof.
  intros q [now msgs|h0 now outs|now] h e H Hin.
  - cbn [qstep]. destruct (enqueue_spec now msgs q H) as (_ & _ & _ & Hdl & _). rewrite Hdl. exact Hin.
  - cbn [qstep]. destruct (q_taken q h0) as [tk|]; [destruct (send_all outs tk) as [sent unsent]|];
      cbn [q_delivered]; [|exact Hin].
    destruct (N.eq_dec h h0) as [->|Hne].
    + rewrite updf_same. apply in_or_app. left. exact Hin.
    + rewrite updf_other by exact Hne. exact Hin.
  - cbn [qstep q_delivered]. exact Hin.
Qed.

Lemma retained_run : forall post q h e, HInv q -> PInv q -> quiet q post ->
  Forall (fun ev => (qtime ev < e_exat e)%Z) post ->
  In e (q_delivered q h) \/ In e (pending q h) ->
  In e (q_delivered (qrun q post) h) \/ In e (pending (qrun q post) h).
Proof.
  induction post as [|ev r IH]; intros q h e H HP HQ Ht Hin; [exact Hin|].
  cbn [qrun fold_left]. fold (qrun (qstep q ev) r).
  cbn [quiet] in HQ. destruct HQ as (HQ1 & HQ2). inversion Ht as [|? ? Ht1 Ht2]; subst.
  apply IH; [apply qstep_hinv; assumption | apply qstep_pinv; assumption | exact HQ2 | exact Ht2 |].
  destruct Hin as [Hin|Hin].
  - left. apply delivered_mono; assumption.
  - assert (HR : forall now, ev = Restart now -> q_taken q h = None).
    { intros now ->. apply HQ1. }
    destruct (ttl_only_loss q ev h e H HR Hin) as [A|[A|A]]; [right; exact A | left; exact A | lia].
Qed.

(* A message queued at time t is owed to its hook -- delivered, being sent or queued -- at every later instant
   before t + 30 s, whatever the history before the write was (any number of failed deliveries, outages of any
   length, restarts, expired entries) and whatever happens after it (further failures of this or any other
   hook, restarts at quiet instants). *)
Theorem own_queued_retained : forall pre t msgs post h m,
  let s1 := rrun RetryOwn hook_ttl (rq_init hook_ttl) (pre ++ [Enq t msgs]) in
  let q := r_q (rrun RetryOwn hook_ttl s1 post) in
  quiet (r_q s1) post ->
  Forall (fun ev => (qtime ev < t + hook_ttl)%Z) post ->
  In (h, m) msgs ->
  exists e, e_hook e = h /\ e_msg e = m /\ e_exat e = (t + hook_ttl)%Z /\
            (In e (q_delivered q h) \/ In e (pending q h)).
Proof.
  intros pre t msgs post h m s1 q HQ Ht Hin.
  assert (Hs1 : r_def s1 = hook_ttl) by apply (rrun_own (pre ++ [Enq t msgs]) hook_ttl (rq_init hook_ttl) eq_refl).
  assert (Eq1 : r_q s1 = qrun hq_init (pre ++ [Enq t msgs])) by apply own_refines_queues.
  assert (Eq : q = qrun (r_q s1) post).
  { unfold q. apply (rrun_own post hook_ttl s1 Hs1). reflexivity. }
  assert (E2 : r_q s1 = enqueue t msgs (qrun hq_init pre)).
  { rewrite Eq1. unfold qrun. rewrite fold_left_app. reflexivity. }
  set (q1 := qrun hq_init pre) in *.
  assert (H1 : HInv q1) by apply qrun_hinv.
  assert (P1 : PInv q1) by apply qidx_persisted.
  destruct (enqueue_spec t msgs q1 H1) as (H2 & _ & _ & _ & P2 & Hdb).
  destruct (Hdb h) as (news & Edb & Emsg & Eex).
  assert (Hm : In m (map e_msg news)).
  { rewrite Emsg. apply in_map_iff. exists (h, m). split; [reflexivity|].
    apply filter_In. split; [exact Hin|]. cbn [fst]. apply N.eqb_refl. }
  apply in_map_iff in Hm. destruct Hm as (e & Em & He).
  assert (Hp : In e (pending (enqueue t msgs q1) h)).
  { unfold pending. apply in_or_app. right. rewrite Edb. apply in_or_app. right. exact He. }
  assert (Hh : e_hook e = h).
  { pose proof (hi_hook _ H2 h) as Hk. rewrite Forall_forall in Hk. apply Hk.
    unfold line. apply in_or_app. right. exact Hp. }
  assert (Hx : e_exat e = (t + hook_ttl)%Z) by (rewrite Forall_forall in Eex; apply Eex; exact He).
  exists e. split; [exact Hh|]. split; [exact Em|]. split; [exact Hx|].
  rewrite Eq, E2. apply retained_run.
  - exact H2.
  - apply P2. exact P1.
  - rewrite <- E2. exact HQ.
  - rewrite Hx. exact Ht.
  - right. exact Hp.
Qed.

(* ---- the retry path that assigns through the shared pointer: refuted ----
   t=0 one message for hook 1; its delivery fails at t=29 s, the entry is put back with 1 s left, and the shared
   record now says 1 s.  A second message queued at t=29.5 s gets 1 s instead of 30 s: at t=31 s -- 1.5 s after
   it was queued, the endpoint is healthy again -- it is neither delivered nor owed any more. *)
Theorem through_default_loses : exists pre t msgs post h m,
  let s1 := rrun RetryThroughDefault hook_ttl (rq_init hook_ttl) (pre ++ [Enq t msgs]) in
  let q := r_q (rrun RetryThroughDefault hook_ttl s1 post) in
  quiet (r_q s1) post /\
  Forall (fun ev => (qtime ev < t + hook_ttl)%Z) post /\
  In (h, m) msgs /\
  ~ In m (map e_msg (q_delivered q h ++ pending q h)) /\
  r_def s1 = 1000%Z.
Proof.
  exists [Enq 0 [(1, 10)]; Mgr 1 1 []; Mgr 1 29000 [false]]%N%Z, 29500%Z, [(1, 11)]%N,
         [Mgr 1 31000 []; Mgr 1 31001 []]%N%Z, 1%N, 11%N.
  cbv zeta. split; [|split; [|split; [|split]]].
  - cbn [quiet]. tauto.
  - repeat (apply Forall_cons; [cbn [qtime]; unfold hook_ttl; lia|]). apply Forall_nil.
  - left. reflexivity.
  - vm_compute. intros H. exact H.
  - vm_compute. reflexivity.
Qed.

(* ---- the source ---- *)

(* what t38x read from internal/server: one shared options record with Expires = true; queueHooks stores with
   it; Hook.proc re-inserts with one Tx.Set, TTL = ttls[i] - time.Since(start); nothing outside Hook.proc
   writes to the record or lets the pointer escape *)
Lemma source_shape : source_shape_ok = true.
Proof. vm_compute. reflexivity. Qed.

(* the record is initialised with the 30 s of the property *)
Lemma source_default_30s : source_default = hook_ttl.
Proof. vm_compute. reflexivity. Qed.

(* Hook.proc builds its own options value: no statement of it writes through the shared record *)
Lemma source_retry_own : source_retry = RetryOwn.
Proof. vm_compute. reflexivity. Qed.

Theorem source_nothing_writes_default : setopts_writes = [].
Proof. vm_compute. reflexivity. Qed.

Theorem source_queued_retained : forall pre t msgs post h m,
  let s1 := rrun source_retry source_default (rq_init source_default) (pre ++ [Enq t msgs]) in
  let q := r_q (rrun source_retry source_default s1 post) in
  quiet (r_q s1) post ->
  Forall (fun ev => (qtime ev < t + hook_ttl)%Z) post ->
  In (h, m) msgs ->
  exists e, e_hook e = h /\ e_msg e = m /\ e_exat e = (t + hook_ttl)%Z /\
            (In e (q_delivered q h) \/ In e (pending q h)).
Proof. rewrite source_retry_own, source_default_30s. exact own_queued_retained. Qed.

Theorem source_refines_queues : forall evs,
  source_shape_ok = true /\
  r_def (rrun source_retry source_default (rq_init source_default) evs) = hook_ttl /\
  r_q (rrun source_retry source_default (rq_init source_default) evs) = qrun hq_init evs.
Proof.
  intros evs. rewrite source_retry_own, source_default_30s.
  split; [exact source_shape|]. split; [apply own_default_constant | apply own_refines_queues].
Qed.
