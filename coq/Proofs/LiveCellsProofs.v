(* C07 — what a live fence consumer reads for entry i is the details of write i (Model/LiveCells.v). *)
From Coq Require Import String List NArith Bool Arith Lia.
From T38 Require Import Gen.Mutators Model.LiveCells.
From T38 Require Model.Tables.
Import ListNotations.
Open Scope list_scope.

Lemma cell_eqb_eq a b : cell_eqb a b = true <-> a = b.
Proof.
  destruct a as [s1 n1], b as [s2 n2]. unfold cell_eqb. cbn [fst snd]. rewrite andb_true_iff.
  rewrite String.eqb_eq, Nat.eqb_eq. split; [intros [-> ->]; reflexivity | intros H; inversion H; auto].
Qed.

Section Table.
Variable tbl : list (string * (bool * string)).
Hypothesis all_fresh : forallb (fun e => fst (snd e)) tbl = true.

Lemma listed_site_fresh site : existsb (String.eqb site) (map fst tbl) = true -> site_fresh_in tbl site = true.
Proof.
  unfold site_fresh_in. revert all_fresh. induction tbl as [|[k [b h]] r IH]; cbn; [discriminate|].
  intros Hf. apply andb_true_iff in Hf. destruct Hf as (Hb & Hr). cbn in Hb. subst b.
  rewrite (String.eqb_sym site k). destruct (String.eqb k site); [reflexivity|]. cbn. intros H. apply IH; assumption.
Qed.

(* cells in the store were allocated by earlier pushes *)
Definition store_bounded (s : cq) : Prop := forall c v, In (c, v) (cq_store s) -> snd c < cq_npush s.
Definition queue_bounded (s : cq) : Prop := forall c, In c (cq_queue s) -> snd c < cq_npush s.

Lemma read_other st c c' v : c' <> c -> cq_read ((c', v) :: st) c = cq_read st c.
Proof.
  intros H. cbn. destruct (cell_eqb c' c) eqn:E; [|reflexivity]. apply cell_eqb_eq in E. contradiction.
Qed.

Lemma read_self st c v : cq_read ((c, v) :: st) c = v.
Proof. cbn. replace (cell_eqb c c) with true; [reflexivity|]. symmetry. apply cell_eqb_eq. reflexivity. Qed.

Lemma view_run_gen : forall evs s,
  forallb (cev_site_in tbl) evs = true -> store_bounded s -> queue_bounded s ->
  cq_view (fold_left (cq_step tbl) evs s) = cq_view s ++ cq_pushed evs.
Proof.
  induction evs as [|ev r IH]; intros s Hin Hs Hq; [cbn; symmetry; apply app_nil_r|].
  cbn [forallb] in Hin. apply andb_true_iff in Hin. destruct Hin as (Hev & Hin).
  cbn [fold_left]. destruct ev as [site v|].
  - cbn [cev_site_in] in Hev. cbn [cq_step]. rewrite (listed_site_fresh site Hev).
    rewrite IH; [| exact Hin | |].
    + cbn [cq_pushed]. unfold cq_view. cbn [cq_out cq_store cq_queue].
      rewrite map_app. cbn [map]. rewrite read_self.
      assert (E : map (cq_read ((site, cq_npush s, v) :: cq_store s)) (cq_queue s) =
                  map (cq_read (cq_store s)) (cq_queue s)).
      { apply map_ext_in. intros c Hc. apply read_other. intros E. subst c.
        specialize (Hq _ Hc). cbn [snd] in Hq. lia. }
      rewrite E. rewrite <- !app_assoc. reflexivity.
    + intros c v' H. cbn [cq_store cq_npush] in *. destruct H as [H|H].
      * inversion H; subst. cbn [snd]. lia.
      * specialize (Hs _ _ H). lia.
    + intros c H. cbn [cq_queue cq_npush] in *. apply in_app_or in H. destruct H as [H|[H|[]]].
      * specialize (Hq _ H). lia.
      * subst c. cbn [snd]. lia.
  - cbn [cq_step cq_pushed]. destruct (cq_queue s) as [|c q] eqn:Eq.
    + apply IH; assumption.
    + rewrite IH; [| exact Hin | |].
      * f_equal. unfold cq_view. cbn [cq_out cq_store cq_queue]. rewrite Eq. cbn [map].
        rewrite <- app_assoc. reflexivity.
      * intros c' v' H. cbn [cq_store cq_npush] in *. apply (Hs _ _ H).
      * intros c' H. cbn [cq_queue cq_npush] in *. apply Hq. rewrite Eq. right. exact H.
Qed.

Theorem cells_view_is_log : forall evs,
  forallb (cev_site_in tbl) evs = true -> cq_view (cq_run tbl evs) = cq_pushed evs.
Proof.
  intros evs H. unfold cq_run. rewrite view_run_gen; [reflexivity | exact H | |]; intros c; cbn; tauto.
Qed.
End Table.

(* the source as it is now: every site hands over a cell of its own *)
Lemma source_cells_fresh : forallb (fun e => fst (snd e)) queue_cells = true.
Proof. vm_compute. reflexivity. Qed.

(* any history of logged writes coming from the push sites of the source and of deliveries, any
   interleaving: what the consumer has read ++ what it would read for the pending entries = the
   details of the logged writes, in log order — entry i carries the details of write i *)
Theorem live_entry_is_its_write : forall evs,
  forallb (cev_site_in queue_cells) evs = true ->
  cq_view (cq_run queue_cells evs) = cq_pushed evs.
Proof. exact (cells_view_is_log queue_cells source_cells_fresh). Qed.

Corollary live_reads_are_log_prefix : forall evs,
  forallb (cev_site_in queue_cells) evs = true ->
  exists rest, cq_pushed evs = cq_out (cq_run queue_cells evs) ++ rest.
Proof.
  intros evs H. rewrite <- (live_entry_is_its_write evs H). unfold cq_view. eexists. reflexivity.
Qed.

(* refutation of the other discipline: a site whose variable outlives the iteration; one pass pushes
   three deletes, the consumer runs afterwards and reads the last one three times *)
Lemma shared_cell_refuted :
  let tbl := [("expire.go:loop", (false, "&d: declared outside the loop"))] in
  let evs := [CPush "expire.go:loop" 1%N; CPush "expire.go:loop" 2%N; CPush "expire.go:loop" 3%N;
              CDeliver; CDeliver; CDeliver] in
  forallb (cev_site_in tbl) evs = true /\
  cq_out (cq_run tbl evs) = [3%N; 3%N; 3%N] /\ cq_pushed evs = [1%N; 2%N; 3%N].
Proof. vm_compute. repeat split. Qed.
