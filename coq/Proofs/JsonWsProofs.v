(* C17 — the WebSocket frame written for a payload decodes back to that payload, for every length. *)
From Coq Require Import ZifyN ZifyNat ZifyBool.
From T38 Require Import Base.Bytes Model.WsFrame.
Open Scope N_scope.

Lemma be_val_be_bytes k : forall n acc,
  be_val (be_bytes k n) acc = acc * 256 ^ N.of_nat k + n mod 256 ^ N.of_nat k.
Proof.
  induction k as [|k IH]; intros n acc.
  - cbn [be_bytes be_val]. change (N.of_nat 0) with 0. rewrite N.pow_0_r, N.mod_1_r. lia.
  - cbn [be_bytes be_val]. rewrite IH.
    replace (N.of_nat (S k)) with (N.succ (N.of_nat k)) by lia.
    rewrite N.pow_succ_r by lia.
    set (B := 256 ^ N.of_nat k).
    assert (HB : B <> 0) by (apply N.pow_nonzero; lia).
    replace (256 * B) with (B * 256) by lia.
    rewrite (N.mod_mul_r n B 256) by lia. lia.
Qed.

Lemma be_bytes_length k n : length (be_bytes k n) = k.
Proof. induction k; cbn; auto. Qed.

Lemma firstn_be k n p : firstn k (be_bytes k n ++ p) = be_bytes k n.
Proof.
  rewrite <- (be_bytes_length k n) at 1. rewrite firstn_app, Nat.sub_diag, firstn_all. cbn. apply app_nil_r.
Qed.

Lemma skipn_be k n p : skipn k (be_bytes k n ++ p) = p.
Proof.
  rewrite <- (be_bytes_length k n) at 1. rewrite skipn_app, Nat.sub_diag, skipn_all. reflexivity.
Qed.

(* Go's len() is an int: below 2^63 *)
Theorem ws_frame_roundtrip_proof : forall payload,
  N.of_nat (length payload) < 2 ^ 63 -> ws_decode (ws_frame payload) = Some payload.
Proof.
  intros p Hlen. unfold ws_frame, ws_header.
  set (n := N.of_nat (length p)) in *.
  destruct (N.leb_spec n 125) as [H1|H1].
  - cbn [app ws_decode]. change (129 =? 129) with true. cbn [negb].
    destruct (N.leb_spec n 125); [|lia]. fold n. rewrite N.eqb_refl. reflexivity.
  - destruct (N.leb_spec n 65535) as [H2|H2].
    + change (129 :: 126 :: be_bytes 2 n) with ([129; 126] ++ be_bytes 2 n).
      rewrite <- app_assoc. cbn [app ws_decode]. change (129 =? 129) with true. cbn [negb].
      change (126 <=? 125) with false. change (126 =? 126) with true. cbn iota.
      rewrite firstn_be, skipn_be, be_val_be_bytes.
      replace (length (be_bytes 2 n ++ p) <? 2)%nat with false
        by (symmetry; apply Nat.ltb_ge; rewrite app_length, be_bytes_length; lia).
      change (N.of_nat 2) with 2. change (256 ^ 2) with 65536.
      rewrite N.mod_small by lia. cbn [N.mul N.add].
      destruct (N.ltb_spec n 126); [lia|]. fold n. rewrite N.eqb_refl. reflexivity.
    + change (129 :: 127 :: be_bytes 8 n) with ([129; 127] ++ be_bytes 8 n).
      rewrite <- app_assoc. cbn [app ws_decode]. change (129 =? 129) with true. cbn [negb].
      change (127 <=? 125) with false. change (127 =? 126) with false. change (127 =? 127) with true. cbn iota.
      rewrite firstn_be, skipn_be, be_val_be_bytes.
      replace (length (be_bytes 8 n ++ p) <? 8)%nat with false
        by (symmetry; apply Nat.ltb_ge; rewrite app_length, be_bytes_length; lia).
      change (N.of_nat 8) with 8.
      assert (H64 : 2 ^ 63 < 256 ^ 8) by (vm_compute; reflexivity).
      rewrite N.mod_small by lia. cbn [N.mul N.add].
      destruct (N.ltb_spec n 65536); [lia|]. fold n. rewrite N.eqb_refl. reflexivity.
Qed.

(* the length switch is exact at its boundaries: 125 is the last 7-bit length, 126 the first 16-bit
   one, 65535 the last 16-bit one, 65536 the first 64-bit one *)
Lemma ws_header_boundaries :
  ws_header 125 = [129; 125] /\ ws_header 126 = [129; 126; 0; 126] /\
  ws_header 65535 = [129; 126; 255; 255] /\ ws_header 65536 = [129; 127; 0; 0; 0; 0; 0; 1; 0; 0].
Proof. vm_compute. auto. Qed.

(* the off-by-one variant (<= 126 in the first test) does not round-trip: a 126 byte payload *)
Definition ws_header_126 (n : N) : bytes :=
  if n <=? 126 then [129; n]
  else if n <=? 65535 then 129 :: 126 :: be_bytes 2 n
  else 129 :: 127 :: be_bytes 8 n.

Lemma ws_header_126_refuted :
  exists p, ws_decode (ws_header_126 (N.of_nat (length p)) ++ p) <> Some p.
Proof. exists (repeat 123 126). vm_compute. discriminate. Qed.
