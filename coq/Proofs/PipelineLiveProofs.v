(* Lemmas about Model/PipelineLive.v: the connection across the hand-over to live mode.
   - live_run_spec: for every parser, every live-command classifier and every hand-over that keeps the
     carry-over buffer, a run in which nothing parsed stayed unhandled is the specification applied to
     conn_run of the same chunks; with the chunking theorem of PipelineProofs.v the outcome is a function
     of the concatenated bytes alone.
   - repaired_acted_all: the repaired hand-over never leaves anything unhandled.
   - handover_keeps_reader / handover_keeps_rest / live_loop_msgs_before_error: the obligations over the facts
     the translator reads off the source (Gen/LiveHandover.v): the live loop reads from the reader of
     netServe, buffer included; the rest of the hand-over read and its error are handed to it; it handles the
     messages of a read before the read's error.  Together: ho_source = ho_repaired. *)
From Coq Require Import ZifyN ZifyNat ZifyBool.
From T38 Require Import Base.Bytes Model.Resp Model.Pipeline Model.PipelineLive Model.HandoverFacts
  Proofs.RespProofs Proofs.PanicProofs Proofs.PipelineProofs.
From T38 Require Gen.LiveHandover.
Local Open Scope Z_scope.

(* ---------- the source keeps the reader ---------- *)
Definition source_reader_survives : bool :=
  reader_survives Gen.LiveHandover.handover_read_reader Gen.LiveHandover.handover_golive_reader
    Gen.LiveHandover.handover_assigns Gen.LiveHandover.handover_reader_calls Gen.LiveHandover.live_readers.

Definition source_rest_kept : bool :=
  rest_kept Gen.LiveHandover.handover_read_reader Gen.LiveHandover.handover_loop_var
    Gen.LiveHandover.handover_reader_method_calls Gen.LiveHandover.reader_methods
    Gen.LiveHandover.readmessages_head Gen.LiveHandover.readmessages_tail.
Definition source_live_err_after_msgs : bool := live_err_after_msgs Gen.LiveHandover.live_subscription_loop.

(* the hand-over of the source as the model sees it: all three flags are computed from the extracted facts *)
Definition ho_source : handover :=
  {| ho_keep_buf := source_reader_survives;
     ho_pass_rest := source_rest_kept;
     ho_live_err_keeps := source_live_err_after_msgs |}.

Lemma handover_keeps_reader : source_reader_survives = true.
Proof. vm_compute. reflexivity. Qed.

Lemma handover_keeps_rest : source_rest_kept = true.
Proof. vm_compute. reflexivity. Qed.

Lemma live_loop_msgs_before_error : source_live_err_after_msgs = true.
Proof. vm_compute. reflexivity. Qed.

Lemma ho_source_keeps_buf : ho_keep_buf ho_source = true.
Proof. exact handover_keeps_reader. Qed.

Lemma ho_source_repaired : ho_source = ho_repaired.
Proof.
  unfold ho_source, ho_repaired.
  rewrite handover_keeps_reader, handover_keeps_rest, live_loop_msgs_before_error. reflexivity.
Qed.

(* ---------- split_live ---------- *)
Section Live.
  Variable parse : bytes -> cres.
  Variable golive : msg -> bool.

  Lemma split_live_app_none a b pre : split_live golive a = (pre, None) ->
    split_live golive (a ++ b) = (let (p, r) := split_live golive b in (pre ++ p, r)).
  Proof.
    revert pre. induction a as [|m a IH]; intros pre H; cbn [split_live app] in *.
    - inversion H; subst. destruct (split_live golive b); reflexivity.
    - destruct (golive m); [discriminate|].
      destruct (split_live golive a) as [p r] eqn:S. inversion H; subst.
      rewrite (IH p eq_refl). destruct (split_live golive b); reflexivity.
  Qed.

  Lemma split_live_app_some a b pre post : split_live golive a = (pre, Some post) ->
    split_live golive (a ++ b) = (pre, Some (post ++ b)).
  Proof.
    revert pre. induction a as [|m a IH]; intros pre H; cbn [split_live app] in *; [discriminate|].
    destruct (golive m).
    - inversion H; subst. reflexivity.
    - destruct (split_live golive a) as [p r] eqn:S. inversion H; subst.
      rewrite (IH p eq_refl). reflexivity.
  Qed.

  (* ---------- conn_run with an accumulator ---------- *)
  Definition cprepend (ms : list msg) (r : conn_res) : conn_res :=
    match r with
    | Open ms' b => Open (ms ++ ms') b
    | Closed ms' e => Closed (ms ++ ms') e
    | other => other
    end.

  Lemma conn_run_acc : forall chunks buf acc,
    conn_run parse chunks buf acc = cprepend acc (conn_run parse chunks buf []).
  Proof.
    induction chunks as [|c rest IH]; intros buf acc; cbn [conn_run cprepend].
    - rewrite app_nil_r. reflexivity.
    - destruct (rm_step parse buf c) as [ms b [e|]| |]; cbn [cprepend app]; try reflexivity.
      rewrite (IH b (acc ++ ms)), (IH b ms).
      destruct (conn_run parse rest b []); cbn [cprepend]; rewrite ?app_assoc; reflexivity.
  Qed.

  (* the live phase as a conn_run *)
  Definition lift (n : list msg) (r : conn_res) : live_res :=
    match r with
    | Open l b => LOpen true n l [] None [] b
    | Closed l e => LClosed true n l [] None [] e
    | Crashed => LCrashed
    | NoFuel => LNoFuel
    end.

  Lemma live_phase_conn h : forall chunks buf n l,
    acted_all (live_phase h parse chunks buf n l) = true ->
    live_phase h parse chunks buf n l = lift n (conn_run parse chunks buf l).
  Proof.
    induction chunks as [|c rest IH]; intros buf n l H; cbn [live_phase conn_run lift] in *; [reflexivity|].
    destruct (rm_step parse buf c) as [ms b [e|]| |]; try reflexivity.
    - destruct (ho_live_err_keeps h); [reflexivity|].
      cbn [acted_all] in H. destruct ms; [|discriminate]. rewrite app_nil_r. reflexivity.
    - apply IH. exact H.
  Qed.

  (* what the hand-over left unhandled is recorded by add_unacted only *)
  Lemma live_phase_shape h : forall chunks buf n l,
    match live_phase h parse chunks buf n l with
    | LOpen _ _ _ d pe _ _ | LClosed _ _ _ d pe _ _ => d = [] /\ pe = None
    | _ => True
    end.
  Proof.
    induction chunks as [|c rest IH]; intros buf n l; cbn [live_phase]; [split; reflexivity|].
    destruct (rm_step parse buf c) as [ms b [e|]| |]; try exact I.
    - destruct (ho_live_err_keeps h); split; reflexivity.
    - apply IH.
  Qed.

  (* a run in which nothing stayed unhandled, through a hand-over that keeps the carry-over buffer, is
     the specification applied to the plain connection reader on the same chunks *)
  Lemma normal_phase_spec h : ho_keep_buf h = true -> forall chunks buf n,
    acted_all (normal_phase h parse golive chunks buf n) = true ->
    normal_phase h parse golive chunks buf n = classify golive n (conn_run parse chunks buf []).
  Proof.
    intros Hk. induction chunks as [|c rest IH]; intros buf n H; cbn [normal_phase conn_run] in *.
    - cbn [classify split_live]. rewrite app_nil_r. reflexivity.
    - destruct (rm_step parse buf c) as [ms b e| |]; [|discriminate H|discriminate H].
      cbn [app]. rewrite Hk in *.
      destruct (split_live golive ms) as [pre [post|]] eqn:S.
      + destruct (ho_pass_rest h).
        * destruct e as [x|].
          -- cbn [classify]. rewrite S.
             destruct (ho_live_err_keeps h); [reflexivity|].
             cbn [acted_all] in H. destruct post; [reflexivity|discriminate].
          -- rewrite (live_phase_conn h rest b (n ++ pre) post H).
             rewrite (conn_run_acc rest b post), (conn_run_acc rest b ms).
             destruct (conn_run parse rest b []) as [ms' b'|ms' e'| |]; cbn [cprepend lift classify];
               rewrite ?(split_live_app_some ms ms' pre post S); reflexivity.
        * pose proof (live_phase_shape h rest b (n ++ pre) []) as Sh.
          destruct (live_phase h parse rest b (n ++ pre) []) as [lv n' l' d0 pe0 de b0|lv n' l' d0 pe0 de e0| |] eqn:L;
            cbn [add_unacted acted_all] in H; try discriminate H.
          -- destruct Sh as [-> ->].
             destruct post; [|discriminate H]. destruct e; [discriminate H|]. destruct de; [|discriminate H].
             cbn [add_unacted]. rewrite <- L.
             rewrite (live_phase_conn h rest b (n ++ pre) []) by (rewrite L; reflexivity).
             rewrite (conn_run_acc rest b ms).
             destruct (conn_run parse rest b []) as [ms' b'|ms' e'| |]; cbn [cprepend lift classify];
               rewrite ?(split_live_app_some ms ms' pre [] S); reflexivity.
          -- destruct Sh as [-> ->].
             destruct post; [|discriminate H]. destruct e; [discriminate H|]. destruct de; [|discriminate H].
             cbn [add_unacted]. rewrite <- L.
             rewrite (live_phase_conn h rest b (n ++ pre) []) by (rewrite L; reflexivity).
             rewrite (conn_run_acc rest b ms).
             destruct (conn_run parse rest b []) as [ms' b'|ms' e'| |]; cbn [cprepend lift classify];
               rewrite ?(split_live_app_some ms ms' pre [] S); reflexivity.
      + destruct e as [x|].
        * cbn [classify]. rewrite S. reflexivity.
        * rewrite (IH b (n ++ pre) H). rewrite (conn_run_acc rest b ms).
          destruct (conn_run parse rest b []) as [ms' b'|ms' e'| |]; cbn [cprepend classify]; try reflexivity;
            rewrite (split_live_app_none ms ms' pre S); destruct (split_live golive ms') as [p [q|]];
            rewrite app_assoc; reflexivity.
  Qed.

  (* the repaired hand-over leaves nothing unhandled, for a parser that neither panics nor runs out of fuel *)
  Hypothesis parse_no_panic : forall d, parse d <> CPanic.
  Hypothesis parse_good : cgood parse.

  Lemma rm_step_ok buf c : exists ms b e, rm_step parse buf c = RM ms b e.
  Proof.
    unfold rm_step.
    pose proof (rm_loop_no_panic parse parse_no_panic (S (length (buf ++ c))) (buf ++ c)) as Hp.
    assert (Hf : rm_loop parse (S (length (buf ++ c))) (buf ++ c) <> RMFuel).
    { apply (rm_loop_no_fuel parse 0); [|exact parse_good|lia].
      intros d e Hlt. pose proof (len_nonneg (d ++ e)). lia. }
    destruct (rm_loop parse (S (length (buf ++ c))) (buf ++ c)) as [ms b e| |]; [eauto|congruence|congruence].
  Qed.

  Lemma live_phase_repaired : forall chunks buf n l,
    acted_all (live_phase ho_repaired parse chunks buf n l) = true.
  Proof.
    induction chunks as [|c rest IH]; intros buf n l; cbn [live_phase]; [reflexivity|].
    destruct (rm_step_ok buf c) as (ms & b & e & ->). destruct e; [reflexivity|apply IH].
  Qed.

  Lemma normal_phase_repaired : forall chunks buf n,
    acted_all (normal_phase ho_repaired parse golive chunks buf n) = true.
  Proof.
    induction chunks as [|c rest IH]; intros buf n; cbn [normal_phase]; [reflexivity|].
    destruct (rm_step_ok buf c) as (ms & b & e & ->).
    destruct (split_live golive ms) as [pre [post|]].
    - cbn [ho_repaired ho_pass_rest ho_keep_buf ho_live_err_keeps]. destruct e; [reflexivity|apply live_phase_repaired].
    - destruct e; [reflexivity|apply IH].
  Qed.
End Live.

(* ---------- the tile38 parser (repaired entry point) ---------- *)
Definition t38_live_run (h : handover) := live_run h t38_parse_fixed.
Definition t38_live_spec := live_spec t38_parse_fixed.

(* replies are a function of the bytes sent, across the hand-over too: whatever the segmentation, a run in
   which nothing parsed stayed unhandled gives the outcome the specification reads off the whole stream *)
Theorem t38_live_chunking h golive chunks :
  ho_keep_buf h = true -> len (concat chunks) < BIG ->
  acted_all (t38_live_run h golive chunks) = true ->
  t38_live_run h golive chunks = t38_live_spec golive (concat chunks).
Proof.
  intros Hk Hb Ha. unfold t38_live_run, live_run, t38_live_spec, live_spec in *.
  rewrite (normal_phase_spec t38_parse_fixed golive h Hk chunks [] [] Ha).
  rewrite (t38_fixed_chunking chunks Hb). reflexivity.
Qed.

Theorem t38_live_chunking_repaired golive chunks :
  len (concat chunks) < BIG ->
  t38_live_run ho_repaired golive chunks = t38_live_spec golive (concat chunks) /\
  t38_live_run ho_repaired golive chunks = t38_live_run ho_repaired golive [concat chunks].
Proof.
  intros Hb.
  assert (A : forall cs, len (concat cs) < BIG -> t38_live_run ho_repaired golive cs = t38_live_spec golive (concat cs)).
  { intros cs Hc. apply t38_live_chunking; [reflexivity|exact Hc|].
    apply normal_phase_repaired; [exact t38_fixed_no_panic|exact t38_fixed_good]. }
  split; [apply A; exact Hb|].
  rewrite (A chunks Hb). rewrite (A [concat chunks]); cbn [concat]; rewrite ?app_nil_r; [reflexivity|exact Hb].
Qed.

(* the source: all three flags come from the extracted facts; no excluding hypothesis is left *)
Theorem t38_live_chunking_source golive chunks :
  len (concat chunks) < BIG ->
  t38_live_run ho_source golive chunks = t38_live_spec golive (concat chunks) /\
  t38_live_run ho_source golive chunks = t38_live_run ho_source golive [concat chunks].
Proof. rewrite ho_source_repaired. apply t38_live_chunking_repaired. Qed.

(* no run of the source model crashes or runs out of fuel *)
Lemma t38_live_no_crash h golive chunks :
  t38_live_run h golive chunks <> LCrashed /\ t38_live_run h golive chunks <> LNoFuel.
Proof.
  unfold t38_live_run, live_run. generalize (@nil N) as buf, (@nil msg) as n.
  assert (LP : forall cs buf n l, live_phase h t38_parse_fixed cs buf n l <> LCrashed /\ live_phase h t38_parse_fixed cs buf n l <> LNoFuel).
  { induction cs as [|c rest IH]; intros buf n l; cbn [live_phase]; [split; discriminate|].
    destruct (rm_step_ok t38_parse_fixed t38_fixed_no_panic t38_fixed_good buf c) as (ms & b & e & ->).
    destruct e; [destruct (ho_live_err_keeps h); split; discriminate|apply IH]. }
  induction chunks as [|c rest IH]; intros buf n; cbn [normal_phase]; [split; discriminate|].
  destruct (rm_step_ok t38_parse_fixed t38_fixed_no_panic t38_fixed_good buf c) as (ms & b & e & ->).
  destruct (split_live golive ms) as [pre [post|]].
  - destruct (ho_pass_rest h).
    + destruct e; [destruct (ho_live_err_keeps h); split; discriminate|apply LP].
    + pose proof (LP rest (if ho_keep_buf h then b else []) (n ++ pre) []) as [A B].
      destruct (live_phase h t38_parse_fixed rest (if ho_keep_buf h then b else []) (n ++ pre) []); cbn [add_unacted];
        split; try discriminate; congruence.
  - destruct e; [split; discriminate|apply IH].
Qed.

(* ---------- witnesses (the byte strings are spelled out in Props/C16live.v) ---------- *)
Definition is_sub (m : msg) : bool :=
  match m_args m with
  | a :: _ => bytes_eqb (to_lower a) [115;117;98;115;99;114;105;98;101]%N    (* "subscribe" *)
  | [] => false
  end.
Definition w_sub : bytes := [83;85;66;83;67;82;73;66;69;32;99;104;13;10]%N.       (* SUBSCRIBE ch\r\n *)
Definition w_ping1 : bytes := [80;73]%N.                                            (* PI *)
Definition w_ping2 : bytes := [78;71;32;120;13;10]%N.                               (* NG x\r\n *)
Definition m_sub : msg := {| m_args := [[83;85;66;83;67;82;73;66;69]%N; [99;104]%N]; m_kind := KTelnet |}.
Definition m_ping : msg := {| m_args := [[80;73;78;71]%N; [120]%N]; m_kind := KTelnet |}.
Definition m_ng : msg := {| m_args := [[78;71]%N; [120]%N]; m_kind := KTelnet |}.

(* a hand-over that replaces the reader loses the beginning of the next command: the outcome depends on
   where the stream was cut *)
Lemma lost_buffer_refuted :
  let h := {| ho_keep_buf := false; ho_pass_rest := false; ho_live_err_keeps := false |} in
  t38_live_run h is_sub [w_sub ++ w_ping1; w_ping2] = LOpen true [m_sub] [m_ng] [] None [] [] /\
  t38_live_run h is_sub [w_sub; w_ping1 ++ w_ping2] = LOpen true [m_sub] [m_ping] [] None [] [] /\
  t38_live_spec is_sub (w_sub ++ w_ping1 ++ w_ping2) = LOpen true [m_sub] [m_ping] [] None [] [].
Proof. vm_compute. repeat split; reflexivity. Qed.

(* the pinned hand-over: a command that is complete in the read of SUBSCRIBE is never handled *)
Lemma pinned_drops_rest :
  t38_live_run ho_pinned is_sub [w_sub ++ w_ping1 ++ w_ping2] = LOpen true [m_sub] [] [m_ping] None [] [] /\
  t38_live_run ho_pinned is_sub [w_sub; w_ping1 ++ w_ping2] = LOpen true [m_sub] [m_ping] [] None [] [] /\
  t38_live_run ho_pinned is_sub [w_sub ++ w_ping1; w_ping2] = LOpen true [m_sub] [m_ping] [] None [] [].
Proof. vm_compute. repeat split; reflexivity. Qed.

(* the pinned live loop: the commands parsed before a malformed frame of the same read are not handled *)
Definition w_bad : bytes := [42;120;13;10]%N.                                       (* *x\r\n *)
Lemma pinned_live_error_drops :
  t38_live_run ho_pinned is_sub [w_sub; w_ping1 ++ w_ping2 ++ w_bad] = LClosed true [m_sub] [] [] None [m_ping] (EParse EMultiBulk) /\
  t38_live_run ho_pinned is_sub [w_sub; w_ping1 ++ w_ping2; w_bad] = LClosed true [m_sub] [m_ping] [] None [] (EParse EMultiBulk).
Proof. vm_compute. repeat split; reflexivity. Qed.
