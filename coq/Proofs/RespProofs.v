(* Lemmas about Model/Resp.v: accessors, parseInt/dec round trip, stability of read_next under
   appended bytes, completeness of the encoder, incompleteness of every strict prefix. *)
From Coq Require Import ZifyN ZifyNat ZifyBool.
From T38 Require Import Base.Bytes Model.Resp.
Local Open Scope Z_scope.

(* ---------- len ---------- *)
Lemma len_acc_spec p a : len_acc p a = a + Z.of_nat (length p).
Proof. revert a; induction p as [|x p IH]; intros a; cbn [len_acc length]; [lia|]. rewrite IH. lia. Qed.
Lemma len_spec p : len p = Z.of_nat (length p).
Proof. unfold len. rewrite len_acc_spec. lia. Qed.
Lemma len_nil : len [] = 0. Proof. reflexivity. Qed.
Lemma len_cons x p : len (x :: p) = 1 + len p.
Proof. rewrite !len_spec. cbn [length]. lia. Qed.
Lemma len_app a b : len (a ++ b) = len a + len b.
Proof. rewrite !len_spec, app_length. lia. Qed.
Lemma len_nonneg p : 0 <= len p.
Proof. rewrite len_spec. lia. Qed.
Lemma len_zero p : len p = 0 -> p = [].
Proof. rewrite len_spec. destruct p; cbn; [auto|lia]. Qed.

(* ---------- nthZ / dropZ / takeZ ---------- *)
Lemma nthZ_range p : forall i x, nthZ p i = Some x -> 0 <= i < len p.
Proof.
  induction p as [|y p IH]; intros i x H; cbn [nthZ] in H; [discriminate|].
  rewrite len_cons. destruct (Z.eqb_spec i 0).
  - pose proof (len_nonneg p). lia.
  - apply IH in H. lia.
Qed.
Lemma nthZ_app_l d e : forall i x, nthZ d i = Some x -> nthZ (d ++ e) i = Some x.
Proof.
  induction d as [|y d IH]; intros i x H; cbn [nthZ app] in *; [discriminate|].
  destruct (i =? 0); auto.
Qed.
Lemma nthZ_app_r a b : forall k, 0 <= k -> nthZ (a ++ b) (len a + k) = nthZ b k.
Proof.
  induction a as [|y a IH]; intros k Hk; cbn [app].
  - rewrite len_nil. replace (0 + k) with k by lia. reflexivity.
  - cbn [nthZ]. rewrite len_cons. pose proof (len_nonneg a).
    destruct (Z.eqb_spec (1 + len a + k) 0); [lia|].
    replace (1 + len a + k - 1) with (len a + k) by lia. auto.
Qed.
Lemma nthZ_some p : forall i, 0 <= i < len p -> exists x, nthZ p i = Some x.
Proof.
  induction p as [|y p IH]; intros i H.
  - rewrite len_nil in H. lia.
  - rewrite len_cons in H. cbn [nthZ]. destruct (Z.eqb_spec i 0); [eauto|]. apply IH. lia.
Qed.

Lemma dropZ_range p : forall i s, dropZ p i = Some s -> 0 <= i <= len p /\ len s = len p - i.
Proof.
  induction p as [|y p IH]; intros i s H; cbn [dropZ] in H.
  - destruct (Z.eqb_spec i 0); [|discriminate]. inversion H; subst. rewrite len_nil. lia.
  - rewrite len_cons. pose proof (len_nonneg p). destruct (Z.eqb_spec i 0).
    + inversion H; subst. rewrite len_cons. lia.
    + apply IH in H. lia.
Qed.
Lemma dropZ_app_l d e : forall i s, dropZ d i = Some s -> dropZ (d ++ e) i = Some (s ++ e).
Proof.
  induction d as [|y d IH]; intros i s H; cbn [dropZ app] in *.
  - destruct (Z.eqb_spec i 0); [|discriminate]. inversion H; subst. cbn. destruct e; cbn; rewrite ?Z.eqb_refl; reflexivity.
  - destruct (i =? 0); [inversion H; subst; reflexivity|]. auto.
Qed.
Lemma dropZ_0 p : dropZ p 0 = Some p.
Proof. destruct p; reflexivity. Qed.
Lemma dropZ_app_r a b : forall k, 0 <= k -> dropZ (a ++ b) (len a + k) = dropZ b k.
Proof.
  induction a as [|y a IH]; intros k Hk; cbn [app].
  - rewrite len_nil. f_equal.
  - cbn [dropZ]. rewrite len_cons. pose proof (len_nonneg a).
    destruct (Z.eqb_spec (1 + len a + k) 0); [lia|].
    replace (1 + len a + k - 1) with (len a + k) by lia. auto.
Qed.
Lemma dropZ_app_exact a b : dropZ (a ++ b) (len a) = Some b.
Proof. replace (len a) with (len a + 0) by lia. rewrite dropZ_app_r by lia. apply dropZ_0. Qed.
Lemma dropZ_some p : forall i, 0 <= i <= len p -> exists s, dropZ p i = Some s.
Proof.
  induction p as [|y p IH]; intros i H.
  - rewrite len_nil in H. replace i with 0 by lia. cbn. eauto.
  - rewrite len_cons in H. cbn [dropZ]. destruct (Z.eqb_spec i 0); [eauto|]. apply IH. lia.
Qed.

Lemma takeZ_range p : forall k r, takeZ p k = Some r -> 0 <= k -> len r = k /\ k <= len p.
Proof.
  induction p as [|y p IH]; intros k r H Hk; cbn [takeZ] in H.
  - destruct (Z.eqb_spec k 0); [|discriminate]. inversion H; subst. rewrite len_nil. lia.
  - destruct (Z.eqb_spec k 0).
    + inversion H; subst. rewrite len_nil. pose proof (len_nonneg (y :: p)). lia.
    + destruct (takeZ p (k - 1)) eqn:E; [|discriminate]. inversion H; subst.
      apply IH in E; [|lia]. rewrite !len_cons. lia.
Qed.
Lemma takeZ_app_l s e : forall k r, takeZ s k = Some r -> takeZ (s ++ e) k = Some r.
Proof.
  induction s as [|y s IH]; intros k r H; cbn [takeZ app] in *.
  - destruct (Z.eqb_spec k 0); [|discriminate]. inversion H; subst. destruct e; reflexivity.
  - destruct (k =? 0); [assumption|].
    destruct (takeZ s (k - 1)) eqn:E; [|discriminate]. erewrite IH by eassumption. assumption.
Qed.
Lemma takeZ_app_exact a b : takeZ (a ++ b) (len a) = Some a.
Proof.
  induction a as [|y a IH]; cbn [app].
  - rewrite len_nil. destruct b; reflexivity.
  - cbn [takeZ]. rewrite len_cons. pose proof (len_nonneg a).
    destruct (Z.eqb_spec (1 + len a) 0); [lia|].
    replace (1 + len a - 1) with (len a) by lia. rewrite IH. reflexivity.
Qed.
Lemma takeZ_neg p : forall k, k < 0 -> takeZ p k = None.
Proof.
  induction p as [|y p IH]; intros k Hk; cbn [takeZ]; destruct (Z.eqb_spec k 0); try lia; auto.
  rewrite IH by lia. reflexivity.
Qed.

(* ---------- getb / slice / slice_from ---------- *)
Lemma getb_range p i x : getb p i = Some x -> 0 <= i < len p.
Proof. unfold getb. destruct (Z.ltb_spec i 0); [discriminate|]. apply nthZ_range. Qed.
Lemma getb_app_l d e i x : getb d i = Some x -> getb (d ++ e) i = Some x.
Proof. unfold getb. destruct (i <? 0); [discriminate|]. apply nthZ_app_l. Qed.
Lemma getb_app_r a b k : 0 <= k -> getb (a ++ b) (len a + k) = getb b k.
Proof.
  intros Hk. unfold getb. pose proof (len_nonneg a).
  destruct (Z.ltb_spec (len a + k) 0); [lia|]. destruct (Z.ltb_spec k 0); [lia|]. apply nthZ_app_r; lia.
Qed.
Lemma getb_some p i : 0 <= i < len p -> exists x, getb p i = Some x.
Proof. intros H. unfold getb. destruct (Z.ltb_spec i 0); [lia|]. apply nthZ_some; lia. Qed.
Lemma getb_neg p i : i < 0 -> getb p i = None.
Proof. intros H. unfold getb. destruct (Z.ltb_spec i 0); [reflexivity|lia]. Qed.
Lemma getb_cons0 x p : getb (x :: p) 0 = Some x.
Proof. reflexivity. Qed.

Lemma slice_from_app_l d e i s : slice_from d i = Some s -> slice_from (d ++ e) i = Some (s ++ e).
Proof. unfold slice_from. destruct (i <? 0); [discriminate|]. apply dropZ_app_l. Qed.
Lemma slice_from_range p i s : slice_from p i = Some s -> 0 <= i <= len p /\ len s = len p - i.
Proof. unfold slice_from. destruct (Z.ltb_spec i 0); [discriminate|]. apply dropZ_range. Qed.
Lemma slice_from_app_exact a b : slice_from (a ++ b) (len a) = Some b.
Proof. unfold slice_from. pose proof (len_nonneg a). destruct (Z.ltb_spec (len a) 0); [lia|]. apply dropZ_app_exact. Qed.
Lemma slice_from_app_r a b k : 0 <= k -> slice_from (a ++ b) (len a + k) = slice_from b k.
Proof.
  intros Hk. unfold slice_from. pose proof (len_nonneg a).
  destruct (Z.ltb_spec (len a + k) 0); [lia|]. destruct (Z.ltb_spec k 0); [lia|]. apply dropZ_app_r; lia.
Qed.
Lemma slice_from_some p i : 0 <= i <= len p -> exists s, slice_from p i = Some s.
Proof. intros H. unfold slice_from. destruct (Z.ltb_spec i 0); [lia|]. apply dropZ_some; lia. Qed.

Lemma slice_app_l d e a b r : slice d a b = Some r -> slice (d ++ e) a b = Some r.
Proof.
  unfold slice. destruct ((a <? 0) || (b <? a)); [discriminate|].
  destruct (dropZ d a) eqn:E; [|discriminate]. intros H.
  erewrite dropZ_app_l by eassumption. apply takeZ_app_l; assumption.
Qed.
Lemma slice_range p a b r : slice p a b = Some r -> 0 <= a <= b /\ b <= len p /\ len r = b - a.
Proof.
  unfold slice. destruct (Z.ltb_spec a 0); [discriminate|]. destruct (Z.ltb_spec b a); [discriminate|]. cbn [orb].
  destruct (dropZ p a) eqn:E; [|discriminate]. intros HH.
  apply dropZ_range in E. apply takeZ_range in HH; [|lia]. lia.
Qed.
Lemma slice_mid a b c : slice (a ++ b ++ c) (len a) (len a + len b) = Some b.
Proof.
  unfold slice. pose proof (len_nonneg a). pose proof (len_nonneg b).
  destruct (Z.ltb_spec (len a) 0); [lia|]. destruct (Z.ltb_spec (len a + len b) (len a)); [lia|]. cbn [orb].
  rewrite dropZ_app_exact. replace (len a + len b - len a) with (len b) by lia. apply takeZ_app_exact.
Qed.
Lemma slice_inverted p a b : b < a -> slice p a b = None.
Proof. intros H. unfold slice. destruct (Z.ltb_spec b a); [|lia]. rewrite orb_true_r. reflexivity. Qed.

(* ---------- index_from / find_byte ---------- *)
Lemma index_from_app_l c s e : forall i k, index_from c s i = Some k -> index_from c (s ++ e) i = Some k.
Proof.
  induction s as [|x s IH]; intros i k H; cbn [index_from app] in *; [discriminate|].
  destruct (x =? c)%N; auto.
Qed.
Lemma index_from_range c s : forall i k, index_from c s i = Some k -> i <= k < i + len s /\ nthZ s (k - i) = Some c.
Proof.
  induction s as [|x s IH]; intros i k H; cbn [index_from] in H; [discriminate|].
  rewrite len_cons. pose proof (len_nonneg s). cbn [nthZ].
  destruct (N.eqb_spec x c).
  - inversion H; subst k; subst x. rewrite Z.sub_diag, Z.eqb_refl. split; [lia|reflexivity].
  - apply IH in H. destruct H as [H1 H2]. destruct (Z.eqb_spec (k - i) 0); [lia|].
    replace (k - i - 1) with (k - (i + 1)) by lia. split; [lia|assumption].
Qed.
Lemma index_from_skip c a b : forall i, Forall (fun x => x <> c) a -> index_from c (a ++ c :: b) i = Some (i + len a).
Proof.
  induction a as [|x a IH]; intros i Hf; cbn [app index_from].
  - rewrite N.eqb_refl, len_nil. f_equal. lia.
  - inversion Hf; subst. destruct (N.eqb_spec x c); [contradiction|]. rewrite IH by assumption. rewrite len_cons. f_equal. lia.
Qed.
Lemma index_from_none c a : forall i, Forall (fun x => x <> c) a -> index_from c a i = None.
Proof.
  induction a as [|x a IH]; intros i Hf; cbn [index_from]; [reflexivity|].
  inversion Hf; subst. destruct (N.eqb_spec x c); [contradiction|]. auto.
Qed.

Lemma find_byte_app_l c d e i k : find_byte c d i = Some k -> find_byte c (d ++ e) i = Some k.
Proof.
  unfold find_byte. destruct (slice_from d i) eqn:E; [|discriminate]. intros H.
  erewrite slice_from_app_l by eassumption. apply index_from_app_l; assumption.
Qed.
Lemma find_byte_range c p i k : find_byte c p i = Some k -> 0 <= i <= k /\ k < len p /\ getb p k = Some c.
Proof.
  unfold find_byte. destruct (slice_from p i) as [s|] eqn:E; [|discriminate]. intros H.
  pose proof (slice_from_range _ _ _ E) as [H1 H2]. apply index_from_range in H. destruct H as [H3 H4].
  split; [lia|]. split; [lia|].
  unfold slice_from in E. destruct (Z.ltb_spec i 0); [discriminate|].
  unfold getb. destruct (Z.ltb_spec k 0); [lia|].
  clear - E H4 H3 H. revert i k s E H3 H4 H. induction p as [|y p IH]; intros i k s E H3 H4 H; cbn [dropZ] in E.
  - destruct (i =? 0); [|discriminate]. inversion E; subst. discriminate.
  - cbn [nthZ]. destruct (Z.eqb_spec i 0).
    + inversion E; subst. replace (k - 0) with k in H4 by lia. exact H4.
    + destruct (Z.eqb_spec k 0); [lia|]. eapply (IH (i - 1) (k - 1)); eauto; try lia.
      replace (k - 1 - (i - 1)) with (k - i) by lia. assumption.
Qed.
(* scanning a known layout: pre ++ a ++ c :: b, starting at len pre *)
Lemma find_byte_skip c pre a b : Forall (fun x => x <> c) a ->
  find_byte c (pre ++ a ++ c :: b) (len pre) = Some (len pre + len a).
Proof. intros Hf. unfold find_byte. rewrite slice_from_app_exact. apply index_from_skip; assumption. Qed.
Lemma find_byte_none c pre a : Forall (fun x => x <> c) a -> find_byte c (pre ++ a) (len pre) = None.
Proof. intros Hf. unfold find_byte. rewrite slice_from_app_exact. apply index_from_none; assumption. Qed.

(* ---------- wrap, parseInt, dec ---------- *)
Lemma wrap_small z : -9223372036854775808 <= z < 9223372036854775808 -> wrap z = z.
Proof. intros H. unfold wrap. rewrite Z.mod_small by lia. lia. Qed.
Lemma wrap_range z : -9223372036854775808 <= wrap z < 9223372036854775808.
Proof. unfold wrap. pose proof (Z.mod_pos_bound (z + 9223372036854775808) 18446744073709551616 ltac:(lia)). lia. Qed.

Definition digit_ok (c : N) : Prop := (48 <= c <= 57)%N.
Lemma is_digit_true c : digit_ok c -> is_digit c = true.
Proof. unfold digit_ok, is_digit. lia. Qed.

Fixpoint val (b : bytes) (v : Z) : Z :=
  match b with [] => v | c :: b' => val b' (v * 10 + Z.of_N (c - 48)) end.
Lemma val_mono b : forall v, 0 <= v -> v <= val b v.
Proof.
  induction b as [|c b IH]; intros v Hv; cbn [val]; [lia|].
  specialize (IH (v * 10 + Z.of_N (c - 48)) ltac:(lia)). lia.
Qed.
Lemma parse_digits_val b : forall v, 0 <= v -> Forall digit_ok b -> val b v < 9223372036854775808 ->
  parse_digits b v = Some (val b v).
Proof.
  induction b as [|c b IH]; intros v Hv Hd Hlt; cbn [parse_digits val] in *; [reflexivity|].
  inversion Hd; subst. rewrite is_digit_true by assumption.
  pose proof (val_mono b (v * 10 + Z.of_N (c - 48)) ltac:(lia)).
  rewrite wrap_small by lia. apply IH; auto; lia.
Qed.

Lemma dec_aux_digits f : forall n acc, Forall digit_ok acc -> Forall digit_ok (dec_aux f n acc).
Proof.
  induction f as [|f IH]; intros n acc Ha; cbn [dec_aux]; [assumption|].
  assert (Hd : digit_ok (48 + n mod 10)%N).
  { unfold digit_ok. pose proof (N.mod_upper_bound n 10 ltac:(lia)). lia. }
  destruct (n / 10 =? 0)%N; [constructor; assumption|]. apply IH. constructor; assumption.
Qed.
Lemma dec_aux_S f n acc : dec_aux (S f) n acc =
  if (n / 10 =? 0)%N then (48 + n mod 10)%N :: acc else dec_aux f (n / 10)%N ((48 + n mod 10)%N :: acc).
Proof. reflexivity. Qed.
Lemma dec_aux_val f : forall n acc, (n < 2 ^ N.of_nat f)%N ->
  val (dec_aux (S f) n acc) 0 = val acc (Z.of_N n).
Proof.
  induction f as [|f IH]; intros n acc Hn.
  - cbn in Hn. assert (n = 0%N) by lia. subst. reflexivity.
  - rewrite dec_aux_S. destruct (N.eqb_spec (n / 10) 0) as [E|E].
    + cbn [val]. f_equal.
      pose proof (N.div_mod n 10 ltac:(lia)). pose proof (N.mod_upper_bound n 10 ltac:(lia)). lia.
    + assert (Hlt : (n / 10 < 2 ^ N.of_nat f)%N).
      { replace (N.of_nat (S f)) with (N.succ (N.of_nat f)) in Hn by lia. rewrite N.pow_succ_r' in Hn.
        pose proof (N.div_mod n 10 ltac:(lia)). lia. }
      rewrite (IH (n / 10)%N ((48 + n mod 10)%N :: acc) Hlt). cbn [val]. f_equal.
      pose proof (N.div_mod n 10 ltac:(lia)). pose proof (N.mod_upper_bound n 10 ltac:(lia)). lia.
Qed.
Lemma dec_digits n : Forall digit_ok (dec n).
Proof. apply dec_aux_digits. constructor. Qed.
Lemma dec_val n : val (dec n) 0 = Z.of_N n.
Proof.
  unfold dec. rewrite dec_aux_val; [reflexivity|]. rewrite N2Nat.id. apply N.size_gt.
Qed.
Lemma parse_int_slow_digit c r : digit_ok c -> parse_int_slow (c :: r) = parse_digits (c :: r) 0.
Proof.
  intros Hd. unfold parse_int_slow.
  destruct c as [|p]; [reflexivity|].
  do 6 (destruct p as [p|p|]; try reflexivity).
  all: unfold digit_ok in Hd; lia.
Qed.
Lemma parse_int_digits b : Forall digit_ok b -> val b 0 < 9223372036854775808 -> parse_int b = Some (val b 0).
Proof.
  intros Hd Hv. destruct b as [|c [|c2 r]].
  - reflexivity.
  - cbn [parse_int]. inversion Hd; subst. rewrite is_digit_true by assumption. reflexivity.
  - cbn [parse_int]. inversion Hd; subst. rewrite parse_int_slow_digit by assumption.
    apply parse_digits_val; auto; lia.
Qed.
Lemma parse_int_dec n : Z.of_N n < 9223372036854775808 -> parse_int (dec n) = Some (Z.of_N n).
Proof. intros H. rewrite parse_int_digits; rewrite ?dec_val; auto using dec_digits. Qed.
Lemma dec_no c n : ~ digit_ok c -> Forall (fun x => x <> c) (dec n).
Proof.
  intros Hc. eapply Forall_impl; [|apply dec_digits]. intros x Hx ->. contradiction.
Qed.

(* ---------- stability of read_next under appended bytes ---------- *)
Definition ext (e : bytes) (r r' : result) : Prop :=
  match r with
  | Complete a k rest => r' = Complete a k (rest ++ e)
  | Err x => r' = Err x
  | _ => True
  end.

Lemma read_len_stable d e from s :
  match read_len d from s with
  | LOk n i => read_len (d ++ e) from s = LOk n i
  | LBad => read_len (d ++ e) from s = LBad
  | _ => True
  end.
Proof.
  unfold read_len. destruct (find_byte LF d from) as [i|] eqn:E; [|exact I].
  rewrite (find_byte_app_l _ _ e _ _ E).
  destruct (getb d (i - 1)) as [c|] eqn:G; [|exact I]. rewrite (getb_app_l _ e _ _ G).
  destruct (negb (c =? CR)%N); [reflexivity|].
  destruct (slice d s (i - 1)) as [ds|] eqn:Sl; [|exact I]. rewrite (slice_app_l _ e _ _ _ Sl).
  destruct (parse_int ds); reflexivity.
Qed.

Lemma resp_args_stable e : forall fuel d count j i racc,
  ext e (resp_args fuel d (len d) count j i racc) (resp_args fuel (d ++ e) (len (d ++ e)) count j i racc).
Proof.
  induction fuel as [|fuel IH]; intros d count j i racc; [exact I|].
  cbn [resp_args].
  destruct (Z.eqb_spec i (len d)) as [|Hne]; [exact I|].
  destruct (getb d i) as [c|] eqn:G; [|exact I].
  pose proof (getb_range _ _ _ G) as Hi. pose proof (len_nonneg e) as Hle.
  destruct (Z.eqb_spec i (len (d ++ e))) as [E|_]; [rewrite len_app in E; lia|].
  rewrite (getb_app_l _ e _ _ G).
  destruct (negb (c =? 36)%N); [reflexivity|].
  pose proof (read_len_stable d e i (i + 1)) as RL.
  destruct (read_len d i (i + 1)) as [| | |n i2]; try exact I; rewrite RL; [reflexivity|].
  destruct (count <=? 0); [reflexivity|].
  destruct (Z.leb_spec (wrap (n + 2)) (len d - (i2 + 1))) as [L|L]; [|exact I].
  destruct (Z.leb_spec (wrap (n + 2)) (len (d ++ e) - (i2 + 1))) as [_|L2]; [|rewrite len_app in L2; lia].
  destruct (getb d (wrap (i2 + 1 + n))) as [a|] eqn:Ga; [|exact I]. rewrite (getb_app_l _ e _ _ Ga).
  destruct (negb (a =? CR)%N); [reflexivity|].
  destruct (getb d (wrap (wrap (i2 + 1 + n) + 1))) as [b|] eqn:Gb; [|exact I]. rewrite (getb_app_l _ e _ _ Gb).
  destruct (negb (b =? LF)%N); [reflexivity|].
  destruct (slice d (i2 + 1) (wrap (i2 + 1 + n))) as [arg|] eqn:Sl; [|exact I]. rewrite (slice_app_l _ e _ _ _ Sl).
  destruct (j =? count - 1).
  - destruct (slice_from d (wrap (i2 + 1 + wrap (n + 2)))) as [rest|] eqn:SF; [|exact I].
    rewrite (slice_from_app_l _ e _ _ SF). reflexivity.
  - apply IH.
Qed.

Lemma resp_args_fuel_mono : forall f p lp count j i racc f',
  (f <= f')%nat -> resp_args f p lp count j i racc <> Fuel ->
  resp_args f' p lp count j i racc = resp_args f p lp count j i racc.
Proof.
  induction f as [|f IH]; intros p lp count j i racc f' Hle Hnf; [cbn in Hnf; congruence|].
  destruct f' as [|f']; [lia|]. cbn [resp_args] in *.
  destruct (i =? lp); [reflexivity|]. destruct (getb p i); [|reflexivity].
  destruct (negb _); [reflexivity|]. destruct (read_len p i (i + 1)); try reflexivity.
  destruct (count <=? 0); [reflexivity|]. destruct (_ <=? _); [|reflexivity].
  destruct (getb p _); [|reflexivity]. destruct (negb _); [reflexivity|].
  destruct (getb p _); [|reflexivity]. destruct (negb _); [reflexivity|].
  destruct (slice p _ _); [|reflexivity]. destruct (j =? count - 1); [reflexivity|].
  apply IH; [lia|assumption].
Qed.

Lemma ext_not_fuel e r r' : ext e r r' -> (match r with Complete _ _ _ | Err _ => True | _ => False end) -> r <> Fuel.
Proof. destruct r; cbn; intros; congruence. Qed.

Lemma read_resp_stable d e : ext e (read_resp d) (read_resp (d ++ e)).
Proof.
  unfold read_resp. pose proof (read_len_stable d e 1 1) as RL.
  destruct (read_len d 1 1) as [| | |count i]; try exact I; rewrite RL; [reflexivity|].
  destruct (count <? 0); [reflexivity|].
  destruct (count =? 0).
  - destruct (slice_from d (i + 1)) as [rest|] eqn:SF; [|exact I].
    rewrite (slice_from_app_l _ e _ _ SF). reflexivity.
  - pose proof (resp_args_stable e (S (length d)) d count 0 (i + 1) []) as St.
    destruct (resp_args (S (length d)) d (len d) count 0 (i + 1) []) eqn:R; try exact I; cbn [ext] in *.
    + rewrite (resp_args_fuel_mono (S (length d)) (d ++ e) _ count 0 (i + 1) [] (S (length (d ++ e)))).
      * exact St. * rewrite app_length; lia. * rewrite St; discriminate.
    + rewrite (resp_args_fuel_mono (S (length d)) (d ++ e) _ count 0 (i + 1) [] (S (length (d ++ e)))).
      * exact St. * rewrite app_length; lia. * rewrite St; discriminate.
Qed.

Lemma read_native_stable d e : ext e (read_native d) (read_native (d ++ e)).
Proof.
  unfold read_native.
  destruct (find_byte 32 d 1) as [i|] eqn:E; [|exact I]. rewrite (find_byte_app_l _ _ e _ _ E).
  destruct (slice d 1 i) as [ds|] eqn:Sl; [|exact I]. rewrite (slice_app_l _ e _ _ _ Sl).
  destruct (parse_int ds) as [n|]; [|reflexivity].
  destruct (n <? 0); [reflexivity|].
  pose proof (len_nonneg e) as Hle.
  destruct (Z.leb_spec (wrap (wrap (i + 1 + n) + 2)) (len d)) as [L|L]; [|exact I].
  destruct (Z.leb_spec (wrap (wrap (i + 1 + n) + 2)) (len (d ++ e))) as [_|L2]; [|rewrite len_app in L2; lia].
  destruct (getb d (wrap (i + 1 + n))) as [a|] eqn:Ga; [|exact I]. rewrite (getb_app_l _ e _ _ Ga).
  destruct (negb (a =? CR)%N); [reflexivity|].
  destruct (getb d (wrap (wrap (i + 1 + n) + 1))) as [b|] eqn:Gb; [|exact I]. rewrite (getb_app_l _ e _ _ Gb).
  destruct (negb (b =? LF)%N); [reflexivity|].
  destruct (slice d (i + 1) (wrap (i + 1 + n))) as [line|] eqn:S2; [|exact I]. rewrite (slice_app_l _ e _ _ _ S2).
  destruct (native_tok (S (length line)) line []); try exact I.
  destruct (slice_from d (wrap (wrap (i + 1 + n) + 2))) as [rest|] eqn:SF; [|exact I].
  rewrite (slice_from_app_l _ e _ _ SF). reflexivity.
Qed.

Lemma read_telnet_stable d e : ext e (read_telnet d) (read_telnet (d ++ e)).
Proof.
  unfold read_telnet.
  destruct (find_byte LF d 0) as [i|] eqn:E; [|exact I]. rewrite (find_byte_app_l _ _ e _ _ E).
  pose proof (find_byte_range _ _ _ _ E) as [Hi [Hil _]].
  assert (Hcr : getb (d ++ e) (i - 1) = getb d (i - 1)).
  { destruct (Z.eq_dec i 0) as [->|Hn]; [rewrite !getb_neg by lia; reflexivity|].
    destruct (getb_some d (i - 1) ltac:(lia)) as [x Hx]. rewrite Hx. apply getb_app_l; assumption. }
  rewrite Hcr.
  set (cr := match getb d (i - 1) with Some c => (0 <? i) && (c =? CR)%N | None => false end).
  destruct (slice d 0 (if cr then i - 1 else i)) as [line|] eqn:Sl; [|exact I]. rewrite (slice_app_l _ e _ _ _ Sl).
  destruct (tel_scan line line true false 0%N false [] []); [|reflexivity].
  destruct (slice_from d (i + 1)) as [rest|] eqn:SF; [|exact I].
  rewrite (slice_from_app_l _ e _ _ SF). reflexivity.
Qed.

Lemma read_next_ext d e : ext e (read_next d) (read_next (d ++ e)).
Proof.
  destruct d as [|c d]; [exact I|].
  change ((c :: d) ++ e) with (c :: (d ++ e)). unfold read_next.
  destruct (c =? 42)%N; [apply (read_resp_stable (c :: d) e)|].
  destruct (c =? 36)%N; [apply (read_native_stable (c :: d) e)|apply (read_telnet_stable (c :: d) e)].
Qed.

Lemma read_next_complete_stable d e a k r :
  read_next d = Complete a k r -> read_next (d ++ e) = Complete a k (r ++ e).
Proof. intros H. pose proof (read_next_ext d e) as X. rewrite H in X. exact X. Qed.
Lemma read_next_err_stable d e x : read_next d = Err x -> read_next (d ++ e) = Err x.
Proof. intros H. pose proof (read_next_ext d e) as X. rewrite H in X. exact X. Qed.

(* ---------- the encoder is read back ---------- *)
Definition BIG : Z := 4611686018427387904.   (* 2^62: a Go slice is shorter *)
Definition hdr (c : N) (n : N) : bytes := c :: dec n ++ [CR; LF].

Lemma bulk_eq a : bulk a = hdr 36 (N.of_nat (length a)) ++ a ++ [CR; LF].
Proof. unfold bulk, hdr. cbn [app]. rewrite <- app_assoc. reflexivity. Qed.
Lemma enc_eq args : enc args = hdr 42 (N.of_nat (length args)) ++ bulks args.
Proof. unfold enc, hdr. cbn [app]. rewrite <- app_assoc. reflexivity. Qed.
Lemma len_hdr c n : len (hdr c n) = len (dec n) + 3.
Proof. unfold hdr. rewrite len_cons, len_app, len_cons, len_cons, len_nil. lia. Qed.
Lemma LF_not_digit : ~ digit_ok LF. Proof. unfold digit_ok, LF. lia. Qed.
Lemma of_nat_len (A : Type) (l : list A) : Z.of_N (N.of_nat (length l)) = Z.of_nat (length l).
Proof. lia. Qed.

(* a complete "<skip><digits>\r\n" header *)
Lemma read_len_hdr pre0 skip ds rest n :
  Forall (fun x => x <> LF) skip -> Forall digit_ok ds -> parse_int ds = Some n ->
  read_len (pre0 ++ skip ++ ds ++ [CR; LF] ++ rest) (len pre0) (len pre0 + len skip)
  = LOk n (len pre0 + len skip + len ds + 1).
Proof.
  intros Hs Hd Hp. unfold read_len.
  assert (Hno : Forall (fun x => x <> LF) (skip ++ ds ++ [CR])).
  { apply Forall_app; split; [assumption|]. apply Forall_app; split.
    - eapply Forall_impl; [|exact Hd]. intros x Hx ->. exact (LF_not_digit Hx).
    - constructor; [discriminate|constructor]. }
  replace (pre0 ++ skip ++ ds ++ [CR; LF] ++ rest) with (pre0 ++ (skip ++ ds ++ [CR]) ++ LF :: rest)
    by (repeat rewrite <- app_assoc; reflexivity).
  rewrite find_byte_skip by assumption.
  replace (len pre0 + len (skip ++ ds ++ [CR]) - 1) with (len (pre0 ++ skip ++ ds) + 0)
    by (rewrite !len_app, len_cons, len_nil; lia).
  replace (pre0 ++ (skip ++ ds ++ [CR]) ++ LF :: rest) with ((pre0 ++ skip ++ ds) ++ CR :: LF :: rest)
    by (repeat rewrite <- app_assoc; reflexivity).
  rewrite getb_app_r by lia. rewrite getb_cons0. cbn [negb N.eqb CR Pos.eqb].
  replace ((pre0 ++ skip ++ ds) ++ CR :: LF :: rest) with ((pre0 ++ skip) ++ ds ++ CR :: LF :: rest)
    by (repeat rewrite <- app_assoc; reflexivity).
  replace (len pre0 + len skip) with (len (pre0 ++ skip)) by (rewrite len_app; lia).
  replace (len (pre0 ++ skip ++ ds) + 0) with (len (pre0 ++ skip) + len ds) by (rewrite !len_app; lia).
  rewrite slice_mid. rewrite Hp. f_equal. rewrite !len_app, len_cons, len_nil. lia.
Qed.

(* a header cut before its LF *)
Lemma read_len_cut pre0 tail s : Forall (fun x => x <> LF) tail ->
  read_len (pre0 ++ tail) (len pre0) s = LNone.
Proof. intros H. unfold read_len. rewrite find_byte_none by assumption. reflexivity. Qed.

Lemma prefix_of_snoc (q l x : bytes) (y : N) : q ++ l = x ++ [y] -> l <> [] -> exists l', x = q ++ l'.
Proof.
  intros E Hl. destruct (exists_last Hl) as [l0 [z ->]].
  rewrite app_assoc in E. apply app_inj_tail in E. destruct E as [E _]. eauto.
Qed.

Lemma one_step fuel pre a rest count j racc :
  0 < count -> len (pre ++ bulk a) < BIG ->
  let p := pre ++ bulk a ++ rest in
  resp_args (S fuel) p (len p) count j (len pre) racc =
  if j =? count - 1 then Complete (rev (a :: racc)) Redis rest
  else resp_args fuel p (len p) count (j + 1) (len (pre ++ bulk a)) (a :: racc).
Proof.
  intros Hc Hbig p. unfold BIG in Hbig. cbn [resp_args].
  set (n := N.of_nat (length a)).
  assert (Hn : Z.of_N n = len a) by (unfold n; rewrite len_spec; lia).
  pose proof (len_nonneg pre) as Hp0. pose proof (len_nonneg a) as Ha0. pose proof (len_nonneg rest) as Hr0.
  pose proof (len_nonneg (dec n)) as Hd0.
  assert (Hlb : len (bulk a) = len (dec n) + 3 + len a + 2).
  { rewrite bulk_eq. fold n. rewrite !len_app, len_hdr, len_cons, len_cons, len_nil. lia. }
  assert (Hlp : len p = len pre + len (bulk a) + len rest) by (unfold p; rewrite !len_app; lia).
  rewrite len_app in Hbig.
  destruct (Z.eqb_spec (len pre) (len p)) as [E|_]; [lia|].
  assert (G0 : getb p (len pre) = Some 36%N).
  { unfold p. replace (len pre) with (len pre + 0) at 1 by lia. rewrite getb_app_r by lia. reflexivity. }
  rewrite G0. cbn [negb N.eqb Pos.eqb].
  assert (RL : read_len p (len pre) (len pre + 1) = LOk (len a) (len pre + 1 + len (dec n) + 1)).
  { unfold p. rewrite bulk_eq. fold n. unfold hdr.
    replace (pre ++ ((36%N :: dec n ++ [CR; LF]) ++ a ++ [CR; LF]) ++ rest)
      with (pre ++ [36%N] ++ dec n ++ [CR; LF] ++ (a ++ [CR; LF] ++ rest))
      by (cbn [app]; repeat rewrite <- app_assoc; reflexivity).
    replace (len pre + 1) with (len pre + len [36%N]) by reflexivity.
    apply read_len_hdr.
    - constructor; [discriminate|constructor].
    - apply dec_digits.
    - rewrite parse_int_dec by lia. f_equal. exact Hn. }
  rewrite RL. destruct (Z.leb_spec count 0); [lia|].
  set (i3 := len pre + 1 + len (dec n) + 1 + 1).
  assert (Hi3 : i3 = len (pre ++ hdr 36 n)) by (unfold i3; rewrite len_app, len_hdr; lia).
  rewrite (wrap_small (len a + 2)) by lia.
  destruct (Z.leb_spec (len a + 2) (len p - i3)) as [_|L]; [|unfold i3 in L; lia].
  rewrite (wrap_small (i3 + len a)) by (unfold i3; lia).
  assert (Pe : p = (pre ++ hdr 36 n ++ a) ++ CR :: LF :: rest).
  { unfold p. rewrite bulk_eq. fold n. repeat rewrite <- app_assoc. reflexivity. }
  assert (G1 : getb p (i3 + len a) = Some CR).
  { rewrite Pe. replace (i3 + len a) with (len (pre ++ hdr 36 n ++ a) + 0) by (rewrite Hi3, !len_app; lia).
    rewrite getb_app_r by lia. reflexivity. }
  rewrite G1. cbn [negb N.eqb CR Pos.eqb].
  rewrite (wrap_small (i3 + len a + 1)) by (unfold i3; lia).
  assert (G2 : getb p (i3 + len a + 1) = Some LF).
  { rewrite Pe. replace (i3 + len a + 1) with (len (pre ++ hdr 36 n ++ a) + 1) by (rewrite Hi3, !len_app; lia).
    rewrite getb_app_r by lia. reflexivity. }
  rewrite G2. cbn [negb N.eqb LF Pos.eqb].
  assert (Sa : slice p i3 (i3 + len a) = Some a).
  { replace p with ((pre ++ hdr 36 n) ++ a ++ (CR :: LF :: rest))
      by (rewrite Pe; repeat rewrite <- app_assoc; reflexivity).
    rewrite Hi3. apply slice_mid. }
  rewrite Sa.
  rewrite (wrap_small (i3 + (len a + 2))) by (unfold i3; lia).
  assert (Hi4 : i3 + (len a + 2) = len (pre ++ bulk a)) by (rewrite len_app, Hlb; unfold i3; lia).
  rewrite Hi4.
  destruct (j =? count - 1); [|reflexivity].
  replace p with ((pre ++ bulk a) ++ rest) by (unfold p; rewrite <- app_assoc; reflexivity).
  rewrite slice_from_app_exact. reflexivity.
Qed.

Lemma bulks_cons a rem : bulks (a :: rem) = bulk a ++ bulks rem.
Proof. reflexivity. Qed.
Lemma bulk_nonempty a : bulk a <> [].
Proof. unfold bulk. discriminate. Qed.
Lemma bulks_nil_inv rem : bulks rem = [] -> rem = [].
Proof. destruct rem as [|a rem]; [reflexivity|]. rewrite bulks_cons. unfold bulk. discriminate. Qed.
Lemma bulks_length rem : (length rem <= length (bulks rem))%nat.
Proof. induction rem as [|a rem IH]; [cbn; lia|]. rewrite bulks_cons, app_length. unfold bulk. cbn [length]. lia. Qed.

Lemma resp_args_enc : forall rem pre racc count j fuel r,
  rem <> [] -> count - j = Z.of_nat (length rem) -> 0 <= j -> (length rem <= fuel)%nat ->
  len (pre ++ bulks rem) < BIG ->
  resp_args fuel (pre ++ bulks rem ++ r) (len (pre ++ bulks rem ++ r)) count j (len pre) racc
  = Complete (rev racc ++ rem) Redis r.
Proof.
  induction rem as [|a rem IH]; intros pre racc count j fuel r Hne Hc Hj Hf Hbig; [congruence|].
  destruct fuel as [|fuel]; [cbn in Hf; lia|]. cbn [length] in Hc, Hf.
  rewrite bulks_cons, <- app_assoc.
  pose proof (len_nonneg (bulks rem)) as Hb0.
  rewrite one_step; [|lia|rewrite bulks_cons, app_assoc, len_app in Hbig; lia].
  destruct rem as [|a2 rem].
  - destruct (Z.eqb_spec j (count - 1)); [|cbn [length] in Hc; lia]. cbn [rev bulks flat_map app]. reflexivity.
  - destruct (Z.eqb_spec j (count - 1)); [cbn [length] in Hc; lia|].
    replace (pre ++ bulk a ++ bulks (a2 :: rem) ++ r) with ((pre ++ bulk a) ++ bulks (a2 :: rem) ++ r)
      by (rewrite <- app_assoc; reflexivity).
    rewrite IH; [|discriminate|cbn [length] in *; lia|lia|cbn [length] in *; lia|].
    + cbn [rev]. rewrite <- app_assoc. reflexivity.
    + rewrite <- app_assoc. rewrite bulks_cons in Hbig. exact Hbig.
Qed.

Lemma no_lf_prefix_hdr q l n : q ++ l = dec n ++ [CR; LF] -> l <> [] -> Forall (fun x => x <> LF) q.
Proof.
  intros E Hl. replace (dec n ++ [CR; LF]) with ((dec n ++ [CR]) ++ [LF]) in E by (rewrite <- app_assoc; reflexivity).
  destruct (prefix_of_snoc _ _ _ _ E Hl) as [l' E'].
  assert (F : Forall (fun x => x <> LF) (dec n ++ [CR])).
  { apply Forall_app; split; [apply dec_no; exact LF_not_digit|]. constructor; [discriminate|constructor]. }
  rewrite E' in F. apply Forall_app in F. tauto.
Qed.

(* a strict prefix of one bulk: the loop stops with Incomplete *)
Lemma one_bulk_cut fuel pre a q s count j racc :
  0 < count -> len (pre ++ bulk a) < BIG -> q ++ s = bulk a -> s <> [] ->
  resp_args (S fuel) (pre ++ q) (len (pre ++ q)) count j (len pre) racc = Incomplete.
Proof.
  intros Hc Hbig E Hs. unfold BIG in Hbig. cbn [resp_args].
  destruct q as [|c q].
  { rewrite app_nil_r, Z.eqb_refl. reflexivity. }
  pose proof (len_nonneg pre) as Hp0. pose proof (len_nonneg q) as Hq0.
  destruct (Z.eqb_spec (len pre) (len (pre ++ c :: q))) as [E0|_]; [rewrite len_app, len_cons in E0; lia|].
  assert (Hc36 : c = 36%N) by (unfold bulk in E; cbn [app] in E; congruence). subst c.
  assert (G0 : getb (pre ++ 36%N :: q) (len pre) = Some 36%N).
  { replace (len pre) with (len pre + 0) by lia. rewrite getb_app_r by lia. reflexivity. }
  rewrite G0. cbn [negb N.eqb Pos.eqb].
  set (n := N.of_nat (length a)).
  assert (Hn : Z.of_N n = len a) by (unfold n; rewrite len_spec; lia).
  assert (E1 : q ++ s = (dec n ++ [CR; LF]) ++ a ++ [CR; LF]).
  { unfold bulk in E. fold n in E. cbn [app] in E. inversion E as [E2]. rewrite E2, <- app_assoc. reflexivity. }
  apply app_eq_app in E1. destruct E1 as [l [[Eq Es]|[Eq Es]]].
  - (* the header is complete: q = (dec n ++ [CR; LF]) ++ l, the body l is cut *)
    subst q.
    assert (RL : read_len (pre ++ 36%N :: (dec n ++ [CR; LF]) ++ l) (len pre) (len pre + 1)
                 = LOk (len a) (len pre + 1 + len (dec n) + 1)).
    { replace (pre ++ 36%N :: (dec n ++ [CR; LF]) ++ l) with (pre ++ [36%N] ++ dec n ++ [CR; LF] ++ l)
        by (cbn [app]; repeat rewrite <- app_assoc; reflexivity).
      replace (len pre + 1) with (len pre + len [36%N]) by reflexivity.
      apply read_len_hdr.
      - constructor; [discriminate|constructor].
      - apply dec_digits.
      - rewrite len_app in Hbig. pose proof (len_nonneg (dec n)).
        assert (len (bulk a) = len (dec n) + 3 + len a + 2).
        { rewrite bulk_eq. fold n. rewrite !len_app, len_hdr, len_cons, len_cons, len_nil. lia. }
        rewrite parse_int_dec by lia. f_equal. exact Hn. }
    rewrite RL. destruct (Z.leb_spec count 0); [lia|].
    pose proof (len_nonneg a). rewrite (wrap_small (len a + 2)) by (rewrite len_app in Hbig;
      assert (len (bulk a) = len (dec n) + 3 + len a + 2) by (rewrite bulk_eq; fold n; rewrite !len_app, len_hdr, len_cons, len_cons, len_nil; lia);
      pose proof (len_nonneg (dec n)); lia).
    assert (Hl : len l < len a + 2).
    { assert (len (l ++ s) = len a + 2) by (rewrite <- Es, len_app, len_cons, len_cons, len_nil; lia).
      rewrite len_app in H1. destruct s; [congruence|]. rewrite len_cons in H1. pose proof (len_nonneg s). lia. }
    destruct (Z.leb_spec (len a + 2) (len (pre ++ 36%N :: (dec n ++ [CR; LF]) ++ l) - (len pre + 1 + len (dec n) + 1 + 1))) as [L|_]; [|reflexivity].
    rewrite len_app, len_cons, !len_app, len_cons, len_cons, len_nil in L. lia.
  - (* the header itself is cut: no LF yet *)
    destruct l as [|x l].
    + (* q is exactly the header, nothing of the body: same as the first case with an empty body *)
      rewrite app_nil_r in Eq. subst q.
      assert (RL : read_len (pre ++ 36%N :: (dec n ++ [CR; LF])) (len pre) (len pre + 1)
                   = LOk (len a) (len pre + 1 + len (dec n) + 1)).
      { replace (pre ++ 36%N :: (dec n ++ [CR; LF])) with (pre ++ [36%N] ++ dec n ++ [CR; LF] ++ [])
          by (cbn [app]; reflexivity).
        replace (len pre + 1) with (len pre + len [36%N]) by reflexivity.
        apply read_len_hdr.
        - constructor; [discriminate|constructor].
        - apply dec_digits.
        - rewrite len_app in Hbig. pose proof (len_nonneg (dec n)).
          assert (len (bulk a) = len (dec n) + 3 + len a + 2).
          { rewrite bulk_eq. fold n. rewrite !len_app, len_hdr, len_cons, len_cons, len_nil. lia. }
          rewrite parse_int_dec by lia. f_equal. exact Hn. }
      rewrite RL. destruct (Z.leb_spec count 0); [lia|].
      pose proof (len_nonneg a). rewrite (wrap_small (len a + 2)) by (rewrite len_app in Hbig;
        assert (len (bulk a) = len (dec n) + 3 + len a + 2) by (rewrite bulk_eq; fold n; rewrite !len_app, len_hdr, len_cons, len_cons, len_nil; lia);
        pose proof (len_nonneg (dec n)); lia).
      destruct (Z.leb_spec (len a + 2) (len (pre ++ 36%N :: (dec n ++ [CR; LF])) - (len pre + 1 + len (dec n) + 1 + 1))) as [L|_]; [|reflexivity].
      rewrite len_app, len_cons, !len_app, len_cons, len_cons, len_nil in L. lia.
    + assert (F : Forall (fun y => y <> LF) q).
      { apply (no_lf_prefix_hdr q (x :: l) n); [symmetry; exact Eq|discriminate]. }
      replace (pre ++ 36%N :: q) with (pre ++ (36%N :: q)) by reflexivity.
      rewrite read_len_cut; [reflexivity|]. constructor; [discriminate|exact F].
Qed.

Lemma bulk_length_pos a : (1 <= length (bulk a))%nat.
Proof. unfold bulk. cbn [length]. lia. Qed.

Lemma resp_args_cut : forall rem pre racc count j fuel q s,
  count - j = Z.of_nat (length rem) -> 0 <= j -> (length q <= fuel)%nat ->
  len (pre ++ bulks rem) < BIG -> q ++ s = bulks rem -> s <> [] ->
  resp_args (S fuel) (pre ++ q) (len (pre ++ q)) count j (len pre) racc = Incomplete.
Proof.
  induction rem as [|a rem IH]; intros pre racc count j fuel q s Hc Hj Hf Hbig E Hs.
  { cbn in E. destruct q; cbn in E; [congruence|discriminate]. }
  cbn [length] in Hc. rewrite bulks_cons in E, Hbig.
  pose proof (len_nonneg (bulks rem)) as Hb0. pose proof (bulk_length_pos a) as Hbp.
  apply app_eq_app in E. destruct E as [l [[Eq Es]|[Eq Es]]].
  - (* q = bulk a ++ l : one full step, then the rest *)
    destruct rem as [|a2 rem].
    { cbn in Es. destruct l; [|discriminate]. cbn in Es. congruence. }
    subst q. rewrite app_length in Hf. destruct fuel as [|fuel]; [lia|].
    rewrite one_step; [|lia|rewrite app_assoc, len_app in Hbig; lia].
    destruct (Z.eqb_spec j (count - 1)); [cbn [length] in Hc; lia|].
    replace (pre ++ bulk a ++ l) with ((pre ++ bulk a) ++ l) by (rewrite <- app_assoc; reflexivity).
    apply (IH (pre ++ bulk a) (a :: racc) count (j + 1) fuel l s); try assumption.
    + cbn [length] in *; lia. + lia. + lia.
    + rewrite <- app_assoc. exact Hbig. + symmetry; exact Es.
  - (* q is a prefix of bulk a *)
    destruct l as [|x l].
    + (* q = bulk a exactly: s = bulks rem is non-empty *)
      rewrite app_nil_r in Eq. subst q. cbn [app] in Es. subst s.
      destruct rem as [|a2 rem]; [cbn in Hs; congruence|].
      destruct fuel as [|fuel]; [lia|].
      replace (pre ++ bulk a) with (pre ++ bulk a ++ []) by (rewrite app_nil_r; reflexivity).
      rewrite one_step; [|lia|rewrite app_assoc, len_app in Hbig; lia].
      destruct (Z.eqb_spec j (count - 1)); [cbn [length] in Hc; lia|].
      replace (pre ++ bulk a ++ []) with ((pre ++ bulk a) ++ []) by (rewrite app_nil_r, app_nil_r; reflexivity).
      apply (IH (pre ++ bulk a) (a :: racc) count (j + 1) fuel [] (bulks (a2 :: rem))); try assumption.
      * cbn [length] in *; lia. * lia. * cbn [length]; lia.
      * rewrite <- app_assoc. exact Hbig. * reflexivity.
    + apply (one_bulk_cut fuel pre a q (x :: l)); [lia| |symmetry; exact Eq|discriminate].
      rewrite app_assoc, len_app in Hbig. lia.
Qed.

(* ---------- read_next on an encoded command and on its strict prefixes ---------- *)
Lemma enc_cons args : enc args = 42%N :: (dec (N.of_nat (length args)) ++ [CR; LF]) ++ bulks args.
Proof. unfold enc. cbn [app]. rewrite <- app_assoc. reflexivity. Qed.

Lemma read_len_count n tail : Z.of_N n < 9223372036854775808 ->
  read_len (42%N :: dec n ++ [CR; LF] ++ tail) 1 1 = LOk (Z.of_N n) (1 + len (dec n) + 1).
Proof.
  intros Hn.
  exact (read_len_hdr [42%N] [] (dec n) tail (Z.of_N n) (Forall_nil _) (dec_digits n) (parse_int_dec n Hn)).
Qed.

Lemma read_next_enc args r : args <> [] -> len (enc args) < BIG ->
  read_next (enc args ++ r) = Complete args Redis r.
Proof.
  intros Hne Hbig. pose proof Hbig as Hbig'. unfold BIG in Hbig'.
  set (n := N.of_nat (length args)).
  assert (Hl : len (enc args) = len (hdr 42 n) + len (bulks args)) by (rewrite enc_eq, len_app; reflexivity).
  pose proof (len_nonneg (bulks args)) as Hb0. pose proof (len_nonneg (dec n)) as Hd0.
  pose proof (bulks_length args) as Hbl. rewrite len_hdr in Hl.
  assert (Hn : Z.of_N n = Z.of_nat (length args)) by (unfold n; lia).
  assert (Hnb : Z.of_N n < 9223372036854775808) by (rewrite Hn; pose proof (len_spec (bulks args)); lia).
  rewrite enc_eq. fold n. unfold hdr. cbn [app read_next N.eqb Pos.eqb].
  unfold read_resp. rewrite <- !app_assoc.
  rewrite read_len_count by assumption.
  destruct (Z.ltb_spec (Z.of_N n) 0); [lia|].
  destruct (Z.eqb_spec (Z.of_N n) 0) as [E|_]; [destruct args; [congruence|cbn [length] in Hn; lia]|].
  replace (42%N :: dec n ++ [CR; LF] ++ bulks args ++ r) with (hdr 42 n ++ bulks args ++ r)
    by (unfold hdr; cbn [app]; rewrite <- app_assoc; reflexivity).
  replace (1 + len (dec n) + 1 + 1) with (len (hdr 42 n)) by (rewrite len_hdr; lia).
  rewrite resp_args_enc; [reflexivity|assumption|lia|lia| |].
  - rewrite !app_length. lia.
  - unfold n. rewrite <- enc_eq. exact Hbig.
Qed.

Lemma read_next_enc_cut args q s : args <> [] -> len (enc args) < BIG -> q ++ s = enc args -> s <> [] ->
  read_next q = Incomplete.
Proof.
  intros Hne Hbig E Hs. pose proof Hbig as Hbig'. unfold BIG in Hbig'.
  set (n := N.of_nat (length args)) in *.
  assert (Hl : len (enc args) = len (hdr 42 n) + len (bulks args)) by (rewrite enc_eq, len_app; reflexivity).
  pose proof (len_nonneg (bulks args)) as Hb0. pose proof (len_nonneg (dec n)) as Hd0.
  pose proof (bulks_length args) as Hbl. rewrite len_hdr in Hl.
  assert (Hn : Z.of_N n = Z.of_nat (length args)) by (unfold n; lia).
  assert (Hnb : Z.of_N n < 9223372036854775808) by (rewrite Hn; pose proof (len_spec (bulks args)); lia).
  destruct q as [|c q]; [reflexivity|].
  rewrite enc_cons in E. fold n in E. cbn [app] in E. inversion E as [[Ec E1]]. subst c.
  cbn [read_next N.eqb Pos.eqb]. unfold read_resp.
  apply app_eq_app in E1. destruct E1 as [l [[Eq Es]|[Eq Es]]].
  - subst q. rewrite <- app_assoc. rewrite read_len_count by assumption.
    destruct (Z.ltb_spec (Z.of_N n) 0); [lia|].
    destruct (Z.eqb_spec (Z.of_N n) 0) as [E0|_]; [destruct args; [congruence|cbn [length] in Hn; lia]|].
    replace (42%N :: dec n ++ [CR; LF] ++ l) with (hdr 42 n ++ l)
      by (unfold hdr; cbn [app]; rewrite <- app_assoc; reflexivity).
    replace (1 + len (dec n) + 1 + 1) with (len (hdr 42 n)) by (rewrite len_hdr; lia).
    apply (resp_args_cut args (hdr 42 n) [] (Z.of_N n) 0 (length (hdr 42 n ++ l)) l s); try lia; try assumption.
    + rewrite !app_length. lia.
    + unfold n. rewrite <- enc_eq. exact Hbig.
    + symmetry; exact Es.
  - destruct l as [|x l].
    + rewrite app_nil_r in Eq. subst q. cbn [app] in Es. subst s.
      replace (42%N :: dec n ++ [CR; LF]) with (42%N :: dec n ++ [CR; LF] ++ []) by reflexivity.
      rewrite read_len_count by assumption.
      destruct (Z.ltb_spec (Z.of_N n) 0); [lia|].
      destruct (Z.eqb_spec (Z.of_N n) 0) as [E0|_]; [destruct args; [congruence|cbn [length] in Hn; lia]|].
      replace (42%N :: dec n ++ [CR; LF] ++ []) with (hdr 42 n ++ []) by (unfold hdr; rewrite app_nil_r; reflexivity).
      replace (1 + len (dec n) + 1 + 1) with (len (hdr 42 n)) by (rewrite len_hdr; lia).
      apply (resp_args_cut args (hdr 42 n) [] (Z.of_N n) 0 (length (hdr 42 n ++ [])) [] (bulks args)); try lia; try assumption.
      * cbn [length]. lia.
      * unfold n. rewrite <- enc_eq. exact Hbig.
      * reflexivity.
    + assert (F : Forall (fun y => y <> LF) q).
      { apply (no_lf_prefix_hdr q (x :: l) n); [symmetry; exact Eq|discriminate]. }
      replace (42%N :: q) with ([42%N] ++ q) by reflexivity.
      change 1 with (len [42%N]) at 1. rewrite read_len_cut by assumption. reflexivity.
Qed.
