(* C13 — no mutation of a collection can interleave with a kNN traversal (Model/KnnIso.v), proved
   over the regenerated tables for EVERY command string, every goroutine of the package and every
   sub-command of every script variant; and what that buys: under any schedule of lock-protected
   writers and NEARBY traversals, each traversal runs on one tree — the tree after a complete
   prefix of the log — so the theorems of Props/C13.v apply to it. *)
From Coq Require Import String List Bool ZArith Sorted Permutation.
From T38 Require Import Model.Tables Gen.LockTable Gen.Dispatch Gen.ScriptTables Gen.Mutators Model.Gate
  Model.KnnIso.
From T38 Require Import Model.Cursor Model.Knn Proofs.KnnProofs Model.Conc Proofs.ConcProofs.
Import ListNotations.
Open Scope string_scope.

(* Lifting from the finite tables to every string (same argument as Proofs/GateProofs.v; repeated
   here so that C13's obligation stands or falls with its own statement only). *)
Lemma find_handler_In hs c h : find_handler hs c = Some h -> In c (map h_cmd hs).
Proof.
  induction hs as [|x hs IH]; cbn; [discriminate|].
  destruct (String.eqb_spec (h_cmd x) c) as [E|E]; [intros _; left; exact E | intros H; right; exact (IH H)].
Qed.

Lemma lift_dispatch (hs : list handler) (P : string -> bool) :
  forallb P (map h_cmd hs) = true ->
  (forall c, find_handler hs c = None -> P c = true) ->
  forall c, P c = true.
Proof.
  intros Hall Hnone c.
  destruct (find_handler hs c) as [h|] eqn:E.
  - rewrite forallb_forall in Hall. apply Hall. eapply find_handler_In; eauto.
  - apply Hnone. exact E.
Qed.

Lemma arm_of_In t c : In (arm_of t c) (t_default t :: t_arms t).
Proof.
  unfold arm_of. destruct (find_arm (t_arms t) c) as [a|] eqn:Ef; [right | left; reflexivity].
  induction (t_arms t) as [|x l IH]; cbn in *; [discriminate|].
  destruct (in_strs c (a_cmds x)); [inversion Ef; left; reflexivity | right; apply IH; exact Ef].
Qed.

(* ---------- commands received on a connection ---------- *)

(* whatever arm a command falls into: if the arm logs, writeAOF (fence evaluation included) is
   isolated under the arm's lock *)
Lemma lock_arms_writeaof_isolated :
  forallb (fun a => if a_write a then handler_isolated (a_lock a) "writeAOF" else true)
          (t_default lock_table :: t_arms lock_table) = true.
Proof. vm_compute. reflexivity. Qed.

Lemma cmd_isolated_all : forall c, cmd_isolated c = true.
Proof.
  apply (lift_dispatch dispatch).
  - vm_compute. reflexivity.
  - intros c Hn. unfold cmd_isolated. rewrite Hn. cbn [andb].
    pose proof lock_arms_writeaof_isolated as H. rewrite forallb_forall in H.
    exact (H _ (arm_of_In lock_table c)).
Qed.

(* the readable form: a mutation site reachable from the handler of c is under the exclusive lock, a
   traversal site under at least the shared lock, and that lock is held for the whole handler *)
Lemma cmd_sites_isolated c h m :
  find_handler dispatch c = Some h -> In m (fn_effects (h_fn h)) ->
  let held := held_throughout (a_lock (arm_of lock_table c)) (h_fn h) in
  (is_index_mut m = true -> is_excl (ctx_max held (m_ctx m)) = true) /\
  (is_traversal m = true -> at_least_shared (ctx_max held (m_ctx m)) = true).
Proof.
  intros Hh Hm held. pose proof (cmd_isolated_all c) as H. unfold cmd_isolated in H.
  rewrite Hh in H. apply andb_true_iff in H as [H _].
  unfold handler_isolated in H. rewrite forallb_forall in H. specialize (H m Hm).
  unfold site_isolated in H. apply andb_true_iff in H as [H1 H2]. fold held in H1, H2.
  split; intros E; rewrite E in *; cbn in *; assumption.
Qed.

(* NEARBY and the other searches: shared lock, taken by handleInputCommand, no lock call inside;
   every object write: exclusive lock, no lock call inside; and the tables do see the traversal of
   the former and the index mutation of the latter (the statements above are not vacuous) *)
Lemma searches_shared_writes_excl :
  forallb (fun c => traverses c &&
                    match find_handler dispatch c with
                    | Some h => negb (fn_takes_lock (h_fn h)) | None => false end &&
                    at_least_shared (ctx_of_lock (a_lock (arm_of lock_table c)))) search_cmds = true /\
  forallb (fun c => mutates_index c &&
                    match find_handler dispatch c with
                    | Some h => negb (fn_takes_lock (h_fn h)) | None => false end &&
                    is_excl (ctx_of_lock (a_lock (arm_of lock_table c)))) object_write_cmds = true.
Proof. vm_compute. split; reflexivity. Qed.

(* ---------- goroutines ---------- *)

Lemma goroutines_isolated : forallb entry_isolated go_entries = true.
Proof. vm_compute. reflexivity. Qed.

(* the goroutines that do change collections (expiry sweep, follower, AOF load through the
   connection goroutine ...) are seen by the table: not vacuous *)
Lemma goroutines_isolated_nonvacuous :
  existsb is_index_mut (fn_effects "backgroundExpiring") = true /\
  existsb is_index_mut (fn_effects "follow") = true.
Proof. vm_compute. split; reflexivity. Qed.

(* ---------- script sub-commands ---------- *)

Lemma script_arms_writeaof_isolated :
  forallb (fun tl => forallb (fun a => if a_write a then handler_isolated (lock_max (snd tl) (a_lock a)) "writeAOF" else true)
                             (t_default (fst tl) :: t_arms (fst tl))) script_variants_held = true.
Proof. vm_compute. reflexivity. Qed.

Lemma script_cmd_isolated_all :
  forall t outer, In (t, outer) script_variants_held -> forall c, script_cmd_isolated t outer c = true.
Proof.
  intros t outer Ht. apply (lift_dispatch dispatch_script).
  - cbn in Ht. destruct Ht as [E|[E|[E|[]]]]; inversion E; subst; vm_compute; reflexivity.
  - intros c Hn. unfold script_cmd_isolated. rewrite Hn.
    destruct (in_strs c script_deny); [reflexivity|].
    destruct (a_reject (arm_of t c)) eqn:Er; try reflexivity. cbn [andb].
    pose proof script_arms_writeaof_isolated as H. rewrite forallb_forall in H.
    specialize (H _ Ht). cbn [fst snd] in H. rewrite forallb_forall in H.
    exact (H _ (arm_of_In t c)).
Qed.

(* a sub-command the script gate lets run *)
Lemma script_run_isolated t outer c e l w fn :
  In (t, outer) script_variants_held -> script_gate t c e = SRun l w fn ->
  handler_isolated (lock_max outer l) fn = true.
Proof.
  intros Ht Hg. pose proof (script_cmd_isolated_all t outer Ht c) as H.
  unfold script_cmd_isolated in H. unfold script_gate in Hg.
  destruct (in_strs c script_deny); [discriminate|].
  destruct (a_reject (arm_of t c)); try discriminate.
  destruct (arm_verdict (arm_of t c) e) as [[]|]; try discriminate.
  destruct (find_handler dispatch_script c) as [h|]; [|discriminate].
  inversion Hg; subst. apply andb_true_iff in H as [H _]. exact H.
Qed.

(* ---------- what isolation buys ---------- *)

Section OneTree.
Variables I R : Type.
Variable d : I -> Z.
Variable lb : R -> Z.
Variable qinv : @queue I R -> Prop.
Variable qpush : @queue I R -> @qnode I R -> @queue I R.
Variable qpop : @queue I R -> option (@qnode I R * @queue I R).
Hypothesis Hq : queue_ok qinv qpush qpop.
Hypothesis Hnn : forall i, (0 <= d i)%Z.

(* the index of one collection, single-object updates of it (Collection.Set / Delete, an expiry), a
   write command = a sequence of them applied inside one exclusive section, a NEARBY = n visits of
   the tree inside one shared section *)
Variable micro : Type.
Variable apply : option (@tree I R) -> micro -> option (@tree I R).
Variable s0 : option (@tree I R).
Hypothesis H0 : root_ok d lb s0.
Hypothesis Hstep : forall s m, root_ok d lb s -> root_ok d lb (apply s m).

Lemma seq_state_ok l : root_ok d lb (seq_state _ micro apply s0 l).
Proof.
  unfold seq_state. generalize s0 H0. induction l as [|ms l IH]; intros s Hs; cbn [fold_left]; [exact Hs|].
  apply IH. clear IH. revert s Hs. induction ms as [|m ms IHm]; intros s Hs; cbn [fold_left]; [exact Hs|].
  apply IHm. apply Hstep. exact Hs.
Qed.

Lemma concurrent_nearby_one_tree prog sched :
  let g := Conc.run _ micro apply (Conc.init _ micro s0 prog) sched in
  forall seen, In seen (Conc.finished _ _ g) ->
  exists k, (k <= length (Conc.log _ _ g))%nat /\
    let t := seq_state _ micro apply s0 (firstn k (Conc.log _ _ g)) in
    (forall x, In x seen -> x = t) /\
    exists l, knn d lb qpush qpop t = Done l /\
              Permutation (map fst l) (root_items t) /\ emitted_ok d l /\ dist_sorted l.
Proof.
  cbn zeta. intros seen Hs.
  destruct (linearizable _ micro apply s0 prog sched) as [_ [J _]]. cbn zeta in J.
  destruct (J seen Hs) as [k [Hk Hx]]. exists k. split; [exact Hk|]. split; [exact Hx|].
  eapply knn_sorted; [exact Hq | exact Hnn | apply seq_state_ok].
Qed.
End OneTree.
