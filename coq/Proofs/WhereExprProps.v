(* Proofs/WhereExprProps.v — consequences of Proofs/WhereExprSem.v for property C12:

   1. && || ! on the denotation are the Boolean connectives of the truth values of their operands
      whenever the operands evaluate (no error, no object value); evaluating both operands (the
      evaluator never short-circuits) then gives what a short-circuiting reading gives, and the
      usual laws hold.  An operand that fails makes the whole filter reject the object, also where
      a short-circuiting || would have accepted it ([or_error_rejects]).
   2. a scan filtered by WHERE clauses (expression clauses and field clauses) keeps exactly the
      objects every clause accepts; DESC only reverses; a single expression clause given as the
      printed text of a tree keeps the objects whose denotation is true.
   3. WHERE f a b and WHERE "(f >= a) && (f <= b)" (and the exclusive variants) agree on objects
      whose field f is missing or a finite number, for every oracle whose comparisons are those of
      the numbers ([num_agree]).
   4. witnesses on the float64 instance: where the two forms differ (+Inf, true), and the two
      spellings the evaluator does not read the way they are meant. *)
From Coq Require Import List NArith ZArith Bool Lia.
From Coq Require Import ZifyN ZifyNat ZifyBool.
From T38 Require Import Base.Bytes Model.Float32 Model.Where Model.WhereExpr Model.WhereExprF64
  Model.WhereExprScan Model.WhereExprTree Proofs.WhereExprSem.
Import ListNotations.

(* ------------------------------------------------------------------ 1. Boolean connectives *)

Section Bool.
Context {F : Type} (O : oracle F) (obj : eobj F).
Notation V := (evalue F).

(* the truth value the evaluator gives a value that is not an object *)
Definition truth (v : V) (b : bool) : Prop := is_obj F v = false /\ to_bool F O obj v = Ok b.

Lemma truth_not_bool v b : truth v b ->
  (match v with VBool _ b' => Ok b' | _ => to_bool F O obj v end) = Ok b.
Proof. intros [_ H]. destruct v; exact H. Qed.

Theorem den_and_truth a b x y bx by_ :
  den F O obj a = Ok x -> den F O obj b = Ok y -> truth x bx -> truth y by_ ->
  den F O obj (BAnd a b) = Ok (VBool F (bx && by_)).
Proof.
  intros Ha Hb [Hox Hx] [Hoy Hy]. cbn [den]. rewrite Ha, Hb. cbn [bind].
  unfold op_and, either_obj. rewrite Hox, Hoy. cbn [orb]. rewrite Hx, Hy. reflexivity.
Qed.

Theorem den_or_truth a b x y bx by_ :
  den F O obj a = Ok x -> den F O obj b = Ok y -> truth x bx -> truth y by_ ->
  den F O obj (BOr a b) = Ok (VBool F (bx || by_)).
Proof.
  intros Ha Hb [Hox Hx] [Hoy Hy]. cbn [den]. rewrite Ha, Hb. cbn [bind].
  unfold op_or, either_obj. rewrite Hox, Hoy. cbn [orb]. rewrite Hx, Hy. reflexivity.
Qed.

Theorem den_not_truth a x bx :
  den F O obj a = Ok x -> truth x bx -> den F O obj (BNot a) = Ok (VBool F (negb bx)).
Proof.
  intros Ha Hx. cbn [den]. rewrite Ha. cbn [bind]. rewrite (truth_not_bool x bx Hx). reflexivity.
Qed.

Lemma truth_bool b : truth (VBool F b) b.
Proof. split; reflexivity. Qed.

(* the truth value of a tree, when it has one *)
Definition holds (e : bexpr) (b : bool) : Prop := exists v, den F O obj e = Ok v /\ truth v b.

Lemma holds_match e b : holds e b -> den_match F O obj e = Ok b.
Proof. intros (v & Hv & _ & Hb). unfold den_match. rewrite Hv. exact Hb. Qed.

Theorem holds_and a b ba bb : holds a ba -> holds b bb -> holds (BAnd a b) (ba && bb).
Proof.
  intros (x & Hx & Tx) (y & Hy & Ty). exists (VBool F (ba && bb)).
  split; [eapply den_and_truth; eauto | apply truth_bool].
Qed.

Theorem holds_or a b ba bb : holds a ba -> holds b bb -> holds (BOr a b) (ba || bb).
Proof.
  intros (x & Hx & Tx) (y & Hy & Ty). exists (VBool F (ba || bb)).
  split; [eapply den_or_truth; eauto | apply truth_bool].
Qed.

Theorem holds_not a ba : holds a ba -> holds (BNot a) (negb ba).
Proof.
  intros (x & Hx & Tx). exists (VBool F (negb ba)). split; [eapply den_not_truth; eauto | apply truth_bool].
Qed.

(* what a short-circuiting evaluator would answer on operands that have truth values *)
Definition sc_and (ba bb : bool) : bool := if ba then bb else false.
Definition sc_or (ba bb : bool) : bool := if ba then true else bb.

Theorem bool_semantics a b ba bb : holds a ba -> holds b bb ->
  den_match F O obj (BAnd a b) = Ok (sc_and ba bb) /\
  den_match F O obj (BOr a b) = Ok (sc_or ba bb) /\
  den_match F O obj (BNot a) = Ok (negb ba) /\
  den_match F O obj (BNot (BNot a)) = Ok ba /\
  den_match F O obj (BNot (BAnd a b)) = den_match F O obj (BOr (BNot a) (BNot b)) /\
  den_match F O obj (BNot (BOr a b)) = den_match F O obj (BAnd (BNot a) (BNot b)) /\
  den_match F O obj (BAnd a b) = den_match F O obj (BAnd b a) /\
  den_match F O obj (BOr a b) = den_match F O obj (BOr b a).
Proof.
  intros Ha Hb.
  pose proof (holds_and a b ba bb Ha Hb) as Hand. pose proof (holds_or a b ba bb Ha Hb) as Hor.
  pose proof (holds_not a ba Ha) as Hna. pose proof (holds_not b bb Hb) as Hnb.
  repeat split.
  - rewrite (holds_match _ _ Hand). destruct ba, bb; reflexivity.
  - rewrite (holds_match _ _ Hor). destruct ba, bb; reflexivity.
  - apply holds_match. exact Hna.
  - rewrite (holds_match _ _ (holds_not _ _ Hna)). rewrite negb_involutive. reflexivity.
  - rewrite (holds_match _ _ (holds_not _ _ Hand)), (holds_match _ _ (holds_or _ _ _ _ Hna Hnb)).
    destruct ba, bb; reflexivity.
  - rewrite (holds_match _ _ (holds_not _ _ Hor)), (holds_match _ _ (holds_and _ _ _ _ Hna Hnb)).
    destruct ba, bb; reflexivity.
  - rewrite (holds_match _ _ Hand), (holds_match _ _ (holds_and _ _ _ _ Hb Ha)). destruct ba, bb; reflexivity.
  - rewrite (holds_match _ _ Hor), (holds_match _ _ (holds_or _ _ _ _ Hb Ha)). destruct ba, bb; reflexivity.
Qed.

(* an operand that fails rejects the object, whatever the other operand says *)
Theorem error_rejects a b x :
  den F O obj b = Err x ->
  (forall v, den F O obj a = Ok v -> True) ->
  (den F O obj a = Panic -> False) -> (den F O obj a = NoFuel -> False) -> (den F O obj a = Outside -> False) ->
  den_match F O obj (BOr a b) = Ok false /\ den_match F O obj (BAnd a b) = Ok false.
Proof.
  intros Hb _ H1 H2 H3. unfold den_match. cbn [den]. rewrite Hb.
  destruct (den F O obj a) as [v|y| | |]; cbn [bind]; try tauto; split; reflexivity.
Qed.

End Bool.

(* ------------------------------------------------------------------ 2. scans *)

Section ScanSpec.
Context {F : Type} (O : oracle F).
Variable mt : bytes -> bytes -> option (option (evalue F)).

Lemma clauses_match_spec cs o (k : wclause -> bool) :
  (forall c, In c cs -> clause_match F O mt c o = Ok (k c)) ->
  clauses_match F O mt cs o = Ok (forallb k cs).
Proof.
  induction cs as [|c cs IH]; intros H; cbn [clauses_match forallb]; [reflexivity|].
  rewrite (H c) by (left; reflexivity). destruct (k c); cbn [negb andb]; [|reflexivity].
  apply IH. intros c' Hc'. apply H. right. exact Hc'.
Qed.

Lemma keep_ids_spec cs objs (keep : sobj -> bool) :
  (forall o, In o objs -> clauses_match F O mt cs o = Ok (keep o)) ->
  keep_ids F O mt cs objs = Ok (map so_id (filter keep objs)).
Proof.
  induction objs as [|o objs IH]; intros H; cbn [keep_ids filter map]; [reflexivity|].
  rewrite (H o) by (left; reflexivity). rewrite IH by (intros o' Ho'; apply H; right; exact Ho').
  destruct (keep o); reflexivity.
Qed.

(* a filtered scan keeps exactly the objects every clause accepts, in iteration order *)
Theorem scan_expr_exact desc objs cs (k : wclause -> sobj -> bool) :
  (forall c o, In c cs -> In o objs -> clause_match F O mt c o = Ok (k c o)) ->
  scan_expr_ids F O mt desc objs cs =
    Ok (map so_id (filter (fun o => forallb (fun c => k c o) cs) (if desc then rev objs else objs))).
Proof.
  intros H. unfold scan_expr_ids. apply keep_ids_spec. intros o Ho.
  apply clauses_match_spec. intros c Hc. apply H; [exact Hc|].
  destruct desc; [apply in_rev; exact Ho | exact Ho].
Qed.

Lemma filter_rev' {A} (f : A -> bool) l : filter f (rev l) = rev (filter f l).
Proof.
  induction l as [|x l IH]; [reflexivity|]. cbn [rev filter]. rewrite filter_app, IH. cbn [filter].
  destruct (f x); cbn [rev app]; [reflexivity | rewrite app_nil_r; reflexivity].
Qed.

Theorem scan_expr_desc objs cs ids :
  scan_expr_ids F O mt false objs cs = Ok ids ->
  (forall c o, In c cs -> In o objs -> exists b, clause_match F O mt c o = Ok b) ->
  scan_expr_ids F O mt true objs cs = Ok (rev ids).
Proof.
  intros Hasc Hall.
  set (k := fun c o => match clause_match F O mt c o with Ok b => b | _ => false end).
  assert (Hk : forall c o, In c cs -> In o objs -> clause_match F O mt c o = Ok (k c o)).
  { intros c o Hc Ho. destruct (Hall c o Hc Ho) as [b Hb]. unfold k. rewrite Hb. reflexivity. }
  rewrite (scan_expr_exact false objs cs k Hk) in Hasc. inversion Hasc; subst ids.
  rewrite (scan_expr_exact true objs cs k Hk). rewrite filter_rev', map_rev. reflexivity.
Qed.

(* one expression clause given as the printed text of a tree *)
Theorem scan_print_exact desc objs e (keep : sobj -> bool) :
  wf e = true ->
  (forall o, In o objs -> den_match F O (to_eobj F O (mt (so_id o)) o) e = Ok (keep o)) ->
  scan_expr_ids F O mt desc objs [WExpr (print e)] =
    Ok (map so_id (filter keep (if desc then rev objs else objs))).
Proof.
  intros Hwf H.
  rewrite (scan_expr_exact desc objs [WExpr (print e)] (fun _ o => keep o)).
  - f_equal. f_equal. apply filter_ext. intros o. cbn [forallb]. apply andb_true_r.
  - intros c o [<-|[]] Ho. cbn [clause_match]. rewrite match_print by exact Hwf. apply H. exact Ho.
Qed.

End ScanSpec.

(* ------------------------------------------------------------------ 3. the range form and the expression form *)

Section Range.
Context {F : Type} (O : oracle F).

(* x is the float64 of the number z / 1000 as far as comparisons with integers go *)
Definition repr (x : F) (z : Z) : Prop :=
  forall a : Z,
    f_lt F O x (f_of_int F O a) = (z <? 1000 * a)%Z /\
    f_lt F O (f_of_int F O a) x = (1000 * a <? z)%Z /\
    f_eq F O x (f_of_int F O a) = (z =? 1000 * a)%Z.

(* the oracle compares the stored numbers and the integer literals as numbers *)
Definition num_agree : Prop :=
  (forall z, repr (th_to_float F O z) z) /\ repr (f_of_int F O 0%Z) 0%Z /\
  (forall m, (0 < m)%Z -> f_mul F O (f_of_int F O m) (f_of_int F O (-1)%Z) = f_of_int F O (- m)%Z).

Definition num_value (z : Z) : value := {| v_kind := KNumber; v_data := []; v_num := Fin z |}.

Definition range_tree (f : bytes) (minx : bool) (a : Z) (maxx : bool) (b : Z) : bexpr :=
  BAnd (BCmp (if minx then CGt else CGe) (AField f) (ANum a))
       (BCmp (if maxx then CLt else CLe) (AField f) (ANum b)).

(* the field f of the object is missing or a finite number *)
Definition numeric_field (fs : fields) (f : bytes) : Prop :=
  forall v, In (f, v) fs -> v_kind v = KNumber /\ exists z, v_num v = Fin z.

Lemma get_field_numeric fs f : numeric_field fs f ->
  exists z, v_kind (get_field fs f) = KNumber /\ v_num (get_field fs f) = Fin z /\
    (assoc F (map (fun nv => (fst nv, value_to_expr F O (snd nv))) fs) f = Some (VFloat F (th_to_float F O z)) \/
     (assoc F (map (fun nv => (fst nv, value_to_expr F O (snd nv))) fs) f = None /\ z = 0%Z)).
Proof.
  induction fs as [|[n v] fs IH]; intros H.
  - exists 0%Z. cbn. repeat split; auto.
  - cbn [get_field map assoc fst snd]. destruct (bytes_eqb n f) eqn:E.
    + apply bytes_eqb_eq in E. subst n. destruct (H v (or_introl eq_refl)) as (Hk & z & Hz).
      exists z. repeat split; auto. left. unfold value_to_expr. rewrite Hk, Hz. reflexivity.
    + apply IH. intros v' Hv'. apply H. right. exact Hv'.
Qed.

Lemma leb_split u w : (u <=? w)%Z = ((u <? w) || (u =? w))%Z.
Proof. destruct (Z.leb_spec u w), (Z.ltb_spec u w), (Z.eqb_spec u w); cbn; try reflexivity; lia. Qed.

Lemma geb_split u w : (w <=? u)%Z = ((w <? u) || (u =? w))%Z.
Proof. destruct (Z.leb_spec w u), (Z.ltb_spec w u), (Z.eqb_spec u w); cbn; try reflexivity; lia. Qed.

Lemma mLT_num_r v z A : v_kind v = KNumber -> v_num v = Fin z -> mLT v (num_value A) = (z <? A)%Z.
Proof.
  intros Hk Hz. unfold mLT, value_less, value_less_case, num_value. cbn [v_kind v_num v_data].
  rewrite Hk, Hz. reflexivity.
Qed.

Lemma mLT_num_l v z A : v_kind v = KNumber -> v_num v = Fin z -> mLT (num_value A) v = (A <? z)%Z.
Proof.
  intros Hk Hz. unfold mLT, value_less, value_less_case, num_value. cbn [v_kind v_num v_data].
  rewrite Hk, Hz. reflexivity.
Qed.

Definition not_pseudo (f : bytes) : Prop :=
  bytes_eqb f s_this = false /\ bytes_eqb f s_id = false /\ bytes_eqb f s_type = false.

Theorem range_agrees (o : sobj) mt f minx a maxx b :
  num_agree -> wf_name f = true -> not_pseudo f ->
  (-1000000000000 < a < 1000000000000)%Z -> (-1000000000000 < b < 1000000000000)%Z ->
  numeric_field (so_fields o) f ->
  den_match F O (to_eobj F O mt o) (range_tree f minx a maxx b) =
    Ok (match_field (where_make minx (num_value (1000 * a)) maxx (num_value (1000 * b)))
          (get_field (so_fields o) f)).
Proof.
  intros (Hth & H0 & Hneg) Hwf (Np1 & Np2 & Np3) Ha Hb Hnum.
  destruct (get_field_numeric (so_fields o) f Hnum) as (z & Hk & Hz & Hassoc).
  (* the value of the field in the expression *)
  assert (Hplain : plain_ident f = true).
  { destruct (wf_name_parts f Hwf) as (c & r & -> & Hc & Hr & _). cbn [plain_ident forallb].
    rewrite (id_start_continue c Hc), Hr. reflexivity. }
  assert (Hden : exists x, den_atom F O (to_eobj F O mt o) (AField f) = Ok (VFloat F x) /\ repr x z).
  { cbn [den_atom]. unfold get_ref_value, ext_ref. cbn [negb]. rewrite Np1.
    unfold obj_expr. cbn [to_eobj o_members o_fields o_id o_type]. rewrite Hplain. cbn [opt_outside bind].
    rewrite Np2, Np3.
    destruct Hassoc as [E|[E Ez]]; rewrite E; cbn [bind].
    - exists (th_to_float F O z). split; [reflexivity | apply Hth].
    - exists (f_of_int F O 0%Z). split; [reflexivity|]. rewrite Ez. exact H0. }
  destruct Hden as (x & Hx & Hr).
  (* the left side *)
  assert (Hlit : forall k, den_atom F O (to_eobj F O mt o) (ANum k) = Ok (VFloat F (f_of_int F O k))).
  { intros k. cbn [den_atom]. destruct (Z.ltb_spec k 0); [|reflexivity].
    rewrite Hneg by lia. replace (- - k)%Z with k by lia. reflexivity. }
  unfold den_match, range_tree. cbn [den]. rewrite Hx, !Hlit. cbn [bind].
  destruct (Hr a) as (La1 & La2 & La3). destruct (Hr b) as (Lb1 & Lb2 & Lb3).
  assert (E1 : den_cmp F O (to_eobj F O mt o) (if minx then CGt else CGe) (VFloat F x) (VFloat F (f_of_int F O a))
               = Ok (VBool F (if minx then (1000 * a <? z)%Z else (1000 * a <=? z)%Z))).
  { destruct minx; cbn [den_cmp]; unfold op_gte, op_gt, op_lt, op_eq, either_obj; cbn [is_obj kind_of Nat.eqb orb];
      rewrite La2; [reflexivity|]. cbn [bind to_bool]. rewrite (geb_split z (1000 * a)).
    destruct (1000 * a <? z)%Z eqn:E; [reflexivity|]. rewrite La3. reflexivity. }
  assert (E2 : den_cmp F O (to_eobj F O mt o) (if maxx then CLt else CLe) (VFloat F x) (VFloat F (f_of_int F O b))
               = Ok (VBool F (if maxx then (z <? 1000 * b)%Z else (z <=? 1000 * b)%Z))).
  { destruct maxx; cbn [den_cmp]; unfold op_lte, op_lt, op_eq, either_obj; cbn [is_obj kind_of Nat.eqb orb];
      rewrite Lb1; [reflexivity|]. cbn [bind to_bool]. rewrite (leb_split z (1000 * b)).
    destruct (z <? 1000 * b)%Z eqn:E; [reflexivity|]. rewrite Lb3. reflexivity. }
  rewrite E1, E2. cbn [bind]. unfold op_and, either_obj. cbn [is_obj kind_of Nat.eqb orb to_bool bind].
  (* the right side *)
  f_equal. unfold match_field, where_make, lower_value. cbn [w_min w_max w_minx w_maxx v_data v_kind v_num num_value map].
  cbn [bytes_eqb OP_LT OP_LE OP_GT OP_GE OP_EQ OP_NE].
  change {| v_kind := KNumber; v_data := []; v_num := Fin (1000 * a) |} with (num_value (1000 * a)).
  change {| v_kind := KNumber; v_data := []; v_num := Fin (1000 * b) |} with (num_value (1000 * b)).
  unfold mLTE, mGT, mGTE.
  rewrite !(mLT_num_r _ z) by assumption. rewrite !(mLT_num_l _ z) by assumption.
  rewrite (geb_split z (1000 * a)), (leb_split z (1000 * b)).
  clear. destruct minx, maxx; cbn [negb];
    repeat match goal with
    | |- context [(?u <? ?w)%Z] => destruct (Z.ltb_spec u w)
    | |- context [(?u =? ?w)%Z] => destruct (Z.eqb_spec u w)
    end; cbn; try reflexivity; try (exfalso; lia).
Qed.

End Range.

(* the hypothesis num_agree is satisfiable: exact arithmetic on thousandths *)
Definition toy_oracle : oracle Z :=
  mkOracle Z Z.add Z.sub (fun x y => (x * y / 1000)%Z) (fun x y => (x * 1000 / y)%Z) Z.rem Z.ltb Z.eqb
    (fun k => (1000 * k)%Z) (fun x => (x / 1000)%Z) 0%Z 0%Z 0%Z
    (fun _ => None) (fun _ => None) (fun _ _ => None) (fun _ _ => None) (fun _ _ => None).

Lemma toy_num_agree : num_agree toy_oracle.
Proof.
  unfold num_agree, repr, th_to_float. cbn [f_div f_of_int f_lt f_eq f_mul toy_oracle]. split.
  - intros z a. replace (1000 * z * 1000)%Z with (z * (1000 * 1000))%Z by ring.
    rewrite Z.div_mul by discriminate. repeat split; lia.
  - split; [intros a; repeat split; lia|].
    intros m Hm. cbn [f_mul]. replace (1000 * m * (1000 * -1))%Z with ((- (1000 * m)) * 1000)%Z by ring.
    rewrite Z.div_mul by discriminate. ring.
Qed.

(* ------------------------------------------------------------------ 4. witnesses on the float64 instance *)

Definition no_members : bytes -> option (option (evalue f64)) := fun _ => None.
Definition f64_obj (o : sobj) : eobj f64 := to_eobj f64 f64_plain no_members o.

Definition s_f : bytes := [102]%N.                                  (* f *)
Definition s_t : bytes := [116]%N.                                  (* t *)
Definition s_price : bytes := [112; 114; 105; 99; 101]%N.           (* price *)
Definition s_Point : bytes := [80; 111; 105; 110; 116]%N.

Definition v_inf : value := {| v_kind := KNumber; v_data := [43; 73; 110; 102]%N; v_num := PosInf |}.
Definition v_true : value := {| v_kind := KTrue; v_data := s_true; v_num := Fin 0 |}.

Definition witness_obj : sobj :=
  mkSobj [111]%N (Some s_Point) [123; 125]%N
    [(s_f, v_inf); (s_t, v_true); (s_price, num_value 25000)].

Definition witness_str_obj : sobj :=
  mkSobj [115]%N None [104; 105]%N [(s_f, num_value 5000)].

(* WHERE f 5 +inf keeps an object whose f is +Inf; WHERE "f >= 5" does not (the evaluator sees
   the JSON string "+Inf", which is not a number).  WHERE t 0 10 drops t = true, the expression
   (t >= 0) && (t <= 10) keeps it (true counts as 1). *)
Lemma range_vs_expr_witness :
  match_field (where_make false (num_value 5000) false v_inf) (get_field (so_fields witness_obj) s_f) = true /\
  den_match f64 f64_plain (f64_obj witness_obj) (BCmp CGe (AField s_f) (ANum 5)) = Ok false /\
  match_expr f64 f64_plain (f64_obj witness_obj) (print (BCmp CGe (AField s_f) (ANum 5))) = Ok false /\
  match_field (where_make false (num_value 0) false (num_value 10000)) (get_field (so_fields witness_obj) s_t) = false /\
  den_match f64 f64_plain (f64_obj witness_obj) (range_tree s_t false 0 false 10) = Ok true.
Proof. vm_compute. repeat split. Qed.

(* price-10 > 0  and  f*-1 < 3  are syntax errors (no object is kept) although  price - 10 > 0
   and  f * (-1) < 3  evaluate *)
Definition txt_price_minus : bytes := [112; 114; 105; 99; 101; 45; 49; 48; 32; 62; 32; 48]%N.
Definition txt_price_minus_sp : bytes := [112; 114; 105; 99; 101; 32; 45; 32; 49; 48; 32; 62; 32; 48]%N.
Definition txt_mul_neg : bytes := [112; 114; 105; 99; 101; 42; 45; 49; 32; 60; 32; 51]%N.                     (* price*-1 < 3 *)
Definition txt_mul_neg_par : bytes := [112; 114; 105; 99; 101; 32; 42; 32; 40; 45; 49; 41; 32; 60; 32; 51]%N.  (* price * (-1) < 3 *)

Lemma spelling_witness :
  eval f64 f64_plain (f64_obj witness_obj) txt_price_minus = Err ESyntax /\
  match_expr f64 f64_plain (f64_obj witness_obj) txt_price_minus = Ok false /\
  match_expr f64 f64_plain (f64_obj witness_obj) txt_price_minus_sp = Ok true /\
  eval f64 f64_plain (f64_obj witness_obj) txt_mul_neg = Err ESyntax /\
  match_expr f64 f64_plain (f64_obj witness_obj) txt_mul_neg = Ok false /\
  match_expr f64 f64_plain (f64_obj witness_obj) txt_mul_neg_par = Ok true.
Proof. vm_compute. repeat split. Qed.

(* (f > 1) || (type == "Point") on a string object whose f is 5: the left operand is true, the
   right one fails (type is undefined there), the object is not kept *)
Definition or_error_tree : bexpr :=
  BOr (BCmp CGt (AField s_f) (ANum 1)) (BCmp CEq (AField s_type) (AStr s_Point)).

Lemma or_error_witness :
  wf or_error_tree = true /\
  den_match f64 f64_plain (f64_obj witness_str_obj) (BCmp CGt (AField s_f) (ANum 1)) = Ok true /\
  den f64 f64_plain (f64_obj witness_str_obj) (BCmp CEq (AField s_type) (AStr s_Point)) = Err EUndef /\
  match_expr f64 f64_plain (f64_obj witness_str_obj) (print or_error_tree) = Ok false.
Proof. vm_compute. repeat split. Qed.

(* non-vacuity: a well-formed tree, its text, and its value on an object *)
Definition sample_tree : bexpr :=
  BAnd (BCmp CLt (AField s_price) (ANum 30)) (BNot (BCmp CEq (AField s_t) (ABool false))).

Lemma sample_tree_ok :
  wf sample_tree = true /\
  print sample_tree = [40; 112; 114; 105; 99; 101; 32; 60; 32; 51; 48; 41; 32; 38; 38; 32; 40; 33; 40; 116; 32; 61; 61; 32;
                       102; 97; 108; 115; 101; 41; 41]%N /\
  match_expr f64 f64_plain (f64_obj witness_obj) (print sample_tree) = Ok true /\
  den_match f64 f64_plain (f64_obj witness_obj) sample_tree = Ok true.
Proof. vm_compute. repeat split. Qed.
