(* The loader's position depends only on the bytes of the log: executing the replayed commands
   cannot move it, as long as no handler of a command that can be in the log assigns it — which is
   decided over the tables regenerated from /repo. *)
From Coq Require Import String List Bool ZArith Lia.
From T38 Require Import Base.Bytes Model.Resp Model.Aof Model.Tables Model.AofReplay
  Proofs.RespProofs Proofs.AofProofs Proofs.ChunkProofs
  Gen.LockTable Gen.Dispatch Gen.Mutators.
Import ListNotations.
Local Open Scope Z_scope.
Local Open Scope list_scope.

Section Frame.
  Variable St : Type.
  Variable name_of : list bytes -> string.
  Variable run : list bytes -> St -> option St.
  Variable havoc : list bytes -> St -> Z -> Z.
  Variable writes_pos : string -> bool.

  Definition untouched (c : list bytes) : Prop := writes_pos (name_of c) = false.

  Lemma exec_all_frame : forall cs s z, Forall untouched cs ->
    exec_all St name_of run havoc writes_pos cs (s, z) =
    match run_all St run cs s with Some s' => Some (s', z) | None => None end.
  Proof.
    induction cs as [|c r IH]; intros s z HF; cbn [exec_all run_all]; [reflexivity|].
    inversion HF as [|? ? Hc Hr]; subst.
    unfold exec1; cbn [fst snd]. destruct (run c s) as [s'|]; [|reflexivity].
    unfold untouched in Hc. rewrite Hc. apply IH; assumption.
  Qed.

  Lemma run_all_app : forall a b s,
    run_all St run (a ++ b) s = match run_all St run a s with Some s' => run_all St run b s' | None => None end.
  Proof.
    induction a as [|c r IH]; intros b s; cbn [run_all app]; [reflexivity|].
    destruct (run c s); [apply IH|reflexivity].
  Qed.

  (* whatever the bytes-only loader returns, the loader with command execution cuts the file at the
     same offset and has run exactly the commands it lists *)
  Lemma load_chunks_x_frame : forall chunks buf z acc cs v s,
    load_chunks chunks buf z acc = Loaded cs v ->
    exists new, cs = acc ++ new /\
      (Forall untouched new ->
       load_chunks_x St name_of run havoc writes_pos chunks buf (s, z) =
       match run_all St run new s with Some s' => XLoaded s' v | None => XFatal end).
  Proof.
    induction chunks as [|c rest IH]; intros buf z acc cs v s H; cbn [load_chunks] in H.
    - inversion H; subst. exists []. split; [now rewrite app_nil_r|]. intros _. reflexivity.
    - destruct (drain_all (buf ++ c)) as [cs1 lo| | |] eqn:Hd; try discriminate.
      cbn [load_chunks_x fst snd]. rewrite Hd.
      destruct (run_all St run cs1 s) as [s1|] eqn:Hr1.
      + destruct (IH lo (z + len c) (acc ++ cs1) cs v s1 H) as [new' [Hcs Hx]].
        exists (cs1 ++ new'). split; [now rewrite app_assoc|].
        intros HF. apply Forall_app in HF. destruct HF as [HF1 HF2].
        rewrite (exec_all_frame cs1 s (z + len c) HF1), Hr1, run_all_app, Hr1.
        apply Hx; assumption.
      + destruct (IH lo (z + len c) (acc ++ cs1) cs v s H) as [new' [Hcs _]].
        exists (cs1 ++ new'). split; [now rewrite app_assoc|].
        intros HF. apply Forall_app in HF. destruct HF as [HF1 _].
        rewrite (exec_all_frame cs1 s (z + len c) HF1), Hr1, run_all_app, Hr1. reflexivity.
  Qed.

  Theorem load_aof_x_frame : forall file cs v s,
    load_aof file = Loaded cs v -> Forall untouched cs ->
    load_aof_x St name_of run havoc writes_pos file s =
    match run_all St run cs s with Some s' => XLoaded s' v | None => XFatal end.
  Proof.
    intros file cs v s H HF. unfold load_aof, load_aof_sz in H. unfold load_aof_x.
    destruct (load_chunks_x_frame _ _ _ _ _ _ s H) as [new [Hcs Hx]].
    cbn [app] in Hcs. subst new. apply Hx; assumption.
  Qed.
End Frame.

(* ---- the tables: no handler of a command that can be in the log assigns the position ---- *)

Definition real_writes_pos : string -> bool := cmd_writes_pos dispatch effects.

Lemma loggable_untouched_b :
  forallb (fun c => negb (real_writes_pos c)) (loggable lock_table) = true.
Proof. vm_compute. reflexivity. Qed.

(* every command kind that is handed to writeAOF has a handler whose effects are known *)
Lemma loggable_known_b :
  forallb (fun c => match find_handler dispatch c with
                    | Some h => match assoc effects (h_fn h) with Some _ => true | None => false end
                    | None => false end) (loggable lock_table) = true.
Proof. vm_compute. reflexivity. Qed.

Lemma loggable_untouched : forall c, In c (loggable lock_table) -> real_writes_pos c = false.
Proof.
  intros c Hin. pose proof loggable_untouched_b as H. rewrite forallb_forall in H.
  specialize (H c Hin). now apply negb_true_iff in H.
Qed.

(* a name Server.command does not dispatch executes no handler at all *)
Lemma undispatched_untouched : forall c, find_handler dispatch c = None -> real_writes_pos c = false.
Proof. intros c H. unfold real_writes_pos, cmd_writes_pos. now rewrite H. Qed.

Definition may_be_logged (name_of : list bytes -> string) (c : list bytes) : Prop :=
  In (name_of c) (loggable lock_table) \/ find_handler dispatch (name_of c) = None.

(* For EVERY log that loads (whatever bytes, whatever commands), every state type, every handler
   semantics run, every naming function and every value havoc a position-assigning handler might
   produce: the offset the file is cut back to is the bytes-only valid size. *)
Theorem replay_size_bytes_only :
  forall (St : Type) (name_of : list bytes -> string) (run : list bytes -> St -> option St)
         (havoc : list bytes -> St -> Z -> Z) file cs v s,
  load_aof file = Loaded cs v -> Forall (may_be_logged name_of) cs ->
  load_aof_x St name_of run havoc real_writes_pos file s =
  match run_all St run cs s with Some s' => XLoaded s' v | None => XFatal end.
Proof.
  intros St name_of run havoc file cs v s H HF. apply load_aof_x_frame; [assumption|].
  eapply Forall_impl; [|exact HF]. intros c [Hc|Hc]; unfold untouched.
  - now apply loggable_untouched.
  - now apply undispatched_untouched.
Qed.

(* ... in particular on a torn log: any byte prefix q of a log of encoded commands *)
Theorem replay_cut_bytes_only :
  forall (St : Type) (name_of : list bytes -> string) (run : list bytes -> St -> option St)
         (havoc : list bytes -> St -> Z -> Z) cmds q t s,
  Forall cmd_ok cmds -> Forall (may_be_logged name_of) cmds -> q ++ t = encs cmds ->
  let kept := firstn (inside cmds (len q)) cmds in
  load_aof_x St name_of run havoc real_writes_pos q s =
  match run_all St run kept s with Some s' => XLoaded s' (len (encs kept)) | None => XFatal end.
Proof.
  intros St name_of run havoc cmds q t s Hok Hlog Hq kept.
  apply replay_size_bytes_only.
  - exact (load_aof_cut cmds q t Hok Hq).
  - unfold kept. rewrite <- (firstn_skipn (inside cmds (len q)) cmds) in Hlog.
    apply Forall_app in Hlog. tauto.
Qed.

(* ---- the hypothesis matters: a handler that assigns the position moves the cut ---- *)

(* SET k v ; FLUSHDB ; SET k v torn after 20 of its 27 bytes; naming by the length of the first argument
   is enough for the example (FLUSHDB is the only 7-letter name) *)
Definition ex_set : list bytes := [[83; 69; 84]; [107]; [118]]%N.
Definition ex_flushdb : list bytes := [[70; 76; 85; 83; 72; 68; 66]]%N.
Definition ex_name (c : list bytes) : string :=
  match c with a :: _ => if Nat.eqb (length a) 7 then "flushdb"%string else "set"%string | [] => ""%string end.
Definition ex_file : bytes := firstn 64 (encs [ex_set; ex_flushdb; ex_set]).

Lemma havoc_moves_cut :
  load_aof ex_file = Loaded [ex_set; ex_flushdb] 44 /\
  (* the real tables: the file is cut back to 44, whatever a position-assigning handler would do *)
  load_aof_x unit ex_name (fun _ s => Some s) (fun _ _ _ => 0) real_writes_pos ex_file tt = XLoaded tt 44 /\
  (* a dispatch in which FLUSHDB's handler resets the position: Truncate(-20) *)
  load_aof_x unit ex_name (fun _ s => Some s) (fun _ _ _ => 0)
    (fun c => String.eqb c "flushdb") ex_file tt = XLoaded tt (-20).
Proof. vm_compute. repeat split; reflexivity. Qed.

Lemma loggable_nonvacuous :
  In "flushdb"%string (loggable lock_table) /\ In "set"%string (loggable lock_table) /\
  In "drop"%string (loggable lock_table) /\ In "rename"%string (loggable lock_table) /\
  In "sethook"%string (loggable lock_table) /\ In "setchan"%string (loggable lock_table) /\
  In "jset"%string (loggable lock_table) /\ In "expire"%string (loggable lock_table) /\
  (18 <= length (loggable lock_table))%nat /\
  may_be_logged ex_name ex_set /\ may_be_logged ex_name ex_flushdb.
Proof. vm_compute. repeat split; try lia; tauto. Qed.
