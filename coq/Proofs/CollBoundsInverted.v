(* Proofs/CollBoundsInverted.v — finding C19-inverted-bounds: cmdSET ... BOUNDS minlat minlon maxlat maxlon
   stores geometry.Rect{Min, Max} as given, also when min > max.  Model/Collection.v (and
   c19_bounds_partial / bounds_exact) read o_rect as a rectangle; for an object whose "rectangle" has
   Min > Max the answer the code gives (the extreme float32 keys, admitted by bounds_ok and even
   accepted by bounds_exact, which compares min sides with min sides and max sides with max sides) is a
   box that does not contain that object's own corner. *)
From T38 Require Import Base.Bytes Model.Float32 Model.Collection Proofs.CollectionProofs.
Import ListNotations.
Local Open Scope Z_scope.

(* SET k a BOUNDS 10 10 0 0 ; SET k b POINT 5 5  (bits of 10.0, 0.0, 5.0) *)
Definition inv_a : obj := Obj [97]%N true false 2 20 [] 0
  (rect64_of_bits 4621819117588971520 4621819117588971520 0 0).
Definition inv_b : obj := Obj [98]%N true false 1 18 [] 0
  (rect64_of_bits 4617315517961601024 4617315517961601024 4617315517961601024 4617315517961601024).
Definition inv_coll : coll := run [OSet inv_a; OSet inv_b].
Definition inv_answer : rect64 := o_rect inv_b.     (* BOUNDS k -> [[5 5] [5 5]] *)

Lemma bounds_inverted_refuted :
  exists c b o, Wf c /\ In o (spatial_list c) /\ bounds_ok c b = true /\ bounds_exact c b = true /\
                le64 (r64_minx (o_rect o)) (r64_maxx b) = false.
Proof.
  exists inv_coll, inv_answer, inv_a. split; [apply wf_run|].
  split; [vm_compute; auto|]. repeat split; vm_compute; reflexivity.
Qed.
