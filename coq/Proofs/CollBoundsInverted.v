(* Proofs/CollBoundsInverted.v — finding C19-inverted-bounds (repaired in /repo by 85e217d): the PINNED
   cmdSET ... BOUNDS minlat minlon maxlat maxlon (Model/SetBounds.v set_bounds_rect_pinned)
   stores geometry.Rect{Min, Max} as given, also when min > max; the repaired one orders the corners.  Model/Collection.v (and
   c19_bounds_partial / bounds_exact) read o_rect as a rectangle; for an object whose "rectangle" has
   Min > Max the answer the code gives (the extreme float32 keys, admitted by bounds_ok and even
   accepted by bounds_exact, which compares min sides with min sides and max sides with max sides) is a
   box that does not contain that object's own corner. *)
From Coq Require Import Reals Lra.
From Flocq Require Import Core BinarySingleNaN.
From T38 Require Import Base.Bytes Model.Float32 Model.Collection Proofs.CollectionProofs Model.SetBounds.
Import ListNotations.
Local Open Scope Z_scope.

(* SET k a BOUNDS 10 10 0 0 ; SET k b POINT 5 5  (bits of 10.0, 0.0, 5.0) *)
Definition inv_a : obj := Obj [97]%N true false 2 20 [] 0
  (rect64_of_bits 4621819117588971520 4621819117588971520 0 0).
Definition inv_b : obj := Obj [98]%N true false 1 18 [] 0
  (rect64_of_bits 4617315517961601024 4617315517961601024 4617315517961601024 4617315517961601024).
Definition inv_coll : coll := run [OSet inv_a; OSet inv_b].
Definition inv_answer : rect64 := o_rect inv_b.     (* BOUNDS k -> [[5 5] [5 5]] *)

Lemma bounds_inverted_refuted :
  exists c b o, Wf c /\ In o (spatial_list c) /\ bounds_ok c b = true /\ bounds_exact c b = true /\
                le64 (r64_minx (o_rect o)) (r64_maxx b) = false.
Proof.
  exists inv_coll, inv_answer, inv_a. split; [apply wf_run|].
  split; [vm_compute; auto|]. repeat split; vm_compute; reflexivity.
Qed.

(* ---------- against the explicit pinned variant ---------- *)
Definition f10 : f64 := f64_of_bits 4621819117588971520.
Definition f0 : f64 := f64_of_bits 0.

Lemma bounds_inverted_pinned_refuted :
  exists v0 v1 v2 v3 c b o,
    o_rect o = set_bounds_rect_pinned v0 v1 v2 v3 /\ rect_ordered (o_rect o) = false /\
    Wf c /\ In o (spatial_list c) /\ bounds_ok c b = true /\ bounds_exact c b = true /\
    le64 (r64_minx (o_rect o)) (r64_maxx b) = false /\
    (* the repaired construction on the same four numbers *)
    rect_ordered (set_bounds_rect v0 v1 v2 v3) = true.
Proof.
  exists f10, f10, f0, f0, inv_coll, inv_answer, inv_a.
  split; [reflexivity|]. split; [vm_compute; reflexivity|]. split; [apply wf_run|].
  split; [vm_compute; auto|]. repeat split; vm_compute; reflexivity.
Qed.

(* ---------- the repaired construction: ordered corners at the source ---------- *)
Local Open Scope R_scope.

Lemma gt64_false_le (a b : f64) : is_finite a = true -> is_finite b = true -> gt64 a b = false -> le64 a b = true.
Proof.
  intros Fa Fb. unfold gt64, le64. rewrite (Bcompare_correct 53 1024 a b Fa Fb).
  destruct (Rcompare (B2R a) (B2R b)); congruence.
Qed.

Lemma gt64_true_le (a b : f64) : is_finite a = true -> is_finite b = true -> gt64 a b = true -> le64 b a = true.
Proof.
  intros Fa Fb. unfold gt64, le64. rewrite (Bcompare_correct 53 1024 a b Fa Fb), (Bcompare_correct 53 1024 b a Fb Fa).
  destruct (Rcompare_spec (B2R a) (B2R b)) as [H|H|H]; try discriminate. intros _.
  rewrite (Rcompare_Lt _ _ H). reflexivity.
Qed.

Theorem set_bounds_ordered (v0 v1 v2 v3 : f64) :
  is_finite v0 = true -> is_finite v1 = true -> is_finite v2 = true -> is_finite v3 = true ->
  rect_ordered (set_bounds_rect v0 v1 v2 v3) = true.
Proof.
  intros F0 F1 F2 F3. unfold set_bounds_rect, rect_ordered.
  destruct (gt64 v0 v2) eqn:E02; destruct (gt64 v1 v3) eqn:E13; cbn [r64_minx r64_miny r64_maxx r64_maxy];
    apply andb_true_iff; split;
    first [apply gt64_false_le; assumption | apply gt64_true_le; assumption].
Qed.

(* corners that are already ordered are stored as given *)
Theorem set_bounds_keeps_ordered (v0 v1 v2 v3 : f64) :
  gt64 v0 v2 = false -> gt64 v1 v3 = false -> set_bounds_rect v0 v1 v2 v3 = set_bounds_rect_pinned v0 v1 v2 v3.
Proof. intros E1 E2. unfold set_bounds_rect, set_bounds_rect_pinned. rewrite E1, E2. reflexivity. Qed.

Definition finite_rect (r : rect64) : Prop :=
  is_finite (r64_minx r) = true /\ is_finite (r64_miny r) = true /\ is_finite (r64_maxx r) = true /\ is_finite (r64_maxy r) = true.

Lemma le64_trans (a b c : f64) : is_finite a = true -> is_finite b = true -> is_finite c = true ->
  le64 a b = true -> le64 b c = true -> le64 a c = true.
Proof.
  intros Fa Fb Fc. unfold le64.
  rewrite (Bcompare_correct 53 1024 a b Fa Fb), (Bcompare_correct 53 1024 b c Fb Fc), (Bcompare_correct 53 1024 a c Fa Fc).
  destruct (Rcompare_spec (B2R a) (B2R b)); try discriminate; intros _;
  destruct (Rcompare_spec (B2R b) (B2R c)); try discriminate; intros _;
  destruct (Rcompare_spec (B2R a) (B2R c)); try reflexivity; lra.
Qed.

(* with ordered rectangles in the index (what the repaired SET guarantees for BOUNDS objects) a box
   the model calls exact does contain every indexed object: the pinned witness cannot occur *)
Theorem ordered_box_contains c b : finite_rect b ->
  (forall o, In o (spatial_list c) -> finite_rect (o_rect o) /\ rect_ordered (o_rect o) = true) ->
  bounds_exact c b = true ->
  forall o, In o (spatial_list c) ->
    le64 (r64_minx (o_rect o)) (r64_maxx b) = true /\ le64 (r64_miny (o_rect o)) (r64_maxy b) = true /\
    le64 (r64_minx b) (r64_maxx (o_rect o)) = true /\ le64 (r64_miny b) (r64_maxy (o_rect o)) = true.
Proof.
  intros (Fb1 & Fb2 & Fb3 & Fb4) Hall Hex o Ho.
  destruct (Hall o Ho) as [(F1 & F2 & F3 & F4) Hord]. unfold rect_ordered in Hord.
  apply andb_true_iff in Hord as [Hx Hy].
  unfold spatial_list in Ho. apply in_map_iff in Ho as [e [He Hin]]. unfold bounds_exact in Hex.
  destruct (c_spatial c) as [|e0 sp] eqn:Es; [destruct Hin|].
  rewrite forallb_forall in Hex. specialize (Hex e Hin). cbv zeta in Hex. rewrite He in Hex.
  apply andb_true_iff in Hex as [Hex H4]. apply andb_true_iff in Hex as [Hex H3]. apply andb_true_iff in Hex as [H1 H2].
  repeat split.
  - apply (le64_trans _ (r64_maxx (o_rect o))); assumption.
  - apply (le64_trans _ (r64_maxy (o_rect o))); assumption.
  - apply (le64_trans _ (r64_minx (o_rect o))); assumption.
  - apply (le64_trans _ (r64_miny (o_rect o))); assumption.
Qed.
