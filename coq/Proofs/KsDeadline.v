(* Replaying a log at another frozen clock: same objects, same fields, same has-deadline flags
   (deadline values may differ), provided no EX / EXPIRE argument lands exactly on deadline 0
   (= "no deadline") at either clock. *)
From Coq Require Import String.
From Coq Require Import ZifyN ZifyNat ZifyBool Lia.
From T38 Require Import Base.Bytes Base.SMap Model.Field Model.Object Model.Glob Model.Spec Model.Keyspace
  Proofs.KsField Proofs.KsInv Proofs.KsRefine Proofs.KsProgram Proofs.KsReplay.
From T38 Require Model.Replay.

(* ---------- erasing deadline values ---------- *)
Definition flagz (z : Z) : Z := if (z =? 0)%Z then 0%Z else 1%Z.
Definition er_obj (o : obj) : obj := mkObj (o_id o) (o_geo o) (flagz (o_ex o)) (o_fields o).
Definition er_col (c : col) : col := smap_map er_obj c.
Definition er (s : state) : state := smap_map er_col s.

Definition erq (q : req) : req :=
  match q with
  | QSet k i f ex nx xx rs g => QSet k i f (flagz ex) nx xx rs g
  | QExpire k i ex => QExpire k i (flagz ex)
  | _ => q
  end.

Lemma flagz_idem z : flagz (flagz z) = flagz z.
Proof. unfold flagz. destruct (z =? 0)%Z; reflexivity. Qed.

Lemma flagz_zero z : (flagz z =? 0)%Z = (z =? 0)%Z.
Proof. unfold flagz. destruct (z =? 0)%Z; reflexivity. Qed.

Lemma er_get s k : get k (er s) = option_map er_col (get k s).
Proof. apply get_map. Qed.
Lemma er_set s k c : er (set k c s) = set k (er_col c) (er s).
Proof. apply set_map. Qed.
Lemma er_del s k : er (del k s) = del k (er s).
Proof. apply del_map. Qed.
Lemma erc_get c id : get id (er_col c) = option_map er_obj (get id c).
Proof. apply get_map. Qed.
Lemma erc_set c id o : er_col (set id o c) = set id (er_obj o) (er_col c).
Proof. apply set_map. Qed.
Lemma erc_del c id : er_col (del id c) = del id (er_col c).
Proof. apply del_map. Qed.
Lemma erc_length c : length (er_col c) = length c.
Proof. apply smap_map_length. Qed.

Lemma er_store_col s key c : er (store_col s key c) = store_col (er s) key (er_col c).
Proof.
  unfold store_col. rewrite erc_length. destruct (length c =? 0)%nat; [apply er_del | apply er_set].
Qed.

Lemma er_find s key id : find (er s) key id = option_map er_obj (find s key id).
Proof. unfold find. rewrite er_get. destruct (get key s); cbn; [apply erc_get | reflexivity]. Qed.

Lemma er_fold_del ids : forall c, er_col (fold_left (fun c id => del id c) ids c) = fold_left (fun c id => del id c) ids (er_col c).
Proof. induction ids as [|i ids IH]; intros c; cbn [fold_left]; [reflexivity|]. rewrite IH, erc_del. reflexivity. Qed.

Lemma er_filter_keys (P : bytes -> bool) (c : col) :
  map fst (filter (fun io => P (fst io)) (er_col c)) = map fst (filter (fun io => P (fst io)) c).
Proof.
  unfold er_col, smap_map. induction c as [|[k v] r IH]; cbn; [reflexivity|].
  destruct (P k); cbn; rewrite IH; reflexivity.
Qed.

Lemma er_drop_below lo (c : col) : Keyspace.drop_below lo (er_col c) = er_col (Keyspace.drop_below lo c).
Proof.
  unfold er_col, smap_map. induction c as [|[k v] r IH]; cbn; [reflexivity|].
  destruct (bytes_ltb k lo); [exact IH | reflexivity].
Qed.

Lemma er_take_upto hi incl (c : col) : Keyspace.take_upto hi incl (er_col c) = er_col (Keyspace.take_upto hi incl c).
Proof.
  unfold er_col, smap_map. induction c as [|[k v] r IH]; cbn; [reflexivity|].
  destruct (if incl then bytes_gtb k hi else bytes_geb k hi); cbn; [reflexivity | rewrite IH; reflexivity].
Qed.

Lemma er_range_scan pat incl (c : col) : range_scan pat incl (er_col c) = er_col (range_scan pat incl c).
Proof.
  unfold range_scan. destruct (unlimited (parse pat false)); [reflexivity|].
  rewrite er_drop_below, er_take_upto. reflexivity.
Qed.

Lemma er_keys_state (s : state) : keys (er s) = keys s.
Proof. apply keys_map. Qed.


Section Deadline.
Variable O : oracle.

Ltac fin H := inversion H; subst; clear H.
Ltac done_er :=
  eexists;
  first [ reflexivity
        | (rewrite ?er_store_col, ?er_set, ?erc_set, ?er_del, ?erc_del, ?er_fold_del;
           unfold er_obj; cbn [o_id o_geo o_ex o_fields]; rewrite ?flagz_idem; reflexivity) ].

Lemma er_cmd_set s key id fields ex nx xx rs g s' r u :
  cmd_set O s key id fields ex nx xx rs g = (s', r, u) ->
  exists r', cmd_set O (er s) key id fields (flagz ex) nx xx rs g = (er s', r', u).
Proof.
  unfold cmd_set. rewrite er_get. intros H.
  destruct (get key s) as [c|] eqn:Ek; cbn [option_map].
  - rewrite erc_get. destruct (get id c) as [old|] eqn:Eid; cbn [option_map].
    + destruct ((xx || nx) && nx); fin H; done_er.
    + destruct ((xx || nx) && xx); fin H; done_er.
  - destruct xx.
    + fin H. done_er.
    + cbn [get] in *. assert (Hc : (false || nx) && false = false) by (destruct nx; reflexivity).
      rewrite Hc in *. fin H. done_er.
Qed.

Lemma er_reenter e e0 s key id json s' r u :
  reenter_set O e s key id json = (s', r, u) ->
  exists r', reenter_set O e0 (er s) key id json = (er s', r', u).
Proof.
  unfold reenter_set. rewrite !parse_reentry.
  destruct (o_mkgeo O GK_OBJECT [json]) as [g|msg]; intros H.
  - apply er_cmd_set in H. exact H.
  - fin H. done_er.
Qed.

(* every handler commutes with the erasure: same control flow, same "updated" flag *)
Lemma er_commutes e e0 s q s' r u :
  e_hookkeys e0 = e_hookkeys e ->
  run_req O true e s q = Some (s', r, u) ->
  exists r', run_req O true e0 (er s) (erq q) = Some (er s', r', u).
Proof.
  intros Hh H.
  destruct q as [key id fields ex nx xx rs g|key id xx rs fields|key id erron404|key pat|key|nx key newkey| |key id ex|key id
                 |key id path val raw|key id path|key id wf kind prec|key id fname|key id|key id fname|key id|key|pat|key cursor limit globs desc out nofields|key id path raw];
    cbn [run_req erq] in *.
  - (* SET *)
    inversion H as [H1]; clear H. apply er_cmd_set in H1. destruct H1 as [r' H1]. exists r'. rewrite H1. reflexivity.
  - (* FSET *)
    unfold cmd_fset in *. rewrite er_get. destruct (get key s) as [c|] eqn:Ek; cbn [option_map].
    + rewrite erc_get. destruct (get id c) as [o|] eqn:Eid; cbn [option_map].
      * cbn [er_obj o_fields o_geo o_ex].
        destruct (fold_left (fset_step O) fields (o_fields o, 0%Z)) as [ofields n].
        fin H. done_er.
      * destruct (negb xx); [fin H; done_er|].
        destruct (rs_ret rs && negb true); fin H. done_er.
    + fin H. done_er.
  - (* DEL *)
    inversion H as [H1]; clear H. unfold cmd_del in *. rewrite er_get.
    destruct (get key s) as [c|] eqn:Ek; cbn [option_map].
    + rewrite erc_get. destruct (get id c) as [o|]; cbn [option_map].
      * fin H1. done_er.
      * destruct erron404; fin H1; done_er.
    + destruct erron404; fin H1; done_er.
  - (* PDEL *)
    inversion H as [H1]; clear H. unfold cmd_pdel in *. rewrite er_get.
    destruct (get key s) as [c|] eqn:Ek; cbn [option_map].
    + rewrite er_range_scan, er_filter_keys. fin H1. done_er.
    + fin H1. done_er.
  - (* DROP *)
    inversion H as [H1]; clear H. unfold cmd_drop in *. rewrite er_get.
    destruct (get key s); cbn [option_map]; fin H1; done_er.
  - (* RENAME *)
    inversion H as [H1]; clear H. unfold cmd_rename in *. rewrite !er_get.
    destruct (get key s) as [c|]; cbn [option_map]; [|fin H1; done_er].
    unfold hook_guard in *. rewrite Hh.
    destruct (if existsb _ _ then _ else _) as [msg|]; [fin H1; done_er|].
    destruct (get newkey s) as [c2|]; cbn [option_map].
    + destruct (negb nx); cbn in *; fin H1; done_er.
    + cbn in *. fin H1. done_er.
  - fin H. done_er.
  - (* EXPIRE *)
    inversion H as [H1]; clear H. unfold cmd_expire in *. rewrite er_get.
    destruct (get key s) as [c|]; cbn [option_map]; [|fin H1; done_er].
    rewrite erc_get. destruct (get id c) as [o|]; cbn [option_map]; fin H1; done_er.
  - (* PERSIST *)
    inversion H as [H1]; clear H. unfold cmd_persist in *. rewrite er_get.
    destruct (get key s) as [c|]; cbn [option_map]; [|fin H1; done_er].
    rewrite erc_get. destruct (get id c) as [o|]; cbn [option_map]; [|fin H1; done_er].
    cbn [er_obj o_ex o_geo o_fields]. rewrite flagz_zero.
    destruct (negb (o_ex o =? 0)%Z); fin H1; done_er.
  - (* JSET *)
    inversion H as [H1]; clear H. unfold cmd_jset in *. rewrite er_get.
    destruct (get key s) as [c|] eqn:Ek; cbn [option_map].
    + rewrite erc_get. destruct (get id c) as [o|] eqn:Eid; cbn [option_map er_obj o_geo o_fields].
      * destruct (o_sjson_set O raw (g_text (o_geo o)) path val); [|fin H1; done_er].
        destruct (g_spatial (o_geo o)).
        -- destruct (er_reenter e e0 _ _ _ _ _ _ _ H1) as [r' Hr]. exists r'. rewrite Hr. reflexivity.
        -- fin H1. done_er.
      * destruct (o_sjson_set O raw [] path val); fin H1; done_er.
    + cbv beta iota zeta in *. cbn [get] in *. cbv beta iota zeta in *.
      destruct (o_sjson_set O raw [] path val); fin H1; done_er.
  - (* JDEL *)
    inversion H as [H1]; clear H. unfold cmd_jdel in *. rewrite er_get.
    destruct (get key s) as [c|] eqn:Ek; cbn [option_map]; [|fin H1; done_er].
    rewrite erc_get. destruct (get id c) as [o|] eqn:Eid; cbn [option_map er_obj o_geo o_fields].
    + destruct (o_sjson_del O (g_text (o_geo o)) path) as [nj|]; [|fin H1; done_er].
      destruct (bytes_eqb nj (g_text (o_geo o))); [fin H1; done_er|].
      destruct (g_spatial (o_geo o)).
      * destruct (er_reenter e e0 _ _ _ _ _ _ _ H1) as [r' Hr]. exists r'. rewrite Hr. reflexivity.
      * fin H1. done_er.
    + destruct (o_sjson_del O [] path) as [nj|]; [|fin H1; done_er].
      destruct (bytes_eqb nj []); fin H1; done_er.
  - (* reads: the state is returned unchanged, updated = false *)
    inversion H as [H1]; clear H. rewrite er_find. destruct (find s key id); cbn [option_map]; fin H1; done_er.
  - inversion H as [H1]; clear H. rewrite er_get. destruct (get key s) as [c|]; cbn [option_map]; [|fin H1; done_er].
    rewrite erc_get. destruct (get id c); cbn [option_map]; fin H1; done_er.
  - inversion H as [H1]; clear H. rewrite er_get. destruct (get key s); cbn [option_map]; fin H1; done_er.
  - inversion H as [H1]; clear H. rewrite er_get. destruct (get key s) as [c|]; cbn [option_map]; [|fin H1; done_er].
    rewrite erc_get. destruct (get id c); cbn [option_map]; fin H1; done_er.
  - inversion H as [H1]; clear H. rewrite er_find. destruct (find s key id); cbn [option_map]; fin H1; done_er.
  - inversion H as [H1]; clear H. rewrite er_get. destruct (get key s); cbn [option_map]; fin H1; done_er.
  - fin H. done_er.
  - inversion H as [H1]; clear H.
    assert (Hs : s' = s /\ u = false).
    { repeat match type of H1 with context [match ?x with _ => _ end] => destruct x end; inversion H1; subst; auto. }
    destruct Hs; subst. clear H1.
    repeat match goal with |- context [match ?x with _ => _ end] => destruct x end; eexists; reflexivity.
  - inversion H as [H1]; clear H. rewrite er_find. destruct (find s key id) as [o|]; cbn [option_map]; [|fin H1; done_er].
    cbn [er_obj o_geo]. destruct (o_jget O (g_text (o_geo o)) path raw); fin H1; done_er.
Qed.

(* ---------- the ">> Args" phase at two clocks ---------- *)
Definition ex_ok (e e' : env) (x : bytes) : Prop :=
  wrap64 (e_now e + o_dur O x) <> 0%Z /\ wrap64 (e_now e' + o_dur O x) <> 0%Z.

(* the side condition: no argument of the command, read as a number of seconds, lands exactly on
   deadline 0 (= "no deadline") at either clock *)
Definition clock_ok (e e' : env) (args : list bytes) : Prop := Forall (ex_ok e e') args.

Definition env_sim (e e' : env) : Prop :=
  e_follower e = e_follower e' /\ e_caughtup e = e_caughtup e' /\ e_readonly e = e_readonly e' /\
  e_hookkeys e = e_hookkeys e'.

Definition st_sim (a b : setst) : Prop :=
  ss_fields a = ss_fields b /\ flagz (ss_ex a) = flagz (ss_ex b) /\ ss_nx a = ss_nx b /\ ss_xx a = ss_xx b /\
  ss_ret a = ss_ret b /\ ss_wf a = ss_wf b /\ ss_kind a = ss_kind b /\ ss_prec a = ss_prec b /\ ss_obj a = ss_obj b.

Definition res_sim (x y : setres) : Prop :=
  match x, y with
  | SetDone a, SetDone b => st_sim a b
  | SetErr m, SetErr m' => m = m'
  | SetFuel, SetFuel => True
  | _, _ => False
  end.

Lemma Forall_skipn {A} (P : A -> Prop) n : forall l, Forall P l -> Forall P (skipn n l).
Proof.
  induction n as [|n IH]; intros l H; [exact H|]. destruct l; [constructor|]. cbn. apply IH. inversion H; assumption.
Qed.

Lemma ex_flag e e' z : ex_ok e e' z ->
  flagz (wrap64 (e_now e + o_dur O z)) = flagz (wrap64 (e_now e' + o_dur O z)).
Proof.
  intros [H1 H2]. unfold flagz. apply Z.eqb_neq in H1, H2. rewrite H1, H2. reflexivity.
Qed.

Ltac strip HF := first [ exact HF | let H' := fresh in pose proof (Forall_inv_tail HF) as H'; strip H' ].

Lemma set_loop_sim e e' fuel : forall rest a b,
  clock_ok e e' rest -> st_sim a b ->
  res_sim (set_loop O fuel e rest a) (set_loop O fuel e' rest b).
Proof.
  induction fuel as [|fuel IH]; intros rest a b HF Hs; [exact I|].
  destruct a as [af aex anx axx aret awf akind aprec aobj].
  destruct b as [bf bex bnx bxx bret bwf bkind bprec bobj].
  destruct Hs as [H1 [H2 [H3 [H4 [H5 [H6 [H7 [H8 H9]]]]]]]]. cbn in H1, H2, H3, H4, H5, H6, H7, H8, H9. subst.
  cbn [set_loop]. destruct rest as [|x tl]; [repeat split; assumption|].
  cbn [ss_fields ss_ex ss_nx ss_xx ss_ret ss_wf ss_kind ss_prec ss_obj].
  repeat first
    [ match goal with
      | |- res_sim (SetErr _) (SetErr _) => reflexivity
      | |- res_sim SetFuel SetFuel => exact I
      | |- res_sim (set_loop O fuel e _ _) (set_loop O fuel e' _ _) =>
          apply IH;
          [ first [ strip HF | (apply Forall_skipn; exact HF) ]
          | repeat split; cbn; try reflexivity; try assumption;
            apply ex_flag; exact (Forall_inv (Forall_inv_tail HF)) ]
      | |- res_sim (geo_or_err ?r _) (geo_or_err ?r _) => destruct r; cbn [geo_or_err]
      | |- context [match (match ?x with _ => _ end) with _ => _ end] => destruct x eqn:?
      | |- _ => progress cbv beta iota
      | |- context [match ?x with _ => _ end] => destruct x eqn:?
      end ].
Qed.

Definition parsed_sim (x y : parsed) : Prop :=
  match x, y with
  | PReq q, PReq q' => erq q = erq q'
  | PErr m, PErr m' => m = m'
  | PUnmodelled, PUnmodelled => True
  | PFuel, PFuel => True
  | _, _ => False
  end.

Lemma parsed_sim_refl x : parsed_sim x x.
Proof. destruct x; cbn; auto. Qed.

Lemma parse_set_sim e e' args : clock_ok e e' args -> parsed_sim (parse_set O e args) (parse_set O e' args).
Proof.
  intros HF. unfold parse_set.
  destruct args as [|a0 [|key [|id rest]]]; try exact (eq_refl).
  assert (HFr : clock_ok e e' rest) by (strip HF).
  assert (Hinit : st_sim set_init set_init) by (repeat split).
  pose proof (set_loop_sim e e' (S (length rest)) rest set_init set_init HFr Hinit) as H.
  destruct (set_loop O (S (length rest)) e rest set_init) as [a|m|];
    destruct (set_loop O (S (length rest)) e' rest set_init) as [b|m'|]; cbn in H; try contradiction; cbn; auto.
  destruct a as [af aex anx axx aret awf akind aprec aobj].
  destruct b as [bf bex bnx bxx bret bwf bkind bprec bobj].
  destruct H as [H1 [H2 [H3 [H4 [H5 [H6 [H7 [H8 H9]]]]]]]]. cbn in *. subst.
  destruct bobj; cbn; [rewrite H2; reflexivity | reflexivity].
Qed.

Lemma parse_expire_sim e e' args : clock_ok e e' args -> parsed_sim (parse_expire O e args) (parse_expire O e' args).
Proof.
  intros HF. unfold parse_expire.
  destruct args as [|a0 [|key [|id [|sv [|x l]]]]]; try exact (eq_refl).
  destruct (o_float_ok O sv); cbn; [|reflexivity].
  rewrite (ex_flag e e' sv); [reflexivity|].
  exact (Forall_inv (Forall_inv_tail (Forall_inv_tail (Forall_inv_tail HF)))).
Qed.

Lemma parse_cmd_sim e e' c args : clock_ok e e' args -> parsed_sim (parse_cmd O e c args) (parse_cmd O e' c args).
Proof.
  intros HF. unfold parse_cmd.
  destruct (bytes_eqb c c_set); [apply parse_set_sim; exact HF|].
  repeat (match goal with |- parsed_sim (if ?b then _ else _) (if ?b then _ else _) =>
            destruct b; [first [apply parsed_sim_refl | apply parse_expire_sim; exact HF]|] end).
  exact I.
Qed.

Definition dres_sim (x y : dres) : Prop :=
  match x, y with
  | DReq c w q, DReq c' w' q' => c = c' /\ w = w' /\ erq q = erq q'
  | DOut _, DOut _ => True
  | _, _ => False
  end.

Lemma dispatch_sim e e' args : env_sim e e' -> clock_ok e e' args -> dres_sim (dispatch O e args) (dispatch O e' args).
Proof.
  intros [Ha [Hb [Hc Hd]]] HF. unfold dispatch. destruct args as [|a0 rest]; [exact I|].
  rewrite Ha, Hb, Hc.
  destruct (match arm_of (lower a0) with
            | ArmWrite => if e_follower e' then Some msg_not_leader else if e_readonly e' then Some msg_read_only else None
            | ArmRead => if e_follower e' && negb (e_caughtup e') then Some msg_catching_up else None
            | ArmOther => None
            end); [exact I|].
  pose proof (parse_cmd_sim e e' (lower a0) (a0 :: rest) HF) as H.
  destruct (parse_cmd O e (lower a0) (a0 :: rest)); destruct (parse_cmd O e' (lower a0) (a0 :: rest));
    cbn in H; try contradiction; cbn; auto.
Qed.

(* one command at two clocks, from states equal up to deadline values *)
Lemma ks_exec_er e e' s s' c :
  env_sim e e' -> clock_ok e e' c -> er s = er s' ->
  er (fst (ks_exec O e s c)) = er (fst (ks_exec O e' s' c)).
Proof.
  intros Hes HF Hs. pose proof (dispatch_sim e e' c Hes HF) as Hd.
  unfold ks_exec, exec.
  destruct (dispatch O e c) as [cn w q|r0]; destruct (dispatch O e' c) as [cn' w' q'|r0']; cbn in Hd; try contradiction;
    [|exact Hs].
  destruct Hd as [_ [_ Hq]].
  destruct (run_req O true e s q) as [[[s1 r1] u1]|] eqn:E1; [|exfalso; exact (run_req_no_panic O e s q E1)].
  destruct (run_req O true e' s' q') as [[[s2 r2] u2]|] eqn:E2; [|exfalso; exact (run_req_no_panic O e' s' q' E2)].
  cbn [fst].
  destruct (er_commutes e e s q s1 r1 u1 eq_refl E1) as [r1' C1].
  destruct Hes as [_ [_ [_ Hh]]].
  destruct (er_commutes e' e s' q' s2 r2 u2 Hh E2) as [r2' C2].
  rewrite <- Hs, <- Hq in C2. rewrite C1 in C2. inversion C2. reflexivity.
Qed.

(* replaying the same log at another frozen clock *)
Theorem ks_deadline_kept e e' log : env_sim e e' -> Forall (clock_ok e e') log ->
  forall s s', er s = er s' ->
  er (Replay.replay state (ks_exec O e) log s) = er (Replay.replay state (ks_exec O e') log s').
Proof.
  intros Hes. induction log as [|c log IH]; intros HF s s' Hs; [exact Hs|].
  unfold Replay.replay in *. cbn [fold_left]. unfold Replay.step at 2 4.
  apply IH; [exact (Forall_inv_tail HF)|].
  apply ks_exec_er; [exact Hes | exact (Forall_inv HF) | exact Hs].
Qed.

(* restart at a later (or any other) clock reproduces the live state up to deadline values *)
Theorem ks_restart_deadline_kept e e' p s0 :
  inv s0 -> env_sim e e' -> Forall (clock_ok e e') (Replay.logof state (ks_exec O e) p s0) ->
  er (Replay.replay state (ks_exec O e') (Replay.logof state (ks_exec O e) p s0) s0) =
  er (Replay.run state (ks_exec O e) p s0).
Proof.
  intros Hi Hes HF. rewrite <- (ks_replay_equiv O e p s0 Hi).
  symmetry. apply ks_deadline_kept; [exact Hes | exact HF | reflexivity].
Qed.

End Deadline.

(* what "equal after erasing deadline values" means: same keys, same ids, and for every object the
   same geometry, the same fields and the same has-deadline flag *)
Theorem er_meaning s s' : er s = er s' ->
  keys s = keys s' /\
  forall key id,
    match find s key id, find s' key id with
    | Some o, Some o' => o_id o = o_id o' /\ o_geo o = o_geo o' /\ o_fields o = o_fields o' /\
                         ((o_ex o =? 0)%Z = (o_ex o' =? 0)%Z)
    | None, None => True
    | _, _ => False
    end.
Proof.
  intros H. split.
  - rewrite <- (er_keys_state s), <- (er_keys_state s'), H. reflexivity.
  - intros key id. pose proof (er_find s key id) as F1. pose proof (er_find s' key id) as F2.
    rewrite H in F1. rewrite F1 in F2.
    destruct (find s key id) as [o|]; destruct (find s' key id) as [o'|]; cbn in F2; try discriminate; auto.
    inversion F2 as [[Hi Hg He Hf]]. repeat split; auto.
    unfold flagz in He. destruct (o_ex o =? 0)%Z; destruct (o_ex o' =? 0)%Z; auto; discriminate.
Qed.

(* the side condition is satisfiable, and deadline values really differ *)
Definition dl_log : list (list bytes) :=
  [ [kw_SET; w_k; w_a; w_FIELD; w_speed; w_1; w_EX; w_1; w_POINT; w_1; w_1];
    [Spec.bs "EXPIRE"; w_k; w_a; w_1];
    [kw_SET; w_g; w_b; w_STRING; w_speed] ].

Example deadline_kept_nonvacuous :
  env_sim (toy_env 5) (toy_env 1000) /\
  Forall (clock_ok toy_oracle (toy_env 5) (toy_env 1000)) dl_log /\
  Replay.replay state (ks_exec toy_oracle (toy_env 5)) dl_log [] <>
  Replay.replay state (ks_exec toy_oracle (toy_env 1000)) dl_log [] /\
  er (Replay.replay state (ks_exec toy_oracle (toy_env 5)) dl_log []) =
  er (Replay.replay state (ks_exec toy_oracle (toy_env 1000)) dl_log []).
Proof.
  split; [repeat split|]. split.
  - unfold dl_log, clock_ok, ex_ok. repeat constructor; vm_compute; discriminate.
  - split; [vm_compute; discriminate | vm_compute; reflexivity].
Qed.
