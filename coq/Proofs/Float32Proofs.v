(* Proofs/Float32Proofs.v — rtreeValueDown / rtreeValueUp (Model/Float32.v) never invert the order of
   two float64 values: x <= y -> down x <= up y, for all non-NaN doubles including subnormals, values
   beyond the float32 range and infinities (property C02: the index never loses a candidate). *)
From Coq Require Import ZArith Reals Psatz Bool.
From Flocq Require Import Core BinarySingleNaN.
From T38 Require Import Model.Float32.
Local Open Scope R_scope.

Arguments down : simpl never.
Arguments up : simpl never.

(* ---- extended-real value of a non-NaN float: +-infinity are sent to +-2^emax ---- *)
Section Ext.
  Variable prec emax : Z.
  Context (Hp : Prec_gt_0 prec) (Hm : Prec_lt_emax prec emax).

  Definition ext (x : binary_float prec emax) : R :=
    match x with
    | B754_infinity s => if s then - bpow radix2 emax else bpow radix2 emax
    | _ => B2R x
    end.

  Definition nonnan (x : binary_float prec emax) : Prop := is_nan x = false.

  Lemma ext_bounds x : - bpow radix2 emax <= ext x <= bpow radix2 emax.
  Proof.
    pose proof (bpow_gt_0 radix2 emax) as G.
    destruct x as [s|s| |s m e H]; cbn [ext].
    - cbn. lra.
    - destruct s; lra.
    - cbn. lra.
    - pose proof (abs_B2R_lt_emax prec emax (B754_finite s m e H)) as A.
      apply Rabs_lt_inv in A. lra.
  Qed.

  Lemma ext_finite x : is_finite x = true -> ext x = B2R x.
  Proof. destruct x; cbn; try reflexivity; discriminate. Qed.

  Lemma finite_nonnan x : is_finite x = true -> nonnan x.
  Proof. unfold nonnan. destruct x; cbn; try reflexivity; discriminate. Qed.

  (* Bcompare computes the order of the extended values *)
  Lemma Bcompare_ext a b : nonnan a -> nonnan b ->
    Bcompare a b = Some (Rcompare (ext a) (ext b)).
  Proof.
    pose proof (bpow_gt_0 radix2 emax) as G.
    intros Ha Hb.
    destruct (is_finite a) eqn:Fa; destruct (is_finite b) eqn:Fb.
    - rewrite (Bcompare_correct prec emax a b Fa Fb), !ext_finite; auto.
    - destruct b as [sb|sb| |sb mb eb Hb']; try discriminate.
      pose proof (abs_B2R_lt_emax prec emax a) as A. apply Rabs_lt_inv in A.
      rewrite (ext_finite a Fa).
      destruct a as [sa|sa| |sa ma ea Ha']; try discriminate; cbn [ext];
        destruct sb; cbn [Bcompare B2SF SpecFloat.SFcompare]; f_equal; symmetry;
        try (apply Rcompare_Gt; lra); try (apply Rcompare_Lt; lra).
    - destruct a as [sa|sa| |sa ma ea Ha']; try discriminate.
      pose proof (abs_B2R_lt_emax prec emax b) as A. apply Rabs_lt_inv in A.
      rewrite (ext_finite b Fb).
      destruct b as [sb|sb| |sb mb eb Hb']; try discriminate; cbn [ext];
        destruct sa; cbn [Bcompare B2SF SpecFloat.SFcompare]; f_equal; symmetry;
        try (apply Rcompare_Gt; lra); try (apply Rcompare_Lt; lra).
    - destruct a as [sa|sa| |sa ma ea Ha']; try discriminate.
      destruct b as [sb|sb| |sb mb eb Hb']; try discriminate.
      destruct sa, sb; cbn [ext Bcompare B2SF SpecFloat.SFcompare]; f_equal; symmetry;
        try (apply Rcompare_Eq; lra); try (apply Rcompare_Gt; lra); try (apply Rcompare_Lt; lra).
  Qed.
End Ext.

Arguments ext {prec emax} x.
Arguments nonnan {prec emax} x.

Notation ext64 := (@ext 53 1024).
Notation ext32 := (@ext 24 128).

Definition M32 : R := bpow radix2 128.
Definition M64 : R := bpow radix2 1024.
Definition fexp32 := FLT_exp (3 - 128 - 24) 24.
Definition fexp64 := FLT_exp (3 - 1024 - 53) 53.
Definition rnd32 (r : R) : R := round radix2 fexp32 ZnearestE r.
Definition rnd64 (r : R) : R := round radix2 fexp64 ZnearestE r.
Definition clamp (M r : R) : R := Rmax (- M) (Rmin r M).

Lemma clamp_mono M a b : a <= b -> clamp M a <= clamp M b.
Proof. intros H. unfold clamp. apply Rle_max_compat_l. apply Rle_min_compat_r. exact H. Qed.

Lemma clamp_id M r : - M <= r <= M -> clamp M r = r.
Proof. intros [H1 H2]. unfold clamp. rewrite Rmin_left by lra. rewrite Rmax_right by lra. reflexivity. Qed.

Lemma clamp_hi M r : 0 <= M -> M <= r -> clamp M r = M.
Proof. intros H0 H. unfold clamp. rewrite Rmin_right by lra. rewrite Rmax_right by lra. reflexivity. Qed.

Lemma clamp_lo M r : 0 <= M -> r <= - M -> clamp M r = - M.
Proof. intros H0 H. unfold clamp. rewrite Rmin_left by lra. rewrite Rmax_left by lra. reflexivity. Qed.

Lemma rnd32_mono a b : a <= b -> rnd32 a <= rnd32 b.
Proof. intros H. apply round_le; auto with typeclass_instances. apply FLT_exp_valid. exact Hprec32. Qed.

Lemma rnd64_mono a b : a <= b -> rnd64 a <= rnd64 b.
Proof. intros H. apply round_le; auto with typeclass_instances. apply FLT_exp_valid. exact Hprec64. Qed.

Lemma M32_pos : 0 < M32. Proof. apply bpow_gt_0. Qed.
Lemma M64_pos : 0 < M64. Proof. apply bpow_gt_0. Qed.
Lemma M32_le_M64 : M32 <= M64. Proof. apply bpow_le. cbn. lia. Qed.

Lemma rnd32_0 : rnd32 0 = 0.
Proof. apply round_0. auto with typeclass_instances. Qed.

Lemma rnd32_M64 : rnd32 M64 = M64.
Proof.
  apply round_generic; auto with typeclass_instances.
  apply generic_format_bpow. unfold fexp32, FLT_exp. cbn. lia.
Qed.

Lemma rnd32_opp r : rnd32 (- r) = - rnd32 r.
Proof. unfold rnd32. apply round_NE_opp. Qed.

(* ---- float32(d): value = clamp (round32 value) ---- *)
Lemma to32_spec (x : f64) : nonnan x ->
  nonnan (to32 x) /\ ext32 (to32 x) = clamp M32 (rnd32 (ext64 x)).
Proof.
  pose proof M32_pos as G32. pose proof M64_pos as G64. pose proof M32_le_M64 as GL.
  intros Hn. destruct x as [s|s| |s m e H].
  - cbn. split; [reflexivity|]. rewrite rnd32_0. rewrite clamp_id; [reflexivity | lra].
  - cbn [to32 ext]. split; [reflexivity|]. fold M32 M64. destruct s.
    + rewrite rnd32_opp, rnd32_M64. rewrite clamp_lo; lra.
    + rewrite rnd32_M64. rewrite clamp_hi; lra.
  - discriminate.
  - cbn [to32 ext].
    set (xr := B2R (B754_finite s m e H)).
    pose proof (binary_normalize_correct 24 128 Hprec32 Hmax32 mode_NE (cond_Zopp s (Zpos m)) e s) as C.
    cbv zeta in C. change (F2R (Float radix2 (cond_Zopp s (Z.pos m)) e)) with xr in C.
    change (round radix2 (SpecFloat.fexp 24 128) (round_mode mode_NE) xr) with (rnd32 xr) in C.
    destruct (Rlt_bool_spec (Rabs (rnd32 xr)) (bpow radix2 128)) as [Hlt|Hge].
    + destruct C as (C1 & C2 & _). split; [apply finite_nonnan; exact C2|].
      rewrite (ext_finite _ _ _ C2), C1. apply Rabs_lt_inv in Hlt. fold M32 in Hlt.
      rewrite clamp_id; [reflexivity | lra].
    + unfold binary_overflow in C. cbn [overflow_to_inf] in C. fold M32 in Hge.
      destruct (binary_normalize 24 128 Hprec32 Hmax32 mode_NE (cond_Zopp s (Z.pos m)) e s) as [s'|s'| |s' m' e' H'];
        try discriminate. inversion C as [C']. split; [reflexivity|]. cbn [ext]. fold M32.
      destruct (Rlt_bool_spec xr 0) as [Hneg|Hpos].
      * assert (rnd32 xr <= 0) as R0.
        { rewrite <- rnd32_0. apply rnd32_mono. lra. }
        rewrite Rabs_left1 in Hge by exact R0. rewrite clamp_lo; lra.
      * assert (0 <= rnd32 xr) as R0.
        { rewrite <- rnd32_0. apply rnd32_mono. lra. }
        rewrite Rabs_pos_eq in Hge by exact R0. rewrite clamp_hi; lra.
Qed.

Lemma to32_mono (x y : f64) : nonnan x -> nonnan y -> ext64 x <= ext64 y ->
  ext32 (to32 x) <= ext32 (to32 y).
Proof.
  intros Hx Hy H. rewrite (proj2 (to32_spec x Hx)), (proj2 (to32_spec y Hy)).
  apply clamp_mono. apply rnd32_mono. exact H.
Qed.

(* ---- the two constants ---- *)
Lemma c_towards_spec : is_finite c_towards = true /\ Bsign c_towards = false /\ B2R c_towards = 1 - / 8388608.
Proof.
  pose proof (binary_normalize_correct 53 1024 Hprec64 Hmax64 mode_NE 8388607 (-23) false) as C.
  cbv zeta in C.
  assert (E : F2R (Float radix2 8388607 (-23)) = 1 - / 8388608).
  { unfold F2R. cbn [Fnum Fexp]. change (bpow radix2 (-23)) with (/ IZR (Z.pow_pos 2 23)).
    change (Z.pow_pos 2 23) with 8388608%Z. field. }
  rewrite E in C.
  assert (G : generic_format radix2 (SpecFloat.fexp 53 1024) (1 - / 8388608)).
  { rewrite <- E. apply generic_format_F2R. intros _. unfold cexp, SpecFloat.fexp.
    rewrite E.
    assert (mag radix2 (1 - / 8388608) = 0%Z :> Z) as Hm.
    { apply mag_unique. rewrite Rabs_pos_eq by lra. cbn. lra. }
    rewrite Hm. cbn. lia. }
  rewrite round_generic in C; auto with typeclass_instances.
  rewrite Rlt_bool_true in C.
  - destruct C as (C1 & C2 & C3). fold c_towards in C1, C2, C3. split; [exact C2|]. split; [|exact C1].
    rewrite C3. rewrite Rcompare_Gt by lra. reflexivity.
  - rewrite Rabs_pos_eq by lra. apply Rlt_le_trans with 2; [lra|]. change 2 with (bpow radix2 1). apply bpow_le. lia.
Qed.

Lemma c_away_spec : is_finite c_away = true /\ Bsign c_away = false /\ B2R c_away = 1 + / 8388608.
Proof.
  pose proof (binary_normalize_correct 53 1024 Hprec64 Hmax64 mode_NE 8388609 (-23) false) as C.
  cbv zeta in C.
  assert (E : F2R (Float radix2 8388609 (-23)) = 1 + / 8388608).
  { unfold F2R. cbn [Fnum Fexp]. change (bpow radix2 (-23)) with (/ IZR (Z.pow_pos 2 23)).
    change (Z.pow_pos 2 23) with 8388608%Z. field. }
  rewrite E in C.
  assert (G : generic_format radix2 (SpecFloat.fexp 53 1024) (1 + / 8388608)).
  { rewrite <- E. apply generic_format_F2R. intros _. unfold cexp, SpecFloat.fexp.
    rewrite E.
    assert (mag radix2 (1 + / 8388608) = 1%Z :> Z) as Hm.
    { apply mag_unique. rewrite Rabs_pos_eq by lra. cbn. lra. }
    rewrite Hm. cbn. lia. }
  rewrite round_generic in C; auto with typeclass_instances.
  rewrite Rlt_bool_true in C.
  - destruct C as (C1 & C2 & C3). fold c_away in C1, C2, C3. split; [exact C2|]. split; [|exact C1].
    rewrite C3. rewrite Rcompare_Gt by lra. reflexivity.
  - rewrite Rabs_pos_eq by lra. apply Rlt_le_trans with 4; [lra|]. change 4 with (bpow radix2 2). apply bpow_le. lia.
Qed.

Global Opaque c_towards c_away.

Lemma rnd64_B2R (x : f64) : rnd64 (B2R x) = B2R x.
Proof. apply round_generic; auto with typeclass_instances. apply generic_format_B2R. Qed.

Lemma rnd64_0 : rnd64 0 = 0.
Proof. apply round_0. auto with typeclass_instances. Qed.

Lemma lt64_zero_spec (x : f64) : is_finite x = true -> lt64 x zero64 = true <-> B2R x < 0.
Proof.
  intros F. unfold lt64. rewrite (Bcompare_correct 53 1024 x zero64 F eq_refl).
  cbn [B2R zero64]. destruct (Rcompare_spec (B2R x) 0); split; intros; try lra; try discriminate; auto.
Qed.

Lemma Bsign_neg (x : f64) : is_finite x = true -> B2R x < 0 -> Bsign x = true.
Proof.
  destruct x as [s|s| |s m e H]; intros F Hn; try discriminate.
  - cbn [B2R] in Hn. lra.
  - destruct s; auto. exfalso. cbn [B2R cond_Zopp] in Hn.
    assert (0 <= F2R (Float radix2 (Z.pos m) e)) as P by (apply F2R_ge_0; cbn [Fnum]; lia). lra.
Qed.

Lemma Bsign_pos (x : f64) : is_finite x = true -> 0 <= B2R x -> B2R x <> 0 -> Bsign x = false.
Proof.
  destruct x as [s|s| |s m e H]; intros F Hn Hz; try discriminate.
  - cbn [B2R] in Hz. lra.
  - destruct s; auto. exfalso. cbn [B2R cond_Zopp] in Hn.
    assert (F2R (Float radix2 (Z.neg m) e) < 0) as P by (apply F2R_lt_0; cbn [Fnum]; lia).
    change (Z.opp (Z.pos m)) with (Z.neg m) in Hn. lra.
Qed.

(* the product by the nudge constant towards -infinity does not exceed x *)
Lemma mul_down_le (x : f64) : is_finite x = true ->
  let p := if lt64 x zero64 then mul64 x c_away else mul64 x c_towards in
  nonnan p /\ ext64 p <= ext64 x.
Proof.
  intros F. cbv zeta.
  destruct c_towards_spec as (T1 & T2 & T3). destruct c_away_spec as (A1 & A2 & A3).
  pose proof (abs_B2R_lt_emax 53 1024 x) as AX. apply Rabs_lt_inv in AX. fold M64 in AX.
  rewrite (ext_finite _ _ x F).
  destruct (lt64 x zero64) eqn:L.
  - apply (lt64_zero_spec x F) in L.
    pose proof (Bmult_correct 53 1024 Hprec64 Hmax64 mode_NE x c_away) as C.
    change (round radix2 (SpecFloat.fexp 53 1024) (round_mode mode_NE) (B2R x * B2R c_away)) with (rnd64 (B2R x * B2R c_away)) in C.
    assert (Hle : rnd64 (B2R x * B2R c_away) <= B2R x).
    { rewrite <- (rnd64_B2R x) at 2. apply rnd64_mono. rewrite A3. nra. }
    destruct (Rlt_bool_spec (Rabs (rnd64 (B2R x * B2R c_away))) (bpow radix2 1024)) as [Hlt|Hge].
    + destruct C as (C1 & C2 & _). rewrite F, A1 in C2. change (true && true)%bool with true in C2. unfold mul64.
      split; [apply finite_nonnan; exact C2|]. rewrite (ext_finite _ _ _ C2), C1. exact Hle.
    + unfold binary_overflow in C. cbn [overflow_to_inf] in C. rewrite A2, (Bsign_neg x F L) in C. cbn in C.
      unfold mul64. destruct (Bmult mode_NE x c_away) as [s'|s'| |s' m' e' H']; try discriminate.
      inversion C. split; [reflexivity|]. cbn [ext]. fold M64. lra.
  - assert (0 <= B2R x) as P.
    { destruct (Rlt_or_le (B2R x) 0) as [N|N]; auto. apply (lt64_zero_spec x F) in N. congruence. }
    pose proof (Bmult_correct 53 1024 Hprec64 Hmax64 mode_NE x c_towards) as C.
    change (round radix2 (SpecFloat.fexp 53 1024) (round_mode mode_NE) (B2R x * B2R c_towards)) with (rnd64 (B2R x * B2R c_towards)) in C.
    assert (Hle : rnd64 (B2R x * B2R c_towards) <= B2R x).
    { rewrite <- (rnd64_B2R x) at 2. apply rnd64_mono. rewrite T3. nra. }
    assert (Hge0 : 0 <= rnd64 (B2R x * B2R c_towards)).
    { rewrite <- rnd64_0. apply rnd64_mono. rewrite T3. nra. }
    rewrite Rlt_bool_true in C.
    + destruct C as (C1 & C2 & _). rewrite F, T1 in C2. change (true && true)%bool with true in C2. unfold mul64.
      split; [apply finite_nonnan; exact C2|]. rewrite (ext_finite _ _ _ C2), C1. exact Hle.
    + rewrite Rabs_pos_eq by exact Hge0. fold M64. lra.
Qed.

(* symmetric: the product towards +infinity is not below x *)
Lemma mul_up_ge (x : f64) : is_finite x = true ->
  let p := if lt64 x zero64 then mul64 x c_towards else mul64 x c_away in
  nonnan p /\ ext64 x <= ext64 p.
Proof.
  intros F. cbv zeta.
  destruct c_towards_spec as (T1 & T2 & T3). destruct c_away_spec as (A1 & A2 & A3).
  pose proof (abs_B2R_lt_emax 53 1024 x) as AX. apply Rabs_lt_inv in AX. fold M64 in AX.
  rewrite (ext_finite _ _ x F).
  destruct (lt64 x zero64) eqn:L.
  - apply (lt64_zero_spec x F) in L.
    pose proof (Bmult_correct 53 1024 Hprec64 Hmax64 mode_NE x c_towards) as C.
    change (round radix2 (SpecFloat.fexp 53 1024) (round_mode mode_NE) (B2R x * B2R c_towards)) with (rnd64 (B2R x * B2R c_towards)) in C.
    assert (Hle : B2R x <= rnd64 (B2R x * B2R c_towards)).
    { rewrite <- (rnd64_B2R x) at 1. apply rnd64_mono. rewrite T3. nra. }
    assert (Hle0 : rnd64 (B2R x * B2R c_towards) <= 0).
    { rewrite <- rnd64_0. apply rnd64_mono. rewrite T3. nra. }
    rewrite Rlt_bool_true in C.
    + destruct C as (C1 & C2 & _). rewrite F, T1 in C2. change (true && true)%bool with true in C2. unfold mul64.
      split; [apply finite_nonnan; exact C2|]. rewrite (ext_finite _ _ _ C2), C1. exact Hle.
    + rewrite Rabs_left1 by exact Hle0. fold M64. lra.
  - assert (0 <= B2R x) as P.
    { destruct (Rlt_or_le (B2R x) 0) as [N|N]; auto. apply (lt64_zero_spec x F) in N. congruence. }
    pose proof (Bmult_correct 53 1024 Hprec64 Hmax64 mode_NE x c_away) as C.
    change (round radix2 (SpecFloat.fexp 53 1024) (round_mode mode_NE) (B2R x * B2R c_away)) with (rnd64 (B2R x * B2R c_away)) in C.
    assert (Hle : B2R x <= rnd64 (B2R x * B2R c_away)).
    { rewrite <- (rnd64_B2R x) at 1. apply rnd64_mono. rewrite A3. nra. }
    destruct (Rlt_bool_spec (Rabs (rnd64 (B2R x * B2R c_away))) (bpow radix2 1024)) as [Hlt|Hge].
    + destruct C as (C1 & C2 & _). rewrite F, A1 in C2. change (true && true)%bool with true in C2. unfold mul64.
      split; [apply finite_nonnan; exact C2|]. rewrite (ext_finite _ _ _ C2), C1. exact Hle.
    + unfold binary_overflow in C. cbn [overflow_to_inf] in C. rewrite A2 in C.
      assert (B2R x <> 0) as Hnz.
      { intros Z. rewrite Z, Rmult_0_l, rnd64_0, Rabs_R0 in Hge. pose proof M64_pos. unfold M64 in *. lra. }
      pose proof (Bsign_pos x F P Hnz) as Sx.
      rewrite Sx in C. cbn in C.
      unfold mul64. destruct (Bmult mode_NE x c_away) as [s'|s'| |s' m' e' H']; try discriminate.
      inversion C. split; [reflexivity|]. cbn [ext]. fold M64. lra.
Qed.

(* the branch of down/up is taken only for finite arguments *)
Lemma gt64_back_finite (x : f64) : nonnan x -> gt64 (to64 (to32 x)) x = true -> is_finite x = true.
Proof.
  destruct x as [s|s| |s m e H]; cbn; auto; try discriminate.
  intros _. unfold gt64. cbn. destruct s; discriminate.
Qed.

Lemma lt64_back_finite (x : f64) : nonnan x -> lt64 (to64 (to32 x)) x = true -> is_finite x = true.
Proof.
  destruct x as [s|s| |s m e H]; cbn; auto; try discriminate.
  intros _. unfold lt64. cbn. destruct s; discriminate.
Qed.

Lemma down_le_to32 (x : f64) : nonnan x -> nonnan (down x) /\ ext32 (down x) <= ext32 (to32 x).
Proof.
  intros Hn. unfold down. cbv zeta.
  destruct (gt64 (to64 (to32 x)) x) eqn:G.
  - pose proof (gt64_back_finite x Hn G) as F.
    pose proof (mul_down_le x F) as M. cbv zeta in M.
    destruct (lt64 x zero64); destruct M as [M1 M2];
      (split; [apply to32_spec; exact M1 | apply to32_mono; auto]).
  - split; [apply to32_spec; exact Hn | apply Rle_refl].
Qed.

Lemma to32_le_up (x : f64) : nonnan x -> nonnan (up x) /\ ext32 (to32 x) <= ext32 (up x).
Proof.
  intros Hn. unfold up. cbv zeta.
  destruct (lt64 (to64 (to32 x)) x) eqn:G.
  - pose proof (lt64_back_finite x Hn G) as F.
    pose proof (mul_up_ge x F) as M. cbv zeta in M.
    destruct (lt64 x zero64); destruct M as [M1 M2];
      (split; [apply to32_spec; exact M1 | apply to32_mono; auto]).
  - split; [apply to32_spec; exact Hn | apply Rle_refl].
Qed.

(* ---- the key theorem ---- *)
Lemma round_monotone_ext (x y : f64) : nonnan x -> nonnan y -> ext64 x <= ext64 y ->
  nonnan (down x) /\ nonnan (up y) /\ ext32 (down x) <= ext32 (up y).
Proof.
  intros Hx Hy H.
  destruct (down_le_to32 x Hx) as [D1 D2]. destruct (to32_le_up y Hy) as [U1 U2].
  split; auto. split; auto.
  eapply Rle_trans; [exact D2|]. eapply Rle_trans; [|exact U2]. apply to32_mono; auto.
Qed.

(* boolean comparisons as the Go code evaluates them *)
Lemma le64_ext (a b : f64) : nonnan a -> nonnan b -> (le64 a b = true <-> ext64 a <= ext64 b).
Proof.
  intros Ha Hb. unfold le64. rewrite (Bcompare_ext 53 1024 a b Ha Hb).
  destruct (Rcompare_spec (ext64 a) (ext64 b)); split; intros; try lra; try discriminate; auto.
Qed.

Lemma le32_ext (a b : f32) : nonnan a -> nonnan b -> (le32 a b = true <-> ext32 a <= ext32 b).
Proof.
  intros Ha Hb. unfold le32. rewrite (Bcompare_ext 24 128 a b Ha Hb).
  destruct (Rcompare_spec (ext32 a) (ext32 b)); split; intros; try lra; try discriminate; auto.
Qed.

Lemma lt32_ext (a b : f32) : nonnan a -> nonnan b -> (lt32 a b = true <-> ext32 a < ext32 b).
Proof.
  intros Ha Hb. unfold lt32. rewrite (Bcompare_ext 24 128 a b Ha Hb).
  destruct (Rcompare_spec (ext32 a) (ext32 b)); split; intros; try lra; try discriminate; auto.
Qed.

Lemma le64_nonnan (a b : f64) : le64 a b = true -> nonnan a /\ nonnan b.
Proof.
  unfold le64, nonnan. destruct a, b; cbn; try discriminate; auto.
Qed.

(* round_monotone, in terms of the executable comparisons: le64 x y (Go's x <= y, false on NaN)
   implies le32 (down x) (up y) *)
Theorem round_monotone (x y : f64) : le64 x y = true -> le32 (down x) (up y) = true.
Proof.
  intros H. destruct (le64_nonnan x y H) as [Hx Hy].
  apply (le64_ext x y Hx Hy) in H.
  destruct (round_monotone_ext x y Hx Hy H) as (D & U & L).
  apply (le32_ext _ _ D U). exact L.
Qed.
