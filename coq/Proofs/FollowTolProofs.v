(* C06 — lemmas about Model/FollowTol.v: which errors of a streamed command a follower may skip. *)
From Coq Require Import List Bool String.
From T38 Require Import Model.FollowTol Gen.ReplayTol Gen.FollowSteps.
Import ListNotations.

(* ---------- the source, read back ---------- *)

(* commandErrIsFatal tolerates exactly these sentinels, and no error that is not a sentinel *)
Lemma tolerated_transcribed :
  tolerated_of_table replay_err_table = proved_tolerated /\ replay_err_other_fatal = true.
Proof. vm_compute. split; reflexivity. Qed.

(* every tolerated sentinel depends on dataset + command only *)
Lemma table_state_only_transcribed : table_state_only replay_err_table = true.
Proof. vm_compute. reflexivity. Qed.

(* followHandleCommand decides with commandErrIsFatal, right after s.command *)
Lemma follow_consults_table : consults_table follow_handle_command = true.
Proof. vm_compute. reflexivity. Qed.

Lemma tol_table_sound : forall table,
  table_state_only table = true ->
  forall e, tol_of_table table true e = true -> state_only_name e = true.
Proof.
  intros table H e. unfold tol_of_table.
  induction table as [|r t IH]; cbn; [discriminate|].
  unfold table_state_only in H. cbn in H. apply andb_true_iff in H. destruct H as [Hr Ht].
  destruct (String.eqb (fst (fst r)) e) eqn:E.
  - apply String.eqb_eq in E. subst e. intro Hn. apply negb_true_iff in Hn. rewrite Hn in Hr. exact Hr.
  - apply IH. exact Ht.
Qed.

Lemma source_tolerates_state_only :
  forall e, tol_of_table replay_err_table replay_err_other_fatal e = true -> state_only_name e = true.
Proof.
  destruct tolerated_transcribed as [_ Ho]. rewrite Ho.
  apply tol_table_sound. exact table_state_only_transcribed.
Qed.

Section P.
  Variable st : Type.
  Variable rec : Type.
  Variable loc : Type.
  Variable xapp : loc -> rec -> st -> (st * bool) + string.
  Variable tolerated : string -> bool.
  Variable state_only : string -> bool.

  (* what "depends on dataset + command only" means for the command semantics: where one server succeeds,
     another server executing the same command on the same dataset either gets the same result or an error
     that is not state-only *)
  Hypothesis same_success : forall l1 l2 r s v w, xapp l1 r s = inl v -> xapp l2 r s = inl w -> v = w.
  Hypothesis local_error : forall l1 l2 r s v e, xapp l1 r s = inl v -> xapp l2 r s = inr e -> state_only e = false.

  (* if only state-only errors are tolerated: a follower that starts as a copy and handles the whole stream
     (stays connected, reports caught up) IS a copy - whatever its local conditions were *)
  Lemma tol_sound :
    (forall e, tolerated e = true -> state_only e = true) ->
    forall ts s sL sF,
    lrun st rec loc xapp ts s = Some sL ->
    fstream st rec loc xapp tolerated ts s = inl sF ->
    sF = sL.
  Proof.
    intros Ht ts. induction ts as [|[[ll lf] r] t IH]; intros s sL sF HL HF; cbn in *.
    - inversion HL; inversion HF; subst. reflexivity.
    - destruct (xapp ll r s) as [[s1 u1]|e1] eqn:EL; [|discriminate].
      unfold fdeliver in HF. destruct (xapp lf r s) as [[s2 u2]|e2] eqn:EF.
      + pose proof (same_success ll lf r s _ _ EL EF) as E. inversion E; subst. eapply IH; eauto.
      + pose proof (local_error ll lf r s _ _ EL EF) as Hl.
        destruct (tolerated e2) eqn:T; [|discriminate].
        apply Ht in T. rewrite T in Hl. discriminate.
  Qed.

  (* ... and a record at which the follower's own condition gets in the way fails the attempt *)
  Lemma local_error_fails :
    (forall e, tolerated e = true -> state_only e = true) ->
    forall ll lf r s v e, xapp ll r s = inl v -> xapp lf r s = inr e ->
    fdeliver st rec loc xapp tolerated lf r s = Failed st e.
  Proof.
    intros Ht ll lf r s v e EL EF. unfold fdeliver. rewrite EF.
    destruct (tolerated e) eqn:T; [|reflexivity].
    apply Ht in T. rewrite (local_error ll lf r s v e EL EF) in T. discriminate.
  Qed.
End P.
