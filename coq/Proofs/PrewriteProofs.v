(* C08 — proofs about Model/Prewrite.v.
   Main result: for the statement order v_fixed (flag cleared inside the locked region, pre-write
   also on the goingLive branch) every acknowledged command is in the file, in every state
   reachable by any schedule over any number of connections and flushers.
   The two refutations show that neither of the two repairs can be dropped. *)
From Coq Require Import List NArith Bool Arith Lia.
From T38 Require Import Model.Prewrite.
Import ListNotations.

(* pcs at which the thread holds Server.mu *)
Definition holds (p : pc) : bool :=
  match p with L2 | L3 | L4 | P3 | P4 | P4U | F2 | F3 => true | _ => false end.
(* pcs between the flush and the unlock of the pre-write *)
Definition flushed_pc (p : pc) : bool :=
  match p with P4 | P4U => true | _ => false end.
(* pcs from which the connection proceeds to the socket write without looking at the buffer again *)
Definition ready (p : pc) : bool :=
  match p with P4 | P4U | P5 | P6 => true | _ => false end.
(* the holder has set the flag and has not released the lock yet *)
Definition flagged (p : pc) : bool :=
  match p with L3 | L4 => true | _ => false end.

Record Inv (st : state) : Prop := mkInv {
  inv_lock1 : forall t, lock st = Some t -> holds (t_pc (threads st t)) = true;
  inv_lock2 : forall t, holds (t_pc (threads st t)) = true -> lock st = Some t;
  (* the supporting invariant of DESIGN.md: buf <> [] -> dirty = true, at EVERY reachable state;
     the lock-held exceptions one might expect do not exist because writeAOF sets the flag
     before it appends (L2 before L3) and the pre-write clears it after the flush (P3 before P4)
     inside one critical section *)
  inv_dirty : dirty st = false -> buf st = [];
  inv_flagged : forall t, flagged (t_pc (threads st t)) = true -> dirty st = true;
  inv_flushed : forall t, flushed_pc (t_pc (threads st t)) = true -> buf st = [];
  inv_pend : forall t c, In c (t_pend (threads st t)) -> In c (file st) \/ In c (buf st);
  inv_ready : forall t, ready (t_pc (threads st t)) = true ->
                forall c, In c (t_pend (threads st t)) -> In c (file st);
  inv_acked : forall c, In c (acked st) -> In c (file st)
}.

Lemma upd_same : forall f t x, upd f t x t = x.
Proof. intros. unfold upd. now rewrite Nat.eqb_refl. Qed.

Lemma upd_other : forall f t x i, i <> t -> upd f t x i = f i.
Proof. intros f t x i Hne. unfold upd. destruct (Nat.eqb_spec i t); congruence. Qed.

Lemma next_batch_fixed_pc : forall d r,
  let th := next_batch v_fixed d r in
  holds (t_pc th) = false /\ flushed_pc (t_pc th) = false /\ ready (t_pc th) = false /\
  flagged (t_pc th) = false /\ t_pend th = [].
Proof.
  intros d r. unfold next_batch. destruct d; [cbn; auto 6|].
  destruct r as [|b r]; [cbn; auto 6|].
  destruct b as [cs dt sc]. cbn [b_cmds b_detach b_script].
  destruct cs; destruct dt; cbn; auto 6.
Qed.

Lemma enter_fixed_pc : forall cur d,
  let p := enter v_fixed cur d in
  holds p = false /\ flushed_pc p = false /\ ready p = false /\ flagged p = false.
Proof. intros cur d. destruct cur; destruct d; cbn; auto. Qed.

Lemma init_inv : forall progs, Inv (init v_fixed progs).
Proof.
  intros progs.
  assert (Hpc : forall i, let th := threads (init v_fixed progs) i in
            holds (t_pc th) = false /\ flushed_pc (t_pc th) = false /\ ready (t_pc th) = false /\
            flagged (t_pc th) = false /\ t_pend th = []).
  { intros i. cbn [init threads]. destruct (nth_error progs i) as [p|]; [|cbn; auto 6].
    destruct p; cbn [init_thread]; [apply next_batch_fixed_pc | cbn; auto 6]. }
  constructor; cbn [lock dirty buf file acked init].
  - discriminate.
  - intros t H. destruct (Hpc t) as (A & _). cbn zeta in A. congruence.
  - reflexivity.
  - intros t H. destruct (Hpc t) as (_ & _ & _ & A & _). cbn zeta in A. congruence.
  - reflexivity.
  - intros t c H. destruct (Hpc t) as (_ & _ & _ & _ & A). cbn zeta in A. rewrite A in H. destruct H.
  - intros t H. destruct (Hpc t) as (_ & _ & A & _). cbn zeta in A. congruence.
  - intros c [].
Qed.

(* case analysis on "is t0 the stepping thread" with the thread map rewritten *)
Ltac split_thread t0 t :=
  destruct (Nat.eq_dec t0 t) as [->|?];
  [ rewrite ?upd_same in * | rewrite ?upd_other in * by assumption ].

Ltac inv_facts H :=
  pose proof (inv_lock1 _ H) as HL1; pose proof (inv_lock2 _ H) as HL2;
  pose proof (inv_dirty _ H) as HD; pose proof (inv_flagged _ H) as HFG;
  pose proof (inv_flushed _ H) as HFL; pose proof (inv_pend _ H) as HP;
  pose proof (inv_ready _ H) as HR; pose proof (inv_acked _ H) as HA.

(* the stepping thread holds the lock, another thread claims to: contradiction *)
Ltac two_holders HL2 t0 t E :=
  match goal with
  | Hh : holds (t_pc (threads _ t0)) = true |- _ =>
      let A := fresh in let B := fresh in
      pose proof (HL2 t0 Hh) as A;
      assert (B : holds (t_pc (threads _ t)) = true) by (rewrite E; reflexivity);
      apply HL2 in B; congruence
  end.

Lemma in_app_l : forall (c : cmd) a b, In c a -> In c (a ++ b).
Proof. intros. apply in_or_app. auto. Qed.

Theorem step_inv : forall st t, Inv st -> Inv (step v_fixed st t).
Proof.
  intros st t H. inv_facts H.
  unfold step. destruct (t_pc (threads st t)) eqn:E;
    cbn [v_fixed v_store_locked v_detach_prewrite v_flusher_swap v_flag_in_writeaof v_detach_store_locked v_flusher_store negb andb orb].
  - (* CMD: lock *)
    destruct (lock st) eqn:EL; [exact H|].
    constructor; cbn [threads lock dirty buf file acked].
    + intros t0 Heq. injection Heq as <-. rewrite upd_same. reflexivity.
    + intros t0 Hh. split_thread t0 t; [reflexivity|]. apply HL2 in Hh. congruence.
    + exact HD.
    + intros t0 Hf. split_thread t0 t; [discriminate|]. eauto.
    + intros t0 Hf. split_thread t0 t; [discriminate|]. eauto.
    + intros t0 c Hc. split_thread t0 t; cbn [set_pc t_pend] in Hc; eauto.
    + intros t0 Hr. split_thread t0 t; [discriminate|]. eauto.
    + exact HA.
  - (* L2: dirty := true *)
    constructor; cbn [threads lock dirty buf file acked].
    + intros t0 Heq. split_thread t0 t; [reflexivity|]. eauto.
    + intros t0 Hh. split_thread t0 t; [apply HL2; rewrite E; reflexivity|]. eauto.
    + discriminate.
    + reflexivity.
    + intros t0 Hf. split_thread t0 t; [discriminate|]. eauto.
    + intros t0 c Hc. split_thread t0 t; cbn [set_pc t_pend] in Hc; eauto.
    + intros t0 Hr. split_thread t0 t; [discriminate|]. eauto.
    + exact HA.
  - (* L3: append *)
    assert (Hdt : dirty st = true) by (apply (HFG t); rewrite E; reflexivity).
    assert (Hme : lock st = Some t) by (apply HL2; rewrite E; reflexivity).
    destruct (t_cur (threads st t)) as [|c cur'] eqn:EC.
    + constructor; cbn [threads lock dirty buf file acked].
      * intros t0 Heq. split_thread t0 t; [reflexivity|]. eauto.
      * intros t0 Hh. split_thread t0 t; [assumption|]. eauto.
      * exact HD.
      * intros; assumption.
      * intros t0 Hf. split_thread t0 t; [discriminate|]. eauto.
      * intros t0 c Hc. split_thread t0 t; cbn [set_pc t_pend] in Hc; eauto.
      * intros t0 Hr. split_thread t0 t; [discriminate|]. eauto.
      * exact HA.
    + constructor; cbn [threads lock dirty buf file acked].
      * intros t0 Heq. split_thread t0 t; [reflexivity|]. eauto.
      * intros t0 Hh. split_thread t0 t; [assumption|]. eauto.
      * congruence.
      * intros; assumption.
      * intros t0 Hf. split_thread t0 t; [discriminate|].
        exfalso. assert (Hh : holds (t_pc (threads st t0)) = true)
          by (destruct (t_pc (threads st t0)); try discriminate; reflexivity).
        apply HL2 in Hh. congruence.
      * intros t0 c0 Hc. split_thread t0 t.
        -- cbn [t_pend] in Hc. apply in_app_or in Hc. destruct Hc as [Hc|Hc].
           ++ destruct (HP t c0 Hc); [left; assumption| right; apply in_app_l; assumption].
           ++ right. apply in_or_app. right. assumption.
        -- destruct (HP t0 c0 Hc); [left; assumption| right; apply in_app_l; assumption].
      * intros t0 Hr. split_thread t0 t; [discriminate|]. eauto.
      * exact HA.
  - (* L4: unlock *)
    destruct (enter_fixed_pc (t_cur (threads st t)) (t_detach (threads st t))) as (N1 & N2 & N3 & N4).
    cbn zeta in N1, N2, N3, N4.
    constructor; cbn [threads lock dirty buf file acked].
    + discriminate.
    + intros t0 Hh. split_thread t0 t; [cbn [set_pc t_pc] in Hh; congruence|].
      exfalso. two_holders HL2 t0 t E.
    + exact HD.
    + intros t0 Hf. split_thread t0 t; [cbn [set_pc t_pc] in Hf; congruence|]. eauto.
    + intros t0 Hf. split_thread t0 t; [cbn [set_pc t_pc] in Hf; congruence|]. eauto.
    + intros t0 c Hc. split_thread t0 t; cbn [set_pc t_pend] in Hc; eauto.
    + intros t0 Hr. split_thread t0 t; [cbn [set_pc t_pc] in Hr; congruence|]. eauto.
    + exact HA.
  - (* P1: read the flag *)
    constructor; cbn [threads lock dirty buf file acked].
    + intros t0 Heq. split_thread t0 t; [|eauto].
      apply HL1 in Heq. rewrite E in Heq. discriminate.
    + intros t0 Hh. split_thread t0 t; [|eauto].
      cbn [set_pc t_pc] in Hh. destruct (dirty st); discriminate.
    + exact HD.
    + intros t0 Hf. split_thread t0 t; [|eauto].
      cbn [set_pc t_pc] in Hf. destruct (dirty st); discriminate.
    + intros t0 Hf. split_thread t0 t; [|eauto].
      cbn [set_pc t_pc] in Hf. destruct (dirty st); discriminate.
    + intros t0 c Hc. split_thread t0 t; cbn [set_pc t_pend] in Hc; eauto.
    + intros t0 Hr. split_thread t0 t; [|eauto].
      cbn [set_pc t_pc t_pend] in *. destruct (dirty st) eqn:ED; [discriminate|].
      intros c Hc. destruct (HP t c Hc) as [|Hb]; [assumption|].
      rewrite (HD eq_refl) in Hb. destruct Hb.
    + exact HA.
  - (* P2: lock *)
    destruct (lock st) eqn:EL; [exact H|].
    constructor; cbn [threads lock dirty buf file acked].
    + intros t0 Heq. injection Heq as <-. rewrite upd_same. reflexivity.
    + intros t0 Hh. split_thread t0 t; [reflexivity|]. apply HL2 in Hh. congruence.
    + exact HD.
    + intros t0 Hf. split_thread t0 t; [discriminate|]. eauto.
    + intros t0 Hf. split_thread t0 t; [discriminate|]. eauto.
    + intros t0 c Hc. split_thread t0 t; cbn [set_pc t_pend] in Hc; eauto.
    + intros t0 Hr. split_thread t0 t; [discriminate|]. eauto.
    + exact HA.
  - (* P3: flush *)
    constructor; cbn [threads lock dirty buf file acked].
    + intros t0 Heq. split_thread t0 t; [reflexivity|]. eauto.
    + intros t0 Hh. split_thread t0 t; [apply HL2; rewrite E; reflexivity|]. eauto.
    + reflexivity.
    + intros t0 Hf. split_thread t0 t; [discriminate|]. eauto.
    + reflexivity.
    + intros t0 c Hc. left. split_thread t0 t; cbn [set_pc t_pend] in Hc;
        apply in_or_app; eauto.
    + intros t0 Hr c Hc. split_thread t0 t.
      * cbn [set_pc t_pend] in Hc. apply in_or_app. eauto.
      * apply in_app_l. eauto.
    + intros c Hc. apply in_app_l. eauto.
  - (* P4: clear the flag, still holding the lock *)
    assert (Hb : buf st = []) by (apply (HFL t); rewrite E; reflexivity).
    constructor; cbn [threads lock dirty buf file acked v_fixed v_store_locked].
    + intros t0 Heq. split_thread t0 t; [reflexivity|]. eauto.
    + intros t0 Hh. split_thread t0 t; [apply HL2; rewrite E; reflexivity|]. eauto.
    + intros _. exact Hb.
    + intros t0 Hf. split_thread t0 t; [discriminate|].
      exfalso. assert (Hh : holds (t_pc (threads st t0)) = true)
        by (destruct (t_pc (threads st t0)); try discriminate; reflexivity).
      two_holders HL2 t0 t E.
    + intros; exact Hb.
    + intros t0 c Hc. split_thread t0 t; cbn [set_pc t_pend] in Hc; eauto.
    + intros t0 Hr. split_thread t0 t; [|eauto].
      cbn [set_pc t_pend]. apply HR. rewrite E. reflexivity.
    + exact HA.
  - (* P4U: unlock *)
    constructor; cbn [threads lock dirty buf file acked].
    + discriminate.
    + intros t0 Hh. split_thread t0 t; [discriminate|].
      exfalso. two_holders HL2 t0 t E.
    + exact HD.
    + intros t0 Hf. split_thread t0 t; [discriminate|]. eauto.
    + intros t0 Hf. split_thread t0 t; [discriminate|]. eauto.
    + intros t0 c Hc. split_thread t0 t; cbn [set_pc t_pend] in Hc; eauto.
    + intros t0 Hr. split_thread t0 t; [|eauto].
      cbn [set_pc t_pend]. apply HR. rewrite E. reflexivity.
    + exact HA.
  - (* P5: nothing in this variant *)
    constructor; cbn [threads lock dirty buf file acked v_fixed v_store_locked].
    + intros t0 Heq. split_thread t0 t; [|eauto].
      apply HL1 in Heq. rewrite E in Heq. discriminate.
    + intros t0 Hh. split_thread t0 t; [discriminate|]. eauto.
    + exact HD.
    + intros t0 Hf. split_thread t0 t; [discriminate|]. eauto.
    + intros t0 Hf. split_thread t0 t; [discriminate|]. eauto.
    + intros t0 c Hc. split_thread t0 t; cbn [set_pc t_pend] in Hc; eauto.
    + intros t0 Hr. split_thread t0 t; [|eauto].
      cbn [set_pc t_pend]. apply HR. rewrite E. reflexivity.
    + exact HA.
  - (* P6: the acknowledgement *)
    destruct (next_batch_fixed_pc (t_detach (threads st t)) (t_rest (threads st t)))
      as (N1 & N2 & N3 & N4 & N5). cbn zeta in N1, N2, N3, N4, N5.
    constructor; cbn [threads lock dirty buf file acked].
    + intros t0 Heq. split_thread t0 t; [|eauto].
      apply HL1 in Heq. rewrite E in Heq. discriminate.
    + intros t0 Hh. split_thread t0 t; [congruence|]. eauto.
    + exact HD.
    + intros t0 Hf. split_thread t0 t; [congruence|]. eauto.
    + intros t0 Hf. split_thread t0 t; [congruence|]. eauto.
    + intros t0 c Hc. split_thread t0 t; [|eauto]. rewrite N5 in Hc. destruct Hc.
    + intros t0 Hr. split_thread t0 t; [congruence|]. eauto.
    + intros c Hc. apply in_app_or in Hc. destruct Hc as [Hc|Hc]; [eauto|].
      apply (HR t); [rewrite E; reflexivity | assumption].
  - (* DONE *) exact H.
  - (* F1: lock *)
    destruct (lock st) eqn:EL; [exact H|].
    constructor; cbn [threads lock dirty buf file acked].
    + intros t0 Heq. injection Heq as <-. rewrite upd_same. reflexivity.
    + intros t0 Hh. split_thread t0 t; [reflexivity|]. apply HL2 in Hh. congruence.
    + exact HD.
    + intros t0 Hf. split_thread t0 t; [discriminate|]. eauto.
    + intros t0 Hf. split_thread t0 t; [discriminate|]. eauto.
    + intros t0 c Hc. split_thread t0 t; cbn [set_pc t_pend] in Hc; eauto.
    + intros t0 Hr. split_thread t0 t; [discriminate|]. eauto.
    + exact HA.
  - (* FL: lock (only reachable in the flusher_swap variant) *)
    destruct (lock st) eqn:EL; [exact H|].
    constructor; cbn [threads lock dirty buf file acked].
    + intros t0 Heq. injection Heq as <-. rewrite upd_same. reflexivity.
    + intros t0 Hh. split_thread t0 t; [reflexivity|]. apply HL2 in Hh. congruence.
    + exact HD.
    + intros t0 Hf. split_thread t0 t; [discriminate|]. eauto.
    + intros t0 Hf. split_thread t0 t; [discriminate|]. eauto.
    + intros t0 c Hc. split_thread t0 t; cbn [set_pc t_pend] in Hc; eauto.
    + intros t0 Hr. split_thread t0 t; [discriminate|]. eauto.
    + exact HA.
  - (* F2: flush *)
    constructor; cbn [threads lock dirty buf file acked].
    + intros t0 Heq. split_thread t0 t; [reflexivity|]. eauto.
    + intros t0 Hh. split_thread t0 t; [apply HL2; rewrite E; reflexivity|]. eauto.
    + reflexivity.
    + intros t0 Hf. split_thread t0 t; [discriminate|]. eauto.
    + reflexivity.
    + intros t0 c Hc. left. split_thread t0 t; cbn [set_pc t_pend] in Hc;
        apply in_or_app; eauto.
    + intros t0 Hr c Hc. split_thread t0 t; [discriminate|].
      apply in_app_l. eauto.
    + intros c Hc. apply in_app_l. eauto.
  - (* F3: unlock *)
    constructor; cbn [threads lock dirty buf file acked].
    + discriminate.
    + intros t0 Hh. split_thread t0 t; [discriminate|].
      exfalso. two_holders HL2 t0 t E.
    + exact HD.
    + intros t0 Hf. split_thread t0 t; [discriminate|]. eauto.
    + intros t0 Hf. split_thread t0 t; [discriminate|]. eauto.
    + intros t0 c Hc. split_thread t0 t; cbn [set_pc t_pend] in Hc; eauto.
    + intros t0 Hr. split_thread t0 t; [discriminate|]. eauto.
    + exact HA.
Qed.

Lemma run_from_inv : forall sched st, Inv st -> Inv (run_from v_fixed st sched).
Proof.
  induction sched as [|t r IH]; intros st H; [exact H|].
  cbn [run_from fold_left]. apply IH. apply step_inv. exact H.
Qed.

Lemma run_from_app : forall v a b st, run_from v st (a ++ b) = run_from v (run_from v st a) b.
Proof. intros. unfold run_from. apply fold_left_app. Qed.

Theorem reachable_inv : forall progs sched, Inv (run_sched v_fixed progs sched).
Proof. intros. unfold run_sched. apply run_from_inv. apply init_inv. Qed.

(* C08, for every number of connections / flushers, every program, every schedule; stated for every
   prefix of the schedule as well (run_sched of a prefix is a reachable state, and a crash may
   happen after any step). *)
Theorem acked_flushed : forall progs sched c,
  In c (acked (run_sched v_fixed progs sched)) -> In c (file (run_sched v_fixed progs sched)).
Proof. intros progs sched c. apply inv_acked. apply reachable_inv. Qed.

(* the file only grows: what was acknowledged at a crash instant stays in the file *)
Lemma step_file_mono : forall v st t c, In c (file st) -> In c (file (step v st t)).
Proof.
  intros v st t c Hc. unfold step.
  destruct (t_pc (threads st t)); try destruct (v_flusher_store v); try destruct (v_flusher_swap v); try destruct (lock st); try destruct (t_cur (threads st t));
    cbn [file]; auto using in_app_l.
Qed.

Theorem acked_survives : forall progs sched more c,
  In c (acked (run_sched v_fixed progs sched)) ->
  In c (file (run_sched v_fixed progs (sched ++ more))).
Proof.
  intros progs sched more c Hc. apply acked_flushed in Hc.
  unfold run_sched in *. rewrite run_from_app.
  generalize dependent (run_from v_fixed (init v_fixed progs) sched).
  induction more as [|t r IH]; intros st Hc; [exact Hc|].
  cbn [run_from fold_left]. apply IH. apply step_file_mono. exact Hc.
Qed.

Theorem dirty_covers_buf : forall progs sched,
  buf (run_sched v_fixed progs sched) <> [] -> dirty (run_sched v_fixed progs sched) = true.
Proof.
  intros progs sched Hne. pose proof (inv_dirty _ (reachable_inv progs sched)) as HD.
  destruct (dirty (run_sched v_fixed progs sched)); [reflexivity|]. exfalso. apply Hne. apply HD. reflexivity.
Qed.

Theorem lock_exclusive : forall progs sched t1 t2,
  let st := run_sched v_fixed progs sched in
  holds (t_pc (threads st t1)) = true -> holds (t_pc (threads st t2)) = true -> t1 = t2.
Proof.
  intros progs sched t1 t2 st H1 H2.
  pose proof (inv_lock2 _ (reachable_inv progs sched)) as HL2.
  apply HL2 in H1. apply HL2 in H2. fold st in H1, H2. congruence.
Qed.

(* ---- refutations ---- *)

Lemma mem_false_not_in : forall c l, mem c l = false -> ~ In c l.
Proof.
  intros c l Hm Hin. unfold mem in Hm.
  assert (existsb (N.eqb c) l = true).
  { apply existsb_exists. exists c. split; [assumption | apply N.eqb_refl]. }
  congruence.
Qed.

(* clearing the flag after the unlock (the pinned order of netServe): two connections, one command each *)
Theorem store_after_unlock_refuted :
  exists progs sched c,
    In c (acked (run_sched (mkVariant false true false true true false) progs sched)) /\
    ~ In c (file (run_sched (mkVariant false true false true true false) progs sched)).
Proof.
  exists f13_progs, f13_sched, 2%N. split.
  - vm_compute. auto.
  - apply mem_false_not_in. vm_compute. reflexivity.
Qed.

(* no pre-write on the goingLive branch: one connection, no interleaving needed *)
Theorem detach_no_prewrite_refuted :
  exists progs sched c,
    In c (acked (run_sched (mkVariant true false false true true false) progs sched)) /\
    ~ In c (file (run_sched (mkVariant true false false true true false) progs sched)).
Proof.
  exists f13b_progs, f13b_sched, 1%N. split.
  - vm_compute. auto.
  - apply mem_false_not_in. vm_compute. reflexivity.
Qed.

(* both witnesses fail on the pinned tree as well *)
Theorem pinned_refuted :
  exists progs sched c,
    In c (acked (run_sched v_pinned progs sched)) /\ ~ In c (file (run_sched v_pinned progs sched)).
Proof.
  exists f13_progs, f13_sched, 2%N. split.
  - vm_compute. auto.
  - apply mem_false_not_in. vm_compute. reflexivity.
Qed.

(* a flusher that clears the flag before it holds the lock *)
Theorem flusher_swap_refuted :
  exists progs sched c,
    In c (acked (run_sched (mkVariant true true true true true false) progs sched)) /\
    ~ In c (file (run_sched (mkVariant true true true true true false) progs sched)).
Proof.
  exists fswap_progs, fswap_sched, 1%N. split.
  - vm_compute. auto.
  - apply mem_false_not_in. vm_compute. reflexivity.
Qed.

(* a flusher that clears the flag at the start of every round, before it holds the lock *)
Theorem flusher_store_refuted :
  exists progs sched c,
    In c (acked (run_sched (mkVariant true true false true true true) progs sched)) /\
    ~ In c (file (run_sched (mkVariant true true false true true true) progs sched)).
Proof.
  exists fstore_progs, fstore_sched, 1%N. split.
  - vm_compute. auto.
  - apply mem_false_not_in. vm_compute. reflexivity.
Qed.

(* the flag raised by the dispatcher after writeAOF: script writes never raise it *)
Theorem flag_in_dispatcher_refuted :
  exists progs sched c,
    In c (acked (run_sched (mkVariant true true false false true false) progs sched)) /\
    ~ In c (file (run_sched (mkVariant true true false false true false) progs sched)).
Proof.
  exists fdisp_progs, fdisp_sched, 1%N. split.
  - vm_compute. auto.
  - apply mem_false_not_in. vm_compute. reflexivity.
Qed.

(* the goingLive copy unlocking before it clears the flag *)
Theorem detach_store_unlocked_refuted :
  exists progs sched c,
    In c (acked (run_sched (mkVariant true true false true false false) progs sched)) /\
    ~ In c (file (run_sched (mkVariant true true false true false false) progs sched)).
Proof.
  exists fdet_progs, fdet_sched, 2%N. split.
  - vm_compute. auto.
  - apply mem_false_not_in. vm_compute. reflexivity.
Qed.
