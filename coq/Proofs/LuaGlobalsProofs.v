(* Model/LuaGlobals.v: when every global a borrower sets is removed by a deferred statement, or - for the
   WHEREEVAL borrower - by its Close(), which is what Gen/LuaGlobals.v says of the source, then for EVERY
   history of borrow / invoke (leaving normally or by an early return) / return operations of any number
   of borrowers no interpreter in the pool has a global beyond the allow-list. *)
From Coq Require Import String List Bool Arith Lia.
From T38 Require Import Model.Tables Gen.LuaAllow Gen.LuaGlobals Model.LuaGlobals.
Import ListNotations.
Local Open Scope string_scope.
Local Open Scope list_scope.

(* a name is taken off the interpreter again on every way out of fn: by a deferred removal in fn, or - for
   the functions of the WHEREEVAL borrower - by the Close() that puts the interpreter back *)
Definition name_ok (fn nm : string) : bool :=
  removed_by fn true nm || (in_strs fn close_session_fns && in_strs nm close_removes).

(* every global a function sets itself ... *)
Definition entry_ok (e : string * (string * string)) : bool := name_ok (fst e) (fst (snd e)).
(* ... and every name the __newindex guard would let the Lua code of a script-running function create *)
Definition passthrough_ok : bool :=
  forallb (fun fn => forallb (name_ok fn) newindex_passthrough) script_runners.

Lemma source_globals_discipline : forallb entry_ok global_sets = true /\ passthrough_ok = true.
Proof. vm_compute. split; reflexivity. Qed.

(* the guard refuses every name *)
Lemma source_guard_refuses_every_name : newindex_passthrough = [].
Proof. reflexivity. Qed.

Lemma removed_by_early fn nm : removed_by fn true nm = true -> forall early, removed_by fn early nm = true.
Proof.
  unfold removed_by. intros H early. apply existsb_exists in H as [e [Hin He]]. apply existsb_exists. exists e.
  split; [exact Hin|]. cbn [negb] in He. rewrite orb_false_r in He.
  apply andb_true_iff in He as [He Hd]. rewrite He, Hd. reflexivity.
Qed.

Lemma find_b_in l u b : find_b l u = Some b -> In b l /\ b_user b = u.
Proof.
  induction l as [|x l IH]; cbn; [discriminate|].
  destruct (Nat.eqb_spec (b_user x) u) as [E|E].
  - intros H; inversion H; subst. split; [left; reflexivity | reflexivity].
  - intros H. destruct (IH H) as [Hi Hu]. split; [right; exact Hi | exact Hu].
Qed.

Lemma drop_b_in l u b : In b (drop_b l u) -> In b l /\ b_user b <> u.
Proof.
  induction l as [|x l IH]; cbn; [tauto|].
  destruct (Nat.eqb_spec (b_user x) u) as [E|E].
  - intros H. destruct (IH H) as [Hi Hu]. split; [right; exact Hi | exact Hu].
  - intros [<-|H]; [split; [left; reflexivity | exact E]|]. destruct (IH H) as [Hi Hu]. split; [right; exact Hi | exact Hu].
Qed.

Lemma nodup_app_r' {A} (l m : list A) : NoDup (l ++ m) -> NoDup m.
Proof. induction l as [|a l IH]; cbn; [tauto|]. intros H. inversion H; subst. apply IH. assumption. Qed.

Lemma drop_b_nodup l u : NoDup (map b_state l) -> NoDup (map b_state (drop_b l u)).
Proof.
  induction l as [|b l IH]; cbn; intros Hn; [constructor|]. inversion Hn as [|? ? Hb Hl]; subst.
  destruct (Nat.eqb (b_user b) u); [apply IH; exact Hl|]. cbn. constructor; [|apply IH; exact Hl].
  intros Hx. apply in_map_iff in Hx as [b' [Eb' Hb']]. apply Hb. rewrite <- Eb'. apply in_map.
  exact (proj1 (drop_b_in _ _ _ Hb')).
Qed.

Lemma move_b_nodup l u bb :
  NoDup (map b_state l) -> In bb l -> b_user bb = u -> NoDup (b_state bb :: map b_state (drop_b l u)).
Proof.
  induction l as [|a l IH]; intros Hn Hi Hbu; [destruct Hi|].
  cbn in Hn. inversion Hn as [|? ? Hna Hnl]. cbn [drop_b].
  destruct Hi as [Ha|Hi].
  - rewrite Ha, Hbu, Nat.eqb_refl. constructor; [|apply drop_b_nodup; exact Hnl].
    intros Hx. apply in_map_iff in Hx as [b' [Eb' Hb']]. apply Hna. rewrite Ha, <- Eb'. apply in_map.
    exact (proj1 (drop_b_in _ _ _ Hb')).
  - specialize (IH Hnl Hi Hbu). destruct (Nat.eqb_spec (b_user a) u) as [Ea|Ea]; [exact IH|].
    cbn. inversion IH as [|? ? Hh1 Hh2]. constructor.
    + intros [Hx|Hx]; [apply Hna; rewrite Hx; apply in_map; exact Hi | exact (Hh1 Hx)].
    + constructor; [|exact Hh2]. intros Hx. apply in_map_iff in Hx as [b' [Eb' Hb']]. apply Hna.
      rewrite <- Eb'. apply in_map. exact (proj1 (drop_b_in _ _ _ Hb')).
Qed.

Lemma find_b_none l u : find_b l u = None -> forall b, In b l -> b_user b <> u.
Proof.
  induction l as [|x l IH]; cbn; [tauto|].
  destruct (Nat.eqb_spec (b_user x) u) as [E|E]; [discriminate|].
  intros H b [<-|Hb]; [exact E | exact (IH H b Hb)].
Qed.

Lemma drop_b_users l u : NoDup (map b_user l) -> NoDup (map b_user (drop_b l u)).
Proof.
  induction l as [|b l IH]; cbn; intros Hn; [constructor|]. inversion Hn as [|? ? Hb Hl]; subst.
  destruct (Nat.eqb (b_user b) u); [apply IH; exact Hl|]. cbn. constructor; [|apply IH; exact Hl].
  intros Hx. apply in_map_iff in Hx as [b' [Eb' Hb']]. apply Hb. rewrite <- Eb'. apply in_map.
  exact (proj1 (drop_b_in _ _ _ Hb')).
Qed.

Lemma users_unique l b b' : NoDup (map b_user l) -> In b l -> In b' l -> b_user b = b_user b' -> b = b'.
Proof.
  induction l as [|a l IH]; cbn; [tauto|]. intros Hn. inversion Hn as [|? ? Ha Hl]; subst.
  intros [->|Hb] [->|Hb'] E; [reflexivity | | | exact (IH Hl Hb Hb' E)].
  - exfalso. apply Ha. rewrite E. apply in_map. exact Hb'.
  - exfalso. apply Ha. rewrite <- E. apply in_map. exact Hb.
Qed.

Lemma keep_b l u b : In b l -> b_user b <> u -> In b (drop_b l u).
Proof.
  induction l as [|a l IH]; cbn; [tauto|].
  destruct (Nat.eqb_spec (b_user a) u) as [Ea|Ea]; intros [->|Hi] Hne; try congruence.
  - exact (IH Hi Hne).
  - left; reflexivity.
  - right. exact (IH Hi Hne).
Qed.

Definition gstates (p : gpool) : list nat := g_idle p ++ map b_state (g_out p).

(* an extra global is on an interpreter that is out with the Close() borrower, and Close() removes it *)
Definition extra_ok (p : gpool) (q : nat * string) : Prop :=
  exists b, In b (g_out p) /\ b_state b = fst q /\ b_closes b = true /\ in_strs (snd q) close_removes = true.

Record GInv (p : gpool) : Prop := mkGI {
  gi_nodup : NoDup (gstates p);
  gi_users : NoDup (map b_user (g_out p));
  gi_bound : forall x, In x (gstates p) -> x < g_fresh p;
  gi_extra : forall q, In q (g_extra p) -> extra_ok p q }.

Lemma ginv_init n : GInv (ginit n).
Proof.
  constructor; unfold gstates; cbn; rewrite ?app_nil_r.
  - apply seq_NoDup.
  - constructor.
  - intros x H. apply in_seq in H. lia.
  - intros q [].
Qed.

Lemma survivors_close fn early script nm :
  In nm (filter (fun nm => negb (removed_by fn early nm)) (sets_of fn ++ created fn script)) ->
  in_strs fn close_session_fns = true /\ in_strs nm close_removes = true.
Proof.
  intros H. apply filter_In in H as [Hin Hs]. apply negb_true_iff in Hs.
  destruct source_globals_discipline as [D1 D2].
  assert (Hok : name_ok fn nm = true).
  { apply in_app_or in Hin as [Hin|Hin].
    - unfold sets_of in Hin. apply in_map_iff in Hin as [[fn' [k' r']] [E Hin]]. cbn in E. subst k'.
      apply filter_In in Hin as [Hin Hfn]. cbn in Hfn. apply String.eqb_eq in Hfn. subst fn'.
      rewrite forallb_forall in D1. exact (D1 _ Hin).
    - unfold created in Hin. destruct (in_strs fn script_runners) eqn:Er; [|destruct Hin].
      apply in_map_iff in Hin as [a [<- Ha]]. apply filter_In in Ha as [_ Ha].
      apply andb_true_iff in Ha as [_ Hp].
      unfold passthrough_ok in D2. rewrite forallb_forall in D2.
      assert (Hfn : In fn script_runners).
      { unfold in_strs in Er. apply existsb_exists in Er as [y [Hy He]]. apply String.eqb_eq in He. subst y. exact Hy. }
      specialize (D2 _ Hfn). rewrite forallb_forall in D2. apply D2.
      unfold in_strs in Hp. apply existsb_exists in Hp as [y [Hy He]]. apply String.eqb_eq in He. subst y. exact Hy. }
  unfold name_ok in Hok. apply orb_true_iff in Hok as [Hok|Hok].
  - rewrite (removed_by_early _ _ Hok early) in Hs. discriminate.
  - apply andb_true_iff in Hok. exact Hok.
Qed.

Lemma ginv_step p o : GInv p -> GInv (gstep p o).
Proof.
  intros [Hnd Hus Hb He]. destruct o as [u closes|u fn early script|u]; cbn [gstep].
  - destruct (find_b (g_out p) u) eqn:Ef; [constructor; assumption|].
    assert (Hus' : NoDup (u :: map b_user (g_out p))).
    { constructor; [|exact Hus]. intros Hx. apply in_map_iff in Hx as [b [Eb Hb']]. exact (find_b_none _ _ Ef b Hb' Eb). }
    destruct (rev (g_idle p)) as [|x rest] eqn:Er.
    + assert (Hs : g_idle p = []) by (destruct (g_idle p) as [|a l]; [reflexivity | cbn in Er; destruct (rev l); discriminate]).
      unfold gstates in *. rewrite Hs in *. cbn [app] in *.
      constructor; unfold gstates; cbn [g_idle g_fresh g_extra g_gone g_out app map b_state b_user].
      * constructor; [|exact Hnd]. intros Hin. specialize (Hb _ Hin). lia.
      * exact Hus'.
      * intros x [<-|Hin]; [lia|]. specialize (Hb _ Hin). lia.
      * intros q Hq. destruct (He q Hq) as [b [Hi Hr]]. exists b. split; [right; exact Hi | exact Hr].
    + assert (Hl : g_idle p = rev rest ++ [x]) by (rewrite <- (rev_involutive (g_idle p)), Er; reflexivity).
      assert (Hst : g_idle p ++ map b_state (g_out p) = rev rest ++ x :: map b_state (g_out p))
        by (rewrite Hl, <- app_assoc; reflexivity).
      constructor; unfold gstates in *; cbn [g_idle g_fresh g_extra g_gone g_out map b_state b_user].
      * rewrite <- Hst. exact Hnd.
      * exact Hus'.
      * rewrite <- Hst. exact Hb.
      * intros q Hq. destruct (He q Hq) as [b [Hi Hr]]. exists b. split; [right; exact Hi | exact Hr].
  - destruct (find_b (g_out p) u) as [b|] eqn:Ef; [|constructor; assumption].
    destruct (Bool.eqb (in_close_session fn) (b_closes b)) eqn:Es; [|constructor; assumption].
    destruct (find_b_in _ _ _ Ef) as [Hin Hu].
    constructor; unfold gstates in *; cbn [g_idle g_fresh g_extra g_gone g_out]; try assumption.
    intros q Hq. apply in_app_or in Hq as [Hq|Hq]; [|exact (He q Hq)].
    apply in_map_iff in Hq as [k [<- Hkr]]. destruct (survivors_close _ _ _ _ Hkr) as [Hf Hk].
    exists b. cbn. split; [exact Hin|]. split; [reflexivity|]. split; [|exact Hk].
    apply eqb_prop in Es. rewrite <- Es. exact Hf.
  - destruct (find_b (g_out p) u) as [b|] eqn:Ef; [|constructor; assumption].
    destruct (find_b_in _ _ _ Ef) as [Hin Hu].
    assert (Hnd' : NoDup ((g_idle p ++ [b_state b]) ++ map b_state (drop_b (g_out p) u))).
    { unfold gstates in Hnd. pose proof (move_b_nodup _ _ _ (nodup_app_r' _ _ Hnd) Hin Hu) as Hsub.
      rewrite <- app_assoc. cbn [app]. clear He Hb.
      induction (g_idle p) as [|a l IH]; cbn in *; [exact Hsub|].
      inversion Hnd; subst. constructor; [|apply IH; assumption].
      intros Hx. apply H1. apply in_app_or in Hx as [Hx|Hx]; apply in_or_app; [left; exact Hx|].
      right. destruct Hx as [<-|Hx]; [apply in_map; exact Hin|].
      apply in_map_iff in Hx as [b' [<- Hb']]. apply in_map. exact (proj1 (drop_b_in _ _ _ Hb')). }
    constructor; unfold gstates; cbn [g_idle g_fresh g_extra g_gone g_out].
    + exact Hnd'.
    + apply drop_b_users. exact Hus.
    + intros x Hx. apply Hb. unfold gstates. apply in_app_or in Hx as [Hx|Hx].
      * apply in_app_or in Hx as [Hx|[<-|[]]]; apply in_or_app; [left; exact Hx | right; apply in_map; exact Hin].
      * apply in_or_app. right. apply in_map_iff in Hx as [b' [<- Hb']]. apply in_map. exact (proj1 (drop_b_in _ _ _ Hb')).
    + intros q Hq.
      assert (Hq0 : In q (g_extra p)) by (destruct (b_closes b); [apply filter_In in Hq as [Hq _]; exact Hq | exact Hq]).
      destruct (He q Hq0) as [b' [Hi' [Hst' [Hc' Hk']]]].
      destruct (Nat.eq_dec (b_user b') u) as [Hub|Hub].
      * (* the global sits on the interpreter that is going back: Close() has just removed it *)
        exfalso. assert (Hbb : b' = b) by (apply (users_unique _ _ _ Hus Hi' Hin); congruence). subst b'.
        rewrite Hc' in Hq. apply filter_In in Hq as [_ Hq]. rewrite <- Hst', Nat.eqb_refl, Hk' in Hq. discriminate.
      * exists b'. split; [exact (keep_b _ _ _ Hi' Hub) | split; [exact Hst' | split; [exact Hc' | exact Hk']]].
Qed.

Theorem ginv_run n ops : GInv (grun (ginit n) ops).
Proof.
  unfold grun. generalize (ginv_init n). generalize (ginit n).
  induction ops as [|o ops IH]; intros p Hp; cbn [fold_left]; [exact Hp|].
  apply IH. apply ginv_step. exact Hp.
Qed.

Lemma gone_grows_only_by_deletes p ops :
  g_gone p = [] -> (forall u fn early script, In (GInvoke u fn early script) ops -> deleted fn script = []) ->
  g_gone (grun p ops) = [].
Proof.
  unfold grun. revert p. induction ops as [|o ops IH]; intros p Hp Hd; cbn [fold_left]; [exact Hp|].
  apply IH; [|intros u fn early script Hin; apply (Hd u fn early script); right; exact Hin].
  destruct o as [u closes|u fn early script|u]; cbn [gstep].
  - destruct (find_b (g_out p) u); [exact Hp|]. destruct (rev (g_idle p)); exact Hp.
  - destruct (find_b (g_out p) u); [|exact Hp]. destruct (Bool.eqb _ _); [|exact Hp]. cbn.
    rewrite (Hd u fn early script (or_introl eq_refl)). exact Hp.
  - destruct (find_b (g_out p) u); exact Hp.
Qed.

(* an interpreter in the pool has no global beyond the ones lStatePool.New registered - whatever names the
   Lua code of the borrowers tried to assign *)
Theorem idle_interpreters_have_no_extra_globals n ops x :
  In x (g_idle (grun (ginit n) ops)) -> extras_of (g_extra (grun (ginit n) ops)) x = [].
Proof.
  intros Hx. pose proof (ginv_run n ops) as [Hnd _ _ He]. set (p := grun (ginit n) ops) in *.
  unfold extras_of. destruct (filter (fun q => Nat.eqb (fst q) x) (g_extra p)) as [|q l] eqn:Ef; [reflexivity|].
  exfalso. assert (Hq : In q (filter (fun q => Nat.eqb (fst q) x) (g_extra p))) by (rewrite Ef; left; reflexivity).
  apply filter_In in Hq as [Hq Hqx]. apply Nat.eqb_eq in Hqx.
  destruct (He q Hq) as [b [Hi [Hst _]]]. unfold gstates in Hnd.
  clear -Hnd Hx Hi Hst Hqx. induction (g_idle p) as [|a l' IH]; [destruct Hx|].
  cbn in Hnd. inversion Hnd; subst. destruct Hx as [->|Hx]; [|exact (IH Hx H2)].
  apply H1. apply in_or_app. right. rewrite <- Hst. apply in_map. exact Hi.
Qed.

(* ... and, as long as no script sets one of the registered names to nil, exactly those *)
Theorem idle_interpreters_have_allowlist_globals_partial n ops x :
  no_deletes ops -> In x (g_idle (grun (ginit n) ops)) -> globals_of (grun (ginit n) ops) x = base_globals.
Proof.
  intros Hd Hx. unfold globals_of. rewrite (idle_interpreters_have_no_extra_globals n ops x Hx), app_nil_r.
  rewrite (gone_grows_only_by_deletes (ginit n) ops eq_refl Hd). cbn.
  induction base_globals as [|a l IH]; cbn; [reflexivity | rewrite IH; reflexivity].
Qed.

(* without that hypothesis the statement is false: an assignment to a name that EXISTS never reaches the
   __newindex guard. One EVAL `tostring = nil` and the interpreter goes back to the pool without tostring. *)
Theorem idle_interpreters_have_allowlist_globals_refuted :
  exists n ops x, In x (g_idle (grun (ginit n) ops)) /\ globals_of (grun (ginit n) ops) x <> base_globals.
Proof.
  exists 5, [GBorrow 0 false; GInvoke 0 "Server.cmdEvalUnified" false [mkA "tostring" true]; GReturn 0], 4.
  split; [vm_compute; tauto | vm_compute; discriminate].
Qed.
