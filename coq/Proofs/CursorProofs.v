(* C11 — lemmas about Model/Cursor.v: one page, the client loop, the instances. *)
From Coq Require Import List NArith ZArith Bool Lia ZifyN ZifyNat ZifyBool Sorted.
From T38 Require Import Base.Bytes Model.Cursor.
Import ListNotations.
Open Scope N_scope.

Section CursorProofs.
  Context {A : Type}.
  Variable test : A -> bool.
  Variable stop : A -> bool.

  Notation iterate := (iterate test stop).
  Notation page := (page test stop).
  Notation pages_from := (pages_from test stop).
  Notation pages := (pages test stop).
  Notation unlimited := (unlimited test stop).
  Notation until_stop := (until_stop stop).

  Definition no_stop (l : list A) : Prop := forallb (fun o => negb (stop o)) l = true.

  Lemma next_step_eq step (w : sw (A := A)) : next_step step w = sw_step w 1.
  Proof. unfold next_step. destruct (yields step); reflexivity. Qed.

  Lemma unlimited_app pre post :
    no_stop pre -> unlimited (pre ++ post) = filter test pre ++ unlimited post.
  Proof.
    unfold no_stop, Cursor.unlimited. induction pre as [|o pre IH]; cbn [forallb app Cursor.until_stop filter]; intros H.
    - reflexivity.
    - apply andb_prop in H. destruct H as [Ho Hp]. destruct (stop o); [discriminate|].
      cbn [filter]. rewrite (IH Hp). destruct (test o); reflexivity.
  Qed.

  Lemma until_stop_prefix src : exists post, src = until_stop src ++ post.
  Proof.
    induction src as [|o r [post IH]]; cbn [Cursor.until_stop].
    - exists []. reflexivity.
    - destruct (stop o).
      + exists (o :: r). reflexivity.
      + exists post. cbn [app]. f_equal. exact IH.
  Qed.

  (* entries up to the offset are skipped without touching the writer *)
  Lemma iterate_skip limit offset pre : forall rest count w,
    count + N.of_nat (length pre) <= offset ->
    iterate limit offset (pre ++ rest) count w =
    iterate limit offset rest (count + N.of_nat (length pre)) w.
  Proof.
    induction pre as [|o pre IH]; intros rest count w H; cbn [app length Cursor.iterate].
    - f_equal. lia.
    - cbn [length] in H.
      assert (E : (count + 1 <=? offset) = true) by (apply N.leb_le; lia).
      rewrite E. rewrite IH by lia. f_equal. lia.
  Qed.

  (* the part of the run that is past the offset *)
  Lemma iterate_active limit offset : forall rest count w,
    offset <= count -> sw_hit w = false -> sw_items w < limit ->
    let w' := iterate limit offset rest count w in
    (sw_hit w' = false /\ sw_filled w' = sw_filled w ++ unlimited rest)
    \/
    (sw_hit w' = true /\
     exists pre post, rest = pre ++ post /\ pre <> [] /\ no_stop pre /\
       sw_iters w' = sw_iters w + N.of_nat (length pre) /\
       sw_filled w' = sw_filled w ++ filter test pre /\
       sw_items w + N.of_nat (length (filter test pre)) = limit).
  Proof.
    induction rest as [|o rest IH]; intros count w Hoff Hhit Hitems; cbn zeta.
    - left. cbn [Cursor.iterate]. split; [exact Hhit|]. cbv [Cursor.unlimited]. cbn. now rewrite app_nil_r.
    - cbn [Cursor.iterate].
      assert (E : (count + 1 <=? offset) = false) by (apply N.leb_gt; lia).
      rewrite E. rewrite next_step_eq.
      destruct (stop o) eqn:Hs.
      + left. cbn [sw_step sw_hit sw_filled]. split; [exact Hhit|].
        cbv [Cursor.unlimited]. cbn [Cursor.until_stop]. rewrite Hs. cbn. now rewrite app_nil_r.
      + unfold push_object. destruct (test o) eqn:Ht.
        * cbn [sw_step sw_items sw_iters sw_hit sw_filled].
          destruct (sw_items w + 1 =? limit) eqn:El.
          -- right. cbn [sw_hit sw_iters sw_filled sw_items]. split; [reflexivity|].
             exists [o], rest. cbn [app length filter]. rewrite Ht. cbn [length].
             unfold no_stop. cbn [forallb]. rewrite Hs.
             repeat split; try reflexivity; try discriminate.
             apply N.eqb_eq in El. lia.
          -- apply N.eqb_neq in El.
             set (w1 := mkSW (sw_iters w + 1) (sw_items w + 1) (sw_hit w) (sw_filled w ++ [o])).
             specialize (IH (count + 1) w1).
             assert (H1 : offset <= count + 1) by lia.
             assert (H2 : sw_hit w1 = false) by exact Hhit.
             assert (H3 : sw_items w1 < limit) by (subst w1; cbn [sw_items]; lia).
             specialize (IH H1 H2 H3). cbn zeta in IH.
             destruct IH as [[Hh Hf] | [Hh (pre & post & Hr & Hne & Hns & Hi & Hf & Hl)]].
             ++ left. split; [exact Hh|]. rewrite Hf. subst w1. cbn [sw_filled].
                cbv [Cursor.unlimited]. cbn [Cursor.until_stop]. rewrite Hs. cbn [filter]. rewrite Ht.
                rewrite <- app_assoc. reflexivity.
             ++ right. split; [exact Hh|]. exists (o :: pre), post.
                subst w1. cbn [sw_filled sw_iters sw_items] in *.
                cbn [app length filter]. rewrite Ht. cbn [length].
                unfold no_stop in *. cbn [forallb]. rewrite Hs, Hns.
                repeat split.
                ** now rewrite Hr.
                ** discriminate.
                ** rewrite Hi. lia.
                ** rewrite Hf. rewrite <- app_assoc. reflexivity.
                ** lia.
        * set (w1 := sw_step w 1).
          specialize (IH (count + 1) w1).
          assert (H1 : offset <= count + 1) by lia.
          assert (H2 : sw_hit w1 = false) by exact Hhit.
          assert (H3 : sw_items w1 < limit) by exact Hitems.
          specialize (IH H1 H2 H3). cbn zeta in IH.
          destruct IH as [[Hh Hf] | [Hh (pre & post & Hr & Hne & Hns & Hi & Hf & Hl)]].
          -- left. split; [exact Hh|]. rewrite Hf. subst w1. cbn [sw_step sw_filled].
             cbv [Cursor.unlimited]. cbn [Cursor.until_stop]. rewrite Hs. cbn [filter]. rewrite Ht. reflexivity.
          -- right. split; [exact Hh|]. exists (o :: pre), post.
             subst w1. cbn [sw_step sw_filled sw_iters sw_items] in *.
             cbn [app length filter]. rewrite Ht.
             unfold no_stop in *. cbn [forallb]. rewrite Hs, Hns.
             repeat split.
             ++ now rewrite Hr.
             ++ discriminate.
             ++ rewrite Hi. lia.
             ++ exact Hf.
             ++ exact Hl.
  Qed.

  Definition rest_at (src : list A) (c : N) : list A := skipn (N.to_nat c) src.

  (* one query, completely described:
     either the reply cursor is 0 and the reply holds everything the unlimited query returns
     from position `c` on, or the limit was hit after a non-empty stop-free block `pre` of
     entries following position c, the reply is exactly the accepted entries of that block (there
     are `limit` of them) and the reply cursor is the position right after the block. *)
  Lemma page_spec src c limit :
    1 <= limit ->
    (snd (page src c limit) = 0 /\ fst (page src c limit) = unlimited (rest_at src c))
    \/
    (exists pre post, rest_at src c = pre ++ post /\ pre <> [] /\ no_stop pre /\
       snd (page src c limit) = c + N.of_nat (length pre) /\
       fst (page src c limit) = filter test pre /\
       N.of_nat (length (filter test pre)) = limit).
  Proof.
    intros Hl. unfold Cursor.page, rest_at.
    set (w0 := sw_step (mkSW 0 0 false []) c).
    set (pre0 := firstn (N.to_nat c) src). set (rest := skipn (N.to_nat c) src).
    assert (Hlen : N.of_nat (length pre0) <= c).
    { subst pre0. rewrite firstn_length. lia. }
    assert (Hiter : iterate limit c src 0 w0 = iterate limit c rest (0 + N.of_nat (length pre0)) w0).
    { rewrite <- (firstn_skipn (N.to_nat c) src) at 1. fold pre0. fold rest.
      apply iterate_skip. lia. }
    rewrite Hiter. clear Hiter.
    destruct rest as [|o rest'] eqn:Er.
    - left. cbn [Cursor.iterate]. subst w0. cbn. split; reflexivity.
    - assert (Hc : c <= 0 + N.of_nat (length pre0)).
      { subst pre0. rewrite firstn_length.
        assert (length (skipn (N.to_nat c) src) <> 0)%nat by (fold rest; rewrite Er; discriminate).
        rewrite skipn_length in H. lia. }
      pose proof (iterate_active limit c (o :: rest') (0 + N.of_nat (length pre0)) w0 Hc eq_refl) as H.
      assert (Hit : sw_items w0 < limit) by (subst w0; cbn; lia).
      specialize (H Hit). cbn zeta in H.
      destruct H as [[Hh Hf] | [Hh (pre & post & Hr & Hne & Hns & Hi & Hf & Hn)]].
      + left. cbn [fst snd]. rewrite Hh, Hf. subst w0. cbn. split; reflexivity.
      + right. exists pre, post. cbn [fst snd]. rewrite Hh, Hi, Hf. subst w0. cbn [sw_step sw_iters sw_items sw_filled app] in *.
        repeat split; try assumption; lia.
  Qed.

  Lemma skipn_plus : forall b (l : list A) a, skipn (a + b) l = skipn a (skipn b l).
  Proof.
    induction b as [|b IH]; intros l a.
    - rewrite Nat.add_0_r. reflexivity.
    - rewrite Nat.add_succ_r. destruct l as [|x l]; [now rewrite !skipn_nil|]. cbn [skipn]. apply IH.
  Qed.

  Lemma rest_at_advance src c pre post :
    rest_at src c = pre ++ post -> rest_at src (c + N.of_nat (length pre)) = post.
  Proof.
    unfold rest_at. intros H.
    replace (N.to_nat (c + N.of_nat (length pre))) with (length pre + N.to_nat c)%nat by lia.
    rewrite skipn_plus. rewrite H. rewrite skipn_app, skipn_all, Nat.sub_diag. reflexivity.
  Qed.

  (* the client loop terminates within the fuel and its pages concatenate to the rest of the
     unlimited reply *)
  Lemma pages_from_spec limit src : 1 <= limit -> forall fuel c,
    (length src - N.to_nat c < fuel)%nat ->
    exists ps, pages_from fuel src limit c = Pages ps /\ concat ps = unlimited (rest_at src c).
  Proof.
    intros Hl. induction fuel as [|fuel IH]; intros c Hf; [lia|].
    cbn [Cursor.pages_from].
    destruct (page_spec src c limit Hl) as [[Hz Hi] | (pre & post & Hr & Hne & Hns & Hc & Hi & Hn)].
    - destruct (page src c limit) as [items c']. cbn [fst snd] in *. subst c'. cbn [N.eqb].
      exists [items]. split; [reflexivity|]. cbn [concat]. rewrite app_nil_r. exact Hi.
    - destruct (page src c limit) as [items c']. cbn [fst snd] in *.
      assert (Hlp : (1 <= length pre)%nat) by (destruct pre; [congruence | cbn; lia]).
      assert (Hnz : (c' =? 0) = false) by (apply N.eqb_neq; lia).
      rewrite Hnz.
      assert (Hlen : (length pre <= length src - N.to_nat c)%nat).
      { unfold rest_at in Hr. apply (f_equal (@length A)) in Hr. rewrite skipn_length, app_length in Hr. lia. }
      destruct (IH c') as (ps & Hps & Hcat); [lia|].
      rewrite Hps. exists (items :: ps). split; [reflexivity|].
      cbn [concat]. rewrite Hcat, Hr, (unlimited_app _ _ Hns), Hi. f_equal.
      f_equal. subst c'. apply rest_at_advance. exact Hr.
  Qed.

  Theorem pages_complete src limit :
    1 <= limit ->
    exists ps, pages src limit = Pages ps /\ concat ps = unlimited src.
  Proof.
    intros Hl. unfold Cursor.pages.
    destruct (pages_from_spec limit src Hl (S (length src)) 0) as (ps & H1 & H2); [cbn; lia|].
    exists ps. split; [exact H1|]. exact H2.
  Qed.

  Lemma NoDup_prefix (l1 l2 : list A) : NoDup (l1 ++ l2) -> NoDup l1.
  Proof.
    induction l1 as [|x l1 IH]; cbn [app]; intros H; [constructor|].
    inversion H as [|? ? Hx Hr]; subst. constructor; [|now apply IH].
    intros Hin. apply Hx. apply in_or_app. now left.
  Qed.

  (* nothing repeated: on distinct index entries the concatenated pages have no duplicate *)
  Theorem pages_nodup src limit ps :
    1 <= limit -> NoDup src -> pages src limit = Pages ps -> NoDup (concat ps).
  Proof.
    intros Hl Hnd Hp. destruct (pages_complete src limit Hl) as (ps' & H1 & H2).
    rewrite Hp in H1. injection H1 as <-. rewrite H2. unfold Cursor.unlimited.
    apply NoDup_filter. destruct (until_stop_prefix src) as [post E]. rewrite E in Hnd.
    eapply NoDup_prefix. exact Hnd.
  Qed.

  (* a 0 cursor only when nothing remains: the reply with cursor 0 holds everything that the
     unlimited query returns from the position the query started at *)
  Theorem zero_cursor src c limit :
    1 <= limit -> snd (page src c limit) = 0 ->
    fst (page src c limit) = unlimited (rest_at src c).
  Proof.
    intros Hl Hz. destruct (page_spec src c limit Hl) as [[_ Hi] | (pre & post & Hr & Hne & Hns & Hc & Hi & Hn)].
    - exact Hi.
    - destruct pre; [congruence|]. cbn [length] in Hc. lia.
  Qed.

  (* a non-zero cursor: exactly `limit` items were returned, they are the accepted entries of the
     block [c, c'), no early-exit fired inside it, and c < c' <= number of index entries *)
  Theorem nonzero_cursor src c limit :
    1 <= limit -> snd (page src c limit) <> 0 ->
    let c' := snd (page src c limit) in
    c < c' /\ c' <= N.of_nat (length src) /\
    N.of_nat (length (fst (page src c limit))) = limit /\
    fst (page src c limit) = filter test (firstn (N.to_nat (c' - c)) (rest_at src c)) /\
    unlimited (rest_at src c) = fst (page src c limit) ++ unlimited (rest_at src c').
  Proof.
    intros Hl Hz. cbn zeta.
    destruct (page_spec src c limit Hl) as [[Hz' _] | (pre & post & Hr & Hne & Hns & Hc & Hi & Hn)]; [congruence|].
    assert (Hlp : (1 <= length pre)%nat) by (destruct pre; [congruence | cbn; lia]).
    assert (Hlen : (length pre <= length src - N.to_nat c)%nat).
    { unfold rest_at in Hr. apply (f_equal (@length A)) in Hr. rewrite skipn_length, app_length in Hr. lia. }
    rewrite Hc, Hi. repeat split; try lia.
    - rewrite Hr. replace (N.to_nat (c + N.of_nat (length pre) - c)) with (length pre + 0)%nat by lia.
      rewrite firstn_app_2. cbn [firstn]. now rewrite app_nil_r.
    - rewrite (rest_at_advance _ _ _ _ Hr). rewrite Hr. apply unlimited_app. exact Hns.
  Qed.

  (* COUNT with the same cursor and LIMIT = the number of items the item outputs return *)
  Lemma count_iterate_items limit offset : forall src count (w : sw (A := A)),
    sw_hit w = false -> sw_items w < limit -> sw_items w = N.of_nat (length (sw_filled w)) ->
    count_iterate test stop limit offset src count (sw_items w) =
    N.of_nat (length (sw_filled (iterate limit offset src count w))).
  Proof.
    induction src as [|o rest IH]; intros count w Hh Hi Hl; cbn [Cursor.count_iterate Cursor.iterate]; [exact Hl|].
    destruct (count + 1 <=? offset); [now apply IH|].
    rewrite next_step_eq.
    destruct (stop o); [exact Hl|].
    unfold push_object. cbn [sw_step sw_items sw_iters sw_hit sw_filled].
    destruct (test o).
    - destruct (sw_items w + 1 =? limit) eqn:E.
      + apply N.eqb_eq in E. assert (F : (sw_items w + 1 <? limit) = false) by (apply N.ltb_ge; lia).
        rewrite F. cbn [sw_filled]. rewrite app_length. cbn [length]. lia.
      + apply N.eqb_neq in E. assert (F : (sw_items w + 1 <? limit) = true) by (apply N.ltb_lt; lia).
        rewrite F.
        apply (IH (count + 1) (mkSW (sw_iters w + 1) (sw_items w + 1) (sw_hit w) (sw_filled w ++ [o]))); cbn [sw_hit sw_items sw_filled].
        * exact Hh.
        * lia.
        * rewrite app_length. cbn [length]. lia.
    - apply (IH (count + 1) (sw_step w 1)); assumption.
  Qed.

  Theorem count_eq_items src c limit :
    1 <= limit -> count_query test stop src c limit = N.of_nat (length (fst (page src c limit))).
  Proof.
    intros Hl. unfold count_query, Cursor.page. cbn [fst].
    apply (count_iterate_items limit c src 0 (sw_step (mkSW 0 0 false []) c)); cbn; try reflexivity. lia.
  Qed.

  Lemma eff_limit_pos limit : 1 <= eff_limit limit.
  Proof. unfold eff_limit, limit_items. destruct (limit =? 0) eqn:E; [lia|]. apply N.eqb_neq in E. lia. Qed.
End CursorProofs.

(* ---- instances: the concrete iterators ---- *)

Lemma until_stop_false {A} (l : list A) : until_stop (fun _ => false) l = l.
Proof. induction l as [|x r IH]; cbn [until_stop]; [reflexivity | now rewrite IH]. Qed.

(* iterators without an early exit of their own: Scan, SearchValues, SearchValuesRange (whose
   range test precedes the counting), Within / Intersects *)
Theorem pages_no_stop {A} (test : A -> bool) src limit :
  1 <= limit ->
  exists ps, pages test (fun _ => false) src limit = Pages ps /\ concat ps = filter test src.
Proof.
  intros Hl. destruct (pages_complete test (fun _ => false) src limit Hl) as (ps & H1 & H2).
  exists ps. split; [exact H1|]. rewrite H2. unfold unlimited. now rewrite until_stop_false.
Qed.

Lemma filter_rev {A} (f : A -> bool) l : filter f (rev l) = rev (filter f l).
Proof.
  induction l as [|x r IH]; cbn [rev filter]; [reflexivity|].
  rewrite filter_app, IH. cbn [filter]. destruct (f x); cbn [rev]; [reflexivity | now rewrite app_nil_r].
Qed.

(* DESC returns the reverse of ASC, whatever the two LIMITs *)
Theorem scan_desc_rev test ids limit1 limit2 ps1 ps2 :
  1 <= limit1 -> 1 <= limit2 ->
  pages test (fun _ => false) (scan_src false ids) limit1 = Pages ps1 ->
  pages test (fun _ => false) (scan_src true ids) limit2 = Pages ps2 ->
  concat ps2 = rev (concat ps1).
Proof.
  intros H1 H2 P1 P2.
  destruct (pages_no_stop test (scan_src false ids) limit1 H1) as (q1 & E1 & C1).
  destruct (pages_no_stop test (scan_src true ids) limit2 H2) as (q2 & E2 & C2).
  rewrite P1 in E1. rewrite P2 in E2. injection E1 as <-. injection E2 as <-.
  rewrite C1, C2. cbn [scan_src]. apply filter_rev.
Qed.

(* an early exit that, once true, stays true along the order cuts exactly the entries on which
   it is false *)
Lemma filter_none {A} (f : A -> bool) l : (forall y, In y l -> f y = false) -> filter f l = [].
Proof.
  induction l as [|y r IH]; cbn [filter]; intros H; [reflexivity|].
  rewrite (H y (or_introl eq_refl)). apply IH. intros z Hz. apply H. now right.
Qed.

Lemma until_stop_monotone {A} (R : A -> A -> Prop) (stop : A -> bool) l :
  StronglySorted R l -> (forall x y, R x y -> stop x = true -> stop y = true) ->
  until_stop stop l = filter (fun x => negb (stop x)) l.
Proof.
  intros Hs Hm. induction Hs as [|x r Hs IH Hx]; cbn [until_stop filter]; [reflexivity|].
  destruct (stop x) eqn:E; cbn [negb].
  - symmetry. apply filter_none. intros y Hy. rewrite Forall_forall in Hx.
    now rewrite (Hm x y (Hx y Hy) E).
  - now rewrite IH.
Qed.

(* ---- range-limited SCAN (ScanRange) over ascending ids ---- *)
Definition asc_sorted (ids : list bytes) : Prop := StronglySorted (fun a b => bytes_ltb a b = true) ids.

Lemma bytes_leb_ltb_trans a b c : bytes_leb a b = true -> bytes_ltb b c = true -> bytes_leb a c = true.
Proof. intros H1 H2. eapply bytes_leb_trans; [exact H1|]. now apply bytes_ltb_leb. Qed.

Lemma bytes_ltb_negb_leb a b : bytes_ltb a b = negb (bytes_leb b a).
Proof.
  unfold bytes_leb, bytes_ltb. rewrite (bytes_cmp_antisym a b). destruct (bytes_cmp a b); reflexivity.
Qed.

Lemma filter_filter {A} (f g : A -> bool) l : filter f (filter g l) = filter (fun x => g x && f x) l.
Proof.
  induction l as [|x r IH]; cbn [filter]; [reflexivity|].
  destruct (g x); cbn [filter andb]; [destruct (f x); now rewrite IH | exact IH].
Qed.

Lemma filter_all {A} (f : A -> bool) l : (forall y, In y l -> f y = true) -> filter f l = l.
Proof.
  induction l as [|y r IH]; cbn [filter]; intros H; [reflexivity|].
  rewrite (H y (or_introl eq_refl)). f_equal. apply IH. intros z Hz. apply H. now right.
Qed.

Lemma ascend_from_sorted start ids :
  asc_sorted ids -> ascend_from start ids = filter (fun x => bytes_leb start x) ids.
Proof.
  induction 1 as [|x r Hs IH Hx]; cbn [ascend_from filter]; [reflexivity|].
  destruct (bytes_leb start x) eqn:E; [|exact IH].
  f_equal. symmetry. apply filter_all. intros y Hy. rewrite Forall_forall in Hx.
  eapply bytes_leb_ltb_trans; [exact E | exact (Hx y Hy)].
Qed.

Lemma SS_filter {A} (R : A -> A -> Prop) f l : StronglySorted R l -> StronglySorted R (filter f l).
Proof.
  induction 1 as [|x r Hs IH Hx]; cbn [filter]; [constructor|].
  destruct (f x); [|exact IH]. constructor; [exact IH|].
  rewrite Forall_forall in *. intros y Hy. apply filter_In in Hy. now apply Hx.
Qed.

Lemma SS_app {A} (R : A -> A -> Prop) l1 l2 :
  StronglySorted R l1 -> StronglySorted R l2 -> (forall a b, In a l1 -> In b l2 -> R a b) ->
  StronglySorted R (l1 ++ l2).
Proof.
  induction 1 as [|x r Hs IH Hx]; cbn [app]; intros H2 H; [exact H2|].
  constructor.
  - apply IH; [exact H2|]. intros a b Ha Hb. apply H; [now right | exact Hb].
  - rewrite Forall_forall in *. intros y Hy. apply in_app_or in Hy. destruct Hy as [Hy|Hy].
    + now apply Hx.
    + apply H; [now left | exact Hy].
Qed.

Lemma SS_rev {A} (R : A -> A -> Prop) l :
  StronglySorted R l -> StronglySorted (fun a b => R b a) (rev l).
Proof.
  induction 1 as [|x r Hs IH Hx]; cbn [rev]; [constructor|].
  apply SS_app; [exact IH | repeat constructor |].
  intros a b Ha Hb. destruct Hb as [<-|[]]. rewrite Forall_forall in Hx. apply Hx. now apply in_rev.
Qed.

(* the ids a range-limited scan is meant to deliver *)
Definition in_range (desc : bool) (start end_ : bytes) (x : bytes) : bool :=
  if desc then bytes_leb x start && bytes_ltb end_ x
  else bytes_leb start x && bytes_ltb x end_.

Theorem scan_range_pages test desc start end_ ids limit :
  asc_sorted ids -> 1 <= limit ->
  exists ps, pages test (scan_range_stop desc end_) (scan_range_src desc start ids) limit = Pages ps /\
             concat ps = filter test (scan_src desc (filter (in_range desc start end_) ids)).
Proof.
  intros Hs Hl.
  destruct (pages_complete test (scan_range_stop desc end_) (scan_range_src desc start ids) limit Hl)
    as (ps & H1 & H2).
  exists ps. split; [exact H1|]. rewrite H2. unfold unlimited. f_equal.
  destruct desc; cbn [scan_range_src scan_src].
  - unfold descend_from.
    rewrite (until_stop_monotone (fun a b => bytes_ltb b a = true)).
    + rewrite filter_rev, filter_filter. f_equal. apply filter_ext. intros x.
      unfold in_range, scan_range_stop. now rewrite bytes_ltb_negb_leb.
    + apply SS_rev. apply SS_filter. exact Hs.
    + unfold scan_range_stop. intros x y Hxy Hx.
      eapply bytes_leb_trans; [apply bytes_ltb_leb; exact Hxy | exact Hx].
  - rewrite (ascend_from_sorted _ _ Hs).
    rewrite (until_stop_monotone (fun a b => bytes_ltb a b = true)).
    + rewrite filter_filter. apply filter_ext. intros x.
      unfold in_range, scan_range_stop. now rewrite bytes_ltb_negb_leb.
    + apply SS_filter. exact Hs.
    + unfold scan_range_stop. intros x y Hxy Hx. eapply bytes_leb_ltb_trans; eauto.
Qed.

(* ---- NEARBY with a radius: on a distance-sorted kNN order (C13) the radius cut is exact ---- *)
Theorem nearby_pages test max_dist order limit :
  StronglySorted (fun a b : bytes * Z => (snd a <= snd b)%Z) order -> 1 <= limit ->
  exists ps, pages test (nearby_stop max_dist) order limit = Pages ps /\
             concat ps = filter test (filter (fun e => negb (nearby_stop max_dist e)) order).
Proof.
  intros Hs Hl.
  destruct (pages_complete test (nearby_stop max_dist) order limit Hl) as (ps & H1 & H2).
  exists ps. split; [exact H1|]. rewrite H2. unfold unlimited. f_equal.
  apply (until_stop_monotone _ _ _ Hs).
  unfold nearby_stop. intros x y Hxy Hx. lia.
Qed.

(* ---- the COUNT shortcut (no filter, no early exit): index size minus cursor, capped by LIMIT ---- *)
Ltac ltb_cases :=
  repeat match goal with
  | |- context [?a <? ?b] => destruct (N.ltb_spec a b)
  | |- context [?a <=? ?b] => destruct (N.leb_spec a b)
  | H : context [?a <? ?b] |- _ => destruct (N.ltb_spec a b)
  end.

Lemma count_iterate_all {A} limit offset : forall (src : list A) count n,
  n < limit ->
  count_iterate (fun _ => true) (fun _ => false) limit offset src count n =
  (if limit <? n + (N.of_nat (length src) - (offset - count)) then limit
   else n + (N.of_nat (length src) - (offset - count))).
Proof.
  induction src as [|o rest IH]; intros count n Hn; cbn [count_iterate].
  - cbn [length]. ltb_cases; lia.
  - destruct (N.leb_spec (count + 1) offset) as [E|E].
    + rewrite IH by exact Hn. cbn [length]. ltb_cases; lia.
    + destruct (N.ltb_spec (n + 1) limit) as [F|F].
      * rewrite IH by exact F. cbn [length]. ltb_cases; lia.
      * cbn [length]. ltb_cases; lia.
Qed.

Theorem count_shortcut_exact {A} (src : list A) cursor limit :
  1 <= limit ->
  count_shortcut src cursor limit = count_query (fun _ => true) (fun _ => false) src cursor limit.
Proof.
  intros Hl. unfold count_query, count_shortcut. rewrite count_iterate_all by lia. cbn zeta.
  set (t := N.of_nat (length src)).
  destruct (N.leb_spec t cursor); destruct (N.ltb_spec limit (0 + (t - (cursor - 0)))).
  all: try (destruct (N.ltb_spec limit 0); lia).
  all: destruct (N.ltb_spec limit (t - cursor)); lia.
Qed.
