(* Proofs/KsLive.v — corollaries of the keyspace invariant (Proofs/KsInv.v, Proofs/KsProgram.v: C01) that
   property C19 needs at the server level: in every state reachable by keyspace commands — refused,
   malformed and negative ones included — the registered collections are exactly the keys from which
   GET retrieves at least one object, so KEYS *, TYPE and the collection count (s.cols.Len() =
   SERVER num_collections) equal their recomputation from the retrievable objects. *)
From Coq Require Import String.
From Coq Require Import ZifyN ZifyNat ZifyBool Sorted.
From T38 Require Import Base.Bytes Base.SMap Model.Field Model.Object Model.Glob Model.Spec Model.Keyspace
  Proofs.GlobProofs Proofs.KsField Proofs.KsInv Proofs.KsRefine Proofs.KsProgram.
Import ListNotations.

(* a registered collection that holds an object, and the keys of those *)
Definition has_object (c : col) : bool := match c with [] => false | _ => true end.
Definition live_keys (s : state) : list bytes := keys (filter (fun kc : bytes * col => has_object (snd kc)) s).

Lemma keys_get {V} k (m : smap V) : In k (keys m) <-> exists v, get k m = Some v.
Proof.
  induction m as [|[k' v] r IH]; cbn.
  - split; [intros [] | intros [v H]; discriminate].
  - destruct (bytes_eqb k k') eqn:E.
    + split; [eauto|]. intros _. left. apply bytes_eqb_eq in E. auto.
    + split.
      * intros [H|H]; [subst; rewrite bytes_eqb_refl in E; discriminate | apply IH; exact H].
      * intros H. right. apply IH. exact H.
Qed.

Section Live.
Variable O : oracle.

(* what is retrievable from key k: GET k id answers an object for some id (find = cmdGet's lookup) *)
Definition retrievable_from (s : state) (k : bytes) : Prop := exists id o, find s k id = Some o.

Theorem registered_iff_retrievable s : Reach O s -> forall k, In k (keys s) <-> retrievable_from s k.
Proof.
  intros Hr k. unfold retrievable_from, find. split.
  - intros Hin. apply keys_get in Hin as [c Hg]. pose proof (nonempty_cols O s Hr k c Hg) as Hne.
    destruct c as [|[id o] r]; [contradiction|]. exists id, o. rewrite Hg. cbn. rewrite bytes_eqb_refl. reflexivity.
  - intros (id & o & H). destruct (get k s) as [c|] eqn:Hg; [|discriminate]. apply keys_get. eauto.
Qed.

Lemma live_all_forall (s : state) : Forall col_ok s -> filter (fun kc : bytes * col => has_object (snd kc)) s = s.
Proof.
  intros HF. induction HF as [|kc l Hk HF IH]; cbn; [reflexivity|].
  destruct Hk as [Hne _]. destruct kc as [k c]. cbn [snd] in *. destruct c as [|x c]; [contradiction|].
  cbn [has_object]. rewrite IH. reflexivity.
Qed.

Lemma live_all s : Reach O s -> filter (fun kc : bytes * col => has_object (snd kc)) s = s.
Proof. intros Hr. apply live_all_forall. exact (proj2 (reach_inv O s Hr)). Qed.

Theorem live_keys_all s : Reach O s -> live_keys s = keys s /\ length s = length (live_keys s).
Proof.
  intros Hr. unfold live_keys. rewrite (live_all s Hr). split; [reflexivity|]. unfold keys. rewrite map_length. reflexivity.
Qed.

Lemma filter_true {A} (f : A -> bool) l : (forall x, f x = true) -> filter f l = l.
Proof. intros H. induction l as [|a l IH]; cbn; [reflexivity|]. rewrite H, IH. reflexivity. Qed.

(* KEYS * (the request dispatch produces for it) lists exactly the keys holding a retrievable object *)
Theorem keys_star_listing e s : Reach O s ->
  run_req O true e s (QKeys [STAR]) = Some (s, RArr (map RBulk (live_keys s)), false).
Proof.
  intros Hr. cbn [run_req]. unfold range_scan.
  change (unlimited (parse [STAR] false)) with true. cbv iota.
  rewrite filter_true; [|intros k; unfold matchesb; rewrite match_star; reflexivity].
  rewrite (proj1 (live_keys_all s Hr)). reflexivity.
Qed.

(* TYPE key: "hash" iff something is retrievable from the key, "none" otherwise *)
Theorem type_reply e s k : Reach O s ->
  (retrievable_from s k -> run_req O true e s (QType k) = Some (s, ROk str_hash, false)) /\
  (~ retrievable_from s k -> run_req O true e s (QType k) = Some (s, ROk str_none, false)).
Proof.
  intros Hr. pose proof (registered_iff_retrievable s Hr k) as Hk. cbn [run_req]. split; intros H.
  - apply Hk in H. apply keys_get in H as [c Hg]. rewrite Hg. reflexivity.
  - destruct (get k s) as [c|] eqn:Hg; [|reflexivity]. exfalso. apply H, Hk, keys_get. eauto.
Qed.

(* programs: every command line with its own environment, any argument list (so every refused,
   malformed or negative command is a step of some program) *)
Lemma run_reach p : forall s sf rs, Reach O s -> run O true s p = Some (sf, rs) -> Reach O sf.
Proof.
  induction p as [|[e args] p IH]; intros s sf rs Hr H; cbn [run] in H.
  - inversion H; subst. exact Hr.
  - destruct (exec O true e s args) as [s' r log|] eqn:Ex; [|discriminate].
    destruct (run O true s' p) as [[sf' rs']|] eqn:Er; [|discriminate]. inversion H; subst.
    eapply IH; [|exact Er]. eapply reach_step; eauto.
Qed.

Theorem program_keys_live p sf rs : run O true [] p = Some (sf, rs) ->
  (forall k, In k (keys sf) <-> retrievable_from sf k) /\
  length sf = length (live_keys sf) /\
  (forall e, run_req O true e sf (QKeys [STAR]) = Some (sf, RArr (map RBulk (live_keys sf)), false)) /\
  (forall e k, ~ retrievable_from sf k -> run_req O true e sf (QType k) = Some (sf, ROk str_none, false)).
Proof.
  intros H. pose proof (run_reach p [] sf rs (reach_init O) H) as Hr.
  split; [exact (registered_iff_retrievable sf Hr)|]. split; [exact (proj2 (live_keys_all sf Hr))|].
  split; [intros e; exact (keys_star_listing e sf Hr)|]. intros e k. exact (proj2 (type_reply e sf k Hr)).
Qed.

End Live.

(* ---------- a concrete program of refused writes on fresh keys ---------- *)
Definition w_path_refused : bytes := Eval compute in bs "path cannot be empty".
(* an oracle whose sjson.Set refuses the empty path, as the pinned sjson does *)
Definition refusing_oracle : oracle :=
  mkOracle toy_foracle (fun _ => true) (fun _ => 1000000000%Z) (fun _ => None) (fun _ => None) (fun s => s)
           (fun k args => GOk (mkGeo true (concat args))) (fun _ => []) (fun _ => []) (fun _ _ => [])
           (fun _ j path v => if isempty path then OErr w_path_refused else OOk v) (fun j _ => OOk j) (fun _ _ _ => None).

Definition w_err_path_refused : bytes := Eval compute in bs "ERR path cannot be empty".
Definition w_JSET : bytes := Eval compute in bs "JSET".
Definition w_EXPIRE : bytes := Eval compute in bs "EXPIRE".
Definition w_SETw : bytes := Eval compute in bs "SET".
Definition w_p : bytes := Eval compute in bs "p".
Definition refused_prog : list step :=
  [(toy_env 5, [w_JSET; w_k; w_a; []; w_1]);                       (* refused: empty path, key does not exist *)
   (toy_env 5, [w_SETw; w_k; w_a; w_XX; w_POINT; w_1; w_1]);       (* refused: XX on a missing key *)
   (toy_env 5, [w_SETw; w_k; w_a; w_POINT; w_1]);                  (* refused: bad arguments after the key *)
   (toy_env 5, [w_FSET; w_k; w_a; w_speed; w_1]);                  (* refused: key not found *)
   (toy_env 5, [w_EXPIRE; w_k; w_a; w_1]);                         (* refused: key not found *)
   (toy_env 5, [w_JSET; w_g; w_b; w_p; w_1])].                     (* accepted *)

Lemma refused_prog_run :
  exists sf rs, run refusing_oracle true [] refused_prog = Some (sf, rs) /\ keys sf = [w_g] /\
    live_keys sf = [w_g] /\ nth 0 rs RNil = RErr w_err_path_refused /\
    nth 5 rs RNil = ROk str_OK.
Proof. eexists. eexists. split; [vm_compute; reflexivity|]. vm_compute. repeat split. Qed.
