(* The load never stops on a log whose records were all written by a live server — provided every
   error a LOGGED command can return in ANOTHER state is one commandErrIsFatal tolerates.

   "Another state" is the point: a log that is the exact history of the accepted commands replays
   without any error, but after an AOFSHRINK the file is  snapshot ++ tail  where the tail holds the
   commands accepted WHILE the snapshot was taken; they were accepted against the state before the
   snapshot and are replayed on top of a snapshot that may already contain later effects (the object
   they touched is gone, the collection was dropped, ...). *)
From Coq Require Import List Bool.
From T38 Require Import Base.Bytes Model.Replay Model.ReplayTol.
Import ListNotations.

Section ReplayTolProofs.
Variable S : Type.
Variable err : Type.
Variable exec : S -> cmd -> S * bool * option err.
Variable fatal : err -> bool.
Variable good : S -> Prop.             (* the state invariant (every state for the generic theorems) *)

Notation xstate := (xstate S err exec).
Notation xupd := (xupd S err exec).
Notation xerr := (xerr S err exec).
Notation load := (load S err exec fatal).
Notation apply_all := (apply_all S err exec).
Notation harmless := (harmless err fatal).
Notation logged := (logged S err exec good).

(* Model/Replay.v's view of the same server: state and `updated` only *)
Definition exec2 (s : S) (c : cmd) : S * bool := fst (exec s c).

Lemma apply_all_replay l : forall s, apply_all l s = replay S exec2 l s.
Proof. induction l as [|c l IH]; intros s; [reflexivity|]. cbn. apply IH. Qed.

Hypothesis good_step : forall s c, good s -> good (xstate s c).

(* THE OBLIGATION on the command semantics and on commandErrIsFatal together *)
Hypothesis logged_harmless : forall c, logged c -> forall s', good s' -> harmless (xerr s' c) = true.

Lemma load_total l : Forall logged l -> forall s0, good s0 -> load l s0 = inl (apply_all l s0).
Proof.
  induction 1 as [|c l Hc Hl IH]; intros s0 Hg; [reflexivity|].
  cbn [ReplayTol.load ReplayTol.apply_all fold_left].
  pose proof (logged_harmless c Hc s0 Hg) as Hh. unfold ReplayTol.harmless in Hh.
  destruct (xerr s0 c) as [x|].
  - destruct (fatal x); [discriminate|]. apply IH. apply good_step; exact Hg.
  - apply IH. apply good_step; exact Hg.
Qed.

(* every record of the log of a program was logged in a good state *)
Lemma logof_logged p : forall s0, good s0 -> Forall logged (logof S exec2 p s0).
Proof.
  induction p as [|c p IH]; intros s0 Hg; [constructor|].
  cbn [logof]. destruct (exec2 s0 c) as [s' upd] eqn:E.
  assert (Hs : xstate s0 c = s') by (unfold ReplayTol.xstate; unfold exec2 in E; rewrite E; reflexivity).
  assert (Hg' : good s') by (rewrite <- Hs; apply good_step; exact Hg).
  destruct upd.
  - constructor; [|apply IH; exact Hg'].
    exists s0. split; [exact Hg|]. unfold ReplayTol.xupd. unfold exec2 in E. rewrite E. reflexivity.
  - apply IH; exact Hg'.
Qed.

(* the plain log: start-up on the log of any program goes through and yields the replay *)
Theorem load_log_total p s0 : good s0 ->
  load (logof S exec2 p s0) s0 = inl (replay S exec2 (logof S exec2 p s0) s0).
Proof.
  intros Hg. rewrite load_total; [rewrite apply_all_replay; reflexivity | apply logof_logged; exact Hg | exact Hg].
Qed.

(* the rewritten log: a snapshot (records a server can have written: each of them was `updated` in
   some state) followed by the log of the commands run from ANY state smid (the state the live server
   was in when the rewrite started) — loaded from ANY state s0 — goes through *)
Theorem load_shrunk_total snap p smid s0 :
  Forall logged snap -> good smid -> good s0 ->
  load (snap ++ logof S exec2 p smid) s0 = inl (apply_all (snap ++ logof S exec2 p smid) s0).
Proof.
  intros Hs Hm Hg. apply load_total; [|exact Hg].
  apply Forall_app. split; [exact Hs | apply logof_logged; exact Hm].
Qed.

End ReplayTolProofs.

(* the converse, for any command semantics and any classification: if the first l1 records load and
   the next one returns an error classified fatal, the server does not start *)
Lemma load_stops S err exec fatal l1 c l2 : forall s0 s1 x,
  load S err exec fatal l1 s0 = inl s1 -> xerr S err exec s1 c = Some x -> fatal x = true ->
  load S err exec fatal (l1 ++ c :: l2) s0 = inr x.
Proof.
  induction l1 as [|d l1 IH]; intros s0 s1 x Hl He Hf.
  - cbn in Hl. inversion Hl; subst. cbn. rewrite He, Hf. reflexivity.
  - cbn [app ReplayTol.load] in *. destruct (xerr S err exec s0 d) as [y|].
    + destruct (fatal y); [discriminate|]. eapply IH; eauto.
    + eapply IH; eauto.
Qed.
