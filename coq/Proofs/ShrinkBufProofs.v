(* C09 — lemmas about Model/ShrinkBuf.v (AOFSHRINK and the write buffer).

   1. the final section of the source reads back as Shrink.final_ops / Shrink.cp_index
   2. the swap: with final_ops the buffer is empty afterwards and the open file is snapshot ++ shrinklog
      (all states, RENAME included); buffer at every crash point
   3. invariant of every schedule without RENAME: file ++ buffer replays to the live dataset
   4. the final section without its flush: refuted *)
From Coq Require Import String.
From Coq Require Import List NArith ZArith Bool Lia.
From T38 Require Import Base.Bytes Base.SMap Gen.Consts Model.Shrink Model.ShrinkBuf Proofs.ShrinkProofs.
Import ListNotations.
Local Open Scope nat_scope.

(* ------------------------------------------------------------------ 1. transcription *)

Theorem final_section_transcribed : final_ops_src = final_ops /\ final_marks_src = final_marks.
Proof. split; vm_compute; reflexivity. Qed.

(* ------------------------------------------------------------------ 2. the swap *)

Theorem swap_log_exact mk mi g b :
  r_shrinking (b_run b) = true -> sh_done (r_sh (b_run b)) = true -> b_reset b = false ->
  let b' := bstep mk mi final_ops g b BFinal in
  b_buf b' = [] /\ b_file b' = newfile (b_run b) /\ b_run b' = end_rewrite (b_run b) /\ b_reset b' = false.
Proof.
  intros Hs Hd Hr. cbn [bstep]. unfold final_with. rewrite Hs, Hd, Hr, andb_false_r. cbn. repeat split.
Qed.

Theorem swap_log_exact_src mk mi b :
  r_shrinking (b_run b) = true -> sh_done (r_sh (b_run b)) = true -> b_reset b = false ->
  let b' := bstep mk mi final_ops_src final_guard_src b BFinal in
  blog b' = newfile (b_run b) /\ b_buf b' = [].
Proof.
  intros Hs Hd Hr. rewrite (proj1 final_section_transcribed).
  destruct (swap_log_exact mk mi final_guard_src b Hs Hd Hr) as [Hb [Hf _]]. cbv zeta in *.
  unfold blog. rewrite Hb, Hf, app_nil_r. split; reflexivity.
Qed.

(* the dataset was reset under the rewrite: the final section gives up, the open log stays what it is *)
Theorem reset_aborts mk mi ops b :
  r_shrinking (b_run b) = true -> sh_done (r_sh (b_run b)) = true -> b_reset b = true ->
  let b' := bstep mk mi ops true b BFinal in
  b_file b' = b_file b /\ b_buf b' = b_buf b /\ b_run b' = end_rewrite (b_run b) /\ b_reset b' = false.
Proof. intros Hs Hd Hr. cbn [bstep]. unfold final_with. rewrite Hs, Hd, Hr. cbn. repeat split. Qed.

Lemma guard_transcribed : final_guard_src = true.
Proof. vm_compute. reflexivity. Qed.

(* not at the right moment: nothing happens *)
Lemma final_not_ready mk mi ops g b :
  r_shrinking (b_run b) && sh_done (r_sh (b_run b)) = false -> bstep mk mi ops g b BFinal = b.
Proof. intros H. cbn [bstep]. unfold final_with. rewrite H. reflexivity. Qed.

(* the directory part is Shrink.crash_at; past the first operation the buffer is empty; the file that
   is moved aside holds everything accepted before the swap, once *)
Theorem crash_buffer fi c :
  fst (crash_atb fi c) = crash_at fi c /\
  (c <> CP_final_locked -> snd (crash_atb fi c) = []) /\
  d_bak (fst (crash_atb fi CP_after_rename_bak)) = Some (f_live fi ++ f_pend fi).
Proof.
  destruct fi as [lv pd sn sl].
  destruct c; unfold crash_atb, crash_at, dir_start; cbn; (split; [reflexivity | split; [congruence || reflexivity | reflexivity]]).
Qed.

(* ------------------------------------------------------------------ 3. file ++ buffer replays to the live dataset *)

Lemma same_data_trans a b c : same_data a b -> same_data b c -> same_data a c.
Proof. intros H1 H2 k i. rewrite H1. apply H2. Qed.

Lemma same_data_sym a b : same_data a b -> same_data b a.
Proof. intros H k i. symmetry. apply H. Qed.

Lemma exec_same_data a b c : wf a -> wf b -> nr_cmd c = true -> same_data a b ->
  same_data (fst (exec a c)) (fst (exec b c)).
Proof. intros Ha Hb Hc H k i. rewrite !exec_lookup by assumption. rewrite (H k i). reflexivity. Qed.

Lemma exec_unlogged_same s c : wf s -> nr_cmd c = true -> logged (snd (exec s c)) = false ->
  same_data (fst (exec s c)) s.
Proof. intros Hwf Hc Hl k i. rewrite exec_lookup by assumption. apply exec_unlogged; assumption. Qed.

Lemma not_rename_nr c : is_rename (W c) = false -> nr_cmd c = true.
Proof. destruct c; cbn; congruence. Qed.

Lemma do_ev_W mk mi r c :
  r_live (do_ev mk mi r (W c)) = fst (exec (r_live r) c) /\
  r_shrinking (do_ev mk mi r (W c)) = r_shrinking r.
Proof. cbn [do_ev]. destruct (exec (r_live r) c) as [s' o]. split; reflexivity. Qed.

Lemma do_ev_live_other mk mi r e : (forall c, e <> W c) -> r_live (do_ev mk mi r e) = r_live r.
Proof.
  intros H. destruct e as [c| |]; [exfalso; eapply H; reflexivity | reflexivity |].
  cbn [do_ev]. unfold request. destruct (r_shrinking r); reflexivity.
Qed.

Section Inv.
Variables mk mi : nat.

(* the rewrite that is running was started on a well-formed dataset and has seen no RENAME *)
Definition ghost (r : run) : Prop :=
  r_shrinking r = true ->
  exists s1 sched1, wf s1 /\ no_rename sched1 = true /\ r = run_sched mk mi sched1 (run_init s1).

Definition binv (b : bsrv) : Prop :=
  wf (r_live (b_run b)) /\ forallb nr_cmd (blog b) = true /\
  same_data (replay (blog b) []) (r_live (b_run b)) /\ (b_reset b = false -> ghost (b_run b)).

Lemma ghost_idle r : r_shrinking r = false -> ghost r.
Proof. intros H H'. congruence. Qed.

Lemma keep_reset_false b : keep_reset b = false -> b_reset b = false -> ghost (b_run b) -> ghost (b_run b).
Proof. auto. Qed.

Lemma ghost_ev r e : wf (r_live r) -> is_rename e = false -> ghost r -> ghost (do_ev mk mi r e).
Proof.
  intros Hwf He Hg Hs'. destruct (r_shrinking r) eqn:Hs.
  - destruct (Hg Hs) as [s1 [sched1 [H1 [H2 H3]]]].
    exists s1, (sched1 ++ [e]). split; [exact H1|]. split.
    + unfold no_rename in *. rewrite forallb_app, H2. cbn. rewrite He. reflexivity.
    + unfold run_sched. rewrite fold_left_app. cbn [fold_left]. fold (run_sched mk mi sched1 (run_init s1)).
      rewrite <- H3. reflexivity.
  - destruct e as [c| |].
    + destruct (do_ev_W mk mi r c) as [_ H]. rewrite H, Hs in Hs'. discriminate.
    + cbn in Hs'. rewrite Hs in Hs'. discriminate.
    + exists (r_live r), []. split; [exact Hwf|]. split; [reflexivity|].
      cbn [do_ev]. unfold request. rewrite Hs. reflexivity.
Qed.

Lemma ghost_of_keep b : (b_reset b = false -> ghost (b_run b)) -> keep_reset b = false -> ghost (b_run b).
Proof.
  intros Hg Hk. unfold keep_reset in Hk. apply andb_false_iff in Hk. destruct Hk as [Hk|Hk].
  - apply ghost_idle; exact Hk.
  - apply Hg; exact Hk.
Qed.

Lemma binv_step b e : negb (is_rename_b e) = true -> binv b -> binv (bstep mk mi final_ops true b e).
Proof.
  intros He [Hwf [Hnr [Hsd Hg]]]. apply negb_true_iff in He.
  destruct e as [e| | |].
  - (* BE *) cbn [is_rename_b] in He.
    destruct e as [c| |].
    + (* writer *)
      pose proof (not_rename_nr c He) as Hc.
      destruct (do_ev_W mk mi (b_run b) c) as [Hl Hsh].
      cbn [bstep]. unfold binv, blog. cbn [b_run b_file b_buf b_reset]. rewrite Hl.
      split; [apply exec_wf; exact Hwf|].
      assert (HX : wf (replay (blog b) [])) by (apply replay_wf, wf_nil).
      destruct (logged (snd (exec (r_live (b_run b)) c))) eqn:Hlog.
      * split; [unfold blog in Hnr; rewrite app_assoc, forallb_app, Hnr; cbn; rewrite Hc; reflexivity|].
        split; [|intros Hk; apply ghost_ev; [assumption|assumption|apply ghost_of_keep; assumption]].
        rewrite app_assoc, replay_app. cbn [replay]. apply exec_same_data; assumption.
      * split; [exact Hnr|]. split; [|intros Hk; apply ghost_ev; [assumption|assumption|apply ghost_of_keep; assumption]].
        eapply same_data_trans; [exact Hsd|]. apply same_data_sym, exec_unlogged_same; assumption.
    + (* a locked section of the scan *)
      cbn [bstep]. unfold binv, blog. cbn [b_run b_file b_buf b_reset].
      rewrite (do_ev_live_other mk mi (b_run b) Step) by congruence.
      split; [exact Hwf|]. split; [exact Hnr|]. split; [exact Hsd|].
      intros Hk; apply ghost_ev; [assumption|assumption|apply ghost_of_keep; assumption].
    + (* request *)
      cbn [bstep]. unfold binv, blog. cbn [b_run b_file b_buf b_reset].
      rewrite (do_ev_live_other mk mi (b_run b) Req) by congruence.
      split; [exact Hwf|]. split; [exact Hnr|]. split; [exact Hsd|].
      intros Hk; apply ghost_ev; [assumption|assumption|apply ghost_of_keep; assumption].
  - (* flush *)
    cbn [bstep]. unfold binv, blog in *. cbn [b_run b_file b_buf b_reset]. rewrite app_nil_r.
    split; [exact Hwf|]. split; [exact Hnr|]. split; [exact Hsd|]. exact Hg.
  - (* the final section *)
    destruct (r_shrinking (b_run b) && sh_done (r_sh (b_run b))) eqn:Hc.
    + apply andb_true_iff in Hc. destruct Hc as [Hs Hd].
      destruct (b_reset b) eqn:Hr.
      * (* the dataset was reset: the rewrite gives up *)
        destruct (reset_aborts mk mi final_ops b Hs Hd Hr) as [Hf [Hb [Hrun Hrs]]]. cbv zeta in Hf, Hb, Hrun, Hrs.
        unfold binv, blog. rewrite Hf, Hb, Hrun. cbn [end_rewrite r_live].
        split; [exact Hwf|]. split; [exact Hnr|]. split; [exact Hsd|].
        intros _ Hx. cbn in Hx. discriminate.
      * destruct (swap_log_exact mk mi true b Hs Hd Hr) as [Hb [Hf [Hrun Hrs]]]. cbv zeta in Hb, Hf, Hrun, Hrs.
        unfold binv, blog. rewrite Hb, Hf, Hrun, app_nil_r. cbn [end_rewrite r_live r_shrinking].
        destruct (Hg eq_refl Hs) as [s1 [sched1 [H1 [H2 H3]]]].
        split; [exact Hwf|]. split.
        -- rewrite H3. unfold newfile. rewrite forallb_app. apply andb_true_iff. split.
           ++ apply cset_nr. apply (proj1 (batches_never_repeat mk mi s1 sched1 H1)).
           ++ apply (i_nr s1). apply inv1_run; [exact H2 | apply inv1_init; exact H1].
        -- split; [|intros _ Hx; cbn in Hx; discriminate].
           rewrite H3. apply concurrent_partial; [exact H1 | exact H2 | rewrite <- H3; exact Hd].
    + rewrite final_not_ready by exact Hc. split; [exact Hwf|]. split; [exact Hnr|]. split; [exact Hsd|]. exact Hg.
  - (* a follower starts over *)
    cbn [bstep]. unfold binv, blog. cbn [b_run b_file b_buf b_reset r_live r_shrinking app].
    split; [exact wf_nil|]. split; [reflexivity|]. split; [intros k i; reflexivity|].
    intros Hk Hx. cbn in Hx. congruence.
Qed.

Lemma binv_run sched : forall b, no_rename_b sched = true -> binv b -> binv (brun mk mi final_ops true sched b).
Proof.
  unfold brun. induction sched as [|e sched IH]; intros b Hnr Hb; cbn [fold_left]; [exact Hb|].
  cbn in Hnr. apply andb_true_iff in Hnr. destruct Hnr as [He Hs].
  apply IH; [exact Hs|]. apply binv_step; assumption.
Qed.

Theorem log_tracks_live s0 f0 sched :
  wf s0 -> forallb nr_cmd f0 = true -> same_data (replay f0 []) s0 -> no_rename_b sched = true ->
  let b := brun mk mi final_ops true sched (binit s0 f0) in
  same_data (replay (blog b) []) (r_live (b_run b)).
Proof.
  intros Hwf Hnr Hsd Hs b.
  assert (H : binv b).
  { apply binv_run; [exact Hs|]. unfold binv, binit, blog. cbn [b_run b_file b_buf b_reset idle r_live r_shrinking].
    rewrite app_nil_r. split; [exact Hwf|]. split; [exact Hnr|]. split; [exact Hsd|]. intros _ Hx; discriminate. }
  destruct H as [_ [_ [H _]]]. exact H.
Qed.

End Inv.

(* the same for the operations read from the source *)
Theorem log_tracks_live_src mk mi s0 f0 sched :
  wf s0 -> forallb nr_cmd f0 = true -> same_data (replay f0 []) s0 -> no_rename_b sched = true ->
  let b := brun mk mi final_ops_src final_guard_src sched (binit s0 f0) in
  same_data (replay (blog b) []) (r_live (b_run b)).
Proof. rewrite (proj1 final_section_transcribed), guard_transcribed. apply log_tracks_live. Qed.

(* ------------------------------------------------------------------ 4. without the flush *)

(* one object; the rewrite runs to the end of its scan; RENAME a c and SET a 1 y are accepted and
   stay in the buffer (their connection has not reached its pre-write step); the final section;
   the connection's pre-write flush *)
Definition s0_nf : st := [(b1 97, [(b1 49, mkObj (b1 120) [] false)])].
Definition f0_nf : file := [CSet (b1 97) (b1 49) [] false (b1 120)].
Definition sched_nf : list bev :=
  [BE Req; BE Step; BE Step; BE Step;
   BE (W (CRename (b1 97) (b1 99))); BE (W (CSet (b1 97) (b1 49) [] false (b1 121)));
   BFinal; BFlush].

Theorem swap_without_flush_refuted :
  exists s0 f0 sched, wf s0 /\ replay f0 [] = s0 /\
    (let b := brun maxkeys maxids final_ops true sched (binit s0 f0) in
     replay (blog b) [] = r_live (b_run b)) /\
    (let b := brun maxkeys maxids final_ops_noflush true sched (binit s0 f0) in
     exists k i, lookup k i (replay (blog b) []) <> lookup k i (r_live (b_run b))).
Proof.
  exists s0_nf, f0_nf, sched_nf. split; [apply wfb_ok; vm_compute; reflexivity|].
  split; [vm_compute; reflexivity|]. split; [vm_compute; reflexivity|].
  exists (b1 99), (b1 49). vm_compute. discriminate.
Qed.

(* a server with its own data is turned into a follower while its rewrite is parked before the
   final section: the dataset is reset, the leader streams SET b 1 y; without the guard the stale
   snapshot is swapped in and a/1 is back after a restart *)
Definition sched_rs : list bev :=
  [BE Req; BE Step; BE Step; BE Step; BReset; BE (W (CSet (b1 98) (b1 49) [] false (b1 121))); BFlush; BFinal].

Theorem reset_without_guard_refuted :
  exists s0 f0 sched, wf s0 /\ replay f0 [] = s0 /\ no_rename_b sched = true /\
    (let b := brun maxkeys maxids final_ops true sched (binit s0 f0) in
     replay (blog b) [] = r_live (b_run b) /\ r_live (b_run b) <> []) /\
    (let b := brun maxkeys maxids final_ops false sched (binit s0 f0) in
     exists k i, lookup k i (replay (blog b) []) <> lookup k i (r_live (b_run b))).
Proof.
  exists s0_nf, f0_nf, sched_rs. split; [apply wfb_ok; vm_compute; reflexivity|].
  split; [vm_compute; reflexivity|]. split; [vm_compute; reflexivity|].
  split; [split; [vm_compute; reflexivity | vm_compute; discriminate]|].
  exists (b1 97), (b1 49). vm_compute. discriminate.
Qed.

(* ------------------------------------------------------------------ example data for Props/C09.v *)

(* the log that made ex_data, the concurrent schedule ex_sched with flushes in between, two writers
   whose commands are still buffered at the final section, the final section, a writer, a flush, and
   a second complete rewrite *)
Definition ex_f0 : file := map rec_of (flatten ex_data).
Definition ex_bsched : list bev :=
  [BE Req] ++ flat_map (fun e => match e with W _ => [BE e; BFlush] | _ => [BE e] end) ex_sched
  ++ [BE (W (CSet (b1 97) (ex_id 3) [] false (b1 122))); BE (W (CDel (b1 98) (ex_id 0))); BFinal;
      BE (W (CSet (b1 97) (ex_id 4) [] true (b1 122))); BFlush; BE Req] ++ repeat (BE Step) 40 ++ [BFinal].
