(* field.List (Model/Field.v) against the plain field map of the specification (Model/Spec.v):
   the scanning loops of Set and Get with their early exits compute sf_set / sf_get on every
   name-sorted list; read-back; the pinned Get does not (finding F2). *)
From Coq Require Import String.
From Coq Require Import ZifyN ZifyNat ZifyBool Sorted.
From T38 Require Import Base.Bytes Base.SMap Model.Field Model.Object Model.Glob Model.Spec.

(* ---------- values ---------- *)

Lemma value_same_eq a b : value_same a b = true -> a = b.
Proof.
  unfold value_same. intros H. apply andb_true_iff in H. destruct H as [Hk Hd].
  apply N.eqb_eq in Hk. apply bytes_eqb_eq in Hd. destruct a, b; cbn in *; subst; reflexivity.
Qed.

Lemma value_same_refl a : value_same a a = true.
Proof. unfold value_same. rewrite N.eqb_refl, bytes_eqb_refl. reflexivity. Qed.

Lemma bfield_idem v : bfield (bfield v) = bfield v.
Proof.
  unfold bfield.
  destruct (v_kind v =? KNull) eqn:E1; [reflexivity|].
  destruct (v_kind v =? KFalse) eqn:E2; [reflexivity|].
  destruct (v_kind v =? KTrue) eqn:E3; [reflexivity|].
  rewrite E1, E2, E3. reflexivity.
Qed.

(* ---------- Set ---------- *)

Lemma cmp_gt_of n name :
  bytes_ltb n name = false -> bytes_eqb name n = false -> bytes_cmp n name = Gt /\ bytes_eqb n name = false.
Proof.
  intros Hlt Hne.
  destruct (cmp_cases n name) as [[_ [H _]]|[[_ H]|[E [_ H]]]].
  - congruence.
  - subst. rewrite bytes_eqb_refl in Hne. discriminate.
  - split; assumption.
Qed.

Theorem fl_set_spec l f : msorted l -> fl_set l f = sf_set l f.
Proof.
  destruct f as [n v]. unfold sf_set. cbn [fst snd].
  induction l as [|[name v0] rest IH]; intros Hs.
  - cbn. destruct (is_zero v); reflexivity.
  - cbn [fl_set fst snd].
    destruct (bytes_ltb n name) eqn:Hlt.
    + (* insert before *)
      pose proof (get_lt_head n name v0 rest Hs Hlt) as Hg.
      destruct (is_zero v).
      * symmetry. apply del_absent. exact Hg.
      * rewrite Hg. cbn [set]. apply ltb_cmp in Hlt. rewrite Hlt. reflexivity.
    + destruct (bytes_eqb name n) eqn:Heq.
      * apply bytes_eqb_eq in Heq. subst name.
        cbn [get del set]. rewrite bytes_eqb_refl, bytes_cmp_refl. reflexivity.
      * destruct (cmp_gt_of _ _ Hlt Heq) as [Hc Hne].
        pose proof (msorted_tail _ _ Hs) as Hr. specialize (IH Hr).
        cbn [get del set]. rewrite Hne, Hc. rewrite IH.
        destruct (is_zero v); [reflexivity|].
        destruct (get n rest) as [p|]; [|reflexivity].
        destruct (value_same (bfield p) v); reflexivity.
Qed.

Lemma sf_set_sorted l f : msorted l -> msorted (sf_set l f).
Proof.
  intros Hs. unfold sf_set. destruct (is_zero (snd f)); [apply msorted_del; exact Hs|].
  destruct (get (fst f) l) as [p|]; [|apply msorted_set; exact Hs].
  destruct (value_same (bfield p) (snd f)); [exact Hs | apply msorted_set; exact Hs].
Qed.

Theorem fl_set_sorted l f : msorted l -> msorted (fl_set l f).
Proof. intros Hs. rewrite fl_set_spec by exact Hs. apply sf_set_sorted; exact Hs. Qed.

Lemma fold_fl_set_spec fs : forall l, msorted l -> fold_left fl_set fs l = fold_left sf_set fs l /\ msorted (fold_left fl_set fs l).
Proof.
  induction fs as [|f fs IH]; intros l Hs; cbn.
  - split; [reflexivity | exact Hs].
  - rewrite fl_set_spec by exact Hs. apply IH. apply sf_set_sorted; exact Hs.
Qed.

Definition nozero (l : flist) : Prop := Forall (fun f => is_zero (snd f) = false) l.

Theorem fl_set_nozero l f : msorted l -> nozero l -> nozero (fl_set l f).
Proof.
  intros Hs Hz. rewrite fl_set_spec by exact Hs. unfold sf_set, nozero in *.
  destruct (is_zero (snd f)) eqn:Ez; [apply Forall_del; exact Hz|].
  destruct (get (fst f) l) as [p|].
  - destruct (value_same (bfield p) (snd f)); [exact Hz | apply Forall_set; [exact Hz | exact Ez]].
  - apply Forall_set; [exact Hz | exact Ez].
Qed.

(* ---------- Get ---------- *)

Lemma split_dot_app name j p : split_dot name = Some (j, p) -> name = j ++ DOT :: p.
Proof.
  revert j p. induction name as [|c r IH]; cbn; intros j p H; [discriminate|].
  destruct (c =? DOT) eqn:E.
  - inversion H; subst. apply N.eqb_eq in E. subst. reflexivity.
  - destruct (split_dot r) as [[j' p']|]; [|discriminate].
    inversion H; subst. cbn. f_equal. apply IH. reflexivity.
Qed.

Lemma split_dot_lt name j p : split_dot name = Some (j, p) -> bytes_ltb j name = true.
Proof.
  intros H. apply split_dot_app in H. subst. apply ltb_cmp.
  rewrite <- (app_nil_r j) at 1. rewrite bytes_cmp_app_same. reflexivity.
Qed.

Section Get.
Variable O : foracle.

(* when the JSON-path branch cannot fire, the loop is the exact-name lookup with its early exit *)
Lemma fl_get_loop_exact isj j p name l :
  msorted l -> (isj = false \/ Forall (fun k => bytes_ltb j k = true) (keys l)) ->
  fl_get_loop O isj j p name l = sf_exact l name.
Proof.
  induction l as [|[fname v] rest IH]; intros Hs Hno; [reflexivity|].
  cbn [fl_get_loop].
  assert (Hhit : (v_kind v =? KJSON) && isj && bytes_eqb fname j = false).
  { destruct Hno as [->|Hall].
    - rewrite andb_false_r. reflexivity.
    - inversion Hall; subst. rewrite eqb_sym, (ltb_eqb_false _ _ H1). apply andb_false_r. }
  rewrite Hhit.
  unfold sf_exact.
  destruct (bytes_ltb name fname) eqn:Hlt.
  - rewrite (get_lt_head _ _ _ _ Hs Hlt). reflexivity.
  - cbn [get]. rewrite (eqb_sym name fname).
    destruct (bytes_eqb fname name) eqn:Heq; [reflexivity|].
    apply IH; [eapply msorted_tail; exact Hs|].
    destruct Hno as [->|Hall]; [left; reflexivity | right; inversion Hall; assumption].
Qed.

Lemma fl_get_loop_json j p name l :
  msorted l -> bytes_ltb j name = true ->
  fl_get_loop O true j p name l =
  match get j l with
  | Some v =>
      if v_kind v =? KJSON then
        match fo_gjson O (v_data v) p with
        | Some r => (name, bfield r)
        | None => sf_exact l name
        end
      else sf_exact l name
  | None => sf_exact l name
  end.
Proof.
  intros Hs Hj. induction l as [|[fname v] rest IH]; [reflexivity|].
  pose proof (msorted_inv _ _ _ Hs) as [Hr Hall].
  cbn [fl_get_loop].
  destruct (bytes_eqb fname j) eqn:Efj.
  - (* the field jname itself *)
    apply bytes_eqb_eq in Efj. subst fname.
    cbn [get]. rewrite bytes_eqb_refl. rewrite andb_true_r, andb_true_r.
    assert (Hcont : (if bytes_ltb name j then zero_field
                     else if bytes_eqb j name then (name, bfield v)
                     else fl_get_loop O true j p name rest) = sf_exact ((j, v) :: rest) name).
    { rewrite (ltb_asym _ _ Hj), (ltb_eqb_false _ _ Hj).
      rewrite (fl_get_loop_exact true j p name rest Hr (or_intror Hall)).
      unfold sf_exact. cbn [get]. rewrite eqb_sym, (ltb_eqb_false _ _ Hj). reflexivity. }
    destruct (v_kind v =? KJSON).
    + destruct (fo_gjson O (v_data v) p); [reflexivity | exact Hcont].
    + exact Hcont.
  - rewrite andb_false_r.
    destruct (bytes_ltb name fname) eqn:Hlt.
    + assert (Hjf : bytes_ltb j fname = true) by (eapply ltb_trans; eauto).
      rewrite (get_lt_head _ _ _ _ Hs Hjf). unfold sf_exact.
      rewrite (get_lt_head _ _ _ _ Hs Hlt). reflexivity.
    + destruct (bytes_eqb fname name) eqn:Heq.
      * apply bytes_eqb_eq in Heq. subst fname.
        rewrite (get_lt_head _ _ _ _ Hs Hj). unfold sf_exact. cbn [get]. rewrite bytes_eqb_refl. reflexivity.
      * specialize (IH Hr). rewrite IH.
        cbn [get]. rewrite (eqb_sym j fname), Efj.
        assert (He : sf_exact ((fname, v) :: rest) name = sf_exact rest name).
        { unfold sf_exact. cbn [get]. rewrite (eqb_sym name fname), Heq. reflexivity. }
        rewrite He. reflexivity.
Qed.

Theorem fl_get_spec l name : msorted l -> fl_get O l name = sf_get O l name.
Proof.
  intros Hs. unfold fl_get, sf_get.
  destruct (split_dot name) as [[j p]|] eqn:E.
  - apply fl_get_loop_json; [exact Hs | eapply split_dot_lt; exact E].
  - apply fl_get_loop_exact; [exact Hs | left; reflexivity].
Qed.

(* a JSON-valued field jname that answers the path hides the field literally called jname.path *)
Definition shadowed (l : flist) (name : bytes) : bool :=
  match split_dot name with
  | Some (j, p) =>
      match get j l with
      | Some w => (v_kind w =? KJSON) && (match fo_gjson O (v_data w) p with Some _ => true | None => false end)
      | None => false
      end
  | None => false
  end.

Lemma sf_get_unshadowed l name : shadowed l name = false -> sf_get O l name = sf_exact l name.
Proof.
  unfold shadowed, sf_get. destruct (split_dot name) as [[j p]|]; [|reflexivity].
  destruct (get j l) as [w|]; [|reflexivity].
  destruct (v_kind w =? KJSON); [|reflexivity].
  destruct (fo_gjson O (v_data w) p); [discriminate | reflexivity].
Qed.

Lemma shadowed_sf_set l n v : msorted l -> shadowed (sf_set l (n, v)) n = shadowed l n.
Proof.
  intros Hs. unfold shadowed. destruct (split_dot n) as [[j p]|] eqn:E; [|reflexivity].
  assert (Hne : j <> n) by (apply ltb_neq; eapply split_dot_lt; exact E).
  assert (Hg : get j (sf_set l (n, v)) = get j l).
  { unfold sf_set. cbn [fst snd]. destruct (is_zero v); [apply get_del_other; exact Hne|].
    destruct (get n l) as [q|]; [destruct (value_same (bfield q) v); [reflexivity|]|]; apply get_set_other; exact Hne. }
  rewrite Hg. reflexivity.
Qed.

(* what was written is what is read *)
Theorem field_readback l n v :
  msorted l -> is_zero v = false -> shadowed l n = false ->
  fl_get O (fl_set l (n, v)) n = (n, bfield v).
Proof.
  intros Hs Hz Hsh.
  rewrite fl_set_spec by exact Hs.
  rewrite fl_get_spec by (apply sf_set_sorted; exact Hs).
  rewrite sf_get_unshadowed by (rewrite shadowed_sf_set; assumption).
  unfold sf_exact, sf_set. cbn [fst snd]. rewrite Hz.
  destruct (get n l) as [q|] eqn:Eg.
  - destruct (value_same (bfield q) v) eqn:Es.
    + rewrite Eg. apply value_same_eq in Es. rewrite <- Es. rewrite bfield_idem. reflexivity.
    + rewrite get_set_same. reflexivity.
  - rewrite get_set_same. reflexivity.
Qed.

Theorem field_zero_deletes l n v :
  msorted l -> is_zero v = true -> shadowed l n = false ->
  fl_get O (fl_set l (n, v)) n = zero_field.
Proof.
  intros Hs Hz Hsh.
  rewrite fl_set_spec by exact Hs.
  rewrite fl_get_spec by (apply sf_set_sorted; exact Hs).
  rewrite sf_get_unshadowed by (rewrite shadowed_sf_set; assumption).
  unfold sf_exact, sf_set. cbn [fst snd]. rewrite Hz.
  rewrite get_del_same by exact Hs. reflexivity.
Qed.

(* other names are not disturbed *)
Theorem field_other_untouched l n v m :
  msorted l -> m <> n -> shadowed l m = false -> (forall j p, split_dot m = Some (j, p) -> j <> n) ->
  fl_get O (fl_set l (n, v)) m = fl_get O l m.
Proof.
  intros Hs Hne Hsh Hj.
  rewrite fl_set_spec by exact Hs.
  rewrite !fl_get_spec by (try apply sf_set_sorted; exact Hs).
  assert (Hg : forall k, k <> n -> get k (sf_set l (n, v)) = get k l).
  { intros k Hk. unfold sf_set. cbn [fst snd]. destruct (is_zero v); [apply get_del_other; exact Hk|].
    destruct (get n l) as [q|]; [destruct (value_same (bfield q) v); [reflexivity|]|]; apply get_set_other; exact Hk. }
  unfold sf_get, sf_exact. rewrite (Hg m Hne).
  destruct (split_dot m) as [[j p]|] eqn:E; [|reflexivity].
  rewrite (Hg j (Hj j p eq_refl)). reflexivity.
Qed.

End Get.

(* ---------- finding F2: the pinned Get loses a stored dotted field behind a JSON-valued neighbour ---------- *)
Definition f2_oracle : foracle := mkFOracle (fun d => mkValue KString d) (fun s => s) (fun _ _ => None).
Definition f2_name : bytes := Eval compute in bs "props.speed".
Definition f2_meta : bytes := Eval compute in bs "props.meta".
Definition f2_json : bytes := Eval compute in bs "{""x"":1}".
Definition f2_list : flist := [ (f2_meta, mkValue KJSON f2_json); (f2_name, mkValue KNumber [53]) ].

Lemma f2_list_sorted : msorted f2_list.
Proof.
  unfold msorted, f2_list, sorted_keys. cbn.
  constructor; [constructor; [constructor | constructor] | constructor; [vm_compute; reflexivity | constructor]].
Qed.

Theorem fl_get_old_refuted :
  exists O l n v, msorted l /\ get n l = Some v /\ is_zero v = false /\ shadowed O l n = false /\
                  fl_get_old O l n = zero_field /\ fl_get O l n = (n, v).
Proof.
  exists f2_oracle, f2_list, f2_name, (mkValue KNumber [53]).
  split; [exact f2_list_sorted|]. vm_compute. repeat split; reflexivity.
Qed.

(* finding C01-eq: the pinned Equals treats strings that differ only in letter case as equal *)
Theorem str_equals_ci_refuted : exists a b, a <> b /\ str_equals_ci a b = true.
Proof. exists [65; 66; 67], [97; 98; 99]. split; [discriminate | vm_compute; reflexivity]. Qed.
