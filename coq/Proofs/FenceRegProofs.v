(* Proofs/FenceRegProofs.v — registry invariant and candidate selection (C05). *)
From Coq Require Import List Bool ZArith Lia.
From Coq Require Import ZifyBool.
From T38 Require Import Base.Bytes Model.Fence Model.HookReg Proofs.FenceProofs.
Import ListNotations.

(* ---------- name-keyed list operations ---------- *)

Lemma named_true n h : named n h = true <-> h_name h = n.
Proof. unfold named. apply bytes_eqb_eq. Qed.

Lemma named_false n h : named n h = false <-> h_name h <> n.
Proof.
  split.
  - intros H E. apply named_true in E. congruence.
  - intro H. destruct (named n h) eqn:E; [|reflexivity]. apply named_true in E. contradiction.
Qed.

Lemma In_del_name n l x : In x (del_name n l) <-> In x l /\ h_name x <> n.
Proof.
  unfold del_name. rewrite filter_In. rewrite negb_true_iff, named_false. tauto.
Qed.

Lemma get_name_Some n l p : get_name n l = Some p -> In p l /\ h_name p = n.
Proof. unfold get_name. intro H. apply find_some in H. rewrite named_true in H. exact H. Qed.

Lemma get_name_None n l : get_name n l = None -> forall x, In x l -> h_name x <> n.
Proof.
  unfold get_name. intros H x Hx. apply named_false. exact (find_none _ _ H x Hx).
Qed.

Lemma NoDup_names_del n l : NoDup (map h_name l) -> NoDup (map h_name (del_name n l)).
Proof.
  induction l as [|x l IH]; cbn; intro H; [constructor|]. inversion H; subst.
  destruct (negb (named n x)); cbn; auto. constructor; auto.
  intro Hin. apply in_map_iff in Hin. destruct Hin as (y & Hy & Hin). apply In_del_name in Hin.
  apply H2. rewrite <- Hy. apply in_map. tauto.
Qed.

Lemma NoDup_names_set h l : NoDup (map h_name l) -> NoDup (map h_name (set_name h l)).
Proof.
  intro H. unfold set_name. cbn. constructor; [|now apply NoDup_names_del].
  intro Hin. apply in_map_iff in Hin. destruct Hin as (y & Hy & Hin). apply In_del_name in Hin. tauto.
Qed.

Lemma names_unique l a b : NoDup (map h_name l) -> In a l -> In b l -> h_name a = h_name b -> a = b.
Proof.
  induction l as [|x l IH]; cbn; intros Hnd Ha Hb E; [contradiction|].
  inversion Hnd; subst. destruct Ha as [->|Ha], Hb as [->|Hb]; auto.
  - exfalso. apply H1. rewrite E. now apply in_map.
  - exfalso. apply H1. rewrite <- E. now apply in_map.
Qed.

(* ---------- the invariant ---------- *)

Record reg_inv (r : reg) : Prop := {
  ri_names : NoDup (map h_name (hooks r));
  ri_out : forall h, In h (hooksOut r) <-> In h (hooks r) /\ detects (h_detect h) DOutside = true;
  ri_tree : forall h, In h (hookTree r) <-> In h (hooks r) /\ has_area h = true;
  ri_cross : forall h, In h (hookCross r) <->
                       In h (hooks r) /\ (has_area h && dmap (h_detect h) DCross) = true;
  ri_exp : forall h, In h (hookExpires r) <-> In h (hooks r) /\ h_expires h = true
}.

(* a derived registry L of l for predicate P, after the (conditional) removal of the previous
   hook of name n: whatever condition c guards the removal, as long as it holds whenever the
   previous hook is in L *)
Lemma cond_del (P c : hook -> bool) l L n prev :
  NoDup (map h_name l) ->
  (forall x, In x L <-> In x l /\ P x = true) ->
  prev = get_name n l ->
  (forall p, prev = Some p -> P p = true -> c p = true) ->
  forall x,
    In x (match prev with Some p => if c p then del_name n L else L | None => L end) <->
    In x L /\ h_name x <> n.
Proof.
  intros Hnd HL Hprev Hc x. destruct prev as [p|].
  - symmetry in Hprev. apply get_name_Some in Hprev. destruct Hprev as [Hp Hn].
    destruct (c p) eqn:Ec; [apply In_del_name|].
    split; [|tauto]. intro Hx. split; [assumption|]. intro E.
    apply HL in Hx. destruct Hx as [Hx HP].
    assert (x = p) by (apply (names_unique l); congruence). subst x.
    specialize (Hc p eq_refl HP). congruence.
  - split; [|tauto]. intro Hx. split; [assumption|].
    apply HL in Hx. symmetry in Hprev. exact (get_name_None n l Hprev x (proj1 Hx)).
Qed.

Lemma In_set_name h l x : In x (set_name h l) <-> x = h \/ (In x l /\ h_name x <> h_name h).
Proof. unfold set_name. cbn. rewrite In_del_name. split; intros [H|H]; auto. Qed.

(* insertion of the new hook h into a derived registry *)
Lemma ins_filter (P : hook -> bool) l L1 L2 h :
  (forall x, In x L1 <-> (In x l /\ P x = true) /\ h_name x <> h_name h) ->
  (forall x, In x L2 <-> (if P h then x = h \/ In x L1 else In x L1)) ->
  forall x, In x L2 <-> (x = h \/ (In x l /\ h_name x <> h_name h)) /\ P x = true.
Proof.
  intros H1 H2 x. rewrite H2. destruct (P h) eqn:E.
  - rewrite H1. split.
    + intros [->|[[? ?] ?]]; auto.
    + intros [[->|[? ?]] ?]; auto.
  - rewrite H1. split.
    + intros [[? ?] ?]; auto.
    + intros [[->|[? ?]] ?]; [congruence|auto].
Qed.

Lemma sethook_inv r h e : reg_inv r -> reg_inv (reg_sethook r h e).
Proof.
  intro Hi. unfold reg_sethook.
  set (n := h_name h). set (prev := get_name n (hooks r)).
  match goal with |- reg_inv (if ?s then _ else _) => destruct s end; [assumption|].
  destruct Hi as [Hnd Hout Htree Hcross Hexp].
  assert (Hpn : forall p, prev = Some p -> h_name p = n).
  { intros p E. unfold prev in E. apply get_name_Some in E. tauto. }
  (* hooks *)
  assert (Hh1 : forall x, In x (match prev with Some p => del_name (h_name p) (hooks r) | None => hooks r end) <->
                          In x (hooks r) /\ h_name x <> n).
  { intro x. destruct prev as [p|] eqn:E.
    - rewrite (Hpn p eq_refl). apply In_del_name.
    - split; [|tauto]. intro Hx. split; [assumption|]. exact (get_name_None n _ E x Hx). }
  assert (Hh2 : forall x, In x (set_name h (match prev with Some p => del_name (h_name p) (hooks r) | None => hooks r end)) <->
                          x = h \/ (In x (hooks r) /\ h_name x <> n)).
  { intro x. rewrite In_set_name, Hh1. fold n. tauto. }
  constructor; cbn [hooks hooksOut hookTree hookCross hookExpires].
  - apply NoDup_names_set. destruct prev as [p|]; [apply NoDup_names_del|]; assumption.
  - (* hooksOut: unconditional removal of the previous hook *)
    intro x. rewrite Hh2.
    apply (ins_filter (fun y => detects (h_detect y) DOutside) (hooks r)
             (match prev with Some p => del_name (h_name p) (hooksOut r) | None => hooksOut r end)).
    + intro y.
      pose proof (cond_del (fun y => detects (h_detect y) DOutside) (fun _ => true) (hooks r) (hooksOut r) n prev
                    Hnd Hout eq_refl (fun _ _ _ => eq_refl) y) as Hc.
      destruct prev as [p|] eqn:E; [rewrite (Hpn p eq_refl)|]; cbn in Hc; rewrite Hc, Hout; fold n; tauto.
    + intro y. destruct (detects (h_detect h) DOutside); [|tauto].
      rewrite In_set_name.
      assert (forall z, In z (match prev with Some p => del_name (h_name p) (hooksOut r) | None => hooksOut r end) ->
                        h_name z <> h_name h).
      { intros z Hz.
        pose proof (cond_del (fun y => detects (h_detect y) DOutside) (fun _ => true) (hooks r) (hooksOut r) n prev
                      Hnd Hout eq_refl (fun _ _ _ => eq_refl) z) as Hc.
        destruct prev as [p|] eqn:E; [rewrite (Hpn p eq_refl) in Hz|]; cbn in Hc; apply Hc in Hz; tauto. }
      split; [tauto|]. intros [?|?]; [auto|]. right. split; [assumption|]. now apply H.
  - (* hookTree *)
    intro x. rewrite Hh2.
    apply (ins_filter has_area (hooks r)
             (match prev with Some p => if has_area p then del_name (h_name p) (hookTree r) else hookTree r | None => hookTree r end)).
    + intro y.
      pose proof (cond_del has_area has_area (hooks r) (hookTree r) n prev Hnd Htree eq_refl (fun _ _ H => H) y) as Hc.
      destruct prev as [p|] eqn:E; [rewrite (Hpn p eq_refl)|]; rewrite Hc, Htree; fold n; tauto.
    + intro y. destruct (has_area h); cbn; intuition auto.
  - (* hookCross *)
    intro x. rewrite Hh2.
    apply (ins_filter (fun y => has_area y && dmap (h_detect y) DCross) (hooks r)
             (match prev with Some p => if has_area p && dmap (h_detect p) DCross then del_name (h_name p) (hookCross r) else hookCross r
                         | None => hookCross r end)).
    + intro y.
      pose proof (cond_del (fun y => has_area y && dmap (h_detect y) DCross) (fun y => has_area y && dmap (h_detect y) DCross)
                    (hooks r) (hookCross r) n prev Hnd Hcross eq_refl (fun _ _ H => H) y) as Hc.
      destruct prev as [p|] eqn:E; [rewrite (Hpn p eq_refl)|]; rewrite Hc, Hcross; fold n; tauto.
    + intro y. destruct (has_area h && dmap (h_detect h) DCross); cbn; intuition auto.
  - (* hookExpires *)
    intro x. rewrite Hh2.
    apply (ins_filter h_expires (hooks r)
             (match prev with Some p => if h_expires p then del_name (h_name p) (hookExpires r) else hookExpires r
                         | None => hookExpires r end)).
    + intro y.
      pose proof (cond_del h_expires h_expires (hooks r) (hookExpires r) n prev Hnd Hexp eq_refl (fun _ _ H => H) y) as Hc.
      destruct prev as [p|] eqn:E; [rewrite (Hpn p eq_refl)|]; rewrite Hc, Hexp; fold n; tauto.
    + intro y. destruct (h_expires h); [|tauto].
      rewrite In_set_name.
      assert (forall z, In z (match prev with Some p => if h_expires p then del_name (h_name p) (hookExpires r) else hookExpires r
                                         | None => hookExpires r end) -> h_name z <> h_name h).
      { intros z Hz.
        pose proof (cond_del h_expires h_expires (hooks r) (hookExpires r) n prev Hnd Hexp eq_refl (fun _ _ H => H) z) as Hc.
        destruct prev as [p|] eqn:E; [rewrite (Hpn p eq_refl) in Hz|]; apply Hc in Hz; tauto. }
      split; [tauto|]. intros [?|?]; [auto|]. right. split; [assumption|]. now apply H.
Qed.

Lemma delhook_inv r n c : reg_inv r -> reg_inv (reg_delhook r n c).
Proof.
  intro Hi. unfold reg_delhook. destruct (get_name n (hooks r)) as [h|] eqn:E; [|assumption].
  destruct (negb (Bool.eqb (h_chan h) c)); [assumption|].
  destruct Hi as [Hnd Hout Htree Hcross Hexp].
  constructor; cbn [hooks hooksOut hookTree hookCross hookExpires].
  - now apply NoDup_names_del.
  - intro x. rewrite !In_del_name, Hout. tauto.
  - intro x. rewrite In_del_name.
    pose proof (cond_del has_area has_area (hooks r) (hookTree r) n (Some h) Hnd Htree (eq_sym E) (fun _ _ H => H) x) as Hc.
    cbn in Hc. rewrite Hc, Htree. tauto.
  - intro x. rewrite In_del_name.
    pose proof (cond_del (fun y => has_area y && dmap (h_detect y) DCross) (fun y => has_area y && dmap (h_detect y) DCross)
                  (hooks r) (hookCross r) n (Some h) Hnd Hcross (eq_sym E) (fun _ _ H => H) x) as Hc.
    cbn in Hc. rewrite Hc, Hcross. tauto.
  - intro x. rewrite In_del_name.
    pose proof (cond_del h_expires h_expires (hooks r) (hookExpires r) n (Some h) Hnd Hexp (eq_sym E) (fun _ _ H => H) x) as Hc.
    cbn in Hc. rewrite Hc, Hexp. tauto.
Qed.

Lemma pdelhook_inv r p c : reg_inv r -> reg_inv (reg_pdelhook r p c).
Proof.
  unfold reg_pdelhook. generalize (map h_name (filter (fun h => Bool.eqb (h_chan h) c && p (h_name h)) (hooks r))).
  intro names. revert r. induction names as [|n names IH]; intros r Hi; cbn [fold_left]; [assumption|].
  apply IH. now apply delhook_inv.
Qed.

Lemma empty_inv : reg_inv reg_empty.
Proof. constructor; cbn; try constructor; intros; tauto. Qed.

Lemma step_inv r o : reg_inv r -> reg_inv (reg_step r o).
Proof.
  destruct o; cbn [reg_step]; intro H.
  - now apply sethook_inv. - now apply delhook_inv. - now apply pdelhook_inv. - apply empty_inv.
Qed.

Theorem registry_inv : forall ops, reg_inv (reg_run ops).
Proof.
  unfold reg_run. intro ops. generalize empty_inv. generalize reg_empty.
  induction ops as [|o ops IH]; intros r Hi; cbn [fold_left]; [assumption|].
  apply IH. now apply step_inv.
Qed.

(* ---------- candidates ---------- *)

(* whether hook h is a candidate for a write, as a function of h and the write alone *)
Definition cand_cond (h : hook) (old new : option rect) : bool :=
  detects (h_detect h) DOutside ||
  match h_area h with
  | None => false
  | Some a =>
      (dmap (h_detect h) DCross &&
       match old, new with Some r1, Some r2 => overlaps a (hull r1 r2) | _, _ => false end)
      || match old with Some r1 => overlaps a r1 | None => false end
      || match new with Some r2 => overlaps a r2 | None => false end
  end.

Lemma keyed_true k h : keyed k h = true <-> h_key h = k.
Proof. unfold keyed. apply bytes_eqb_eq. Qed.

Lemma In_search tree q h :
  In h (search tree q) <-> In h tree /\ exists a, h_area h = Some a /\ overlaps a q = true.
Proof.
  unfold search. rewrite filter_In. destruct (h_area h) as [a|].
  - split; [intros [? ?]; eauto|]. intros [? (a' & E & ?)]. inversion E; subst. auto.
  - split; [intros [_ ?]; discriminate|]. intros [_ (a' & E & _)]. discriminate.
Qed.

Theorem candidates_local r k old new h :
  reg_inv r ->
  (In h (candidates r k old new) <-> In h (hooks r) /\ h_key h = k /\ cand_cond h old new = true).
Proof.
  intros [Hnd Hout Htree Hcross Hexp]. unfold candidates, cand_cond.
  rewrite !in_app_iff. rewrite filter_In, Hout, keyed_true.
  assert (Hc : In h (match old, new with
                     | Some r1, Some r2 => if nonempty_hooks (hookCross r) then filter (keyed k) (search (hookCross r) (hull r1 r2)) else []
                     | _, _ => [] end) <->
               In h (hooks r) /\ h_key h = k /\ exists a r1 r2, h_area h = Some a /\ old = Some r1 /\ new = Some r2 /\
                 dmap (h_detect h) DCross = true /\ overlaps a (hull r1 r2) = true).
  { destruct old as [r1|], new as [r2|]; try (split; [intros []|intros (_ & _ & a & x & y & _ & E1 & E2 & _); discriminate]).
    destruct (nonempty_hooks (hookCross r)) eqn:Et.
    - rewrite filter_In, In_search, Hcross, keyed_true. split.
      + intros [[[Hin Hb] (a & Ea & Ho)] Hk]. apply andb_true_iff in Hb. destruct Hb as [_ Hd].
        split; [assumption|]. split; [assumption|]. exists a, r1, r2. auto.
      + intros (Hin & Hk & a & x & y & Ea & Ex & Ey & Hd & Ho). inversion Ex; inversion Ey; subst.
        split; [|reflexivity]. split; [split; [assumption|]|eauto]. unfold has_area. rewrite Ea, Hd. reflexivity.
    - split; [intros []|]. intros (Hin & _ & a & x & y & Ea & _ & _ & Hd & _).
      assert (Hx : In h (hookCross r)) by (apply Hcross; unfold has_area; rewrite Ea, Hd; auto).
      destruct (hookCross r); [destruct Hx|discriminate]. }
  rewrite Hc. clear Hc.
  assert (Ht : forall q : option rect,
            In h (match q with Some r1 => filter (keyed k) (search (hookTree r) r1) | None => [] end) <->
            In h (hooks r) /\ h_key h = k /\ exists a r1, h_area h = Some a /\ q = Some r1 /\ overlaps a r1 = true).
  { intros [r1|]; [|split; [intros []|intros (_ & _ & a & x & _ & E & _); discriminate]].
    rewrite filter_In, In_search, Htree, keyed_true. split.
    - intros [[[Hin _] (a & Ea & Ho)] Hk]. eauto 10.
    - intros (Hin & Hk & a & x & Ea & Ex & Ho). inversion Ex; subst.
      split; [|reflexivity]. split; [split; [assumption|]|eauto]. unfold has_area. now rewrite Ea. }
  rewrite (Ht old), (Ht new). clear Ht.
  split.
  - intros [[[Hin Hd] Hk]|[(Hin & Hk & a & r1 & r2 & Ea & -> & -> & Hd & Ho)|[(Hin & Hk & a & r1 & Ea & -> & Ho)|(Hin & Hk & a & r2 & Ea & -> & Ho)]]];
      (split; [assumption|split; [assumption|]]).
    + rewrite Hd. reflexivity.
    + rewrite Ea, Hd, Ho. cbn. apply orb_true_r.
    + rewrite Ea, Ho. destruct new; cbn; rewrite ?orb_true_r; reflexivity.
    + rewrite Ea, Ho. rewrite !orb_true_r. reflexivity.
  - intros (Hin & Hk & Hc). apply orb_true_iff in Hc. destruct Hc as [Hd|Hc]; [left; tauto|].
    destruct (h_area h) as [a|] eqn:Ea; [|discriminate].
    apply orb_true_iff in Hc. destruct Hc as [Hc|Hn].
    + apply orb_true_iff in Hc. destruct Hc as [Hx|Ho].
      * apply andb_true_iff in Hx. destruct Hx as [Hd Ho].
        destruct old as [r1|], new as [r2|]; try discriminate. right; left. eauto 12.
      * destruct old as [r1|]; [|discriminate]. right; right; left. eauto 10.
    + destruct new as [r2|]; [|discriminate]. right; right; right. eauto 10.
Qed.

(* ---------- which writes need which fences: the bridge from messages to rectangles ---------- *)

Definition sp_of (o : option otest) : bool := match o with Some t => o_sp t | None => false end.
Definition is_some {A} (o : option A) : bool := match o with Some _ => true | None => false end.

(* a SET / FSET / other move produces a message only if the fence detects "outside", or one of
   the two objects is spatially inside the area, or the fence detects "cross" and the path crosses *)
Definition why_body (D : dset) (x : fcase) (acc : bool) : bool :=
  negb (is_move (c_cmd x)) ||
  match fence_match acc D x with
  | FOk (_ :: _) =>
      detects D DOutside || sp_of (c_obj x) || sp_of (c_old x) ||
      (dmap D DCross && c_cross x && is_some (c_old x) && is_some (c_obj x))
  | _ => true
  end.

Lemma why_check_true :
  all_dset (fun D => all_case (fun x => all_bool (fun acc => why_body D x acc))) = true.
Proof. vm_compute. reflexivity. Qed.

Lemma why_all D x acc : why_body D x acc = true.
Proof. exact (all_bool_spec _ (all_case_spec _ (all_dset_spec _ why_check_true D) x) acc). Qed.

Theorem candidates_complete r k h a x acc l old_r new_r :
  reg_inv r -> In h (hooks r) -> h_key h = k -> h_area h = Some a ->
  is_move (c_cmd x) = true ->
  (* oracle: a spatial hit implies overlapping bounding rectangles; the write's rectangles are
     present exactly when its objects are *)
  (sp_of (c_obj x) = true -> exists r2, new_r = Some r2 /\ overlaps a r2 = true) ->
  (sp_of (c_old x) = true -> exists r1, old_r = Some r1 /\ overlaps a r1 = true) ->
  (c_cross x = true -> is_some (c_old x) = true -> is_some (c_obj x) = true ->
     exists r1 r2, old_r = Some r1 /\ new_r = Some r2 /\ overlaps a (hull r1 r2) = true) ->
  fence_match acc (h_detect h) x = FOk l -> l <> [] ->
  In h (candidates r k old_r new_r).
Proof.
  intros Hi Hin Hk Ha Hm Hnew Hold Hcr Hres Hne.
  apply (candidates_local r k old_r new_r h Hi). split; [assumption|]. split; [assumption|].
  pose proof (why_all (h_detect h) x acc) as Hw. unfold why_body in Hw.
  rewrite Hm, Hres in Hw. cbn [negb orb] in Hw. destruct l as [|m l]; [congruence|].
  unfold cand_cond. rewrite Ha.
  apply orb_true_iff in Hw. destruct Hw as [Hw|Hw].
  - apply orb_true_iff in Hw. destruct Hw as [Hw|Hw].
    + apply orb_true_iff in Hw. destruct Hw as [Hw|Hw].
      * rewrite Hw. reflexivity.
      * destruct (Hnew Hw) as (r2 & -> & Ho). rewrite Ho. rewrite !orb_true_r. reflexivity.
    + destruct (Hold Hw) as (r1 & -> & Ho). rewrite Ho. destruct new_r; rewrite ?orb_true_r; reflexivity.
  - apply andb_true_iff in Hw. destruct Hw as [Hw H4]. apply andb_true_iff in Hw. destruct Hw as [Hw H3].
    apply andb_true_iff in Hw. destruct Hw as [H1 H2].
    destruct (Hcr H2 H3 H4) as (r1 & r2 & -> & -> & Ho). rewrite H1, Ho. cbn. apply orb_true_r.
Qed.

(* the rectangle of the old-centre -> new-centre line lies inside the hull of the two object
   rectangles when each centre lies inside its own object's rectangle; overlap is monotone *)
Definition within (c q : rect) : Prop :=
  (minx q <= minx c /\ maxx c <= maxx q /\ miny q <= miny c /\ maxy c <= maxy q)%Z.

Lemma overlaps_mono a q q' : overlaps a q = true -> within q q' -> (minx q <= maxx q)%Z -> (miny q <= maxy q)%Z ->
  overlaps a q' = true.
Proof. unfold overlaps, within. intros. lia. Qed.

Lemma hull_within c1 c2 r1 r2 : within c1 r1 -> within c2 r2 -> within (hull c1 c2) (hull r1 r2).
Proof. unfold within, hull; cbn. lia. Qed.

Lemma cross_hull a c1 c2 r1 r2 :
  within c1 r1 -> within c2 r2 ->
  (minx c1 <= maxx c1 /\ miny c1 <= maxy c1 /\ minx c2 <= maxx c2 /\ miny c2 <= maxy c2)%Z ->
  overlaps a (hull c1 c2) = true -> overlaps a (hull r1 r2) = true.
Proof.
  intros H1 H2 Hwf Ho. apply (overlaps_mono a (hull c1 c2)); auto using hull_within;
    unfold hull; cbn; lia.
Qed.

(* ---------- DEL and DROP ---------- *)

Theorem del_candidate r k h a robj :
  reg_inv r -> In h (hooks r) -> h_key h = k -> h_area h = Some a -> overlaps a robj = true ->
  In h (candidates r k None (Some robj)).
Proof.
  intros Hi Hin Hk Ha Ho. apply (candidates_local r k None (Some robj) h Hi).
  split; [assumption|]. split; [assumption|]. unfold cand_cond. rewrite Ha, Ho.
  rewrite andb_false_r. cbn. apply orb_true_r.
Qed.

Theorem drop_candidates r k h :
  reg_inv r ->
  (In h (candidates r k None None) <-> In h (hooks r) /\ h_key h = k /\ detects (h_detect h) DOutside = true).
Proof.
  intro Hi. rewrite (candidates_local r k None None h Hi). unfold cand_cond.
  destruct (h_area h); cbn; rewrite ?andb_false_r, ?orb_false_r; tauto.
Qed.
