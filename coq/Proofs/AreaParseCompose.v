(* The area parsers (Proofs/AreaParseProofs.v) composed with the index theorem
   (Proofs/SearchProofs.v search_equals_test): same tokens => same ids. *)
From Coq Require Import List Bool ZArith NArith.
From T38 Require Import Base.Bytes Model.Float32 Model.Collection Model.Search Model.AreaParse
  Proofs.CollectionProofs Proofs.SearchProofs Proofs.AreaParseProofs.
Import ListNotations.

Section Compose.
  Variable lower : bytes -> bytes.
  Variable pf : bytes -> option Z.
  Variable gj_ok : bytes -> bool.
  Variable sec_ok : Z -> Z -> Z -> Z -> Z -> bool.
  Variable lookup : bytes -> bytes -> lookupT.

  (* [denote]: the geojson object a constructor term stands for; [hits]: the predicate the command
     word and the TEST word both select (Within or Intersects) *)
  Lemma tokens_search_equals_test (Q : Type) (denote : area -> Q) (qrect : Q -> rect64)
        (hits : obj -> Q -> bool) c cmd fence isect vs r :
    is_nearby cmd = false ->
    search_area lower pf gj_ok sec_ok lookup cmd fence false false vs = Ok r ->
    tile_z_unsigned lower vs = true ->
    s_mvt r = false -> plain (s_obj r) = true ->
    Wf c ->
    (forall o, o_empty o = false -> hits o (denote (s_obj r)) = true ->
               overlap64 (o_rect o) (qrect (denote (s_obj r)))) ->
    (forall o, o_empty o = false -> hits o (denote (s_obj r)) = true -> o_spatial o = true) ->
    exists a, test_tail lower pf gj_ok sec_ok lookup isect false vs = TOk false a /\
      (forall o, In o (search Q qrect hits c (denote (s_obj r))) <-> In o (test_spec Q hits c (denote a))) /\
      NoDup (map o_id (search Q qrect hits c (denote (s_obj r)))).
  Proof.
    intros Hnb Hs Hu Hmvt Hp Hwf H1 H2. exists (s_obj r). split.
    - rewrite (search_ok_test_same lower pf gj_ok sec_ok lookup cmd fence isect vs r Hnb Hs Hu).
      unfold expected_test. rewrite Hmvt. destruct (s_obj r); try discriminate; reflexivity.
    - apply search_equals_test; assumption.
  Qed.
End Compose.
