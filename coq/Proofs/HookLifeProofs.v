(* Proofs/HookLifeProofs.v — lemmas about the hook / channel life-cycle model (Model/HookLife.v).

   1. the registry invariant [Inv]: names sorted and unique, every hook filed under its own name,
      hookExpires sorted by (deadline, name) and EXACT: an entry (d, n) is present iff the hook
      registered under n has deadline d;  preserved by every command and by the sweeper;
   2. an un-logged command leaves the registry (index included) unchanged;
   3. [er]-simulation: a command applied at two clocks to registries that agree up to deadline
      values yields registries that agree up to deadline values;
   4. replay: the log of a program (commands at their own clock readings, sweeper passes in
      between), replayed from the same registry at ANY clock, reproduces the live registry up to
      deadline values; crash prefixes; the frozen-clock instance of Model/Replay.v;
   5. the sweeper: never early, complete, one DELHOOK / DELCHAN record of the right kind per victim,
      in index order;  no stale timer;  listing sizes. *)
From Coq Require Import String.
From Coq Require Import List Bool ZArith NArith Lia Sorted.
From Coq Require Import ZifyN ZifyNat ZifyBool.
From T38 Require Import Base.Bytes Base.SMap Model.Spec Model.Glob Model.HookLife.
From T38 Require Model.Expire Proofs.ExpireProofs Model.Keyspace Proofs.GlobProofs.
From T38 Require Model.Resp Model.Aof Proofs.RespProofs Proofs.AofProofs Model.Replay Proofs.ReplayProofs.
Import ListNotations.
Local Open Scope list_scope.
Local Open Scope Z_scope.

Notation entry := Expire.entry.
Notation isorted := ExpireProofs.sorted.

(* ---------- small facts ---------- *)

Lemma list_eqb_eq {A} (eqb : A -> A -> bool) (Heq : forall x y, eqb x y = true -> x = y) :
  forall a b, list_eqb eqb a b = true -> a = b.
Proof.
  induction a as [|x a IH]; destruct b as [|y b]; cbn; try discriminate; [reflexivity|].
  intros H. apply andb_prop in H as [H1 H2]. rewrite (Heq _ _ H1), (IH _ H2). reflexivity.
Qed.

Lemma meta_eqb_eq a b : meta_eqb a b = true -> a = b.
Proof.
  unfold meta_eqb. intros H. apply andb_prop in H as [H1 H2].
  apply bytes_eqb_eq in H1, H2. destruct a, b; cbn in *; subst; reflexivity.
Qed.

Lemma ex_eqb_eq a b : ex_eqb a b = true -> a = b.
Proof. destruct a, b; cbn; try discriminate; [|reflexivity]. intros H. apply Z.eqb_eq in H. subst; reflexivity. Qed.

Lemma ex_eqb_refl a : ex_eqb a a = true.
Proof. destruct a; cbn; [apply Z.eqb_refl | reflexivity]. Qed.

(* Hook.Equals: everything but the kind *)
Lemma hook_equals_fields p h : hook_equals p h = true ->
  h_key p = h_key h /\ h_name p = h_name h /\ h_ex p = h_ex h /\ h_eps p = h_eps h /\
  h_metas p = h_metas h /\ h_args p = h_args h.
Proof.
  unfold hook_equals.
  destruct (bytes_eqb (h_key p) (h_key h)) eqn:E1; cbn [negb orb]; [|discriminate].
  destruct (bytes_eqb (h_name p) (h_name h)) eqn:E2; cbn [negb orb]; [|discriminate].
  destruct (Nat.eqb (length (h_eps p)) (length (h_eps h))); cbn [negb orb]; [|discriminate].
  destruct (Nat.eqb (length (h_metas p)) (length (h_metas h))); cbn [negb orb]; [|discriminate].
  destruct (ex_eqb (h_ex p) (h_ex h)) eqn:E3; cbn [negb]; [|discriminate].
  destruct (list_eqb bytes_eqb (h_eps p) (h_eps h)) eqn:E4; cbn [negb]; [|discriminate].
  destruct (list_eqb meta_eqb (h_metas p) (h_metas h)) eqn:E5; cbn [negb]; [|discriminate].
  intros E6.
  apply bytes_eqb_eq in E1, E2. apply ex_eqb_eq in E3.
  apply (list_eqb_eq bytes_eqb (fun x y H => proj1 (bytes_eqb_eq x y) H)) in E4, E6.
  apply (list_eqb_eq meta_eqb meta_eqb_eq) in E5. repeat split; assumption.
Qed.

Lemma hook_equals_eq p h : hook_equals p h = true -> h_chan p = h_chan h -> p = h.
Proof.
  intros H Hc. destruct (hook_equals_fields p h H) as (A & B & C & D & E & F).
  destruct p, h; cbn in *; subst; reflexivity.
Qed.

Lemma eqb_bool_true a b : Bool.eqb a b = true -> a = b.
Proof. destruct a, b; cbn; congruence. Qed.

Lemma insert_present x l : In x l -> isorted l -> Expire.insert x l = l.
Proof.
  intros Hin Hs. induction l as [|y r IH]; [destruct Hin|]. cbn.
  destruct (Expire.entry_eqb x y) eqn:E; [reflexivity|].
  assert (Hne : x <> y) by (intros ->; rewrite ExpireProofs.entry_eqb_refl in E; discriminate).
  destruct Hin as [->|Hin]; [congruence|].
  inversion Hs as [|? ? Hr Hall]; subst. rewrite Forall_forall in Hall.
  destruct (Hall x Hin) as [Hyx Hn].
  destruct (Expire.ple x y) eqn:P.
  - exfalso. apply Hne. apply ExpireProofs.ple_antisym; assumption.
  - rewrite (IH Hin Hr). reflexivity.
Qed.

(* ---------- the invariant ---------- *)

Definition named (m : smap hook) : Prop := Forall (fun kv => h_name (snd kv) = fst kv) m.

Definition idx_exact (s : state) : Prop :=
  forall e, In e (hexp s) <-> exists h, get (snd e) (hooks s) = Some h /\ h_ex h = Some (fst e).

Record Inv (s : state) : Prop := mkInv {
  inv_sorted : msorted (hooks s);
  inv_named : named (hooks s);
  inv_isorted : isorted (hexp s);
  inv_exact : idx_exact s;
  inv_nonempty : Forall (fun kv : bytes * hook => fst kv <> []) (hooks s)   (* cmdSetHook refuses the empty name *)
}.

Lemma inv_empty : Inv empty.
Proof.
  split; cbn; [apply msorted_nil | constructor | constructor | | constructor].
  intros e; cbn. split; [intros [] | intros [h [H _]]; discriminate].
Qed.

Lemma named_get m n h : named m -> get n m = Some h -> h_name h = n.
Proof. intros Hn Hg. exact (Forall_get (fun kv => h_name (snd kv) = fst kv) n m h Hn Hg). Qed.

Lemma in_idx_drop p l e : isorted l ->
  (In e (idx_drop p l) <-> In e l /\ (forall d, h_ex p = Some d -> e <> (d, h_name p))).
Proof.
  intros Hs. unfold idx_drop. destruct (h_ex p) as [d|].
  - rewrite (ExpireProofs.In_remove (d, h_name p) l e Hs). split.
    + intros [H1 H2]. split; [exact H1|]. intros d' Hd. inversion Hd; subst. exact H2.
    + intros [H1 H2]. split; [exact H1 | apply H2; reflexivity].
  - split; [intros H; split; [exact H | discriminate] | intros [H _]; exact H].
Qed.

Lemma in_idx_set h l e : In e (idx_set h l) <-> In e l \/ (h_ex h = Some (fst e) /\ snd e = h_name h).
Proof.
  unfold idx_set. destruct (h_ex h) as [d|].
  - rewrite ExpireProofs.In_insert. split.
    + intros [->|H]; [right; cbn; split; reflexivity | left; exact H].
    + intros [H|[H1 H2]]; [right; exact H | left]. inversion H1; subst. destruct e; cbn in *; subst; reflexivity.
  - split; [intros H; left; exact H | intros [H|[H _]]; [exact H | discriminate]].
Qed.

Lemma idx_drop_sorted p l : isorted l -> isorted (idx_drop p l).
Proof. intros Hs. unfold idx_drop. destruct (h_ex p); [apply ExpireProofs.remove_sorted|]; exact Hs. Qed.

Lemma idx_set_sorted h l : isorted l -> isorted (idx_set h l).
Proof. intros Hs. unfold idx_set. destruct (h_ex h); [apply ExpireProofs.insert_sorted|]; exact Hs. Qed.

(* the one step every mutation is made of: the hook filed under n is removed (with its index
   entry) and optionally replaced by h (with its index entry) *)
Lemma inv_replace s n (newh : option hook) :
  Inv s ->
  (forall h, newh = Some h -> h_name h = n /\ n <> []) ->
  let prev := get n (hooks s) in
  let hooks' := match newh with Some h => set n h (del n (hooks s)) | None => del n (hooks s) end in
  let idx1 := match prev with Some p => idx_drop p (hexp s) | None => hexp s end in
  let idx' := match newh with Some h => idx_set h idx1 | None => idx1 end in
  Inv (mkState hooks' idx').
Proof.
  intros [Hs Hn Hi He Hnz] Hname0 prev hooks' idx1 idx'.
  assert (Hname : forall h, newh = Some h -> h_name h = n) by (intros h Hh; apply (Hname0 h Hh)).
  assert (Hs1 : isorted idx1).
  { unfold idx1. destruct prev; [apply idx_drop_sorted|]; exact Hi. }
  (* membership in idx1: the entries of the other names *)
  assert (H1 : forall e, In e idx1 <-> In e (hexp s) /\ snd e <> n).
  { intros e. unfold idx1. destruct prev as [p|] eqn:Ep; unfold prev in Ep.
    - rewrite (in_idx_drop p (hexp s) e Hi). pose proof (named_get _ _ _ Hn Ep) as Hpn. split.
      + intros [Hin Hne]. split; [exact Hin|]. intros Hsn.
        apply He in Hin as [h [Hg Hx]]. rewrite Hsn, Ep in Hg. inversion Hg; subst h.
        apply (Hne (fst e) Hx). destruct e; cbn in *; subst; reflexivity.
      + intros [Hin Hne]. split; [exact Hin|]. intros d _ ->. cbn in Hne. congruence.
    - split.
      + intros Hin. split; [exact Hin|]. intros Hsn. apply He in Hin as [h [Hg _]]. rewrite Hsn, Ep in Hg. discriminate.
      + intros [Hin _]; exact Hin. }
  assert (Hsd : msorted (del n (hooks s))) by (apply msorted_del; exact Hs).
  split; cbn [hooks hexp].
  - unfold hooks'. destruct newh; [apply msorted_set|]; exact Hsd.
  - unfold hooks'. destruct newh as [h|].
    + apply Forall_set; [apply Forall_del; exact Hn | cbn; apply Hname; reflexivity].
    + apply Forall_del; exact Hn.
  - unfold idx'. destruct newh; [apply idx_set_sorted|]; exact Hs1.
  - intros e. cbn [hooks hexp]. unfold idx', hooks'. destruct newh as [h|].
    + rewrite in_idx_set, H1. pose proof (Hname h eq_refl) as Hhn. split.
      * intros [[Hin Hne]|[Hx Hsn]].
        -- apply He in Hin as [h' [Hg Hx]]. exists h'. split; [|exact Hx].
           rewrite get_set_other by exact Hne. rewrite get_del_other by exact Hne. exact Hg.
        -- exists h. split; [|exact Hx]. rewrite Hsn, Hhn. apply get_set_same.
      * intros [h' [Hg Hx]]. destruct (bytes_eqb (snd e) n) eqn:En.
        -- apply bytes_eqb_eq in En. rewrite En, get_set_same in Hg. inversion Hg; subst h'.
           right. split; [exact Hx | congruence].
        -- apply eqb_false_neq in En. rewrite get_set_other in Hg by exact En. rewrite get_del_other in Hg by exact En.
           left. split; [apply He; exists h'; split; assumption | exact En].
    + rewrite H1. split.
      * intros [Hin Hne]. apply He in Hin as [h' [Hg Hx]]. exists h'. split; [|exact Hx].
        rewrite get_del_other by exact Hne. exact Hg.
      * intros [h' [Hg Hx]]. destruct (bytes_eqb (snd e) n) eqn:En.
        -- apply bytes_eqb_eq in En. rewrite En, get_del_same in Hg by exact Hs. discriminate.
        -- apply eqb_false_neq in En. rewrite get_del_other in Hg by exact En.
           split; [apply He; exists h'; split; assumption | exact En].
  - unfold hooks'. destruct newh as [h|].
    + apply Forall_set; [apply Forall_del; exact Hnz | cbn; apply (Hname0 h eq_refl)].
    + apply Forall_del; exact Hnz.
Qed.

Lemma inv_delhook_op s n c : Inv s -> Inv (fst (delhook_op s n c)).
Proof.
  intros Hi. unfold delhook_op. destruct (get n (hooks s)) as [h|] eqn:Eg; [|exact Hi].
  destruct (negb (Bool.eqb (h_chan h) c)); [exact Hi|]. cbn [fst].
  pose proof (inv_replace s n None Hi ltac:(discriminate)) as H. cbn zeta in H. rewrite Eg in H. exact H.
Qed.

Lemma inv_reg_sethook s h : h_name h <> [] -> Inv s -> Inv (fst (fst (reg_sethook s h))).
Proof.
  intros Hnn Hi. unfold reg_sethook. destruct (get (h_name h) (hooks s)) as [p|] eqn:Eg.
  - destruct (negb (Bool.eqb (h_chan p) (h_chan h))); [exact Hi|].
    destruct (hook_equals p h) eqn:Eq; cbn [fst].
    + (* Equals: the index gets the entry it already has *)
      destruct (hook_equals_fields p h Eq) as (_ & _ & Hex & _).
      destruct Hi as [Hs Hn Hsi He Hne]. split; cbn [hooks hexp]; try assumption; [apply idx_set_sorted; exact Hsi|].
      intros e. cbn [hooks hexp]. rewrite in_idx_set. split.
      * intros [Hin|[Hx Hsn]]; [apply He; exact Hin|]. exists p. rewrite Hsn. split; [exact Eg | congruence].
      * intros Hex'. left. apply He. exact Hex'.
    + pose proof (inv_replace s (h_name h) (Some h) Hi ltac:(intros ? H; inversion H; subst; split; [reflexivity | exact Hnn])) as H.
      cbn zeta in H. rewrite Eg in H. exact H.
  - cbn [fst]. pose proof (inv_replace s (h_name h) (Some h) Hi ltac:(intros ? H; inversion H; subst; split; [reflexivity | exact Hnn])) as H.
    cbn zeta in H. rewrite Eg in H. rewrite (del_absent _ _ Eg) in H. exact H.
Qed.

Ltac destruct_innermost :=
  repeat match goal with
         | |- context [match ?x with _ => _ end] =>
             lazymatch x with
             | context [match _ with _ => _ end] => fail
             | _ => destruct x
             end
         end.

(* the hook cmdSetHook builds carries the name and kind of the command, and the name is not empty *)
Lemma parse_sethook_name O now args c h : parse_sethook O now args c = inl h ->
  h_name h <> [] /\ h_chan h = c /\ tl args <> [] /\ h_name h = hd [] (tl args).
Proof.
  unfold parse_sethook. destruct (tl args) as [|name vs1]; [discriminate|].
  destruct (isnil name) eqn:En; [discriminate|].
  assert (Hne : name <> []) by (destruct name; [discriminate | discriminate]).
  destruct_innermost; try discriminate; intros H; inversion H; subst; cbn; repeat split; try assumption; discriminate.
Qed.

Lemma inv_cmd_sethook O now s args c : Inv s -> Inv (fst (fst (cmd_sethook O now s args c))).
Proof.
  intros Hi. unfold cmd_sethook. destruct (parse_sethook O now args c) as [h|e] eqn:Ep; [|exact Hi].
  apply inv_reg_sethook; [exact (proj1 (parse_sethook_name O now args c h Ep)) | exact Hi].
Qed.

Lemma inv_cmd_delhook s args c : Inv s -> Inv (fst (fst (cmd_delhook s args c))).
Proof.
  intros Hi. unfold cmd_delhook. destruct (tl args) as [|name [|x r]]; try exact Hi.
  destruct (isnil name); [exact Hi|].
  pose proof (inv_delhook_op s name c Hi) as H. destruct (delhook_op s name c) as [s' u]. exact H.
Qed.

Lemma inv_fold_del c (hs : list hook) : forall s, Inv s ->
  Inv (fold_left (fun s h => fst (delhook_op s (h_name h) c)) hs s).
Proof.
  induction hs as [|h hs IH]; intros s Hi; cbn; [exact Hi|]. apply IH. apply inv_delhook_op. exact Hi.
Qed.

Lemma inv_cmd_pdelhook s args c : Inv s -> Inv (fst (fst (cmd_pdelhook s args c))).
Proof.
  intros Hi. unfold cmd_pdelhook. destruct (tl args) as [|pat [|x r]]; try exact Hi.
  destruct (isnil pat); [exact Hi|]. cbn [fst]. apply inv_fold_del. exact Hi.
Qed.

Lemma inv_cmd_hooks now s args c : fst (fst (cmd_hooks now s args c)) = s.
Proof.
  unfold cmd_hooks. destruct (tl args) as [|pat [|x r]]; try reflexivity. destruct (isnil pat); reflexivity.
Qed.

Lemma inv_cmd_flushdb s args : Inv s -> Inv (fst (fst (cmd_flushdb s args))).
Proof.
  intros Hi. unfold cmd_flushdb. destruct args as [|a [|b r]]; try exact Hi. exact inv_empty.
Qed.

Theorem inv_exec O now s args : Inv s -> Inv (fst (fst (exec O now s args))).
Proof.
  intros Hi. unfold exec. destruct args as [|a0 rest]; [exact Hi|].
  repeat match goal with |- context [if ?b then _ else _] => destruct b end;
    try (apply inv_cmd_sethook; exact Hi); try (apply inv_cmd_delhook; exact Hi);
    try (apply inv_cmd_pdelhook; exact Hi); try (rewrite inv_cmd_hooks; exact Hi);
    try (apply inv_cmd_flushdb; exact Hi); exact Hi.
Qed.

(* ---------- an un-logged command leaves the registry as it was ---------- *)

Lemma noupd_delhook_op s n c s' : delhook_op s n c = (s', false) -> s' = s.
Proof.
  unfold delhook_op. destruct (get n (hooks s)) as [h|]; [|intros H; inversion H; reflexivity].
  destruct (negb (Bool.eqb (h_chan h) c)); intros H; inversion H; reflexivity.
Qed.

Lemma noupd_reg_sethook s h s' r : Inv s -> reg_sethook s h = (s', r, false) -> s' = s.
Proof.
  intros Hi. unfold reg_sethook. destruct (get (h_name h) (hooks s)) as [p|] eqn:Eg; [|intros H; inversion H].
  destruct (negb (Bool.eqb (h_chan p) (h_chan h))); [intros H; inversion H; reflexivity|].
  destruct (hook_equals p h) eqn:Eq; [|intros H; inversion H].
  intros H; inversion H; subst; clear H.
  destruct (hook_equals_fields p h Eq) as (_ & _ & Hex & _).
  destruct s as [hk ix]; cbn [hooks hexp] in *. f_equal.
  unfold idx_set. destruct (h_ex h) as [d|] eqn:Ed; [|reflexivity].
  apply insert_present; [|exact (inv_isorted _ Hi)].
  apply (inv_exact _ Hi). cbn [snd fst hooks]. exists p. split; [exact Eg | congruence].
Qed.

Theorem noupd_exec O now s args s' r : Inv s -> exec O now s args = (s', r, false) -> s' = s.
Proof.
  intros Hi. unfold exec. destruct args as [|a0 rest]; [intros H; inversion H; reflexivity|].
  set (args := a0 :: rest).
  assert (Hset : forall c, cmd_sethook O now s args c = (s', r, false) -> s' = s).
  { intros c. unfold cmd_sethook. destruct (parse_sethook O now args c); [apply noupd_reg_sethook; exact Hi|].
    intros H; inversion H; reflexivity. }
  assert (Hdel : forall c, cmd_delhook s args c = (s', r, false) -> s' = s).
  { intros c. unfold cmd_delhook. destruct (tl args) as [|name [|x rr]]; try (intros H; inversion H; reflexivity).
    destruct (isnil name); [intros H; inversion H; reflexivity|].
    destruct (delhook_op s name c) as [s1 u] eqn:Ed. intros H; inversion H; subst.
    eapply noupd_delhook_op; exact Ed. }
  assert (Hpdel : forall c, cmd_pdelhook s args c = (s', r, false) -> s' = s).
  { intros c. unfold cmd_pdelhook. destruct (tl args) as [|pat [|x rr]]; try (intros H; inversion H; reflexivity).
    destruct (isnil pat); [intros H; inversion H; reflexivity|].
    destruct (filter (fun h : hook => Bool.eqb (h_chan h) c) (by_pattern pat c (hooks s))) as [|h hs];
      intros H; inversion H; reflexivity. }
  assert (Hls : forall c, cmd_hooks now s args c = (s', r, false) -> s' = s).
  { intros c H. pose proof (inv_cmd_hooks now s args c) as E. rewrite H in E. exact E. }
  assert (Hfl : cmd_flushdb s args = (s', r, false) -> s' = s).
  { unfold cmd_flushdb. destruct args as [|a [|b rr]]; intros H; inversion H; reflexivity. }
  repeat match goal with |- context [if ?b then _ else _] => destruct b end;
    first [exact (Hset _) | exact (Hdel _) | exact (Hpdel _) | exact (Hls _) | exact Hfl | (intros H; inversion H; reflexivity)].
Qed.

(* ---------- ≈ex: a command at two clocks ---------- *)

Lemma er_state hk ix : er (mkState hk ix) = smap_map erase_hook hk.
Proof. reflexivity. Qed.

Lemma get_er n s : get n (er s) = option_map erase_hook (get n (hooks s)).
Proof. unfold er. apply get_map. Qed.

Lemma er_msorted s : Inv s -> msorted (er s).
Proof. intros Hi. unfold er. apply msorted_map. exact (inv_sorted _ Hi). Qed.

Lemma erase_name h : h_name (erase_hook h) = h_name h. Proof. reflexivity. Qed.
Lemma erase_chan h : h_chan (erase_hook h) = h_chan h. Proof. reflexivity. Qed.

(* the clock enters cmdSetHook only through the deadline of the hook it builds *)
Lemma parse_sethook_clock O t t' args c :
  match parse_sethook O t args c, parse_sethook O t' args c with
  | inl h, inl h' => erase_hook h = erase_hook h'
  | inr e, inr e' => e = e'
  | _, _ => False
  end.
Proof.
  unfold parse_sethook.
  repeat match goal with
         | |- context [match ?x with _ => _ end] =>
             lazymatch x with
             | context [match _ with _ => _ end] => fail
             | _ => destruct x
             end
         end; try reflexivity.
Qed.

Lemma er_get_rel s s' n : er s = er s' ->
  match get n (hooks s), get n (hooks s') with
  | Some p, Some p' => erase_hook p = erase_hook p'
  | None, None => True
  | _, _ => False
  end.
Proof.
  intros E. pose proof (get_er n s) as A. pose proof (get_er n s') as B. rewrite E in A. rewrite A in B.
  destruct (get n (hooks s)), (get n (hooks s')); cbn in B; try discriminate; [|exact I].
  exact (f_equal (fun o => match o with Some x => x | None => erase_hook h end) B).
Qed.

Lemma er_reg_sethook s s' h h' : Inv s -> Inv s' -> er s = er s' -> erase_hook h = erase_hook h' ->
  er (fst (fst (reg_sethook s h))) = er (fst (fst (reg_sethook s' h'))).
Proof.
  intros Hi Hi' E Eh.
  assert (Hn : h_name h = h_name h') by (apply (f_equal h_name) in Eh; exact Eh).
  assert (Hc : h_chan h = h_chan h') by (apply (f_equal h_chan) in Eh; exact Eh).
  unfold reg_sethook. rewrite <- Hn, <- Hc.
  pose proof (er_get_rel s s' (h_name h) E) as R.
  destruct (get (h_name h) (hooks s)) as [p|] eqn:Eg, (get (h_name h) (hooks s')) as [p'|] eqn:Eg'; try contradiction.
  - assert (Hpc : h_chan p = h_chan p') by (apply (f_equal h_chan) in R; exact R).
    rewrite <- Hpc. destruct (negb (Bool.eqb (h_chan p) (h_chan h))) eqn:Ek; [exact E|].
    assert (Hk : h_chan p = h_chan h) by (apply negb_false_iff, eqb_bool_true in Ek; exact Ek).
    assert (Hset : forall q, set (h_name h) (erase_hook q) (del (h_name h) (er s)) = set (h_name h) (erase_hook q) (er s)).
    { intros q. apply set_del_same. apply er_msorted; exact Hi. }
    destruct (hook_equals p h) eqn:Q, (hook_equals p' h') eqn:Q'; cbn [fst]; rewrite ?er_state.
    + exact E.
    + (* live: nothing to do; replay: replaced by an ≈ex-equal hook *)
      pose proof (hook_equals_eq p h Q Hk) as ->.
      rewrite set_map, del_map. fold (er s'). rewrite <- E, Hset, <- Eh.
      symmetry. apply set_same; [apply er_msorted; exact Hi|]. fold (er s). rewrite get_er, Eg. reflexivity.
    + pose proof (hook_equals_eq p' h' Q' ltac:(congruence)) as ->.
      rewrite set_map, del_map. fold (er s). rewrite Hset, Eh, E.
      apply set_same; [apply er_msorted; exact Hi'|]. fold (er s'). rewrite get_er, Eg'. reflexivity.
    + rewrite !set_map, !del_map. fold (er s) (er s'). rewrite E, Eh. reflexivity.
  - cbn [fst]. rewrite !er_state, !set_map. fold (er s) (er s'). rewrite E, Eh. reflexivity.
Qed.

Lemma er_delhook_op s s' n c : er s = er s' ->
  er (fst (delhook_op s n c)) = er (fst (delhook_op s' n c)).
Proof.
  intros E. unfold delhook_op. pose proof (er_get_rel s s' n E) as R.
  destruct (get n (hooks s)) as [p|], (get n (hooks s')) as [p'|]; try contradiction; [|exact E].
  assert (Hpc : h_chan p = h_chan p') by (apply (f_equal h_chan) in R; exact R). rewrite <- Hpc.
  destruct (negb (Bool.eqb (h_chan p) c)); [exact E|]. cbn [fst]. rewrite !er_state, !del_map.
  fold (er s) (er s'). rewrite E. reflexivity.
Qed.

Lemma er_cmd_delhook s s' args c : er s = er s' ->
  er (fst (fst (cmd_delhook s args c))) = er (fst (fst (cmd_delhook s' args c))).
Proof.
  intros E. unfold cmd_delhook. destruct (tl args) as [|name [|x r]]; try exact E.
  destruct (isnil name); [exact E|].
  pose proof (er_delhook_op s s' name c E) as H.
  destruct (delhook_op s name c), (delhook_op s' name c). exact H.
Qed.

Lemma drop_below_map {A B} (f : A -> B) lo (m : smap A) :
  Keyspace.drop_below lo (smap_map f m) = smap_map f (Keyspace.drop_below lo m).
Proof.
  induction m as [|[k v] m IH]; [reflexivity|]. cbn. destruct (bytes_ltb k lo); [exact IH | reflexivity].
Qed.

Lemma take_upto_map {A B} (f : A -> B) hi incl (m : smap A) :
  Keyspace.take_upto hi incl (smap_map f m) = smap_map f (Keyspace.take_upto hi incl m).
Proof.
  induction m as [|[k v] m IH]; [reflexivity|]. cbn.
  destruct (if incl then bytes_gtb k hi else bytes_geb k hi); [reflexivity|]. cbn. f_equal. exact IH.
Qed.

Lemma vals_map {A B} (f : A -> B) (m : smap A) : vals (smap_map f m) = map f (vals m).
Proof. unfold vals, smap_map. rewrite !map_map. reflexivity. Qed.

Lemma filter_map_comm {A B} (f : A -> B) (P : B -> bool) l : filter P (map f l) = map f (filter (fun x => P (f x)) l).
Proof. induction l as [|x l IH]; [reflexivity|]. cbn. destruct (P (f x)); cbn; rewrite IH; reflexivity. Qed.

Lemma by_pattern_er pat c (m : smap hook) :
  by_pattern pat c (smap_map erase_hook m) = map erase_hook (by_pattern pat c m).
Proof.
  unfold by_pattern, hook_range.
  rewrite drop_below_map. destruct (isnil (g_lim1 (parse pat false))); [|rewrite take_upto_map];
    rewrite vals_map, filter_map_comm; reflexivity.
Qed.

Lemma er_fold_del c : forall (hs hs' : list hook), map h_name hs = map h_name hs' ->
  forall s s', er s = er s' ->
  er (fold_left (fun s h => fst (delhook_op s (h_name h) c)) hs s) =
  er (fold_left (fun s h => fst (delhook_op s (h_name h) c)) hs' s').
Proof.
  induction hs as [|h hs IH]; intros [|h' hs'] Hm s s' E; try discriminate; [exact E|].
  cbn in Hm. inversion Hm as [[Hn Hr]]. cbn. apply IH; [exact Hr|]. rewrite Hn. apply er_delhook_op. exact E.
Qed.

Lemma pdel_names pat c s s' : er s = er s' ->
  map h_name (filter (fun h => Bool.eqb (h_chan h) c) (by_pattern pat c (hooks s))) =
  map h_name (filter (fun h => Bool.eqb (h_chan h) c) (by_pattern pat c (hooks s'))).
Proof.
  intros E.
  assert (H : forall t, map h_name (filter (fun h => Bool.eqb (h_chan h) c) (by_pattern pat c (hooks t))) =
                        map h_name (filter (fun h => Bool.eqb (h_chan h) c) (by_pattern pat c (er t)))).
  { intros t. unfold er. rewrite by_pattern_er, filter_map_comm, map_map. reflexivity. }
  rewrite (H s), (H s'), E. reflexivity.
Qed.

Lemma er_cmd_pdelhook s s' args c : er s = er s' ->
  er (fst (fst (cmd_pdelhook s args c))) = er (fst (fst (cmd_pdelhook s' args c))).
Proof.
  intros E. unfold cmd_pdelhook. destruct (tl args) as [|pat [|x r]]; try exact E.
  destruct (isnil pat); [exact E|]. cbn [fst]. apply er_fold_del; [apply pdel_names; exact E | exact E].
Qed.

Theorem er_exec O t t' s s' args : Inv s -> Inv s' -> er s = er s' ->
  er (fst (fst (exec O t s args))) = er (fst (fst (exec O t' s' args))).
Proof.
  intros Hi Hi' E. unfold exec. destruct args as [|a0 rest]; [exact E|].
  set (args := a0 :: rest).
  assert (Hset : forall c, er (fst (fst (cmd_sethook O t s args c))) = er (fst (fst (cmd_sethook O t' s' args c)))).
  { intros c. unfold cmd_sethook. pose proof (parse_sethook_clock O t t' args c) as P.
    destruct (parse_sethook O t args c) as [h|e], (parse_sethook O t' args c) as [h'|e']; try contradiction; [|exact E].
    apply er_reg_sethook; assumption. }
  assert (Hfl : er (fst (fst (cmd_flushdb s args))) = er (fst (fst (cmd_flushdb s' args)))).
  { unfold cmd_flushdb. destruct args as [|a [|b r]]; try exact E. reflexivity. }
  repeat match goal with |- context [if ?b then _ else _] => destruct b end;
    first [exact (Hset _) | apply er_cmd_delhook; exact E | apply er_cmd_pdelhook; exact E
          | rewrite !inv_cmd_hooks; exact E | exact Hfl | exact E].
Qed.

(* ---------- replay ---------- *)

Definition tcmd := (Z * list bytes)%type.
Definition cstep (O : oracle) (s : state) (c : tcmd) : state := fst (fst (exec O (fst c) s (snd c))).
Definition crun (O : oracle) (p : list tcmd) (s0 : state) : state := fold_left (cstep O) p s0.
Fixpoint clog (O : oracle) (p : list tcmd) (s : state) : list (list bytes) :=
  match p with
  | [] => []
  | c :: p' => logrec (snd c) (snd (exec O (fst c) s (snd c))) ++ clog O p' (cstep O s c)
  end.

Lemma inv_crun O p : forall s, Inv s -> Inv (crun O p s).
Proof. induction p as [|c p IH]; intros s Hi; cbn; [exact Hi|]. apply IH. apply inv_exec. exact Hi. Qed.

Lemma inv_replay_at O clk l : forall i s, Inv s -> Inv (replay_at O clk i l s).
Proof. induction l as [|c l IH]; intros i s Hi; cbn; [exact Hi|]. apply IH. apply inv_exec. exact Hi. Qed.

Lemma crun_app O p1 p2 s : crun O (p1 ++ p2) s = crun O p2 (crun O p1 s).
Proof. unfold crun. apply fold_left_app. Qed.

Lemma clog_app O p1 : forall p2 s, clog O (p1 ++ p2) s = clog O p1 s ++ clog O p2 (crun O p1 s).
Proof.
  induction p1 as [|c p1 IH]; intros p2 s; cbn; [reflexivity|]. rewrite IH, app_assoc. reflexivity.
Qed.

Lemma replay_at_app O clk l1 : forall l2 i s,
  replay_at O clk i (l1 ++ l2) s = replay_at O clk (i + length l1) l2 (replay_at O clk i l1 s).
Proof.
  induction l1 as [|c l1 IH]; intros l2 i s; cbn.
  - rewrite Nat.add_0_r. reflexivity.
  - rewrite IH. f_equal. lia.
Qed.

(* the log of a program of commands, each run at its own clock reading, replayed from a registry
   that agrees up to deadline values, at any clock: the registries agree up to deadline values *)
Lemma replay_clog O clk p : forall s s' i, Inv s -> Inv s' -> er s = er s' ->
  er (replay_at O clk i (clog O p s) s') = er (crun O p s).
Proof.
  induction p as [|[t a] p IH]; intros s s' i Hi Hi' E; [cbn; symmetry; exact E|].
  change (crun O ((t, a) :: p) s) with (crun O p (cstep O s (t, a))).
  cbn [clog fst snd]. unfold cstep. cbn [fst snd].
  destruct (exec O t s a) as [[s1 r] u] eqn:Ex. cbn [fst snd].
  assert (Hi1 : Inv s1) by (pose proof (inv_exec O t s a Hi) as H; rewrite Ex in H; exact H).
  destruct u; cbn [logrec app].
  - cbn [replay_at]. apply IH; [exact Hi1 | apply inv_exec; exact Hi' |].
    pose proof (er_exec O t (clk i) s s' a Hi Hi' E) as H. rewrite Ex in H. exact H.
  - rewrite (noupd_exec O t s a s1 r Hi Ex). apply IH; assumption.
Qed.

(* a sweeper pass is the sequence of DELHOOK / DELCHAN commands it builds, run at its clock *)
Lemma exec_delhook_msg O now s n : exec O now s [c_delhook; n] = cmd_delhook s [c_delhook; n] false.
Proof. reflexivity. Qed.
Lemma exec_delchan_msg O now s n : exec O now s [c_delchan; n] = cmd_delhook s [c_delchan; n] true.
Proof. reflexivity. Qed.

Definition is_delmsg (m : list bytes) : Prop := exists n, m = [c_delhook; n] \/ m = [c_delchan; n].

Lemma victim_msg_del s e : is_delmsg (victim_msg s e).
Proof.
  unfold victim_msg, is_delmsg. exists (snd e).
  destruct (get (snd e) (hooks s)) as [h|]; [destruct (h_chan h)|]; auto.
Qed.

Lemma sweep_step_exec O now s acc m : is_delmsg m ->
  sweep_step (s, acc) m = (cstep O s (now, m), acc ++ logrec m (snd (exec O now s m))).
Proof.
  intros [n [-> | ->]]; unfold sweep_step, cstep; cbn [fst snd hd].
  - rewrite exec_delhook_msg. change (bytes_eqb c_delhook c_delchan) with false.
    destruct (cmd_delhook s [c_delhook; n] false) as [[s' r] u]. reflexivity.
  - rewrite exec_delchan_msg. change (bytes_eqb c_delchan c_delchan) with true.
    destruct (cmd_delhook s [c_delchan; n] true) as [[s' r] u]. reflexivity.
Qed.

Lemma sweep_fold_cmds O now ms : Forall is_delmsg ms -> forall s acc,
  fold_left sweep_step ms (s, acc) = (crun O (map (pair now) ms) s, acc ++ clog O (map (pair now) ms) s).
Proof.
  induction 1 as [|m ms Hm _ IH]; intros s acc; cbn [fold_left map crun clog].
  - rewrite app_nil_r. reflexivity.
  - rewrite (sweep_step_exec O now s acc m Hm), IH. cbn [fst snd]. rewrite app_assoc. reflexivity.
Qed.

Lemma sweep_as_cmds O now s :
  sweep now s = (crun O (map (pair now) (sweep_msgs now s)) s, clog O (map (pair now) (sweep_msgs now s)) s).
Proof.
  unfold sweep. rewrite (sweep_fold_cmds O now); [reflexivity|].
  unfold sweep_msgs. apply Forall_forall. intros m Hm. apply in_map_iff in Hm as [e [<- _]]. apply victim_msg_del.
Qed.

Lemma prun_flat O p : forall s, prun O p s = crun O (flat O p s) s.
Proof.
  induction p as [|st p IH]; intros s; [reflexivity|]. destruct st as [t a|t]; cbn [flat].
  - change (prun O (PCmd t a :: p) s) with (prun O p (fst (pstep_run O s (PCmd t a)))).
    cbn [pstep_run]. destruct (exec O t s a) as [[s1 r] u] eqn:Ex. cbn [fst].
    rewrite IH. cbn [crun fold_left]. unfold cstep at 2. cbn [fst snd]. rewrite Ex. reflexivity.
  - change (prun O (PSweep t :: p) s) with (prun O p (fst (pstep_run O s (PSweep t)))).
    cbn [pstep_run]. rewrite IH, crun_app. rewrite (sweep_as_cmds O t s) at 2. reflexivity.
Qed.

Lemma plog_flat O p : forall s, plog O p s = clog O (flat O p s) s.
Proof.
  induction p as [|st p IH]; intros s; [reflexivity|]. destruct st as [t a|t]; cbn [flat plog pstep_run].
  - destruct (exec O t s a) as [[s1 r] u] eqn:Ex. cbn [clog fst snd]. unfold cstep. cbn [fst snd]. rewrite Ex. cbn [fst snd].
    rewrite IH. reflexivity.
  - rewrite clog_app. destruct (sweep t s) as [s1 l] eqn:Es. rewrite IH.
    rewrite (sweep_as_cmds O t s) in Es. inversion Es; subst. reflexivity.
Qed.

Lemma inv_prun O p s : Inv s -> Inv (prun O p s).
Proof. intros Hi. rewrite prun_flat. apply inv_crun. exact Hi. Qed.

(* C03 for hooks and channels: restart at any clock *)
Theorem hk_restart_deadline_kept O clk p s0 s0' :
  Inv s0 -> Inv s0' -> er s0 = er s0' ->
  er (replay_at O clk 0 (plog O p s0) s0') = er (prun O p s0).
Proof.
  intros Hi Hi' E. rewrite plog_flat, prun_flat. apply replay_clog; assumption.
Qed.

Lemma firstn_clog O p : forall s n, exists p1 p2, p = p1 ++ p2 /\ firstn n (clog O p s) = clog O p1 s.
Proof.
  induction p as [|c p IH]; intros s n.
  - exists [], []. split; [reflexivity|]. destruct n; reflexivity.
  - cbn [clog]. destruct (snd (exec O (fst c) s (snd c))) eqn:Eu; cbn [logrec app].
    + destruct n as [|n].
      * exists [], (c :: p). split; reflexivity.
      * destruct (IH (cstep O s c) n) as [p1 [p2 [Hp Hf]]]. exists (c :: p1), p2.
        split; [cbn; rewrite Hp; reflexivity|]. cbn [firstn clog]. rewrite Eu. cbn [logrec app]. rewrite Hf. reflexivity.
    + destruct (IH (cstep O s c) n) as [p1 [p2 [Hp Hf]]]. exists (c :: p1), p2.
      split; [cbn; rewrite Hp; reflexivity|]. cbn [clog]. rewrite Eu. cbn [logrec app]. exact Hf.
Qed.

Lemma hk_inside_ge cmds : forall m k, (m <= length cmds)%nat ->
  Resp.len (Resp.encs (firstn m cmds)) <= k -> (m <= AofProofs.inside cmds k)%nat.
Proof.
  induction cmds as [|c cs IH]; intros m k Hm Hk.
  - cbn in Hm. lia.
  - destruct m as [|m]; [lia|]. cbn [firstn] in Hk.
    change (Resp.encs (c :: firstn m cs)) with (Resp.enc c ++ Resp.encs (firstn m cs)) in Hk.
    rewrite RespProofs.len_app in Hk.
    pose proof (RespProofs.len_nonneg (Resp.encs (firstn m cs))).
    cbn [AofProofs.inside]. destruct (Z.leb_spec (Resp.len (Resp.enc c)) k); [|lia].
    cbn in Hm. specialize (IH m (k - Resp.len (Resp.enc c)) ltac:(lia) ltac:(lia)). lia.
Qed.

(* C03 for hooks and channels: a kill leaves a byte prefix q of the file; start-up at any clock
   recovers, up to deadline values, the registry after a PREFIX p1 of the program (sweeper passes
   written out as the commands they run), truncates to the end of p1's log, and p1 holds every
   record that was wholly written *)
Theorem hk_crash_prefix O clk p s0 q t :
  Inv s0 -> Forall AofProofs.cmd_ok (plog O p s0) -> q ++ t = Resp.encs (plog O p s0) ->
  exists p1 p2 s1, flat O p s0 = p1 ++ p2 /\
    recover_at O clk q s0 = Some (s1, Resp.len (Resp.encs (clog O p1 s0))) /\
    er s1 = er (crun O p1 s0) /\ Inv s1 /\
    Resp.len (Resp.encs (clog O p1 s0)) <= Resp.len q /\
    (forall m, (m <= length (plog O p s0))%nat ->
               Resp.len (Resp.encs (firstn m (plog O p s0))) <= Resp.len q ->
               (m <= length (clog O p1 s0))%nat).
Proof.
  intros Hi Hok Hq.
  pose proof (AofProofs.load_whole_cut (plog O p s0) q t Hok Hq) as Hl.
  set (n := AofProofs.inside (plog O p s0) (Resp.len q)) in *.
  rewrite plog_flat in Hl.
  destruct (firstn_clog O (flat O p s0) s0 n) as [p1 [p2 [Hp Hf]]].
  rewrite Hf in Hl.
  exists p1, p2, (replay_at O clk 0 (clog O p1 s0) s0). split; [exact Hp|].
  split; [unfold recover_at; rewrite Hl; reflexivity|].
  split; [apply replay_clog; [exact Hi | exact Hi | reflexivity]|].
  split; [apply inv_replay_at; exact Hi|].
  split.
  - destruct (AofProofs.drain_cut (plog O p s0) q t (S (length q)) Hok Hq ltac:(lia)) as [left [_ Hql]].
    fold n in Hql. rewrite plog_flat in Hql at 1. rewrite Hf in Hql. apply (f_equal Resp.len) in Hql.
    rewrite RespProofs.len_app in Hql. pose proof (RespProofs.len_nonneg left). lia.
  - intros m Hm Hk. rewrite <- Hf. rewrite firstn_length.
    pose proof (hk_inside_ge (plog O p s0) m (Resp.len q) Hm Hk) as H. fold n in H.
    rewrite <- plog_flat. lia.
Qed.

(* ---------- the frozen-clock instance of Model/Replay.v (exact equality) ---------- *)

Theorem hkf_noupd O now s c : Inv s -> snd (hk_exec O now s c) = false -> fst (hk_exec O now s c) = s.
Proof.
  intros Hi. unfold hk_exec. destruct (exec O now s c) as [[s' r] u] eqn:Ex. cbn [fst snd]. intros ->.
  eapply noupd_exec; eauto.
Qed.

Lemma hkf_inv O now s c : Inv s -> Inv (fst (hk_exec O now s c)).
Proof.
  intros Hi. pose proof (inv_exec O now s c Hi) as H. unfold hk_exec.
  destruct (exec O now s c) as [[s' r] u]. exact H.
Qed.

Notation frun O now := (Replay.run state (hk_exec O now)).
Notation flogof O now := (Replay.logof state (hk_exec O now)).
Notation freplay O now := (Replay.replay state (hk_exec O now)).
Notation frecover O now := (Replay.recover state (hk_exec O now)).

Theorem hkf_replay_equiv O now p : forall s0, Inv s0 -> freplay O now (flogof O now p s0) s0 = frun O now p s0.
Proof.
  induction p as [|c p IH]; intros s0 Hi; cbn; [reflexivity|].
  destruct (hk_exec O now s0 c) as [s' upd] eqn:E.
  assert (Hs : Replay.step state (hk_exec O now) s0 c = s') by (unfold Replay.step; rewrite E; reflexivity).
  assert (Hi' : Inv s') by (pose proof (hkf_inv O now s0 c Hi) as H; rewrite E in H; exact H).
  destruct upd.
  - cbn. unfold Replay.replay, Replay.run in *. cbn. rewrite Hs. apply IH. exact Hi'.
  - assert (Heq : s' = s0) by (pose proof (hkf_noupd O now s0 c Hi) as H; rewrite E in H; cbn in H; apply H; reflexivity).
    unfold Replay.run; cbn. rewrite Hs, Heq. apply IH. exact Hi.
Qed.

Theorem hkf_crash_prefix O now p s0 q t :
  Inv s0 ->
  Forall AofProofs.cmd_ok (flogof O now p s0) -> q ++ t = Resp.encs (flogof O now p s0) ->
  exists p1 p2, p = p1 ++ p2 /\
    frecover O now q s0 = Some (frun O now p1 s0, Resp.len (Resp.encs (flogof O now p1 s0))) /\
    Resp.len (Resp.encs (flogof O now p1 s0)) <= Resp.len q /\
    (forall m, (m <= length (flogof O now p s0))%nat ->
               Resp.len (Resp.encs (firstn m (flogof O now p s0))) <= Resp.len q ->
               (m <= length (flogof O now p1 s0))%nat).
Proof.
  intros Hi Hok Hq.
  pose proof (AofProofs.load_whole_cut (flogof O now p s0) q t Hok Hq) as Hl.
  set (n := AofProofs.inside (flogof O now p s0) (Resp.len q)) in *.
  destruct (ReplayProofs.firstn_logof state (hk_exec O now) p s0 n) as [p1 [p2 [Hp Hf]]].
  exists p1, p2. split; [exact Hp|].
  unfold Replay.recover. rewrite Hl. unfold Replay.cmd in *. rewrite Hf.
  split; [rewrite (hkf_replay_equiv O now p1 s0 Hi); reflexivity|].
  split.
  - destruct (AofProofs.drain_cut (flogof O now p s0) q t (S (length q)) Hok Hq ltac:(lia)) as [left [_ Hql]].
    fold n in Hql. rewrite Hf in Hql. apply (f_equal Resp.len) in Hql. rewrite RespProofs.len_app in Hql.
    pose proof (RespProofs.len_nonneg left). lia.
  - intros m Hm Hk. rewrite <- Hf. rewrite firstn_length.
    pose proof (hk_inside_ge (flogof O now p s0) m (Resp.len q) Hm Hk) as H. fold n in H. lia.
Qed.

(* ---------- the sweeper ---------- *)

Definition del_entry (s : state) (e : entry) : state :=
  mkState (del (snd e) (hooks s)) (Expire.remove e (hexp s)).

Lemma entry_hook s e : Inv s -> In e (hexp s) ->
  exists h, get (snd e) (hooks s) = Some h /\ h_ex h = Some (fst e) /\ h_name h = snd e /\ snd e <> [].
Proof.
  intros Hi Hin. apply (inv_exact _ Hi) in Hin as [h [Hg Hx]]. exists h.
  split; [exact Hg|]. split; [exact Hx|]. split; [exact (named_get _ _ _ (inv_named _ Hi) Hg)|].
  pose proof (Forall_get (fun kv : bytes * hook => fst kv <> []) (snd e) (hooks s) h (inv_nonempty _ Hi) Hg) as H. exact H.
Qed.

(* one message of the sweeper: the hook is there, of the kind the message names, so cmdDelHook
   deletes it, drops its index entry, and the message is logged *)
Lemma sweep_step_victim s0 s acc e : Inv s -> In e (hexp s) ->
  get (snd e) (hooks s0) = get (snd e) (hooks s) ->
  sweep_step (s, acc) (victim_msg s0 e) = (del_entry s e, acc ++ [victim_msg s0 e]).
Proof.
  intros Hi Hin Hsame. destruct (entry_hook s e Hi Hin) as [h [Hg [Hx [Hn Hne]]]].
  unfold victim_msg. rewrite Hsame, Hg.
  assert (Hnil : isnil (snd e) = false) by (destruct (snd e); [congruence | reflexivity]).
  assert (Hop : forall c, c = h_chan h -> delhook_op s (snd e) c = (del_entry s e, true)).
  { intros c ->. unfold delhook_op. rewrite Hg, eqb_reflx. cbn [negb]. unfold del_entry, idx_drop. rewrite Hx, Hn.
    destruct e; reflexivity. }
  unfold sweep_step. destruct (h_chan h) eqn:Ec; cbn [hd].
  - change (bytes_eqb c_delchan c_delchan) with true. unfold cmd_delhook. cbn [tl]. rewrite Hnil, (Hop true eq_refl). reflexivity.
  - change (bytes_eqb c_delhook c_delchan) with false. unfold cmd_delhook. cbn [tl]. rewrite Hnil, (Hop false eq_refl). reflexivity.
Qed.

Lemma inv_del_entry s e : Inv s -> In e (hexp s) -> Inv (del_entry s e).
Proof.
  intros Hi Hin. destruct (entry_hook s e Hi Hin) as [h [Hg [Hx [Hn _]]]].
  pose proof (inv_replace s (snd e) None Hi ltac:(discriminate)) as H. cbn zeta in H. rewrite Hg in H.
  unfold idx_drop in H. rewrite Hx, Hn in H. unfold del_entry. destruct e; exact H.
Qed.

Lemma sweep_fold s0 (vs : list entry) : forall s acc, Inv s -> NoDup (map snd vs) ->
  (forall e, In e vs -> In e (hexp s)) ->
  (forall e, In e vs -> get (snd e) (hooks s0) = get (snd e) (hooks s)) ->
  fold_left sweep_step (map (victim_msg s0) vs) (s, acc) =
  (fold_left del_entry vs s, acc ++ map (victim_msg s0) vs).
Proof.
  induction vs as [|e vs IH]; intros s acc Hi Hnd Hin Hsame; cbn [map fold_left].
  - rewrite app_nil_r. reflexivity.
  - rewrite (sweep_step_victim s0 s acc e Hi (Hin e (or_introl eq_refl)) (Hsame e (or_introl eq_refl))).
    inversion Hnd as [|? ? Hnot Hnd']; subst.
    assert (Hother : forall e', In e' vs -> snd e' <> snd e).
    { intros e' He' Heq. apply Hnot. rewrite <- Heq. apply in_map. exact He'. }
    rewrite IH.
    + rewrite <- app_assoc. reflexivity.
    + apply inv_del_entry; [exact Hi | apply Hin; left; reflexivity].
    + exact Hnd'.
    + intros e' He'. unfold del_entry; cbn [hexp].
      apply (ExpireProofs.In_remove e (hexp s) e' (inv_isorted _ Hi)). split; [apply Hin; right; exact He'|].
      intros ->. exact (Hother e He' eq_refl).
    + intros e' He'. unfold del_entry; cbn [hooks]. rewrite get_del_other by (apply Hother; exact He').
      apply Hsame. right. exact He'.
Qed.

Lemma victims_prefix now l : exists r, l = Expire.victims now l ++ r.
Proof.
  induction l as [|e l [r IH]]; [exists []; reflexivity|]. cbn.
  destruct (now <? fst e); [exists (e :: l); reflexivity|]. exists r. cbn. rewrite <- IH. reflexivity.
Qed.

Lemma NoDup_app_l {A} (a b : list A) : NoDup (a ++ b) -> NoDup a.
Proof.
  induction a as [|x a IH]; cbn; intros H; [constructor|]. inversion H as [|? ? Hx Hr]; subst.
  constructor; [intros Hin; apply Hx; apply in_or_app; left; exact Hin | apply IH; exact Hr].
Qed.

Lemma victims_names_nodup now s : Inv s -> NoDup (map snd (Expire.victims now (hexp s))).
Proof.
  intros Hi. destruct (victims_prefix now (hexp s)) as [r Hr].
  assert (Hnd : NoDup (map snd (hexp s))).
  { pose proof (ExpireProofs.sorted_NoDup _ (inv_isorted _ Hi)) as Hn.
    assert (Hinj : forall a b, In a (hexp s) -> In b (hexp s) -> snd a = snd b -> a = b).
    { intros a b Ha Hb Hab. apply (inv_exact _ Hi) in Ha as [ha [Ga Xa]]. apply (inv_exact _ Hi) in Hb as [hb [Gb Xb]].
      rewrite Hab in Ga. rewrite Ga in Gb. inversion Gb; subst hb. rewrite Xa in Xb. inversion Xb.
      destruct a, b; cbn in *; subst; reflexivity. }
    revert Hn Hinj. generalize (hexp s). induction l as [|x l IHl]; intros Hn Hinj; cbn; [constructor|].
    inversion Hn as [|? ? Hx Hl]; subst. constructor.
    - intros Hm. apply in_map_iff in Hm as [y [Hy Hiny]]. apply Hx.
      rewrite (Hinj x y (or_introl eq_refl) (or_intror Hiny) (eq_sym Hy)). exact Hiny.
    - apply IHl; [exact Hl|]. intros a b Ha Hb. apply Hinj; right; assumption. }
  rewrite Hr, map_app in Hnd. apply NoDup_app_l in Hnd. exact Hnd.
Qed.

(* what a sweeper pass does: the victims are the leading index entries with deadline <= now; each
   is deleted with its index entry, and one message per victim is logged, in index order *)
Theorem sweep_spec now s : Inv s ->
  sweep now s = (fold_left del_entry (Expire.victims now (hexp s)) s, sweep_msgs now s).
Proof.
  intros Hi. unfold sweep, sweep_msgs.
  rewrite (sweep_fold s (Expire.victims now (hexp s)) s [] Hi (victims_names_nodup now s Hi)).
  - reflexivity.
  - intros e He. eapply ExpireProofs.victims_sublist; exact He.
  - reflexivity.
Qed.

Lemma fold_del_entry_get (vs : list entry) : forall s n, msorted (hooks s) ->
  get n (hooks (fold_left del_entry vs s)) =
  if existsb (fun e => bytes_eqb (snd e) n) vs then None else get n (hooks s).
Proof.
  induction vs as [|e vs IH]; intros s n Hs; cbn [fold_left existsb]; [reflexivity|].
  rewrite IH by (unfold del_entry; cbn [hooks]; apply msorted_del; exact Hs).
  unfold del_entry; cbn [hooks]. destruct (bytes_eqb (snd e) n) eqn:En; cbn [orb].
  - apply bytes_eqb_eq in En. subst n. rewrite get_del_same by exact Hs.
    match goal with |- context [existsb ?f vs] => destruct (existsb f vs) end; reflexivity.
  - apply eqb_false_neq in En. rewrite get_del_other by congruence. reflexivity.
Qed.

Lemma is_victim now s n : Inv s ->
  (existsb (fun e => bytes_eqb (snd e) n) (Expire.victims now (hexp s)) = true <->
   exists h d, get n (hooks s) = Some h /\ h_ex h = Some d /\ d <= now).
Proof.
  intros Hi. rewrite existsb_exists. split.
  - intros [e [He En]]. apply bytes_eqb_eq in En. subst n.
    apply (ExpireProofs.victims_spec now (hexp s) e (inv_isorted _ Hi)) in He as [Hin Hle].
    apply (inv_exact _ Hi) in Hin as [h [Hg Hx]]. exists h, (fst e). auto.
  - intros [h [d [Hg [Hx Hle]]]]. exists (d, n). split; [|apply bytes_eqb_refl].
    apply (ExpireProofs.victims_spec now (hexp s) (d, n) (inv_isorted _ Hi)). split; [|exact Hle].
    apply (inv_exact _ Hi). exists h. split; assumption.
Qed.

(* never early *)
Theorem sweep_never_early now s n h : Inv s -> get n (hooks s) = Some h ->
  (h_ex h = None \/ exists d, h_ex h = Some d /\ now < d) ->
  get n (hooks (fst (sweep now s))) = Some h.
Proof.
  intros Hi Hg Hfut. rewrite (sweep_spec now s Hi). cbn [fst].
  rewrite fold_del_entry_get by exact (inv_sorted _ Hi).
  destruct (existsb (fun e => bytes_eqb (snd e) n) (Expire.victims now (hexp s))) eqn:Ev; [|exact Hg]. exfalso.
  apply (is_victim now s n Hi) in Ev as [h' [d [Hg' [Hx Hle]]]]. rewrite Hg in Hg'. inversion Hg'; subst h'.
  destruct Hfut as [Hnone | [d' [Hd' Hlt]]]; [congruence|]. rewrite Hx in Hd'. inversion Hd'. lia.
Qed.

(* complete, despite the early stop of the scan *)
Theorem sweep_complete now s n h : Inv s -> get n (hooks (fst (sweep now s))) = Some h ->
  get n (hooks s) = Some h /\ (h_ex h = None \/ exists d, h_ex h = Some d /\ now < d).
Proof.
  intros Hi. rewrite (sweep_spec now s Hi). cbn [fst].
  rewrite fold_del_entry_get by exact (inv_sorted _ Hi).
  destruct (existsb (fun e => bytes_eqb (snd e) n) (Expire.victims now (hexp s))) eqn:Ev; [discriminate|]. intros Hg. split; [exact Hg|].
  destruct (h_ex h) as [d|] eqn:Hx; [|left; reflexivity]. right. exists d. split; [reflexivity|].
  destruct (Z.ltb_spec now d) as [L|G]; [exact L|]. exfalso.
  assert (Ht : existsb (fun e => bytes_eqb (snd e) n) (Expire.victims now (hexp s)) = true).
  { apply (is_victim now s n Hi). exists h, d. auto. }
  congruence.
Qed.

(* every expiry is one logged DELHOOK / DELCHAN of the right kind, nothing else is logged *)
Theorem sweep_logged now s : Inv s ->
  NoDup (snd (sweep now s)) /\
  (forall m, In m (snd (sweep now s)) <->
     exists n h d, get n (hooks s) = Some h /\ h_ex h = Some d /\ d <= now /\
                   m = [if h_chan h then c_delchan else c_delhook; n]).
Proof.
  intros Hi. rewrite (sweep_spec now s Hi). cbn [snd]. unfold sweep_msgs.
  assert (Hmsg : forall e, In e (Expire.victims now (hexp s)) ->
            exists h, get (snd e) (hooks s) = Some h /\ h_ex h = Some (fst e) /\ fst e <= now /\
                      victim_msg s e = [if h_chan h then c_delchan else c_delhook; snd e]).
  { intros e He. apply (ExpireProofs.victims_spec now (hexp s) e (inv_isorted _ Hi)) in He as [Hin Hle].
    apply (inv_exact _ Hi) in Hin as [h [Hg Hx]]. exists h. unfold victim_msg. rewrite Hg.
    destruct (h_chan h); auto. }
  split.
  - pose proof (victims_names_nodup now s Hi) as Hnd.
    revert Hnd Hmsg. generalize (Expire.victims now (hexp s)). induction l as [|e l IHl]; intros Hnd Hmsg; cbn; [constructor|].
    inversion Hnd as [|? ? Hx Hl]; subst. constructor.
    + intros Hm. apply in_map_iff in Hm as [e' [He' Hin']]. apply Hx.
      destruct (Hmsg e (or_introl eq_refl)) as [h [_ [_ [_ M]]]].
      destruct (Hmsg e' (or_intror Hin')) as [h' [_ [_ [_ M']]]].
      rewrite M, M' in He'. injection He' as _ Hs. rewrite <- Hs. apply in_map. exact Hin'.
    + apply IHl; [exact Hl|]. intros e' He'. apply Hmsg. right. exact He'.
  - intros m. rewrite in_map_iff. split.
    + intros [e [<- He]]. destruct (Hmsg e He) as [h [Hg [Hx [Hle M]]]]. exists (snd e), h, (fst e). auto.
    + intros [n [h [d [Hg [Hx [Hle ->]]]]]]. exists (d, n). split.
      * unfold victim_msg. cbn [snd]. rewrite Hg. destruct (h_chan h); reflexivity.
      * apply (ExpireProofs.victims_spec now (hexp s) (d, n) (inv_isorted _ Hi)). split; [|exact Hle].
        apply (inv_exact _ Hi). exists h. auto.
Qed.

Theorem sweep_inv now s : Inv s -> Inv (fst (sweep now s)).
Proof.
  intros Hi. rewrite (sweep_as_cmds (mkOracle (fun b => b) (fun _ => false) (fun _ => None) (fun _ _ => FErr [])) now s).
  cbn [fst]. apply inv_crun. exact Hi.
Qed.

(* ---------- declaration, re-declaration, deletion ---------- *)

(* an accepted SETHOOK / SETCHAN leaves exactly the declared hook under its name, and the index holds
   for that name exactly the declared deadline: a re-declaration with another EX MOVES the entry, one
   without EX removes it *)
Theorem declare_spec s h : Inv s -> h_name h <> [] ->
  (forall p, get (h_name h) (hooks s) = Some p -> h_chan p = h_chan h) ->
  let s1 := fst (fst (reg_sethook s h)) in
  get (h_name h) (hooks s1) = Some h /\
  (forall e, snd e = h_name h -> (In e (hexp s1) <-> h_ex h = Some (fst e))).
Proof.
  intros Hi Hnn Hkind s1.
  assert (Hg : get (h_name h) (hooks s1) = Some h).
  { unfold s1, reg_sethook. destruct (get (h_name h) (hooks s)) as [p|] eqn:Eg.
    - rewrite (Hkind p eq_refl), eqb_reflx. cbn [negb].
      destruct (hook_equals p h) eqn:Q; cbn [fst hooks].
      + rewrite Eg. f_equal. exact (hook_equals_eq p h Q (Hkind p eq_refl)).
      + apply get_set_same.
    - cbn [fst hooks]. apply get_set_same. }
  split; [exact Hg|].
  pose proof (inv_reg_sethook s h Hnn Hi) as Hi1. fold s1 in Hi1.
  intros e He. rewrite (inv_exact _ Hi1 e), He. split.
  - intros [h' [Hg' Hx]]. rewrite Hg in Hg'. inversion Hg'; subst. exact Hx.
  - intros Hx. exists h. split; assumption.
Qed.

(* no stale timer: whatever entries earlier declarations of the name left behind, the declared hook
   is governed by its own deadline only *)
Theorem no_stale_timer s h now : Inv s -> h_name h <> [] ->
  (forall p, get (h_name h) (hooks s) = Some p -> h_chan p = h_chan h) ->
  (h_ex h = None \/ exists d, h_ex h = Some d /\ now < d) ->
  get (h_name h) (hooks (fst (sweep now (fst (fst (reg_sethook s h)))))) = Some h.
Proof.
  intros Hi Hnn Hkind Hfut.
  apply sweep_never_early; [apply inv_reg_sethook; assumption | apply (declare_spec s h Hi Hnn Hkind) | exact Hfut].
Qed.

(* DELHOOK / DELCHAN (and every deletion PDEL*, FLUSHDB and the sweeper perform through
   cmdDELHOOKop) removes the hook together with its index entry *)
Theorem delete_spec s n c : Inv s -> snd (delhook_op s n c) = true ->
  let s1 := fst (delhook_op s n c) in
  get n (hooks s1) = None /\ (forall e, snd e = n -> ~ In e (hexp s1)) /\
  (forall n', n' <> n -> get n' (hooks s1) = get n' (hooks s)).
Proof.
  intros Hi Hu s1. pose proof (inv_delhook_op s n c Hi) as Hi1. fold s1 in Hi1.
  assert (Hg : get n (hooks s1) = None /\ forall n', n' <> n -> get n' (hooks s1) = get n' (hooks s)).
  { unfold s1, delhook_op in *. destruct (get n (hooks s)) as [h|] eqn:Eg; [|discriminate].
    destruct (negb (Bool.eqb (h_chan h) c)); [discriminate|]. cbn [fst hooks]. split.
    - apply get_del_same. exact (inv_sorted _ Hi).
    - intros n' Hn'. apply get_del_other. exact Hn'. }
  destruct Hg as [Hg Ho]. split; [exact Hg|]. split; [|exact Ho].
  intros e He Hin. apply (inv_exact _ Hi1) in Hin as [h [Hg' _]]. rewrite He, Hg in Hg'. discriminate.
Qed.

(* PDELHOOK / PDELCHAN: every listed hook of that kind is gone, with its entries *)
Lemma fold_delop_get c (hs : list hook) : forall s, Inv s ->
  (forall h, In h hs -> forall p, get (h_name h) (hooks s) = Some p -> h_chan p = c) ->
  let s1 := fold_left (fun s h => fst (delhook_op s (h_name h) c)) hs s in
  forall n, get n (hooks s1) = if existsb (fun h => bytes_eqb (h_name h) n) hs then None else get n (hooks s).
Proof.
  induction hs as [|h hs IH]; intros s Hi Hk s1 n; [reflexivity|].
  unfold s1. cbn [fold_left existsb].
  set (s2 := fst (delhook_op s (h_name h) c)).
  assert (Hi2 : Inv s2) by (apply inv_delhook_op; exact Hi).
  assert (Hget : forall n', get n' (hooks s2) = if bytes_eqb (h_name h) n' then None else get n' (hooks s)).
  { intros n'. unfold s2, delhook_op. destruct (get (h_name h) (hooks s)) as [p|] eqn:Eg.
    - rewrite (Hk h (or_introl eq_refl) p Eg), eqb_reflx. cbn [negb fst hooks].
      destruct (bytes_eqb (h_name h) n') eqn:En.
      + apply bytes_eqb_eq in En. subst n'. apply get_del_same. exact (inv_sorted _ Hi).
      + apply eqb_false_neq in En. apply get_del_other. congruence.
    - cbn [fst]. destruct (bytes_eqb (h_name h) n') eqn:En; [|reflexivity].
      apply bytes_eqb_eq in En. subst n'. exact Eg. }
  rewrite (IH s2 Hi2).
  - rewrite Hget. destruct (bytes_eqb (h_name h) n); cbn [orb]; [|reflexivity].
    match goal with |- context [existsb ?f hs] => destruct (existsb f hs) end; reflexivity.
  - intros h' Hh' p Hp. rewrite Hget in Hp. destruct (bytes_eqb (h_name h) (h_name h')); [discriminate|].
    apply (Hk h' (or_intror Hh') p Hp).
Qed.

Lemma by_pattern_in pat c m h : In h (by_pattern pat c m) -> h_chan h = c /\ In h (vals m).
Proof.
  unfold by_pattern. rewrite filter_In. intros [Hin Hb]. apply andb_prop in Hb as [Hc _].
  split; [apply eqb_bool_true; exact Hc|].
  unfold hook_range in Hin.
  assert (Hdb : forall lo (m : smap hook) x, In x (vals (Keyspace.drop_below lo m)) -> In x (vals m)).
  { intros lo m0 x. induction m0 as [|[k v] m0 IHm]; cbn; [tauto|]. destruct (bytes_ltb k lo); [intros H; right; apply IHm; exact H | tauto]. }
  assert (Htu : forall hi incl (m : smap hook) x, In x (vals (Keyspace.take_upto hi incl m)) -> In x (vals m)).
  { intros hi incl m0 x. induction m0 as [|[k v] m0 IHm]; cbn; [tauto|].
    destruct (if incl then bytes_gtb k hi else bytes_geb k hi); cbn; [tauto|]. intros [H|H]; [left; exact H | right; apply IHm; exact H]. }
  destruct (isnil (g_lim1 (parse pat false))); [|apply Htu in Hin]; apply Hdb in Hin; exact Hin.
Qed.

Lemma filter_all_id {A} (f : A -> bool) l : (forall x, In x l -> f x = true) -> filter f l = l.
Proof.
  induction l as [|x l IH]; intros H; [reflexivity|]. cbn. rewrite (H x (or_introl eq_refl)).
  f_equal. apply IH. intros y Hy. apply H. right. exact Hy.
Qed.

Theorem pdel_spec s pat c x : Inv s -> isnil pat = false ->
  let s1 := fst (fst (cmd_pdelhook s [x; pat] c)) in
  (forall h, In h (by_pattern pat c (hooks s)) ->
     get (h_name h) (hooks s1) = None /\ forall e, snd e = h_name h -> ~ In e (hexp s1)) /\
  (forall n, ~ In n (map h_name (by_pattern pat c (hooks s))) -> get n (hooks s1) = get n (hooks s)).
Proof.
  intros Hi Hp s1.
  set (hs := filter (fun h => Bool.eqb (h_chan h) c) (by_pattern pat c (hooks s))).
  assert (Es1 : s1 = fold_left (fun s h => fst (delhook_op s (h_name h) c)) hs s).
  { unfold s1, cmd_pdelhook. cbn [tl]. rewrite Hp. reflexivity. }
  assert (Hhs : hs = by_pattern pat c (hooks s)).
  { unfold hs. apply filter_all_id. intros h Hh.
    destruct (by_pattern_in pat c (hooks s) h Hh) as [-> _]. apply eqb_reflx. }
  assert (Hkind : forall h, In h hs -> forall p, get (h_name h) (hooks s) = Some p -> h_chan p = c).
  { intros h Hh p Hg. rewrite Hhs in Hh. destruct (by_pattern_in pat c (hooks s) h Hh) as [Hc Hv].
    unfold vals in Hv. apply in_map_iff in Hv as [[k v] [Hkv Hin]]. cbn in Hkv. subst v.
    pose proof (Forall_forall (fun kv : bytes * hook => h_name (snd kv) = fst kv) (hooks s)) as [F _].
    pose proof (F (inv_named _ Hi) (k, h) Hin) as Hk. cbn in Hk. subst k.
    rewrite (In_get _ _ _ (inv_sorted _ Hi) Hin) in Hg. injection Hg as <-. exact Hc. }
  pose proof (fold_delop_get c hs s Hi Hkind) as G. cbn zeta in G. rewrite <- Es1 in G.
  assert (Hi1 : Inv s1) by (rewrite Es1; apply inv_fold_del; exact Hi).
  split.
  - intros h Hh. rewrite <- Hhs in Hh.
    assert (Hg : get (h_name h) (hooks s1) = None).
    { rewrite G. replace (existsb (fun h0 => bytes_eqb (h_name h0) (h_name h)) hs) with true; [reflexivity|].
      symmetry. apply existsb_exists. exists h. split; [exact Hh | apply bytes_eqb_refl]. }
    split; [exact Hg|]. intros e He Hin. apply (inv_exact _ Hi1) in Hin as [h' [Hg' _]]. rewrite He, Hg in Hg'. discriminate.
  - intros n Hn. rewrite G. rewrite <- Hhs in Hn.
    replace (existsb (fun h0 => bytes_eqb (h_name h0) n) hs) with false; [reflexivity|].
    symmetry. apply not_true_is_false. intros Ht. apply existsb_exists in Ht as [h [Hh En]].
    apply bytes_eqb_eq in En. apply Hn. rewrite <- En. apply in_map. exact Hh.
Qed.

(* ---------- listings ---------- *)

Lemma hook_range_star (m : smap hook) : hook_range [STAR] m = m.
Proof.
  unfold hook_range. cbn.
  induction m as [|[k v] m IH]; [reflexivity|]. cbn. destruct k; reflexivity.
Qed.

(* HOOKS * and CHANS * together list every registered hook exactly once (C19: num_hooks) *)
Theorem list_total now s x y :
  match cmd_hooks now s [x; [STAR]] false, cmd_hooks now s [y; [STAR]] true with
  | (_, RList lh, _), (_, RList lc, _) => (length lh + length lc = length (hooks s))%nat
  | _, _ => False
  end.
Proof.
  unfold cmd_hooks. cbn [tl isnil]. rewrite !map_length. unfold by_pattern. rewrite hook_range_star.
  unfold vals. induction (hooks s) as [|[k v] m IH]; [reflexivity|]. cbn [map filter snd].
  unfold Keyspace.matchesb. rewrite GlobProofs.match_star. rewrite !andb_true_r.
  destruct (h_chan v); cbn [Bool.eqb length]; rewrite <- IH; unfold Keyspace.matchesb; lia.
Qed.

(* a listing never changes the registry; an item's ttl is -1 exactly for a hook without deadline *)
Lemma ttl_of_spec now h : (ttl_of now h = -1 <-> h_ex h = None) /\ (h_ex h <> None -> 0 <= ttl_of now h).
Proof.
  unfold ttl_of. destruct (h_ex h) as [d|]; [|split; [tauto | congruence]].
  destruct (Z.ltb_spec (Z.quot (d - now) 1000000000) 0); split; try (split; [lia | discriminate]); intros _; lia.
Qed.

(* cmdRENAME's guard: refused exactly when a hook or channel watches one of the two keys; hooks win *)
Theorem rename_guard_spec s key newkey :
  let touches h := bytes_eqb (h_key h) key || bytes_eqb (h_key h) newkey in
  match rename_guard s key newkey with
  | None => forall h, In h (vals (hooks s)) -> touches h = false
  | Some e => (e = err_has_hooks /\ exists h, In h (vals (hooks s)) /\ touches h = true /\ h_chan h = false) \/
              (e = err_has_chans /\ (exists h, In h (vals (hooks s)) /\ touches h = true /\ h_chan h = true) /\
               forall h, In h (vals (hooks s)) -> touches h = true -> h_chan h = true)
  end.
Proof.
  intros touches. unfold rename_guard. fold touches.
  destruct (existsb (fun h => negb (h_chan h)) (filter touches (vals (hooks s)))) eqn:E1.
  - left. split; [reflexivity|]. apply existsb_exists in E1 as [h [Hin Hc]]. apply filter_In in Hin as [Hin Ht].
    exists h. repeat split; try assumption. apply negb_true_iff in Hc. exact Hc.
  - assert (Hall : forall h, In h (vals (hooks s)) -> touches h = true -> h_chan h = true).
    { intros h Hin Ht. destruct (h_chan h) eqn:Ec; [reflexivity|]. exfalso.
      assert (existsb (fun h => negb (h_chan h)) (filter touches (vals (hooks s))) = true).
      { apply existsb_exists. exists h. split; [apply filter_In; split; assumption | rewrite Ec; reflexivity]. }
      congruence. }
    destruct (existsb h_chan (filter touches (vals (hooks s)))) eqn:E2.
    + right. split; [reflexivity|]. split; [|exact Hall].
      apply existsb_exists in E2 as [h [Hin Hc]]. apply filter_In in Hin as [Hin Ht]. exists h. auto.
    + intros h Hin. destruct (touches h) eqn:Et; [|reflexivity]. exfalso.
      assert (existsb h_chan (filter touches (vals (hooks s))) = true).
      { apply existsb_exists. exists h. split; [apply filter_In; split; assumption | apply Hall; assumption]. }
      congruence.
Qed.

(* ---------- what ≈ex means ---------- *)
Theorem er_meaning s s' : er s = er s' ->
  keys (hooks s) = keys (hooks s') /\
  forall n,
    match get n (hooks s), get n (hooks s') with
    | Some h, Some h' =>
        h_name h = h_name h' /\ h_chan h = h_chan h' /\ h_key h = h_key h' /\ h_eps h = h_eps h' /\
        h_args h = h_args h' /\ h_metas h = h_metas h' /\ (h_ex h = None <-> h_ex h' = None)
    | None, None => True
    | _, _ => False
    end.
Proof.
  intros E. split.
  - pose proof (f_equal keys E) as K. unfold er in K. rewrite !keys_map in K. exact K.
  - intros n. pose proof (er_get_rel s s' n E) as R.
    destruct (get n (hooks s)) as [h|], (get n (hooks s')) as [h'|]; try exact R.
    unfold erase_hook in R. injection R as H1 H2 H3 H4 H5 H6 H7. repeat split; try assumption.
    + intros Hn. rewrite Hn in H7. destruct (h_ex h'); [discriminate | reflexivity].
    + intros Hn. rewrite Hn in H7. destruct (h_ex h); [discriminate | reflexivity].
Qed.

(* the records of a sweeper pass, replayed at any clock on a registry that agrees up to deadline
   values, delete the same hooks *)
Theorem expiry_replays O clk now s s' : Inv s -> Inv s' -> er s = er s' ->
  er (replay_at O clk 0 (snd (sweep now s)) s') = er (fst (sweep now s)).
Proof.
  intros Hi Hi' E. pose proof (hk_restart_deadline_kept O clk [PSweep now] s s' Hi Hi' E) as H.
  cbn [plog pstep_run] in H. destruct (sweep now s) as [s1 l] eqn:Es. cbn [plog] in H. rewrite app_nil_r in H.
  cbn [fst snd]. rewrite H. unfold prun. cbn [fold_left pstep_run]. rewrite Es. reflexivity.
Qed.

Theorem reachable_inv O p : Inv (prun O p empty).
Proof. apply inv_prun. exact inv_empty. Qed.
