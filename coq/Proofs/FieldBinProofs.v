(* The packed layout of field.List (Model/FieldBin.v): the size header reads back for every body
   size when the reader's window is at least as long as the longest header the writers emit, it
   does not when the window is shorter; the entry loop inverts the entry encoding; List.Set /
   Get / Scan / Len on the packed bytes are Model.Field's fl_set / fl_get / fl_scan / length
   through the codec. *)
From Coq Require Import ZifyN ZifyNat ZifyBool.
From T38 Require Import Base.Bytes Base.SMap Model.Field Model.Object Model.FieldBin Proofs.KsObject Proofs.KsField.

(* ---------- len / take / drop on N ---------- *)

Lemma lenN_length b : lenN b = N.of_nat (length b).
Proof. induction b as [|x b IH]; cbn [lenN length]; [reflexivity | rewrite IH; lia]. Qed.

Lemma lenN_app a b : lenN (a ++ b) = lenN a + lenN b.
Proof. rewrite !lenN_length, app_length. lia. Qed.

Lemma lenN_nil_inv b : lenN b = 0 -> b = [].
Proof. destruct b; cbn [lenN]; [reflexivity | lia]. Qed.

Lemma takeN_firstn n b : takeN n b = firstn (N.to_nat n) b.
Proof.
  revert n; induction b as [|x b IH]; intros n; cbn [takeN].
  - rewrite firstn_nil. reflexivity.
  - destruct (n =? 0) eqn:E.
    + apply N.eqb_eq in E. subst. reflexivity.
    + apply N.eqb_neq in E. rewrite IH.
      replace (N.to_nat n) with (S (N.to_nat (N.pred n))) by lia. reflexivity.
Qed.

Lemma dropN_skipn n b : dropN n b = skipn (N.to_nat n) b.
Proof.
  revert n; induction b as [|x b IH]; intros n; cbn [dropN].
  - rewrite skipn_nil. reflexivity.
  - destruct (n =? 0) eqn:E.
    + apply N.eqb_eq in E. subst. reflexivity.
    + apply N.eqb_neq in E. rewrite IH.
      replace (N.to_nat n) with (S (N.to_nat (N.pred n))) by lia. reflexivity.
Qed.

Lemma takeN_0 b : takeN 0 b = [].
Proof. destruct b; reflexivity. Qed.

Lemma dropN_0 b : dropN 0 b = b.
Proof. destruct b; reflexivity. Qed.

Lemma takeN_app_exact a b : takeN (lenN a) (a ++ b) = a.
Proof.
  rewrite takeN_firstn, lenN_length, Nat2N.id.
  rewrite firstn_app, Nat.sub_diag, firstn_O, app_nil_r. apply firstn_all.
Qed.

Lemma takeN_all a n : lenN a <= n -> takeN n a = a.
Proof. intros H. rewrite takeN_firstn. apply firstn_all2. rewrite lenN_length in H. lia. Qed.

Lemma takeN_app_ge a b n : lenN a <= n -> takeN n (a ++ b) = a ++ takeN (n - lenN a) b.
Proof.
  intros H. rewrite !takeN_firstn, firstn_app. rewrite lenN_length in *.
  rewrite firstn_all2 by lia. f_equal. f_equal. lia.
Qed.

Lemma takeN_app_le a b n : n <= lenN a -> takeN n (a ++ b) = takeN n a.
Proof.
  intros H. rewrite !takeN_firstn, firstn_app. rewrite lenN_length in *.
  replace (N.to_nat n - length a)%nat with 0%nat by lia. rewrite firstn_O, app_nil_r. reflexivity.
Qed.

Lemma dropN_app_exact a b : dropN (lenN a) (a ++ b) = b.
Proof.
  rewrite dropN_skipn, lenN_length, Nat2N.id.
  rewrite skipn_app, Nat.sub_diag, skipn_all. reflexivity.
Qed.

Lemma dropN_app_plus a b k : dropN (lenN a + k) (a ++ b) = dropN k b.
Proof.
  rewrite !dropN_skipn, lenN_length, skipn_app.
  rewrite skipn_all2 by lia. cbn [app]. f_equal. lia.
Qed.

Lemma dropN_all a n : lenN a <= n -> dropN n a = [].
Proof. intros H. rewrite dropN_skipn. apply skipn_all2. rewrite lenN_length in H. lia. Qed.

Lemma fit_exact l : fit (lenN l) l = l.
Proof.
  unfold fit. rewrite N.sub_diag. cbn [N.to_nat zerosN]. rewrite app_nil_r. apply takeN_all. lia.
Qed.

(* ---------- the uvarint header ---------- *)

Lemma put_uvarint_nonempty f x : put_uvarint (S f) x <> [].
Proof. cbn [put_uvarint]. destruct (x <? 128); discriminate. Qed.

Lemma put_uvarint_len_le fuel x : (length (put_uvarint fuel x) <= fuel)%nat.
Proof.
  revert x; induction fuel as [|f IH]; intros x; cbn [put_uvarint length]; [lia|].
  destruct (x <? 128); cbn [length]; [lia | specialize (IH (x / 128)); lia].
Qed.

Lemma pow128_pos k : 0 < 128 ^ k.
Proof. apply N.neq_0_lt_0. apply N.pow_nonzero. lia. Qed.

Lemma pow128_succ (k : nat) : 128 ^ N.of_nat (S k) = 128 * 128 ^ N.of_nat k.
Proof. rewrite Nat2N.inj_succ, N.pow_succ_r'. reflexivity. Qed.

(* how many bytes: at most k iff the value is below 128^k (k >= 1) *)
Lemma put_uvarint_len_iff fuel : forall x k,
  x < 128 ^ N.of_nat fuel -> (1 <= k)%nat ->
  ((length (put_uvarint fuel x) <= k)%nat <-> x < 128 ^ N.of_nat k).
Proof.
  induction fuel as [|f IH]; intros x k Hx Hk.
  - cbn in Hx. assert (x = 0) by lia. subst. cbn [put_uvarint length].
    pose proof (pow128_pos (N.of_nat k)). split; intros; lia.
  - cbn [put_uvarint]. destruct (x <? 128) eqn:E.
    + apply N.ltb_lt in E. cbn [length].
      assert (128 ^ 1 <= 128 ^ N.of_nat k) by (apply N.pow_le_mono_r; lia).
      change (128 ^ 1) with 128 in *. split; intros; lia.
    + apply N.ltb_ge in E. cbn [length].
      rewrite pow128_succ in Hx.
      assert (Hq : x / 128 < 128 ^ N.of_nat f) by (apply N.div_lt_upper_bound; lia).
      destruct k as [|[|k']]; [lia | |].
      * (* k = 1: two or more bytes, and x >= 128 *)
        change (128 ^ N.of_nat 1) with 128.
        destruct f as [|f']. { cbn in Hq. assert (x / 128 = 0) by lia.
          apply N.div_small_iff in H; lia. }
        pose proof (put_uvarint_nonempty f' (x / 128)) as Hne.
        destruct (put_uvarint (S f') (x / 128)); [congruence|]. cbn [length]. split; intros; lia.
      * specialize (IH (x / 128) (S k') Hq ltac:(lia)).
        rewrite (pow128_succ (S k')).
        split; intros H.
        -- assert (Hl : (length (put_uvarint f (x / 128)) <= S k')%nat) by lia.
           apply IH in Hl. pose proof (N.div_mod x 128 ltac:(lia)). pose proof (N.mod_lt x 128 ltac:(lia)). lia.
        -- assert (Hl : x / 128 < 128 ^ N.of_nat (S k')) by (apply N.div_lt_upper_bound; lia).
           apply IH in Hl. lia.
Qed.

Lemma two64_128_10 : two64 <= 128 ^ N.of_nat 10.
Proof. vm_compute. discriminate. Qed.

Lemma put_uv_len_iff x (k : nat) : (1 <= k)%nat ->
  (lenN (put_uv x) <= N.of_nat k <-> x mod two64 < 128 ^ N.of_nat k).
Proof.
  intros Hk. unfold put_uv. rewrite lenN_length.
  assert (Hx : x mod two64 < 128 ^ N.of_nat 10).
  { pose proof two64_128_10. pose proof (N.mod_lt x two64 ltac:(unfold two64; lia)). lia. }
  rewrite <- (put_uvarint_len_iff 10 (x mod two64) k Hx Hk). lia.
Qed.

Lemma put_uv_len_bounds x : 1 <= lenN (put_uv x) <= 10.
Proof.
  unfold put_uv. rewrite lenN_length. pose proof (put_uvarint_len_le 10 (x mod two64)).
  pose proof (put_uvarint_nonempty 9 (x mod two64)).
  destruct (put_uvarint 10 (x mod two64)); [congruence|]. cbn [length] in *. lia.
Qed.

Lemma put_uv_nonempty x : put_uv x <> [].
Proof. unfold put_uv. apply put_uvarint_nonempty. Qed.

(* the reader inverts the writer, whatever follows *)
Lemma uvarint_put_uv x rest : x < two64 -> uvarint (put_uv x ++ rest) = (x, lenN (put_uv x)).
Proof.
  intros Hx. unfold uvarint, put_uv. rewrite (N.mod_small x two64) by exact Hx.
  pose proof two64_128_10.
  rewrite (put_uvarint_decode 10 x 0 0 rest); [| lia | lia | cbn; lia | cbn; lia].
  rewrite lenN_length. cbn [N.mul N.pow]. f_equal; lia.
Qed.

(* every byte of the header but the last carries the continuation bit *)
Lemma put_uvarint_shape fuel : forall x, x < 128 ^ N.of_nat fuel -> (0 < fuel)%nat ->
  exists pre last, put_uvarint fuel x = pre ++ [last] /\ Forall (fun b => 128 <= b) pre /\ last < 128.
Proof.
  induction fuel as [|f IH]; intros x Hx Hf; [lia|].
  cbn [put_uvarint]. destruct (x <? 128) eqn:E.
  - apply N.ltb_lt in E. exists [], x. repeat split; [constructor | exact E].
  - apply N.ltb_ge in E. rewrite pow128_succ in Hx.
    assert (Hq : x / 128 < 128 ^ N.of_nat f) by (apply N.div_lt_upper_bound; lia).
    destruct f as [|f']. { cbn in Hq. assert (H0 : x / 128 = 0) by lia. apply N.div_small_iff in H0; lia. }
    destruct (IH (x / 128) Hq ltac:(lia)) as [pre [last [Hp [Hall Hl]]]].
    exists ((x mod 128 + 128) :: pre), last. rewrite Hp. repeat split; [| exact Hl].
    constructor; [lia | exact Hall].
Qed.

Lemma uvarint_loop_all_high l : forall i acc, Forall (fun b => 128 <= b) l -> uvarint_loop l i acc = (0, 0).
Proof.
  induction l as [|b l IH]; intros i acc H; cbn [uvarint_loop]; [reflexivity|].
  inversion H as [|? ? Hb Hl]; subst.
  assert (E : (b <? 128) = false) by (apply N.ltb_ge; exact Hb). rewrite E. apply IH. exact Hl.
Qed.

Lemma Forall_takeN {P : N -> Prop} n l : Forall P l -> Forall P (takeN n l).
Proof.
  intros H. rewrite takeN_firstn. revert H. generalize (N.to_nat n). intros k. revert l.
  induction k as [|k IH]; intros l H; [constructor|].
  destruct l as [|x l]; [constructor|]. inversion H; subst. cbn [firstn]. constructor; auto.
Qed.

(* a window shorter than the header sees only continuation bytes *)
Lemma uvarint_short_window x peek rest : peek < lenN (put_uv x) ->
  uvarint (takeN peek (put_uv x ++ rest)) = (0, 0).
Proof.
  intros Hp. unfold put_uv in *.
  assert (Hx : x mod two64 < 128 ^ N.of_nat 10).
  { pose proof two64_128_10. pose proof (N.mod_lt x two64 ltac:(unfold two64; lia)). lia. }
  destruct (put_uvarint_shape 10 (x mod two64) Hx ltac:(lia)) as [pre [last [Hs [Hall _]]]].
  rewrite Hs in *. rewrite lenN_app in Hp. cbn [lenN] in Hp.
  rewrite <- app_assoc. rewrite takeN_app_le by lia.
  unfold uvarint. apply uvarint_loop_all_high. apply Forall_takeN. exact Hall.
Qed.

(* ---------- ptob / Weight ---------- *)

Definition buf_of (body : bytes) : bytes := put_uv (lenN body) ++ body.

Theorem ptob_roundtrip peek body :
  max_header_len <= peek -> lenN body < two63 ->
  ptob peek (Some (buf_of body)) = Val body.
Proof.
  unfold max_header_len, two63. intros Hp Hb. unfold ptob, buf_of.
  pose proof (put_uv_len_bounds (lenN body)) as Hl.
  assert (Hb64 : lenN body < two64) by (unfold two64; lia).
  rewrite (takeN_app_ge _ _ peek) by lia.
  rewrite uvarint_put_uv by exact Hb64.
  set (n := lenN (put_uv (lenN body))) in *.
  assert (E1 : (n =? 0) = false) by (apply N.eqb_neq; lia). rewrite E1. cbn [andb].
  assert (E2 : (9223372036854775808 <=? lenN body) = false) by (apply N.leb_gt; lia). unfold two63. rewrite E2.
  rewrite lenN_app. fold n.
  assert (E3 : (n + lenN body <? n + lenN body) = false) by (apply N.ltb_irrefl). rewrite E3.
  rewrite takeN_all by (rewrite lenN_app; fold n; lia).
  unfold n. rewrite dropN_app_exact. reflexivity.
Qed.

Theorem weight_roundtrip peek body :
  max_header_len <= peek -> lenN body < two64 ->
  weight peek (Some (buf_of body)) = Val (lenN (buf_of body)).
Proof.
  unfold max_header_len. intros Hp Hb. unfold weight, buf_of.
  pose proof (put_uv_len_bounds (lenN body)) as Hl.
  rewrite (takeN_app_ge _ _ peek) by lia.
  rewrite uvarint_put_uv by exact Hb.
  assert (E1 : (lenN (put_uv (lenN body)) =? 0) = false) by (apply N.eqb_neq; lia). rewrite E1. cbn [andb].
  rewrite lenN_app. f_equal. lia.
Qed.

(* a reader whose window is shorter than the header the writer emitted sees an EMPTY list *)
Theorem ptob_short_peek peek body :
  peek < header_len (lenN body) ->
  ptob peek (Some (buf_of body)) = Val [] /\ weight peek (Some (buf_of body)) = Val 0.
Proof.
  unfold header_len. intros Hp. unfold ptob, weight, buf_of.
  rewrite uvarint_short_window by exact Hp.
  assert (E : (lenN (put_uv (lenN body) ++ body) <? peek) = false).
  { apply N.ltb_ge. rewrite lenN_app. lia. }
  rewrite E. cbn [N.eqb andb]. split; [|reflexivity].
  change (two63 <=? 0) with false. cbn iota. change (0 + 0) with 0.
  assert (E2 : (lenN (put_uv (lenN body) ++ body) <? 0) = false) by (apply N.ltb_ge; lia).
  rewrite E2. rewrite takeN_0, dropN_0. reflexivity.
Qed.

(* ---------- entries ---------- *)

(* the shared-name table knows the name: Load(Store(name)) = name, and the number fits a uint64 *)
Definition name_ok (sn : snames) (f : field) : Prop :=
  sn_load sn (sn_store sn (fst f)) = Some (fst f) /\ sn_store sn (fst f) < two64.

Definition kind_ok (v : value) : Prop := v_kind v <= 5.

(* what is stored of a value: the data only for the kinds Number, String, JSON *)
Definition sdata (v : value) : bytes := if datakind (v_kind v) then v_data v else [].

Definition f_ok (sn : snames) (f : field) : Prop := kind_ok (snd f) /\ lenN (sdata (snd f)) < two64 /\ name_ok sn f.
Definition fl_ok (sn : snames) (l : flist) : Prop := Forall (f_ok sn) l.

Lemma kind_cases v : kind_ok v ->
  v_kind v = 0 \/ v_kind v = 1 \/ v_kind v = 2 \/ v_kind v = 3 \/ v_kind v = 4 \/ v_kind v = 5.
Proof. unfold kind_ok. lia. Qed.

Lemma bfield_stored v : kind_ok v -> bfield (mkValue (v_kind v) (sdata v)) = bfield v.
Proof.
  intros H. destruct v as [k d]. unfold sdata. cbn [v_kind v_data] in *.
  destruct (kind_cases _ H) as [E|[E|[E|[E|[E|E]]]]]; cbn [v_kind] in E; subst k; reflexivity.
Qed.

Lemma kind_mod v : kind_ok v -> v_kind v mod 256 = v_kind v.
Proof. unfold kind_ok. intros H. apply N.mod_small. lia. Qed.

Lemma enc_entry_eq sn f :
  enc_entry sn f = put_uv (sn_store sn (fst f)) ++ [v_kind (snd f)] ++
    (if datakind (v_kind (snd f)) then put_uv (lenN (sdata (snd f))) ++ sdata (snd f) else []).
Proof. unfold enc_entry, sdata. destruct (datakind (v_kind (snd f))); reflexivity. Qed.

Lemma enc_entry_nonempty sn f : enc_entry sn f <> [].
Proof.
  unfold enc_entry. pose proof (put_uv_nonempty (sn_store sn (fst f))).
  destruct (put_uv (sn_store sn (fst f))); [congruence | discriminate].
Qed.

Lemma enc_body_cons sn f l : enc_body sn (f :: l) = enc_entry sn f ++ enc_body sn l.
Proof. reflexivity. Qed.

Lemma enc_body_app sn a b : enc_body sn (a ++ b) = enc_body sn a ++ enc_body sn b.
Proof. unfold enc_body. rewrite map_app, concat_app. reflexivity. Qed.

Lemma enc_body_len sn l : (length l <= length (enc_body sn l))%nat.
Proof.
  induction l as [|f l IH]; [cbn; lia|]. rewrite enc_body_cons, app_length. cbn [length].
  pose proof (enc_entry_nonempty sn f). destruct (enc_entry sn f); [congruence|]. cbn [length]. lia.
Qed.

Lemma read_entry_nil : read_entry [] = Val None.
Proof. reflexivity. Qed.

Lemma read_entry_enc sn f rest : f_ok sn f ->
  read_entry (enc_entry sn f ++ rest) =
    Val (Some (sn_store sn (fst f), v_kind (snd f), sdata (snd f), lenN (enc_entry sn f))).
Proof.
  intros [Hk [Hd [Hload Hrange]]]. rewrite enc_entry_eq. unfold read_entry.
  rewrite <- !app_assoc. rewrite uvarint_put_uv by exact Hrange.
  set (hn := put_uv (sn_store sn (fst f))).
  pose proof (put_uv_len_bounds (sn_store sn (fst f))) as Hb. fold hn in Hb.
  assert (E : (lenN hn =? 0) = false) by (apply N.eqb_neq; lia). rewrite E.
  rewrite dropN_app_exact. cbn [app].
  destruct (datakind (v_kind (snd f))) eqn:Edk.
  - rewrite <- !app_assoc. rewrite uvarint_put_uv by exact Hd.
    set (hd := put_uv (lenN (sdata (snd f)))).
    rewrite !lenN_app. fold hd.
    assert (E2 : (lenN hd + (lenN (sdata (snd f)) + lenN rest) <? lenN hd + lenN (sdata (snd f))) = false)
      by (apply N.ltb_ge; lia).
    rewrite E2. rewrite dropN_app_exact, takeN_app_exact.
    cbn [lenN]. do 3 f_equal. rewrite lenN_app. lia.
  - unfold sdata. rewrite Edk. cbn [app lenN]. rewrite lenN_app. cbn [lenN]. do 3 f_equal.
Qed.

Lemma fl_ok_cons sn f l : fl_ok sn (f :: l) -> f_ok sn f /\ fl_ok sn l.
Proof. intros H. inversion H; subst. split; assumption. Qed.

Lemma fl_ok_app sn a b : fl_ok sn (a ++ b) <-> fl_ok sn a /\ fl_ok sn b.
Proof. unfold fl_ok. apply Forall_app. Qed.

(* List.Scan inverts the entry encoding: it shows exactly Model.Field's fl_scan *)
Lemma scan_enc sn : forall l fuel rest, fl_ok sn l -> (length l < fuel)%nat -> rest = [] ->
  scan_loop fuel sn (enc_body sn l ++ rest) = Val (fl_scan l).
Proof.
  induction l as [|f l IH]; intros fuel rest Hok Hf Hr; subst rest.
  - destruct fuel; [lia|]. reflexivity.
  - destruct fuel as [|fuel]; [cbn in Hf; lia|].
    apply fl_ok_cons in Hok. destruct Hok as [Hf1 Hl].
    rewrite enc_body_cons. cbn [scan_loop]. rewrite <- app_assoc.
    rewrite (read_entry_enc sn f _ Hf1).
    destruct Hf1 as [Hk [_ [Hload _]]]. rewrite Hload. rewrite dropN_app_exact.
    rewrite (IH fuel [] Hl ltac:(cbn in Hf; lia) eq_refl). rewrite (bfield_stored _ Hk).
    destruct f as [n v]. reflexivity.
Qed.

Lemma len_enc sn : forall l fuel, fl_ok sn l -> (length l < fuel)%nat ->
  len_loop fuel (enc_body sn l) = Val (N.of_nat (length l)).
Proof.
  induction l as [|f l IH]; intros fuel Hok Hf.
  - destruct fuel; [lia|]. reflexivity.
  - destruct fuel as [|fuel]; [cbn in Hf; lia|].
    apply fl_ok_cons in Hok. destruct Hok as [Hf1 Hl].
    rewrite enc_body_cons. cbn [len_loop].
    rewrite (read_entry_enc sn f _ Hf1). rewrite dropN_app_exact.
    rewrite (IH fuel Hl ltac:(cbn in Hf; lia)). f_equal. cbn [length]. lia.
Qed.

Lemma get_enc sn G : forall isj jname jpath name l fuel, fl_ok sn l -> (length l < fuel)%nat ->
  get_loop fuel sn G isj jname jpath name (enc_body sn l) = Val (fl_get_loop G isj jname jpath name l).
Proof.
  intros isj jname jpath name. induction l as [|f l IH]; intros fuel Hok Hf.
  - destruct fuel; [lia|]. reflexivity.
  - destruct fuel as [|fuel]; [cbn in Hf; lia|].
    apply fl_ok_cons in Hok. destruct Hok as [Hf1 Hl].
    rewrite enc_body_cons. cbn [get_loop].
    rewrite (read_entry_enc sn f _ Hf1).
    destruct Hf1 as [Hk [_ [Hload _]]]. rewrite Hload.
    destruct f as [fname v]. cbn [fst snd fl_get_loop] in *.
    assert (Hj : (if (v_kind v =? KJSON) && isj && bytes_eqb fname jname then fo_gjson G (sdata v) jpath else None) =
                 (if (v_kind v =? KJSON) && isj && bytes_eqb fname jname then fo_gjson G (v_data v) jpath else None)).
    { destruct (v_kind v =? KJSON) eqn:Ek; [|reflexivity]. apply N.eqb_eq in Ek.
      unfold sdata. rewrite Ek. reflexivity. }
    rewrite Hj. rewrite (bfield_stored _ Hk).
    destruct (if (v_kind v =? KJSON) && isj && bytes_eqb fname jname then fo_gjson G (v_data v) jpath else None); [reflexivity|].
    destruct (bytes_ltb name fname); [reflexivity|].
    destruct (bytes_eqb fname name); [reflexivity|].
    rewrite dropN_app_exact. apply IH; [exact Hl | cbn in Hf; lia].
Qed.

(* ---------- the writers ---------- *)

Lemma enc_buf_nonempty body : body <> [] -> enc_buf body = Some (buf_of body).
Proof. destruct body; [congruence | reflexivity]. Qed.

Lemma putfield_splice sn A M P f : kind_ok (snd f) ->
  putfield sn (A ++ M ++ P) f (lenN A) (lenN A + lenN M) = Val (enc_buf (A ++ enc_entry sn f ++ P)).
Proof.
  intros Hk. unfold putfield.
  assert (E : (lenN (A ++ M ++ P) <? lenN A + lenN M) || (lenN (A ++ M ++ P) <? lenN A) = false).
  { rewrite !lenN_app. apply orb_false_iff. split; apply N.ltb_ge; lia. }
  rewrite E. rewrite takeN_app_exact.
  replace (dropN (lenN A + lenN M) (A ++ M ++ P)) with P
    by (rewrite dropN_app_plus, dropN_app_exact; reflexivity).
  rewrite (kind_mod _ Hk).
  assert (Hbody : A ++ enc_entry sn f ++ P =
    A ++ put_uv (sn_store sn (fst f)) ++ [v_kind (snd f)] ++
      (if datakind (v_kind (snd f)) then put_uv (lenN (v_data (snd f))) else []) ++
      (if datakind (v_kind (snd f)) then v_data (snd f) else []) ++ P).
  { unfold enc_entry. destruct (datakind (v_kind (snd f))); rewrite <- ?app_assoc; reflexivity. }
  assert (Hne : A ++ enc_entry sn f ++ P <> []).
  { pose proof (enc_entry_nonempty sn f). destruct A; [|discriminate]. cbn [app].
    destruct (enc_entry sn f); [congruence | discriminate]. }
  rewrite (enc_buf_nonempty _ Hne). unfold buf_of. rewrite Hbody.
  set (body := A ++ put_uv (sn_store sn (fst f)) ++ [v_kind (snd f)] ++
      (if datakind (v_kind (snd f)) then put_uv (lenN (v_data (snd f))) else []) ++
      (if datakind (v_kind (snd f)) then v_data (snd f) else []) ++ P).
  assert (Ht : lenN A + lenN (put_uv (sn_store sn (fst f))) + 1 + (lenN (A ++ M ++ P) - (lenN A + lenN M)) +
     (if datakind (v_kind (snd f))
      then lenN (put_uv (lenN (v_data (snd f)))) + lenN (v_data (snd f)) else 0) = lenN body).
  { unfold body. rewrite !lenN_app. cbn [lenN].
    destruct (datakind (v_kind (snd f))); cbn [lenN]; lia. }
  destruct (datakind (v_kind (snd f))) eqn:Edk; rewrite Ht;
    rewrite <- lenN_app; rewrite fit_exact; reflexivity.
Qed.

Lemma delfield_splice A M P :
  delfield (A ++ M ++ P) (lenN A) (lenN A + lenN M) = Val (enc_buf (A ++ P)).
Proof.
  unfold delfield.
  assert (E : (lenN (A ++ M ++ P) <? lenN A + lenN M) || (lenN (A ++ M ++ P) <? lenN A) = false).
  { rewrite !lenN_app. apply orb_false_iff. split; apply N.ltb_ge; lia. }
  rewrite E. rewrite takeN_app_exact.
  replace (dropN (lenN A + lenN M) (A ++ M ++ P)) with P
    by (rewrite dropN_app_plus, dropN_app_exact; reflexivity).
  assert (Ht : lenN A + (lenN (A ++ M ++ P) - (lenN A + lenN M)) = lenN (A ++ P)) by (rewrite !lenN_app; lia).
  rewrite Ht. destruct (lenN (A ++ P) =? 0) eqn:E0.
  - apply N.eqb_eq in E0. apply lenN_nil_inv in E0. rewrite E0. reflexivity.
  - apply N.eqb_neq in E0.
    assert (Hne : A ++ P <> []) by (intros H; rewrite H in E0; cbn in E0; lia).
    rewrite (enc_buf_nonempty _ Hne). unfold buf_of.
    rewrite <- lenN_app, fit_exact. reflexivity.
Qed.

(* ---------- List.Set on the packed bytes = fl_set through the codec ---------- *)

Lemma set_enc sn f : kind_ok (snd f) ->
  forall l pre fuel, fl_ok sn l -> (length l < fuel)%nat ->
  set_loop fuel sn (enc sn (pre ++ l)) (enc_body sn (pre ++ l)) (lenN (enc_body sn pre)) f =
    Val (enc sn (pre ++ fl_set l f)).
Proof.
  intros Hkf. induction l as [|[name v] l IH]; intros pre fuel Hok Hf.
  - destruct fuel as [|fuel]; [lia|]. cbn [set_loop fl_set].
    rewrite app_nil_r. rewrite dropN_all by lia. rewrite read_entry_nil.
    destruct (is_zero (snd f)); [rewrite app_nil_r; reflexivity|].
    pose proof (putfield_splice sn (enc_body sn pre) [] [] f Hkf) as Hp.
    cbn [lenN app] in Hp. rewrite N.add_0_r, !app_nil_r in Hp. rewrite Hp.
    unfold enc. rewrite enc_body_app. cbn [enc_body map concat]. rewrite app_nil_r. reflexivity.
  - destruct fuel as [|fuel]; [cbn in Hf; lia|].
    apply fl_ok_cons in Hok. destruct Hok as [Hf1 Hl].
    cbn [set_loop]. rewrite enc_body_app, enc_body_cons. rewrite dropN_app_exact.
    rewrite (read_entry_enc sn (name, v) _ Hf1). cbn [fst snd].
    destruct Hf1 as [Hk [_ [Hload _]]]. cbn [fst snd] in Hk, Hload. rewrite Hload.
    rewrite (bfield_stored _ Hk).
    cbn [fl_set].
    set (A := enc_body sn pre). set (M := enc_entry sn (name, v)). set (P := enc_body sn l).
    destruct (bytes_ltb (fst f) name).
    + destruct (is_zero (snd f)).
      * unfold enc. rewrite enc_body_app, enc_body_cons. reflexivity.
      * pose proof (putfield_splice sn A [] (M ++ P) f Hkf) as Hp.
        cbn [lenN app] in Hp. rewrite N.add_0_r in Hp. rewrite Hp.
        unfold enc. rewrite enc_body_app, !enc_body_cons. reflexivity.
    + destruct (bytes_eqb name (fst f)).
      * destruct (is_zero (snd f)).
        -- rewrite (delfield_splice A M P). unfold enc. rewrite enc_body_app. reflexivity.
        -- destruct (value_same (bfield v) (snd f)).
           ++ unfold enc. rewrite enc_body_app, enc_body_cons. reflexivity.
           ++ rewrite (putfield_splice sn A M P f Hkf).
              unfold enc. rewrite enc_body_app, enc_body_cons. reflexivity.
      * specialize (IH (pre ++ [(name, v)]) fuel Hl ltac:(cbn in Hf; lia)).
        assert (H1 : (pre ++ [(name, v)]) ++ l = pre ++ (name, v) :: l) by (rewrite <- app_assoc; reflexivity).
        assert (H2 : (pre ++ [(name, v)]) ++ fl_set l f = pre ++ (name, v) :: fl_set l f) by (rewrite <- app_assoc; reflexivity).
        rewrite H1, H2 in IH.
        assert (H3 : lenN (enc_body sn (pre ++ [(name, v)])) = lenN A + lenN M).
        { rewrite enc_body_app, lenN_app. cbn [enc_body map concat]. rewrite app_nil_r. reflexivity. }
        rewrite H3 in IH.
        assert (H4 : enc_body sn (pre ++ (name, v) :: l) = A ++ M ++ P) by (rewrite enc_body_app, enc_body_cons; reflexivity).
        rewrite H4 in IH.
        exact IH.
Qed.

(* ---------- whole lists: header + entries ---------- *)

(* every entry has one of the six kinds and a name the shared-name table knows *)
Definition entry_ok (sn : snames) (f : field) : Prop := kind_ok (snd f) /\ name_ok sn f.
Definition kinds_ok (sn : snames) (l : flist) : Prop := Forall (entry_ok sn) l.

(* the list fits a Go slice: its packed entries take fewer than 2^63 bytes *)
Definition fits (sn : snames) (l : flist) : Prop := lenN (enc_body sn l) < two63.

Lemma enc_entry_data_le sn f : lenN (sdata (snd f)) <= lenN (enc_entry sn f).
Proof.
  rewrite enc_entry_eq. rewrite !lenN_app. unfold sdata.
  destruct (datakind (v_kind (snd f))); rewrite ?lenN_app; cbn [lenN]; lia.
Qed.

Lemma fl_ok_of sn l : kinds_ok sn l -> lenN (enc_body sn l) < two64 -> fl_ok sn l.
Proof.
  induction l as [|f l IH]; intros Hk Hb; [constructor|].
  inversion Hk as [|? ? [Hkf Hnf] Hkl]; subst. rewrite enc_body_cons, lenN_app in Hb.
  pose proof (enc_entry_data_le sn f).
  constructor; [split; [exact Hkf | split; [lia | exact Hnf]] | apply IH; [exact Hkl | lia]].
Qed.

Lemma fits_fl_ok sn l : kinds_ok sn l -> fits sn l -> fl_ok sn l.
Proof. unfold fits, two63. intros Hk Hb. apply (fl_ok_of sn); [exact Hk | unfold two64; lia]. Qed.

Lemma ptob_enc_buf peek body : max_header_len <= peek -> lenN body < two63 ->
  ptob peek (enc_buf body) = Val body.
Proof.
  intros Hp Hb. destruct body as [|x body']; [reflexivity|].
  rewrite enc_buf_nonempty by discriminate.
  apply ptob_roundtrip; assumption.
Qed.

Theorem bl_scan_enc peek sn l : max_header_len <= peek -> kinds_ok sn l -> fits sn l ->
  bl_scan peek sn (enc sn l) = Val (fl_scan l).
Proof.
  intros Hp Hk Hb. unfold bl_scan, enc. rewrite (ptob_enc_buf peek _ Hp Hb).
  rewrite <- (app_nil_r (enc_body sn l)) at 2.
  apply scan_enc; [apply (fits_fl_ok sn); assumption | | reflexivity].
  pose proof (enc_body_len sn l). lia.
Qed.

Theorem bl_len_enc peek sn l : max_header_len <= peek -> kinds_ok sn l -> fits sn l ->
  bl_len peek (enc sn l) = Val (N.of_nat (length l)).
Proof.
  intros Hp Hk Hb. unfold bl_len, enc. rewrite (ptob_enc_buf peek _ Hp Hb).
  apply len_enc; [apply (fits_fl_ok sn); assumption |].
  pose proof (enc_body_len sn l). lia.
Qed.

Theorem bl_get_enc peek sn G l name : max_header_len <= peek -> kinds_ok sn l -> fits sn l ->
  bl_get peek sn G (enc sn l) name = Val (fl_get G l name).
Proof.
  intros Hp Hk Hb. unfold bl_get, enc, fl_get. rewrite (ptob_enc_buf peek _ Hp Hb).
  pose proof (enc_body_len sn l) as Hlen. pose proof (fits_fl_ok sn l Hk Hb) as Hok.
  destruct (split_dot name) as [[j q]|]; apply get_enc; try assumption; lia.
Qed.

Theorem bl_set_enc peek sn l f : max_header_len <= peek -> kinds_ok sn l -> fits sn l -> kind_ok (snd f) ->
  bl_set peek sn (enc sn l) f = Val (enc sn (fl_set l f)).
Proof.
  intros Hp Hk Hb Hkf. unfold bl_set. unfold enc at 1. rewrite (ptob_enc_buf peek _ Hp Hb).
  pose proof (enc_body_len sn l) as Hlen. pose proof (fits_fl_ok sn l Hk Hb) as Hok.
  pose proof (set_enc sn f Hkf l [] (S (length (enc_body sn l))) Hok ltac:(lia)) as H.
  cbn [app enc_body map concat lenN] in H. exact H.
Qed.

Theorem bl_weight_enc peek sn l : max_header_len <= peek -> fits sn l ->
  weight peek (enc sn l) = Val (match enc sn l with None => 0 | Some buf => lenN buf end).
Proof.
  intros Hp Hb. unfold enc, fits in *. destruct (enc_body sn l) as [|x body']; [reflexivity|].
  rewrite enc_buf_nonempty by discriminate.
  apply weight_roundtrip; [exact Hp | unfold two63 in Hb; unfold two64; lia].
Qed.

Lemma kinds_ok_fl_set sn l f : kinds_ok sn l -> entry_ok sn f -> kinds_ok sn (fl_set l f).
Proof.
  unfold kinds_ok. induction l as [|[n v] l IH]; intros Hl Hf; cbn [fl_set].
  - destruct (is_zero (snd f)); [constructor | constructor; [exact Hf | constructor]].
  - inversion Hl as [|? ? Hv Hl']; subst.
    destruct (bytes_ltb (fst f) n).
    + destruct (is_zero (snd f)); [exact Hl | constructor; assumption].
    + destruct (bytes_eqb n (fst f)).
      * destruct (is_zero (snd f)); [exact Hl'|].
        destruct (value_same (bfield v) (snd f)); [exact Hl | constructor; assumption].
      * constructor; [exact Hv | apply IH; assumption].
Qed.

(* a reader with a window shorter than the header: the whole list reads as empty *)
Theorem bl_short_peek peek sn G l name : peek < header_len (lenN (enc_body sn l)) -> enc_body sn l <> [] ->
  bl_scan peek sn (enc sn l) = Val [] /\ bl_get peek sn G (enc sn l) name = Val zero_field /\
  bl_len peek (enc sn l) = Val 0 /\ weight peek (enc sn l) = Val 0.
Proof.
  intros Hp Hne. unfold bl_scan, bl_get, bl_len, enc. rewrite (enc_buf_nonempty _ Hne).
  destruct (ptob_short_peek peek (enc_body sn l) Hp) as [H1 H2]. rewrite H1, H2.
  repeat split; try reflexivity. destruct (split_dot name) as [[j q]|]; reflexivity.
Qed.

(* what was written through the packed list is what is read from it *)
Theorem packed_readback peek sn G l n v :
  max_header_len <= peek -> kinds_ok sn l -> fits sn l -> entry_ok sn (n, v) -> fits sn (fl_set l (n, v)) ->
  msorted l -> is_zero v = false -> shadowed G l n = false ->
  exists p', bl_set peek sn (enc sn l) (n, v) = Val p' /\ bl_get peek sn G p' n = Val (n, bfield v).
Proof.
  intros Hp Hk Hb Hkv Hb' Hs Hz Hsh.
  exists (enc sn (fl_set l (n, v))). split.
  - apply bl_set_enc; try assumption; exact (proj1 Hkv).
  - rewrite bl_get_enc; try assumption.
    + f_equal. apply field_readback; assumption.
    + apply kinds_ok_fl_set; assumption.
Qed.

(* ---------- header length by the boundaries 2^7, 2^14, 2^21, 2^28, ... ---------- *)

Theorem header_len_boundaries x : x < two64 ->
  (header_len x = 1 <-> x < 2 ^ 7) /\
  (header_len x = 2 <-> 2 ^ 7 <= x < 2 ^ 14) /\
  (header_len x = 3 <-> 2 ^ 14 <= x < 2 ^ 21) /\
  (header_len x = 4 <-> 2 ^ 21 <= x < 2 ^ 28) /\
  (header_len x = 5 <-> 2 ^ 28 <= x < 2 ^ 35) /\
  1 <= header_len x <= max_header_len.
Proof.
  intros Hx. unfold header_len, max_header_len.
  pose proof (put_uv_len_bounds x) as Hb.
  pose proof (put_uv_len_iff x 1 ltac:(lia)) as H1.
  pose proof (put_uv_len_iff x 2 ltac:(lia)) as H2.
  pose proof (put_uv_len_iff x 3 ltac:(lia)) as H3.
  pose proof (put_uv_len_iff x 4 ltac:(lia)) as H4.
  pose proof (put_uv_len_iff x 5 ltac:(lia)) as H5.
  rewrite (N.mod_small x two64 Hx) in *.
  change (128 ^ N.of_nat 1) with 128 in H1. change (128 ^ N.of_nat 2) with 16384 in H2.
  change (128 ^ N.of_nat 3) with 2097152 in H3. change (128 ^ N.of_nat 4) with 268435456 in H4.
  change (128 ^ N.of_nat 5) with 34359738368 in H5.
  change (N.of_nat 1) with 1 in H1. change (N.of_nat 2) with 2 in H2. change (N.of_nat 3) with 3 in H3.
  change (N.of_nat 4) with 4 in H4. change (N.of_nat 5) with 5 in H5.
  change (2 ^ 7) with 128. change (2 ^ 14) with 16384. change (2 ^ 21) with 2097152.
  change (2 ^ 28) with 268435456. change (2 ^ 35) with 34359738368.
  set (h := lenN (put_uv x)) in *. lia.
Qed.

(* bodies of exactly 2^21 bytes exist (a list of N, no unary number is computed) *)
Lemma body_of_size (n : N) : exists body : bytes, lenN body = n.
Proof. exists (repeat 65 (N.to_nat n)). rewrite lenN_length, repeat_length. apply N2Nat.id. Qed.

(* the reader of a 3-byte window (binary.MaxVarintLen16) against the writers as they are:
   from 2^21 bytes on, the body reads as EMPTY although the 10-byte window reads it back *)
Theorem short_window_refuted :
  (exists body : bytes, lenN body = 2 ^ 21) /\
  forall peek body, peek <= 3 -> 2 ^ 21 <= lenN body < two63 ->
    ptob max_header_len (Some (buf_of body)) = Val body /\ body <> [] /\
    ptob peek (Some (buf_of body)) = Val [] /\ weight peek (Some (buf_of body)) = Val 0.
Proof.
  split; [apply body_of_size|]. intros peek body Hp [Hlo Hhi].
  assert (Hx : lenN body < two64) by (unfold two63 in Hhi; unfold two64; lia).
  destruct (header_len_boundaries (lenN body) Hx) as [B1 [B2 [B3 [_ [_ Hb]]]]].
  change (2 ^ 21) with 2097152 in *. change (2 ^ 7) with 128 in *. change (2 ^ 14) with 16384 in *.
  assert (Hh : peek < header_len (lenN body)).
  { destruct (N.lt_ge_cases peek (header_len (lenN body))) as [H|H]; [exact H|].
    assert (header_len (lenN body) = 1 \/ header_len (lenN body) = 2 \/ header_len (lenN body) = 3) by lia.
    lia. }
  split; [apply ptob_roundtrip; [lia | exact Hhi]|].
  split; [intros E; rewrite E in Hlo; cbn in Hlo; lia|].
  apply ptob_short_peek. exact Hh.
Qed.

(* ... and so does the whole list: Scan shows nothing, Get finds nothing, Len and Weight are 0 *)
Theorem short_window_list_refuted peek sn G l name :
  peek <= 3 -> 2 ^ 21 <= lenN (enc_body sn l) < two64 ->
  bl_scan peek sn (enc sn l) = Val [] /\ bl_get peek sn G (enc sn l) name = Val zero_field /\
  bl_len peek (enc sn l) = Val 0 /\ weight peek (enc sn l) = Val 0.
Proof.
  intros Hp [Hlo Hhi].
  destruct (header_len_boundaries _ Hhi) as [B1 [B2 [B3 [_ [_ Hb]]]]].
  change (2 ^ 21) with 2097152 in *. change (2 ^ 7) with 128 in *. change (2 ^ 14) with 16384 in *.
  apply bl_short_peek.
  - destruct (N.lt_ge_cases peek (header_len (lenN (enc_body sn l)))) as [H|H]; [exact H|].
    assert (header_len (lenN (enc_body sn l)) = 1 \/ header_len (lenN (enc_body sn l)) = 2 \/
            header_len (lenN (enc_body sn l)) = 3) by lia.
    lia.
  - intros E. rewrite E in Hlo. cbn in Hlo. lia.
Qed.

(* non-vacuity: a name table, a two-entry list, its packed form *)
Definition toy_sn : snames :=
  mkSNames (fun n => match n with [97] => 0 | [98] => 1 | _ => 2 end)
           (fun k => if k =? 0 then Some [97] else if k =? 1 then Some [98] else None).
Definition toy_list : flist := [([97], mkValue KNumber [55]); ([98], mkValue KTrue str_true)].

Lemma toy_packed :
  enc toy_sn toy_list = Some [6; 0; 2; 1; 55; 1; 4] /\
  bl_scan 10 toy_sn (enc toy_sn toy_list) = Val toy_list /\
  bl_set 10 toy_sn (enc toy_sn toy_list) ([97], zero_value) = Val (Some [2; 1; 4]) /\
  bl_scan 0 toy_sn (enc toy_sn toy_list) = Val [].
Proof. vm_compute. repeat split. Qed.

(* the hypotheses of the whole-list theorems hold for that list and table *)
Lemma toy_hyps : kinds_ok toy_sn toy_list /\ fits toy_sn toy_list /\ msorted toy_list /\
  entry_ok toy_sn ([98], mkValue KString [120]) /\ fits toy_sn (fl_set toy_list ([98], mkValue KString [120])).
Proof.
  assert (Hlt : forall a b : N, (a <? b) = true -> a < b) by (intros a b H; apply N.ltb_lt; exact H).
  assert (Hle : forall a b : N, (a <=? b) = true -> a <= b) by (intros a b H; apply N.leb_le; exact H).
  split; [|split; [|split; [|split]]].
  - repeat constructor; try (apply Hle; reflexivity); try (apply Hlt; reflexivity).
  - apply Hlt. reflexivity.
  - unfold msorted, sorted_keys. cbn. repeat constructor.
  - repeat constructor; try (apply Hle; reflexivity); try (apply Hlt; reflexivity).
  - apply Hlt. reflexivity.
Qed.
