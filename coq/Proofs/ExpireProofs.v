(* The expiry index is exactly the set of objects with a deadline, sorted; hence the sweeper, with
   its early stop, removes exactly the objects whose deadline has passed, never one whose deadline
   is in the future or absent, and an overwritten / persisted / deleted object leaves no stale entry. *)
From Coq Require Import ZArith List Bool Lia Sorted.
From T38 Require Import Base.Bytes Model.Expire.
Import ListNotations.
Local Open Scope Z_scope.

(* ---------- the order ---------- *)

Lemma entry_eqb_eq a b : entry_eqb a b = true <-> a = b.
Proof.
  destruct a as [e1 i1], b as [e2 i2]. unfold entry_eqb; cbn.
  rewrite andb_true_iff, Z.eqb_eq, bytes_eqb_eq. split; [intros [-> ->]; reflexivity | intros H; inversion H; auto].
Qed.

Lemma entry_eqb_refl a : entry_eqb a a = true.
Proof. apply entry_eqb_eq; reflexivity. Qed.

Definition plt (a b : entry) : Prop := ple a b = true /\ a <> b.

Lemma ple_refl a : ple a a = true.
Proof. unfold ple. rewrite Z.ltb_irrefl, Z.eqb_refl. apply bytes_leb_refl. Qed.

Lemma ple_total a b : ple a b = false -> ple b a = true.
Proof.
  unfold ple. destruct a as [e1 i1], b as [e2 i2]; cbn.
  destruct (Z.ltb_spec e1 e2) as [Hlt|Hge]; [discriminate|].
  destruct (Z.eqb_spec e1 e2) as [->|Hne].
  - rewrite Z.ltb_irrefl, Z.eqb_refl. intros Hf. destruct (bytes_leb_total i1 i2) as [Ht|Ht]; congruence.
  - intros _. destruct (Z.ltb_spec e2 e1) as [Hlt2|Hge2]; [reflexivity | lia].
Qed.

Lemma ple_trans a b c : ple a b = true -> ple b c = true -> ple a c = true.
Proof.
  unfold ple. destruct a as [e1 i1], b as [e2 i2], c as [e3 i3]; cbn. intros H1 H2.
  destruct (Z.ltb_spec e1 e2) as [L12|G12].
  - destruct (Z.ltb_spec e2 e3) as [L23|G23].
    + destruct (Z.ltb_spec e1 e3) as [L|G]; [reflexivity | lia].
    + destruct (Z.eqb_spec e2 e3) as [E|E]; [|discriminate]. subst.
      destruct (Z.ltb_spec e1 e3) as [L|G]; [reflexivity | lia].
  - destruct (Z.eqb_spec e1 e2) as [E|E]; [|discriminate]. subst.
    destruct (Z.ltb_spec e2 e3) as [L|G]; [reflexivity|].
    destruct (Z.eqb_spec e2 e3) as [E|E]; [|discriminate]. eapply bytes_leb_trans; eauto.
Qed.

Lemma ple_antisym a b : ple a b = true -> ple b a = true -> a = b.
Proof.
  unfold ple. destruct a as [e1 i1], b as [e2 i2]; cbn. intros H1 H2.
  destruct (Z.ltb_spec e1 e2) as [L1|G1].
  - destruct (Z.ltb_spec e2 e1) as [L2|G2]; [lia|]. destruct (Z.eqb_spec e2 e1) as [E|E]; [lia | discriminate].
  - destruct (Z.eqb_spec e1 e2) as [E|E]; [|discriminate]. subst. rewrite Z.ltb_irrefl, Z.eqb_refl in H2.
    f_equal. apply bytes_leb_antisym; assumption.
Qed.

Lemma plt_trans a b c : plt a b -> plt b c -> plt a c.
Proof.
  intros [H1 N1] [H2 N2]. split; [eapply ple_trans; eauto|].
  intros ->. apply N1. apply ple_antisym; assumption.
Qed.

Lemma ple_fst a b : ple a b = true -> fst a <= fst b.
Proof.
  unfold ple. destruct (Z.ltb_spec (fst a) (fst b)) as [L|G]; [lia|].
  destruct (Z.eqb_spec (fst a) (fst b)) as [E|E]; [lia | discriminate].
Qed.

Definition sorted (l : list entry) : Prop := StronglySorted plt l.

(* ---------- insert / remove ---------- *)

Lemma In_insert x l e : In e (insert x l) <-> e = x \/ In e l.
Proof.
  induction l as [|y r IH]; cbn; [intuition|].
  destruct (entry_eqb x y) eqn:E.
  - apply entry_eqb_eq in E; subst. cbn. intuition.
  - destruct (ple x y); cbn; [intuition | rewrite IH; intuition].
Qed.

Lemma insert_sorted x l : sorted l -> sorted (insert x l).
Proof.
  intros Hs. induction l as [|y r IH]; cbn; [repeat constructor|].
  inversion Hs as [|? ? Hr Hall]; subst.
  destruct (entry_eqb x y) eqn:E; [exact Hs|].
  assert (Hne : x <> y) by (intros ->; rewrite entry_eqb_refl in E; discriminate).
  destruct (ple x y) eqn:P.
  - constructor; [exact Hs|]. constructor; [split; assumption|].
    rewrite Forall_forall in *. intros z Hz. eapply plt_trans; [split; [exact P | exact Hne] | apply Hall; exact Hz].
  - constructor; [apply IH; exact Hr|].
    rewrite Forall_forall in *. intros z Hz. apply In_insert in Hz as [->|Hz]; [|apply Hall; exact Hz].
    split; [apply ple_total; exact P | congruence].
Qed.

Lemma sorted_not_in x l : sorted (x :: l) -> ~ In x l.
Proof.
  intros Hs Hin. inversion Hs as [|? ? _ Hall]; subst. rewrite Forall_forall in Hall.
  destruct (Hall x Hin) as [_ N]. congruence.
Qed.

Lemma In_remove x l e : sorted l -> (In e (remove x l) <-> In e l /\ e <> x).
Proof.
  intros Hs. induction l as [|y r IH]; cbn; [intuition|].
  inversion Hs as [|? ? Hr Hall]; subst.
  destruct (entry_eqb x y) eqn:E.
  - apply entry_eqb_eq in E; subst. pose proof (sorted_not_in _ _ Hs) as Hn. split.
    + intros H. split; [right; exact H | intros ->; contradiction].
    + intros [[H|H] Hne]; [congruence | exact H].
  - assert (Hne : x <> y) by (intros ->; rewrite entry_eqb_refl in E; discriminate).
    cbn. rewrite (IH Hr). split.
    + intros [->|[H1 H2]]; [split; [left; reflexivity | congruence] | split; [right; exact H1 | exact H2]].
    + intros [[->|H1] H2]; [left; reflexivity | right; split; assumption].
Qed.

Lemma remove_sorted x l : sorted l -> sorted (remove x l).
Proof.
  intros Hs. induction l as [|y r IH]; cbn; [constructor|].
  inversion Hs as [|? ? Hr Hall]; subst.
  destruct (entry_eqb x y); [exact Hr|].
  constructor; [apply IH; exact Hr|].
  rewrite Forall_forall in *. intros z Hz. apply (In_remove x r z Hr) in Hz as [Hz _]. apply Hall; exact Hz.
Qed.

(* ---------- the id index ---------- *)

Lemma lookup_del_same id l : lookup id (del_id id l) = None.
Proof.
  induction l as [|[i o] r IH]; cbn; [reflexivity|].
  destruct (bytes_eqb i id) eqn:E; [exact IH | cbn; rewrite E; exact IH].
Qed.

Lemma lookup_del_other id id' l : id' <> id -> lookup id' (del_id id l) = lookup id' l.
Proof.
  intros Hne. induction l as [|[i o] r IH]; cbn; [reflexivity|].
  destruct (bytes_eqb i id) eqn:E.
  - apply bytes_eqb_eq in E; subst. destruct (bytes_eqb id id') eqn:E2; [apply bytes_eqb_eq in E2; congruence | exact IH].
  - cbn. destruct (bytes_eqb i id'); [reflexivity | exact IH].
Qed.

(* ---------- well-formedness ---------- *)

Definition Wf (c : coll) : Prop :=
  sorted (expires c) /\
  forall e, In e (expires c) <-> exists o, lookup (snd e) (objs c) = Some o /\ o_ex o = fst e /\ fst e <> 0.

Lemma wf_new : Wf cnew.
Proof. split; [constructor|]. intros e; cbn. split; [tauto | intros [o [H _]]; discriminate]. Qed.

(* the expiry index after dropping the previous object's entry *)
Definition drop_prev (c : coll) (id : bytes) : list entry :=
  match lookup id (objs c) with
  | Some prev => if o_ex prev =? 0 then expires c else remove (o_ex prev, id) (expires c)
  | None => expires c
  end.

Lemma drop_prev_sorted c id : Wf c -> sorted (drop_prev c id).
Proof.
  intros [Hs _]. unfold drop_prev. destruct (lookup id (objs c)) as [p|]; [|exact Hs].
  destruct (o_ex p =? 0); [exact Hs | apply remove_sorted; exact Hs].
Qed.

Lemma drop_prev_in c id e : Wf c ->
  (In e (drop_prev c id) <-> In e (expires c) /\ snd e <> id).
Proof.
  intros [Hs Hw]. unfold drop_prev.
  destruct (lookup id (objs c)) as [p|] eqn:El.
  - destruct (Z.eqb_spec (o_ex p) 0) as [Hz|Hz].
    + split; [|tauto]. intros H. split; [exact H|]. intros Hid.
      apply Hw in H as [o [Ho [Hex Hnz]]]. rewrite Hid, El in Ho. inversion Ho; subst. congruence.
    + rewrite (In_remove _ _ _ Hs). split.
      * intros [H Hne]. split; [exact H|]. intros Hid. apply Hne.
        apply Hw in H as [o [Ho [Hex _]]]. rewrite Hid, El in Ho. inversion Ho; subst.
        destruct e as [ee ei]; cbn in *. subst. reflexivity.
      * intros [H Hne]. split; [exact H|]. intros ->. cbn in Hne. congruence.
  - split; [|tauto]. intros H. split; [exact H|]. intros Hid.
    apply Hw in H as [o [Ho _]]. rewrite Hid, El in Ho. discriminate.
Qed.

Lemma wf_cset c id o : Wf c -> Wf (cset c id o).
Proof.
  intros Hwf. pose proof (drop_prev_sorted c id Hwf) as Hds. pose proof (fun e => drop_prev_in c id e Hwf) as Hdi.
  destruct Hwf as [Hs Hw].
  unfold cset. fold (drop_prev c id). split; cbn [expires objs].
  - destruct (o_ex o =? 0); [exact Hds | apply insert_sorted; exact Hds].
  - intros e. cbn [lookup].
    destruct (Z.eqb_spec (o_ex o) 0) as [Hz|Hz].
    + rewrite Hdi. split.
      * intros [H Hne]. apply Hw in H as [o' [Ho' [Hex Hnz]]]. exists o'.
        destruct (bytes_eqb id (snd e)) eqn:E; [apply bytes_eqb_eq in E; congruence|].
        rewrite lookup_del_other by exact Hne. auto.
      * intros [o' [Ho' [Hex Hnz]]].
        destruct (bytes_eqb id (snd e)) eqn:E.
        -- inversion Ho'; subst. congruence.
        -- assert (Hne : snd e <> id) by (intros H; rewrite H, bytes_eqb_refl in E; discriminate).
           rewrite lookup_del_other in Ho' by exact Hne. split; [apply Hw; exists o'; auto | exact Hne].
    + rewrite In_insert, Hdi. split.
      * intros [->|[H Hne]].
        -- cbn. rewrite bytes_eqb_refl. exists o. auto.
        -- apply Hw in H as [o' [Ho' [Hex Hnz]]]. exists o'.
           destruct (bytes_eqb id (snd e)) eqn:E; [apply bytes_eqb_eq in E; congruence|].
           rewrite lookup_del_other by exact Hne. auto.
      * intros [o' [Ho' [Hex Hnz]]].
        destruct (bytes_eqb id (snd e)) eqn:E.
        -- inversion Ho'; subst. apply bytes_eqb_eq in E. left. destruct e; cbn in *; subst; reflexivity.
        -- assert (Hne : snd e <> id) by (intros H; rewrite H, bytes_eqb_refl in E; discriminate).
           rewrite lookup_del_other in Ho' by exact Hne. right. split; [apply Hw; exists o'; auto | exact Hne].
Qed.

Lemma wf_cdel c id : Wf c -> Wf (cdel c id).
Proof.
  intros Hwf. pose proof (drop_prev_sorted c id Hwf) as Hds. pose proof (fun e => drop_prev_in c id e Hwf) as Hdi.
  destruct Hwf as [Hs Hw]. unfold cdel. unfold drop_prev in *.
  destruct (lookup id (objs c)) as [p|] eqn:El; [|split; assumption].
  split; cbn [expires objs]; [exact Hds|].
  intros e. rewrite Hdi. split.
  - intros [H Hne]. apply Hw in H as [o' [Ho' [Hex Hnz]]]. exists o'. rewrite lookup_del_other by exact Hne. auto.
  - intros [o' [Ho' [Hex Hnz]]].
    assert (Hne : snd e <> id) by (intros H; rewrite H, lookup_del_same in Ho'; discriminate).
    rewrite lookup_del_other in Ho' by exact Hne. split; [apply Hw; exists o'; auto | exact Hne].
Qed.

Lemma wf_apply c o : Wf c -> Wf (apply c o).
Proof.
  intros H. destruct o as [id v ex|id ex|id|id]; cbn.
  - apply wf_cset; exact H.
  - destruct (lookup id (objs c)); [apply wf_cset; exact H | exact H].
  - destruct (lookup id (objs c)); [apply wf_cset; exact H | exact H].
  - apply wf_cdel; exact H.
Qed.

Theorem wf_reachable ops : Wf (fold_left apply ops cnew).
Proof.
  generalize wf_new. generalize cnew. induction ops as [|o ops IH]; intros c H; cbn; [exact H|].
  apply IH. apply wf_apply. exact H.
Qed.

(* ---------- the sweeper ---------- *)

Lemma victims_spec now l e : sorted l -> (In e (victims now l) <-> In e l /\ fst e <= now).
Proof.
  intros Hs. induction l as [|y r IH]; cbn; [intuition|].
  inversion Hs as [|? ? Hr Hall]; subst.
  destruct (Z.ltb_spec now (fst y)) as [Hlt|Hge].
  - split; [intros []|]. intros [[->|H] Hle]; [lia|].
    rewrite Forall_forall in Hall. destruct (Hall e H) as [Hp _]. apply ple_fst in Hp. lia.
  - cbn. rewrite (IH Hr). split.
    + intros [->|[H1 H2]]; [split; [left; reflexivity | lia] | split; [right; exact H1 | exact H2]].
    + intros [[->|H1] H2]; [left; reflexivity | right; split; assumption].
Qed.

Lemma victims_sublist now l : forall e, In e (victims now l) -> In e l.
Proof.
  induction l as [|y r IH]; cbn; [tauto|]. destruct (now <? fst y); cbn; [tauto|]. intros e [->|H]; [left; reflexivity | right; apply IH; exact H].
Qed.

Lemma cdel_lookup c id id' :
  lookup id' (objs (cdel c id)) = if bytes_eqb id id' then None else lookup id' (objs c).
Proof.
  unfold cdel. destruct (lookup id (objs c)) eqn:El; cbn [objs].
  - destruct (bytes_eqb id id') eqn:E.
    + apply bytes_eqb_eq in E; subst. apply lookup_del_same.
    + apply lookup_del_other. intros ->. rewrite bytes_eqb_refl in E. discriminate.
  - destruct (bytes_eqb id id') eqn:E; [apply bytes_eqb_eq in E; subst; exact El | reflexivity].
Qed.

Lemma fold_cdel_lookup (vs : list entry) : forall c id',
  lookup id' (objs (fold_left (fun c (e : entry) => cdel c (snd e)) vs c)) =
  if existsb (fun e : entry => bytes_eqb (snd e) id') vs then None else lookup id' (objs c).
Proof.
  induction vs as [|e vs IH]; intros c id'; cbn; [reflexivity|].
  rewrite IH, cdel_lookup. destruct (bytes_eqb (snd e) id'); cbn; destruct (existsb _ vs); reflexivity.
Qed.

Lemma fold_cdel_wf (vs : list entry) : forall c, Wf c -> Wf (fold_left (fun c (e : entry) => cdel c (snd e)) vs c).
Proof. induction vs as [|e vs IH]; intros c H; cbn; [exact H | apply IH, wf_cdel, H]. Qed.

Lemma is_victim now c id : Wf c ->
  (existsb (fun e : entry => bytes_eqb (snd e) id) (victims now (expires c)) = true <->
   exists o, lookup id (objs c) = Some o /\ o_ex o <> 0 /\ o_ex o <= now).
Proof.
  intros [Hs Hw]. rewrite existsb_exists. split.
  - intros [e [He Hid]]. apply bytes_eqb_eq in Hid. apply (victims_spec now _ e Hs) in He as [Hin Hle].
    apply Hw in Hin as [o [Ho [Hex Hnz]]]. exists o. rewrite <- Hid. repeat split; [exact Ho | lia | lia].
  - intros [o [Ho [Hnz Hle]]]. exists (o_ex o, id). split; [|cbn; apply bytes_eqb_refl].
    apply (victims_spec now _ _ Hs). split; [|cbn; exact Hle]. apply Hw. exists o. cbn. auto.
Qed.

(* never early: an object without a deadline, or whose deadline is still in the future, survives *)
Theorem sweep_never_early now c id o : Wf c ->
  lookup id (objs c) = Some o -> (o_ex o = 0 \/ now < o_ex o) ->
  lookup id (objs (fst (sweep now c))) = Some o.
Proof.
  intros Hwf Ho Hfut. unfold sweep; cbn [fst]. rewrite fold_cdel_lookup.
  destruct (existsb _ _) eqn:E; [|exact Ho].
  apply (is_victim now c id Hwf) in E as [o' [Ho' [Hnz Hle]]]. rewrite Ho in Ho'. inversion Ho'; subst. lia.
Qed.

(* complete: after a sweep at `now` nothing with a passed deadline is left *)
Theorem sweep_complete now c id o : Wf c ->
  lookup id (objs (fst (sweep now c))) = Some o -> o_ex o = 0 \/ now < o_ex o.
Proof.
  intros Hwf H. unfold sweep in H; cbn [fst] in H. rewrite fold_cdel_lookup in H.
  destruct (existsb _ _) eqn:E; [discriminate|].
  destruct (Z.eq_dec (o_ex o) 0) as [Hz|Hnz]; [left; exact Hz|]. right.
  destruct (Z.lt_ge_cases now (o_ex o)) as [Hlt|Hge]; [exact Hlt|]. exfalso.
  assert (Hv : existsb (fun e : entry => bytes_eqb (snd e) id) (victims now (expires c)) = true).
  { apply (is_victim now c id Hwf). exists o. repeat split; [exact H | exact Hnz | lia]. }
  congruence.
Qed.

(* each victim yields exactly one `del` record: the records are the ids of exactly the objects whose
   deadline has passed, without repetition *)
Theorem sweep_logged now c : Wf c ->
  NoDup (snd (sweep now c)) /\
  forall id, In id (snd (sweep now c)) <-> exists o, lookup id (objs c) = Some o /\ o_ex o <> 0 /\ o_ex o <= now.
Proof.
  intros Hwf. pose proof Hwf as [Hs Hw]. unfold sweep; cbn [snd]. split.
  - (* two victims with the same id would be two entries for one object: their deadlines agree *)
    assert (Hnd : forall l, sorted l -> (forall e, In e l -> In e (expires c)) -> NoDup (map snd l)).
    { induction l as [|e l IH]; intros Hsl Hsub; cbn; [constructor|].
      inversion Hsl as [|? ? Hl Hall]; subst. constructor.
      - intros Hin. apply in_map_iff in Hin as [e' [Hid Hin']].
        assert (He : In e (expires c)) by (apply Hsub; left; reflexivity).
        assert (He' : In e' (expires c)) by (apply Hsub; right; exact Hin').
        apply Hw in He as [o [Ho [Hex _]]]. apply Hw in He' as [o' [Ho' [Hex' _]]].
        rewrite Hid, Ho in Ho'. inversion Ho'; subst.
        assert (e' = e) by (destruct e, e'; cbn in *; subst; reflexivity). subst.
        apply (sorted_not_in _ _ Hsl). exact Hin'.
      - apply IH; [exact Hl | intros x Hx; apply Hsub; right; exact Hx]. }
    apply Hnd.
    + clear -Hs. induction (expires c) as [|y r IH]; cbn; [constructor|].
      inversion Hs as [|? ? Hr Hall]; subst. destruct (now <? fst y); [constructor|].
      constructor; [apply IH; exact Hr|]. rewrite Forall_forall in *. intros z Hz. apply Hall. eapply victims_sublist; exact Hz.
    + apply victims_sublist.
  - intros id. rewrite <- (is_victim now c id Hwf). rewrite existsb_exists, in_map_iff. split.
    + intros [e [Hid He]]. exists e. split; [exact He | rewrite Hid; apply bytes_eqb_refl].
    + intros [e [He Hid]]. exists e. apply bytes_eqb_eq in Hid. auto.
Qed.

Theorem sweep_wf now c : Wf c -> Wf (fst (sweep now c)).
Proof. intros H. unfold sweep; cbn [fst]. apply fold_cdel_wf. exact H. Qed.

(* no stale timer: whatever deadlines an id had before, after it is (over)written the only deadline
   that can remove it is its own *)
Theorem no_stale_timer ops id v ex now :
  let c := apply (fold_left apply ops cnew) (OSet id v ex) in
  (ex = 0 \/ now < ex) -> lookup id (objs (fst (sweep now c))) = Some (mkObj v ex).
Proof.
  cbn zeta. intros H. apply sweep_never_early.
  - apply wf_apply. apply wf_reachable.
  - cbn. rewrite bytes_eqb_refl. reflexivity.
  - exact H.
Qed.

Lemma sorted_NoDup l : sorted l -> NoDup l.
Proof.
  intros Hs. induction l as [|x l IH]; [constructor|].
  constructor; [apply sorted_not_in; exact Hs|]. apply IH. inversion Hs; assumption.
Qed.

(* re-declaring an id with the same payload and another deadline MOVES the deadline: whatever the
   history, after OSet id v ex1 ; OSet id v ex2 the index has no repeated entry and the entries of
   id are exactly: (ex2, id) when ex2 <> 0, none when ex2 = 0. In particular the entry (ex1, id) of
   the first declaration is gone (unless ex1 = ex2), and a permanent id re-declared with a deadline
   gets exactly that one entry. (Hooks and channels: id = name, payload = definition.) *)
Theorem redeclare_moves_deadline ops id v ex1 ex2 :
  let c := apply (apply (fold_left apply ops cnew) (OSet id v ex1)) (OSet id v ex2) in
  NoDup (expires c) /\
  lookup id (objs c) = Some (mkObj v ex2) /\
  forall e, snd e = id -> (In e (expires c) <-> ex2 <> 0 /\ e = (ex2, id)).
Proof.
  cbn zeta.
  set (c1 := apply (fold_left apply ops cnew) (OSet id v ex1)).
  assert (Hwf : Wf (apply c1 (OSet id v ex2))) by (apply wf_apply, wf_apply, wf_reachable).
  assert (Hl : lookup id (objs (apply c1 (OSet id v ex2))) = Some (mkObj v ex2)).
  { cbn. rewrite bytes_eqb_refl. reflexivity. }
  destruct Hwf as [Hs Hw]. split; [apply sorted_NoDup; exact Hs|]. split; [exact Hl|].
  intros e Hid. rewrite Hw, Hid, Hl. split.
  - intros [o [Ho [Hex Hnz]]]. inversion Ho; subst o. cbn in Hex. split; [congruence|].
    destruct e as [ee ei]; cbn in *. subst. reflexivity.
  - intros [Hnz ->]. exists (mkObj v ex2). cbn. auto.
Qed.

Theorem persist_removes_deadline ops id p now :
  let c0 := fold_left apply ops cnew in
  lookup id (objs c0) = Some p ->
  lookup id (objs (fst (sweep now (apply c0 (OPersist id))))) = Some (mkObj (o_val p) 0).
Proof.
  cbn zeta. intros Hl. apply sweep_never_early.
  - apply wf_apply. apply wf_reachable.
  - cbn. rewrite Hl. cbn. rewrite bytes_eqb_refl. reflexivity.
  - left. reflexivity.
Qed.

(* TTL reports the remaining time of the object's own deadline, -1 without one *)
Theorem ttl_spec now c id o : lookup id (objs c) = Some o ->
  ttl now c id = Some (if o_ex o =? 0 then -1 else o_ex o - now).
Proof. intros H. unfold ttl. rewrite H. reflexivity. Qed.
