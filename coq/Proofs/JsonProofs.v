(* C17 — lemmas about the JSON recogniser and the model of jsonString. *)
From Coq Require Import ZifyN ZifyNat ZifyBool.
From T38 Require Import Base.Bytes Base.Utf8 Model.Json.
Open Scope N_scope.

(* ---------- the automaton composes over concatenation ---------- *)

Lemma jrun_app a b q :
  jrun (a ++ b) q = match jrun a q with Some q' => jrun b q' | None => None end.
Proof.
  revert q; induction a as [|c a IH]; intros q; cbn [jrun app]; [reflexivity|].
  destruct (jstep q c); [apply IH | reflexivity].
Qed.

Lemma jrun_app_some a b q q1 q2 :
  jrun a q = Some q1 -> jrun b q1 = Some q2 -> jrun (a ++ b) q = Some q2.
Proof. intros H1 H2. rewrite jrun_app, H1. exact H2. Qed.

(* ---------- inside a string literal ---------- *)

Definition safe_byte (c : N) : Prop := 32 <= c /\ c <> 34 /\ c <> 92.

Lemma safe_step c k st :
  safe_byte c -> jstep (MStr k SPlain, st) c = Some (MStr k SPlain, st).
Proof.
  intros (H1 & H2 & H3). cbn [jstep step_str].
  destruct (N.eqb_spec c 34); [contradiction|].
  destruct (N.eqb_spec c 92); [contradiction|].
  destruct (N.ltb_spec c 32); [lia|]. reflexivity.
Qed.

Lemma safe_run v k st :
  Forall safe_byte v -> jrun v (MStr k SPlain, st) = Some (MStr k SPlain, st).
Proof.
  induction 1 as [|c v Hc _ IH]; cbn [jrun]; [reflexivity|].
  rewrite safe_step by exact Hc. exact IH.
Qed.

Lemma hexdigit_hex x : x < 16 -> is_hex (hexdigit x) = true.
Proof.
  intros H. unfold hexdigit, is_hex, is_digit.
  destruct (N.ltb_spec x 10).
  - replace (48 <=? 48 + x) with true by (symmetry; apply N.leb_le; lia).
    replace (48 + x <=? 57) with true by (symmetry; apply N.leb_le; lia). reflexivity.
  - replace (97 <=? 87 + x) with true by (symmetry; apply N.leb_le; lia).
    replace (87 + x <=? 102) with true by (symmetry; apply N.leb_le; lia).
    rewrite orb_true_r. reflexivity.
Qed.

(* \u00XY from inside a string comes back to the plain string state *)
Lemma u00_run x y k st :
  x < 16 -> y < 16 ->
  jrun [92; 117; 48; 48; hexdigit x; hexdigit y] (MStr k SPlain, st) = Some (MStr k SPlain, st).
Proof.
  intros Hx Hy. cbn [jrun jstep step_str N.eqb Pos.eqb N.ltb N.compare Pos.compare Pos.compare_cont orb is_hex is_digit N.leb andb].
  rewrite (hexdigit_hex x Hx). cbn [jrun jstep step_str].
  rewrite (hexdigit_hex y Hy). reflexivity.
Qed.

Lemma esc_ascii_run b k st :
  b < 128 -> jrun (esc_ascii b) (MStr k SPlain, st) = Some (MStr k SPlain, st).
Proof.
  intros Hb. unfold esc_ascii.
  destruct (N.eqb_spec b 92) as [->|N92]; [reflexivity|].
  destruct (N.eqb_spec b 34) as [->|N34]; [reflexivity|]. cbn [orb].
  destruct (N.eqb_spec b 8); [reflexivity|].
  destruct (N.eqb_spec b 12); [reflexivity|].
  destruct (N.eqb_spec b 10); [reflexivity|].
  destruct (N.eqb_spec b 13); [reflexivity|].
  destruct (N.eqb_spec b 9); [reflexivity|].
  apply u00_run.
  - apply N.div_lt_upper_bound; lia.
  - apply N.mod_lt; lia.
Qed.

Lemma html_safe_safe b : html_safe b = true -> safe_byte b.
Proof.
  unfold html_safe, safe_byte. intros H.
  apply andb_true_iff in H. destruct H as [H1 H2].
  apply N.leb_le in H1. apply negb_true_iff in H2.
  repeat (apply orb_false_iff in H2; destruct H2 as [H2 ?]).
  repeat match goal with H : (_ =? _) = false |- _ => apply N.eqb_neq in H end.
  repeat split; assumption.
Qed.

(* ---------- what DecodeRuneInString guarantees about the bytes of a multi-byte rune ---------- *)

Definition hi_byte (c : N) : Prop := 128 <= c.

Lemma accept_lo_hi i : 128 <= accept_lo i.
Proof. unfold accept_lo. destruct (i =? 1); [lia|]. destruct (i =? 3); lia. Qed.

Lemma utf8_first_ascii b : 128 <= b -> utf8_first b <> 240.
Proof.
  intros H. unfold utf8_first.
  repeat match goal with
  | |- context [if ?c then _ else _] => let E := fresh in destruct c eqn:E
  end; try lia; try discriminate.
Qed.

Lemma decode_cont b t c size :
  128 <= b -> decode_rune (b :: t) = (c, size) ->
  ((c =? RuneError) && Nat.eqb size 1 = false) ->
  Forall hi_byte (firstn (pred size) t).
Proof.
  intros Hb Hd Hne.
  assert (Hbad : forall P : Prop, (RuneError, 1%nat) = (c, size) -> P).
  { intros P E. inversion E; subst. cbn in Hne. discriminate. }
  unfold decode_rune in Hd.
  pose proof (utf8_first_ascii b Hb) as Hf.
  destruct (240 <=? utf8_first b) eqn:E240.
  { destruct (N.eqb_spec (utf8_first b) 240); [contradiction|]. eapply Hbad; eauto. }
  destruct (N.of_nat (length (b :: t)) <? utf8_first b mod 8); [eapply Hbad; eauto|].
  destruct t as [|s1 t1]; [eapply Hbad; eauto|].
  destruct ((s1 <? accept_lo (utf8_first b / 16)) || (accept_hi (utf8_first b / 16) <? s1)) eqn:E1;
    [eapply Hbad; eauto|].
  apply orb_false_iff in E1. destruct E1 as [E1 _]. apply N.ltb_ge in E1.
  assert (H1 : hi_byte s1) by (unfold hi_byte; pose proof (accept_lo_hi (utf8_first b / 16)); lia).
  destruct (utf8_first b mod 8 <=? 2).
  { inversion Hd; subst. cbn. constructor; [exact H1|constructor]. }
  destruct t1 as [|s2 t2]; [eapply Hbad; eauto|].
  destruct ((s2 <? 128) || (191 <? s2)) eqn:E2; [eapply Hbad; eauto|].
  apply orb_false_iff in E2. destruct E2 as [E2 _]. apply N.ltb_ge in E2.
  destruct (utf8_first b mod 8 <=? 3).
  { inversion Hd; subst. cbn. constructor; [exact H1|]. constructor; [exact E2|constructor]. }
  destruct t2 as [|s3 t3]; [eapply Hbad; eauto|].
  destruct ((s3 <? 128) || (191 <? s3)) eqn:E3; [eapply Hbad; eauto|].
  apply orb_false_iff in E3. destruct E3 as [E3 _]. apply N.ltb_ge in E3.
  inversion Hd; subst. cbn.
  constructor; [exact H1|]. constructor; [exact E2|]. constructor; [exact E3|constructor].
Qed.

(* ---------- the body of json.Marshal's string encoder stays inside the string ---------- *)

Definition mode_inv (m : mmode) (s : bytes) : Prop :=
  match m with
  | MCopy n => Forall hi_byte (firstn n s)
  | _ => True
  end.

Lemma hi_safe c : hi_byte c -> safe_byte c.
Proof. unfold hi_byte, safe_byte. lia. Qed.

Lemma after_rune_inv copy size t :
  (copy = true -> Forall hi_byte (firstn (pred size) t)) -> mode_inv (after_rune copy size) t.
Proof.
  intros H. unfold after_rune. destruct size as [|[|k]]; cbn; auto.
  destruct copy; cbn; auto.
Qed.

Lemma ufffd_run k st :
  jrun [92; 117; 102; 102; 102; 100] (MStr k SPlain, st) = Some (MStr k SPlain, st).
Proof. reflexivity. Qed.

Lemma marshal_body_run s : forall m k st,
  mode_inv m s -> jrun (marshal_body m s) (MStr k SPlain, st) = Some (MStr k SPlain, st).
Proof.
  induction s as [|b t IH]; intros m k st Hinv; [reflexivity|].
  assert (Hnorm :
    jrun (if b <? 128 then
            (if html_safe b then b :: marshal_body MNorm t else esc_ascii b ++ marshal_body MNorm t)
          else
            let '(c, size) := decode_rune (b :: t) in
            if (c =? RuneError) && Nat.eqb size 1 then
              [92; 117; 102; 102; 102; 100] ++ marshal_body MNorm t
            else if (c =? 8232) || (c =? 8233) then
              [92; 117; 50; 48; 50; hexdigit (c mod 16)] ++ marshal_body (after_rune false size) t
            else b :: marshal_body (after_rune true size) t)
         (MStr k SPlain, st) = Some (MStr k SPlain, st)).
  { destruct (N.ltb_spec b 128) as [Hlt|Hge].
    - destruct (html_safe b) eqn:Hs.
      + cbn [jrun]. rewrite safe_step by (apply html_safe_safe; exact Hs). apply IH; exact I.
      + eapply jrun_app_some; [apply esc_ascii_run; exact Hlt | apply IH; exact I].
    - destruct (decode_rune (b :: t)) as [c size] eqn:Hd.
      destruct ((c =? RuneError) && Nat.eqb size 1) eqn:Herr.
      + eapply jrun_app_some; [apply ufffd_run | apply IH; exact I].
      + destruct ((c =? 8232) || (c =? 8233)) eqn:Hls.
        * eapply jrun_app_some.
          -- change [92; 117; 50; 48; 50; hexdigit (c mod 16)] with ([92; 117; 50; 48; 50] ++ [hexdigit (c mod 16)]).
             eapply jrun_app_some; [reflexivity|]. cbn [jrun jstep step_str].
             rewrite hexdigit_hex by (apply N.mod_lt; lia). reflexivity.
          -- apply IH. apply after_rune_inv. discriminate.
        * cbn [jrun]. rewrite safe_step by (apply hi_safe; exact Hge).
          apply IH. apply after_rune_inv. intros _. eapply decode_cont; eauto. }
  destruct m as [|[|n]|[|n]]; cbn [marshal_body]; try exact Hnorm.
  - (* copying the rest of a rune *)
    cbn [mode_inv firstn] in Hinv. inversion Hinv as [|? ? Hb Ht]; subst.
    cbn [jrun]. rewrite safe_step by (apply hi_safe; exact Hb).
    apply IH. destruct n; cbn; [exact I | exact Ht].
  - (* dropping the rest of U+2028 / U+2029 *)
    apply IH. destruct n; exact I.
Qed.

(* ---------- jsonString yields a string token wherever one may start ---------- *)

(* the states in which a JSON string may begin, and where its closing quote leads *)
Definition string_start (q : jstate) : option (bool * list frame) :=
  match q with
  | (MValue, st) | (MArrStart, st) => Some (false, st)
  | (MObjStart, st) | (MKey, st) => Some (true, st)
  | _ => None
  end.

Definition string_end (k : bool) (st : list frame) : jstate := (if k then MColon else MAfter, st).

Lemma open_quote q k st : string_start q = Some (k, st) -> jstep q 34 = Some (MStr k SPlain, st).
Proof.
  destruct q as [[] st0]; cbn; intros H; inversion H; subst; reflexivity.
Qed.

Lemma close_quote k st : jstep (MStr k SPlain, st) 34 = Some (string_end k st).
Proof. reflexivity. Qed.

Lemma fast_path_safe s : existsb needs_marshal s = false -> Forall safe_byte s.
Proof.
  induction s as [|c s IH]; cbn [existsb]; intros H; [constructor|].
  apply orb_false_iff in H. destruct H as [Hc Hs]. constructor; [|apply IH; exact Hs].
  unfold needs_marshal in Hc.
  repeat (apply orb_false_iff in Hc; destruct Hc as [Hc ?]).
  apply N.ltb_ge in Hc.
  repeat match goal with H : (_ =? _) = false |- _ => apply N.eqb_neq in H end.
  unfold safe_byte. repeat split; assumption.
Qed.

Lemma json_string_run s q k st :
  string_start q = Some (k, st) -> jrun (json_string s) q = Some (string_end k st).
Proof.
  intros Hq. unfold json_string.
  destruct (existsb needs_marshal s) eqn:E.
  - unfold marshal_string. cbn [jrun]. rewrite (open_quote _ _ _ Hq).
    eapply jrun_app_some; [apply marshal_body_run; exact I|]. cbn [jrun]. rewrite close_quote. reflexivity.
  - cbn [jrun]. rewrite (open_quote _ _ _ Hq).
    eapply jrun_app_some; [apply safe_run, fast_path_safe; exact E|]. cbn [jrun]. rewrite close_quote. reflexivity.
Qed.

Theorem json_string_valid_proof : forall s, valid_json (json_string s) = true.
Proof.
  intros s. unfold valid_json. rewrite (json_string_run s jstart false []); reflexivity.
Qed.

(* the reply is pure ASCII-or-copied bytes: every escape the encoder emits is an RFC 8259 escape,
   and on the fast path the string is returned between quotes unchanged *)
Lemma json_string_fast s :
  existsb needs_marshal s = false -> json_string s = 34 :: s ++ [34].
Proof. intros H. unfold json_string. rewrite H. reflexivity. Qed.
