(* Lemmas over Model/Startup.v: once boot starts the sweeper unconditionally, every process of every
   role history runs it. *)
From Coq Require Import String List Bool.
From T38 Require Import Model.Tables Gen.Startup Model.Startup.
Import ListNotations.

Lemma boot_sweeper : forall f, p_sweeper (boot f) = started_always go_starts "Serve" "backgroundExpiring".
Proof. reflexivity. Qed.

Lemma step_keeps_sweeper :
  started_always go_starts "Serve" "backgroundExpiring" = true ->
  forall p e, p_sweeper p = true -> p_sweeper (step p e) = true.
Proof.
  intros Hs p e Hp. destruct e; cbn [step p_sweeper]; try exact Hp.
  rewrite boot_sweeper. exact Hs.
Qed.

Lemma fold_keeps_sweeper :
  started_always go_starts "Serve" "backgroundExpiring" = true ->
  forall h p, p_sweeper p = true -> p_sweeper (fold_left step h p) = true.
Proof.
  intros Hs h. induction h as [|e h IH]; intros p Hp; cbn [fold_left].
  - exact Hp.
  - apply IH. apply step_keeps_sweeper; assumption.
Qed.

Lemma run_sweeper :
  started_always go_starts "Serve" "backgroundExpiring" = true ->
  forall following0 h, p_sweeper (run following0 h) = true.
Proof.
  intros Hs f h. unfold run. apply fold_keeps_sweeper; [exact Hs|]. rewrite boot_sweeper. exact Hs.
Qed.

(* the role a history ends in is the last FOLLOW / FOLLOW no one, else the configured one *)
Lemma step_role : forall p e, p_following (step p e) =
  match e with EFollow => true | EFollowNoOne => false | _ => p_following p end.
Proof. intros p e. destruct e; reflexivity. Qed.
