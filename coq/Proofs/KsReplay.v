(* C03 instantiated with the keyspace model: the log of a program of keyspace commands, replayed
   from the same initial state, reproduces the live state; a kill at any byte recovers the state
   after a prefix of the program.

   [ks_exec O e] is Model/Keyspace.exec (repaired tree) seen as the `exec : S -> cmd -> S * bool` of
   Model/Replay.v: the flag is "writeAOF appended the command". The clock is FROZEN: live run and
   replay use the same environment [e] (same `now`, leader, not read-only). With a moving clock the
   deadlines written by SET ... EX / EXPIRE differ between the live run and the replay; that the
   states then agree up to deadline values is not proved here (see the end of this file).

   The generic theorems of Proofs/ReplayProofs.v need `noupd` in every state; for the keyspace it
   holds in every state satisfying the invariant [inv] (Proofs/KsInv.v), which [exec] preserves, so
   the two short inductions are redone here over invariant states. *)
From Coq Require Import String.
From Coq Require Import ZifyN ZifyNat ZifyBool Lia.
From T38 Require Import Base.Bytes Base.SMap Model.Field Model.Object Model.Glob Model.Spec Model.Keyspace
  Proofs.KsField Proofs.KsInv Proofs.KsRefine Proofs.KsProgram.
From T38 Require Model.Resp Model.Aof Proofs.RespProofs Proofs.AofProofs Model.Replay Proofs.ReplayProofs.

Section KsReplay.
Variable O : oracle.

(* which requests are handled by a write handler *)
Definition req_writes (q : req) : bool :=
  match q with
  | QSet _ _ _ _ _ _ _ _ | QFset _ _ _ _ _ | QDel _ _ _ | QPdel _ _ | QDrop _ | QRename _ _ _ | QFlushdb
  | QExpire _ _ _ | QPersist _ _ | QJset _ _ _ _ _ | QJdel _ _ _ => true
  | _ => false
  end.

Ltac read_branch H Hw :=
  repeat match type of H with context [match ?x with _ => _ end] => destruct x end;
  try discriminate; inversion H; subst; cbn in Hw; discriminate.

(* a request of a write handler is only ever produced for a command name of the write arm *)
Lemma parse_cmd_write_arm e c args q :
  parse_cmd O e c args = PReq q -> req_writes q = true -> arm_of c = ArmWrite.
Proof.
  unfold parse_cmd.
  destruct (bytes_eqb c c_set) eqn:E1; [apply bytes_eqb_eq in E1; subst; intros; reflexivity|].
  destruct (bytes_eqb c c_fset) eqn:E2; [apply bytes_eqb_eq in E2; subst; intros; reflexivity|].
  destruct (bytes_eqb c c_del) eqn:E3; [apply bytes_eqb_eq in E3; subst; intros; reflexivity|].
  destruct (bytes_eqb c c_pdel) eqn:E4; [apply bytes_eqb_eq in E4; subst; intros; reflexivity|].
  destruct (bytes_eqb c c_drop) eqn:E5; [apply bytes_eqb_eq in E5; subst; intros; reflexivity|].
  destruct (bytes_eqb c c_rename) eqn:E6; [apply bytes_eqb_eq in E6; subst; intros; reflexivity|].
  destruct (bytes_eqb c c_renamenx) eqn:E7; [apply bytes_eqb_eq in E7; subst; intros; reflexivity|].
  destruct (bytes_eqb c c_flushdb) eqn:E8; [apply bytes_eqb_eq in E8; subst; intros; reflexivity|].
  destruct (bytes_eqb c c_expire) eqn:E9; [apply bytes_eqb_eq in E9; subst; intros; reflexivity|].
  destruct (bytes_eqb c c_persist) eqn:E10; [apply bytes_eqb_eq in E10; subst; intros; reflexivity|].
  destruct (bytes_eqb c c_jset) eqn:E11; [apply bytes_eqb_eq in E11; subst; intros; reflexivity|].
  destruct (bytes_eqb c c_jdel) eqn:E12; [apply bytes_eqb_eq in E12; subst; intros; reflexivity|].
  destruct (bytes_eqb c c_get) eqn:E13.
  { intros H Hw. unfold parse_get in H. read_branch H Hw. }
  destruct (bytes_eqb c c_fget) eqn:E14; [intros H Hw; read_branch H Hw|].
  destruct (bytes_eqb c c_exists) eqn:E15; [intros H Hw; read_branch H Hw|].
  destruct (bytes_eqb c c_fexists) eqn:E16; [intros H Hw; read_branch H Hw|].
  destruct (bytes_eqb c c_ttl) eqn:E17; [intros H Hw; read_branch H Hw|].
  destruct (bytes_eqb c c_type) eqn:E18; [intros H Hw; read_branch H Hw|].
  destruct (bytes_eqb c c_keys) eqn:E19; [intros H Hw; read_branch H Hw|].
  destruct (bytes_eqb c c_scan) eqn:E20.
  { intros H Hw. unfold parse_scan in H. read_branch H Hw. }
  destruct (bytes_eqb c c_jget) eqn:E21.
  { intros H Hw. unfold parse_jget in H. read_branch H Hw. }
  discriminate.
Qed.

Lemma dispatch_write e args c w q :
  dispatch O e args = DReq c w q -> req_writes q = true -> w = true.
Proof.
  unfold dispatch. destruct args as [|a0 rest]; [discriminate|].
  set (c0 := lower a0).
  destruct (match arm_of c0 with
            | ArmWrite => if e_follower e then Some msg_not_leader else if e_readonly e then Some msg_read_only else None
            | ArmRead => if e_follower e && negb (e_caughtup e) then Some msg_catching_up else None
            | ArmOther => None
            end); [discriminate|].
  destruct (parse_cmd O e c0 (a0 :: rest)) as [q0| | |] eqn:Ep; try discriminate.
  intros H Hw. inversion H; subst. rewrite (parse_cmd_write_arm e c0 (a0 :: rest) q Ep Hw). reflexivity.
Qed.

(* d.updated is only ever set by a write handler *)
Lemma updated_is_write e s q s' r : run_req O true e s q = Some (s', r, true) -> req_writes q = true.
Proof.
  destruct q; cbn [run_req req_writes]; try reflexivity; intros H; exfalso.
  - destruct (find s key id); inversion H.
  - destruct (get key s) as [c|]; [destruct (get id c)|]; inversion H.
  - destruct (get key s); inversion H.
  - destruct (get key s) as [c|]; [destruct (get id c)|]; inversion H.
  - destruct (find s key id); inversion H.
  - destruct (get key s); inversion H.
  - inversion H.
  - repeat match type of H with context [match ?x with _ => _ end] => destruct x end; inversion H.
  - destruct (find s key id) as [o|]; [destruct (o_jget O (g_text (o_geo o)) path raw)|]; inversion H.
Qed.

Lemma reenter_not_updated e (s : state) key (c : col) id o json s' r :
  get key s = Some c -> get id c = Some o ->
  reenter_set O e s key id json = (s', r, false) -> s' = s.
Proof.
  intros Ek Eid H. unfold reenter_set in H. rewrite parse_reentry in H.
  destruct (o_mkgeo O GK_OBJECT [json]) as [g|msg].
  - unfold cmd_set in H. rewrite Ek, Eid in H. cbn in H. inversion H.
  - inversion H; subst. reflexivity.
Qed.

(* a handler that reports "not updated" returns the state it was given *)
Lemma not_updated_unchanged e s q s' r :
  inv s -> run_req O true e s q = Some (s', r, false) -> s' = s.
Proof.
  intros Hi H.
  destruct q as [key id fields ex nx xx rs g|key id xx rs fields|key id erron404|key pat|key|nx key newkey| |key id ex|key id
                 |key id path val raw|key id path|key id wf kind prec|key id fname|key id|key id fname|key id|key|pat|key cursor limit globs desc out nofields|key id path raw];
    cbn [run_req] in H.
  - (* SET *)
    inversion H as [H1]; clear H. unfold cmd_set in H1.
    destruct (get key s) as [c|] eqn:Ek.
    + destruct ((xx || nx) && match get id c with None => xx | Some _ => nx end); inversion H1; subst; reflexivity.
    + destruct xx.
      * inversion H1; subst; reflexivity.
      * cbn [get] in H1. assert (Hc : (false || nx) && false = false) by (destruct nx; reflexivity).
        rewrite Hc in H1. inversion H1.
  - (* FSET *)
    unfold cmd_fset in H. destruct (get key s) as [c|] eqn:Ek.
    + destruct (get id c) as [o|] eqn:Eid.
      * destruct (fold_left (fset_step O) fields (o_fields o, 0%Z)) as [ofields n] eqn:Ef.
        inversion H as [[Hs Hr Hu]]; clear H.
        destruct (fset_count O fields _ _ _ _ Ef) as [Hle Heq].
        assert (Hn0 : n = 0%Z) by lia.
        subst n. rewrite (Heq eq_refl). apply set_obj_same; assumption.
      * destruct xx; cbn in H.
        -- rewrite andb_false_r in H. inversion H; subst; reflexivity.
        -- inversion H; subst; reflexivity.
    + inversion H; subst; reflexivity.
  - (* DEL *)
    inversion H as [H1]; clear H. unfold cmd_del in H1.
    destruct (get key s) as [c|]; [destruct (get id c)|]; try destruct erron404; inversion H1; subst; reflexivity.
  - (* PDEL *)
    inversion H as [H1]; clear H. unfold cmd_pdel in H1.
    destruct (get key s) as [c|] eqn:Ek.
    + destruct (inv_get _ _ _ Hi Ek) as [Hne [Hcs _]].
      destruct (map fst (filter (fun io => matchesb pat (fst io)) (range_scan pat false c))) as [|i ids].
      * cbn [fold_left] in H1. inversion H1; subst.
        unfold store_col. destruct c as [|x c']; [congruence|]. cbn [length Nat.eqb].
        apply set_same; [exact (proj1 Hi) | exact Ek].
      * inversion H1.
    + inversion H1; subst; reflexivity.
  - (* DROP *)
    inversion H as [H1]; clear H. unfold cmd_drop in H1.
    destruct (get key s); inversion H1; subst; reflexivity.
  - (* RENAME *)
    inversion H as [H1]; clear H. unfold cmd_rename in H1.
    destruct (get key s) as [c|]; [|inversion H1; subst; reflexivity].
    destruct (hook_guard e key newkey); [inversion H1; subst; reflexivity|].
    destruct (get newkey s); destruct nx; cbn in H1; inversion H1; subst; reflexivity.
  - inversion H.
  - (* EXPIRE *)
    inversion H as [H1]; clear H. unfold cmd_expire in H1.
    destruct (get key s) as [c|]; [destruct (get id c)|]; inversion H1; subst; reflexivity.
  - (* PERSIST *)
    inversion H as [H1]; clear H. unfold cmd_persist in H1.
    destruct (get key s) as [c|]; [destruct (get id c) as [o|]|]; try destruct (negb (o_ex o =? 0)%Z);
      inversion H1; subst; reflexivity.
  - (* JSET *)
    inversion H as [H1]; clear H. unfold cmd_jset in H1.
    destruct (get key s) as [c|] eqn:Ek.
    + destruct (get id c) as [o|] eqn:Eid.
      * destruct (o_sjson_set O raw (g_text (o_geo o)) path val); [|inversion H1; subst; reflexivity].
        destruct (g_spatial (o_geo o)).
        -- eapply reenter_not_updated; eauto.
        -- inversion H1.
      * destruct (o_sjson_set O raw [] path val); inversion H1; subst; reflexivity.
    + cbv beta iota zeta in H1. cbn [get] in H1. cbv beta iota zeta in H1.
      destruct (o_sjson_set O raw [] path val); inversion H1; subst; reflexivity.
  - (* JDEL *)
    inversion H as [H1]; clear H. unfold cmd_jdel in H1.
    destruct (get key s) as [c|] eqn:Ek; [|inversion H1; subst; reflexivity].
    destruct (get id c) as [o|] eqn:Eid.
    + destruct (o_sjson_del O (g_text (o_geo o)) path) as [nj|]; [|inversion H1; subst; reflexivity].
      destruct (bytes_eqb nj (g_text (o_geo o))); [inversion H1; subst; reflexivity|].
      destruct (g_spatial (o_geo o)).
      * eapply reenter_not_updated; eauto.
      * inversion H1.
    + destruct (o_sjson_del O [] path) as [nj|]; [|inversion H1; subst; reflexivity].
      destruct (bytes_eqb nj []); inversion H1; subst; reflexivity.
  - inversion H as [H1]; clear H. destruct (find s key id); inversion H1; subst; reflexivity.
  - inversion H as [H1]; clear H. destruct (get key s) as [c|]; [destruct (get id c)|]; inversion H1; subst; reflexivity.
  - inversion H as [H1]; clear H. destruct (get key s); inversion H1; subst; reflexivity.
  - inversion H as [H1]; clear H. destruct (get key s) as [c|]; [destruct (get id c)|]; inversion H1; subst; reflexivity.
  - inversion H as [H1]; clear H. destruct (find s key id); inversion H1; subst; reflexivity.
  - inversion H as [H1]; clear H. destruct (get key s); inversion H1; subst; reflexivity.
  - inversion H; subst; reflexivity.
  - inversion H as [H1]; clear H.
    repeat match type of H1 with context [match ?x with _ => _ end] => destruct x end; inversion H1; subst; reflexivity.
  - inversion H as [H1]; clear H. destruct (find s key id) as [o|]; [destruct (o_jget O (g_text (o_geo o)) path raw)|]; inversion H1; subst; reflexivity.
Qed.

(* ---------- the instance of Model/Replay.v ---------- *)

(* frozen clock e; flag = "the command was appended to the log" *)
Definition ks_exec (e : env) : state -> list bytes -> state * bool :=
  fun s args =>
    match exec O true e s args with
    | Done s' _ log => (s', negb (isempty log))
    | Panic => (s, false)
    end.

(* an un-logged command leaves the dataset as it was: reads, errors, negative answers, writes with
   updated = false. (False for JDEL with the pinned lock table, where jdel was outside the write arm.) *)
Theorem ks_noupd e s c : inv s -> snd (ks_exec e s c) = false -> fst (ks_exec e s c) = s.
Proof.
  intros Hi. unfold ks_exec, exec.
  destruct (dispatch O e c) as [cn w q|r0] eqn:Ed; [|reflexivity].
  destruct (run_req O true e s q) as [[[s1 r1] u1]|] eqn:Er; [|reflexivity].
  cbn [fst snd]. destruct u1.
  - (* updated: then the handler is a write handler, the arm is the write arm, the command is logged *)
    pose proof (updated_is_write e s q s1 r1 Er) as Hw.
    rewrite (dispatch_write e c cn w q Ed Hw). cbn. discriminate.
  - intros _. eapply not_updated_unchanged; eauto.
Qed.

Lemma ks_inv e s c : inv s -> inv (fst (ks_exec e s c)).
Proof.
  intros Hi. unfold ks_exec. destruct (exec O true e s c) as [s' r l|] eqn:Ex; [|exact Hi].
  cbn [fst]. eapply inv_exec; eauto.
Qed.

Notation krun e := (Replay.run state (ks_exec e)).
Notation klogof e := (Replay.logof state (ks_exec e)).
Notation kreplay e := (Replay.replay state (ks_exec e)).
Notation krecover e := (Replay.recover state (ks_exec e)).

Lemma ks_replay_logof e p : forall s0, inv s0 -> kreplay e (klogof e p s0) s0 = krun e p s0.
Proof.
  induction p as [|c p IH]; intros s0 Hi; cbn; [reflexivity|].
  destruct (ks_exec e s0 c) as [s' upd] eqn:E.
  assert (Hs : Replay.step state (ks_exec e) s0 c = s') by (unfold Replay.step; rewrite E; reflexivity).
  assert (Hi' : inv s') by (pose proof (ks_inv e s0 c Hi) as H; rewrite E in H; exact H).
  destruct upd.
  - cbn. unfold Replay.replay, Replay.run in *. cbn. rewrite Hs. apply IH. exact Hi'.
  - assert (Heq : s' = s0) by (pose proof (ks_noupd e s0 c Hi) as H; rewrite E in H; cbn in H; apply H; reflexivity).
    unfold Replay.run; cbn. rewrite Hs, Heq. apply IH. exact Hi.
Qed.

(* replaying the log (same frozen environment) from the same well-formed initial state — in
   particular the empty database — yields the state the live run reached *)
Theorem ks_replay_equiv e p s0 : inv s0 -> kreplay e (klogof e p s0) s0 = krun e p s0.
Proof. apply ks_replay_logof. Qed.

Theorem ks_replay_equiv_empty e p : kreplay e (klogof e p []) [] = krun e p [].
Proof. apply ks_replay_logof. apply inv_nil. Qed.

Local Open Scope Z_scope.

(* (ReplayProofs.inside_ge, restated: the generic one is closed over the section hypothesis) *)
Lemma ks_inside_ge cmds : forall m k, (m <= length cmds)%nat ->
  Resp.len (Resp.encs (firstn m cmds)) <= k -> (m <= AofProofs.inside cmds k)%nat.
Proof.
  induction cmds as [|c cs IH]; intros m k Hm Hk.
  - cbn in Hm. lia.
  - destruct m as [|m]; [lia|]. cbn [firstn] in Hk.
    change (Resp.encs (c :: firstn m cs)) with (Resp.enc c ++ Resp.encs (firstn m cs)) in Hk.
    rewrite RespProofs.len_app in Hk.
    pose proof (RespProofs.len_nonneg (Resp.encs (firstn m cs))).
    cbn [AofProofs.inside]. destruct (Z.leb_spec (Resp.len (Resp.enc c)) k); [|lia].
    cbn in Hm. specialize (IH m (k - Resp.len (Resp.enc c)) ltac:(lia) ltac:(lia)). lia.
Qed.

(* the instance of crash_prefix: a kill leaves a byte prefix q of the file; start-up recovers exactly
   the state after a PREFIX p1 of the program, cuts the file to the end of p1's log, and every logged
   command whose bytes were wholly written is inside p1 *)
Theorem ks_crash_prefix e p s0 q t :
  inv s0 ->
  Forall AofProofs.cmd_ok (klogof e p s0) -> q ++ t = Resp.encs (klogof e p s0) ->
  exists p1 p2, p = p1 ++ p2 /\
    krecover e q s0 = Some (krun e p1 s0, Resp.len (Resp.encs (klogof e p1 s0))) /\
    Resp.len (Resp.encs (klogof e p1 s0)) <= Resp.len q /\
    (forall m, (m <= length (klogof e p s0))%nat ->
               Resp.len (Resp.encs (firstn m (klogof e p s0))) <= Resp.len q ->
               (m <= length (klogof e p1 s0))%nat).
Proof.
  intros Hi Hok Hq.
  pose proof (AofProofs.load_whole_cut (klogof e p s0) q t Hok Hq) as Hl.
  set (n := AofProofs.inside (klogof e p s0) (Resp.len q)) in *.
  destruct (ReplayProofs.firstn_logof state (ks_exec e) p s0 n) as [p1 [p2 [Hp Hf]]].
  exists p1, p2. split; [exact Hp|].
  unfold Replay.recover. rewrite Hl. unfold Replay.cmd in *. rewrite Hf.
  split; [rewrite (ks_replay_logof e p1 s0 Hi); reflexivity|].
  split.
  - destruct (AofProofs.drain_cut (klogof e p s0) q t (Datatypes.S (length q)) Hok Hq ltac:(lia)) as [left [_ Hql]].
    fold n in Hql. rewrite Hf in Hql. apply (f_equal Resp.len) in Hql. rewrite RespProofs.len_app in Hql.
    pose proof (RespProofs.len_nonneg left). lia.
  - intros m Hm Hk. rewrite <- Hf. rewrite firstn_length.
    pose proof (ks_inside_ge (klogof e p s0) m (Resp.len q) Hm Hk) as H. fold n in H. lia.
Qed.

End KsReplay.

(* ---------- the pinned lock table (jdel outside the write arm, finding F3) refutes noupd ----------
   With the arm as it was pinned, JDEL changes the dataset and hands nothing to writeAOF. The model of
   the pinned arm is [exec] with the log forced to [] for jdel; the witness below shows the state
   change on the current model, whose log is [args] — i.e. exactly the record the pinned tree lost. *)
Definition w_JDEL : bytes := Eval compute in Spec.bs "JDEL".
Definition w_JSET : bytes := Eval compute in Spec.bs "JSET".
Definition jd_oracle : oracle :=
  mkOracle toy_foracle (fun _ => true) (fun _ => 1000000000%Z) (fun _ => None) (fun _ => None) (fun s => s)
           (fun k args => GOk (mkGeo true (concat args))) (fun _ => []) (fun _ => []) (fun _ _ => [])
           (fun _ j _ v => OOk (j ++ v)) (fun j _ => OOk (removelast j)) (fun _ _ _ => None).

Theorem jdel_changes_and_is_logged :
  exists s s' r,
    Keyspace.run jd_oracle true [] [(toy_env 5, [kw_SET; w_k; w_a; w_STRING; w_speed])] = Some (s, [ROk str_OK]) /\
    exec jd_oracle true (toy_env 6) s [w_JDEL; w_k; w_a; w_1] = Done s' r [[w_JDEL; w_k; w_a; w_1]] /\
    s' <> s /\ arm_of (lower w_JDEL) = ArmWrite.
Proof.
  eexists. eexists. eexists. split; [vm_compute; reflexivity|].
  split; [vm_compute; reflexivity|]. split; [vm_compute; discriminate | reflexivity].
Qed.
