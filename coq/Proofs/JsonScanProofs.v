(* C17 — both renderings of a scanWriter result project onto the same abstract result. *)
From Coq Require Import ZifyN ZifyNat ZifyBool Sorted.
From T38 Require Import Base.Bytes Model.RespOut Model.JsonScan Proofs.JsonRespProofs.
From T38 Require Base.SMap.
Open Scope N_scope.

Lemma map_opt_map {A B C} (f : B -> option C) (g : A -> B) (h : A -> C) l :
  (forall x, In x l -> f (g x) = Some (h x)) -> map_opt f (map g l) = Some (map h l).
Proof.
  induction l as [|x l IH]; intros H; [reflexivity|].
  cbn [map map_opt]. rewrite (H x) by (left; reflexivity). rewrite IH by (intros y Hy; apply H; right; exact Hy).
  reflexivity.
Qed.

Definition raw_pair (p : bytes * tval) : bytes * bytes := (fst p, traw (snd p)).

Lemma pairs_of_flat fs : pairs_of (flat_pairs fs) = Some (map raw_pair fs).
Proof. induction fs as [|[n v] fs IH]; [reflexivity|]. cbn [flat_pairs pairs_of]. rewrite IH. reflexivity. Qed.

(* ---------- the name list zipped with the looked-up values = the stored non-zero fields ---------- *)

Lemma getv_notin n fs : ~ In n (map fst fs) -> getv n fs = tzero.
Proof.
  induction fs as [|[k v] fs IH]; intros H; [reflexivity|].
  cbn [getv]. destruct (bytes_eqb n k) eqn:E.
  - apply bytes_eqb_eq in E. subst. exfalso. apply H. left. reflexivity.
  - apply IH. intros Hin. apply H. right. exact Hin.
Qed.

Lemma covers_in fs names : covers fs names -> forall k, In k (map fst fs) -> In k names.
Proof.
  induction 1 as [names|fs n ns _ IH|n v fs ns _ IH]; intros k Hk.
  - destruct Hk.
  - right. apply IH; exact Hk.
  - cbn in Hk. destruct Hk as [<-|Hk]; [left; reflexivity | right; apply IH; exact Hk].
Qed.

Lemma zip_no_fields names :
  filter nonzero (combine names (map (fun n => getv n []) names)) = [].
Proof. induction names as [|n ns IH]; [reflexivity|]. cbn [map combine filter getv]. exact IH. Qed.

Lemma fields_zip fs names :
  covers fs names -> NoDup names ->
  filter nonzero (combine names (map (fun n => getv n fs) names)) = filter nonzero fs.
Proof.
  induction 1 as [names|fs n ns Hc IH|n v fs ns Hc IH]; intros Hnd.
  - apply zip_no_fields.
  - inversion Hnd as [|? ? Hn Hns]; subst.
    cbn [map combine filter].
    rewrite (getv_notin n fs) by (intros Hin; apply Hn; eapply covers_in; eauto).
    change (nonzero (n, tzero)) with false. cbn iota. apply IH; exact Hns.
  - inversion Hnd as [|? ? Hn Hns]; subst.
    assert (E : map (fun m => getv m ((n, v) :: fs)) ns = map (fun m => getv m fs) ns).
    { apply map_ext_in. intros m Hm. cbn [getv]. destruct (bytes_eqb m n) eqn:E; [|reflexivity].
      apply bytes_eqb_eq in E. subst. contradiction. }
    cbn [map combine].
    replace (getv n ((n, v) :: fs)) with v by (cbn [getv]; rewrite bytes_eqb_refl; reflexivity).
    cbn [filter].
    rewrite E, (IH Hns). reflexivity.
Qed.

(* the same on the JSON tree: values printed with tjson, zero test on the printed value *)
Lemma json_zip_g (g : bytes -> tval) names :
  map_opt jpair (filter (fun p => negb (jzero (snd p))) (combine names (map (fun n => tjson (g n)) names))) =
  Some (map raw_pair (filter nonzero (combine names (map g names)))).
Proof.
  induction names as [|n ns IH]; [reflexivity|].
  cbn [map combine filter]. unfold nonzero at 1. cbn [snd].
  assert (Ez : jzero (tjson (g n)) = is_zero (g n)) by (destruct (g n); reflexivity).
  rewrite Ez. destruct (is_zero (g n)); cbn [negb].
  - exact IH.
  - cbn [map_opt map]. rewrite IH.
    unfold jpair, raw_pair. cbn [fst snd]. destruct (g n); reflexivity.
Qed.

Lemma json_fields_zip fs names :
  covers fs names -> NoDup names ->
  map_opt jpair (filter (fun p => negb (jzero (snd p))) (combine names (map (fun n => tjson (getv n fs)) names))) =
  Some (map raw_pair (filter nonzero fs)).
Proof.
  intros Hc Hnd. rewrite (json_zip_g (fun n => getv n fs) names), (fields_zip fs names Hc Hnd). reflexivity.
Qed.

(* ---------- items ---------- *)

Local Opaque bytes_eqb.

Definition eff_names (r : scanres) : list bytes :=
  if fields_output r && negb (match sr_names r with [] => true | _ => false end) then sr_names r else [].

Ltac keys := repeat (change (bytes_eqb ?a ?b) with true || change (bytes_eqb ?a ?b) with false).

Lemma resp_item_proj r it : proj_ritem (sr_out r) (resp_item r it) = Some (abs_item r it).
Proof.
  unfold resp_item, proj_ritem, abs_item.
  destruct (sr_out r) eqn:Eo.
  - (* ids *)
    unfold fields_output. rewrite Eo. destruct (show_dist it); reflexivity.
  - (* count: no list is rendered, the item functions follow the objects arm *)
    unfold fields_output. rewrite Eo.
    destruct (show_dist it); reflexivity.
  - unfold fields_output. rewrite Eo.
    destruct (negb (sr_nofields r)); destruct (filter nonzero (it_fields it)) as [|p l] eqn:Ef;
      destruct (show_dist it); cbn [app];
      try rewrite pairs_of_flat; reflexivity.
Qed.

Transparent bytes_eqb.

Lemma jget_id m v : jget k_id ((k_id, v) :: m) = Some v.
Proof. reflexivity. Qed.

(* the repaired cell lookup (scan of the name-ordered list with early exit) finds what a plain
   lookup finds, because an object's field list is a sub-list of the byte-ordered name list *)
Lemma get_stored_getv fs names : covers fs names -> names_sorted names ->
  forall n, get_stored n fs = getv n fs.
Proof.
  induction 1 as [names|fs n0 ns Hc IH|n0 v fs ns Hc IH]; intros Hs n.
  - reflexivity.
  - apply IH. inversion Hs; assumption.
  - inversion Hs as [|? ? Hs' Hall]; subst. cbn [get_stored getv].
    destruct (bytes_eqb n0 n) eqn:E.
    + apply bytes_eqb_eq in E. subst. rewrite bytes_eqb_refl. reflexivity.
    + assert (En : bytes_eqb n n0 = false).
      { destruct (bytes_eqb n n0) eqn:E'; [|reflexivity]. apply bytes_eqb_eq in E'. subst.
        rewrite bytes_eqb_refl in E. discriminate. }
      rewrite En. destruct (bytes_ltb n0 n) eqn:L; [apply IH; exact Hs'|].
      (* n0 > n: every later name is larger still *)
      symmetry. apply getv_notin. intros Hin.
      apply (covers_in _ _ Hc) in Hin. rewrite Forall_forall in Hall. specialize (Hall _ Hin).
      assert (Hlt : bytes_ltb n n0 = true).
      { unfold bytes_ltb in *. rewrite (bytes_cmp_antisym n n0) in L.
        destruct (bytes_cmp n n0) eqn:C; cbn in *; try discriminate; try reflexivity.
        apply bytes_cmp_eq in C. subst. rewrite bytes_eqb_refl in En. discriminate. }
      pose proof (SMap.ltb_trans _ _ _ Hlt Hall) as Hnn. rewrite SMap.ltb_irrefl in Hnn. discriminate.
Qed.

Lemma stored_cells it names : covers (it_fields it) names -> names_sorted names -> forall l,
  map (fun n => tjson (get_stored n (it_fields it))) l = map (fun n => tjson (getv n (it_fields it))) l.
Proof. intros Hc Hs l. apply map_ext. intros n. rewrite (get_stored_getv _ _ Hc Hs). reflexivity. Qed.

Lemma json_item_proj r it :
  NoDup (sr_names r) -> covers (it_fields it) (sr_names r) -> names_sorted (sr_names r) ->
  proj_jitem (sr_out r) (eff_names r) (json_item r it) = Some (abs_item r it).
Proof.
  intros Hnd Hc Hj. unfold json_item, proj_jitem, abs_item, eff_names. rewrite (stored_cells it _ Hc Hj).
  destruct (sr_out r) eqn:Eo.
  - unfold fields_output. rewrite Eo. destruct (show_dist it); reflexivity.
  - (* count *)
    unfold fields_output. rewrite Eo. cbn [andb app].
    destruct (show_dist it); destruct (it_obj it); reflexivity.
  - unfold fields_output. rewrite Eo.
    destruct (negb (sr_nofields r)) eqn:Enf; cbn [andb].
    + destruct (sr_names r) as [|n0 ns] eqn:En.
      * cbn [negb app]. inversion Hc; subst.
        destruct (show_dist it); destruct (it_obj it); reflexivity.
      * cbn [negb app]. rewrite <- En in *.
        assert (Hz := json_fields_zip _ _ Hc Hnd).
        assert (Ho : jraw (tjson (it_obj it)) = Some (traw (it_obj it))) by (destruct (it_obj it); reflexivity).
        destruct (show_dist it).
        -- cbn -[map_opt filter combine jzero]. rewrite Hz, Ho. reflexivity.
        -- cbn -[map_opt filter combine jzero]. rewrite Hz, Ho. reflexivity.
    + cbn [app]. destruct (show_dist it); destruct (it_obj it); reflexivity.
Qed.

(* ---------- whole replies ---------- *)

Theorem modes_agree_proof : forall r, wf_res r ->
  proj_json (sr_out r) (render_json r) = Some (abs_of r) /\
  proj_resp (sr_out r) (render_resp r) = Some (abs_of r).
Proof.
  intros r (Hnd & Hcov & Hjp). rewrite Forall_forall in Hcov. split.
  - (* JSON *)
    assert (Hitems : map_opt (proj_jitem (sr_out r) (eff_names r)) (map (json_item r) (sr_items r)) =
                     Some (map (abs_item r) (sr_items r))).
    { apply map_opt_map. intros it Hin. apply json_item_proj; [exact Hnd | apply Hcov; exact Hin | exact Hjp]. }
    unfold render_json, proj_json, abs_of.
    unfold eff_names in Hitems.
    destruct (sr_out r) eqn:Eo.
    + (* ids: no field names *)
      unfold fields_output in *. rewrite Eo in *. cbn [andb app] in *.
      cbn -[map_opt proj_jitem]. rewrite Hitems. reflexivity.
    + unfold fields_output. rewrite Eo. cbn [andb app]. reflexivity.
    + destruct (fields_output r && negb match sr_names r with [] => true | _ :: _ => false end) eqn:Ec.
      * cbn -[map_opt proj_jitem].
        rewrite (map_opt_map jstr JStr (fun s => s)) by (intros; reflexivity). rewrite map_id.
        rewrite Hitems. reflexivity.
      * cbn -[map_opt proj_jitem]. rewrite Hitems. reflexivity.
  - (* RESP *)
    assert (Hitems : map_opt (proj_ritem (sr_out r)) (map (resp_item r) (sr_items r)) =
                     Some (map (abs_item r) (sr_items r))).
    { apply map_opt_map. intros it _. apply resp_item_proj. }
    unfold render_resp, proj_resp, abs_of.
    destruct (sr_out r) eqn:Eo.
    + rewrite Hitems. rewrite N2Z.id. reflexivity.
    + rewrite N2Z.id. reflexivity.
    + rewrite Hitems. rewrite N2Z.id. reflexivity.
Qed.

(* ---------- the distance-0 case, explicitly ---------- *)

Definition zero_dist_result : scanres :=
  {| sr_out := OIds; sr_nofields := false; sr_names := [];
     sr_items := [ {| it_id := [97]; it_obj := TTok [123; 125]; it_fields := []; it_jpath := []; it_distout := true;
                      it_dist := [48]; it_dist_pos := false |} ];
     sr_count := 1; sr_cursor := 0 |}.

Lemma zero_distance_kept :
  wf_res zero_dist_result /\
  abs_of zero_dist_result = AList 0 [ {| a_id := [97]; a_obj := None; a_fields := []; a_dist := Some [48] |} ] /\
  proj_json OIds (render_json zero_dist_result) = Some (abs_of zero_dist_result) /\
  proj_resp OIds (render_resp zero_dist_result) = Some (abs_of zero_dist_result).
Proof.
  split; [split; [constructor | split; [repeat constructor | constructor]]|]. split; [reflexivity|].
  split; vm_compute; reflexivity.
Qed.

(* the variant that tests dist > 0 only in the JSON ids arm loses a requested distance of exactly 0:
   the two modes then convey different results *)
Definition render_json_dropzero (r : scanres) : jval :=
  JObj [(k_ok, JTok t_true); (k_ids, JArr (map (json_item_dropzero r) (sr_items r)));
        (k_count, JNum (sr_count r)); (k_cursor, JNum (sr_cursor r))].

Lemma dropzero_refuted :
  exists r, wf_res r /\ proj_json (sr_out r) (render_json_dropzero r) <> proj_resp (sr_out r) (render_resp r).
Proof.
  exists zero_dist_result. split; [split; [constructor | split; [repeat constructor | constructor]]|].
  vm_compute. discriminate.
Qed.

(* Finding C17-scan-json-path-field (repaired in /repo: 903e555).  Before the repair the JSON arm of
   writeFilled filled the positional "fields" array with opts.obj.Fields().Get(name), and List.Get
   answers a dotted name j.p from inside a JSON-valued field j; the RESP arm lists the stored fields.  With
     SET fleet b FIELD props.speed 5 POINT 1 1 ; SET fleet truck1 FIELD props {"speed":7} POINT 2 2
   SCAN fleet OBJECTS told a JSON client that truck1 has props.speed = 7, and a RESP client that it
   has no such field.  The pinned arm is json_item_pinned; the result below is well-formed, the
   repaired renderings agree on it (modes_agree_proof), the pinned JSON rendering does not. *)
Definition t5 : tval := TTok [53].
Definition t7 : tval := TTok [55].
Definition n_props : bytes := [112; 114; 111; 112; 115].
Definition n_props_speed : bytes := [112; 114; 111; 112; 115; 46; 115; 112; 101; 101; 100].
Definition v_props : tval := TTok [123; 34; 115; 112; 101; 101; 100; 34; 58; 55; 125].
Definition json_path_result : scanres :=
  {| sr_out := OObjects; sr_nofields := false; sr_names := [n_props; n_props_speed];
     sr_items := [ {| it_id := [98]; it_obj := TTok [123; 125]; it_fields := [(n_props_speed, t5)]; it_jpath := [];
                      it_distout := false; it_dist := []; it_dist_pos := false |};
                   {| it_id := [116]; it_obj := TTok [123; 125]; it_fields := [(n_props, v_props)];
                      it_jpath := [(n_props_speed, t7)];
                      it_distout := false; it_dist := []; it_dist_pos := false |} ];
     sr_count := 2; sr_cursor := 0 |}.

Definition render_json_pinned (r : scanres) : jval :=
  JObj ([(k_ok, JTok t_true)] ++
        (if fields_output r && negb (match sr_names r with [] => true | _ => false end)
         then [(k_fields, JArr (map JStr (sr_names r)))] else []) ++
        (match sr_out r with
         | OIds => [(k_ids, JArr (map (json_item_pinned r) (sr_items r)))]
         | OObjects => [(k_objects, JArr (map (json_item_pinned r) (sr_items r)))]
         | OCount => []
         end) ++
        [(k_count, JNum (sr_count r)); (k_cursor, JNum (sr_cursor r))]).

Lemma json_path_result_wf : wf_res json_path_result.
Proof.
  split; [|split].
  - repeat constructor; cbn; intuition discriminate.
  - constructor; [apply cov_skip, cov_take, cov_nil|].
    constructor; [apply cov_take, cov_nil | constructor].
  - constructor; [constructor; [constructor | constructor] | constructor; [reflexivity | constructor]].
Qed.

Lemma json_path_field_pinned_refuted :
  wf_res json_path_result /\
  proj_json (sr_out json_path_result) (render_json_pinned json_path_result) <>
  proj_resp (sr_out json_path_result) (render_resp json_path_result) /\
  proj_json (sr_out json_path_result) (render_json json_path_result) =
  proj_resp (sr_out json_path_result) (render_resp json_path_result).
Proof.
  split; [exact json_path_result_wf|]. split.
  - vm_compute. discriminate.
  - destruct (modes_agree_proof _ json_path_result_wf) as [-> ->]. reflexivity.
Qed.
