(* The constants of internal/field/list_binary.go that Model/FieldBin.v takes as data, as re-read
   from /repo by t38x on every run (Gen/FieldBin.v), are the ones the round-trip theorems need:
   every constant window through which a size header is read is at least as long as the longest
   header the writers can emit, the writers emit through 10-byte buffers, field.uvarint is the
   loop that was transcribed, names are shared-string numbers. *)
From Coq Require Import String.
From T38 Require Import Base.Bytes Model.Field Model.Object Model.FieldBin Proofs.FieldBinProofs Gen.FieldBin.
Local Open Scope N_scope.

Definition window_ok (w : string * N * N) : bool :=
  (max_header_len <=? snd (fst w)) && (max_header_len <=? snd w).

(* field.uvarint as it was transcribed (Model.Object.uvarint_loop: the same loop as object.uvarint) *)
Definition uvarint_transcribed : list string :=
  ["var x uint64"; "for i := 0; i < len(buf); i++ {"; "b := buf[i]"; "if b < 0x80 {";
   "return int(x | uint64(b)<<(i*7)), i + 1"; "}"; "x |= uint64(b&0x7f) << (i * 7)"; "}"; "return 0, 0"]%string.

Definition source_tied : Prop :=
  (* the size header is read in ptob and in List.Weight, nowhere else, through constant windows ... *)
  map (fun w => fst (fst w)) header_windows = ["List.Weight"; "ptob"]%string /\
  (* ... none of which is shorter than the longest header *)
  forallb window_ok header_windows = true /\
  (* the only computed window is the body slice of ptob *)
  computed_windows = [("ptob", "n + x", "n + x")]%string /\
  (* every uvarint is written through a buffer of exactly max_header_len bytes, and the two size
     headers (putfield, delfield) are among them *)
  forallb (fun w => snd w =? max_header_len) uvarint_writes = true /\
  In ("putfield", "totallen", max_header_len)%string uvarint_writes /\
  In ("delfield", "totallen", max_header_len)%string uvarint_writes /\
  uvarint_source = uvarint_transcribed /\
  use_shared_names = true.

Lemma source_is_tied : source_tied.
Proof.
  unfold source_tied. repeat split; try reflexivity; vm_compute; tauto.
Qed.

(* hence every window of the source reads every header back *)
Lemma source_windows_roundtrip : forall fn l c body, In (fn, l, c) header_windows -> lenN body < two63 ->
  ptob l (Some (buf_of body)) = Val body /\ weight l (Some (buf_of body)) = Val (lenN (buf_of body)).
Proof.
  intros fn l c body Hin Hb.
  destruct source_is_tied as [_ [Hw _]]. rewrite forallb_forall in Hw. specialize (Hw _ Hin).
  unfold window_ok in Hw. cbn [fst snd] in Hw. apply andb_prop in Hw. destruct Hw as [Hl _].
  apply N.leb_le in Hl. split.
  - apply ptob_roundtrip; assumption.
  - apply weight_roundtrip; [exact Hl | unfold two63 in Hb; unfold two64; lia].
Qed.
