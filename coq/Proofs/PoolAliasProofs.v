(* Proofs for Model/PoolAlias.v: the generated tables satisfy the conditions; the conditions are what
   keeps a reply the client's own page. *)
From Coq Require Import String List Bool NArith Arith Lia.
From T38 Require Import Model.Tables Model.PoolAlias Gen.Dispatch Gen.PkgVars.
Import ListNotations.
Open Scope string_scope.

(* ---------- the generated tables ---------- *)

(* whatever hands memory back to a sync.Pool in package server lets nothing that may still reference
   that memory leave the function: no row of the residue. (When this breaks the error message shows
   the offending rows.) *)
Lemma pool_puts_residue_empty : alias_residue PkgVars.pool_puts = [].
Proof. vm_compute. reflexivity. Qed.

Lemma pkg_var_writes_residue_empty : unguarded_residue PkgVars.pkg_vars PkgVars.pkg_var_writes = [].
Proof. vm_compute. reflexivity. Qed.

Lemma residue_empty_all : forall t, alias_residue t = [] -> forall r, In r t -> pr_escapes r = [].
Proof.
  intros t H r Hin. unfold alias_residue in H.
  assert (Hf : ~ In r (filter (fun r => negb (put_ok r)) t)) by (rewrite H; intros []).
  rewrite filter_In in Hf.
  destruct (pr_escapes r) eqn:E; [reflexivity|].
  exfalso. apply Hf. split; [exact Hin|]. unfold put_ok. rewrite E. reflexivity.
Qed.

Lemma pool_puts_no_escape : forall r, In r PkgVars.pool_puts -> pr_escapes r = [].
Proof. exact (residue_empty_all _ pool_puts_residue_empty). Qed.

Lemma residue_empty_no_alias : forall t, alias_residue t = [] -> forall fn, kind_of t fn <> KAlias.
Proof.
  intros t H fn. unfold kind_of.
  destruct (existsb returns_pooled (rows_of t fn)) eqn:E.
  - exfalso. apply existsb_exists in E. destruct E as [r [Hin Hr]].
    unfold rows_of in Hin. apply filter_In in Hin. destruct Hin as [Hin _].
    pose proof (residue_empty_all t H r Hin) as He.
    unfold returns_pooled in Hr. rewrite He in Hr. discriminate.
  - destruct (rows_of t fn); discriminate.
Qed.

Lemma handlers_not_alias : forall h, In h dispatch -> kind_of PkgVars.pool_puts ("Server." ++ h_fn h) <> KAlias.
Proof. intros h _. apply residue_empty_no_alias. exact pool_puts_residue_empty. Qed.

Lemma writes_guarded_all : forall w, In w PkgVars.pkg_var_writes ->
  wr_guard w <> "" /\ exists ty, In (wr_var w, ty) PkgVars.pkg_vars.
Proof.
  intros w Hin.
  assert (Hf : ~ In w (unguarded_residue PkgVars.pkg_vars PkgVars.pkg_var_writes))
    by (rewrite pkg_var_writes_residue_empty; intros []).
  unfold unguarded_residue in Hf. rewrite filter_In in Hf.
  destruct (write_guarded w && declared PkgVars.pkg_vars w) eqn:E.
  - apply andb_true_iff in E. destruct E as [Hg Hd]. split.
    + unfold write_guarded in Hg. intro Hq. rewrite Hq in Hg. discriminate.
    + unfold declared in Hd. apply existsb_exists in Hd. destruct Hd as [[n ty] [Hv He]].
      cbn [fst] in He. apply String.eqb_eq in He. subst n. exists ty. exact Hv.
  - exfalso. apply Hf. split; [exact Hin | reflexivity].
Qed.

(* ---------- the machine ---------- *)

Lemma upd_same : forall A (f : nat -> A) k v, upd f k v k = v.
Proof. intros. unfold upd. rewrite Nat.eqb_refl. reflexivity. Qed.

Lemma upd_other : forall A (f : nat -> A) k v x, x <> k -> upd f k v x = f x.
Proof. intros. unfold upd. destruct (Nat.eqb x k) eqn:E; [apply Nat.eqb_eq in E; contradiction | reflexivity]. Qed.

(* every pending reply is, or refers to a live buffer outside the pool that holds, the page of the
   client's request; pooled buffers exist; everything sent so far was the client's own page *)
Definition inv (s : st) : Prop :=
  (forall c, match rep s c with
             | Some (Ref id) => heap s id = want s c /\ id < next s /\ ~ In id (pool s)
             | Some (Val v) => v = want s c
             | None => True
             end) /\
  (forall id, In id (pool s) -> id < next s) /\
  Forall own_page (sent s).

Lemma inv_init : inv init.
Proof. unfold inv, init; cbn. repeat split; auto. intros id []. Qed.

Lemma take_spec : forall s id rest n, (forall i, In i (pool s) -> i < next s) -> take s = (id, (rest, n)) ->
  (In id (pool s) \/ id = next s) /\ id < n /\ next s <= n /\ (forall i, In i rest -> In i (pool s)) /\
  (forall i, In i rest -> i < n).
Proof.
  intros s id rest n Hp Ht. unfold take in Ht. destruct (pool s) as [|a p] eqn:E.
  - inversion Ht; subst. repeat split; auto; try lia. intros i [].
  - inversion Ht; subst. assert (id < next s) by (apply Hp; left; reflexivity).
    repeat split; auto; try lia.
    + left; left; reflexivity.
    + intros i Hi; right; exact Hi.
    + intros i Hi; apply Hp; right; exact Hi.
Qed.

Lemma inv_step : forall kd s e, (forall fn, kd fn <> KAlias) -> inv s -> inv (step kd s e).
Proof.
  intros kd s e Hk [Hrep [Hpool Hsent]]. destruct e as [c fn p | c]; cbn [step].
  - destruct (kd fn) eqn:Ek; [| |exfalso; exact (Hk fn Ek)].
    + (* KFresh *)
      unfold inv; cbn. repeat split.
      * intro c'. unfold upd at 1. destruct (Nat.eqb c' c) eqn:Ec.
        -- apply Nat.eqb_eq in Ec; subst c'. rewrite !upd_same. repeat split; try lia.
           intro Hin. apply Hpool in Hin. lia.
        -- apply Nat.eqb_neq in Ec. rewrite (upd_other _ (want s)) by exact Ec.
           specialize (Hrep c'). destruct (rep s c') as [[id|v]|]; auto.
           destruct Hrep as [Hh [Hlt Hnp]]. repeat split; auto; try lia.
           rewrite upd_other by lia. exact Hh.
      * intros id Hin. apply Hpool in Hin. lia.
      * exact Hsent.
    + (* KCopy *)
      destruct (take s) as [id [rest n]] eqn:Et.
      destruct (take_spec s id rest n Hpool Et) as [Hid [Hidn [Hn [Hsub Hrest]]]].
      unfold inv; cbn. repeat split.
      * intro c'. unfold upd at 1. destruct (Nat.eqb c' c) eqn:Ec.
        -- apply Nat.eqb_eq in Ec; subst c'. rewrite !upd_same. reflexivity.
        -- apply Nat.eqb_neq in Ec. rewrite (upd_other _ (want s)) by exact Ec.
           specialize (Hrep c'). destruct (rep s c') as [[id'|v]|]; auto.
           destruct Hrep as [Hh [Hlt Hnp]].
           assert (id' <> id) by (destruct Hid as [Hid|Hid]; [intro; subst; contradiction | lia]).
           repeat split; try lia.
           ++ rewrite upd_other by assumption. exact Hh.
           ++ intros [Hq|Hq]; [congruence | apply Hsub in Hq; contradiction].
      * intros i [Hi|Hi]; [subst; exact Hidn | apply Hrest; exact Hi].
      * exact Hsent.
  - (* Ser *)
    destruct (rep s c) as [r|] eqn:Er; [|unfold inv; auto].
    unfold inv; cbn. repeat split.
    + intro c'. unfold upd. destruct (Nat.eqb c' c); [exact I | apply Hrep].
    + exact Hpool.
    + constructor; [|exact Hsent]. unfold own_page; cbn.
      specialize (Hrep c). rewrite Er in Hrep. destruct r as [id|v]; [destruct Hrep as [Hh _]; exact Hh | exact Hrep].
Qed.

Lemma inv_run_from : forall kd evs s, (forall fn, kd fn <> KAlias) -> inv s -> inv (fold_left (step kd) evs s).
Proof.
  intros kd evs. induction evs as [|e evs IH]; intros s Hk Hi; cbn [fold_left]; [exact Hi|].
  apply IH; [exact Hk | apply inv_step; assumption].
Qed.

(* no function of the table returns something that references pooled memory => whatever the
   interleaving of handlers and serialisations, every client is sent the page its own request computed *)
Lemma own_pages : forall t, alias_residue t = [] -> forall evs, Forall own_page (sent (run (kind_of t) evs)).
Proof.
  intros t Ht evs. unfold run.
  destruct (inv_run_from (kind_of t) evs init (residue_empty_no_alias t Ht) inv_init) as [_ [_ H]]. exact H.
Qed.

Lemma own_pages_server : forall evs, Forall own_page (sent (run (kind_of PkgVars.pool_puts) evs)).
Proof. exact (own_pages _ pool_puts_residue_empty). Qed.

(* the converse: a handler whose row says "return" (the reply refers to a buffer that has gone back to
   the pool by the time it is serialised) — two clients, A's handler, B's handler, then A's reply is
   serialised: A is sent B's page *)
Definition alias_table : list put_row := [("Server.cmdScan", (("scanBufPool", "deferred"), (false, ["return"])))].

Lemma alias_refuted :
  exists t evs, alias_residue t <> [] /\
    sent (run (kind_of t) evs) = [(0, ([2%N; 2%N], [1%N]))] /\ ~ Forall own_page (sent (run (kind_of t) evs)).
Proof.
  exists alias_table, [Run 0 "Server.cmdScan" [1%N]; Run 1 "Server.cmdScan" [2%N; 2%N]; Ser 0].
  split; [vm_compute; discriminate|].
  split; [vm_compute; reflexivity|].
  intro H. vm_compute in H. inversion H as [|x l Hx Hl]. unfold own_page in Hx. cbn in Hx. discriminate.
Qed.
