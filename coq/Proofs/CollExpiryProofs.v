(* Proofs/CollExpiryProofs.v — the deadline index of Model/Collection.v under Set / Delete, stated for
   every deadline in Z: negative ones (SET ... EX accepts any float, a negative one gives a deadline
   before 1970), zero (= no deadline) and positive ones.  Corollaries of Proofs/CollectionProofs.v:
   after Delete id the expiry path holds no entry for id whatever the sign of the deleted object's
   deadline; after Set of an object without deadline the expiry path does not reach its id (so the
   expiry sweep, which deletes by the ids the path yields, cannot delete it). *)
From Coq Require Import ZifyBool Lia.
From T38 Require Import Base.Bytes Model.Float32 Model.Collection Proofs.CollectionProofs.
Import ListNotations.
Local Open Scope Z_scope.

Lemma cset_objs c o : c_objs (cset c o) = sl_ins o_id id_cmp o (c_objs c).
Proof.
  unfold cset. rewrite fill_add_objs.
  destruct (sl_get o_id id_cmp (o_id o) (c_objs c)); [rewrite fill_sub_objs|]; destruct c; reflexivity.
Qed.

Lemma cdelete_objs_In c id : Wf c -> forall o, In o (c_objs (cdelete c id)) <-> (In o (c_objs c) /\ o_id o <> id).
Proof.
  intros W o. pose proof (wf_objs c W) as So. unfold cdelete.
  destruct (sl_get o_id id_cmp id (c_objs c)) as [p|] eqn:G.
  - destruct c as [objs0 vals sp ex nobj nnobj pts w]. cbn [c_objs] in *.
    destruct (if o_spatial p then (vals, (if negb (o_empty p) then index_delete sp p else sp), nobj - 1, nnobj)
              else (sl_del vkey vcmp (vkey p) vals, sp, nobj, nnobj - 1)) as [[[v1 s1] a1] b1].
    cbn [c_objs]. apply (del_In o_id id_cmp order_bytes _ So).
  - pose proof (proj1 (get_none o_id id_cmp order_bytes _ So id) G) as Hn. split.
    + intros H. split; [exact H | apply Hn; exact H].
    + tauto.
Qed.

Lemma expiry_path_spec c : Wf c -> forall o, In o (scan_expires c) <-> (In o (c_objs c) /\ o_ex o <> 0).
Proof.
  intros W o. destruct (paths_agree c W) as (_ & _ & _ & P4 & _). rewrite P4, (retrievable_iff c W). tauto.
Qed.

(* Delete id: the expiry path loses exactly the entry of id (if any), for every deadline of the
   deleted object — collection.go tests prev.Expires() != 0, not > 0 *)
Theorem delete_expiry_path c id : Wf c ->
  forall o, In o (scan_expires (cdelete c id)) <-> (In o (scan_expires c) /\ o_id o <> id).
Proof.
  intros W o. pose proof (cdelete_wf c id W) as W'.
  rewrite (expiry_path_spec _ W'), (expiry_path_spec _ W), (cdelete_objs_In c id W). tauto.
Qed.

Corollary deleted_unreachable_by_expiry c id : Wf c -> ~ In id (map o_id (scan_expires (cdelete c id))).
Proof.
  intros W H. apply in_map_iff in H as [o [Hid Ho]]. apply (delete_expiry_path c id W) in Ho. tauto.
Qed.

(* Set o: the expiry path reaches o's id iff o itself carries a deadline (<> 0, either sign);
   whatever was stored under that id before — with a past, negative or future deadline — is gone *)
Theorem set_expiry_path c o : Wf c ->
  forall x, In x (scan_expires (cset c o)) <-> ((x = o /\ o_ex o <> 0) \/ (In x (scan_expires c) /\ o_id x <> o_id o)).
Proof.
  intros W x. pose proof (cset_wf c o W) as W'.
  rewrite (expiry_path_spec _ W'), (expiry_path_spec _ W), cset_objs.
  rewrite (ins_In o_id id_cmp order_bytes _ (wf_objs c W)). split.
  - intros [[->|[Hx Hk]] He]; [left; auto | right; auto].
  - intros [[-> He]|[[Hx He] Hk]]; auto.
Qed.

Corollary set_without_deadline_unreachable c o : Wf c -> o_ex o = 0 -> ~ In (o_id o) (map o_id (scan_expires (cset c o))).
Proof.
  intros W E H. apply in_map_iff in H as [x [Hid Hx]]. apply (set_expiry_path c o W) in Hx.
  destruct Hx as [[-> He]|[_ Hk]]; [contradiction | congruence].
Qed.

(* after every history: what the expiry sweep would visit is retrievable and carries a deadline *)
Theorem expiry_path_any_history ops :
  forall o, In o (scan_expires (run ops)) <-> (cget (run ops) (o_id o) = Some o /\ o_ex o <> 0).
Proof. intros o. destruct (paths_agree _ (wf_run ops)) as (_ & _ & _ & P4 & _). apply P4. Qed.
