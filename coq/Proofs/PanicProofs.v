(* A run-time panic of the framing parser is stable under appended bytes (for buffers shorter than 2^62):
   read_next d = Panic -> read_next (d ++ e) = Panic.  Needed so that the error into which the repaired
   tile38 entry point turns a panic is found at the same place whatever the segmentation. *)
From Coq Require Import ZifyN ZifyNat ZifyBool.
From T38 Require Import Base.Bytes Model.Resp Proofs.RespProofs Proofs.ChunkProofs.
Local Open Scope Z_scope.

Definition in63 (n : Z) : Prop := -9223372036854775808 <= n < 9223372036854775808.

Lemma parse_digits_range : forall b v n, in63 v -> parse_digits b v = Some n -> in63 n.
Proof.
  induction b as [|c b IH]; intros v n Hv H; cbn [parse_digits] in H; [inversion H; subst; exact Hv|].
  destruct (is_digit c); [|discriminate]. eapply IH; [|exact H]. apply wrap_range.
Qed.
Lemma parse_int_slow_range b n : parse_int_slow b = Some n -> in63 n.
Proof.
  unfold parse_int_slow. intros H.
  assert (G : forall b', match parse_digits b' 0 with Some m => Some (wrap (m * -1)) | None => None end = Some n -> in63 n).
  { intros b' E. destruct (parse_digits b' 0); [|discriminate]. inversion E; subst. apply wrap_range. }
  assert (G2 : parse_digits b 0 = Some n -> in63 n) by (apply parse_digits_range; unfold in63; lia).
  destruct b as [|c b']; [apply G2; exact H|].
  destruct c as [|p]; [apply G2; exact H|].
  do 6 (destruct p as [p|p|]; try (apply G2; exact H)).
  apply (G b'). exact H.
Qed.
Lemma parse_int_range b n : parse_int b = Some n -> in63 n.
Proof.
  unfold parse_int. destruct b as [|c [|c2 r]]; try apply parse_int_slow_range.
  destruct (is_digit c) eqn:D; [|apply parse_int_slow_range].
  intros H; inversion H; subst. unfold is_digit in D. unfold in63. lia.
Qed.

Lemma takeZ_some s : forall k, 0 <= k <= len s -> exists r, takeZ s k = Some r.
Proof.
  induction s as [|x s IH]; intros k H.
  - rewrite len_nil in H. replace k with 0 by lia. cbn. eauto.
  - rewrite len_cons in H. cbn [takeZ]. destruct (Z.eqb_spec k 0); [eauto|].
    destruct (IH (k - 1) ltac:(lia)) as [r Hr]. rewrite Hr. eauto.
Qed.
Lemma slice_some p a b : 0 <= a <= b -> b <= len p -> exists r, slice p a b = Some r.
Proof.
  intros H1 H2. unfold slice. destruct (Z.ltb_spec a 0); [lia|]. destruct (Z.ltb_spec b a); [lia|]. cbn [orb].
  destruct (dropZ_some p a ltac:(lia)) as [s Hs]. rewrite Hs. apply dropZ_range in Hs.
  apply takeZ_some. lia.
Qed.
Lemma slice_none_stable d e a b : slice d a b = None -> b <= len d -> slice (d ++ e) a b = None.
Proof.
  intros H Hb. destruct (Z.ltb_spec a 0) as [Ha|Ha].
  - unfold slice. destruct (Z.ltb_spec a 0); [reflexivity|lia].
  - destruct (Z.ltb_spec b a) as [Hba|Hba]; [apply slice_inverted; lia|].
    destruct (slice_some d a b ltac:(lia) Hb) as [r Hr]. congruence.
Qed.
Lemma getb_none_big p i : len p <= i -> getb p i = None.
Proof. intros H. destruct (getb p i) eqn:G; [apply getb_range in G; lia|reflexivity]. Qed.

Lemma read_len_n_range p from s n i : read_len p from s = LOk n i -> in63 n.
Proof.
  unfold read_len. destruct (find_byte LF p from); [|discriminate]. destruct (getb p _); [|discriminate].
  destruct (negb _); [discriminate|]. destruct (slice p s _) as [ds|]; [|discriminate].
  destruct (parse_int ds) eqn:P; [|discriminate]. intros H; inversion H; subst. eapply parse_int_range; eauto.
Qed.

Lemma read_len_panic_stable d e from s : read_len d from s = LPanic -> read_len (d ++ e) from s = LPanic.
Proof.
  unfold read_len. destruct (find_byte LF d from) as [k|] eqn:E; [|discriminate].
  rewrite (find_byte_app_l _ _ e _ _ E). apply find_byte_range in E.
  destruct (getb d (k - 1)) as [c|] eqn:G.
  - rewrite (getb_app_l _ e _ _ G). destruct (negb (c =? CR)%N); [discriminate|].
    destruct (slice d s (k - 1)) as [ds|] eqn:Sl; [destruct (parse_int ds); discriminate|].
    intros _. rewrite (slice_none_stable d e _ _ Sl ltac:(lia)). reflexivity.
  - intros _. assert (k - 1 < 0) by (destruct (Z.ltb_spec (k - 1) 0); [assumption|destruct (getb_some d (k - 1) ltac:(lia)) as [x Hx]; congruence]).
    rewrite getb_neg by assumption. reflexivity.
Qed.

(* the arithmetic of the bulk check *)
Lemma bulk_index_cases n i3 L : in63 n -> 0 <= i3 <= L -> 0 <= L < BIG -> wrap (n + 2) <= L - i3 ->
  wrap (i3 + n) < 0 \/ BIG <= wrap (i3 + n) \/
  (0 <= wrap (i3 + n) <= L - 2 /\ wrap (i3 + n) = i3 + n /\ wrap (n + 2) = n + 2).
Proof.
  unfold in63, BIG. intros Hn Hi HL Hc.
  destruct (Z.lt_ge_cases (n + 2) 9223372036854775808) as [Hs|Hb].
  - rewrite (wrap_small (n + 2)) in * by lia.
    rewrite (wrap_small (i3 + n)) by lia.
    destruct (Z.lt_ge_cases (i3 + n) 0); [left; lia|right; right; repeat split; lia].
  - destruct (Z.lt_ge_cases (i3 + n) 9223372036854775808) as [Hs2|Hb2].
    + rewrite (wrap_small (i3 + n)) by lia. right; left; lia.
    + left. unfold wrap. Z.div_mod_to_equations. lia.
Qed.

Lemma resp_args_panic_stable e : forall fuel d count j i racc,
  len (d ++ e) < BIG -> (i < 0 \/ 0 <= i <= len d) ->
  resp_args fuel d (len d) count j i racc = Panic ->
  resp_args fuel (d ++ e) (len (d ++ e)) count j i racc = Panic.
Proof.
  induction fuel as [|fuel IH]; intros d count j i racc Hbig Hinv H; [discriminate|].
  pose proof (len_nonneg e) as Hle. pose proof (len_nonneg d) as Hld. rewrite len_app in Hbig.
  cbn [resp_args] in *.
  destruct (Z.eqb_spec i (len d)) as [|Hne]; [discriminate|].
  destruct (getb d i) as [c|] eqn:G.
  2:{ assert (i < 0) by (destruct Hinv as [|Hr]; [assumption|destruct (getb_some d i ltac:(lia)) as [x Hx]; congruence]).
      destruct (Z.eqb_spec i (len (d ++ e))) as [E|_]; [rewrite len_app in E; lia|]. rewrite getb_neg by assumption. reflexivity. }
  pose proof (getb_range _ _ _ G) as Hi.
  destruct (Z.eqb_spec i (len (d ++ e))) as [E|_]; [rewrite len_app in E; lia|].
  rewrite (getb_app_l _ e _ _ G).
  destruct (negb (c =? 36)%N); [discriminate|].
  pose proof (read_len_stable d e i (i + 1)) as RL.
  destruct (read_len d i (i + 1)) as [| | |n i2] eqn:RLd; try discriminate.
  { rewrite (read_len_panic_stable d e _ _ RLd). reflexivity. }
  rewrite RL. pose proof (read_len_n_range _ _ _ _ _ RLd) as Hn. apply read_len_range in RLd.
  destruct (count <=? 0); [discriminate|].
  destruct (Z.leb_spec (wrap (n + 2)) (len d - (i2 + 1))) as [L|L]; [|discriminate].
  destruct (Z.leb_spec (wrap (n + 2)) (len (d ++ e) - (i2 + 1))) as [_|L2]; [|rewrite len_app in L2; lia].
  pose proof (bulk_index_cases n (i2 + 1) (len d) Hn ltac:(lia) ltac:(unfold BIG in *; lia) L) as Hc.
  set (e0 := wrap (i2 + 1 + n)) in *.
  destruct (getb d e0) as [a|] eqn:Ga.
  2:{ destruct Hc as [Hc|[Hc|Hc]].
      - rewrite getb_neg by assumption. reflexivity.
      - rewrite getb_none_big by (rewrite len_app; unfold BIG in *; lia). reflexivity.
      - destruct (getb_some d e0 ltac:(lia)) as [x Hx]. congruence. }
  apply getb_range in Ga as Hr. pose proof Ga as Ga'. rewrite (getb_app_l _ e _ _ Ga').
  destruct Hc as [Hc|[Hc|[Hc1 [Hc2 Hc3]]]]; [lia|unfold BIG in *; lia|].
  destruct (negb (a =? CR)%N); [discriminate|].
  rewrite (wrap_small (e0 + 1)) in * by (unfold BIG in *; lia).
  destruct (getb_some d (e0 + 1) ltac:(lia)) as [b Gb]. rewrite Gb in H. rewrite (getb_app_l _ e _ _ Gb).
  destruct (negb (b =? LF)%N); [discriminate|].
  destruct (slice d (i2 + 1) e0) as [arg|] eqn:Sl.
  2:{ rewrite (slice_none_stable d e _ _ Sl ltac:(lia)). reflexivity. }
  rewrite (slice_app_l _ e _ _ _ Sl).
  assert (Hi4 : wrap (i2 + 1 + wrap (n + 2)) = e0 + 2).
  { rewrite Hc3, Hc2. replace (i2 + 1 + (n + 2)) with (i2 + 1 + n + 2) by lia. apply wrap_small. unfold BIG in *. lia. }
  rewrite Hi4 in *.
  destruct (j =? count - 1).
  - destruct (slice_from_some d (e0 + 2) ltac:(lia)) as [rest Hrest]. rewrite Hrest in H. discriminate.
  - apply IH; [rewrite len_app; lia|right; lia|exact H].
Qed.

Lemma read_resp_panic_stable d e : len (d ++ e) < BIG -> read_resp d = Panic -> read_resp (d ++ e) = Panic.
Proof.
  intros Hbig. unfold read_resp. pose proof (read_len_stable d e 1 1) as RL.
  destruct (read_len d 1 1) as [| | |count i] eqn:RLd; try discriminate.
  { intros _. rewrite (read_len_panic_stable d e _ _ RLd). reflexivity. }
  rewrite RL. apply read_len_range in RLd.
  destruct (count <? 0); [discriminate|].
  destruct (count =? 0).
  - destruct (slice_from_some d (i + 1) ltac:(lia)) as [rest Hr]. rewrite Hr. discriminate.
  - intros H.
    pose proof (resp_args_panic_stable e (S (length d)) d count 0 (i + 1) [] Hbig ltac:(right; lia) H) as St.
    rewrite (resp_args_fuel_mono (S (length d)) (d ++ e) _ count 0 (i + 1) [] (S (length (d ++ e)))).
    + exact St. + rewrite app_length; lia. + rewrite St; discriminate.
Qed.

Lemma read_native_panic_stable d e : len (d ++ e) < BIG -> read_native d = Panic -> read_native (d ++ e) = Panic.
Proof.
  intros Hbig. pose proof (len_nonneg e) as Hle. pose proof (len_nonneg d) as Hld. rewrite len_app in Hbig.
  unfold read_native.
  destruct (find_byte 32 d 1) as [i|] eqn:E; [|discriminate]. rewrite (find_byte_app_l _ _ e _ _ E).
  apply find_byte_range in E.
  destruct (slice_some d 1 i ltac:(lia) ltac:(lia)) as [ds Sds]. rewrite Sds, (slice_app_l _ e _ _ _ Sds).
  destruct (parse_int ds) as [n|] eqn:P; [|discriminate]. apply parse_int_range in P. unfold in63 in P.
  destruct (Z.ltb_spec n 0); [discriminate|].
  destruct (Z.leb_spec (wrap (wrap (i + 1 + n) + 2)) (len d)) as [L|L]; [|discriminate].
  destruct (Z.leb_spec (wrap (wrap (i + 1 + n) + 2)) (len (d ++ e))) as [_|L2]; [|rewrite len_app in L2; lia].
  set (e0 := wrap (i + 1 + n)) in *. pose proof (wrap_range (i + 1 + n)) as He0. fold e0 in He0.
  destruct (getb d e0) as [a|] eqn:Ga.
  2:{ intros _. destruct (Z.ltb_spec e0 0); [rewrite getb_neg by assumption; reflexivity|].
      assert (len d <= e0) by (destruct (Z.leb_spec (len d) e0); [assumption|destruct (getb_some d e0 ltac:(lia)) as [x Hx]; congruence]).
      (* then e0 + 2 wrapped, so e0 is huge *)
      assert (BIG <= e0).
      { unfold BIG in *. destruct (Z.lt_ge_cases (e0 + 2) 9223372036854775808); [rewrite (wrap_small (e0 + 2)) in L by lia; lia|lia]. }
      rewrite getb_none_big by (rewrite len_app; unfold BIG in *; lia). reflexivity. }
  apply getb_range in Ga as Hr. rewrite (getb_app_l _ e _ _ Ga).
  destruct (negb (a =? CR)%N); [discriminate|].
  rewrite (wrap_small (e0 + 1)) by (unfold BIG in *; lia).
  rewrite (wrap_small (e0 + 2)) in * by (unfold BIG in *; lia).
  destruct (getb_some d (e0 + 1) ltac:(lia)) as [b Gb]. rewrite Gb, (getb_app_l _ e _ _ Gb).
  destruct (negb (b =? LF)%N); [discriminate|].
  destruct (slice d (i + 1) e0) as [line|] eqn:Sl.
  2:{ intros _. rewrite (slice_none_stable d e _ _ Sl ltac:(lia)). reflexivity. }
  rewrite (slice_app_l _ e _ _ _ Sl).
  destruct (native_tok (S (length line)) line []); try discriminate; [|reflexivity].
  destruct (slice_from_some d (e0 + 2) ltac:(lia)) as [rest Hrest]. rewrite Hrest. discriminate.
Qed.

Lemma read_telnet_no_panic d : read_telnet d <> Panic.
Proof.
  unfold read_telnet. destruct (find_byte LF d 0) as [i|] eqn:E; [|discriminate]. apply find_byte_range in E.
  assert (Hs : exists line, slice d 0 (if match getb d (i - 1) with Some c => (0 <? i) && (c =? CR)%N | None => false end then i - 1 else i) = Some line).
  { destruct (match getb d (i - 1) with Some c => (0 <? i) && (c =? CR)%N | None => false end) eqn:C.
    - apply slice_some; [|lia]. destruct (getb d (i - 1)); [|discriminate]. destruct (Z.ltb_spec 0 i); [lia|discriminate].
    - apply slice_some; lia. }
  destruct Hs as [line Hl]. rewrite Hl.
  destruct (tel_scan line line true false 0%N false [] []); [|discriminate].
  destruct (slice_from_some d (i + 1) ltac:(lia)) as [rest Hr]. rewrite Hr. discriminate.
Qed.

Theorem read_next_panic_stable d e : len (d ++ e) < BIG -> read_next d = Panic -> read_next (d ++ e) = Panic.
Proof.
  intros Hbig. destruct d as [|c d]; [discriminate|].
  change ((c :: d) ++ e) with (c :: (d ++ e)) in *. unfold read_next.
  destruct (c =? 42)%N; [apply (read_resp_panic_stable (c :: d) e Hbig)|].
  destruct (c =? 36)%N; [apply (read_native_panic_stable (c :: d) e Hbig)|].
  intros H. exfalso. exact (read_telnet_no_panic _ H).
Qed.
