(* C13 — the transcribed binary heap (Model/Knn.v heap_push / heap_pop) is a correct min-queue:
   queue_ok heap_push heap_pop.  Array-heap invariant through sift_up / sift_down. *)
From Coq Require Import List NArith ZArith Bool Lia ZifyN ZifyNat ZifyBool Sorted Permutation PeanoNat.
From T38 Require Import Model.Cursor Model.Knn Proofs.CursorProofs Proofs.KnnProofs.
Import ListNotations.

Ltac Zify.zify_post_hook ::= Z.div_mod_to_equations.

Section Heap.
  Context {I R : Type}.
  Notation qnode := (@qnode I R).
  Notation queue := (@queue I R).

  (* total key accessor *)
  Definition kz (l : queue) (i : nat) : Z :=
    match nth_error l i with Some x => fst x | None => 0%Z end.

  Lemma key_at_some (l : queue) i : (i < length l)%nat -> key_at l i = Some (kz l i).
  Proof.
    intros H. unfold key_at, kz. destruct (nth_error l i) eqn:E; [reflexivity|].
    apply nth_error_None in E. lia.
  Qed.
  Lemma key_at_none (l : queue) i : (length l <= i)%nat -> key_at l i = None.
  Proof. intros H. unfold key_at. apply nth_error_None in H. now rewrite H. Qed.

  (* ---- set_nth / swap_nth ---- *)
  Lemma set_nth_length (l : queue) i x : length (set_nth l i x) = length l.
  Proof. revert i. induction l as [|y r IH]; intros [|i]; cbn; auto. Qed.

  Lemma nth_error_set_nth (l : queue) i x j :
    (i < length l)%nat ->
    nth_error (set_nth l i x) j = if Nat.eqb j i then Some x else nth_error l j.
  Proof.
    revert i j. induction l as [|y r IH]; intros i j H; [cbn in H; lia|].
    destruct i as [|i], j as [|j]; cbn [set_nth nth_error Nat.eqb]; try reflexivity.
    apply IH. cbn in H. lia.
  Qed.

  Lemma swap_nth_length (l : queue) i j : length (swap_nth l i j) = length l.
  Proof.
    unfold swap_nth. destruct (nth_error l i), (nth_error l j); try reflexivity.
    now rewrite !set_nth_length.
  Qed.

  Lemma nth_error_swap (l : queue) i j k :
    (i < length l)%nat -> (j < length l)%nat ->
    nth_error (swap_nth l i j) k =
      if Nat.eqb k j then nth_error l i else if Nat.eqb k i then nth_error l j else nth_error l k.
  Proof.
    intros Hi Hj. unfold swap_nth.
    destruct (nth_error l i) as [a|] eqn:Ei; [|apply nth_error_None in Ei; lia].
    destruct (nth_error l j) as [b|] eqn:Ej; [|apply nth_error_None in Ej; lia].
    rewrite nth_error_set_nth by (rewrite set_nth_length; lia).
    destruct (Nat.eqb k j) eqn:E1; [reflexivity|].
    rewrite nth_error_set_nth by lia. reflexivity.
  Qed.

  Lemma kz_swap (l : queue) i j k :
    (i < length l)%nat -> (j < length l)%nat ->
    kz (swap_nth l i j) k = if Nat.eqb k j then kz l i else if Nat.eqb k i then kz l j else kz l k.
  Proof.
    intros Hi Hj. unfold kz. rewrite nth_error_swap by assumption.
    destruct (Nat.eqb k j); [reflexivity|]. destruct (Nat.eqb k i); reflexivity.
  Qed.

  (* a list is determined by its nth_error: permutation of a swap *)
  Lemma set_nth_perm_swap : forall (l : queue) i j a b,
    nth_error l i = Some a -> nth_error l j = Some b ->
    Permutation (set_nth (set_nth l i b) j a) l.
  Proof.
    induction l as [|y r IH]; intros i j a b Hi Hj; [destruct i; discriminate|].
    destruct i as [|i], j as [|j]; cbn [nth_error set_nth] in *.
    - injection Hi as <-. injection Hj as <-. reflexivity.
    - injection Hi as <-.
      (* b :: set_nth r j y  ~  y :: r  with nth_error r j = Some b *)
      clear IH. revert j Hj. induction r as [|z r IHr]; intros j Hj; [destruct j; discriminate|].
      destruct j as [|j]; cbn [nth_error set_nth] in *.
      + injection Hj as <-. apply perm_swap.
      + specialize (IHr j Hj). etransitivity; [apply perm_swap|].
        etransitivity; [apply perm_skip; exact IHr|]. apply perm_swap.
    - injection Hj as <-.
      clear IH. revert i Hi. induction r as [|z r IHr]; intros i Hi; [destruct i; discriminate|].
      destruct i as [|i]; cbn [nth_error set_nth] in *.
      + injection Hi as <-. apply perm_swap.
      + specialize (IHr i Hi). etransitivity; [apply perm_swap|].
        etransitivity; [apply perm_skip; exact IHr|]. apply perm_swap.
    - apply perm_skip. now apply IH.
  Qed.

  Lemma swap_nth_perm (l : queue) i j : Permutation (swap_nth l i j) l.
  Proof.
    unfold swap_nth. destruct (nth_error l i) as [a|] eqn:Ei; [|reflexivity].
    destruct (nth_error l j) as [b|] eqn:Ej; [|reflexivity].
    now apply set_nth_perm_swap.
  Qed.

  (* ---- sift_up / sift_down keep the entries ---- *)
  Lemma sift_up_perm : forall fuel (l : queue) i, Permutation (sift_up fuel l i) l.
  Proof.
    induction fuel as [|fuel IH]; intros l i; cbn [sift_up]; [reflexivity|].
    destruct (Nat.eqb i 0); [reflexivity|].
    destruct (key_at l (Nat.div (i - 1) 2)); [|reflexivity].
    destruct (key_at l i); [|reflexivity].
    destruct (z0 <? z)%Z; [|reflexivity].
    rewrite IH. apply swap_nth_perm.
  Qed.

  Lemma sift_down_perm : forall fuel (l : queue) i, Permutation (sift_down fuel l i) l.
  Proof.
    induction fuel as [|fuel IH]; intros l i; cbn [sift_down]; [reflexivity|].
    cbv zeta.
    match goal with |- context [Nat.eqb ?s i] => destruct (Nat.eqb s i) end; [reflexivity|].
    rewrite IH. apply swap_nth_perm.
  Qed.

  (* ---- the heap invariant ---- *)
  Definition parent (j : nat) : nat := Nat.div (j - 1) 2.
  Definition heap_inv (l : queue) : Prop :=
    forall j, (0 < j < length l)%nat -> (kz l (parent j) <= kz l j)%Z.

  Lemma heap_root_min (l : queue) : heap_inv l -> forall j, (j < length l)%nat -> (kz l 0 <= kz l j)%Z.
  Proof.
    intros H j. induction j as [j IH] using lt_wf_ind. intros Hj.
    destruct (Nat.eq_dec j 0) as [->|Hn]; [lia|].
    assert (Hp : (parent j < j)%nat) by (unfold parent; lia).
    specialize (IH (parent j) Hp ltac:(lia)). specialize (H j ltac:(lia)). lia.
  Qed.

  (* heap everywhere except that entry i may be smaller than its parent; its children are
     already above its parent *)
  Definition up_inv (l : queue) (i : nat) : Prop :=
    (forall j, (0 < j < length l)%nat -> j <> i -> (kz l (parent j) <= kz l j)%Z) /\
    (forall j, (0 < j < length l)%nat -> parent j = i -> (0 < i)%nat -> (kz l (parent i) <= kz l j)%Z).

  Lemma sift_up_inv : forall fuel (l : queue) i,
    (i < length l)%nat -> (i < fuel)%nat -> up_inv l i -> heap_inv (sift_up fuel l i).
  Proof.
    induction fuel as [|fuel IH]; intros l i Hi Hf [H1 H2]; [lia|].
    cbn [sift_up]. destruct (Nat.eqb_spec i 0) as [->|Hn].
    - intros j Hj. apply H1; lia.
    - fold (parent i).
      assert (Hp : (parent i < i)%nat) by (unfold parent; lia).
      rewrite (key_at_some l (parent i)) by lia. rewrite (key_at_some l i) by lia.
      destruct (Z.ltb_spec (kz l i) (kz l (parent i))) as [Hlt|Hge].
      + apply IH; [rewrite swap_nth_length; lia | lia |].
        split.
        * intros j Hj Hne. rewrite swap_nth_length in Hj.
          rewrite !kz_swap by lia.
          destruct (Nat.eqb_spec j i) as [->|Hji].
          -- (* j = i: now holds the old parent's key; its parent is parent i = the moved entry *)
             destruct (Nat.eqb_spec (parent i) i); [lia|].
             rewrite Nat.eqb_refl. lia.
          -- destruct (Nat.eqb_spec j (parent i)); [lia|].
             destruct (Nat.eqb_spec (parent j) i) as [Ep|Ep].
             ++ (* parent j = i: child of i; new key at i is old parent's key *)
                specialize (H2 j Hj Ep ltac:(lia)). lia.
             ++ destruct (Nat.eqb_spec (parent j) (parent i)) as [Eq|Eq].
                ** (* sibling of i: parent now holds kz l i < old parent key <= kz l j *)
                   specialize (H1 j Hj Hji). rewrite Eq in H1. lia.
                ** apply H1; assumption.
        * intros j Hj Hpj Hpos. rewrite swap_nth_length in Hj.
          rewrite !kz_swap by lia.
          (* j is a child of parent i; grandparent g = parent (parent i) *)
          assert (Hg : (parent (parent i) < parent i)%nat) by (unfold parent in *; lia).
          destruct (Nat.eqb_spec (parent (parent i)) i); [lia|].
          destruct (Nat.eqb_spec (parent (parent i)) (parent i)); [lia|].
          assert (Hgp : (kz l (parent (parent i)) <= kz l (parent i))%Z) by (apply H1; lia).
          destruct (Nat.eqb_spec j i) as [->|Hji]; [lia|].
          destruct (Nat.eqb_spec j (parent i)); [subst j; unfold parent in *; lia|].
          specialize (H1 j Hj Hji). rewrite Hpj in H1. lia.
      + (* no swap: the heap property holds at i too *)
        intros j Hj. destruct (Nat.eq_dec j i) as [->|Hji]; [lia|]. now apply H1.
  Qed.

  Lemma kz_app_l (q : queue) e j : (j < length q)%nat -> kz (q ++ [e]) j = kz q j.
  Proof. intros H. unfold kz. now rewrite nth_error_app1. Qed.

  Lemma heap_push_inv (q : queue) e : heap_inv q -> heap_inv (heap_push q e).
  Proof.
    intros H. unfold heap_push.
    assert (Hlen : length (q ++ [e]) = S (length q)) by (rewrite app_length; cbn; lia).
    rewrite Hlen. replace (S (length q) - 1)%nat with (length q) by lia.
    apply sift_up_inv; [lia | lia |].
    split.
    - intros j Hj Hne. rewrite Hlen in Hj.
      assert (Hp : (parent j < j)%nat) by (unfold parent; lia).
      rewrite !kz_app_l by lia. apply H. lia.
    - intros j Hj Hpj _. rewrite Hlen in Hj. unfold parent in Hpj. lia.
  Qed.

  (* heap everywhere except that entry i may be larger than its children; its children are
     already above its parent *)
  Definition down_inv (l : queue) (i : nat) : Prop :=
    (forall j, (0 < j < length l)%nat -> parent j <> i -> (kz l (parent j) <= kz l j)%Z) /\
    (forall j, (0 < j < length l)%nat -> parent j = i -> (0 < i)%nat -> (kz l (parent i) <= kz l j)%Z).

  Lemma parent_child j i : (0 < j)%nat -> parent j = i <-> (j = i * 2 + 1 \/ j = i * 2 + 2)%nat.
  Proof. unfold parent. intros H. split; lia. Qed.

  Ltac fin := solve [ lia | now left | (right; split; [now left | assumption]) | (right; split; [now right | assumption]) ].

  Lemma sift_down_inv : forall fuel (l : queue) i,
    (length l - i <= fuel)%nat -> down_inv l i -> heap_inv (sift_down fuel l i).
  Proof.
    induction fuel as [|fuel IH]; intros l i Hf [D1 D2].
    - cbn [sift_down]. intros j Hj. apply D1; [exact Hj|]. unfold parent. lia.
    - cbn [sift_down]. cbv zeta.
      set (left := (i * 2 + 1)%nat). set (right := (i * 2 + 2)%nat).
      destruct (le_lt_dec (length l) i) as [Hout|Hin].
      { (* i is outside: nothing to do *)
        rewrite (key_at_none l left) by (subst left; lia).
        rewrite (key_at_none l right) by (subst right; lia).
        rewrite Nat.eqb_refl. intros j Hj. apply D1; [exact Hj|]. unfold parent. lia. }
      assert (Hstep : forall s2,
                (kz l s2 <= kz l i)%Z ->
                ((left < length l)%nat -> (kz l s2 <= kz l left)%Z) ->
                ((right < length l)%nat -> (kz l s2 <= kz l right)%Z) ->
                (s2 = i \/ ((s2 = left \/ s2 = right) /\ (s2 < length l)%nat)) ->
                heap_inv (if Nat.eqb s2 i then l else sift_down fuel (swap_nth l s2 i) s2)).
      { intros s2 Hmi Hml Hmr Hwhich.
      destruct (Nat.eqb_spec s2 i) as [Ei|Ei].
        + (* nothing to swap: i is not above its children *)
          subst s2. intros j Hj.
          destruct (Nat.eq_dec (parent j) i) as [Ep|Ep]; [|now apply D1].
          pose proof Ep as Ep'. apply parent_child in Ep'; [|lia]. rewrite Ep.
          destruct Ep' as [->| ->]; [apply Hml | apply Hmr]; subst left right; lia.
        + destruct Hwhich as [?|[Hc Hs2in]]; [contradiction|].
          assert (Hps2 : parent s2 = i) by (apply parent_child; subst left right; lia).
          assert (Hgt : (i < s2)%nat) by (subst left right; lia).
          apply IH; [rewrite swap_nth_length; lia|].
          split.
          * intros j Hj Hpj. rewrite swap_nth_length in Hj. rewrite !kz_swap by lia.
            destruct (Nat.eqb_spec j i) as [->|Hji].
            -- (* j = i > 0: its parent is untouched *)
               assert (parent i < i)%nat by (unfold parent; lia).
               destruct (Nat.eqb_spec (parent i) i); [lia|].
               destruct (Nat.eqb_spec (parent i) s2); [lia|].
               apply (D2 s2); [lia | exact Hps2 | lia].
            -- destruct (Nat.eqb_spec j s2) as [->|Hjs].
               ++ rewrite Hps2. rewrite Nat.eqb_refl. destruct (Nat.eqb_spec i s2); [lia|]. lia.
               ++ destruct (Nat.eqb_spec (parent j) i) as [Ep|Ep].
                  ** (* the sibling of s2 *)
                     pose proof Ep as Ep'. apply parent_child in Ep'; [|lia].
                     destruct Ep' as [->| ->]; [apply Hml | apply Hmr]; subst left right; lia.
                  ** destruct (Nat.eqb_spec (parent j) s2); [contradiction|]. now apply D1.
          * intros j Hj Hpj Hpos. rewrite swap_nth_length in Hj. rewrite !kz_swap by lia.
            rewrite Hps2. rewrite Nat.eqb_refl.
            assert (Hjgt : (s2 < j)%nat) by (unfold parent in Hpj; lia).
            destruct (Nat.eqb_spec j i); [lia|]. destruct (Nat.eqb_spec j s2); [lia|].
            rewrite <- Hpj. apply (D1 j); [lia|]. lia.
      }
      rewrite (key_at_some l i Hin).
      destruct (le_lt_dec (length l) left) as [Hl|Hl];
        [rewrite (key_at_none l left Hl) | rewrite (key_at_some l left Hl)]; cbv iota beta.
      + (* no left child, hence no right child *)
        rewrite (key_at_none l right) by (subst left right; lia). apply Hstep; fin.
      + destruct (Z.leb_spec (kz l left) (kz l i)) as [C1|C1].
        * rewrite (key_at_some l left Hl).
          destruct (le_lt_dec (length l) right) as [Hr|Hr];
            [rewrite (key_at_none l right Hr) | rewrite (key_at_some l right Hr)]; cbv iota beta.
          -- apply Hstep; fin.
          -- destruct (Z.leb_spec (kz l right) (kz l left)) as [C2|C2]; apply Hstep; fin.
        * rewrite (key_at_some l i Hin).
          destruct (le_lt_dec (length l) right) as [Hr|Hr];
            [rewrite (key_at_none l right Hr) | rewrite (key_at_some l right Hr)]; cbv iota beta.
          -- apply Hstep; fin.
          -- destruct (Z.leb_spec (kz l right) (kz l i)) as [C2|C2]; apply Hstep; fin.
  Qed.

  Lemma heap_push_perm (q : queue) e : Permutation (heap_push q e) (e :: q).
  Proof. unfold heap_push. rewrite sift_up_perm. rewrite Permutation_app_comm. reflexivity. Qed.

  Lemma heap_all_ge_root (l : queue) y : heap_inv l -> In y l -> (kz l 0 <= fst y)%Z.
  Proof.
    intros H Hy. apply In_nth_error in Hy. destruct Hy as [j Hj].
    assert (Hlt : (j < length l)%nat) by (apply nth_error_Some; congruence).
    pose proof (heap_root_min l H j Hlt) as Hr. unfold kz at 2 in Hr. now rewrite Hj in Hr.
  Qed.

  Lemma heap_pop_spec (q : queue) m q' :
    heap_inv q -> heap_pop q = Some (m, q') ->
    heap_inv q' /\ Permutation q (m :: q') /\ Forall (fun y : qnode => (fst m <= fst y)%Z) q'.
  Proof.
    intros H Hp. destruct q as [|n t]; [discriminate|]. unfold heap_pop in Hp. cbv zeta in Hp.
    remember (removelast (set_nth (n :: t) 0 (last (n :: t) n))) as nodes eqn:En.
    injection Hp as <- <-.
    assert (Hmin : forall y, In y (n :: t) -> (fst n <= fst y)%Z).
    { intros y Hy. pose proof (heap_all_ge_root _ y H Hy) as Hr. exact Hr. }
    destruct (@exists_last _ (n :: t) ltac:(discriminate)) as (front & z & Eq).
    destruct front as [|f front'].
    - (* a single entry *)
      cbn [app] in Eq. injection Eq as -> ->. cbn in En. subst nodes. cbn.
      split; [intros j Hj; cbn in Hj; lia|]. split; [reflexivity|constructor].
    - cbn [app] in Eq. injection Eq as <- Et.
      assert (Elast : last (n :: t) n = z).
      { rewrite Et. change (n :: front' ++ [z]) with ((n :: front') ++ [z]). apply last_last. }
      assert (Enodes : nodes = z :: front').
      { rewrite En, Elast. cbn [set_nth]. rewrite Et. change (z :: front' ++ [z]) with ((z :: front') ++ [z]).
        apply removelast_last. }
      rewrite Enodes. clear En Enodes nodes.
      assert (Hperm : Permutation (n :: t) (n :: z :: front')).
      { apply perm_skip. rewrite Et. rewrite Permutation_app_comm. reflexivity. }
      assert (Hinv : heap_inv (sift_down (length (z :: front')) (z :: front') 0)).
      { apply sift_down_inv; [lia|]. split.
        - intros j Hj Hpj.
          assert (Hp1 : (1 <= parent j)%nat) by lia.
          assert (Hpl : (parent j < j)%nat) by (unfold parent; lia).
          assert (Hkz : forall x, (1 <= x < length (z :: front'))%nat -> kz (z :: front') x = kz (n :: t) x).
          { intros x Hx. unfold kz. destruct x as [|x]; [lia|]. cbn [nth_error]. rewrite Et.
            cbn [length] in Hx. rewrite nth_error_app1 by lia. reflexivity. }
          rewrite !Hkz by lia. apply H. rewrite Et. cbn [length] in *. rewrite app_length. cbn. lia.
        - intros j Hj Hpj Hpos. lia. }
      split; [exact Hinv|]. split.
      + rewrite Hperm. apply perm_skip. symmetry. apply sift_down_perm.
      + rewrite Forall_forall. intros y Hy. apply Hmin.
        eapply Permutation_in; [symmetry; exact Hperm|]. right.
        eapply Permutation_in; [apply sift_down_perm|exact Hy].
  Qed.

  Theorem heap_queue_ok : queue_ok heap_inv heap_push heap_pop.
  Proof.
    split; [|split; [|split]].
    - intros j Hj. cbn in Hj. lia.
    - intros q e H. split; [now apply heap_push_inv | apply heap_push_perm].
    - intros q _ H. destruct q; [reflexivity | discriminate].
    - intros q m q' H Hp. now apply heap_pop_spec.
  Qed.
End Heap.
