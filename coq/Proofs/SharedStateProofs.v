(* C07 — table theorems about the shared-state writes (Model/SharedState.v) that t38x regenerates
   from /repo on every run. Computed over the complete tables and lifted to every command string. *)
From Coq Require Import String List Bool.
From T38 Require Import Model.Tables Gen.LockTable Gen.Dispatch Gen.ScriptTables Gen.Mutators Model.Gate
  Proofs.GateProofs Model.SharedState.
Import ListNotations.
Open Scope string_scope.

Lemma handler_shared_nil hs c : find_handler hs c = None -> handler_shared hs c = [].
Proof. unfold handler_shared. intros ->. reflexivity. Qed.

Lemma arm_of_In t c : In (arm_of t c) (t_default t :: t_arms t).
Proof.
  unfold arm_of. destruct (find_arm (t_arms t) c) as [a|] eqn:Ef; [right | left; reflexivity].
  induction (t_arms t) as [|x l IH]; cbn in *; [discriminate|].
  destruct (in_strs c (a_cmds x)); [inversion Ef; left; reflexivity | right; apply IH; exact Ef].
Qed.

(* every command string *)
Lemma cmd_shared_sound_all : forall c, in_strs c dev_only = false -> cmd_shared_sound c = true.
Proof.
  assert (H : forall c, (in_strs c dev_only || cmd_shared_sound c) = true).
  { apply (lift_dispatch dispatch).
    - vm_compute. reflexivity.
    - intros c _ Hn. apply orb_true_iff. right. unfold cmd_shared_sound.
      rewrite (handler_shared_nil _ _ Hn). cbn [app].
      assert (Hw : forallb (fun a => implb (a_write a) (match a_lock a with LExcl => true | _ => false end))
                     (t_default lock_table :: t_arms lock_table) = true) by (vm_compute; reflexivity).
      rewrite forallb_forall in Hw. specialize (Hw _ (arm_of_In lock_table c)).
      destruct (a_write (arm_of lock_table c)); [|reflexivity].
      cbn in Hw. destruct (a_lock (arm_of lock_table c)); try discriminate.
      apply forallb_forall. intros w _. unfold sw_ok. cbn. reflexivity. }
  intros c Hd. specialize (H c). rewrite Hd in H. exact H.
Qed.

(* the readable form: a write a command can perform while it holds less than the exclusive server
   lock is under a mutex of the shared state itself / atomic / sync, or its field is allow-listed *)
Lemma cmd_shared_write_guarded c w :
  in_strs c dev_only = false ->
  In w (handler_shared dispatch c ++ (if a_write (arm_of lock_table c) then fn_shared "writeAOF" else []))%list ->
  is_excl (ctx_max (ctx_of_lock (a_lock (arm_of lock_table c))) (sw_ctx w)) = false ->
  sw_guard w <> "" \/ In (sw_field w) shared_allow.
Proof.
  intros Hd Hin Hx. pose proof (cmd_shared_sound_all c Hd) as H. unfold cmd_shared_sound in H.
  rewrite forallb_forall in H. specialize (H w Hin). unfold sw_ok in H. rewrite Hx in H. cbn [orb] in H.
  apply orb_true_iff in H. destruct H as [H|H].
  - left. unfold sw_self_guarded in H. apply negb_true_iff in H. apply String.eqb_neq in H. exact H.
  - right. apply in_strs_In. exact H.
Qed.

(* every goroutine started anywhere in the package *)
Lemma goroutines_shared_sound : forallb entry_shared_sound go_entries = true.
Proof. vm_compute. reflexivity. Qed.

Lemma goroutine_shared_write_guarded fn w :
  In fn go_entries -> In w (fn_shared fn) -> is_excl (sw_ctx w) = false ->
  sw_guard w <> "" \/ In (sw_field w) shared_allow.
Proof.
  intros Hfn Hin Hx. pose proof goroutines_shared_sound as H. rewrite forallb_forall in H.
  specialize (H fn Hfn). unfold entry_shared_sound in H. rewrite forallb_forall in H. specialize (H w Hin).
  unfold sw_ok in H.
  assert (E : ctx_max CNone (sw_ctx w) = sw_ctx w) by (destruct (sw_ctx w); reflexivity).
  rewrite E, Hx in H. cbn [orb] in H. apply orb_true_iff in H. destruct H as [H|H].
  - left. unfold sw_self_guarded in H. apply negb_true_iff in H. apply String.eqb_neq in H. exact H.
  - right. apply in_strs_In. exact H.
Qed.

(* every script sub-command that a script table lets run, under the lock of its outer command *)
Definition script_variants : list (table * lockk) := [(script_rw, LExcl); (script_ro, LShared); (script_na, LNone)].

Lemma script_tables_shared_sound :
  forallb (fun tl => forallb (script_cmd_shared_sound (fst tl) (snd tl)) (map h_cmd dispatch_script)) script_variants = true.
Proof. vm_compute. reflexivity. Qed.

Lemma script_cmd_shared_sound_all t outer c e l w fn :
  In (t, outer) script_variants -> script_gate t c e = SRun l w fn -> script_cmd_shared_sound t outer c = true.
Proof.
  intros Ht Hrun. pose proof script_tables_shared_sound as H. rewrite forallb_forall in H.
  specialize (H _ Ht). cbn [fst snd] in H. rewrite forallb_forall in H. apply H.
  unfold script_gate in Hrun.
  destruct (in_strs c script_deny); [discriminate|].
  destruct (a_reject (arm_of t c)); try discriminate.
  destruct (arm_verdict (arm_of t c) e) as [[]|]; try discriminate.
  destruct (find_handler dispatch_script c) as [h|] eqn:Ef; [|discriminate].
  eapply find_handler_In; eauto.
Qed.

(* one field, one guard *)
Lemma guards_consistent :
  forallb (fun w1 => forallb (guard_consistent w1) all_shared_writes) all_shared_writes = true.
Proof. vm_compute. reflexivity. Qed.

(* the expiry pass takes the server lock once, exclusively; and no goroutine that changes the
   dataset reads stored objects outside an exclusive section *)
Lemma sweep_one_exclusive_region :
  fn_regions "backgroundExpiring" = [CExcl] /\ fn_regions "backgroundExpireObjects" = [] /\
  fn_regions "backgroundExpireHooks" = [].
Proof. vm_compute. repeat split. Qed.

Lemma goroutines_decide_under_excl : forallb decides_under_excl go_entries = true.
Proof. vm_compute. reflexivity. Qed.

(* the eval mode registered for a pooled interpreter never outlives the command that registered it
   (Gen.LuaPool, regenerated by t38x/luapool.go): a filter script under the shared lock finds none *)
From T38 Require Gen.LuaPool.

Lemma no_eval_mode_outlives_its_command :
  forallb (fun u => match snd u with ((registers, paired), _) => implb registers paired end) LuaPool.pool_users = true /\
  forallb (fun fn => in_strs fn LuaPool.evalcmd_delete_fns) LuaPool.evalcmd_store_fns = true /\
  LuaPool.mode_lookup_defaults_to_empty = true.
Proof. vm_compute. repeat split. Qed.
