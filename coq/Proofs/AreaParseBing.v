(* internal/bing quadkey arithmetic (Model/AreaParse.v: qk_loop, quadkey_to_tilexy,
   tilexy_to_quadkey, quadkey_to_bounds): basic laws. *)
From Coq Require Import String Ascii List Bool ZArith NArith Lia.
From Coq Require Import ZifyN ZifyNat ZifyBool.
From T38 Require Import Base.Bytes Model.AreaParse.
Import ListNotations.
Local Open Scope Z_scope.

(* ---------- level = length ---------- *)

Lemma quadkey_level k x y z : quadkey_to_tilexy k = Some (x, y, z) -> z = Z.of_nat (length k).
Proof.
  unfold quadkey_to_tilexy. destruct (qk_loop k 0 0) as [[a b]|]; [|discriminate].
  intros H; inversion H; reflexivity.
Qed.

(* ---------- the panic of QuadKeyToTileXY is unreachable behind the digit check ---------- *)

Lemma qk_loop_valid k : forall x y, forallb quadkey_digit k = true -> exists x' y', qk_loop k x y = Some (x', y').
Proof.
  induction k as [|c r IH]; intros x y H.
  - exists x, y; reflexivity.
  - cbn [forallb] in H. apply andb_true_iff in H. destruct H as [Hc Hr].
    cbn [qk_loop]. unfold quadkey_digit in Hc.
    destruct (c =? 48)%N; [apply IH; exact Hr|].
    destruct (c =? 49)%N; [apply IH; exact Hr|].
    destruct (c =? 50)%N; [apply IH; exact Hr|].
    destruct (c =? 51)%N; [apply IH; exact Hr|].
    discriminate.
Qed.

Lemma qk_loop_invalid k : forall x y, forallb quadkey_digit k = false -> qk_loop k x y = None.
Proof.
  induction k as [|c r IH]; intros x y H; [discriminate|].
  cbn [forallb] in H. cbn [qk_loop]. unfold quadkey_digit in H.
  destruct (c =? 48)%N; [apply IH; exact H|].
  destruct (c =? 49)%N; [apply IH; exact H|].
  destruct (c =? 50)%N; [apply IH; exact H|].
  destruct (c =? 51)%N; [apply IH; exact H|].
  reflexivity.
Qed.

Lemma quadkey_to_bounds_total k :
  (forallb quadkey_digit k = true /\ exists x y, quadkey_to_tilexy k = Some (x, y, Z.of_nat (length k))
     /\ quadkey_to_bounds k = Ok (Some (ATile x y (Z.of_nat (length k)))))
  \/ (forallb quadkey_digit k = false /\ quadkey_to_bounds k = Ok None).
Proof.
  unfold quadkey_to_bounds, quadkey_to_tilexy.
  destruct (forallb quadkey_digit k) eqn:E; [left|right; auto].
  split; [reflexivity|]. destruct (qk_loop_valid k 0 0 E) as [x [y H]]. rewrite H.
  exists x, y. split; reflexivity.
Qed.

Lemma quadkey_to_bounds_no_panic k : quadkey_to_bounds k <> Panic /\ quadkey_to_bounds k <> NoFuel.
Proof.
  destruct (quadkey_to_bounds_total k) as [[_ [x [y [_ H]]]]|[_ H]]; rewrite H; split; discriminate.
Qed.

(* QuadKeyToTileXY panics exactly on a character outside '0'..'3' *)
Lemma quadkey_panics_iff k : quadkey_to_tilexy k = None <-> forallb quadkey_digit k = false.
Proof.
  unfold quadkey_to_tilexy. destruct (forallb quadkey_digit k) eqn:E.
  - destruct (qk_loop_valid k 0 0 E) as [x [y H]]. rewrite H. split; discriminate.
  - rewrite (qk_loop_invalid k 0 0 E). split; reflexivity.
Qed.

(* ---------- digits decode to the bit pairs ---------- *)

Definition dig_x (c : N) : bool := ((c =? 49) || (c =? 51))%N.   (* '1', '3': tileX |= mask *)
Definition dig_y (c : N) : bool := ((c =? 50) || (c =? 51))%N.   (* '2', '3': tileY |= mask *)

Lemma mask64_small s : 0 <= s < 63 -> mask64 s = 2 ^ s.
Proof. intros H. unfold mask64. destruct (Z.ltb_spec s 63); [reflexivity|lia]. Qed.

Lemma lor_pow2_bit x s m : 0 <= s -> 0 <= m ->
  Z.testbit (Z.lor x (2 ^ s)) m = Z.testbit x m || (m =? s).
Proof.
  intros Hs Hm. rewrite Z.lor_spec, Z.pow2_bits_eqb by exact Hs. rewrite (Z.eqb_sym s m). reflexivity.
Qed.

(* bit m of the result = bit m of the accumulator, or the digit that sits at position m *)
Lemma qk_loop_bits k : forall x y x' y',
  (length k <= 63)%nat ->
  qk_loop k x y = Some (x', y') ->
  forall m, 0 <= m ->
    Z.testbit x' m = Z.testbit x m
                     || (if m <? Z.of_nat (length k)
                         then dig_x (nth (length k - 1 - Z.to_nat m) k 0%N) else false)
    /\
    Z.testbit y' m = Z.testbit y m
                     || (if m <? Z.of_nat (length k)
                         then dig_y (nth (length k - 1 - Z.to_nat m) k 0%N) else false).
Proof.
  induction k as [|c r IH]; intros x y x' y' Hlen H m Hm.
  - cbn in H. inversion H; subst. cbn [length]. destruct (Z.ltb_spec m (Z.of_nat 0)); [lia|].
    rewrite !orb_false_r. split; reflexivity.
  - cbn [qk_loop] in H. cbn [length] in Hlen.
    assert (Hmask : mask64 (Z.of_nat (length (c :: r)) - 1) = 2 ^ Z.of_nat (length r)).
    { cbn [length]. replace (Z.of_nat (S (length r)) - 1) with (Z.of_nat (length r)) by lia.
      apply mask64_small. lia. }
    rewrite Hmask in H.
    assert (Hr : (length r <= 63)%nat) by lia.
    (* position of m in c :: r *)
    assert (Hnth : forall (f : N -> bool),
       (if m <? Z.of_nat (length (c :: r)) then f (nth (length (c :: r) - 1 - Z.to_nat m) (c :: r) 0%N) else false)
       = (if m =? Z.of_nat (length r) then f c
          else if m <? Z.of_nat (length r) then f (nth (length r - 1 - Z.to_nat m) r 0%N) else false)).
    { intros f. cbn [length].
      destruct (Z.eqb_spec m (Z.of_nat (length r))) as [->|Hne].
      - destruct (Z.ltb_spec (Z.of_nat (length r)) (Z.of_nat (S (length r)))); [|lia].
        replace (S (length r) - 1 - Z.to_nat (Z.of_nat (length r)))%nat with 0%nat by lia. reflexivity.
      - destruct (Z.ltb_spec m (Z.of_nat (S (length r)))), (Z.ltb_spec m (Z.of_nat (length r))); try lia; try reflexivity.
        replace (S (length r) - 1 - Z.to_nat m)%nat with (S (length r - 1 - Z.to_nat m))%nat by lia.
        reflexivity. }
    rewrite (Hnth dig_x), (Hnth dig_y).
    assert (Hs : 0 <= Z.of_nat (length r)) by lia.
    unfold dig_x, dig_y.
    destruct (N.eqb_spec c 48) as [->|H48].
    { destruct (IH _ _ _ _ Hr H m Hm) as [Hx Hy]. rewrite Hx, Hy. cbn.
      destruct (m =? Z.of_nat (length r)) eqn:E; [|split; reflexivity].
      apply Z.eqb_eq in E. destruct (Z.ltb_spec m (Z.of_nat (length r))); [lia|]. split; reflexivity. }
    destruct (N.eqb_spec c 49) as [->|H49].
    { destruct (IH _ _ _ _ Hr H m Hm) as [Hx Hy]. rewrite Hx, Hy, lor_pow2_bit by assumption. cbn.
      destruct (m =? Z.of_nat (length r)) eqn:E.
      - apply Z.eqb_eq in E. destruct (Z.ltb_spec m (Z.of_nat (length r))); [lia|].
        rewrite !orb_false_r, orb_true_r. split; reflexivity.
      - rewrite !orb_false_r. split; reflexivity. }
    destruct (N.eqb_spec c 50) as [->|H50].
    { destruct (IH _ _ _ _ Hr H m Hm) as [Hx Hy]. rewrite Hx, Hy, lor_pow2_bit by assumption. cbn.
      destruct (m =? Z.of_nat (length r)) eqn:E.
      - apply Z.eqb_eq in E. destruct (Z.ltb_spec m (Z.of_nat (length r))); [lia|].
        rewrite !orb_false_r, orb_true_r. split; reflexivity.
      - rewrite !orb_false_r. split; reflexivity. }
    destruct (N.eqb_spec c 51) as [->|H51].
    { destruct (IH _ _ _ _ Hr H m Hm) as [Hx Hy]. rewrite Hx, Hy, !lor_pow2_bit by assumption. cbn.
      destruct (m =? Z.of_nat (length r)) eqn:E.
      - apply Z.eqb_eq in E. destruct (Z.ltb_spec m (Z.of_nat (length r))); [lia|].
        rewrite !orb_false_r, !orb_true_r. split; reflexivity.
      - rewrite !orb_false_r. split; reflexivity. }
    discriminate.
Qed.

(* QuadKeyToTileXY(k) for len(k) <= 63: bit (level-1-j) of tileX / tileY is the low / high bit of digit j,
   every bit at or above level is clear *)
Lemma quadkey_bits k x y z : (length k <= 63)%nat ->
  quadkey_to_tilexy k = Some (x, y, z) ->
  (forall j, (j < length k)%nat ->
     Z.testbit x (Z.of_nat (length k - 1 - j)) = dig_x (nth j k 0%N) /\
     Z.testbit y (Z.of_nat (length k - 1 - j)) = dig_y (nth j k 0%N))
  /\ (forall m, Z.of_nat (length k) <= m -> Z.testbit x m = false /\ Z.testbit y m = false).
Proof.
  intros Hlen H. unfold quadkey_to_tilexy in H.
  destruct (qk_loop k 0 0) as [[a b]|] eqn:E; [|discriminate]. inversion H; subst; clear H.
  split.
  - intros j Hj.
    destruct (qk_loop_bits k 0 0 x y Hlen E (Z.of_nat (length k - 1 - j)) ltac:(lia)) as [Hx Hy].
    rewrite Hx, Hy, !Z.bits_0. cbn [orb].
    destruct (Z.ltb_spec (Z.of_nat (length k - 1 - j)) (Z.of_nat (length k))); [|lia].
    rewrite Nat2Z.id. replace (length k - 1 - (length k - 1 - j))%nat with j by lia. split; reflexivity.
  - intros m Hm.
    destruct (qk_loop_bits k 0 0 x y Hlen E m ltac:(lia)) as [Hx Hy].
    rewrite Hx, Hy, !Z.bits_0. destruct (Z.ltb_spec m (Z.of_nat (length k))); [lia|]. split; reflexivity.
Qed.

Lemma quadkey_range k x y z : (length k <= 63)%nat ->
  quadkey_to_tilexy k = Some (x, y, z) -> 0 <= x < 2 ^ z /\ 0 <= y < 2 ^ z.
Proof.
  intros Hlen H. pose proof (quadkey_level _ _ _ _ H) as Hz.
  destruct (quadkey_bits _ _ _ _ Hlen H) as [_ Hhi].
  assert (Hnn : forall v, (forall m, Z.of_nat (length k) <= m -> Z.testbit v m = false) -> 0 <= v < 2 ^ z).
  { intros v Hv. subst z.
    assert (H0 : 0 <= v).
    { destruct (Z.neg_nonneg_cases v) as [Hneg|]; [|assumption].
      destruct (Z.bits_iff_neg_ex v) as [Hex _]. destruct (Hex Hneg) as [kk Hk].
      specialize (Hk (Z.max (kk + 1) (Z.of_nat (length k))) ltac:(lia)).
      rewrite Hv in Hk by lia. discriminate. }
    split; [exact H0|].
    destruct (Z.eq_dec v 0) as [->|Hnz]; [apply Z.pow_pos_nonneg; lia|].
    apply Z.log2_lt_pow2; [lia|].
    destruct (Z.lt_ge_cases (Z.log2 v) (Z.of_nat (length k))) as [|Hge]; [assumption|].
    pose proof (Z.bit_log2 v ltac:(lia)) as Hb. rewrite Hv in Hb by lia. discriminate. }
  split; apply Hnn; intros m Hm; apply Hhi; exact Hm.
Qed.

(* ---------- TileXYToQuadKey o QuadKeyToTileXY = id ---------- *)

Lemma land_pow2_test x s : 0 <= s -> (Z.land x (2 ^ s) =? 0) = negb (Z.testbit x s).
Proof.
  intros Hs. destruct (Z.testbit x s) eqn:E.
  - apply Z.eqb_neq. intros H0.
    assert (Hb : Z.testbit (Z.land x (2 ^ s)) s = true).
    { rewrite Z.land_spec, E, Z.pow2_bits_true by exact Hs. reflexivity. }
    rewrite H0, Z.bits_0 in Hb. discriminate.
  - apply Z.eqb_eq. apply Z.bits_inj'. intros n Hn.
    rewrite Z.land_spec, Z.bits_0, Z.pow2_bits_eqb by exact Hs.
    destruct (Z.eqb_spec s n) as [<-|]; [rewrite E; reflexivity|apply andb_false_r].
Qed.

Lemma digit_of_bits c : quadkey_digit c = true ->
  (if dig_x c then (if dig_y c then 51%N else 49%N) else if dig_y c then 50%N else 48%N) = c.
Proof.
  unfold quadkey_digit, dig_x, dig_y.
  destruct (N.eqb_spec c 48) as [->|]; [reflexivity|].
  destruct (N.eqb_spec c 49) as [->|]; [reflexivity|].
  destruct (N.eqb_spec c 50) as [->|]; [reflexivity|].
  destruct (N.eqb_spec c 51) as [->|]; [reflexivity|]. discriminate.
Qed.

Lemma nth_skipn_cons (k : bytes) : forall j, (j < length k)%nat -> nth j k 0%N :: skipn (S j) k = skipn j k.
Proof.
  induction k as [|c r IHk]; intros j Hj; [cbn in Hj; lia|].
  destruct j; [reflexivity|]. cbn [nth skipn]. cbn [length] in Hj. apply IHk. lia.
Qed.

(* the suffix k[j:] is reproduced from the bits *)
Lemma tilexy_suffix k x y : (length k <= 63)%nat -> forallb quadkey_digit k = true ->
  (forall j, (j < length k)%nat ->
     Z.testbit x (Z.of_nat (length k - 1 - j)) = dig_x (nth j k 0%N) /\
     Z.testbit y (Z.of_nat (length k - 1 - j)) = dig_y (nth j k 0%N)) ->
  forall i, (i <= length k)%nat -> tilexy_to_quadkey i x y = skipn (length k - i) k.
Proof.
  intros Hlen Hv Hbits. induction i as [|i IH]; intros Hi.
  - rewrite Nat.sub_0_r, skipn_all. reflexivity.
  - cbn [tilexy_to_quadkey]. rewrite IH by lia.
    rewrite mask64_small by lia. rewrite !land_pow2_test, !negb_involutive by lia.
    set (j := (length k - S i)%nat).
    destruct (Hbits j ltac:(lia)) as [Hx Hy].
    replace (length k - 1 - j)%nat with i in Hx, Hy by lia. rewrite Hx, Hy.
    assert (Hd : quadkey_digit (nth j k 0%N) = true).
    { rewrite forallb_forall in Hv. apply Hv. apply nth_In. lia. }
    rewrite (digit_of_bits _ Hd).
    replace (length k - i)%nat with (S j) by lia.
    apply nth_skipn_cons. lia.
Qed.

Lemma quadkey_roundtrip k x y z : (length k <= 63)%nat ->
  quadkey_to_tilexy k = Some (x, y, z) -> tilexy_to_quadkey (Z.to_nat z) x y = k.
Proof.
  intros Hlen H. pose proof (quadkey_level _ _ _ _ H) as ->. rewrite Nat2Z.id.
  destruct (quadkey_bits _ _ _ _ Hlen H) as [Hbits _].
  assert (Hv : forallb quadkey_digit k = true).
  { destruct (forallb quadkey_digit k) eqn:E; [reflexivity|].
    apply quadkey_panics_iff in E. rewrite E in H. discriminate. }
  rewrite (tilexy_suffix k x y Hlen Hv Hbits (length k) (le_n _)), Nat.sub_diag. reflexivity.
Qed.

(* above 64 digits the leading digits do not matter: int64(1 << (i-1)) is 0 there *)
Lemma quadkey_leading_ignored c k x y : (64 <= length k)%nat -> quadkey_digit c = true ->
  qk_loop (c :: k) x y = qk_loop k x y.
Proof.
  intros Hlen Hc. cbn [qk_loop].
  assert (Hm : mask64 (Z.of_nat (length (c :: k)) - 1) = 0).
  { cbn [length]. unfold mask64.
    destruct (Z.ltb_spec (Z.of_nat (S (length k)) - 1) 63); [lia|].
    destruct (Z.eqb_spec (Z.of_nat (S (length k)) - 1) 63); [lia|]. reflexivity. }
  rewrite Hm, !Z.lor_0_r. unfold quadkey_digit in Hc.
  destruct (c =? 48)%N; [reflexivity|]. destruct (c =? 49)%N; [reflexivity|].
  destruct (c =? 50)%N; [reflexivity|]. destruct (c =? 51)%N; [reflexivity|]. discriminate.
Qed.
