(* Lemmas about Model.Where: the transcribed Value.Less is the documented value order
   (kinds Null < False < Number < String < True < JSON, numbers numeric, strings ASCII
   case-insensitive, other kinds byte-wise), it is a strict weak order (NaN apart), and
   whereT.matchField is interval membership / the plain comparison under that order. *)
From T38 Require Import Base.Bytes Model.Where.
From Coq Require Import ZifyN ZifyNat ZifyBool.
Open Scope N_scope.

(* ---------- the documented order, stated independently of the Go code ---------- *)

Definition num_cmp (a b : num) : comparison :=
  match a, b with
  | NaN, _ => Eq                      (* unordered; excluded by hypotheses *)
  | _, NaN => Eq
  | NegInf, NegInf => Eq
  | NegInf, _ => Lt
  | _, NegInf => Gt
  | PosInf, PosInf => Eq
  | PosInf, _ => Gt
  | _, PosInf => Lt
  | Fin x, Fin y => Z.compare x y
  end.

Definition fold_case (s : bytes) : bytes := map to_lower s.

Definition vcompare (a b : value) : comparison :=
  match N.compare (kind_code (v_kind a)) (kind_code (v_kind b)) with
  | Eq =>
      match v_kind a with
      | KNumber => num_cmp (v_num a) (v_num b)
      | KString => bytes_cmp (fold_case (v_data a)) (fold_case (v_data b))
      | _ => bytes_cmp (v_data a) (v_data b)
      end
  | c => c
  end.

Definition num_is_nan (n : num) : bool := match n with NaN => true | _ => false end.
Definition is_nan (v : value) : bool := is_number (v_kind v) && num_is_nan (v_num v).

Definition is_lt (c : comparison) : bool := match c with Lt => true | _ => false end.
Definition is_le (c : comparison) : bool := match c with Gt => false | _ => true end.
Definition is_gt (c : comparison) : bool := match c with Gt => true | _ => false end.
Definition is_ge (c : comparison) : bool := match c with Lt => false | _ => true end.
Definition is_eq (c : comparison) : bool := match c with Eq => true | _ => false end.

(* lo <(=) v <(=) hi ; a flag set = that bound is exclusive *)
Definition in_interval (minx : bool) (lo : value) (maxx : bool) (hi : value) (v : value) : bool :=
  (if minx then is_lt (vcompare lo v) else is_le (vcompare lo v)) &&
  (if maxx then is_lt (vcompare v hi) else is_le (vcompare v hi)).

Definition is_op (d : bytes) : bool :=
  bytes_eqb d OP_LT || bytes_eqb d OP_LE || bytes_eqb d OP_GT || bytes_eqb d OP_GE ||
  bytes_eqb d OP_EQ || bytes_eqb d OP_NE.

(* ---------- kinds ---------- *)

Lemma kind_code_inj k1 k2 : kind_code k1 = kind_code k2 -> k1 = k2.
Proof. destruct k1, k2; cbn; intros H; try reflexivity; discriminate. Qed.

(* ---------- strings ---------- *)

Lemma ladder X Y (R : bool) :
  (if X <? Y then true else if Y <? X then false else R) =
  match N.compare X Y with Lt => true | Gt => false | Eq => R end.
Proof.
  destruct (N.compare_spec X Y) as [->|H|H].
  - rewrite N.ltb_irrefl. reflexivity.
  - destruct (N.ltb_spec X Y); [reflexivity | lia].
  - destruct (N.ltb_spec X Y); [lia|]. destruct (N.ltb_spec Y X); [reflexivity | lia].
Qed.

Lemma add_compare_r x y p : N.compare (x + p) (y + p) = N.compare x y.
Proof. destruct (N.compare_spec x y), (N.compare_spec (x + p) (y + p)); try reflexivity; lia. Qed.

Lemma cmp_cons_ltb X Y a b :
  match N.compare X Y with Lt => true | Gt => false | Eq => bytes_ltb a b end =
  bytes_ltb (X :: a) (Y :: b).
Proof. unfold bytes_ltb. cbn [bytes_cmp]. destruct (N.compare X Y); reflexivity. Qed.

(* stringLessInsensitive = byte-wise order of the ASCII-lower-cased strings *)
Lemma str_less_ci_spec a b : str_less_ci a b = bytes_ltb (fold_case a) (fold_case b).
Proof.
  revert b; induction a as [|x a IH]; intros [|y b]; try reflexivity.
  cbn [str_less_ci fold_case map]. fold (fold_case a) (fold_case b).
  rewrite <- cmp_cons_ltb, <- IH. unfold to_lower.
  destruct (is_upper x), (is_upper y); rewrite ladder; try reflexivity.
  rewrite add_compare_r. reflexivity.
Qed.

Lemma to_lower_idem c : to_lower (to_lower c) = to_lower c.
Proof.
  unfold to_lower. destruct (is_upper c) eqn:E; [|rewrite E; reflexivity].
  unfold is_upper in *. destruct ((65 <=? c + 32) && (c + 32 <=? 90)) eqn:E2; [lia | reflexivity].
Qed.

Lemma fold_case_idem s : fold_case (fold_case s) = fold_case s.
Proof. unfold fold_case. rewrite map_map. apply map_ext. exact to_lower_idem. Qed.

(* ---------- byte-wise order ---------- *)

Lemma bytes_ltb_irrefl a : bytes_ltb a a = false.
Proof. unfold bytes_ltb. rewrite bytes_cmp_refl. reflexivity. Qed.

Lemma bytes_ltb_trans a b c : bytes_ltb a b = true -> bytes_ltb b c = true -> bytes_ltb a c = true.
Proof.
  unfold bytes_ltb. intros H1 H2.
  destruct (bytes_cmp a b) eqn:E1; try discriminate.
  destruct (bytes_cmp b c) eqn:E2; try discriminate.
  rewrite (bytes_cmp_lt_trans _ _ _ E1 E2). reflexivity.
Qed.

Lemma bytes_ltb_cotrans a b c : bytes_ltb a c = true -> bytes_ltb a b = true \/ bytes_ltb b c = true.
Proof.
  unfold bytes_ltb. intros H.
  destruct (bytes_cmp a c) eqn:Eac; try discriminate.
  destruct (bytes_cmp a b) eqn:Eab.
  - apply bytes_cmp_eq in Eab. subst b. rewrite Eac. right; reflexivity.
  - left; reflexivity.
  - right. assert (Hba : bytes_cmp b a = Lt) by (rewrite bytes_cmp_antisym, Eab; reflexivity).
    rewrite (bytes_cmp_lt_trans _ _ _ Hba Eac). reflexivity.
Qed.

(* ---------- numbers ---------- *)

Lemma num_ltb_irrefl a : num_ltb a a = false.
Proof. destruct a; cbn; try reflexivity. apply Z.ltb_irrefl. Qed.

Lemma num_ltb_trans a b c : num_ltb a b = true -> num_ltb b c = true -> num_ltb a c = true.
Proof. destruct a, b, c; cbn; intros; try discriminate; try reflexivity; lia. Qed.

Lemma num_ltb_cotrans a b c :
  num_is_nan b = false -> num_ltb a c = true -> num_ltb a b = true \/ num_ltb b c = true.
Proof. destruct a, b, c; cbn; intros; try discriminate; auto; lia. Qed.

Lemma num_ltb_spec a b :
  num_is_nan a = false -> num_is_nan b = false -> num_ltb a b = is_lt (num_cmp a b).
Proof. destruct a, b; cbn; intros; try discriminate; try reflexivity. Qed.

Lemma num_cmp_antisym a b : num_cmp b a = CompOpp (num_cmp a b).
Proof. destruct a, b; cbn; try reflexivity. apply Z.compare_antisym. Qed.

(* ---------- Value.Less ---------- *)

Definition inner_less (k : kind) (a b : value) : bool :=
  match k with
  | KNumber => num_ltb (v_num a) (v_num b)
  | KString => str_less_ci (v_data a) (v_data b)
  | _ => bytes_ltb (v_data a) (v_data b)
  end.

Lemma value_less_unfold a b :
  value_less a b =
  match N.compare (kind_code (v_kind a)) (kind_code (v_kind b)) with
  | Lt => true | Gt => false | Eq => inner_less (v_kind a) a b
  end.
Proof.
  unfold value_less, value_less_case.
  destruct (N.compare_spec (kind_code (v_kind a)) (kind_code (v_kind b))) as [E|H|H].
  - rewrite E, N.ltb_irrefl. destruct (v_kind a); reflexivity.
  - destruct (N.ltb_spec (kind_code (v_kind a)) (kind_code (v_kind b))); [reflexivity | lia].
  - destruct (N.ltb_spec (kind_code (v_kind a)) (kind_code (v_kind b))); [lia|].
    destruct (N.ltb_spec (kind_code (v_kind b)) (kind_code (v_kind a))); [reflexivity | lia].
Qed.

Lemma inner_less_irrefl k a : inner_less k a a = false.
Proof.
  destruct k; cbn; try apply bytes_ltb_irrefl; [apply num_ltb_irrefl|].
  rewrite str_less_ci_spec. apply bytes_ltb_irrefl.
Qed.

Lemma inner_less_trans k a b c :
  inner_less k a b = true -> inner_less k b c = true -> inner_less k a c = true.
Proof.
  destruct k; cbn; try apply bytes_ltb_trans; [apply num_ltb_trans|].
  rewrite !str_less_ci_spec. apply bytes_ltb_trans.
Qed.

Lemma inner_less_cotrans k a b c :
  v_kind b = k -> is_nan b = false ->
  inner_less k a c = true -> inner_less k a b = true \/ inner_less k b c = true.
Proof.
  unfold is_nan. intros Hk Hn. rewrite Hk in Hn.
  destruct k; cbn in *; try apply bytes_ltb_cotrans; [apply num_ltb_cotrans; exact Hn|].
  rewrite !str_less_ci_spec. apply bytes_ltb_cotrans.
Qed.

Theorem value_less_irrefl a : value_less a a = false.
Proof. rewrite value_less_unfold, N.compare_refl. apply inner_less_irrefl. Qed.

Theorem value_less_trans a b c :
  value_less a b = true -> value_less b c = true -> value_less a c = true.
Proof.
  rewrite !value_less_unfold.
  destruct (N.compare_spec (kind_code (v_kind a)) (kind_code (v_kind b))) as [E1|H1|H1]; try discriminate;
  destruct (N.compare_spec (kind_code (v_kind b)) (kind_code (v_kind c))) as [E2|H2|H2]; try discriminate;
  destruct (N.compare_spec (kind_code (v_kind a)) (kind_code (v_kind c))) as [E3|H3|H3]; try lia; try reflexivity.
  apply kind_code_inj in E1. rewrite <- E1. apply inner_less_trans.
Qed.

Theorem value_less_asym a b : value_less a b = true -> value_less b a = false.
Proof.
  intros H. destruct (value_less b a) eqn:E; [|reflexivity].
  rewrite <- (value_less_irrefl a). symmetry. exact (value_less_trans _ _ _ H E).
Qed.

(* negative transitivity: what makes "neither is less" an equivalence *)
Theorem value_less_cotrans a b c :
  is_nan b = false -> value_less a c = true -> value_less a b = true \/ value_less b c = true.
Proof.
  intros Hn. rewrite !value_less_unfold.
  destruct (N.compare_spec (kind_code (v_kind a)) (kind_code (v_kind c))) as [E3|H3|H3]; try discriminate;
  destruct (N.compare_spec (kind_code (v_kind a)) (kind_code (v_kind b))) as [E1|H1|H1]; auto;
  destruct (N.compare_spec (kind_code (v_kind b)) (kind_code (v_kind c))) as [E2|H2|H2]; auto; try lia.
  apply kind_code_inj in E1. rewrite <- E1. apply inner_less_cotrans; auto.
Qed.

Theorem value_equals_trans a b c :
  is_nan b = false ->
  value_equals a b = true -> value_equals b c = true -> value_equals a c = true.
Proof.
  unfold value_equals. intros Hn H1 H2.
  apply andb_true_iff in H1 as [H1a H1b]. apply andb_true_iff in H2 as [H2a H2b].
  apply negb_true_iff in H1a, H1b, H2a, H2b.
  apply andb_true_iff; split; apply negb_true_iff.
  - destruct (value_less a c) eqn:E; [|reflexivity].
    destruct (value_less_cotrans a b c Hn E); congruence.
  - destruct (value_less c a) eqn:E; [|reflexivity].
    destruct (value_less_cotrans c b a Hn E); congruence.
Qed.

Theorem value_trichotomy a b :
  value_less a b = true \/ value_equals a b = true \/ value_less b a = true.
Proof.
  unfold value_equals. destruct (value_less a b); [left; reflexivity|].
  destruct (value_less b a); [right; right; reflexivity | right; left; reflexivity].
Qed.

(* the hypothesis on NaN cannot be dropped: 1 "equals" NaN "equals" 2 *)
Lemma equals_nan_intransitive :
  exists a b c, value_equals a b = true /\ value_equals b c = true /\ value_equals a c = false.
Proof.
  exists {| v_kind := KNumber; v_data := [49]; v_num := Fin 1000 |},
         {| v_kind := KNumber; v_data := [78; 97; 78]; v_num := NaN |},
         {| v_kind := KNumber; v_data := [50]; v_num := Fin 2000 |}.
  vm_compute. auto.
Qed.

Theorem less_strict_order :
  (forall a, value_less a a = false) /\
  (forall a b c, value_less a b = true -> value_less b c = true -> value_less a c = true) /\
  (forall a b, value_less a b = true -> value_less b a = false) /\
  (forall a b c, is_nan b = false ->
     value_equals a b = true -> value_equals b c = true -> value_equals a c = true) /\
  (forall a b, value_less a b = true \/ value_equals a b = true \/ value_less b a = true).
Proof.
  repeat split.
  - exact value_less_irrefl.
  - exact value_less_trans.
  - exact value_less_asym.
  - exact value_equals_trans.
  - exact value_trichotomy.
Qed.

(* ---------- Less against the documented order ---------- *)

Theorem value_less_spec a b :
  is_nan a = false -> is_nan b = false -> value_less a b = is_lt (vcompare a b).
Proof.
  unfold is_nan, vcompare. intros Ha Hb. rewrite value_less_unfold.
  destruct (N.compare_spec (kind_code (v_kind a)) (kind_code (v_kind b))) as [E|H|H]; try reflexivity.
  apply kind_code_inj in E. rewrite <- E in Hb.
  destruct (v_kind a); cbn in *; try reflexivity.
  - apply num_ltb_spec; assumption.
  - apply str_less_ci_spec.
Qed.

Lemma vcompare_antisym a b : vcompare b a = CompOpp (vcompare a b).
Proof.
  unfold vcompare. rewrite (N.compare_antisym (kind_code (v_kind a)) (kind_code (v_kind b))).
  destruct (N.compare_spec (kind_code (v_kind a)) (kind_code (v_kind b))) as [E|H|H]; try reflexivity.
  apply kind_code_inj in E. rewrite <- E. cbn [CompOpp].
  destruct (v_kind a); try apply bytes_cmp_antisym. apply num_cmp_antisym.
Qed.

Theorem value_equals_spec a b :
  is_nan a = false -> is_nan b = false -> value_equals a b = is_eq (vcompare a b).
Proof.
  intros Ha Hb. unfold value_equals.
  rewrite (value_less_spec a b Ha Hb), (value_less_spec b a Hb Ha), (vcompare_antisym a b).
  destruct (vcompare a b); reflexivity.
Qed.

(* ---------- matchField ---------- *)

Lemma is_op_false d :
  is_op d = false ->
  bytes_eqb d OP_LT = false /\ bytes_eqb d OP_LE = false /\ bytes_eqb d OP_GT = false /\
  bytes_eqb d OP_GE = false /\ bytes_eqb d OP_EQ = false /\ bytes_eqb d OP_NE = false.
Proof. unfold is_op. intros H. repeat (apply orb_false_iff in H as [H ?]). auto 10. Qed.

(* the min/max form: interval membership with the two exclusivity flags *)
Theorem where_range_spec w v :
  is_op (v_data (w_min w)) = false ->
  is_nan (w_min w) = false -> is_nan (w_max w) = false -> is_nan v = false ->
  match_field w v = in_interval (w_minx w) (w_min w) (w_maxx w) (w_max w) v.
Proof.
  intros Hop Hlo Hhi Hv. apply is_op_false in Hop as (H1 & H2 & H3 & H4 & H5 & H6).
  unfold match_field. rewrite H1, H2, H3, H4, H5, H6.
  unfold in_interval, mLTE, mGTE, mGT, mLT.
  rewrite (value_less_spec v (w_min w) Hv Hlo), (value_less_spec (w_min w) v Hlo Hv),
          (value_less_spec v (w_max w) Hv Hhi), (value_less_spec (w_max w) v Hhi Hv).
  rewrite (vcompare_antisym (w_min w) v), (vcompare_antisym v (w_max w)).
  destruct (w_minx w), (w_maxx w), (vcompare (w_min w) v), (vcompare v (w_max w)); reflexivity.
Qed.

(* the operator forms: the plain comparison of the field value with the operand *)
Theorem where_ops_spec w v :
  is_nan (w_max w) = false -> is_nan v = false ->
  (v_data (w_min w) = OP_LT -> match_field w v = is_lt (vcompare v (w_max w))) /\
  (v_data (w_min w) = OP_LE -> match_field w v = is_le (vcompare v (w_max w))) /\
  (v_data (w_min w) = OP_GT -> match_field w v = is_gt (vcompare v (w_max w))) /\
  (v_data (w_min w) = OP_GE -> match_field w v = is_ge (vcompare v (w_max w))) /\
  (v_data (w_min w) = OP_EQ -> match_field w v = is_eq (vcompare v (w_max w))) /\
  (v_data (w_min w) = OP_NE -> match_field w v = negb (is_eq (vcompare v (w_max w)))).
Proof.
  intros Hhi Hv.
  repeat split; intros Hd; unfold match_field; rewrite Hd; cbn [bytes_eqb OP_LT OP_LE OP_GT OP_GE OP_EQ OP_NE N.eqb Pos.eqb andb];
  unfold mLTE, mGTE, mGT, mLT, mEQ;
  rewrite ?(value_equals_spec v (w_max w) Hv Hhi),
          ?(value_less_spec v (w_max w) Hv Hhi), ?(value_less_spec (w_max w) v Hhi Hv);
  rewrite ?(vcompare_antisym v (w_max w)); destruct (vcompare v (w_max w)); reflexivity.
Qed.

(* WHEREIN: some listed value is equal to the field value *)
Theorem wherein_spec vals v :
  wherein_match vals v = existsb (fun val => value_equals val v) vals.
Proof.
  induction vals as [|x vals IH]; cbn; [reflexivity|].
  unfold mEQ. destruct (value_equals x v); [reflexivity | exact IH].
Qed.

(* lower-casing a bound (where_make) leaves every comparison unchanged when the bound is a String
   or a Number, or when its data is lower-case already (true / false / null, lower-case JSON) *)
Definition lower_safe (a : value) : Prop :=
  v_kind a = KString \/ v_kind a = KNumber \/ fold_case (v_data a) = v_data a.

Lemma vcompare_lower_l a b : lower_safe a -> vcompare (lower_value a) b = vcompare a b.
Proof.
  unfold vcompare, lower_value. cbn [v_kind v_data v_num]. fold (fold_case (v_data a)).
  intros [K|[K|K]]; rewrite ?K; try reflexivity.
  rewrite fold_case_idem. reflexivity.
Qed.

Lemma vcompare_lower_r a b : lower_safe a -> vcompare b (lower_value a) = vcompare b a.
Proof.
  intros H. rewrite (vcompare_antisym (lower_value a) b), (vcompare_antisym a b), vcompare_lower_l; auto.
Qed.

Theorem where_make_interval minx lo maxx hi v :
  lower_safe lo -> lower_safe hi ->
  in_interval minx (lower_value lo) maxx (lower_value hi) v = in_interval minx lo maxx hi v.
Proof.
  intros Hlo Hhi. unfold in_interval. rewrite vcompare_lower_l, vcompare_lower_r; auto.
Qed.

(* ... and it does change the verdict for a JSON bound with an upper-case letter:
   WHERE f == {"A":1} does not keep the object whose f is {"A":1} *)
Lemma where_make_json_case :
  let j := {| v_kind := KJSON; v_data := [123; 34; 65; 34; 58; 49; 125]; v_num := Fin 0 |} in
  let op := {| v_kind := KString; v_data := OP_EQ; v_num := Fin 0 |} in
  match_field (where_make false op false j) j = false /\ value_equals j j = true.
Proof. vm_compute. auto. Qed.

(* ---------- the whole filter, COUNT and DESC ---------- *)

Lemma filter_rev {A} (f : A -> bool) l : filter f (rev l) = rev (filter f l).
Proof.
  induction l as [|x l IH]; cbn; [reflexivity|].
  rewrite filter_app, IH. cbn. destruct (f x); cbn; [reflexivity | apply app_nil_r].
Qed.

Theorem scan_desc_reverses objs ws wis :
  scan_ids true objs ws wis = rev (scan_ids false objs ws wis).
Proof. unfold scan_ids. rewrite filter_rev, map_rev. reflexivity. Qed.

Theorem scan_count_ids desc objs ws wis :
  scan_count desc objs ws wis = length (scan_ids desc objs ws wis).
Proof. unfold scan_count, scan_ids. rewrite map_length. reflexivity. Qed.

Theorem scan_count_dir objs ws wis :
  scan_count true objs ws wis = scan_count false objs ws wis.
Proof. unfold scan_count. rewrite filter_rev, rev_length. reflexivity. Qed.

(* an object is returned iff every WHERE and every WHEREIN accepts its (defaulted) field value *)
Theorem field_match_spec ws wis fs :
  field_match ws wis fs =
  forallb (fun nw => match_field (snd nw) (get_field fs (fst nw))) ws &&
  forallb (fun nv => wherein_match (snd nv) (get_field fs (fst nv))) wis.
Proof.
  unfold field_match.
  assert (H1 : wheres_match ws fs = forallb (fun nw => match_field (snd nw) (get_field fs (fst nw))) ws).
  { induction ws as [|[n w] ws IH]; cbn; [reflexivity|].
    destruct (match_field w (get_field fs n)); cbn; [exact IH | reflexivity]. }
  assert (H2 : whereins_match wis fs = forallb (fun nv => wherein_match (snd nv) (get_field fs (fst nv))) wis).
  { induction wis as [|[n vs] wis IH]; cbn; [reflexivity|].
    destruct (wherein_match vs (get_field fs n)); cbn; [exact IH | reflexivity]. }
  rewrite H1, H2. destruct (forallb _ ws); reflexivity.
Qed.

Theorem get_field_missing fs name :
  (forall n v, In (n, v) fs -> n <> name) -> get_field fs name = ZeroValue.
Proof.
  induction fs as [|[n v] fs IH]; cbn; intros H; [reflexivity|].
  destruct (bytes_eqb n name) eqn:E.
  - apply bytes_eqb_eq in E. exfalso. exact (H n v (or_introl eq_refl) E).
  - apply IH. intros n' v' Hin. apply (H n' v'). right; exact Hin.
Qed.
