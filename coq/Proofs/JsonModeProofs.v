(* C17 — the output mode of a reply does not depend on how commands are split into packets, and a
   JSON-mode subscriber always receives a JSON value. *)
From T38 Require Import Base.Bytes Base.Utf8 Model.Json Model.JsonMode Proofs.JsonProofs.
Open Scope N_scope.

From T38 Require Gen.Templates.

(* the tie to the source: handleInputCommand's HELLO branch restores msg.OutputType *)
Lemma hello_restores_in_source : Gen.Templates.hello_restores_output = true.
Proof. reflexivity. Qed.

(* the mode the connection is left in after a list of commands *)
Fixpoint final_mode (cur : omode) (msgs : list pcmd) : omode :=
  match msgs with
  | [] => cur
  | POutput t :: r => final_mode t r
  | _ :: r => final_mode cur r
  end.

Lemma serve_packet_r_spec dflt parsed msgs : forall c,
  serve_packet_r true dflt parsed c msgs =
  (match msgs with [] => c | _ => Some (final_mode (initial_mode dflt parsed c) msgs) end,
   spec_modes dflt parsed (initial_mode dflt parsed c) msgs).
Proof.
  induction msgs as [|x r IH]; intros c; [reflexivity|].
  cbn [serve_packet_r]. unfold serve_msg_r.
  fold (initial_mode dflt parsed c).
  set (m := initial_mode dflt parsed c).
  destruct x as [t|d|].
  - rewrite IH. cbn [initial_mode spec_modes final_mode]. destruct r; reflexivity.
  - cbn [spec_modes final_mode].
    destruct (hello_resp dflt parsed m d); rewrite IH; cbn [initial_mode]; destruct r; reflexivity.
  - rewrite IH. cbn [initial_mode spec_modes final_mode]. destruct r; reflexivity.
Qed.

Lemma spec_modes_app dflt parsed cur a b :
  spec_modes dflt parsed cur (a ++ b) =
  spec_modes dflt parsed cur a ++ spec_modes dflt parsed (final_mode cur a) b.
Proof.
  revert cur; induction a as [|x r IH]; intros cur; [reflexivity|].
  destruct x as [t|d|]; cbn [app spec_modes final_mode]; rewrite IH; reflexivity.
Qed.

Lemma serve_r_spec dflt parsed packets : forall c,
  serve_r true dflt parsed c packets = spec_modes dflt parsed (initial_mode dflt parsed c) (concat packets).
Proof.
  induction packets as [|p ps IH]; intros c; [reflexivity|].
  cbn [serve_r concat]. rewrite serve_packet_r_spec, IH, spec_modes_app.
  f_equal. destruct p as [|x r]; reflexivity.
Qed.

Theorem serve_spec_proof : forall dflt parsed packets c,
  serve dflt parsed c packets = spec_modes dflt parsed (initial_mode dflt parsed c) (concat packets).
Proof.
  intros. unfold serve. rewrite hello_restores_in_source. apply serve_r_spec.
Qed.

Theorem serve_packet_independent_proof : forall dflt parsed c ps qs,
  concat ps = concat qs -> serve dflt parsed c ps = serve dflt parsed c qs.
Proof. intros. rewrite !serve_spec_proof. congruence. Qed.

(* after an acknowledged switch the next reply is in the new mode, wherever the packet ends *)
Lemma after_output_proof : forall dflt parsed c t,
  serve dflt parsed c [[POutput t; POther]] = [t; t] /\ serve dflt parsed c [[POutput t]; [POther]] = [t; t].
Proof. intros. rewrite !serve_spec_proof. split; reflexivity. Qed.

Lemma hoisted_refuted :
  serve_hoisted None OResp None [[POutput OJson; POther]; [POther]] <> serve None OResp None [[POutput OJson; POther]; [POther]].
Proof. vm_compute. discriminate. Qed.

(* HELLO 3 on a server started with -o json: answered in RESP, and the next command is answered in
   JSON again, in the same packet or in the next one *)
Lemma hello_leaves_mode_proof :
  serve (Some OJson) OResp None [[PHello true; POther]] = [OResp; OJson] /\
  serve (Some OJson) OResp None [[PHello true]; [POther]] = [OResp; OJson] /\
  serve (Some OJson) OResp None [[PHello false; POther]] = [OJson; OJson] /\
  serve None OResp None [[POutput OJson; PHello true; POther]] = [OJson; OJson; OJson].
Proof. rewrite !serve_spec_proof. repeat split. Qed.

(* without the restore (seeded change C17/11) the RESP setting of the one HELLO reply sticks: netServe
   writes it back into client.outputType and every later reply of the connection is RESP *)
Lemma hello_no_restore_refuted :
  serve_r false (Some OJson) OResp None [[PHello true]; [POther]] <>
  spec_modes (Some OJson) OResp (initial_mode (Some OJson) OResp None) (concat [[PHello true]; [POther]]) /\
  serve_r false (Some OJson) OResp None [[PHello true]; [POther]] = [OResp; OResp].
Proof. split; [vm_compute; discriminate | reflexivity]. Qed.

(* ---------- pub/sub ---------- *)

Theorem sub_msg_valid_proof : forall p, valid_json (sub_msg p) = true.
Proof.
  intros p. unfold sub_msg. destruct (valid_json p) eqn:E; [exact E | apply json_string_valid_proof].
Qed.

Lemma sub_msg_delims_refuted : exists p, valid_json (sub_msg_delims p) = false.
Proof. exists [123; 120; 125]. vm_compute. reflexivity. Qed.
