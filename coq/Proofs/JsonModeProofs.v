(* C17 — the output mode of a reply does not depend on how commands are split into packets, and a
   JSON-mode subscriber always receives a JSON value. *)
From T38 Require Import Base.Bytes Base.Utf8 Model.Json Model.JsonMode Proofs.JsonProofs.
Open Scope N_scope.

Lemma serve_packet_spec dflt parsed msgs : forall c,
  serve_packet dflt parsed c msgs =
  (match msgs with [] => c | _ => Some (last (spec_modes (initial_mode dflt parsed c) msgs) OJson) end,
   spec_modes (initial_mode dflt parsed c) msgs).
Proof.
  induction msgs as [|x r IH]; intros c; [reflexivity|].
  cbn [serve_packet]. unfold serve_msg.
  fold (initial_mode dflt parsed c).
  set (m := initial_mode dflt parsed c).
  destruct x as [t|].
  - rewrite IH. cbn [initial_mode spec_modes]. destruct r as [|y r']; [reflexivity|].
    f_equal. f_equal. cbn [spec_modes]. destruct y; reflexivity.
  - rewrite IH. cbn [initial_mode spec_modes]. destruct r as [|y r']; [reflexivity|].
    f_equal. f_equal. cbn [spec_modes]. destruct y; reflexivity.
Qed.

Lemma spec_modes_app cur a b :
  spec_modes cur (a ++ b) =
  spec_modes cur a ++ spec_modes (match a with [] => cur | _ => last (spec_modes cur a) OJson end) b.
Proof.
  revert cur; induction a as [|x r IH]; intros cur; [reflexivity|].
  destruct x as [t|]; cbn [app spec_modes]; rewrite IH; f_equal;
    (destruct r as [|y r']; [reflexivity|]); f_equal; cbn [spec_modes]; destruct y; reflexivity.
Qed.

Theorem serve_spec_proof : forall dflt parsed packets c,
  serve dflt parsed c packets = spec_modes (initial_mode dflt parsed c) (concat packets).
Proof.
  intros dflt parsed packets. induction packets as [|p ps IH]; intros c; [reflexivity|].
  cbn [serve concat]. rewrite serve_packet_spec, IH, spec_modes_app.
  f_equal. destruct p as [|x r]; reflexivity.
Qed.

Theorem serve_packet_independent_proof : forall dflt parsed c ps qs,
  concat ps = concat qs -> serve dflt parsed c ps = serve dflt parsed c qs.
Proof. intros. rewrite !serve_spec_proof. congruence. Qed.

(* after an acknowledged switch the next reply is in the new mode, wherever the packet ends *)
Lemma after_output_proof : forall dflt parsed c t,
  serve dflt parsed c [[POutput t; POther]] = [t; t] /\ serve dflt parsed c [[POutput t]; [POther]] = [t; t].
Proof. intros. rewrite !serve_spec_proof. split; reflexivity. Qed.

Lemma hoisted_refuted :
  serve_hoisted None OResp None [[POutput OJson; POther]; [POther]] <> serve None OResp None [[POutput OJson; POther]; [POther]].
Proof. vm_compute. discriminate. Qed.

(* ---------- pub/sub ---------- *)

Theorem sub_msg_valid_proof : forall p, valid_json (sub_msg p) = true.
Proof.
  intros p. unfold sub_msg. destruct (valid_json p) eqn:E; [exact E | apply json_string_valid_proof].
Qed.

Lemma sub_msg_delims_refuted : exists p, valid_json (sub_msg_delims p) = false.
Proof. exists [123; 120; 125]. vm_compute. reflexivity. Qed.
