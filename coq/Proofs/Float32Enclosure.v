(* Proofs/Float32Enclosure.v — "outward rounding" in the literal sense, where it does hold:
   for every finite double x whose magnitude is at least the smallest normal float32 (2^-126) and
   whose float32 conversion does not overflow,  rtreeValueDown x <= x <= rtreeValueUp x.
   (Outside that range it is false: Proofs/SearchProofs.enclosure_refuted.) *)
From Coq Require Import ZArith Reals Psatz Bool.
From Flocq Require Import Core BinarySingleNaN.
From T38 Require Import Model.Float32 Proofs.Float32Proofs.
Local Open Scope R_scope.

Arguments down : simpl never.
Arguments up : simpl never.

Local Instance fexp32_valid : Valid_exp fexp32.
Proof. apply FLT_exp_valid. exact Hprec32. Qed.
Local Instance fexp64_valid : Valid_exp fexp64.
Proof. apply FLT_exp_valid. exact Hprec64. Qed.

Definition dn32 (r : R) : R := round radix2 fexp32 Zfloor r.
Definition up32 (r : R) : R := round radix2 fexp32 Zceil r.

Lemma bpow_m23 : bpow radix2 (-23) = / 8388608.
Proof. change (bpow radix2 (-23)) with (/ IZR (Z.pow_pos 2 23)). change (Z.pow_pos 2 23) with 8388608%Z. reflexivity. Qed.

(* one float32 ulp of a value in the normal range is at most |r| * 2^-23 *)
Lemma ulp32_le (r : R) : bpow radix2 (-126) <= Rabs r -> ulp radix2 fexp32 r <= Rabs r * / 8388608.
Proof.
  intros Hr.
  assert (r <> 0) as Hnz.
  { intros Z. rewrite Z, Rabs_R0 in Hr. pose proof (bpow_gt_0 radix2 (-126)). lra. }
  rewrite ulp_neq_0 by exact Hnz. unfold cexp.
  assert ((-125 <= mag radix2 r)%Z) as Hm by (apply mag_ge_bpow; exact Hr).
  unfold fexp32, FLT_exp. rewrite Z.max_l by lia.
  replace (mag radix2 r - 24)%Z with ((mag radix2 r - 1) + (-23))%Z by lia.
  rewrite bpow_plus, bpow_m23.
  apply Rmult_le_compat_r; [lra|]. apply bpow_mag_le. exact Hnz.
Qed.

Lemma dn32_close (r : R) : bpow radix2 (-126) <= Rabs r ->
  dn32 r <= r /\ r - Rabs r * / 8388608 < dn32 r.
Proof.
  intros Hr.
  assert (r <> 0) as Hnz.
  { intros Z. rewrite Z, Rabs_R0 in Hr. pose proof (bpow_gt_0 radix2 (-126)). lra. }
  pose proof (round_DN_pt radix2 fexp32 r) as (_ & Hle & _). fold (dn32 r) in Hle.
  pose proof (error_lt_ulp radix2 fexp32 Zfloor r Hnz) as E. fold (dn32 r) in E.
  pose proof (ulp32_le r Hr) as U.
  split; [exact Hle|]. rewrite Rabs_left1 in E by lra. lra.
Qed.

Lemma up32_close (r : R) : bpow radix2 (-126) <= Rabs r ->
  r <= up32 r /\ up32 r < r + Rabs r * / 8388608.
Proof.
  intros Hr.
  assert (r <> 0) as Hnz.
  { intros Z. rewrite Z, Rabs_R0 in Hr. pose proof (bpow_gt_0 radix2 (-126)). lra. }
  pose proof (round_UP_pt radix2 fexp32 r) as (_ & Hle & _). fold (up32 r) in Hle.
  pose proof (error_lt_ulp radix2 fexp32 Zceil r Hnz) as E. fold (up32 r) in E.
  pose proof (ulp32_le r Hr) as U.
  split; [exact Hle|]. rewrite Rabs_pos_eq in E by lra. lra.
Qed.

Lemma gen32_dn r : generic_format radix2 fexp32 (dn32 r).
Proof. apply generic_format_round; auto with typeclass_instances. Qed.
Lemma gen32_up r : generic_format radix2 fexp32 (up32 r).
Proof. apply generic_format_round; auto with typeclass_instances. Qed.

(* every float32 value is a float64 value *)
Lemma gen32_64 r : generic_format radix2 fexp32 r -> generic_format radix2 fexp64 r.
Proof.
  apply generic_inclusion_mag. intros _. unfold fexp32, fexp64, FLT_exp. lia.
Qed.

Lemma rnd32_gen r : generic_format radix2 fexp32 r -> rnd32 r = r.
Proof. intros G. apply round_generic; auto with typeclass_instances. Qed.
Lemma rnd64_gen r : generic_format radix2 fexp64 r -> rnd64 r = r.
Proof. intros G. apply round_generic; auto with typeclass_instances. Qed.

Lemma gen32_M32 : generic_format radix2 fexp32 M32.
Proof. apply generic_format_bpow. unfold fexp32, FLT_exp. cbn. lia. Qed.

Lemma abs_lt_M32 r : Rabs (rnd32 r) < M32 -> Rabs r < M32.
Proof.
  intros H. destruct (Rlt_or_le (Rabs r) M32) as [L|L]; auto. exfalso.
  pose proof M32_pos as G.
  destruct (Rle_or_lt 0 r) as [P|N].
  - rewrite Rabs_pos_eq in L by exact P.
    assert (M32 <= rnd32 r) as Q.
    { apply round_ge_generic; auto with typeclass_instances. apply gen32_M32. }
    rewrite Rabs_pos_eq in H by lra. lra.
  - rewrite Rabs_left in L by exact N.
    assert (rnd32 r <= - M32) as Q.
    { apply round_le_generic; auto with typeclass_instances.
      apply generic_format_opp. apply gen32_M32. lra. }
    rewrite Rabs_left1 in H by lra. lra.
Qed.

Lemma dn32_ge r : - M32 <= r -> - M32 <= dn32 r.
Proof.
  intros H. apply round_ge_generic; auto with typeclass_instances.
  apply generic_format_opp. apply gen32_M32.
Qed.
Lemma up32_le r : r <= M32 -> up32 r <= M32.
Proof.
  intros H. apply round_le_generic; auto with typeclass_instances. apply gen32_M32.
Qed.

Lemma clamp_le M v : - M <= v -> clamp M v <= v.
Proof. intros H. unfold clamp. apply Rmax_lub; [exact H | apply Rmin_l]. Qed.
Lemma clamp_ge M v : 0 <= M -> v <= M -> v <= clamp M v.
Proof.
  intros H0 H. unfold clamp. rewrite Rmin_left by exact H. apply Rmax_r.
Qed.

(* float64(f) is exact *)
Lemma to64_exact (f : f32) : is_finite f = true -> is_finite (to64 f) = true /\ B2R (to64 f) = B2R f.
Proof.
  destruct f as [s|s| |s m e H]; try discriminate; intros _.
  - split; reflexivity.
  - cbn [to64].
    set (fr := B2R (B754_finite s m e H : f32)).
    pose proof (binary_normalize_correct 53 1024 Hprec64 Hmax64 mode_NE (cond_Zopp s (Zpos m)) e s) as C.
    cbv zeta in C. change (F2R (Float radix2 (cond_Zopp s (Z.pos m)) e)) with fr in C.
    change (round radix2 (SpecFloat.fexp 53 1024) (round_mode mode_NE) fr) with (rnd64 fr) in C.
    assert (rnd64 fr = fr) as E.
    { apply rnd64_gen. apply gen32_64. apply (generic_format_B2R 24 128). }
    rewrite E in C. rewrite Rlt_bool_true in C.
    + destruct C as (C1 & C2 & _). split; assumption.
    + pose proof (abs_B2R_lt_emax 24 128 (B754_finite s m e H)) as A. fold fr in A.
      apply Rlt_le_trans with (1 := A). apply bpow_le. lia.
Qed.

(* float32(d) does not overflow: its value is the rounding *)
Lemma to32_finite (x : f64) : is_finite x = true -> is_finite (to32 x) = true ->
  B2R (to32 x) = rnd32 (B2R x) /\ Rabs (rnd32 (B2R x)) < M32.
Proof.
  pose proof M32_pos as G.
  destruct x as [s|s| |s m e H]; try discriminate; intros _ F.
  - cbn. rewrite rnd32_0, Rabs_R0. split; [reflexivity | exact G].
  - cbn [to32] in *.
    set (xr := B2R (B754_finite s m e H : f64)).
    pose proof (binary_normalize_correct 24 128 Hprec32 Hmax32 mode_NE (cond_Zopp s (Zpos m)) e s) as C.
    cbv zeta in C. change (F2R (Float radix2 (cond_Zopp s (Z.pos m)) e)) with xr in C.
    change (round radix2 (SpecFloat.fexp 24 128) (round_mode mode_NE) xr) with (rnd32 xr) in C.
    destruct (Rlt_bool_spec (Rabs (rnd32 xr)) (bpow radix2 128)) as [Hlt|Hge].
    + destruct C as (C1 & _). split; [exact C1 | exact Hlt].
    + exfalso. unfold binary_overflow in C. cbn [overflow_to_inf] in C.
      destruct (binary_normalize 24 128 Hprec32 Hmax32 mode_NE (cond_Zopp s (Z.pos m)) e s); discriminate.
Qed.

Section Enclosure.
  Variable x : f64.
  Hypothesis Fx : is_finite x = true.
  Hypothesis Hlo : bpow radix2 (-126) <= Rabs (B2R x).
  Hypothesis F32 : is_finite (to32 x) = true.

  Let r := B2R x.

  Lemma r_range : - M32 < r < M32.
  Proof.
    destruct (to32_finite x Fx F32) as [_ A]. apply abs_lt_M32 in A.
    apply Rabs_lt_inv in A. exact A.
  Qed.

  Lemma r_nz : r <> 0.
  Proof.
    intros Z. unfold r in Z. rewrite Z, Rabs_R0 in Hlo. pose proof (bpow_gt_0 radix2 (-126)). lra.
  Qed.

  (* the nudge product towards -infinity is at most the float32 below x *)
  Lemma mul_down_dn :
    let p := if lt64 x zero64 then mul64 x c_away else mul64 x c_towards in
    nonnan p /\ ext64 p <= dn32 r.
  Proof.
    cbv zeta.
    destruct c_towards_spec as (T1 & T2 & T3). destruct c_away_spec as (A1 & A2 & A3).
    pose proof r_range as RR. pose proof r_nz as NZ.
    pose proof M32_pos as G32. pose proof M32_le_M64 as GL.
    destruct (dn32_close r Hlo) as [D1 D2].
    pose proof (dn32_ge r ltac:(lra)) as D3.
    assert (rnd64 (dn32 r) = dn32 r) as E by (apply rnd64_gen, gen32_64, gen32_dn).
    destruct (lt64 x zero64) eqn:L.
    - apply (lt64_zero_spec x Fx) in L. fold r in L.
      pose proof (Bmult_correct 53 1024 Hprec64 Hmax64 mode_NE x c_away) as C.
      change (round radix2 (SpecFloat.fexp 53 1024) (round_mode mode_NE) (B2R x * B2R c_away)) with (rnd64 (B2R x * B2R c_away)) in C.
      fold r in C. rewrite A3 in C.
      assert (Hle : rnd64 (r * (1 + / 8388608)) <= dn32 r).
      { rewrite <- E. apply rnd64_mono. rewrite Rabs_left in D2 by exact L. lra. }
      destruct (Rlt_bool_spec (Rabs (rnd64 (r * (1 + / 8388608)))) (bpow radix2 1024)) as [Hlt|Hge].
      + destruct C as (C1 & C2 & _). rewrite Fx, A1 in C2. change (true && true)%bool with true in C2.
        unfold mul64. split; [apply finite_nonnan; exact C2|]. rewrite (ext_finite _ _ _ C2), C1. exact Hle.
      + unfold binary_overflow in C. cbn [overflow_to_inf] in C. rewrite A2, (Bsign_neg x Fx L) in C. cbn in C.
        unfold mul64. destruct (Bmult mode_NE x c_away) as [s'|s'| |s' m' e' H']; try discriminate.
        inversion C. split; [reflexivity|]. cbn [ext]. fold M64. lra.
    - assert (0 < r) as P.
      { destruct (Rlt_or_le r 0) as [N|N]; [apply (lt64_zero_spec x Fx) in N; congruence | lra]. }
      pose proof (Bmult_correct 53 1024 Hprec64 Hmax64 mode_NE x c_towards) as C.
      change (round radix2 (SpecFloat.fexp 53 1024) (round_mode mode_NE) (B2R x * B2R c_towards)) with (rnd64 (B2R x * B2R c_towards)) in C.
      fold r in C. rewrite T3 in C.
      assert (Hle : rnd64 (r * (1 - / 8388608)) <= dn32 r).
      { rewrite <- E. apply rnd64_mono. rewrite Rabs_pos_eq in D2 by lra. lra. }
      assert (Hge0 : 0 <= rnd64 (r * (1 - / 8388608))).
      { rewrite <- rnd64_0. apply rnd64_mono. nra. }
      rewrite Rlt_bool_true in C.
      + destruct C as (C1 & C2 & _). rewrite Fx, T1 in C2. change (true && true)%bool with true in C2.
        unfold mul64. split; [apply finite_nonnan; exact C2|]. rewrite (ext_finite _ _ _ C2), C1. exact Hle.
      + rewrite Rabs_pos_eq by exact Hge0. fold M64. lra.
  Qed.

  Lemma mul_up_up :
    let p := if lt64 x zero64 then mul64 x c_towards else mul64 x c_away in
    nonnan p /\ up32 r <= ext64 p.
  Proof.
    cbv zeta.
    destruct c_towards_spec as (T1 & T2 & T3). destruct c_away_spec as (A1 & A2 & A3).
    pose proof r_range as RR. pose proof r_nz as NZ.
    pose proof M32_pos as G32. pose proof M32_le_M64 as GL.
    destruct (up32_close r Hlo) as [D1 D2].
    pose proof (up32_le r ltac:(lra)) as D3.
    assert (rnd64 (up32 r) = up32 r) as E by (apply rnd64_gen, gen32_64, gen32_up).
    destruct (lt64 x zero64) eqn:L.
    - apply (lt64_zero_spec x Fx) in L. fold r in L.
      pose proof (Bmult_correct 53 1024 Hprec64 Hmax64 mode_NE x c_towards) as C.
      change (round radix2 (SpecFloat.fexp 53 1024) (round_mode mode_NE) (B2R x * B2R c_towards)) with (rnd64 (B2R x * B2R c_towards)) in C.
      fold r in C. rewrite T3 in C.
      assert (Hle : up32 r <= rnd64 (r * (1 - / 8388608))).
      { rewrite <- E. apply rnd64_mono. rewrite Rabs_left in D2 by exact L. lra. }
      assert (Hle0 : rnd64 (r * (1 - / 8388608)) <= 0).
      { rewrite <- rnd64_0. apply rnd64_mono. nra. }
      rewrite Rlt_bool_true in C.
      + destruct C as (C1 & C2 & _). rewrite Fx, T1 in C2. change (true && true)%bool with true in C2.
        unfold mul64. split; [apply finite_nonnan; exact C2|]. rewrite (ext_finite _ _ _ C2), C1. exact Hle.
      + rewrite Rabs_left1 by exact Hle0. fold M64. lra.
    - assert (0 < r) as P.
      { destruct (Rlt_or_le r 0) as [N|N]; [apply (lt64_zero_spec x Fx) in N; congruence | lra]. }
      pose proof (Bmult_correct 53 1024 Hprec64 Hmax64 mode_NE x c_away) as C.
      change (round radix2 (SpecFloat.fexp 53 1024) (round_mode mode_NE) (B2R x * B2R c_away)) with (rnd64 (B2R x * B2R c_away)) in C.
      fold r in C. rewrite A3 in C.
      assert (Hle : up32 r <= rnd64 (r * (1 + / 8388608))).
      { rewrite <- E. apply rnd64_mono. rewrite Rabs_pos_eq in D2 by lra. lra. }
      destruct (Rlt_bool_spec (Rabs (rnd64 (r * (1 + / 8388608)))) (bpow radix2 1024)) as [Hlt|Hge].
      + destruct C as (C1 & C2 & _). rewrite Fx, A1 in C2. change (true && true)%bool with true in C2.
        unfold mul64. split; [apply finite_nonnan; exact C2|]. rewrite (ext_finite _ _ _ C2), C1. exact Hle.
      + unfold binary_overflow in C. cbn [overflow_to_inf] in C. rewrite A2 in C.
        rewrite (Bsign_pos x Fx ltac:(fold r; lra) NZ) in C. cbn in C.
        unfold mul64. destruct (Bmult mode_NE x c_away) as [s'|s'| |s' m' e' H']; try discriminate.
        inversion C. split; [reflexivity|]. cbn [ext]. fold M64. lra.
  Qed.

  Lemma down_le_self : nonnan (down x) /\ ext32 (down x) <= r.
  Proof.
    pose proof r_range as RR. pose proof M32_pos as G32.
    unfold down. cbv zeta.
    destruct (gt64 (to64 (to32 x)) x) eqn:G.
    - pose proof mul_down_dn as M. cbv zeta in M.
      destruct (dn32_close r Hlo) as [D1 _]. pose proof (dn32_ge r ltac:(lra)) as D3.
      assert (forall p : f64, nonnan p -> ext64 p <= dn32 r -> nonnan (to32 p) /\ ext32 (to32 p) <= r) as K.
      { intros p Np Hp. destruct (to32_spec p Np) as [N1 N2]. split; [exact N1|].
        rewrite N2. apply Rle_trans with (clamp M32 (rnd32 (dn32 r))).
        - apply clamp_mono. apply rnd32_mono. exact Hp.
        - rewrite (rnd32_gen _ (gen32_dn r)). apply Rle_trans with (dn32 r); [apply clamp_le; exact D3 | exact D1]. }
      destruct (lt64 x zero64); destruct M as [M1 M2]; apply K; assumption.
    - destruct (to32_finite x Fx F32) as [V _].
      destruct (to64_exact (to32 x) F32) as [F64 E64].
      split; [apply finite_nonnan; exact F32|].
      rewrite (ext_finite _ _ _ F32).
      unfold gt64 in G. rewrite (Bcompare_correct 53 1024 _ _ F64 Fx), E64 in G. fold r in G.
      destruct (Rcompare_spec (B2R (to32 x)) r); try discriminate; lra.
  Qed.

  Lemma self_le_up : nonnan (up x) /\ r <= ext32 (up x).
  Proof.
    pose proof r_range as RR. pose proof M32_pos as G32.
    unfold up. cbv zeta.
    destruct (lt64 (to64 (to32 x)) x) eqn:G.
    - pose proof mul_up_up as M. cbv zeta in M.
      destruct (up32_close r Hlo) as [D1 _]. pose proof (up32_le r ltac:(lra)) as D3.
      assert (forall p : f64, nonnan p -> up32 r <= ext64 p -> nonnan (to32 p) /\ r <= ext32 (to32 p)) as K.
      { intros p Np Hp. destruct (to32_spec p Np) as [N1 N2]. split; [exact N1|].
        rewrite N2. apply Rle_trans with (clamp M32 (rnd32 (up32 r))).
        - rewrite (rnd32_gen _ (gen32_up r)). apply Rle_trans with (up32 r); [exact D1 | apply clamp_ge; lra].
        - apply clamp_mono. apply rnd32_mono. exact Hp. }
      destruct (lt64 x zero64); destruct M as [M1 M2]; apply K; assumption.
    - destruct (to32_finite x Fx F32) as [V _].
      destruct (to64_exact (to32 x) F32) as [F64 E64].
      split; [apply finite_nonnan; exact F32|].
      rewrite (ext_finite _ _ _ F32).
      unfold lt64 in G. rewrite (Bcompare_correct 53 1024 _ _ F64 Fx), E64 in G. fold r in G.
      destruct (Rcompare_spec (B2R (to32 x)) r); try discriminate; lra.
  Qed.
End Enclosure.

(* the enclosure, real-valued *)
Theorem enclosure_normal_range (x : f64) :
  is_finite x = true -> bpow radix2 (-126) <= Rabs (B2R x) -> is_finite (to32 x) = true ->
  is_nan (down x) = false /\ is_nan (up x) = false /\ ext32 (down x) <= B2R x <= ext32 (up x).
Proof.
  intros F L F32.
  destruct (down_le_self x F L F32) as [D1 D2]. destruct (self_le_up x F L F32) as [U1 U2].
  repeat split; assumption.
Qed.

(* float64(f) preserves the order against a double inside the float32 range, infinities included *)
Lemma to64_nonnan (f : f32) : nonnan f -> nonnan (to64 f).
Proof.
  intros N. destruct f as [s|s| |s m e H]; try discriminate; try reflexivity.
  apply finite_nonnan. apply (to64_exact (B754_finite s m e H)). reflexivity.
Qed.

Lemma to64_le (f : f32) (r : R) : nonnan f -> - M32 < r < M32 ->
  (ext32 f <= r -> ext64 (to64 f) <= r) /\ (r <= ext32 f -> r <= ext64 (to64 f)).
Proof.
  pose proof M32_pos as G. pose proof M32_le_M64 as GL.
  intros N R. destruct f as [s|s| |s m e H]; try discriminate.
  - cbn. auto.
  - cbn [to64 ext]. fold M32 M64. destruct s; split; intros; lra.
  - destruct (to64_exact (B754_finite s m e H) eq_refl) as [F E].
    rewrite (ext_finite _ _ _ F), E. cbn [ext]. auto.
Qed.

(* the enclosure with the comparisons the Go code itself would evaluate *)
Theorem enclosure_normal_range_bool (x : f64) :
  is_finite x = true -> bpow radix2 (-126) <= Rabs (B2R x) -> is_finite (to32 x) = true ->
  le64 (to64 (down x)) x = true /\ le64 x (to64 (up x)) = true.
Proof.
  intros F L F32.
  destruct (down_le_self x F L F32) as [D1 D2]. destruct (self_le_up x F L F32) as [U1 U2].
  pose proof (r_range x F F32) as RR.
  pose proof (finite_nonnan _ _ x F) as Nx.
  split.
  - apply (le64_ext _ _ (to64_nonnan _ D1) Nx). rewrite (ext_finite _ _ x F).
    apply (to64_le (down x) (B2R x) D1 RR). exact D2.
  - apply (le64_ext _ _ Nx (to64_nonnan _ U1)). rewrite (ext_finite _ _ x F).
    apply (to64_le (up x) (B2R x) U1 RR). exact U2.
Qed.
