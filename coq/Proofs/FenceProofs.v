(* Proofs/FenceProofs.v — the C05 table: fence_match = doc_msgs over the whole finite domain,
   by evaluation of a boolean check over every value, lifted to a universally quantified
   statement with completeness lemmas for the enumerations. *)
From Coq Require Import List Bool Arith Lia.
From T38 Require Import Model.Fence.
Import ListNotations.

(* ---------- finite quantifiers ---------- *)
Definition all_bool (f : bool -> bool) : bool := f true && f false.
Lemma all_bool_spec f : all_bool f = true -> forall b, f b = true.
Proof. unfold all_bool. intros H b. apply andb_true_iff in H. destruct b; tauto. Qed.

Definition all_dset (f : dset -> bool) : bool :=
  all_bool (fun a => all_bool (fun b => all_bool (fun c => all_bool (fun d => all_bool (fun e => all_bool (fun g =>
    f {| d_nil := a; d_inside := b; d_outside := c; d_enter := d; d_exit := e; d_cross := g |})))))).
Lemma all_dset_spec f : all_dset f = true -> forall D, f D = true.
Proof.
  unfold all_dset. intros H [a b c d e g].
  pose proof (all_bool_spec _ H a) as H1. cbv beta in H1.
  pose proof (all_bool_spec _ H1 b) as H2. cbv beta in H2.
  pose proof (all_bool_spec _ H2 c) as H3. cbv beta in H3.
  pose proof (all_bool_spec _ H3 d) as H4. cbv beta in H4.
  pose proof (all_bool_spec _ H4 e) as H5. cbv beta in H5.
  exact (all_bool_spec _ H5 g).
Qed.

Definition all_otest (f : otest -> bool) : bool :=
  all_bool (fun a => all_bool (fun b => f {| o_sp := a; o_flt := b |})).
Lemma all_otest_spec f : all_otest f = true -> forall o, f o = true.
Proof.
  unfold all_otest. intros H [a b].
  pose proof (all_bool_spec _ H a) as H1. cbv beta in H1. exact (all_bool_spec _ H1 b).
Qed.

Definition all_old (f : option otest -> bool) : bool := f None && all_otest (fun o => f (Some o)).
Lemma all_old_spec f : all_old f = true -> forall o, f o = true.
Proof.
  unfold all_old. intros H o. apply andb_true_iff in H. destruct H as [H0 H1].
  destruct o as [o|]; [exact (all_otest_spec _ H1 o)|exact H0].
Qed.

Definition all_cmd (f : cmd -> bool) : bool := f CSet && f CFset && f CDel && f CDrop && f COther.
Lemma all_cmd_spec f : all_cmd f = true -> forall c, f c = true.
Proof.
  unfold all_cmd. intros H c. repeat (apply andb_true_iff in H; destruct H as [H ?]). destruct c; assumption.
Qed.

(* ---------- decidable equality of results ---------- *)
Definition dkind_eqb (a b : dkind) : bool :=
  match a, b with
  | DInside, DInside | DOutside, DOutside | DEnter, DEnter | DExit, DExit | DCross, DCross => true
  | _, _ => false
  end.
Lemma dkind_eqb_eq a b : dkind_eqb a b = true -> a = b.
Proof. destruct a, b; cbn; congruence. Qed.
Definition fmsg_eqb (a b : fmsg) : bool :=
  match a, b with
  | FM x, FM y => dkind_eqb x y
  | FDel, FDel | FDrop, FDrop => true
  | _, _ => false
  end.
Lemma fmsg_eqb_eq a b : fmsg_eqb a b = true -> a = b.
Proof. destruct a, b; cbn; try congruence. intro H. f_equal. now apply dkind_eqb_eq. Qed.
Fixpoint msgs_eqb (a b : list fmsg) : bool :=
  match a, b with
  | [], [] => true
  | x :: a', y :: b' => fmsg_eqb x y && msgs_eqb a' b'
  | _, _ => false
  end.
Lemma msgs_eqb_eq a : forall b, msgs_eqb a b = true -> a = b.
Proof.
  induction a as [|x a IH]; destruct b as [|y b]; cbn; try congruence.
  intro H. apply andb_true_iff in H. destruct H as [H1 H2]. f_equal; [now apply fmsg_eqb_eq|now apply IH].
Qed.
Definition fres_eqb (a b : fres) : bool :=
  match a, b with
  | FOk x, FOk y => msgs_eqb x y
  | FFuel, FFuel => true
  | _, _ => false
  end.
Lemma fres_eqb_eq a b : fres_eqb a b = true -> a = b.
Proof. destruct a, b; cbn; try congruence. intro H. f_equal. now apply msgs_eqb_eq. Qed.

(* ---------- the table ---------- *)

(* a SET / FSET (or another object-carrying command) that passes the guards: the object exists,
   its id matches the fence's MATCH globs, it is spatial, FSET is not on a NOFIELDS fence, the
   fence's output is not COUNT.  FSET never carries a previous object. *)
Definition move_case (c : cmd) (old : option otest) (new : otest) (cross : bool) : fcase :=
  {| c_cmd := c; c_obj := Some new; c_old := if is_fset c then None else old;
     c_glob := true; c_spatial := true; c_nofields := false; c_cross := cross; c_written := true |}.

Definition is_move (c : cmd) : bool := match c with CSet | CFset | COther => true | _ => false end.

Definition table_body (D : dset) (c : cmd) (old : option otest) (new : otest) (cross : bool) : bool :=
  negb (is_move c) ||
  fres_eqb (fence_match true D (move_case c old new cross)) (FOk (map FM (doc_msgs D c old new cross))).

Lemma table_check_true :
  all_dset (fun D => all_cmd (fun c => all_old (fun old => all_otest (fun new => all_bool (fun cross =>
    table_body D c old new cross))))) = true.
Proof. vm_compute. reflexivity. Qed.

Lemma table_all D c old new cross : table_body D c old new cross = true.
Proof.
  exact (all_bool_spec _ (all_otest_spec _ (all_old_spec _ (all_cmd_spec _
          (all_dset_spec _ table_check_true D) c) old) new) cross).
Qed.

Theorem fence_table : forall D c old new cross,
  is_move c = true ->
  fence_match true D (move_case c old new cross) = FOk (map FM (doc_msgs D c old new cross)).
Proof.
  intros D c old new cross Hm. pose proof (table_all D c old new cross) as H.
  unfold table_body in H. rewrite Hm in H. now apply fres_eqb_eq.
Qed.

(* the guards: every failing guard silences the fence; COMMANDS filter; DEL / DROP short-cuts *)
Definition all_case (f : fcase -> bool) : bool :=
  all_cmd (fun c => all_old (fun obj => all_old (fun old => all_bool (fun g => all_bool (fun s =>
  all_bool (fun n => all_bool (fun x => all_bool (fun w =>
    f {| c_cmd := c; c_obj := obj; c_old := old; c_glob := g; c_spatial := s; c_nofields := n;
         c_cross := x; c_written := w |})))))))).
Lemma all_case_spec f : all_case f = true -> forall x, f x = true.
Proof.
  unfold all_case. intros H [c obj old g s n x w].
  pose proof (all_cmd_spec _ H c) as H1. cbv beta in H1.
  pose proof (all_old_spec _ H1 obj) as H2. cbv beta in H2.
  pose proof (all_old_spec _ H2 old) as H3. cbv beta in H3.
  pose proof (all_bool_spec _ H3 g) as H4. cbv beta in H4.
  pose proof (all_bool_spec _ H4 s) as H5. cbv beta in H5.
  pose proof (all_bool_spec _ H5 n) as H6. cbv beta in H6.
  pose proof (all_bool_spec _ H6 x) as H7. cbv beta in H7.
  exact (all_bool_spec _ H7 w).
Qed.

Definition guard_fails (x : fcase) : bool :=
  match c_cmd x with
  | CDrop => false
  | c => match c_obj x with None => true | Some _ => false end
         || negb (c_glob x) || negb (c_spatial x) || (is_fset c && c_nofields x)
         || (negb (match c with CDel => true | _ => false end) && negb (c_written x))
  end.

Definition guards_body (D : dset) (x : fcase) (acc : bool) : bool :=
  (* never out of fuel *)
  negb (fres_eqb (fence_match acc D x) FFuel) &&
  (* a failing guard, or a COMMANDS filter that does not list the command: nothing *)
  (negb (guard_fails x || negb acc) || fres_eqb (fence_match acc D x) (FOk [])) &&
  (* DROP: one drop message whatever the rest; DEL of a matching spatial object: one del message *)
  (negb acc || match c_cmd x with
               | CDrop => fres_eqb (fence_match acc D x) (FOk [FDrop])
               | CDel => guard_fails x || fres_eqb (fence_match acc D x) (FOk [FDel])
               | _ => true
               end).

Lemma guards_check_true :
  all_dset (fun D => all_case (fun x => all_bool (fun acc => guards_body D x acc))) = true.
Proof. vm_compute. reflexivity. Qed.

Lemma guards_all D x acc : guards_body D x acc = true.
Proof. exact (all_bool_spec _ (all_case_spec _ (all_dset_spec _ guards_check_true D) x) acc). Qed.

Theorem fence_guards : forall D x acc,
  fence_match acc D x <> FFuel /\
  (guard_fails x = true \/ acc = false -> fence_match acc D x = FOk []) /\
  (acc = true -> c_cmd x = CDrop -> fence_match acc D x = FOk [FDrop]) /\
  (acc = true -> c_cmd x = CDel -> guard_fails x = false -> fence_match acc D x = FOk [FDel]).
Proof.
  intros D x acc. pose proof (guards_all D x acc) as H. unfold guards_body in H.
  apply andb_true_iff in H. destruct H as [H Hc]. apply andb_true_iff in H. destruct H as [Ha Hb].
  split; [|split; [|split]].
  - intro E. rewrite E in Ha. discriminate.
  - intros Hg. apply fres_eqb_eq.
    assert (Hor : guard_fails x || negb acc = true)
      by (destruct Hg as [-> | ->]; [reflexivity|apply orb_true_r]).
    rewrite Hor in Hb. exact Hb.
  - intros Hacc E. subst acc. rewrite E in Hc. cbn [negb orb] in Hc. now apply fres_eqb_eq.
  - intros Hacc E Hg. subst acc. rewrite E, Hg in Hc. cbn [negb orb] in Hc. now apply fres_eqb_eq.
Qed.

(* the weights of one fence's messages for one write are strictly increasing, so the stable
   sort by (weight, hook name) of sortMsgs keeps each fence's messages in the order fenceMatch
   produced them *)
Fixpoint increasing (l : list nat) : bool :=
  match l with
  | a :: ((b :: _) as t) => (a <? b) && increasing t
  | _ => true
  end.
Definition weights_body (D : dset) (x : fcase) (acc : bool) : bool :=
  match fence_match acc D x with
  | FOk l => increasing (map weight l)
  | FFuel => true
  end.
Lemma weights_check_true :
  all_dset (fun D => all_case (fun x => all_bool (fun acc => weights_body D x acc))) = true.
Proof. vm_compute. reflexivity. Qed.

Lemma weights_all D x acc : weights_body D x acc = true.
Proof. exact (all_bool_spec _ (all_case_spec _ (all_dset_spec _ weights_check_true D) x) acc). Qed.

Theorem fence_weights_increasing : forall D x acc l,
  fence_match acc D x = FOk l -> increasing (map weight l) = true.
Proof.
  intros D x acc l E. pose proof (weights_all D x acc) as H. unfold weights_body in H. now rewrite E in H.
Qed.
