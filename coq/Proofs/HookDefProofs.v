(* Hook.Equals, with the tests read from the source, is byte-identity of the two definitions; hence
   cmdSetHook's early "nothing to do" return is taken exactly for an identical re-issue and every
   accepted SETHOOK / SETCHAN leaves its own definition in force.  The variant that compares the
   message arguments with strings.EqualFold is refuted. *)
From Coq Require Import List NArith ZArith Bool Lia.
From T38 Require Import Base.Bytes Model.HookDef Gen.HookEquals.
Import ListNotations.

Lemma pairwise_bytes l1 l2 :
  length l1 = length l2 -> pairwise (str_same CNe) l1 l2 = true -> l1 = l2.
Proof.
  revert l2. induction l1 as [|x l1 IH]; intros [|y l2] Hl H; try discriminate; [reflexivity|].
  cbn in H. apply andb_true_iff in H as [Hx Ht]. apply bytes_eqb_eq in Hx. subst.
  f_equal. apply IH; [cbn in Hl; lia | exact Ht].
Qed.

Lemma pairwise_bytes_refl l : pairwise (str_same CNe) l l = true.
Proof. induction l as [|x l IH]; [reflexivity|]. cbn. rewrite bytes_eqb_refl. exact IH. Qed.

Lemma pairwise_metas (l1 l2 : list (bytes * bytes)) :
  length l1 = length l2 ->
  pairwise (fun x y => str_same CNe (fst x) (fst y)) l1 l2 = true ->
  pairwise (fun x y => str_same CNe (snd x) (snd y)) l1 l2 = true -> l1 = l2.
Proof.
  revert l2. induction l1 as [|[a b] l1 IH]; intros [|[c d] l2] Hl H1 H2; try discriminate; [reflexivity|].
  cbn in H1, H2. apply andb_true_iff in H1 as [Ha H1]. apply andb_true_iff in H2 as [Hb H2].
  apply bytes_eqb_eq in Ha, Hb. subst. f_equal. apply IH; [cbn in Hl; lia | exact H1 | exact H2].
Qed.

Lemma pairwise_metas_refl (l : list (bytes * bytes)) :
  pairwise (fun x y => str_same CNe (fst x) (fst y)) l l = true /\
  pairwise (fun x y => str_same CNe (snd x) (snd y)) l l = true.
Proof.
  induction l as [|[a b] l [IH1 IH2]]; [split; reflexivity|]. cbn. rewrite !bytes_eqb_refl. split; assumption.
Qed.

(* equal_prev = true iff the two definitions are byte-identical *)
Theorem equals_exact a b : hook_equals_by equals_checks a b = true <-> a = b.
Proof.
  unfold hook_equals_by, equals_checks. cbn [forallb check fst snd str_same].
  rewrite !andb_true_iff. split.
  - intros (H1 & H2 & H3 & H4 & H5 & H6 & H7 & H8 & H9 & H10 & _).
    destruct a as [k1 n1 e1 m1 x1 a1], b as [k2 n2 e2 m2 x2 a2]. cbn [hd_key hd_name hd_endpoints hd_metas hd_expires hd_args] in *.
    apply bytes_eqb_eq in H1, H2. apply Nat.eqb_eq in H3, H4, H9. apply Z.eqb_eq in H5.
    apply (pairwise_bytes _ _ H3) in H6. apply (pairwise_metas _ _ H4 H7) in H8. apply (pairwise_bytes _ _ H9) in H10.
    subst. reflexivity.
  - intros <-. destruct (pairwise_metas_refl (hd_metas a)) as [M1 M2].
    repeat split; first [apply bytes_eqb_refl | apply Nat.eqb_refl | apply Z.eqb_refl
                        | apply pairwise_bytes_refl | exact M1 | exact M2].
Qed.

Lemma def_named_self chan d : def_named (hd_name d) (chan, d) = true.
Proof. unfold def_named. cbn. apply bytes_eqb_refl. Qed.

(* every accepted SETHOOK / SETCHAN leaves exactly its own definition in force under the name *)
Theorem definition_in_force ds chan d :
  snd (def_sethook equals_checks ds chan d) <> (-1)%Z ->
  def_get (hd_name d) (fst (def_sethook equals_checks ds chan d)) = Some (chan, d).
Proof.
  unfold def_sethook. destruct (def_get (hd_name d) ds) as [[pc p]|] eqn:E.
  - destruct (negb (Bool.eqb pc chan)) eqn:K; cbn [fst snd]; [intros H; exfalso; apply H; reflexivity|].
    apply negb_false_iff, eqb_prop in K. subst pc.
    destruct (hook_equals_by equals_checks p d) eqn:Q; cbn [fst snd]; intros _.
    + apply equals_exact in Q. subst p. exact E.
    + unfold def_get. cbn [find]. rewrite def_named_self. reflexivity.
  - cbn [fst snd]. intros _. unfold def_get. cbn [find]. rewrite def_named_self. reflexivity.
Qed.

(* the reply is 0 exactly for an identical re-issue *)
Theorem reply_zero_iff_identical ds chan p d :
  def_get (hd_name d) ds = Some (chan, p) ->
  (snd (def_sethook equals_checks ds chan d) = 0%Z <-> p = d).
Proof.
  intros E. unfold def_sethook. rewrite E. rewrite eqb_reflx. cbn [negb].
  destruct (hook_equals_by equals_checks p d) eqn:Q; cbn [snd].
  - apply equals_exact in Q. split; auto.
  - split; [discriminate|]. intros ->. assert (hook_equals_by equals_checks d d = true) by (apply equals_exact; reflexivity). congruence.
Qed.

(* ---------- the variant with strings.EqualFold on the message arguments ---------- *)
Definition equals_checks_fold_args : list (efield * ecmp) :=
  [(FKey, CNe); (FName, CNe); (FEndpointsLen, CLenNe); (FMetasLen, CLenNe); (FExpires, CTimeEqual);
   (FEndpoint, CNe); (FMetaName, CNe); (FMetaValue, CNe); (FArgsLen, CLenNe); (FArg, CFold)].

Definition d_upper : hdef :=   (* SETCHAN c NEARBY fleet FENCE ROAM fleet T* 500, arguments abridged *)
  {| hd_key := [102]%N; hd_name := [99]%N; hd_endpoints := [[108]%N]; hd_metas := []; hd_expires := 0%Z;
     hd_args := [[84; 42]%N; [53; 48; 48]%N] |}.
Definition d_lower : hdef :=   (* ... ROAM fleet t* 500 *)
  {| hd_key := [102]%N; hd_name := [99]%N; hd_endpoints := [[108]%N]; hd_metas := []; hd_expires := 0%Z;
     hd_args := [[116; 42]%N; [53; 48; 48]%N] |}.

Theorem equals_fold_refuted :
  exists ds chan d,
    snd (def_sethook equals_checks_fold_args ds chan d) = 0%Z /\
    def_get (hd_name d) (fst (def_sethook equals_checks_fold_args ds chan d)) <> Some (chan, d).
Proof.
  exists [(true, d_upper)], true, d_lower. split; [vm_compute; reflexivity|].
  vm_compute. intros H. discriminate H.
Qed.

Example equals_source_example :
  hook_equals_by equals_checks d_upper d_lower = false /\ hook_equals_by equals_checks d_upper d_upper = true /\
  snd (def_sethook equals_checks [(true, d_upper)] true d_lower) = 1%Z /\
  snd (def_sethook equals_checks [(true, d_upper)] false d_lower) = (-1)%Z.
Proof. vm_compute. auto. Qed.
