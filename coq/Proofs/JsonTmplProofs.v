(* C17 — soundness of the template checker: a template accepted by tmpl_ok only has
   instances (under well-typed hole fills, any choice of branches, any number of loop
   iterations) that are valid JSON documents. *)
From Coq Require Import ZifyN ZifyNat ZifyBool.
From T38 Require Import Base.Bytes Base.Utf8 Model.Json Model.Templates Proofs.JsonProofs.
Open Scope N_scope.

(* ---------- decidable equality of automaton states ---------- *)

Lemma frames_eqb_eq a b : frames_eqb a b = true -> a = b.
Proof.
  revert b; induction a as [|[] a IH]; intros [|[] b]; cbn; try discriminate; auto;
    intros H; f_equal; apply IH; exact H.
Qed.

Lemma numst_eqb_eq a b : numst_eqb a b = true -> a = b.
Proof. destruct a, b; cbn; try discriminate; reflexivity. Qed.

Lemma strst_eqb_eq a b : strst_eqb a b = true -> a = b.
Proof.
  destruct a, b; cbn; try discriminate; try reflexivity.
  intros H. apply Nat.eqb_eq in H. subst; reflexivity.
Qed.

Lemma mode_eqb_eq a b : mode_eqb a b = true -> a = b.
Proof.
  destruct a, b; cbn; try discriminate; try reflexivity.
  - intros H. apply andb_true_iff in H. destruct H as [H1 H2].
    apply Bool.eqb_prop in H1. apply strst_eqb_eq in H2. subst; reflexivity.
  - intros H. apply numst_eqb_eq in H. subst; reflexivity.
  - intros H. apply bytes_eqb_eq in H. subst; reflexivity.
Qed.

Lemma jstate_eqb_eq a b : jstate_eqb a b = true -> a = b.
Proof.
  destruct a as [ma sa], b as [mb sb]. unfold jstate_eqb. cbn [fst snd].
  intros H. apply andb_true_iff in H. destruct H as [H1 H2].
  apply mode_eqb_eq in H1. apply frames_eqb_eq in H2. subst; reflexivity.
Qed.

Lemma frames_eqb_refl a : frames_eqb a a = true.
Proof. induction a as [|f a IH]; [reflexivity|]. destruct f; exact IH. Qed.

Lemma mode_eqb_refl m : mode_eqb m m = true.
Proof.
  destruct m; cbn; try reflexivity.
  - rewrite Bool.eqb_reflx. destruct s; cbn; try reflexivity. apply Nat.eqb_refl.
  - destruct n; reflexivity.
  - apply bytes_eqb_refl.
Qed.

Lemma jstate_eqb_refl q : jstate_eqb q q = true.
Proof. destruct q as [m st]. unfold jstate_eqb. cbn [fst snd]. rewrite mode_eqb_refl, frames_eqb_refl. reflexivity. Qed.

(* ---------- a number has no terminator: simulation up to "number just ended" ---------- *)

(* the checker's state q stands for the concrete state qc: identical, or the checker thinks a
   value has been completed while the concrete automaton still sits in a terminal number state *)
Definition sim (q qc : jstate) : Prop :=
  qc = q \/ exists st n, q = (MAfter, st) /\ qc = (MNum n, st) /\ num_terminal n = true.

Lemma sim_refl q : sim q q.
Proof. left; reflexivity. Qed.

Lemma step_after_stops st c q' n :
  step_after st c = Some q' -> num_terminal n = true -> num_step n c = None.
Proof.
  intros H Hn.
  assert (Hc : c = 32 \/ c = 9 \/ c = 10 \/ c = 13 \/ c = 44 \/ c = 125 \/ c = 93).
  { unfold step_after in H. destruct (is_ws c) eqn:W.
    - unfold is_ws in W. repeat (apply orb_true_iff in W; destruct W as [W|W]);
        apply N.eqb_eq in W; auto 10.
    - destruct st as [|[] r]; try discriminate.
      + destruct (N.eqb_spec c 44); auto 10. destruct (N.eqb_spec c 125); auto 10. discriminate.
      + destruct (N.eqb_spec c 44); auto 10. destruct (N.eqb_spec c 93); auto 10. discriminate. }
  destruct n; try discriminate;
    repeat (destruct Hc as [Hc|Hc]; [subst; reflexivity|]); subst; reflexivity.
Qed.

Lemma step_sim q qc c q' :
  sim q qc -> jstep q c = Some q' -> exists qc', jstep qc c = Some qc' /\ sim q' qc'.
Proof.
  intros [->|(st & n & -> & -> & Hn)] H.
  - exists q'. split; [exact H | apply sim_refl].
  - exists q'. split; [|apply sim_refl].
    cbn [jstep] in *. rewrite (step_after_stops _ _ _ _ H Hn), Hn. exact H.
Qed.

Lemma run_sim s : forall q qc q',
  sim q qc -> jrun s q = Some q' -> exists qc', jrun s qc = Some qc' /\ sim q' qc'.
Proof.
  induction s as [|c s IH]; intros q qc q' Hs H; cbn [jrun] in *.
  - inversion H; subst. exists qc; split; [reflexivity | exact Hs].
  - destruct (jstep q c) as [q1|] eqn:E; [|discriminate].
    destruct (step_sim _ _ _ _ Hs E) as (qc1 & E1 & Hs1). rewrite E1.
    eapply IH; eauto.
Qed.

Lemma sim_accepting q qc : sim q qc -> q = (MAfter, []) -> accepting qc = true.
Proof.
  intros [->|(st & n & E1 & -> & Hn)] E; subst; [reflexivity|].
  inversion E; subst. exact Hn.
Qed.

(* ---------- what holes are filled with ---------- *)

(* a JSON value as far as the automaton is concerned: from any state that expects a value it leads
   to "value completed" (up to a pending terminal number state) with the same stack *)
Definition json_value (v : bytes) : Prop :=
  forall q q', hole_value q = Some q' -> exists qc', jrun v q = Some qc' /\ sim q' qc'.

Inductive inst : tmpl -> bytes -> Prop :=
| ILit s : inst (Lit s) s
| IStr s : inst HStr (json_string s)
| IInt v : is_int_text v = true -> inst HInt v
| IFloat v : inst HFloat v                      (* anything, NaN and +Inf included *)
| IBool (b : bool) : inst HBool (if b then [116; 114; 117; 101] else [102; 97; 108; 115; 101])
| IDur v : string_safe v = true -> inst HDur v
| IRaw v : string_safe v = true -> inst HRaw v
| IJson v : json_value v -> inst HJson v
| ISeq a b x y : inst a x -> inst b y -> inst (Seq a b) (x ++ y)
| IAltL a b x : inst a x -> inst (Alt a b) x
| IAltR a b y : inst b y -> inst (Alt a b) y
| IStar0 a : inst (Star a) []
| IStarS a x y : inst a x -> inst (Star a) y -> inst (Star a) (x ++ y).

Lemma hole_value_start q q' :
  hole_value q = Some q' -> exists st, (q = (MValue, st) \/ q = (MArrStart, st)) /\ q' = (MAfter, st).
Proof.
  destruct q as [[] st]; cbn; intros H; inversion H; subst; exists st; auto.
Qed.

Lemma sim_value_start q qc q' : hole_value q = Some q' -> sim q qc -> qc = q.
Proof.
  intros H [->|(st & n & -> & _)]; [reflexivity|]. discriminate.
Qed.

Lemma string_safe_Forall v : string_safe v = true -> Forall safe_byte v.
Proof.
  unfold string_safe. rewrite forallb_forall, Forall_forall. intros H c Hc.
  specialize (H c Hc). apply andb_true_iff in H. destruct H as [H H3].
  apply andb_true_iff in H. destruct H as [H1 H2].
  apply N.leb_le in H1. apply negb_true_iff, N.eqb_neq in H2. apply negb_true_iff, N.eqb_neq in H3.
  repeat split; assumption.
Qed.

(* digits after the first digit of an integer *)
Lemma digits_run r st :
  forallb is_digit r = true -> jrun r (MNum NInt, st) = Some (MNum NInt, st).
Proof.
  induction r as [|c r IH]; cbn [forallb jrun]; intros H; [reflexivity|].
  apply andb_true_iff in H. destruct H as [Hc Hr].
  cbn [jstep num_step]. rewrite Hc. apply IH; exact Hr.
Qed.

Lemma nat_text_run v st m :
  (m = MValue \/ m = MArrStart \/ m = MNum NMinus) -> is_nat_text v = true ->
  exists n, jrun v (m, st) = Some (MNum n, st) /\ num_terminal n = true.
Proof.
  intros Hm H. destruct v as [|c r]; [discriminate|].
  assert (Hfirst : (c = 48 /\ r = []) \/ (49 <= c <= 57 /\ forallb is_digit r = true)).
  { cbn [is_nat_text] in H. destruct (N.eqb_spec c 48) as [->|Hn].
    - destruct r; [left; auto|discriminate].
    - right. apply andb_true_iff in H. destruct H as [Hc Hr].
      apply andb_true_iff in Hc. destruct Hc as [H1 H2].
      apply N.leb_le in H1. apply N.leb_le in H2. auto. }
  destruct Hfirst as [[-> ->]|[Hc Hr]].
  - exists NZero. split; [|reflexivity]. destruct Hm as [ -> | [ -> | -> ] ]; reflexivity.
  - exists NInt. split; [|reflexivity]. cbn [jrun].
    assert (Hd : is_digit c = true) by (unfold is_digit; apply andb_true_iff; split; apply N.leb_le; lia).
    assert (E : jstep (m, st) c = Some (MNum NInt, st)).
    { destruct Hm as [ -> | [ -> | -> ] ]; cbn [jstep step_value num_step]; unfold is_ws, step_value;
        repeat match goal with |- context [N.eqb c ?k] => destruct (N.eqb_spec c k); [lia|] end;
        cbn [orb]; rewrite Hd; reflexivity. }
    rewrite E. apply digits_run; exact Hr.
Qed.

Lemma int_text_value v : is_int_text v = true -> json_value v.
Proof.
  intros H q q' Hq. destruct (hole_value_start _ _ Hq) as (st & Hm & ->).
  assert (Hgo : exists n, jrun v q = Some (MNum n, st) /\ num_terminal n = true).
  { destruct v as [|c r]; [discriminate|].
    destruct (N.eqb_spec c 45) as [->|Hn].
    - cbn [is_int_text N.eqb Pos.eqb] in H.
      destruct (nat_text_run r st (MNum NMinus)) as (n & Hr & Hn); auto.
      exists n. split; [|exact Hn]. cbn [jrun].
      destruct Hm as [ -> | -> ]; cbn [jstep step_value is_ws N.eqb Pos.eqb orb]; exact Hr.
    - assert (H' : is_nat_text (c :: r) = true).
      { cbn [is_int_text] in H. destruct (N.eqb_spec c 45); [contradiction | exact H]. }
      destruct Hm as [ -> | -> ]; eapply nat_text_run; eauto. }
  destruct Hgo as (n & Hr & Hn). exists (MNum n, st). split; [exact Hr|].
  right. exists st, n. auto.
Qed.

Lemma bool_text_value (b : bool) :
  json_value (if b then [116; 114; 117; 101] else [102; 97; 108; 115; 101]).
Proof.
  intros q q' Hq. destruct (hole_value_start _ _ Hq) as (st & Hm & ->).
  exists (MAfter, st). split; [|apply sim_refl].
  destruct b, Hm as [ -> | -> ]; reflexivity.
Qed.

Lemma json_string_value s : json_value (json_string s).
Proof.
  intros q q' Hq. destruct (hole_value_start _ _ Hq) as (st & Hm & ->).
  exists (MAfter, st). split; [|apply sim_refl].
  rewrite (json_string_run s q false st); [reflexivity|].
  destruct Hm as [ -> | -> ]; reflexivity.
Qed.

(* ---------- soundness of trun ---------- *)

Lemma trun_sound t v : inst t v ->
  forall q q' qc, trun t q = Some q' -> sim q qc ->
  exists qc', jrun v qc = Some qc' /\ sim q' qc'.
Proof.
  induction 1 as [s|s|v Hv|v|b|v Hv|v Hv|v Hv|a b x y Ha IHa Hb IHb|a b x Ha IHa|a b y Hb IHb|a|a x y Ha IHa Hs IHs];
    intros q q' qc Ht Hsim; cbn [trun] in Ht.
  - (* Lit *) eapply run_sim; eauto.
  - (* HStr *)
    assert (Hq : qc = q).
    { destruct Hsim as [->|(st & n & -> & _)]; [reflexivity|]. discriminate. }
    subst qc. exists q'. split; [|apply sim_refl].
    destruct q as [[] st]; cbn in Ht; inversion Ht; subst.
    + apply (json_string_run s (MValue, st) false st); reflexivity.
    + apply (json_string_run s (MArrStart, st) false st); reflexivity.
    + apply (json_string_run s (MObjStart, st) true st); reflexivity.
    + apply (json_string_run s (MKey, st) true st); reflexivity.
  - (* HInt *)
    rewrite (sim_value_start _ _ _ Ht Hsim). apply (int_text_value v Hv); exact Ht.
  - (* HFloat *) discriminate.
  - (* HBool *)
    rewrite (sim_value_start _ _ _ Ht Hsim). apply (bool_text_value b); exact Ht.
  - (* HDur *)
    destruct q as [[] st]; cbn in Ht; try discriminate. destruct s; try discriminate.
    inversion Ht; subst.
    destruct Hsim as [->|(st' & n & E & _)]; [|discriminate].
    eexists; split; [apply safe_run, string_safe_Forall; exact Hv | apply sim_refl].
  - (* HRaw *)
    destruct q as [[] st]; cbn in Ht; try discriminate. destruct s; try discriminate.
    inversion Ht; subst.
    destruct Hsim as [->|(st' & n & E & _)]; [|discriminate].
    eexists; split; [apply safe_run, string_safe_Forall; exact Hv | apply sim_refl].
  - (* HJson *)
    rewrite (sim_value_start _ _ _ Ht Hsim). apply Hv; exact Ht.
  - (* Seq *)
    destruct (trun a q) as [q1|] eqn:E1; [|discriminate].
    destruct (IHa _ _ _ E1 Hsim) as (qc1 & R1 & S1).
    destruct (IHb _ _ _ Ht S1) as (qc2 & R2 & S2).
    exists qc2. split; [eapply jrun_app_some; eauto | exact S2].
  - (* Alt, left *)
    destruct (trun a q) as [x1|] eqn:E1; [|discriminate].
    destruct (trun b q) as [y1|] eqn:E2; [|discriminate].
    destruct (jstate_eqb x1 y1) eqn:E; [|discriminate]. inversion Ht; subst.
    eapply IHa; eauto.
  - (* Alt, right *)
    destruct (trun a q) as [x1|] eqn:E1; [|discriminate].
    destruct (trun b q) as [y1|] eqn:E2; [|discriminate].
    destruct (jstate_eqb x1 y1) eqn:E; [|discriminate]. inversion Ht; subst.
    apply jstate_eqb_eq in E. subst. eapply IHb; eauto.
  - (* Star, no iteration *)
    destruct (trun a q) as [x1|] eqn:E1; [|discriminate].
    destruct (jstate_eqb x1 q) eqn:E; [|discriminate]. inversion Ht; subst.
    exists qc. split; [reflexivity | exact Hsim].
  - (* Star, one more iteration *)
    destruct (trun a q) as [x1|] eqn:E1; [|discriminate].
    destruct (jstate_eqb x1 q) eqn:E; [|discriminate]. inversion Ht; subst.
    apply jstate_eqb_eq in E. subst x1.
    destruct (IHa _ _ _ E1 Hsim) as (qc1 & R1 & S1).
    assert (Hstar : trun (Star a) q' = Some q').
    { cbn [trun]. rewrite E1, jstate_eqb_refl. reflexivity. }
    destruct (IHs _ _ _ Hstar S1) as (qc2 & R2 & S2).
    exists qc2. split; [eapply jrun_app_some; eauto | exact S2].
Qed.

Theorem tmpl_ok_sound_proof : forall t,
  tmpl_ok t = true -> forall v, inst t v -> valid_json v = true.
Proof.
  intros t Hok v Hi. unfold tmpl_ok in Hok.
  destruct (trun t jstart) as [q|] eqn:E; [|discriminate].
  apply jstate_eqb_eq in Hok. subst q.
  destruct (trun_sound t v Hi _ _ jstart E (sim_refl _)) as (qc & R & S).
  unfold valid_json. rewrite R. eapply sim_accepting; eauto.
Qed.

(* fragments: a helper that appends members to an open object / elements to an open array keeps
   the enclosing structure and every string literal balanced *)
Theorem tmpl_members_sound_proof : forall t,
  tmpl_members_ok t = true -> forall v, inst t v ->
  exists qc, jrun v (MAfter, [FObj]) = Some qc /\ sim (MAfter, [FObj]) qc.
Proof.
  intros t Hok v Hi. unfold tmpl_members_ok in Hok.
  destruct (trun t (MAfter, [FObj])) as [q|] eqn:E; [|discriminate].
  apply jstate_eqb_eq in Hok. subst q.
  exact (trun_sound t v Hi _ _ _ E (sim_refl _)).
Qed.

Theorem tmpl_elems_sound_proof : forall t,
  tmpl_elems_ok t = true -> forall v, inst t v ->
  exists qc, jrun v (MAfter, [FArr]) = Some qc /\ sim (MAfter, [FArr]) qc.
Proof.
  intros t Hok v Hi. unfold tmpl_elems_ok in Hok.
  destruct (trun t (MAfter, [FArr])) as [q|] eqn:E; [|discriminate].
  apply jstate_eqb_eq in Hok. subst q.
  exact (trun_sound t v Hi _ _ _ E (sim_refl _)).
Qed.

(* the head literal of a template is a prefix of every instance *)
Lemma tmpl_head_prefix t v : inst t v -> forall s, tmpl_head t = Some s -> hasPrefix s v.
Proof.
  induction 1 as [s|s|v Hv|v|b|v Hv|v Hv|v Hv|a b x y Ha IHa Hb IHb|a b x Ha IHa|a b y Hb IHb|a|a x y Ha IHa Hs IHs];
    cbn [tmpl_head]; intros s0 Hs0; try discriminate.
  - inversion Hs0; subst. exists []. rewrite app_nil_r. reflexivity.
  - destruct (IHa _ Hs0) as [r Hr]. exists (r ++ y). rewrite Hr, app_assoc. reflexivity.
Qed.

Theorem has_ok_head_sound_proof : forall t,
  has_ok_head t = true -> forall v, inst t v ->
  hasPrefix ok_true_prefix v \/ hasPrefix ok_false_prefix v.
Proof.
  intros t H v Hi. unfold has_ok_head in H.
  destruct (tmpl_head t) as [s|] eqn:E; [|discriminate].
  destruct (tmpl_head_prefix t v Hi s E) as [r Hr].
  apply orb_true_iff in H. destruct H as [H|H]; apply hasPrefixb_spec in H; destruct H as [r' Hr'];
    [left|right]; exists (r' ++ r); rewrite Hr, Hr', app_assoc; reflexivity.
Qed.

(* a fragment accepted by frag_ok is, for every instance, a legal continuation of a JSON text in
   at least one of the listed contexts *)
Theorem frag_ok_sound_proof : forall t,
  frag_ok t = true ->
  exists q q', In q frag_starts /\
    forall v, inst t v -> exists qc', jrun v q = Some qc' /\ sim q' qc'.
Proof.
  intros t H. unfold frag_ok in H. apply existsb_exists in H. destruct H as (q & Hin & Hq).
  destruct (trun t q) as [q'|] eqn:E; [|discriminate].
  exists q, q'. split; [exact Hin|]. intros v Hi.
  exact (trun_sound t v Hi _ _ _ E (sim_refl _)).
Qed.
