(* Proofs/CollSelProofs.v — lemmas about Model/CollSel.v (property C19): on a well-formed
   collection SCAN / SEARCH with any set of MATCH patterns, ascending and descending, reach exactly
   the retrievable objects they should, once each, and the COUNT forms return their number. *)
From Coq Require Import ZifyN ZifyNat ZifyBool Sorting.Sorted Sorting.Permutation Lia.
From T38 Require Import Base.Bytes Model.Glob Proofs.GlobProofs.
From T38 Require Import Model.Collection Proofs.CollectionProofs Model.GlobSel Proofs.GlobSelProofs Model.CollSel.
Import ListNotations.
Open Scope N_scope.

(* ---------- generic list facts ---------- *)

Lemma sorted_map {A B} (R : A -> A -> Prop) (R' : B -> B -> Prop) (f : A -> B) l :
  (forall a b, R a b -> R' (f a) (f b)) -> StronglySorted R l -> StronglySorted R' (map f l).
Proof.
  intros H Hs. induction Hs as [|a l Hs IH Hall]; cbn; constructor; auto.
  apply Forall_forall. intros y Hy. apply in_map_iff in Hy as [x [<- Hx]]. apply H.
  rewrite Forall_forall in Hall. auto.
Qed.

Lemma filter_rev_comm {A} (f : A -> bool) l : filter f (rev l) = rev (filter f l).
Proof.
  induction l as [|a l IH]; cbn; [reflexivity|]. rewrite filter_app, IH. cbn.
  destruct (f a); cbn; [reflexivity | rewrite app_nil_r; reflexivity].
Qed.

Lemma filter_map_comm {A B} (f : B -> bool) (g : A -> B) l :
  filter f (map g l) = map g (filter (fun x => f (g x)) l).
Proof. induction l as [|a l IH]; cbn; [reflexivity|]. rewrite IH. destruct (f (g a)); reflexivity. Qed.

Lemma filter_all {A} (f : A -> bool) l : (forall x, f x = true) -> filter f l = l.
Proof. intros H. induction l as [|a l IH]; cbn; [reflexivity|]. rewrite H, IH. reflexivity. Qed.

Definition dir {A} (desc : bool) (l : list A) : list A := if desc then rev l else l.

Lemma dir_length {A} (f : A -> bool) desc l : length (filter f (dir desc l)) = length (filter f l).
Proof. destruct desc; cbn [dir]; [rewrite filter_rev_comm, rev_length|]; reflexivity. Qed.

Lemma dir_In {A} desc (l : list A) x : In x (dir desc l) <-> In x l.
Proof. destruct desc; cbn [dir]; [symmetry; apply in_rev | reflexivity]. Qed.

Lemma dir_map {A B} (g : A -> B) desc l : dir desc (map g l) = map g (dir desc l).
Proof. destruct desc; cbn [dir]; [symmetry; apply map_rev | reflexivity]. Qed.

Lemma dir_NoDup {A} desc (l : list A) : NoDup l -> NoDup (dir desc l).
Proof. destruct desc; cbn [dir]; [apply NoDup_rev | auto]. Qed.

Lemma NoDup_map_filter {A B} (g : A -> B) (f : A -> bool) l : NoDup (map g l) -> NoDup (map g (filter f l)).
Proof.
  induction l as [|a l IH]; cbn; intros H; [constructor|]. inversion H as [|? ? Hn Hd]; subst.
  destruct (f a); cbn; auto. constructor; auto. intros Hin. apply Hn.
  apply in_map_iff in Hin as [x [E Hx]]. apply filter_In in Hx as [Hx _]. apply in_map_iff. exists x; auto.
Qed.

Lemma iter_count_0 {A} (l : list A) limit : iter_count l 0 limit = N.min limit (N.of_nat (length l)).
Proof.
  unfold iter_count. set (n := N.of_nat (length l)).
  destruct (0 <? n) eqn:E1.
  - rewrite N.sub_0_r. destruct (limit <? n) eqn:E2; lia.
  - destruct (limit <? 0) eqn:E2; lia.
Qed.

Lemma everything_test globs s : glob_everything globs = true -> glob_test globs s = true.
Proof. unfold glob_test. intros ->. reflexivity. Qed.

(* ---------- the two B-trees of a well-formed collection are in the order the walks assume ---------- *)

Lemma ids_bsorted c : Wf c -> bsorted (map o_id (c_objs c)).
Proof.
  intros W. apply (sorted_map (klt o_id id_cmp)); [|exact (wf_objs c W)].
  intros a b H. unfold klt, id_cmp in H. unfold bytes_ltb. rewrite H. reflexivity.
Qed.

Lemma values_vsorted c : Wf c -> vsorted (map vkey (c_values c)).
Proof.
  intros W. apply (sorted_map (klt vkey vcmp)); [|exact (wf_values_sorted c W)].
  intros a b H. unfold klt, vcmp, lex_cmp in H. unfold ventry_ltb.
  destruct (bytes_cmp (fst (vkey a)) (fst (vkey b))); try discriminate; [|reflexivity].
  unfold bytes_ltb. rewrite H. reflexivity.
Qed.

Definition ff_free (globs : list bytes) : Prop := forall p, In p globs -> prefix_ends_ff p = false.

(* ---------- Model.GlobSel's walks without a field filter, LIMIT above the number of entries ---------- *)

Lemma filter_length_le {A} (f : A -> bool) l : (length (filter f l) <= length l)%nat.
Proof. induction l as [|x r IH]; cbn; [lia|]. destruct (f x); cbn; lia. Qed.

Lemma scan_sel_nofilter globs : forall l, filter (scan_sel globs no_filter) l = filter (glob_test globs) l.
Proof. intros l. apply filter_ext. intros x. unfold scan_sel, no_filter. apply andb_true_r. Qed.

Lemma search_sel_nofilter globs : forall l : list ventry,
  filter (search_sel globs no_filter) l = filter (fun e : ventry => glob_test globs (fst e)) l.
Proof. intros l. apply filter_ext. intros x. unfold search_sel, no_filter. apply andb_true_r. Qed.

Lemma firstn_filter_all {A} (f : A -> bool) (l : list A) (limit : N) :
  N.of_nat (length l) < limit -> firstn (N.to_nat limit) (filter f l) = filter f l.
Proof. intros H. apply firstn_all2. pose proof (filter_length_le f l). lia. Qed.

(* ---------- SCAN ---------- *)

Lemma coll_scan_ids_exact c globs desc lim : Wf c -> ff_free globs -> N.of_nat (length (scan_ids c)) < lim ->
  coll_scan_ids globs desc c lim = map o_id (filter (scan_hit globs) (dir desc (scan_ids c))).
Proof.
  intros W Hff Hl. unfold coll_scan_ids, scan_ids in *.
  destruct (scan_multi_exact globs no_filter lim desc _ (ids_bsorted c W) Hff ltac:(lia)) as [H _].
  rewrite H, scan_sel_nofilter. unfold scan_hit.
  rewrite firstn_filter_all.
  - destruct desc; cbn [dir]; [rewrite <- map_rev|]; apply filter_map_comm.
  - destruct desc; [rewrite rev_length|]; rewrite map_length; exact Hl.
Qed.

Lemma coll_scan_count_iter c globs desc limit : Wf c -> ff_free globs -> 1 <= limit ->
  out_count (scan_multi globs no_filter limit true desc (map o_id (scan_ids c))) =
  N.min limit (N.of_nat (length (filter (scan_hit globs) (scan_ids c)))).
Proof.
  intros W Hff Hl. unfold scan_ids.
  destruct (scan_multi_exact globs no_filter limit desc _ (ids_bsorted c W) Hff Hl) as [_ H].
  rewrite H, scan_sel_nofilter. f_equal. f_equal. unfold scan_hit.
  transitivity (length (filter (glob_test globs) (map o_id (c_objs c)))).
  - destruct desc; [|reflexivity]. rewrite filter_rev_comm, rev_length. reflexivity.
  - rewrite filter_map_comm, map_length. reflexivity.
Qed.

Lemma objs_NoDup c : Wf c -> NoDup (map o_id (c_objs c)).
Proof. intros W. apply (ssorted_NoDup o_id id_cmp order_bytes). apply (wf_objs c W). Qed.

Lemma cget_spec c : Wf c -> forall id o, cget c id = Some o <-> (In o (c_objs c) /\ o_id o = id).
Proof. intros W id o. unfold cget. apply get_spec; [exact order_bytes | apply (wf_objs c W)]. Qed.

Theorem coll_scan_reach c globs desc lim : Wf c -> ff_free globs -> N.of_nat (length (scan_ids c)) < lim ->
  let reached := coll_scan_ids globs desc c lim in
  reached = map o_id (filter (scan_hit globs) (dir desc (scan_ids c))) /\
  (forall id, In id reached <-> exists o, cget c id = Some o /\ glob_test globs id = true) /\
  NoDup reached /\
  (forall limit, 1 <= limit -> coll_scan_count globs desc c limit =
                 N.min limit (N.of_nat (length (filter (scan_hit globs) (scan_ids c))))).
Proof.
  intros W Hff Hlim reached. pose proof (coll_scan_ids_exact c globs desc lim W Hff Hlim) as E. fold reached in E.
  split; [exact E|]. split; [|split].
  - intros id. rewrite E, in_map_iff. split.
    + intros [o [Hid Ho]]. apply filter_In in Ho as [Ho Hh]. apply dir_In in Ho. exists o. split.
      * apply (cget_spec c W). split; assumption.
      * unfold scan_hit in Hh. rewrite Hid in Hh. exact Hh.
    + intros [o [Hg Ht]]. apply (cget_spec c W) in Hg as [Ho Hid]. exists o. split; [exact Hid|].
      apply filter_In. split; [apply dir_In; exact Ho|]. unfold scan_hit. rewrite Hid. exact Ht.
  - rewrite E. apply NoDup_map_filter. rewrite <- dir_map. apply dir_NoDup. apply (objs_NoDup c W).
  - intros limit Hl. unfold coll_scan_count. destruct (glob_everything globs) eqn:Ge.
    + destruct (counters_are_lengths c W) as [_ Hc]. unfold scan_count_shortcut. rewrite Hc.
      rewrite (shortcut_is_iter _ 0 limit (scan_ids c) eq_refl), iter_count_0.
      rewrite filter_all; [reflexivity|]. intros o. apply everything_test. exact Ge.
    + apply coll_scan_count_iter; assumption.
Qed.

(* ---------- SEARCH ---------- *)

Definition value_hit (globs : list bytes) (o : obj) : bool := glob_test globs (o_str o).

Lemma search_entries_exact globs (l : list obj) :
  map snd (filter (fun e : ventry => glob_test globs (fst e)) (map vkey l)) = map o_id (filter (value_hit globs) l).
Proof. rewrite filter_map_comm, map_map. reflexivity. Qed.

Lemma coll_search_ids_exact c globs desc lim : Wf c -> ff_free globs -> N.of_nat (length (search_values c)) < lim ->
  coll_search_ids globs desc c lim = map o_id (filter (value_hit globs) (dir desc (search_values c))).
Proof.
  intros W Hff Hl. unfold coll_search_ids, search_values in *.
  destruct (search_multi_exact globs no_filter lim desc _ (values_vsorted c W) Hff ltac:(lia)) as [H _].
  rewrite H, search_sel_nofilter. rewrite firstn_filter_all.
  - destruct desc; cbn [dir]; [rewrite <- map_rev|]; apply search_entries_exact.
  - destruct desc; [rewrite rev_length|]; rewrite map_length; exact Hl.
Qed.

Lemma values_NoDup c : Wf c -> NoDup (map o_id (c_values c)).
Proof. intros W. destruct (paths_agree c W) as (_ & _ & _ & _ & _ & H & _). exact H. Qed.

Lemma search_len c globs : Wf c ->
  length (filter (value_hit globs) (c_values c)) = length (filter (search_hit globs) (c_objs c)).
Proof.
  intros W. apply Permutation_length. apply NoDup_Permutation.
  - apply NoDup_filter. apply (NoDup_map_inv o_id). apply (values_NoDup c W).
  - apply NoDup_filter. apply (NoDup_map_inv o_id). apply (objs_NoDup c W).
  - intros o. rewrite !filter_In, (wf_values c W). unfold in_values, search_hit, value_hit.
    rewrite andb_true_iff. tauto.
Qed.

Lemma coll_search_count_iter c globs desc limit : Wf c -> ff_free globs -> 1 <= limit ->
  out_count (search_multi globs no_filter limit true desc (map vkey (search_values c))) =
  N.min limit (N.of_nat (length (filter (search_hit globs) (scan_ids c)))).
Proof.
  intros W Hff Hl. unfold scan_ids, search_values. rewrite <- (search_len c globs W).
  destruct (search_multi_exact globs no_filter limit desc _ (values_vsorted c W) Hff Hl) as [_ H].
  rewrite H, search_sel_nofilter. f_equal. f_equal.
  transitivity (length (filter (fun e : ventry => glob_test globs (fst e)) (map vkey (c_values c)))).
  - destruct desc; [|reflexivity]. rewrite filter_rev_comm, rev_length. reflexivity.
  - rewrite filter_map_comm, map_length. reflexivity.
Qed.

Lemma values_le_objs c : Wf c -> (length (search_values c) <= length (scan_ids c))%nat.
Proof. intros W. rewrite (values_length c W). apply filter_length_le. Qed.

Theorem coll_search_reach c globs desc lim : Wf c -> ff_free globs -> N.of_nat (length (search_values c)) < lim ->
  let reached := coll_search_ids globs desc c lim in
  reached = map o_id (filter (value_hit globs) (dir desc (search_values c))) /\
  (forall id, In id reached <->
     exists o, cget c id = Some o /\ o_spatial o = false /\ glob_test globs (o_str o) = true) /\
  NoDup reached /\
  (forall limit, 1 <= limit -> coll_search_count globs desc c limit =
                 N.min limit (N.of_nat (length (filter (search_hit globs) (scan_ids c))))).
Proof.
  intros W Hff Hlim reached. pose proof (coll_search_ids_exact c globs desc lim W Hff Hlim) as E. fold reached in E.
  destruct (paths_agree c W) as (_ & P2 & _).
  split; [exact E|]. split; [|split].
  - intros id. rewrite E, in_map_iff. split.
    + intros [o [Hid Ho]]. apply filter_In in Ho as [Ho Hh]. apply dir_In in Ho. apply P2 in Ho as [Hg Hs].
      exists o. rewrite Hid in Hg. auto.
    + intros [o [Hg [Hs Ht]]]. pose proof Hg as Hg'. apply (cget_spec c W) in Hg' as [_ Hid]. exists o.
      split; [exact Hid|]. apply filter_In. split; [|exact Ht]. apply dir_In. apply P2. rewrite Hid. auto.
  - rewrite E. apply NoDup_map_filter. rewrite <- dir_map. apply dir_NoDup. apply (values_NoDup c W).
  - intros limit Hl. unfold coll_search_count. destruct (glob_everything globs) eqn:Ge.
    + unfold scan_ids. rewrite <- (search_len c globs W).
      destruct (counters_are_lengths c W) as [Hs _]. unfold search_count_shortcut. rewrite Hs.
      rewrite (shortcut_is_iter _ 0 limit (search_values c) eq_refl), iter_count_0.
      rewrite filter_all; [reflexivity|]. intros o. apply everything_test. exact Ge.
    + apply coll_search_count_iter; assumption.
Qed.

(* ---------- after every history of Set / Delete ---------- *)

Theorem sel_paths_any_history ops globs desc lim : ff_free globs ->
  let c := run ops in
  N.of_nat (length (scan_ids c)) < lim ->
  (forall id, In id (coll_scan_ids globs desc c lim) <-> exists o, cget c id = Some o /\ glob_test globs id = true) /\
  (forall id, In id (coll_search_ids globs desc c lim) <->
     exists o, cget c id = Some o /\ o_spatial o = false /\ glob_test globs (o_str o) = true) /\
  NoDup (coll_scan_ids globs desc c lim) /\ NoDup (coll_search_ids globs desc c lim) /\
  (forall limit, 1 <= limit ->
     coll_scan_count globs desc c limit = N.min limit (N.of_nat (length (coll_scan_ids globs desc c lim)))) /\
  (forall limit, 1 <= limit ->
     coll_search_count globs desc c limit = N.min limit (N.of_nat (length (coll_search_ids globs desc c lim)))).
Proof.
  intros Hff c Hlim. pose proof (wf_run ops) as W. fold c in W.
  assert (Hlim2 : N.of_nat (length (search_values c)) < lim) by (pose proof (values_le_objs c W); lia).
  destruct (coll_scan_reach c globs desc lim W Hff Hlim) as (E1 & I1 & N1 & C1).
  destruct (coll_search_reach c globs desc lim W Hff Hlim2) as (E2 & I2 & N2 & C2).
  repeat split; try (apply I1); try (apply I2); auto.
  - intros limit Hl. rewrite (C1 limit Hl), E1, map_length, dir_length. reflexivity.
  - intros limit Hl. rewrite (C2 limit Hl), E2, map_length, dir_length. unfold scan_ids. rewrite <- (search_len c globs W). reflexivity.
Qed.

(* ASC and DESC reach the same ids, in opposite order *)
Theorem sel_desc_reverses c globs lim : Wf c -> ff_free globs -> N.of_nat (length (scan_ids c)) < lim ->
  coll_scan_ids globs true c lim = rev (coll_scan_ids globs false c lim) /\
  coll_search_ids globs true c lim = rev (coll_search_ids globs false c lim).
Proof.
  intros W Hff Hlim.
  assert (Hlim2 : N.of_nat (length (search_values c)) < lim) by (pose proof (values_le_objs c W); lia).
  rewrite !coll_scan_ids_exact, !coll_search_ids_exact by assumption. cbn [dir].
  rewrite !filter_rev_comm, !map_rev. split; reflexivity.
Qed.
