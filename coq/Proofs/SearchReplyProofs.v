(* C02 — the reply of WITHIN / INTERSECTS is the search result: nothing between the exact predicate
   and the reply drops an object except the filters of the command and its LIMIT. *)
From Coq Require Import List NArith ZArith Bool Lia ZifyN ZifyNat.
From T38 Require Import Base.Bytes Model.Float32 Model.Collection Model.Search Model.Cursor Model.SearchReply
  Proofs.CollectionProofs Proofs.CursorProofs Proofs.SearchProofs.
Import ListNotations.
Open Scope N_scope.

Lemma filter_length_le {A} (f : A -> bool) l : (length (filter f l) <= length l)%nat.
Proof. induction l as [|x r IH]; cbn; [lia|]. destruct (f x); cbn; lia. Qed.

Lemma filter_app_length {A} (f : A -> bool) a b :
  (length (filter f a) <= length (filter f (a ++ b)))%nat.
Proof. rewrite filter_app, app_length. lia. Qed.

Section P.
  Variable Q : Type.
  Variable qrect : Q -> rect64.
  Variable hits : obj -> Q -> bool.
  Variable test : obj -> bool.

  Notation search := (search Q qrect hits).
  Notation reply := (search_reply Q qrect hits test).

  Lemma accepted_is_filtered_search c q :
    filter (fun o => hits o q && test o) (geo_search (c_spatial c) (qrect q)) = filter test (search c q).
  Proof. unfold Search.search. rewrite filter_filter. reflexivity. Qed.

  (* a LIMIT above the number of matching objects: the reply is the filtered search result, cursor 0 *)
  Lemma reply_exact c q limit :
    N.of_nat (length (filter test (search c q))) < limit ->
    reply c q 0 limit = (filter test (search c q), 0).
  Proof.
    intros Hl. unfold search_reply, geo_page.
    set (f := fun o => hits o q && test o). set (src := geo_search (c_spatial c) (qrect q)).
    assert (H1 : 1 <= limit) by lia.
    destruct (page_spec f (fun _ => false) src 0 limit H1)
      as [[Hc Hi] | (pre & post & Hr & Hne & Hns & Hc & Hi & Hn)].
    - unfold rest_at in Hi. cbn [N.to_nat skipn] in Hi. unfold unlimited in Hi.
      rewrite until_stop_false in Hi. subst f src. rewrite accepted_is_filtered_search in Hi.
      destruct (page _ _ _ _ _) as [items cur]. cbn [fst snd] in *. subst. reflexivity.
    - exfalso. unfold rest_at in Hr. cbn [N.to_nat skipn] in Hr.
      pose proof (filter_app_length f pre post) as Hle. rewrite <- Hr in Hle.
      subst f src. rewrite accepted_is_filtered_search in Hle. lia.
  Qed.

  (* any cursor, any LIMIT: every object of the reply is a search result that passed the filters *)
  Lemma reply_sound c q cursor limit o :
    1 <= limit -> In o (fst (reply c q cursor limit)) -> In o (search c q) /\ test o = true.
  Proof.
    intros H1 Hin. unfold search_reply, geo_page in Hin.
    set (f := fun o => hits o q && test o) in *. set (src := geo_search (c_spatial c) (qrect q)) in *.
    assert (Hsub : In o (filter f src)).
    { destruct (page_spec f (fun _ => false) src cursor limit H1)
        as [[_ Hi] | (pre & post & Hr & _ & _ & _ & Hi & _)]; rewrite Hi in Hin.
      - unfold unlimited in Hin. rewrite until_stop_false in Hin. apply filter_In in Hin.
        destruct Hin as [Hm Hf]. apply filter_In. split; [|exact Hf].
        unfold rest_at in Hm. rewrite <- (firstn_skipn (N.to_nat cursor) src). apply in_or_app. right; exact Hm.
      - apply filter_In in Hin. destruct Hin as [Hm Hf]. apply filter_In. split; [|exact Hf].
        unfold rest_at in Hr. rewrite <- (firstn_skipn (N.to_nat cursor) src), Hr.
        apply in_or_app. right. apply in_or_app. left; exact Hm. }
    subst f src. rewrite accepted_is_filtered_search in Hsub. apply filter_In in Hsub. exact Hsub.
  Qed.

  (* with the index theorem: the reply is exactly what TEST says, filtered *)
  Lemma reply_equals_test c q limit :
    Wf c ->
    (forall o, o_empty o = false -> hits o q = true -> overlap64 (o_rect o) (qrect q)) ->
    (forall o, o_empty o = false -> hits o q = true -> o_spatial o = true) ->
    N.of_nat (length (filter test (search c q))) < limit ->
    snd (reply c q 0 limit) = 0 /\
    (forall o, In o (fst (reply c q 0 limit)) <-> In o (test_spec Q hits c q) /\ test o = true) /\
    NoDup (map o_id (fst (reply c q 0 limit))).
  Proof.
    intros Hwf H1 H2 Hl. rewrite (reply_exact c q limit Hl). cbn [fst snd].
    destruct (search_equals_test Q qrect hits c q Hwf H1 H2) as [Hiff Hnd].
    split; [reflexivity|]. split.
    - intros o. rewrite filter_In, Hiff. reflexivity.
    - clear - Hnd. induction (search c q) as [|x r IH]; cbn; [constructor|].
      cbn in Hnd. inversion Hnd; subst. destruct (test x); cbn; [constructor|]; auto.
      intros Hin. apply H1. clear - Hin. induction r as [|y r IH]; cbn in *; [contradiction|].
      destruct (test y); cbn in *; [destruct Hin; auto|auto].
  Qed.
End P.

(* no MATCH / WHERE*: the ids of the reply are exactly the ids for which TEST answers 1 *)
Lemma reply_no_filter_equals_test (Q : Type) (qrect : Q -> rect64) (hits : obj -> Q -> bool) c q limit :
  Wf c ->
  (forall o, o_empty o = false -> hits o q = true -> overlap64 (o_rect o) (qrect q)) ->
  (forall o, o_empty o = false -> hits o q = true -> o_spatial o = true) ->
  N.of_nat (length (search Q qrect hits c q)) < limit ->
  search_reply Q qrect hits no_filter c q 0 limit = (search Q qrect hits c q, 0) /\
  (forall o, In o (fst (search_reply Q qrect hits no_filter c q 0 limit)) <-> In o (test_spec Q hits c q)).
Proof.
  intros Hwf H1 H2 Hl.
  assert (Hf : filter no_filter (search Q qrect hits c q) = search Q qrect hits c q).
  { apply filter_all. reflexivity. }
  assert (Hl' : N.of_nat (length (filter no_filter (search Q qrect hits c q))) < limit) by (rewrite Hf; exact Hl).
  split.
  - rewrite (reply_exact Q qrect hits no_filter c q limit Hl'), Hf. reflexivity.
  - intros o. destruct (reply_equals_test Q qrect hits no_filter c q limit Hwf H1 H2 Hl') as (_ & Hiff & _).
    rewrite Hiff. unfold no_filter. tauto.
Qed.
