(* C09 — lemmas about Model/ShrinkLoad.v (what a restart makes of the rewritten log).

   1. field names: with the reserved-name check on the stored (trimmed) name every reachable dataset
      has a snapshot the loader accepts and executes as it is; with the check on the name as sent:
      refuted
   2. coordinates that are not finite: payload round trip
   3. start-up order: restore before migrate recovers every crash point whatever legacy file is
      around; migrate before restore: refuted *)
From Coq Require Import String.
From Coq Require Import List NArith ZArith Bool Lia.
From T38 Require Import Base.Bytes Base.SMap Model.Shrink Model.ShrinkLoad Proofs.ShrinkProofs.
Import ListNotations.
Local Open Scope nat_scope.

(* ------------------------------------------------------------------ 0. transcription *)

Theorem load_checks_transcribed :
  set_txs_src = Some [TTrim] /\ fset_txs_src = Some [TTrim] /\
  check_sites_src = ["cmdFSET"; "cmdSET"]%string /\ startup_src = Some startup_ops.
Proof. repeat split; vm_compute; reflexivity. Qed.

(* ------------------------------------------------------------------ 1. field names *)

Section Names.
Variable trim : bytes -> bytes.
Variables f_set f_fset : bytes -> bytes.
(* a stored name is looked at by SET's check the way the creating site looked at the name as sent *)
Hypothesis set_of_stored : forall n, f_set (trim n) = f_set n.
Hypothesis fset_then_set : forall n, f_set (trim n) = f_fset n.
Hypothesis trim_idem : forall n, trim (trim n) = trim n.

Notation exec_n' := (exec_n trim f_set f_fset).
Notation replay_n' := (replay_n trim f_set f_fset).

(* a stored name: trimmed, and accepted by SET ... FIELD name on replay *)
Definition nm_ok (n : bytes) : Prop := reserved (f_set n) = false /\ trim n = n.
Definition fields_ok (fs : smap fval) : Prop := Forall (fun nv => nm_ok (fst nv)) fs.
Definition col_ok (c : coll) : Prop := Forall (fun io => fields_ok (o_fields (snd io))) c.
Definition names_ok (s : st) : Prop := Forall (fun kc => col_ok (snd kc)) s.
Definition us_names_ok (us : fupd) : Prop := Forall (fun u => nm_ok (fst u)) us.

Definition cmd_names_ok (c : cmd) : Prop :=
  match c with
  | CSet _ _ us _ _ => us_names_ok us
  | CFset _ _ us => us_names_ok us
  | _ => True
  end.

Lemma norm_us_names f us : (forall n, f_set (trim n) = f n) ->
  us_ok f us = true -> us_names_ok (norm_us trim us).
Proof.
  intros Hf. unfold us_ok, us_names_ok, norm_us. induction us as [|u us IH]; intros H; cbn in *; [constructor|].
  apply andb_true_iff in H. destruct H as [Hu Hr]. constructor; [|apply IH; exact Hr].
  cbn. unfold nm_ok. rewrite trim_idem, Hf. split; [|reflexivity].
  apply negb_true_iff in Hu. exact Hu.
Qed.

Lemma norm_names c : cmd_ok f_set f_fset c = true -> cmd_names_ok (norm trim c).
Proof.
  destruct c; cbn; intros H; try exact I.
  - eapply norm_us_names; [exact set_of_stored | exact H].
  - eapply norm_us_names; [exact fset_then_set | exact H].
Qed.

Lemma fset1_ok fs u : fields_ok fs -> nm_ok (fst u) -> fields_ok (fset1 fs u).
Proof.
  intros Hf Hu. unfold fset1. destruct (snd u).
  - apply Forall_set; [exact Hf | exact Hu].
  - apply Forall_del; exact Hf.
Qed.

Lemma apply_fields_ok us : forall fs, fields_ok fs -> us_names_ok us -> fields_ok (apply_fields fs us).
Proof.
  unfold apply_fields. induction us as [|u us IH]; intros fs Hf Hu; cbn; [exact Hf|].
  inversion Hu; subst. apply IH; [apply fset1_ok; assumption | assumption].
Qed.

Lemma fset_loop_ok us : forall fs n, fields_ok fs -> us_names_ok us -> fields_ok (fst (fset_loop fs us n)).
Proof.
  induction us as [|u us IH]; intros fs n Hf Hu; cbn; [exact Hf|].
  inversion Hu; subst. destruct (ofval_eqb (get (fst u) fs) (snd u)).
  - apply IH; assumption.
  - apply IH; [apply fset1_ok; assumption | assumption].
Qed.

Lemma names_get s k col : names_ok s -> get k s = Some col -> col_ok col.
Proof. intros H G. exact (Forall_get (fun kc => col_ok (snd kc)) k s col H G). Qed.

Lemma col_get col i o : col_ok col -> get i col = Some o -> fields_ok (o_fields o).
Proof. intros H G. exact (Forall_get (fun io => fields_ok (o_fields (snd io))) i col o H G). Qed.

Lemma names_set s k col : names_ok s -> col_ok col -> names_ok (set k col s).
Proof. intros H C. apply (Forall_set (fun kc => col_ok (snd kc))); assumption. Qed.

Lemma names_del s k : names_ok s -> names_ok (del k s).
Proof. intros H. apply (Forall_del (fun kc => col_ok (snd kc))); assumption. Qed.

Lemma col_set col i o : col_ok col -> fields_ok (o_fields o) -> col_ok (set i o col).
Proof. intros H C. apply (Forall_set (fun io => fields_ok (o_fields (snd io)))); assumption. Qed.

Lemma names_put_col s k col : names_ok s -> col_ok col -> names_ok (put_col k col s).
Proof. intros H C. unfold put_col. destruct col; [apply names_del | apply names_set]; assumption. Qed.

Lemma exec_names_ok s c : names_ok s -> cmd_names_ok c -> names_ok (fst (exec s c)).
Proof.
  intros Hs Hc. destruct c as [k i us ex geo|k i us|k i|k i|k i|k pat|k|a b|]; cbn [exec].
  - (* SET *) cbn [fst]. cbn in Hc.
    assert (Hcol : col_ok (match get k s with Some c => c | None => [] end)).
    { destruct (get k s) eqn:G; [eapply names_get; eauto | constructor]. }
    apply names_set; [exact Hs|]. apply col_set; [exact Hcol|]. cbn [o_fields].
    apply apply_fields_ok; [|exact Hc].
    match goal with |- fields_ok (match ?g with Some _ => _ | None => _ end) =>
      destruct g as [o0|] eqn:G end; [exact (col_get _ _ _ Hcol G) | constructor].
  - (* FSET *) cbn in Hc.
    destruct (get k s) as [col|] eqn:G; [|exact Hs].
    destruct (get i col) as [o|] eqn:G2; [|exact Hs].
    pose proof (names_get _ _ _ Hs G) as Hcol. pose proof (col_get _ _ _ Hcol G2) as Hf.
    pose proof (fset_loop_ok us (o_fields o) 0 Hf Hc) as Hl.
    destruct (fset_loop (o_fields o) us 0) as [fs' n]. cbn [fst] in *.
    apply names_set; [exact Hs|]. apply col_set; [exact Hcol | exact Hl].
  - (* EXPIRE *)
    destruct (get k s) as [col|] eqn:G; [|exact Hs].
    destruct (get i col) as [o|] eqn:G2; [|exact Hs]. cbn [fst].
    pose proof (names_get _ _ _ Hs G) as Hcol.
    apply names_set; [exact Hs|]. apply col_set; [exact Hcol | cbn [o_fields]; exact (col_get _ _ _ Hcol G2)].
  - (* PERSIST *)
    destruct (get k s) as [col|] eqn:G; [|exact Hs].
    destruct (get i col) as [o|] eqn:G2; [|exact Hs].
    destruct (o_dl o); [|exact Hs]. cbn [fst].
    pose proof (names_get _ _ _ Hs G) as Hcol.
    apply names_set; [exact Hs|]. apply col_set; [exact Hcol | cbn [o_fields]; exact (col_get _ _ _ Hcol G2)].
  - (* DEL *)
    destruct (get k s) as [col|] eqn:G; [|exact Hs].
    destruct (get i col) as [o|] eqn:G2; [|exact Hs]. cbn [fst].
    apply names_put_col; [exact Hs|].
    apply (Forall_del (fun io => fields_ok (o_fields (snd io)))). eapply names_get; eauto.
  - (* PDEL *)
    destruct (get k s) as [col|] eqn:G; [|exact Hs].
    destruct (Nat.eqb _ _); [exact Hs|]. cbn [fst].
    apply names_put_col; [exact Hs|]. apply Forall_filter. eapply names_get; eauto.
  - (* DROP *) destruct (get k s); [apply names_del|]; exact Hs.
  - (* RENAME *)
    destruct (get a s) as [col|] eqn:G; [|exact Hs]. cbn [fst].
    apply names_set; [apply names_del, names_del; exact Hs | eapply names_get; eauto].
  - constructor.
Qed.

(* every command the server accepts keeps the invariant *)
Theorem exec_n_names_ok s c s' o :
  names_ok s -> exec_n' s c = Some (s', o) -> names_ok s'.
Proof.
  unfold exec_n. intros Hs H. destruct (cmd_ok f_set f_fset c) eqn:Hc; [|discriminate].
  inversion H as [H1]. pose proof (exec_names_ok s (norm trim c) Hs (norm_names c Hc)) as Hn.
  rewrite H1 in Hn. exact Hn.
Qed.

(* a record whose names are stored names is accepted and executed as it is *)
Definition rec_plain (c : cmd) : Prop := cmd_ok f_set f_fset c = true /\ norm trim c = c.

Lemma fields_of_plain fs : fields_ok fs ->
  us_ok f_set (fields_of fs) = true /\ norm_us trim (fields_of fs) = fields_of fs.
Proof.
  unfold fields_ok, us_ok, norm_us, fields_of. induction fs as [|[n v] fs IH]; intros H; cbn; [split; reflexivity|].
  inversion H as [|x l [Hr Ht] Hl]; subst. cbn in Hr, Ht. destruct (IH Hl) as [I1 I2].
  split.
  - rewrite Hr. cbn. exact I1.
  - rewrite Ht. f_equal. exact I2.
Qed.

Lemma rec_cmd_plain k i o : fields_ok (o_fields o) -> rec_plain (rec_cmd k i o).
Proof.
  intros H. destruct (fields_of_plain _ H) as [H1 H2]. unfold rec_plain, rec_cmd. cbn. split; [exact H1|].
  rewrite H2. reflexivity.
Qed.

Lemma replay_n_plain l : forall s, Forall rec_plain l -> replay_n' l s = Some (replay l s).
Proof.
  induction l as [|c l IH]; intros s H; cbn; [reflexivity|].
  inversion H as [|x t [Hc Hn] Ht]; subst. unfold exec_n. rewrite Hc, Hn.
  destruct (exec s c) as [s' o] eqn:E. cbn [fst]. apply IH; exact Ht.
Qed.

Theorem snapshot_record_loads s k i o s' :
  names_ok s -> lookup k i s = Some o ->
  exec_n' s' (rec_cmd k i o) = Some (exec s' (rec_cmd k i o)).
Proof.
  intros Hs Hl. destruct (lookup_some _ _ _ _ Hl) as [col [G1 G2]].
  pose proof (col_get _ _ _ (names_get _ _ _ Hs G1) G2) as Hf.
  destruct (rec_cmd_plain k i o Hf) as [Hc Hn]. unfold exec_n. rewrite Hc, Hn. reflexivity.
Qed.

Lemma flatten_plain s : names_ok s -> Forall rec_plain (map rec_of (flatten s)).
Proof.
  intros Hs. apply Forall_forall. intros c Hin. apply in_map_iff in Hin. destruct Hin as [[[k i] o] [Hc Hin]].
  subst c. unfold flatten in Hin. apply in_flat_map in Hin. destruct Hin as [[k' col] [Hk Hin]].
  apply in_map_iff in Hin. destruct Hin as [[i' o'] [He Hi]]. cbn in He. inversion He; subst.
  unfold rec_of. cbn. apply rec_cmd_plain.
  unfold names_ok in Hs. rewrite Forall_forall in Hs. specialize (Hs _ Hk). cbn in Hs.
  unfold col_ok in Hs. rewrite Forall_forall in Hs. exact (Hs _ Hi).
Qed.

(* the whole snapshot of a dataset that was built by accepted commands loads, and loads to what
   the unchecked replay (the subject of the other C09 theorems) gives *)
Theorem snapshot_loads s s0 :
  names_ok s -> replay_n' (map rec_of (flatten s)) s0 = Some (replay (map rec_of (flatten s)) s0).
Proof. intros Hs. apply replay_n_plain, flatten_plain, Hs. Qed.

(* datasets reachable through accepted commands *)
Fixpoint run_n (l : list cmd) (s : st) : st :=
  match l with
  | [] => s
  | c :: r => match exec_n' s c with
              | Some (s', _) => run_n r s'
              | None => run_n r s           (* refused: -ERR invalid argument *)
              end
  end.

Lemma run_n_names_ok l : forall s, names_ok s -> names_ok (run_n l s).
Proof.
  induction l as [|c l IH]; intros s Hs; cbn; [exact Hs|].
  destruct (exec_n' s c) as [[s' o]|] eqn:E; apply IH; [eapply exec_n_names_ok; eauto | exact Hs].
Qed.

Theorem reachable_snapshot_loads l s0 :
  let s := run_n l [] in
  replay_n' (map rec_of (flatten s)) s0 = Some (replay (map rec_of (flatten s)) s0).
Proof. intros s. apply snapshot_loads. apply run_n_names_ok. constructor. Qed.

End Names.

(* both checks on the trimmed name (the repaired tree): the hypotheses hold for every idempotent trim *)
Theorem snapshot_loads_trim trim : (forall n, trim (trim n) = trim n) ->
  forall l s0, let s := run_n trim trim trim l [] in
    replay_n trim trim trim (map rec_of (flatten s)) s0 = Some (replay (map rec_of (flatten s)) s0).
Proof. intros H. apply reachable_snapshot_loads; intros n; rewrite ?H; reflexivity. Qed.

(* ... which is what the source says *)
Theorem snapshot_loads_src trim fs ff : (forall n, trim (trim n) = trim n) ->
  set_txs_src = Some fs -> fset_txs_src = Some ff ->
  forall l s0, let s := run_n trim (f_of trim fs) (f_of trim ff) l [] in
    replay_n trim (f_of trim fs) (f_of trim ff) (map rec_of (flatten s)) s0 = Some (replay (map rec_of (flatten s)) s0).
Proof.
  intros H Hs Hf. destruct load_checks_transcribed as [T1 [T2 _]]. rewrite T1 in Hs. rewrite T2 in Hf.
  inversion Hs; inversion Hf; subst. apply reachable_snapshot_loads; intros n; cbn; rewrite ?H; reflexivity.
Qed.

(* the check on the name as sent (pinned tree): SET k id FIELD " z" 5 ... is accepted, stored as z, and
   the snapshot record "set k id field z 5 ..." is refused by the loader: the server does not start *)
Definition c_padded : cmd := CSet [107%N] [105%N; 100%N] [([32%N; 122%N], Some [53%N])] false [120%N].
Definition f_id (n : bytes) : bytes := n.

Theorem names_check_as_sent_refuted :
  exists c s', exec_n trim_ws f_id f_id [] c = Some (s', Updated) /\
    (exists k i o, lookup k i s' = Some o) /\
    replay_n trim_ws f_id f_id (map rec_of (flatten s')) [] = None /\
    exec_n trim_ws trim_ws trim_ws [] c = None.
Proof.
  exists c_padded. eexists. split; [vm_compute; reflexivity|].
  split; [exists [107%N], [105%N; 100%N]; eexists; vm_compute; reflexivity|].
  split; vm_compute; reflexivity.
Qed.

(* SET stricter than FSET (SET lower-cases the name before the check, FSET does not): FSET k id LON 7
   is accepted; the snapshot re-expresses the object as "set k id field LON 7 ..." and the loader
   refuses it, while the un-shrunk log (SET ...; FSET ...) loads *)
Definition f_set_lower (n : bytes) : bytes := f_of trim_ws [TLower; TTrim] n.
Definition l_upper : list cmd :=
  [CSet [107%N] [105%N; 100%N] [] false [120%N]; CFset [107%N] [105%N; 100%N] [([76%N; 79%N; 78%N], Some [55%N])]].

Theorem names_set_stricter_refuted :
  exists l, let s := run_n trim_ws f_set_lower trim_ws l [] in
    replay_n trim_ws f_set_lower trim_ws l [] = Some s /\
    (exists k i o, lookup k i s = Some o /\ o_fields o <> []) /\
    replay_n trim_ws f_set_lower trim_ws (map rec_of (flatten s)) [] = None /\
    (exists n, reserved (trim_ws n) = false /\ reserved (f_set_lower (trim_ws n)) = true).
Proof.
  exists l_upper. split; [vm_compute; reflexivity|].
  split; [exists [107%N], [105%N; 100%N]; eexists; split; [vm_compute; reflexivity | discriminate]|].
  split; [vm_compute; reflexivity|]. exists [76%N; 79%N; 78%N]. split; vm_compute; reflexivity.
Qed.

(* ------------------------------------------------------------------ 2. non-finite coordinates *)

Lemma all_some_finite cs : forallb finite cs = true -> all_some (map nof_strict (map jof cs)) = Some cs.
Proof.
  induction cs as [|c cs IH]; intros H; cbn in *; [reflexivity|].
  apply andb_true_iff in H. destruct H as [Hc Hr]. destruct c; try discriminate. cbn. rewrite IH by exact Hr. reflexivity.
Qed.

Lemma eqb_point_refl : bytes_eqb k_point k_point = true.
Proof. vm_compute. reflexivity. Qed.

Lemma eqb_polygon_point : bytes_eqb k_polygon k_point = false.
Proof. vm_compute. reflexivity. Qed.

Lemma valid_finite n : valid n = true -> finite n = true.
Proof. destruct n; cbn; congruence. Qed.

(* the repaired writer, with or without REQUIREVALID: every point and rectangle POINT / BOUNDS can
   create, and every other object that the same server accepted through the GeoJSON reader (finite
   coordinates; valid ones when it runs with REQUIREVALID), is read back with the same type and the
   same coordinates *)
Theorem geo_roundtrip rv g :
  match g with
  | GOther k cs => bytes_eqb k k_point = false /\ forallb finite cs = true /\ (rv = true -> forallb valid cs = true)
  | _ => True
  end ->
  option_map coords (dec rv (enc g)) = Some (coords g).
Proof.
  destruct g as [y x|y x z|a b c d|k cs]; intros H.
  - cbn [enc]. destruct (valid y && valid x) eqn:F; [|reflexivity].
    apply andb_true_iff in F. destruct F as [Fy Fx]. destruct y, x; try discriminate. cbn in Fy, Fx. subst.
    unfold enc_orig. cbn [coords fst snd map jof dec]. rewrite eqb_point_refl. cbn. rewrite andb_false_r. reflexivity.
  - cbn [enc]. destruct (valid y && valid x && finite z) eqn:F; [|reflexivity].
    apply andb_true_iff in F. destruct F as [F Fz]. apply andb_true_iff in F. destruct F as [Fy Fx].
    destruct y, x, z; try discriminate. cbn in Fy, Fx. subst.
    unfold enc_orig. cbn [coords fst snd map jof dec]. rewrite eqb_point_refl. cbn. rewrite andb_false_r. reflexivity.
  - cbn [enc]. destruct (valid a && valid b && valid c && valid d) eqn:F; [|reflexivity].
    apply andb_true_iff in F. destruct F as [F Fd]. apply andb_true_iff in F. destruct F as [F Fc].
    apply andb_true_iff in F. destruct F as [Fa Fb]. destruct a, b, c, d; try discriminate. cbn in Fa, Fb, Fc, Fd. subst.
    unfold enc_orig. cbn [coords fst snd map jof dec]. rewrite eqb_polygon_point. cbn. rewrite andb_false_r. reflexivity.
  - destruct H as [Hk [Hf Hv]]. cbn [enc]. unfold enc_orig. cbn [coords fst snd dec]. rewrite Hk.
    rewrite all_some_finite by exact Hf. destruct rv; cbn; [rewrite (Hv eq_refl); reflexivity | reflexivity].
Qed.

Definition t1 : bytes := [49%N].
Definition t2 : bytes := [50%N].
Definition t4 : bytes := [52%N].
Definition t5 : bytes := [53%N].
Definition t100 : bytes := [49%N; 48%N; 48%N].
Definition t200 : bytes := [50%N; 48%N; 48%N].
Definition k_line : bytes := bytes_of_string "LineString".

(* the pinned writer: POINT 1 inf comes back as POINT 1 NaN; BOUNDS 1 2 nan 4 does not load *)
Theorem geo_orig_refuted :
  (exists g g', dec false (enc_orig g) = Some g' /\ coords g' <> coords g) /\
  (exists g, dec false (enc_orig g) = None).
Proof.
  split.
  - exists (GPoint (Fin t1 true) PInf), (GPoint (Fin t1 true) NaN). split; [vm_compute; reflexivity | vm_compute; discriminate].
  - exists (GRect (Fin t1 true) (Fin t2 true) NaN (Fin t4 true)). vm_compute. reflexivity.
Qed.

(* the first repair (non-finite coordinates only) under REQUIREVALID: POINT 100 200 is accepted (POINT
   is never validated), written as object {"type":"Point","coordinates":[200,100]} and refused at load;
   without REQUIREVALID the same record loads *)
Theorem geo_requirevalid_refuted :
  exists g, dec true (enc_finite g) = None /\ option_map coords (dec false (enc_finite g)) = Some (coords g) /\
            option_map coords (dec true (enc g)) = Some (coords g).
Proof. exists (GPoint (Fin t100 false) (Fin t200 false)). repeat split; vm_compute; reflexivity. Qed.

(* open: any other geometry with an infinite coordinate (an overflowing literal such as 1e999 in the
   GeoJSON text) is written with null and refused at load *)
Theorem geo_other_nonfinite_refuted :
  exists k cs, bytes_eqb k k_point = false /\ dec false (enc (GOther k cs)) = None.
Proof. exists k_line, [PInf; Fin t5 true; Fin t1 true; Fin t2 true]. split; vm_compute; reflexivity. Qed.

(* ------------------------------------------------------------------ 3. start-up order *)

Theorem startup_recovers dflt legacy n d rest :
  msorted rest -> (d_live d <> None \/ d_bak d <> None) ->
  startup startup_ops dflt legacy n (to_fs n d rest) = Some (recover_dir d).
Proof.
  intros Hs Hd. destruct (get_to_fs n d rest Hs) as [Hl Hb].
  unfold startup, startup_ops. cbn [fold_left do_sop fst snd].
  set (fs := to_fs n d rest) in *.
  assert (Hr : exists f, get n (restore_backup n fs) = Some f /\ recover_dir d = replay f []).
  { unfold restore_backup, recover_dir. rewrite Hl. destruct (d_live d) as [f|] eqn:E.
    - exists f. split; [exact Hl | reflexivity].
    - rewrite Hb. destruct (d_bak d) as [f|] eqn:E2.
      + exists f. split; [apply get_set_same | reflexivity].
      + destruct Hd as [Hd|Hd]; congruence. }
  destruct Hr as [f [Hg Hrec]]. set (fs1 := restore_backup n fs) in *.
  assert (Hm : get n (migrate dflt legacy fs1) = Some f).
  { unfold migrate. destruct (get dflt fs1) eqn:E1; [exact Hg|].
    destruct (get legacy fs1) eqn:E2; [|exact Hg].
    rewrite get_set_other; [exact Hg|]. intros Heq. subst. congruence. }
  rewrite Hm. rewrite Hm. rewrite Hrec. reflexivity.
Qed.

Lemma crash_at_has_log fi c : d_live (crash_at fi c) <> None \/ d_bak (crash_at fi c) <> None.
Proof. destruct c; unfold crash_at, dir_start; cbn; first [left; discriminate | right; discriminate]. Qed.

(* every crash point of the final section, whatever legacy file (and other files) the directory
   holds, under every log name *)
Theorem crash_points_legacy dflt legacy n rest fi c :
  msorted rest -> crash_hyp fi ->
  exists s, startup startup_ops dflt legacy n (to_fs n (crash_at fi c) rest) = Some s /\
    (same_data s (replay (f_live fi) []) \/ same_data s (replay (f_live fi ++ f_pend fi) [])).
Proof.
  intros Hs H. exists (recover_dir (crash_at fi c)). split.
  - apply startup_recovers; [exact Hs | apply crash_at_has_log].
  - apply crash_points; exact H.
Qed.

Theorem crash_points_legacy_src dflt legacy n rest fi c ops :
  startup_src = Some ops -> msorted rest -> crash_hyp fi ->
  exists s, startup ops dflt legacy n (to_fs n (crash_at fi c) rest) = Some s /\
    (same_data s (replay (f_live fi) []) \/ same_data s (replay (f_live fi ++ f_pend fi) [])).
Proof.
  intros Ho. rewrite (proj2 (proj2 (proj2 load_checks_transcribed))) in Ho. inversion Ho; subst. apply crash_points_legacy.
Qed.

(* migrate first: after a crash between the two renames the legacy file is migrated into the live
   name and the backup is ignored *)
Definition n_dflt : bytes := [100%N].
Definition n_legacy : bytes := [97%N].
Definition f_old : file := [CSet [111%N] [49%N] [] false [120%N]].

Theorem startup_migrate_first_refuted :
  exists fi, crash_hyp fi /\
    startup startup_ops_orig n_dflt n_legacy n_dflt (to_fs n_dflt (crash_at fi CP_after_rename_bak) [(n_legacy, f_old)])
      = Some (replay f_old []) /\
    (exists k i, lookup k i (replay f_old []) <> lookup k i (replay (f_live fi) [])) /\
    startup startup_ops n_dflt n_legacy n_dflt (to_fs n_dflt (crash_at fi CP_after_rename_bak) [(n_legacy, f_old)])
      = Some (replay (f_live fi) []).
Proof.
  exists fi_small. split; [intros k i; reflexivity|].
  split; [vm_compute; reflexivity|]. split; [|vm_compute; reflexivity].
  exists [111%N], [49%N]. vm_compute. discriminate.
Qed.
